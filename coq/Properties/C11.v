(** C11 — [SubmissionQueue::wake] never loses a wake-up: a [wake()] call targets the
    [Ring::poll] that is in progress (called, not yet returned) at the wake's linearisation
    point (its [fetch_or]), or else the next one to start; the target returns without waiting
    for I/O or for its timeout. For any number of wakers, of calls and of polls, every
    interleaving, the three ring modes (default, single issuer, kernel thread), every size of
    the submission queue and any number of unrelated entries in it (a [wake] that finds the
    queue full enters the kernel and tries again; safety only: the termination of that loop is
    not claimed, a retrying waker counts as "inside its call"), and any number [nparked] of futures
    parked on the blocked-futures list when the race starts (they were polled while the queue was
    full; [Shared::wake_blocked_futures] — after every successful enter and at the end of every
    poll — takes the list, wakes as many as there are free slots, locks again and puts the rest
    back: modelled with all its scheduling points). The poller's [io_uring_enter] can
    be interrupted by a signal at any time (event [PI]: at the call, or while blocked).
    Every poll is called with [None] or with a finite timeout ([tm]: any list of choices); a wait
    with a finite timeout ends with ETIME (event [Timeout]) when the scheduler reports that nobody
    is left who could wake it, and that counts as a lost wake-up when one is owed: the poll slept
    its whole timeout through it. On a single-issuer ring the wakers never enter the kernel (the
    synchronous IORING_REGISTER_SEND_MSG_RING): the kernel would refuse them.
    Property theorems only; model in Model/Wake.v, proofs in Proofs/WakeProofs.v. *)
From A10 Require Import Base.Word Base.Run Gen.Consts Model.Wake Proofs.WakeProofs.

(** On every schedule the scheduler / kernel can produce (a blocked poller is resumed only when
    something arrived or a signal interrupts it; a signal can interrupt the poller's enter
    anywhere; "stuck" is reported only when the poller is blocked, both queues are empty and
    every waker has finished; the timeout of a wait with a finite timeout expires under the same
    conditions) the poller is never stuck while a wake-up is owed, and no poll with a finite
    timeout sleeps its whole timeout while a wake-up is owed. *)
Theorem C11_no_lost_ring_wakeup : no_lost_ring_wakeup.
Proof. exact no_lost_ring_wakeup_holds. Qed.

(** The invariant behind it: whenever the poller is blocked in the kernel and a wake-up is
    owed, a completion is in the queue, a wake message is published, or a waker is committed
    to post one (inside [add], or between an [add] that failed on a full queue and its retry). *)
Theorem C11_wake_is_on_its_way : wake_is_on_its_way.
Proof. exact wake_is_on_its_way_holds. Qed.

(** A wake that finds nobody polling leaves the awoken bit; the next [set_polling(true)]
    reports it, and that poll enters with a zero timeout. *)
Theorem C11_awoken_bit_makes_next_poll_prompt : awoken_bit_makes_next_poll_prompt.
Proof. exact awoken_bit_makes_next_poll_prompt_holds. Qed.

(** The same, read off the two scheduler reports: whenever the blocked poller could be reported
    stuck, or its finite timeout could expire, nothing is owed. *)
Theorem C11_expired_timeout_means_nothing_owed : expired_timeout_means_nothing_owed.
Proof. exact expired_timeout_means_nothing_owed_holds. Qed.

(** An awoken poll enters with a zero timeout whatever timeout the caller passed: it does not wait. *)
Theorem C11_awoken_poll_does_not_wait : awoken_poll_does_not_wait.
Proof. exact awoken_poll_does_not_wait_holds. Qed.

(** On every schedule whatsoever: a published, unconsumed wake message ([sqo] counts the pending
    entries, at the front, that are not wake messages) has a submitter (the kernel thread, or a
    waker about to [enter] with a [to_submit] that covers it). *)
Theorem C11_pending_message_has_a_submitter : pending_message_has_a_submitter.
Proof. exact pending_message_has_a_submitter_holds. Qed.

(** The two combined: a blocked poller that is owed a wake-up can be resumed at once or some
    waker is still inside its call. *)
Theorem C11_owed_poller_is_resumable_or_a_waker_is_running :
  owed_poller_is_resumable_or_a_waker_is_running.
Proof. exact owed_poller_is_resumable_or_a_waker_is_running_holds. Qed.

(** An interrupted [io_uring_enter] (EINTR at the call, or a signal while blocked) makes the poll
    return: from there on, whatever the wakers do and whatever else happens, the poller never
    blocks before the poll in progress has returned, and it returns within 11 poller steps (7
    when the call failed with EINTR; a [wake_blocked_futures] that finds parked futures and a
    free slot has a fourth scheduling point, the second lock). *)
Theorem C11_interrupted_enter_makes_poll_return : interrupted_enter_makes_poll_return.
Proof. exact interrupted_enter_makes_poll_return_holds. Qed.

(** The ghost "a wake-up is owed" is cleared by a poll return and by nothing else that changes
    the number of polls left. *)
Theorem C11_poll_return_clears_owed : poll_return_clears_owed.
Proof. exact poll_return_clears_owed_holds. Qed.

(** NOT the code as it is (seeded change C11-e): a [Completions::poll] that waits again after
    EINTR loses the wake-up made before the poll started. *)
Theorem C11_eintr_retry_loses_wakeup_refuted : eintr_retry_loses_wakeup.
Proof. exact eintr_retry_loses_wakeup_refuted. Qed.

(** NOT the code as it is (seeded change C11-h): a third bit HAS_WAITING ("futures are parked") in
    the state word, kept by [set_polling], while [PollingState::wake] still compares the whole
    word with [IS_POLLING]: with one future parked and the poll blocked the word is
    [IS_POLLING | HAS_WAITING], [wake()] sends no message and the poll sleeps through the wake-up.
    On the same events the code as it is has the waker committed to post. *)
Theorem C11_has_waiting_bit_loses_wakeup_refuted : has_waiting_bit_loses_wakeup.
Proof. exact has_waiting_bit_loses_wakeup_refuted. Qed.

(** NOT the code as it is (seeded change C11-j): a [Completions::poll] that keeps the caller's
    [Some(t)] when [set_polling(true)] reported "awoken" ([timeout.or(awoken.then_some(ZERO))])
    sleeps its whole timeout through the wake-up made before the poll started. On the same events
    the code as it is returns. *)
Theorem C11_kept_timeout_loses_wakeup_refuted : kept_timeout_loses_wakeup.
Proof. exact kept_timeout_loses_wakeup_refuted. Qed.

(** NOT the code as it is (seeded change C11-i): wakers that take the ordinary path (add + enter)
    on a single-issuer ring: the kernel refuses their enter (EEXIST), the message is published
    and never submitted, the blocked poll sleeps through the wake-up. On the same events the code
    as it is has posted the message synchronously. *)
Theorem C11_refused_enter_loses_wakeup_refuted : refused_enter_loses_wakeup.
Proof. exact refused_enter_loses_wakeup_refuted. Qed.

(** Documentation, not a violation: under the stricter reading "a wake targets a poll that is
    inside the kernel, else the next to start" this schedule ends with the second poll blocked
    for ever after waker 1's call; under the API-level reading nothing is owed (the poll in
    progress at waker 1's call returned after it). *)
Theorem C11_strict_target_reading_refuted :
  exists es,
    valid (init Default 8 0 0 2 [] [1%nat; 1%nat]) es
    /\ (let s := fst (run step (init Default 8 0 0 2 [] [1%nat; 1%nat]) (firstn 16 es)) in
        nth_error es 16 = Some (W 1)
        /\ pp s = PWbH /\ polls s = 2%nat /\ pstate s = N.lor IS_POLLING IS_AWOKEN
        /\ nth_error (wakers s) 1 = Some {| wp := WIdle; calls := 1; wok := false |}
        /\ nth_error (wakers (wstep s 1)) 1 = Some {| wp := WIdle; calls := 0; wok := false |})
    /\ (let s := fst (run step (init Default 8 0 0 2 [] [1%nat; 1%nat]) es) in
        pp s = PInKernel /\ polls s = 1%nat /\ cq s = 0 /\ sqh s = sqt s
        /\ all_wakers_finished s /\ ev_ok s Stuck
        /\ owed s = false /\ lost s = false
        /\ lost (fst (step s Stuck)) = false).
Proof. exact strict_target_reading_refuted. Qed.

Check C11_no_lost_ring_wakeup : no_lost_ring_wakeup.
Check C11_wake_is_on_its_way : wake_is_on_its_way.
Check C11_awoken_bit_makes_next_poll_prompt : awoken_bit_makes_next_poll_prompt.
Check C11_pending_message_has_a_submitter : pending_message_has_a_submitter.
Check C11_owed_poller_is_resumable_or_a_waker_is_running :
  owed_poller_is_resumable_or_a_waker_is_running.
Check (C11_no_lost_ring_wakeup :
  forall m c prefill nparked npolls tm wcalls es, valid (init m c prefill nparked npolls tm wcalls) es ->
    lost (fst (run step (init m c prefill nparked npolls tm wcalls) es)) = false).
Check (C11_wake_is_on_its_way :
  forall m c prefill nparked npolls tm wcalls es, valid (init m c prefill nparked npolls tm wcalls) es ->
    let s := fst (run step (init m c prefill nparked npolls tm wcalls) es) in
    pp s = PInKernel -> owed s = true ->
      0 < cq s \/ sqh s < sqt s \/ exists i w, nth_error (wakers s) i = Some w /\ wp w <> WIdle).
Check (C11_awoken_bit_makes_next_poll_prompt :
  forall s, pp s = PSetPolling -> N.testbit (pstate s) 1 = true ->
    let s' := pstep s in aw s' = true /\ pstate s' = IS_POLLING).
Check (C11_pending_message_has_a_submitter :
  forall m c prefill nparked npolls tm wcalls es,
    let s := fst (run step (init m c prefill nparked npolls tm wcalls) es) in
    sqh s + sqo s < sqt s ->
      md s = KernelThread
      \/ exists i w, nth_error (wakers s) i = Some w /\ (wp w = WEnterH \/ wp w = WEnterT)).
Check (C11_owed_poller_is_resumable_or_a_waker_is_running :
  forall m c prefill nparked npolls tm wcalls es, valid (init m c prefill nparked npolls tm wcalls) es ->
    let s := fst (run step (init m c prefill nparked npolls tm wcalls) es) in
    pp s = PInKernel -> owed s = true ->
      0 < cq s \/ (md s = KernelThread /\ sqh s + sqo s < sqt s)
      \/ exists i w, nth_error (wakers s) i = Some w /\ wp w <> WIdle).
Check C11_interrupted_enter_makes_poll_return : interrupted_enter_makes_poll_return.
Check C11_poll_return_clears_owed : poll_return_clears_owed.
Check C11_eintr_retry_loses_wakeup_refuted : eintr_retry_loses_wakeup.
Check (C11_interrupted_enter_makes_poll_return :
  forall s n es,
    (pp s = PEnterT \/ pp s = PEnterFlags \/ pp s = PInKernel) -> polls s = S n ->
    let s0 := fst (step s PI) in
    ((pp s = PEnterT \/ pp s = PEnterFlags) -> pp s0 = PClearPollingIntr /\ polls s0 = S n)
    /\ (let s1 := fst (run step s0 es) in
        (polls s1 <= n)%nat
        \/ (polls s1 = S n /\ pp s1 <> PInKernel
            /\ exists d, ret_dist (pp s1) = Some d /\ (d + poller_events es <= 11)%nat))).
Check (C11_poll_return_clears_owed :
  forall s e, polls (fst (step s e)) <> polls s -> owed (fst (step s e)) = false).
Check (C11_eintr_retry_loses_wakeup_refuted :
  exists es,
    valid_loop (init Default 8 0 0 1 [] [1%nat]) es
    /\ nth_error es 0 = Some (W 0) /\ nth_error es 5 = Some PI
    /\ (let s := fst (run step_loop (init Default 8 0 0 1 [] [1%nat]) (firstn 5 es)) in
        pp s = PEnterT /\ aw s = true /\ owed s = true)
    /\ (let s := fst (run step_loop (init Default 8 0 0 1 [] [1%nat]) es) in
        pp s = PInKernel /\ polls s = 1%nat /\ aw s = false /\ pstate s = IS_POLLING
        /\ cq s = 0 /\ sqh s = sqt s /\ all_wakers_finished s
        /\ owed s = true /\ ev_ok s Stuck
        /\ lost (fst (step_loop s Stuck)) = true)).
(* the schedule predicate, pinned *)
Check (eq_refl : ev_ok = fun s e =>
  match e with
  | P => pp s = PInKernel -> (0 < cq s \/ (md s = KernelThread /\ sqh s < sqt s))
  | W i => (i < length (wakers s))%nat
  | Stuck => pp s = PInKernel /\ cq s = 0 /\ sqh s = sqt s /\ all_wakers_finished s
  | PI => True
  | Timeout => pp s = PInKernel /\ timed s = true
               /\ cq s = 0 /\ sqh s = sqt s /\ all_wakers_finished s
  end).
(* the events and the step function, pinned: [PI] is the interrupted enter, [Timeout] the expired
   finite timeout of a blocked poll *)
Check (eq_refl : step = fun s e =>
  match e with
  | P => (pstep s, [])
  | W i => (wstep s i, [])
  | Stuck => (match pp s with PInKernel => pstuck s | _ => s end, [])
  | PI => (pintr s, [])
  | Timeout => (match pp s with PInKernel => if timed s then ptimeout s else s | _ => s end, [])
  end).
Check (eq_refl : timed = fun s => hd false (tmos s)).
Check (eq_refl : ptimeout = fun s =>
  {| md := md s; cap := cap s; sqo := sqo s; pstate := pstate s; sqh := sqh s; sqt := sqt s; cq := cq s; holder := holder s;
     pp := (if psub s =? 0 then PClearPolling else PWbH); polls := polls s; aw := aw s; lh := lh s; seen := seen s;
     wakers := wakers s; wlh := wlh s; psub := psub s; parked := parked s; owed := owed s; tmos := tmos s;
     lost := lost s || owed s |}).
(* an awoken poll uses a zero timeout whatever the caller passed; the seeded variant keeps [Some(t)] *)
Check (eq_refl : enter_wait = fun s submitted =>
  if 0 <? cq s then after_enter_ok s
  else if aw s then (if 0 <? submitted then after_enter_ok s else set_p s PClearPolling)
  else set_psub (set_p s PInKernel) submitted).
Check (eq_refl : enter_wait_or = fun s submitted =>
  if 0 <? cq s then after_enter_ok s
  else if timed s then set_psub (set_p s PInKernel) submitted
  else if aw s then (if 0 <? submitted then after_enter_ok s else set_p s PClearPolling)
  else set_psub (set_p s PInKernel) submitted).
Check (eq_refl : step_or = fun s e => match e with P => (pstep_or s, []) | _ => step s e end).
Check (eq_refl : step_nsi = fun s e => match e with W i => (wstep_nsi s i, []) | _ => step s e end).
Check (eq_refl : wstep_nsi = fun s i =>
  match md s with
  | SingleIssuer =>
      match nth_error (wakers s) i with
      | None => s
      | Some w =>
          match wp w with
          | WEnterT => set_w s i (call_done w)
          | _ => set_md (wstep (set_md s Default) i) SingleIssuer
          end
      end
  | _ => wstep s i
  end).
Check (valid_or_nil : forall s, valid_or s []).
Check (valid_or_cons : forall s e es, ev_ok s e -> valid_or (fst (step_or s e)) es -> valid_or s (e :: es)).
Check (valid_nsi_nil : forall s, valid_nsi s []).
Check (valid_nsi_cons : forall s e es, ev_ok s e -> valid_nsi (fst (step_nsi s e)) es -> valid_nsi s (e :: es)).
Check (C11_expired_timeout_means_nothing_owed :
  forall m c prefill nparked npolls tm wcalls es, valid (init m c prefill nparked npolls tm wcalls) es ->
    let s := fst (run step (init m c prefill nparked npolls tm wcalls) es) in
    ev_ok s Timeout \/ ev_ok s Stuck -> owed s = false).
Check (C11_awoken_poll_does_not_wait :
  forall s, (pp s = PEnterT \/ pp s = PEnterFlags) -> aw s = true ->
    pp (pstep s) = PWbH \/ pp (pstep s) = PClearPolling).
Check (C11_kept_timeout_loses_wakeup_refuted :
  exists es,
    valid_or (init Default 8 0 0 1 [true] [1%nat]) es
    /\ nth_error es 0 = Some (W 0)
    /\ (let s := fst (run step_or (init Default 8 0 0 1 [true] [1%nat]) (firstn 5 es)) in
        pp s = PEnterT /\ aw s = true /\ timed s = true /\ owed s = true /\ pstate s = IS_POLLING)
    /\ (let s := fst (run step_or (init Default 8 0 0 1 [true] [1%nat]) es) in
        pp s = PInKernel /\ polls s = 1%nat /\ aw s = true /\ timed s = true /\ pstate s = IS_POLLING
        /\ cq s = 0 /\ sqh s = sqt s /\ all_wakers_finished s
        /\ owed s = true /\ ev_ok s Timeout
        /\ lost (fst (step_or s Timeout)) = true)
    /\ valid (init Default 8 0 0 1 [true] [1%nat]) es
    /\ (let s := fst (run step (init Default 8 0 0 1 [true] [1%nat]) es) in
        pp s = PClearPolling /\ owed s = true /\ lost s = false
        /\ (let s' := fst (run step s [P; P; P; P; P; P]) in
            pp s' = PIdle /\ polls s' = O /\ owed s' = false /\ lost s' = false))
    /\ (let s := fst (run step_or (init Default 8 0 0 1 [false] [1%nat]) es) in
        pp s = PClearPolling /\ lost s = false)).
Check (C11_refused_enter_loses_wakeup_refuted :
  exists es,
    valid_nsi (init SingleIssuer 8 0 0 1 [] [1%nat]) es
    /\ nth_error es 5 = Some (W 0)
    /\ (let s := fst (run step_nsi (init SingleIssuer 8 0 0 1 [] [1%nat]) (firstn 5 es)) in
        pp s = PInKernel /\ pstate s = IS_POLLING /\ cq s = 0 /\ owed s = false)
    /\ (let s := fst (run step_nsi (init SingleIssuer 8 0 0 1 [] [1%nat]) (firstn 14 es)) in
        sqt s = sqh s + 1
        /\ nth_error (wakers s) 0 = Some {| wp := WEnterT; calls := 1; wok := true |})
    /\ (let s := fst (run step_nsi (init SingleIssuer 8 0 0 1 [] [1%nat]) es) in
        pp s = PInKernel /\ polls s = 1%nat /\ md s = SingleIssuer
        /\ pstate s = N.lor IS_POLLING IS_AWOKEN
        /\ cq s = 0 /\ sqt s = sqh s + 1 /\ sqo s = 0 /\ all_wakers_finished s
        /\ owed s = true /\ ~ ev_ok s P
        /\ lost (fst (step_nsi s Stuck)) = true)
    /\ valid (init SingleIssuer 8 0 0 1 [] [1%nat]) es
    /\ (let s := fst (run step (init SingleIssuer 8 0 0 1 [] [1%nat]) es) in
        pp s = PInKernel /\ cq s = 1 /\ sqh s = sqt s /\ owed s = true /\ ev_ok s P
        /\ all_wakers_finished s)).
Check (eq_refl : pintr = fun s =>
  match pp s with
  | PEnterT => set_p (syscall_submit s (sqt s - lh s)) PClearPollingIntr
  | PEnterFlags => set_p (syscall_submit s 0) PClearPollingIntr
  | PInKernel =>
      let s' := match md s with KernelThread => consume_all s | _ => s end in
      if 0 <? cq s' then after_enter_ok s'
      else if psub s =? 0 then set_p s' PClearPollingIntr
      else after_enter_ok s'
  | _ => pstep s
  end).
Check (eq_refl : ret_dist = fun p =>
  match p with
  | PWbH => Some 11%nat | PWbT => Some 10%nat | PWbTry _ => Some 9%nat | PWbLock _ _ => Some 8%nat
  | PClearPolling | PClearPollingIntr => Some 7%nat
  | PLoadCqT2 => Some 6%nat | PStoreHead => Some 5%nat
  | PEndWbH => Some 4%nat | PEndWbT => Some 3%nat | PEndWbTry _ => Some 2%nat | PEndWbLock _ _ => Some 1%nat
  | _ => None
  end).
(* the parked futures: the initial state, [wake_blocked_futures] at the poller's two call sites
   and at the waker's, pinned *)
Check (eq_refl : init = fun m c prefill nparked npolls tm wcalls =>
  {| md := m; cap := c; sqo := prefill; pstate := 0; sqh := 0; sqt := prefill; cq := 0; holder := None;
     pp := PIdle; polls := npolls; aw := false; lh := 0; seen := 0; psub := 0;
     wakers := map (fun c => {| wp := WIdle; calls := c; wok := false |}) wcalls;
     wlh := map (fun _ => 0) wcalls; parked := nparked; owed := false; tmos := tm; lost := false |}).
Check (eq_refl : wbf_available = fun s loaded_head => cap s - (sqt s - loaded_head)).
Check (eq_refl : wbf_rest = fun avail n => n - N.min avail n).
Check (eq_refl : wbf_left = fun avail n => avail - N.min avail n).
Check (eq_refl : wbf_putback = fun s rest left => set_parked s (rest + N.min left (parked s))).
Check (eq_refl : (fun s a => pstep (set_p s (PWbTry a))) = fun s a =>
  let s := set_p s (PWbTry a) in
  if parked s =? 0 then set_p s PClearPolling
  else set_p (set_parked s 0) (PWbLock (wbf_rest a (parked s)) (wbf_left a (parked s)))).
Check (eq_refl : (fun s r l => pstep (set_p s (PWbLock r l))) = fun s r l =>
  set_p (wbf_putback (set_p s (PWbLock r l)) r l) PClearPolling).
Check (eq_refl : (fun s a => pstep (set_p s (PEndWbTry a))) = fun s a =>
  let s := set_p s (PEndWbTry a) in
  if parked s =? 0 then poll_return s
  else set_p (set_parked s 0) (PEndWbLock (wbf_rest a (parked s)) (wbf_left a (parked s)))).
Check (eq_refl : (fun s r l => pstep (set_p s (PEndWbLock r l))) = fun s r l =>
  poll_return (wbf_putback (set_p s (PEndWbLock r l)) r l)).
Check (C11_has_waiting_bit_loses_wakeup_refuted :
  exists es,
    valid_hw (init_hw Default 2 2 1 1 [] [1%nat]) es
    /\ nth_error es 5 = Some (W 0)
    /\ (let s := fst (run step_hw (init_hw Default 2 2 1 1 [] [1%nat]) (firstn 5 es)) in
        pp s = PInKernel /\ pstate s = N.lor IS_POLLING HAS_WAITING /\ parked s = 1
        /\ cq s = 0 /\ sqh s = sqt s /\ owed s = false)
    /\ (let s := fst (run step_hw (init_hw Default 2 2 1 1 [] [1%nat]) es) in
        pp s = PInKernel /\ polls s = 1%nat /\ aw s = false
        /\ pstate s = N.lor (N.lor IS_POLLING HAS_WAITING) IS_AWOKEN /\ parked s = 1
        /\ cq s = 0 /\ sqh s = sqt s /\ all_wakers_finished s
        /\ owed s = true /\ ev_ok s Stuck
        /\ lost (fst (step_hw s Stuck)) = true)
    /\ valid (init Default 2 2 1 1 [] [1%nat]) es
    /\ (let s := fst (run step (init Default 2 2 1 1 [] [1%nat]) es) in
        pp s = PInKernel /\ pstate s = N.lor IS_POLLING IS_AWOKEN /\ owed s = true
        /\ nth_error (wakers s) 0 = Some {| wp := WAddH1; calls := 1; wok := false |})).
Check (valid_hw_nil : forall s, valid_hw s []).
Check (valid_hw_cons : forall s e es, ev_ok s e -> valid_hw (fst (step_hw s e)) es -> valid_hw s (e :: es)).
Check (eq_refl : step_hw = fun s e =>
  match e with
  | W i => (wstep_hw s i, [])
  | _ => (hw_post_p s (fst (step s e)), [])
  end).
Check (valid_loop_nil : forall s, valid_loop s []).
Check (valid_loop_cons : forall s e es, ev_ok s e -> valid_loop (fst (step_loop s e)) es -> valid_loop s (e :: es)).
Check (eq_refl : all_wakers_finished = fun s =>
  Forall (fun w => wp w = WIdle /\ calls w = O) (wakers s)).
Check (valid_nil : forall s, valid s []).
Check (valid_cons : forall s e es, ev_ok s e -> valid (fst (step s e)) es -> valid s (e :: es)).
(* non-vacuity *)
Check (wake_example_default : blocked_then_woken Default wake_schedule_default 5).
Check (wake_example_kthread : blocked_then_woken KernelThread wake_schedule_kthread 4).
Check (wake_example_single : blocked_then_woken SingleIssuer wake_schedule_single 5).
Check wake_example_queue_full.
Check (eintr_example_default : interrupted_then_returns Default).
Check (eintr_example_single : interrupted_then_returns SingleIssuer).
Check eintr_example_kthread.
Check eintr_example_blocked.
Check parked_example.
Check has_waiting_nobody_parked.
Check timeout_example.
Check timed_wake_example.
Print Assumptions C11_no_lost_ring_wakeup.
Print Assumptions C11_wake_is_on_its_way.
Print Assumptions C11_awoken_bit_makes_next_poll_prompt.
Print Assumptions C11_pending_message_has_a_submitter.
Print Assumptions C11_owed_poller_is_resumable_or_a_waker_is_running.
Print Assumptions C11_strict_target_reading_refuted.
Print Assumptions C11_interrupted_enter_makes_poll_return.
Print Assumptions C11_poll_return_clears_owed.
Print Assumptions C11_eintr_retry_loses_wakeup_refuted.
Print Assumptions C11_has_waiting_bit_loses_wakeup_refuted.
Print Assumptions C11_expired_timeout_means_nothing_owed.
Print Assumptions C11_awoken_poll_does_not_wait.
Print Assumptions C11_kept_timeout_loses_wakeup_refuted.
Print Assumptions C11_refused_enter_loses_wakeup_refuted.
Print Assumptions timeout_example.
Print Assumptions timed_wake_example.
Print Assumptions parked_example.
Print Assumptions has_waiting_nobody_parked.
Print Assumptions eintr_example_default.
Print Assumptions eintr_example_single.
Print Assumptions eintr_example_kthread.
Print Assumptions eintr_example_blocked.
Print Assumptions wake_example_default.
Print Assumptions wake_example_kthread.
Print Assumptions wake_example_single.
Print Assumptions wake_example_queue_full.

(** C08 — At every moment each buffer of a ReadBufPool is either offered to the kernel or
    owned by exactly one ReadBuf, never both and never by two owners, so bytes held in a
    ReadBuf are never overwritten by a later read. Releasing or dropping a ReadBuf gives back
    exactly its own buffer exactly once, from any thread, and once no ReadBuf is alive and no
    operation is in flight the kernel can again use every buffer of the pool.
    For every pool size 2^k (k <= 15), every buffer size, histories of any length (the 16-bit
    ring tail wraps) and every interleaving of releases at the scheduling points of hook B.
    Property theorems only; model in Model/BufPool.v, proofs in Proofs/BufPoolProofs.v. *)
From A10 Require Import Base.Word Base.Run Model.BufPool Proofs.BufPoolProofs.
From Coq Require Import Permutation.

(** In every reachable state every buffer id is in exactly one of {offered, in transit, owned
    by one live ReadBuf, being released by one thread, lost by the known class}; never offered
    and owned at once, never two owners; the buffers of two live ReadBufs do not overlap and
    the buffer the kernel would pick next overlaps none of them. *)
Theorem C08_pool_partition_invariant : pool_partition_invariant.
Proof. exact pool_partition_invariant_holds. Qed.

(** The slot written by a release, [tail & mask], is outside [head, tail). *)
Theorem C08_ring_slot_free_on_release : ring_slot_free_on_release.
Proof. exact ring_slot_free_on_release_holds. Qed.

(** The id recomputed from the pointer is the id delivered, whatever edits happened. *)
Theorem C08_release_returns_own_id : release_returns_own_id.
Proof. exact release_returns_own_id_holds. Qed.

(** All of it with head and tail as 16-bit wrapping values, for histories of any length. *)
Theorem C08_tail_wrap_safe : tail_wrap_safe.
Proof. exact tail_wrap_safe_holds. Qed.

(** No live ReadBuf, nothing in transit or being released, no lost id: every buffer is offered. *)
Theorem C08_all_available_when_quiescent : all_available_when_quiescent.
Proof. exact all_available_when_quiescent_holds. Qed.

(** Ids are lost only by the named class [picked_for_abandoned_op]: never in a history that
    drops no future or stream. *)
Theorem C08_lost_only_when_abandoned : lost_only_when_abandoned.
Proof. exact lost_only_when_abandoned_holds. Qed.

(** H11: without the "no lost id" clause the availability statement is false on the code as it
    is: a buffer picked for an operation whose future was dropped is never offered again. *)
Theorem C08_all_available_h11_refuted : ~ all_available_even_after_abandon.
Proof. exact all_available_h11_refuted. Qed.

(** What was wrong before the repair of H26 ([release] wrote [resv: 0], i.e. the ring tail, with
    the entry for slot 0): a schedule with one releasing thread and the kernel after which two
    live ReadBufs own the same buffer. *)
Theorem C08_pool_partition_h26_refuted :
  exists es b1 b2 off len1 len2,
    let s := fst (run step_h26 (init 1 8 1 3) es) in
    b1 <> b2
    /\ nth_error (bufs s) b1 = Some (SBuf (Some (off, len1)))
    /\ nth_error (bufs s) b2 = Some (SBuf (Some (off, len2)))
    /\ ~ NoDup (owned s).
Proof. exact pool_partition_h26_refuted. Qed.

Check C08_pool_partition_invariant : pool_partition_invariant.
Check C08_ring_slot_free_on_release : ring_slot_free_on_release.
Check C08_release_returns_own_id : release_returns_own_id.
Check C08_tail_wrap_safe : tail_wrap_safe.
Check C08_all_available_when_quiescent : all_available_when_quiescent.
Check C08_lost_only_when_abandoned : lost_only_when_abandoned.
Check (C08_pool_partition_invariant :
  forall k sz nops nbufs es, params_ok k sz ->
    let s := reach k sz nops nbufs es in
    let n := 2 ^ k in
    Inv k sz s
    /\ Permutation (offered s ++ transit s ++ owned s ++ releasing s ++ lost s) (iota n)
    /\ NoDup (offered s ++ transit s ++ owned s ++ releasing s ++ lost s)
    /\ (forall id, id < n ->
          (cnt (offered s) id + cnt (transit s) id + cnt (owned s) id + cnt (releasing s) id
           + cnt (lost s) id = 1)%nat)
    /\ (forall id, In id (offered s) -> ~ In id (owned s))
    /\ NoDup (owned s)
    /\ (forall b1 b2 off1 len1 off2 len2, b1 <> b2 ->
          nth_error (bufs s) b1 = Some (SBuf (Some (off1, len1))) ->
          nth_error (bufs s) b2 = Some (SBuf (Some (off2, len2))) ->
          off1 + sz <= off2 \/ off2 + sz <= off1)
    /\ (khead s <> tail s ->
          let e := ring s (N.land (khead s) (n - 1)) in
          In (e_bid e) (offered s) /\ e_addr e = e_bid e * sz /\ e_len e = sz
          /\ forall b off len, nth_error (bufs s) b = Some (SBuf (Some (off, len))) ->
               off + sz <= e_addr e \/ e_addr e + sz <= off)).
Check (C08_ring_slot_free_on_release :
  forall k sz s, params_ok k sz -> Inv k sz s ->
    (owned s <> [] \/ releasing s <> []) ->
    g_t s - g_h s < 2 ^ k
    /\ forall j, g_h s <= j -> j < g_t s -> j mod 2 ^ k <> N.land (tail s) (2 ^ k - 1)).
Check (C08_release_returns_own_id :
  (forall sz id, 0 < sz -> id < two16 -> rel_id sz (id * sz) = id)
  /\ (forall s b edits, Forall is_edit edits -> slot_ptr (fst (run step s edits)) b = slot_ptr s b)
  /\ (forall s o b x bid l r, registered s = true ->
        nth_error (ops (settle s)) o = Some x -> oust x = ULive -> oqueue x = CBuf bid l :: r ->
        nth_error (bufs s) b = Some SEmpty ->
        nth_error (bufs (fst (step s (Deliver o b)))) b = Some (SBuf (Some (bid * psz s, l))))
  /\ (forall k sz nops nbufs es, params_ok k sz ->
        let s := reach k sz nops nbufs es in
        forall b off len, nth_error (bufs s) b = Some (SBuf (Some (off, len))) ->
          rel_id sz off < 2 ^ k /\ off = rel_id sz off * sz /\ len <= sz /\ In (rel_id sz off) (owned s))).
Check (C08_tail_wrap_safe :
  forall k sz nops nbufs es, params_ok k sz ->
    let s := reach k sz nops nbufs es in
    let n := 2 ^ k in
    tail s = g_t s mod two16 /\ khead s = g_h s mod two16
    /\ g_h s <= g_t s /\ g_t s - g_h s <= n /\ n <= 32768
    /\ wsub16 (tail s) (khead s) = g_t s - g_h s
    /\ (khead s = tail s <-> g_h s = g_t s)
    /\ N.land (tail s) (n - 1) = g_t s mod n /\ N.land (khead s) (n - 1) = g_h s mod n
    /\ window s = map (fun i => ring s (i mod n)) (gseq (g_h s) (N.to_nat (g_t s - g_h s)))
    /\ offered s = map e_bid (window s)).
Check (C08_all_available_when_quiescent :
  forall k sz s, params_ok k sz -> Inv k sz s ->
    owned s = [] -> transit s = [] -> releasing s = [] -> lost s = [] ->
    Permutation (offered s) (iota (2 ^ k)) /\ g_t s - g_h s = 2 ^ k
    /\ Permutation (map e_bid (window s)) (iota (2 ^ k))).
Check (C08_lost_only_when_abandoned :
  forall k sz nops nbufs es, never_abandons es ->
    forall id, ~ picked_for_abandoned_op (reach k sz nops nbufs es) id).
Check (C08_all_available_h11_refuted :
  ~ (forall k sz nops nbufs es, params_ok k sz ->
       let s := reach k sz nops nbufs es in
       owned s = [] -> transit s = [] -> releasing s = [] ->
       (forall x, In x (ops s) -> kalive x = false) ->
       Permutation (offered s) (iota (2 ^ k)))).
Print Assumptions C08_pool_partition_invariant.
Print Assumptions C08_ring_slot_free_on_release.
Print Assumptions C08_release_returns_own_id.
Print Assumptions C08_tail_wrap_safe.
Print Assumptions C08_all_available_when_quiescent.
Print Assumptions C08_lost_only_when_abandoned.
Print Assumptions C08_all_available_h11_refuted.
Print Assumptions C08_pool_partition_h26_refuted.

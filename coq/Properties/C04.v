(** C04 — Every submission accepted from any thread sharing a SubmissionQueue reaches the
    kernel exactly once and unmodified: a slot is never overwritten before the kernel has
    consumed it, the kernel never sees a partially written entry, and when the queue is full
    the operation waits instead of overrunning; for every ring size, any number of submitters
    and every value of the 32-bit head/tail counters, including after they wrap around.
    Property theorems only; model in Model/SqRing.v, proofs in Proofs/SqRingProofs.v. *)
From A10 Require Import Base.Word Base.Run Model.SqRing Proofs.SqRingProofs.
From Coq Require Import Permutation.

(** In every reachable state (any number of threads, any interleaving of their steps with the
    kernel, any start value of the counters) the invariant holds, what the kernel read is
    exactly the first [g_h] accepted payloads, in publication order, each once and none of them
    partially written, and at most [n] entries are pending. *)
Theorem C04_sq_exactly_once_unmodified : sq_exactly_once_unmodified.
Proof. exact sq_exactly_once_unmodified_holds. Qed.

(** Every payload handed to [add] is published, parked on the blocked list (the operation
    waits), abandoned because its fill closure panicked, or still to be added: nothing is
    dropped silently, nothing is duplicated. *)
Theorem C04_sq_every_add_accounted : sq_every_add_accounted.
Proof. exact sq_every_add_accounted_holds. Qed.

(** A submission whose fill closure panicked inside [add] (after the slot was reset; the lock
    is released by unwinding) is never published: it is not accepted and the kernel never
    reads it. *)
Theorem C04_sq_panicked_never_published : sq_panicked_never_published.
Proof. exact sq_panicked_never_published_holds. Qed.

(** No step of any thread touches a slot between the kernel's head and the tail. *)
Theorem C04_sq_never_overwrites_pending : sq_never_overwrites_pending.
Proof. exact sq_never_overwrites_pending_holds. Qed.

(** Once the kernel has caught up with the tail, it has consumed everything accepted. *)
Theorem C04_sq_drained_means_all_delivered : sq_drained_means_all_delivered.
Proof. exact sq_drained_means_all_delivered_holds. Qed.

(** What was wrong before the repair of H1 ([> len] in the locked check): a schedule of two
    threads on a ring of two after which the kernel has read something other than a prefix of
    the accepted payloads (payload 1 lost, payload 3 submitted twice). *)
Theorem C04_h1_overrun_refuted :
  exists es, let s := fst (run step_h1 (init 2 0 [[1; 2]; [3]]) es) in
    consumed s <> firstn (length (consumed s)) (map Entry (g_accepted s))
    \/ g_t s - g_h s > 2.
Proof. exact h1_overrun_refuted. Qed.

Check C04_sq_exactly_once_unmodified : sq_exactly_once_unmodified.
Check C04_sq_every_add_accounted : sq_every_add_accounted.
Check C04_sq_panicked_never_published : sq_panicked_never_published.
Check C04_sq_never_overwrites_pending : sq_never_overwrites_pending.
Check C04_sq_drained_means_all_delivered : sq_drained_means_all_delivered.
Check (C04_sq_exactly_once_unmodified :
  forall n m h0 progs es, params_ok n m h0 ->
    let s := fst (run step (init n h0 progs) es) in
    Inv n h0 s
    /\ consumed s = map Entry (firstn (N.to_nat (g_h s)) (g_accepted s))
    /\ (forall x, In x (consumed s) -> x <> Torn)
    /\ g_t s - g_h s <= n).
Check (C04_sq_every_add_accounted :
  forall n m h0 progs es, params_ok n m h0 ->
    let s := fst (run step (init n h0 progs) es) in
    Permutation (g_accepted s ++ blocked s ++ panicked s ++ concat (map todo (threads s)))
                (concat progs)).
Check (C04_sq_panicked_never_published :
  forall n m h0 progs es, params_ok n m h0 ->
    let s := fst (run step (init n h0 progs) es) in
    forall p, In p (panicked s) -> NoDup (concat progs) ->
      ~ In p (g_accepted s) /\ ~ In (Entry p) (consumed s)).
Check (C04_sq_never_overwrites_pending :
  forall n m h0 s i j, params_ok n m h0 -> Inv n h0 s ->
    g_h s <= j -> j < g_t s ->
    slots (tstep s i) ((h0 + j) mod n) = slots s ((h0 + j) mod n)).
Check (C04_sq_drained_means_all_delivered :
  forall n m h0 s, params_ok n m h0 -> Inv n h0 s -> khead s = ktail s ->
    consumed s = map Entry (g_accepted s)).
Print Assumptions C04_sq_exactly_once_unmodified.
Print Assumptions C04_sq_every_add_accounted.
Print Assumptions C04_sq_panicked_never_published.
Print Assumptions C04_sq_never_overwrites_pending.
Print Assumptions C04_sq_drained_means_all_delivered.
Print Assumptions C04_h1_overrun_refuted.

(** C13 - every a10 operation has the effect and result of the corresponding synchronous call.
    Property theorems only; models in Model/Encode.v and Model/ResultDecode.v, proofs in
    Proofs/EncodeProofs.v and Proofs/ResultDecodeProofs.v.

    The models follow the code AS IT IS in /repo. Where the code violates the property the full
    statement is kept ([encode_matches_abi], [fallback_same_descriptor], [timestamp_matches_posix],
    [wait_status_matches_posix]), proved false, and the theorem that holds carries the exclusion
    as a named predicate ([h20_class], [h24_class]). H9, H21 and H22 are repaired in /repo: the
    full statements hold, the pre-repair functions ([…_h21], [timestamp_h9], …) are kept only for
    the [_refuted] witnesses. *)
From A10 Require Import Base.Word Model.Encode Model.ResultDecode Proofs.EncodeProofs Proofs.ResultDecodeProofs.

(** (A) Every operation x {Regular, Direct}: the SQE a10 fills in decodes, through the ABI table, to the call the
    method documents - outside the two classes named by [h20_class] and [h24_class]. *)
Theorem C13_encode_matches_abi_except_h20_h24 : encode_matches_abi_except_h20_h24.
Proof. exact encode_matches_abi_except_h20_h24_holds. Qed.

(** H20, exactly: [splice_to] on a direct descriptor asks the kernel to read from *process descriptor* number
    <index> and to write to *registered file* number <target fd>. *)
Theorem C13_h20_splice_to_direct_swaps_tables : h20_splice_to_direct_swaps_tables.
Proof. exact h20_splice_to_direct_swaps_tables_holds. Qed.

(** H24, exactly: [metadata] on a direct descriptor is an SQE the ABI refuses (IORING_OP_STATX + IOSQE_FIXED_FILE). *)
Theorem C13_h24_statx_direct_is_refused : h24_statx_direct_is_refused.
Proof. exact h24_statx_direct_is_refused_holds. Qed.

(** Witnesses against the full statement [encode_matches_abi]. *)
Theorem C13_encode_matches_abi_h20_refuted : encode_matches_abi_h20_refuted_stmt.
Proof. exact encode_matches_abi_h20_refuted. Qed.

Theorem C13_encode_matches_abi_h24_refuted : encode_matches_abi_h24_refuted_stmt.
Proof. exact encode_matches_abi_h24_refuted. Qed.

Theorem C13_encode_matches_abi_fails : ~ encode_matches_abi.
Proof. exact encode_matches_abi_fails. Qed.

(** Read off the decoded calls: IOSQE_FIXED_FILE iff the target is direct; file_index = ALLOC iff a direct result is
    requested and O_CLOEXEC / SOCK_CLOEXEC iff a regular one. *)
Theorem C13_fixed_file_iff_direct : fixed_file_iff_direct.
Proof. exact fixed_file_iff_direct_holds. Qed.

Theorem C13_alloc_and_cloexec_follow_requested_kind : alloc_and_cloexec_follow_requested_kind.
Proof. exact alloc_and_cloexec_follow_requested_kind_holds. Qed.

(** (B) Completion result to io::Result: success exactly when the call succeeded, a reported errno is the call's. *)
Theorem C13_result_done_iff_success : result_done_iff_success.
Proof. exact result_done_iff_success_holds. Qed.

Theorem C13_result_errno_is_the_calls : result_errno_is_the_calls.
Proof. exact result_errno_is_the_calls_holds. Qed.

Theorem C13_result_errno_reported_except_einval : result_errno_reported_except_einval.
Proof. exact result_errno_reported_except_einval_holds. Qed.

Theorem C13_result_einval_is_masked : result_einval_is_masked.
Proof. exact result_einval_is_masked_holds. Qed.

(** Descriptors made from results keep number and kind. *)
Theorem C13_from_raw_roundtrip : from_raw_roundtrip.
Proof. exact from_raw_roundtrip_holds. Qed.

(** (C) Synchronous fallbacks: the documented call on the same descriptor, for both kinds (full statement, holds
    since the repair of H21); a direct descriptor never reaches a system call and keeps the kernel's error. *)
Theorem C13_fallback_same_descriptor : fallback_same_descriptor.
Proof. exact fallback_same_descriptor_holds. Qed.

Theorem C13_fallback_same_descriptor_regular : fallback_same_descriptor_regular.
Proof. exact fallback_same_descriptor_regular_holds. Qed.

Theorem C13_fallback_direct_never_calls : fallback_direct_never_calls.
Proof. exact fallback_direct_never_calls_holds. Qed.

Theorem C13_fallback_direct_keeps_error : fallback_direct_keeps_error.
Proof. exact fallback_direct_keeps_error_holds. Qed.

Theorem C13_fallback_repair_regular_unchanged : fallback_repair_regular_unchanged.
Proof. exact fallback_repair_regular_unchanged_holds. Qed.

(** H21, the code before the repair. *)
Theorem C13_fallback_h21_refuted : fallback_h21_refuted_stmt.
Proof. exact fallback_h21_refuted. Qed.

Theorem C13_fallback_h21_every_direct_socket_fallback : fallback_h21_every_direct_socket_fallback.
Proof. exact fallback_h21_every_direct_socket_fallback_holds. Qed.

(** (B) Metadata accessors. *)
Theorem C13_file_type_is_posix_macro : file_type_is_posix_macro.
Proof. exact file_type_is_posix_macro_holds. Qed.

Theorem C13_file_type_exclusive : file_type_exclusive.
Proof. exact file_type_exclusive_holds. Qed.

Theorem C13_permission_flags_are_mode_bits : permission_flags_are_mode_bits.
Proof. exact permission_flags_are_mode_bits_holds. Qed.

(** Timestamps: right from 1970 on, a panic before (H9); the repaired function for every time. *)
Theorem C13_timestamp_matches_posix_except_h9 : timestamp_matches_posix_except_h9.
Proof. exact timestamp_matches_posix_except_h9_holds. Qed.

Theorem C13_timestamp_h9_panics : timestamp_h9_panics.
Proof. exact timestamp_h9_panics_holds. Qed.

Theorem C13_timestamp_h9_refuted : timestamp_h9_refuted_stmt.
Proof. exact timestamp_h9_refuted. Qed.

Theorem C13_timestamp_matches_posix_fails : ~ timestamp_matches_posix.
Proof. exact timestamp_matches_posix_fails. Qed.

Theorem C13_timestamp_fixed_matches_posix : timestamp_fixed_matches_posix.
Proof. exact timestamp_fixed_matches_posix_holds. Qed.

(** WaitInfo::status: right for exit code 0 and for death by signal, wrong for everything else (H22); the repaired
    function for every event waitid reports. *)
Theorem C13_wait_status_matches_posix_except_h22 : wait_status_matches_posix_except_h22.
Proof. exact wait_status_matches_posix_except_h22_holds. Qed.

Theorem C13_wait_status_h22_always_wrong : wait_status_h22_always_wrong.
Proof. exact wait_status_h22_always_wrong_holds. Qed.

Theorem C13_wait_status_h22_refuted : wait_status_h22_refuted_stmt.
Proof. exact wait_status_h22_refuted. Qed.

Theorem C13_wait_status_matches_posix_fails : ~ wait_status_matches_posix.
Proof. exact wait_status_matches_posix_fails. Qed.

Theorem C13_wait_status_fixed_matches_posix : wait_status_fixed_matches_posix.
Proof. exact wait_status_fixed_matches_posix_holds. Qed.

(** Socket option values. *)
Theorem C13_opt_decode_matches_posix : opt_decode_matches_posix.
Proof. exact opt_decode_matches_posix_holds. Qed.

Check C13_encode_matches_abi_except_h20_h24 : encode_matches_abi_except_h20_h24.
Check C13_h20_splice_to_direct_swaps_tables : h20_splice_to_direct_swaps_tables.
Check C13_h24_statx_direct_is_refused : h24_statx_direct_is_refused.
Check C13_encode_matches_abi_h20_refuted : encode_matches_abi_h20_refuted_stmt.
Check C13_encode_matches_abi_h24_refuted : encode_matches_abi_h24_refuted_stmt.
Check C13_encode_matches_abi_fails : ~ encode_matches_abi.
Check C13_fixed_file_iff_direct : fixed_file_iff_direct.
Check C13_alloc_and_cloexec_follow_requested_kind : alloc_and_cloexec_follow_requested_kind.
Check C13_result_done_iff_success : result_done_iff_success.
Check C13_result_errno_is_the_calls : result_errno_is_the_calls.
Check C13_result_errno_reported_except_einval : result_errno_reported_except_einval.
Check C13_result_einval_is_masked : result_einval_is_masked.
Check C13_from_raw_roundtrip : from_raw_roundtrip.
Check C13_fallback_same_descriptor_regular : fallback_same_descriptor_regular.
Check C13_fallback_h21_refuted : fallback_h21_refuted_stmt.
Check C13_fallback_h21_every_direct_socket_fallback : fallback_h21_every_direct_socket_fallback.
Check C13_fallback_same_descriptor : fallback_same_descriptor.
Check C13_fallback_direct_never_calls : fallback_direct_never_calls.
Check C13_fallback_direct_keeps_error : fallback_direct_keeps_error.
Check C13_fallback_repair_regular_unchanged : fallback_repair_regular_unchanged.
Check C13_file_type_is_posix_macro : file_type_is_posix_macro.
Check C13_file_type_exclusive : file_type_exclusive.
Check C13_permission_flags_are_mode_bits : permission_flags_are_mode_bits.
Check C13_timestamp_matches_posix_except_h9 : timestamp_matches_posix_except_h9.
Check C13_timestamp_h9_panics : timestamp_h9_panics.
Check C13_timestamp_h9_refuted : timestamp_h9_refuted_stmt.
Check C13_timestamp_matches_posix_fails : ~ timestamp_matches_posix.
Check C13_timestamp_fixed_matches_posix : timestamp_fixed_matches_posix.
Check C13_wait_status_matches_posix_except_h22 : wait_status_matches_posix_except_h22.
Check C13_wait_status_h22_always_wrong : wait_status_h22_always_wrong.
Check C13_wait_status_h22_refuted : wait_status_h22_refuted_stmt.
Check C13_wait_status_matches_posix_fails : ~ wait_status_matches_posix.
Check C13_wait_status_fixed_matches_posix : wait_status_fixed_matches_posix.
Check C13_opt_decode_matches_posix : opt_decode_matches_posix.
Print Assumptions C13_encode_matches_abi_except_h20_h24.
Print Assumptions C13_h20_splice_to_direct_swaps_tables.
Print Assumptions C13_h24_statx_direct_is_refused.
Print Assumptions C13_encode_matches_abi_h20_refuted.
Print Assumptions C13_encode_matches_abi_h24_refuted.
Print Assumptions C13_encode_matches_abi_fails.
Print Assumptions C13_fixed_file_iff_direct.
Print Assumptions C13_alloc_and_cloexec_follow_requested_kind.
Print Assumptions C13_result_done_iff_success.
Print Assumptions C13_result_errno_is_the_calls.
Print Assumptions C13_result_errno_reported_except_einval.
Print Assumptions C13_result_einval_is_masked.
Print Assumptions C13_from_raw_roundtrip.
Print Assumptions C13_fallback_same_descriptor_regular.
Print Assumptions C13_fallback_h21_refuted.
Print Assumptions C13_fallback_h21_every_direct_socket_fallback.
Print Assumptions C13_fallback_same_descriptor.
Print Assumptions C13_fallback_direct_never_calls.
Print Assumptions C13_fallback_direct_keeps_error.
Print Assumptions C13_fallback_repair_regular_unchanged.
Print Assumptions C13_file_type_is_posix_macro.
Print Assumptions C13_file_type_exclusive.
Print Assumptions C13_permission_flags_are_mode_bits.
Print Assumptions C13_timestamp_matches_posix_except_h9.
Print Assumptions C13_timestamp_h9_panics.
Print Assumptions C13_timestamp_h9_refuted.
Print Assumptions C13_timestamp_matches_posix_fails.
Print Assumptions C13_timestamp_fixed_matches_posix.
Print Assumptions C13_wait_status_matches_posix_except_h22.
Print Assumptions C13_wait_status_h22_always_wrong.
Print Assumptions C13_wait_status_h22_refuted.
Print Assumptions C13_wait_status_matches_posix_fails.
Print Assumptions C13_wait_status_fixed_matches_posix.
Print Assumptions C13_opt_decode_matches_posix.

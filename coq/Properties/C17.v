(** C17 — For every well-formed batch of kernel watch events delivered to a Watcher, the Events
    iterator yields exactly the user-visible events in order, each with the mask, the file name
    without padding and the full path of its watched entry; it forgets a watch when the kernel
    says it was removed, skips overflow markers, and never reads outside the bytes the kernel
    wrote, however the kernel batches whole events into successive reads. Every event handed
    out stays valid and unchanged for as long as safe code is still able to use it.

    The decoding clauses are proved; the last sentence is refuted (finding H10).
    Property theorems only; model in Model/Inotify.v, proofs in Proofs/InotifyProofs.v. *)
From A10 Require Import Base.Word Base.Run Model.Inotify Proofs.InotifyProofs.

(** For all tables of watches, all scripts of read completions (batches of well-formed records
    cut anywhere between records, 0-byte reads, failed reads) and any number [k] of polls: the
    items handed out, each with the table of watches after that poll, are the first [k] of: the
    records with neither IN_IGNORED nor IN_Q_OVERFLOW set, in order, each with its fields, its
    name without padding and [watched_path/name] under the table with the watches of all
    earlier IN_IGNORED records removed; then how the stream ended (None / the error / still
    pending) with the final table; then None for ever. *)
Theorem C17_events_decoded_exactly : events_decoded_exactly.
Proof. exact events_decoded_exactly_holds. Qed.

(** Under the same quantification every index the decoder dereferences, and every byte covered
    by a reference it hands out, is below the length of the read it was made in. *)
Theorem C17_reads_in_bounds : reads_in_bounds.
Proof. exact reads_in_bounds_holds. Qed.

(** The part of well-formedness that matters is "no name, no padding" (inotify(7)): on the
    never-emitted shape with no name and [len > 0] the code hands out [len] NUL bytes as the
    name. *)
Theorem C17_unnamed_padded_yields_nuls :
  forall f w pre r rest,
    fields_ok r -> r_name r = [] -> ignored r = false -> overflow r = false ->
    process (S f) w (pre ++ ser r ++ rest) (length pre) =
      (w, (length pre + length (ser r))%nat,
       Some {| v_off := length pre; v_plen := N.to_nat (r_pad r) |},
       idx4 (length pre + 12) ++ idx4 (length pre + 4)
       ++ seq (length pre + HDR) (N.to_nat (rec_len r))
       ++ seq (length pre) (HDR + N.to_nat (r_pad r)))
    /\ e_name (read_view (pre ++ ser r ++ rest)
                         {| v_off := length pre; v_plen := N.to_nat (r_pad r) |})
       = zeros (N.to_nat (r_pad r)).
Proof. exact unnamed_padded_yields_nuls. Qed.

(** The walk terminates within [length buf] iterations on any bytes. *)
Theorem C17_process_fuel_irrelevant :
  forall buf n fuel w p,
    (length buf - p <= n)%nat -> (n <= fuel)%nat -> process fuel w buf p = process n w buf p.
Proof. exact process_fuel_irrelevant. Qed.

(** What the kernel really emits satisfies the hypothesis, fits the buffer and keeps records
    16-byte aligned. *)
Theorem C17_kernel_exact_pads : forall r, kernel_exact r -> kernel_pads r.
Proof. exact kernel_exact_pads. Qed.
Theorem C17_kernel_record_fits_buf :
  forall r, name_ok (r_name r) -> kernel_exact r -> (length (ser r) <= BUF_SIZE)%nat.
Proof. exact kernel_record_fits_buf. Qed.
Theorem C17_kernel_record_aligned : forall r, kernel_exact r -> (length (ser r) mod 16 = 0)%nat.
Proof. exact kernel_record_aligned. Qed.

(** H10. Validity clause: what does hold: an event reads, through the reference, what was handed
    out (at that moment) ... *)
Theorem C17_event_valid_when_handed_out : event_valid_when_handed_out.
Proof. exact event_valid_when_handed_out_holds. Qed.

(** ... and nothing it shows changes until the iterator starts its next read ... *)
Theorem C17_event_stable_until_next_read :
  forall s v, p_nreads (next s) = 0%nat -> reread (p_state (next s)) v = reread s v.
Proof. exact event_stable_until_next_read. Qed.

(** ... and the clause as stated, refuted: [poll_next] hands out [&'w Event] pointing into the
    read buffer; the next read overwrites it, a 0-byte or failed read (and dropping the
    iterator) frees it, while safe code still holds the reference. *)
Theorem C17_event_validity_h10_refuted : ~ event_validity.
Proof. exact event_validity_h10_refuted. Qed.

Theorem C17_h10_overwritten_witness :
  exists w sc,
    Forall wf_rd sc /\
    match poll_n 2 (init w (map wire_rd sc)) with
    | [ri; rj] =>
        match p_item ri with
        | IEvent v e _ =>
            reread (p_state ri) v = Some e
            /\ e = event_of rA
            /\ reread (p_state rj) v = Some (event_of rB)
            /\ reread (p_state rj) v <> Some e
        | _ => False
        end
    | _ => False
    end.
Proof. exact h10_overwritten_witness. Qed.

Theorem C17_h10_dangling_witness :
  exists w sc,
    Forall wf_rd sc /\
    match poll_n 2 (init w (map wire_rd sc)) with
    | [ri; rj] =>
        match p_item ri with
        | IEvent v e _ => p_item rj = INone /\ reread (p_state rj) v = None
        | _ => False
        end
    | _ => False
    end.
Proof. exact h10_dangling_witness. Qed.

Check C17_events_decoded_exactly : events_decoded_exactly.
Check C17_reads_in_bounds : reads_in_bounds.
Check C17_event_valid_when_handed_out : event_valid_when_handed_out.
Check C17_event_validity_h10_refuted : ~ event_validity.
Print Assumptions C17_events_decoded_exactly.
Print Assumptions C17_reads_in_bounds.
Print Assumptions C17_unnamed_padded_yields_nuls.
Print Assumptions C17_process_fuel_irrelevant.
Print Assumptions C17_kernel_exact_pads.
Print Assumptions C17_kernel_record_fits_buf.
Print Assumptions C17_kernel_record_aligned.
Print Assumptions C17_event_valid_when_handed_out.
Print Assumptions C17_event_stable_until_next_read.
Print Assumptions C17_event_validity_h10_refuted.
Print Assumptions C17_h10_overwritten_witness.
Print Assumptions C17_h10_dangling_witness.

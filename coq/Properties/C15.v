(** C15 — ReadBuf edits behave as a capacity-bounded vector confined to its slot.
    Property theorems only; model in Model/ReadBufEdit.v, proofs in Proofs/ReadBufEditProofs.v.

    Quantified over every buffer size (non-zero u32), pool size, pool memory contents, slot,
    fill length and every sequence of [truncate], [clear], [remove] (all [Bound] forms, any
    bounds), [set_len], [extend_from_slice], [spare_capacity_mut] and fills through the
    [BufMut] impl. [edit_ok dbg cap e] is [True] for a build with debug assertions; without
    them it asks for [set_len] (an unsafe fn) to be called within its documented contract,
    [new_len <= capacity], and for nothing else. *)
From A10 Require Import Base.Word Base.Run Model.ReadBufEdit Proofs.ReadBufEditProofs.

(** (a) Same contents, lengths and accept/refuse/reject decisions as the vector, call by
    call and for every sequence of calls. *)
Theorem C15_readbuf_refines_bounded_vec_step : readbuf_refines_bounded_vec_step.
Proof. exact readbuf_refines_bounded_vec_step_holds. Qed.

Theorem C15_readbuf_refines_bounded_vec : readbuf_refines_bounded_vec.
Proof. exact readbuf_refines_bounded_vec_holds. Qed.

(** With overflow checks and debug assertions there is no side condition. *)
Theorem C15_readbuf_refines_bounded_vec_checked_build : readbuf_refines_bounded_vec_checked_build.
Proof. exact readbuf_refines_bounded_vec_checked_build_holds. Qed.

(** A refused or rejected call modifies nothing. *)
Theorem C15_rejection_changes_nothing : rejection_changes_nothing.
Proof. exact rejection_changes_nothing_holds. Qed.

(** (b) Pool memory outside the buffer's slot is neither written nor read. *)
Theorem C15_edits_confined_to_slot : edits_confined_to_slot.
Proof. exact edits_confined_to_slot_holds. Qed.

Theorem C15_reads_confined_to_slot : reads_confined_to_slot.
Proof. exact reads_confined_to_slot_holds. Qed.

(** (c) The slot id recomputed at release is the one the kernel delivered. *)
Theorem C15_release_slot_unchanged : release_slot_unchanged.
Proof. exact release_slot_unchanged_holds. Qed.

(** Every build (with or without overflow checks and debug assertions), [set_len] within
    its contract: no other side condition. *)
Theorem C15_readbuf_refines_bounded_vec_every_build : readbuf_refines_bounded_vec_every_build.
Proof. exact readbuf_refines_bounded_vec_every_build_holds. Qed.

(** What was wrong before the repair of H23 (unchecked [bound + 1] in [remove]): without
    overflow checks two ranges the vector rejects were resolved to valid ranges. *)
Theorem C15_remove_bounds_h23_refuted :
  exists rs re ln,
    norm_start_h23 false rs = Some 0 /\ norm_end_h23 false ln re = Some ln /\
    ~ (range_lo rs <= range_hi ln re /\ range_hi ln re <= ln) /\
    norm_start rs = None /\
    norm_start_h23 false Unb = Some 0 /\ norm_end_h23 false ln (Incl usize_max) = Some 0 /\
    ~ (range_hi ln (Incl usize_max) <= ln) /\
    norm_end ln (Incl usize_max) = None.
Proof. exact remove_bounds_h23_refuted. Qed.

Check C15_readbuf_refines_bounded_vec_step : readbuf_refines_bounded_vec_step.
Check C15_readbuf_refines_bounded_vec : readbuf_refines_bounded_vec.
Check C15_readbuf_refines_bounded_vec_checked_build : readbuf_refines_bounded_vec_checked_build.
Check C15_readbuf_refines_bounded_vec_every_build : readbuf_refines_bounded_vec_every_build.
Check C15_rejection_changes_nothing : rejection_changes_nothing.
Check C15_edits_confined_to_slot : edits_confined_to_slot.
Check C15_reads_confined_to_slot : reads_confined_to_slot.
Check C15_release_slot_unchanged : release_slot_unchanged.
Print Assumptions C15_readbuf_refines_bounded_vec_step.
Print Assumptions C15_readbuf_refines_bounded_vec.
Print Assumptions C15_readbuf_refines_bounded_vec_checked_build.
Print Assumptions C15_rejection_changes_nothing.
Print Assumptions C15_edits_confined_to_slot.
Print Assumptions C15_reads_confined_to_slot.
Print Assumptions C15_release_slot_unchanged.
Print Assumptions C15_readbuf_refines_bounded_vec_every_build.
Print Assumptions C15_remove_bounds_h23_refuted.

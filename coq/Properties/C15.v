(** C15 — ReadBuf edits behave as a capacity-bounded vector confined to its slot.
    Property theorems only; model in Model/ReadBufEdit.v, proofs in Proofs/ReadBufEditProofs.v.

    Quantified over every buffer size (non-zero u32), pool size, pool memory contents, slot,
    fill length and every sequence of [truncate], [clear], [remove] (all [Bound] forms, any
    bounds), [set_len], [extend_from_slice], [spare_capacity_mut] and fills through the
    [BufMut] impl. [edit_ok dbg cap e] is [True] for a build with overflow checks and debug
    assertions; without them it asks for [set_len] within its contract and for no bound
    whose [+ 1] overflows [usize]. *)
From A10 Require Import Base.Word Base.Run Model.ReadBufEdit Proofs.ReadBufEditProofs.

(** (a) Same contents, lengths and accept/refuse/reject decisions as the vector, call by
    call and for every sequence of calls. *)
Theorem C15_readbuf_refines_bounded_vec_step : readbuf_refines_bounded_vec_step.
Proof. exact readbuf_refines_bounded_vec_step_holds. Qed.

Theorem C15_readbuf_refines_bounded_vec : readbuf_refines_bounded_vec.
Proof. exact readbuf_refines_bounded_vec_holds. Qed.

(** With overflow checks and debug assertions there is no side condition. *)
Theorem C15_readbuf_refines_bounded_vec_checked_build : readbuf_refines_bounded_vec_checked_build.
Proof. exact readbuf_refines_bounded_vec_checked_build_holds. Qed.

(** A refused or rejected call modifies nothing. *)
Theorem C15_rejection_changes_nothing : rejection_changes_nothing.
Proof. exact rejection_changes_nothing_holds. Qed.

(** (b) Pool memory outside the buffer's slot is neither written nor read. *)
Theorem C15_edits_confined_to_slot : edits_confined_to_slot.
Proof. exact edits_confined_to_slot_holds. Qed.

Theorem C15_reads_confined_to_slot : reads_confined_to_slot.
Proof. exact reads_confined_to_slot_holds. Qed.

(** (c) The slot id recomputed at release is the one the kernel delivered. *)
Theorem C15_release_slot_unchanged : release_slot_unchanged.
Proof. exact release_slot_unchanged_holds. Qed.

(** Without overflow checks the unrestricted form of (a) is false: a bound whose [+ 1] wraps
    makes [remove] accept (and act on) a range the vector rejects. *)
Theorem C15_release_build_remove_wraps_refuted :
  exists cap psize s e,
    pool_ok cap psize /\ owned_wf cap psize s /\
    vec_step cap (abs cap s) e = (abs cap s, Rejected) /\
    snd (rb_step false cap s e) = Done 0 /\
    v_data (abs cap s) = [1; 2; 3; 4] /\
    v_data (abs cap (fst (rb_step false cap s e))) = [].
Proof. exact release_build_remove_wraps_refuted. Qed.

Theorem C15_every_build_refuted : ~ readbuf_refines_bounded_vec_every_build.
Proof. exact every_build_refuted. Qed.

Check C15_readbuf_refines_bounded_vec_step : readbuf_refines_bounded_vec_step.
Check C15_readbuf_refines_bounded_vec : readbuf_refines_bounded_vec.
Check C15_readbuf_refines_bounded_vec_checked_build : readbuf_refines_bounded_vec_checked_build.
Check C15_rejection_changes_nothing : rejection_changes_nothing.
Check C15_edits_confined_to_slot : edits_confined_to_slot.
Check C15_reads_confined_to_slot : reads_confined_to_slot.
Check C15_release_slot_unchanged : release_slot_unchanged.
Print Assumptions C15_readbuf_refines_bounded_vec_step.
Print Assumptions C15_readbuf_refines_bounded_vec.
Print Assumptions C15_readbuf_refines_bounded_vec_checked_build.
Print Assumptions C15_rejection_changes_nothing.
Print Assumptions C15_edits_confined_to_slot.
Print Assumptions C15_reads_confined_to_slot.
Print Assumptions C15_release_slot_unchanged.
Print Assumptions C15_release_build_remove_wraps_refuted.
Print Assumptions C15_every_build_refuted.

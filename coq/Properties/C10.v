(** C10 — write_all, write_all_vectored, send_all and send_all_vectored return success only
    after every byte of every input buffer has been handed to the kernel exactly once and in
    order (at the right file offset, with the caller's flags and zero-copy mode on every
    continuation) and fail with WriteZero if the kernel accepts nothing; read_n,
    read_n_vectored, recv_n and recv_n_vectored return only once at least n bytes have been
    appended in arrival order and fail with UnexpectedEof only if the stream ends first; the
    extract variants return the caller's original buffers.
    Property theorems only; model in Model/Composite.v, proofs in Proofs/CompositeProofs.v.

    The statements ([write_exact_spec], [read_exact_spec], [requests_exact], [req_ok],
    [eof_is_real] in Proofs/CompositeProofs.v) quantify over all buffer lists (any arity, empty
    buffers anywhere, lengths below 2^32: [wf]), all offsets ([offset_ok]: the running offset
    stays below the marker u64::MAX), all flag words, both send modes, all target counts
    n >= 1 and all scripts of kernel results with 0 <= r_i <= requested_i ([within]). *)
From A10 Require Import Base.Word Base.Run Gen.Consts Model.BufTraits Model.Composite
  Proofs.CompositeProofs.

(** Writes. For every run: request j carries the caller's opcode and flags, the offset
    [off + r_0 + .. + r_(j-1)] (NO_OFFSET stays NO_OFFSET) and offers exactly the bytes of the
    input not yet transferred; the bytes the kernel accepted, in order, are a prefix of the
    input; success iff the transferred total is the total length - then the accepted bytes are
    every input byte exactly once in order and the caller's buffers are returned; WriteZero iff
    some result was 0. *)
Theorem C10_write_all_exact : write_all_exact.
Proof. exact write_all_exact_holds. Qed.

Theorem C10_write_all_vectored_exact : write_all_vectored_exact.
Proof. exact write_all_vectored_exact_holds. Qed.

Theorem C10_send_all_exact : send_all_exact.
Proof. exact send_all_exact_holds. Qed.

Theorem C10_send_all_vectored_exact : send_all_vectored_exact.
Proof. exact send_all_vectored_exact_holds. Qed.

(** Reads, for any capacity: request j carries the caller's flags, the offset
    [off + r_0 + .. + r_(j-1)], and targets exactly the spare capacity left after the bytes
    received so far (it starts where the previous transfer ended); success iff at least n bytes
    arrived, and the returned buffers are the caller's, grown by what arrived; UnexpectedEof
    iff some result was 0. *)
Theorem C10_read_n_exact_any_capacity : read_n_exact_any_capacity.
Proof. exact read_n_exact_any_capacity_holds. Qed.

Theorem C10_read_n_vectored_exact_any_capacity : read_n_vectored_exact_any_capacity.
Proof. exact read_n_vectored_exact_any_capacity_holds. Qed.

Theorem C10_recv_n_exact_any_capacity : recv_n_exact_any_capacity.
Proof. exact recv_n_exact_any_capacity_holds. Qed.

Theorem C10_recv_n_vectored_exact_any_capacity : recv_n_vectored_exact_any_capacity.
Proof. exact recv_n_vectored_exact_any_capacity_holds. Qed.

(** Reads, the full statement: additionally "UnexpectedEof only if the stream ended" (a request
    for at least one byte completed with 0). This needs the named hypothesis [spare_covers]:
    the spare capacity holds the n bytes asked for (known finding H16 otherwise, below). *)
Theorem C10_read_n_exact : read_n_exact.
Proof. exact read_n_exact_holds. Qed.

Theorem C10_read_n_vectored_exact : read_n_vectored_exact.
Proof. exact read_n_vectored_exact_holds. Qed.

Theorem C10_recv_n_exact : recv_n_exact.
Proof. exact recv_n_exact_holds. Qed.

Theorem C10_recv_n_vectored_exact : recv_n_vectored_exact.
Proof. exact recv_n_vectored_exact_holds. Qed.

(** H16 (open): without [spare_covers] the last clause fails. A 4-byte buffer, n = 5, the kernel
    delivers 4 bytes; the next request asks for 0 bytes, gets 0, and the caller sees
    UnexpectedEof although no request for data ever completed with 0. *)
Theorem C10_read_n_h16_refuted : read_n_spare_below_n_fails.
Proof. exact read_n_h16_refuted. Qed.

Theorem C10_read_n_pool_h16_refuted : read_n_pool_spare_below_n_fails.
Proof. exact read_n_pool_h16_refuted. Qed.

Theorem C10_read_n_vectored_h16_refuted : read_n_vectored_spare_below_n_fails.
Proof. exact read_n_vectored_h16_refuted. Qed.

Theorem C10_recv_n_h16_refuted : recv_n_spare_below_n_fails.
Proof. exact recv_n_h16_refuted. Qed.

Theorem C10_recv_n_vectored_h16_refuted : recv_n_vectored_spare_below_n_fails.
Proof. exact recv_n_vectored_h16_refuted. Qed.

(** Why [offset_ok] is needed: an offset that reaches u64::MAX turns the positional write into
    a non-positional one (offset 2^64-2, three 1-byte transfers). *)
Theorem C10_offset_sentinel_refuted : positional_write_reaches_sentinel.
Proof. exact write_all_offset_sentinel_refuted. Qed.

Check C10_write_all_exact : write_all_exact.
Check C10_write_all_vectored_exact : write_all_vectored_exact.
Check C10_send_all_exact : send_all_exact.
Check C10_send_all_vectored_exact : send_all_vectored_exact.
Check C10_read_n_exact_any_capacity : read_n_exact_any_capacity.
Check C10_read_n_vectored_exact_any_capacity : read_n_vectored_exact_any_capacity.
Check C10_recv_n_exact_any_capacity : recv_n_exact_any_capacity.
Check C10_recv_n_vectored_exact_any_capacity : recv_n_vectored_exact_any_capacity.
Check C10_read_n_exact : read_n_exact.
Check C10_read_n_vectored_exact : read_n_vectored_exact.
Check C10_recv_n_exact : recv_n_exact.
Check C10_recv_n_vectored_exact : recv_n_vectored_exact.
Print Assumptions C10_write_all_exact.
Print Assumptions C10_write_all_vectored_exact.
Print Assumptions C10_send_all_exact.
Print Assumptions C10_send_all_vectored_exact.
Print Assumptions C10_read_n_exact_any_capacity.
Print Assumptions C10_read_n_vectored_exact_any_capacity.
Print Assumptions C10_recv_n_exact_any_capacity.
Print Assumptions C10_recv_n_vectored_exact_any_capacity.
Print Assumptions C10_read_n_exact.
Print Assumptions C10_read_n_vectored_exact.
Print Assumptions C10_recv_n_exact.
Print Assumptions C10_recv_n_vectored_exact.
Print Assumptions C10_read_n_h16_refuted.
Print Assumptions C10_read_n_pool_h16_refuted.
Print Assumptions C10_read_n_vectored_h16_refuted.
Print Assumptions C10_recv_n_h16_refuted.
Print Assumptions C10_recv_n_vectored_h16_refuted.
Print Assumptions C10_offset_sentinel_refuted.

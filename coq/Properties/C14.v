(** C14 — Buffer trait implementations obey the pointer/length/initialisation laws.
    Property theorems only; models in Model/BufTraits.v, proofs in Proofs/BufTraitsProofs.v. *)
From A10 Require Import Base.Word Model.BufTraits Proofs.BufTraitsProofs.

(** Every pointer/length pair exposed by any provided implementation or wrapper lies inside
    the buffer's own allocation (any arity, any limit, any skip). *)
Theorem C14_exposed_pairs_in_bounds : all_exposed_in_bounds.
Proof. exact all_exposed_in_bounds_holds. Qed.

(** Reported lengths / spare capacities / emptiness agree with the exposed pairs, for every
    limit in the full usize range. *)
Theorem C14_reported_lengths_agree : reported_lengths_agree.
Proof. exact reported_lengths_agree_holds. Qed.

(** Marking n bytes initialised appends exactly n bytes, front to back across the buffers. *)
Theorem C14_set_init_appends_in_order : set_init_appends_in_order.
Proof. exact set_init_appends_in_order_holds. Qed.

(** A limit is never exceeded and decreases by exactly what was initialised. *)
Theorem C14_limit_never_exceeded : limit_never_exceeded.
Proof. exact limit_never_exceeded_holds. Qed.

(** The counting wrapper (ReadNBuf) counts every transfer, one of 0 bytes included. *)
Theorem C14_counting_wrapper_counts_every_transfer : counting_wrapper_counts_every_transfer.
Proof. exact counting_wrapper_counts_every_transfer_holds. Qed.

(** [as_slice] shows exactly the bytes of [parts] (plain and limited buffers, every limit). *)
Theorem C14_as_slice_shows_parts : as_slice_shows_parts.
Proof. exact as_slice_shows_parts_holds. Qed.

(** Slicing the inner slice by the limit instead (seeded change C14-k) panics. *)
Theorem C14_as_slice_by_limit_refuted :
  exists b l, wf b /\ lim_buf_as_slice_k {| inner := b; limit := l |} = None
              /\ lim_buf_len {| inner := b; limit := l |} = len b.
Proof. exact lim_buf_as_slice_k_refuted. Qed.

(** What was wrong before the repair of H6 ([self.limit as u32]). *)
Theorem C14_h6_truncating_cast_refuted :
  exists b l, wf b /\ snd (lim_buf_parts_h6 {| inner := b; limit := l |})
                      <> lim_buf_len {| inner := b; limit := l |}.
Proof. exact lim_buf_parts_h6_refuted. Qed.

Check C14_exposed_pairs_in_bounds : all_exposed_in_bounds.
Check C14_reported_lengths_agree : reported_lengths_agree.
Check C14_set_init_appends_in_order : set_init_appends_in_order.
Check C14_limit_never_exceeded : limit_never_exceeded.
Check C14_counting_wrapper_counts_every_transfer : counting_wrapper_counts_every_transfer.
Check C14_as_slice_shows_parts : as_slice_shows_parts.
Print Assumptions C14_exposed_pairs_in_bounds.
Print Assumptions C14_reported_lengths_agree.
Print Assumptions C14_set_init_appends_in_order.
Print Assumptions C14_limit_never_exceeded.
Print Assumptions C14_counting_wrapper_counts_every_transfer.
Print Assumptions C14_as_slice_shows_parts.
Print Assumptions C14_as_slice_by_limit_refuted.
Print Assumptions C14_h6_truncating_cast_refuted.

(** C06 — Dropping a future cancels exactly its own operation; the operation's state is
    reclaimed exactly once, for both outcomes of the cancellation race.
    Property theorems only; model in Model/OpState.v, proofs in Proofs/OpStateInv.v and
    Proofs/OpStateProofs.v. *)
(* the small-step race model first: the names of Model/OpState.v imported next take precedence *)
From A10 Require Import Model.OpRace Proofs.OpRaceProofs.
From A10 Require Import Base.Word Base.Run Model.OpState Proofs.OpStateInv Proofs.OpStateProofs.

(** One step: a drop queues exactly [Cancel i] iff the operation is running and the queue has
    room, and then does not free; in every other status it queues nothing and frees now. *)
Theorem C06_drop_cancels_exactly_it : drop_cancels_exactly_it.
Proof. exact drop_cancels_exactly_it_holds. Qed.

(** Every queued cancellation names a dropped operation; consuming it can only complete that
    operation. *)
Theorem C06_cancel_targets_only_dropped : cancel_targets_only_dropped.
Proof. exact cancel_targets_only_dropped_holds. Qed.

(** At most one [OFree i] over any valid history; [freed] is monotone. *)
Theorem C06_state_freed_at_most_once : state_freed_at_most_once.
Proof. exact state_freed_at_most_once_holds. Qed.

(** A dropped operation is never orphaned and is freed when its final completion is processed. *)
Theorem C06_dropped_state_is_reclaimed : dropped_state_is_reclaimed.
Proof. exact dropped_state_is_reclaimed_holds. Qed.

Check C06_drop_cancels_exactly_it : drop_cancels_exactly_it.
Check C06_cancel_targets_only_dropped : cancel_targets_only_dropped.
Check C06_state_freed_at_most_once : state_freed_at_most_once.
Check C06_dropped_state_is_reclaimed : dropped_state_is_reclaimed.
Print Assumptions C06_drop_cancels_exactly_it.
Print Assumptions C06_cancel_targets_only_dropped.
Print Assumptions C06_state_freed_at_most_once.
Print Assumptions C06_dropped_state_is_reclaimed.

(** * Under the poll / drop versus dispatch race (Model/OpRace.v, small-step at hook-B
    granularity; all programs obeying [progs_ok], ALL interleavings; replayed against the real
    code by the driver C03R on every run of this check), single-shot, multishot and two-step
    operations with any completion scripts: the state box is freed at most once and never touched
    afterwards; a dropped running operation is freed exactly when its FINAL completion (no F_MORE)
    is dispatched -- never on a completion with F_MORE -- and is never orphaned; at most one cancel
    request per operation, only for a dropped one. *)
Theorem C06_race_state_reclaimed_exactly_once : OpRaceProofs.race_state_reclaimed_exactly_once.
Proof. exact OpRaceProofs.race_state_reclaimed_exactly_once_holds. Qed.

(** Seeded change C06-a (status check and Dropped store under different lock acquisitions):
    the state is leaked and a finished operation is asked to be cancelled. *)
Theorem C06_race_reclaimed_c06a_leaks : OpRaceProofs.race_reclaimed_c06a_leaks.
Proof. exact OpRaceProofs.race_reclaimed_c06a_leaks_holds. Qed.

(** Seeded change C06-b (a dropped two-step operation released on its first completion): the state
    is freed while the notification is outstanding, then touched and freed again. *)
Theorem C06_race_two_step_c06b_freed_early : OpRaceProofs.race_two_step_c06b_freed_early.
Proof. exact OpRaceProofs.race_two_step_c06b_freed_early_holds. Qed.

Check C06_race_state_reclaimed_exactly_once : OpRaceProofs.race_state_reclaimed_exactly_once.
Check C06_race_two_step_c06b_freed_early : OpRaceProofs.race_two_step_c06b_freed_early.
Print Assumptions C06_race_two_step_c06b_freed_early.
Check C06_race_reclaimed_c06a_leaks : OpRaceProofs.race_reclaimed_c06a_leaks.
Print Assumptions C06_race_state_reclaimed_exactly_once.
Print Assumptions C06_race_reclaimed_c06a_leaks.

(** C06 — Dropping a future cancels exactly its own operation; the operation's state is
    reclaimed exactly once, for both outcomes of the cancellation race.
    Property theorems only; model in Model/OpState.v, proofs in Proofs/OpStateInv.v and
    Proofs/OpStateProofs.v. *)
From A10 Require Import Base.Word Base.Run Model.OpState Proofs.OpStateInv Proofs.OpStateProofs.

(** One step: a drop queues exactly [Cancel i] iff the operation is running and the queue has
    room, and then does not free; in every other status it queues nothing and frees now. *)
Theorem C06_drop_cancels_exactly_it : drop_cancels_exactly_it.
Proof. exact drop_cancels_exactly_it_holds. Qed.

(** Every queued cancellation names a dropped operation; consuming it can only complete that
    operation. *)
Theorem C06_cancel_targets_only_dropped : cancel_targets_only_dropped.
Proof. exact cancel_targets_only_dropped_holds. Qed.

(** At most one [OFree i] over any valid history; [freed] is monotone. *)
Theorem C06_state_freed_at_most_once : state_freed_at_most_once.
Proof. exact state_freed_at_most_once_holds. Qed.

(** A dropped operation is never orphaned and is freed when its final completion is processed. *)
Theorem C06_dropped_state_is_reclaimed : dropped_state_is_reclaimed.
Proof. exact dropped_state_is_reclaimed_holds. Qed.

Check C06_drop_cancels_exactly_it : drop_cancels_exactly_it.
Check C06_cancel_targets_only_dropped : cancel_targets_only_dropped.
Check C06_state_freed_at_most_once : state_freed_at_most_once.
Check C06_dropped_state_is_reclaimed : dropped_state_is_reclaimed.
Print Assumptions C06_drop_cancels_exactly_it.
Print Assumptions C06_cancel_targets_only_dropped.
Print Assumptions C06_state_freed_at_most_once.
Print Assumptions C06_dropped_state_is_reclaimed.

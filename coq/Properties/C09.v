(** C09 — An operation interrupted (-EINTR) or cancelled (-ECANCELED) by the kernel is
    restarted transparently: same state (identity), same resources, one new submission (or a
    parked waker when the queue is full), and the caller only ever observes the outcome of the
    last attempt — for single-shot and two-step operations over ANY history; for multishot
    streams over histories whose completions have the kernel's script shape K2m (a completion
    carrying -EINTR/-ECANCELED never has the MORE flag). Outside K2m the multishot code path
    has no restart: the two witnesses below document what it does there.
    Property theorems only; model in Model/OpState.v, proofs in Proofs/OpStateRestart.v. *)
From A10 Require Import Base.Word Base.Run Model.OpState Proofs.OpStateInv Proofs.OpStateRestart.

Theorem C09_restart_transparent : restart_transparent.
Proof. exact restart_transparent_holds. Qed.

(** K2 explicit: after a completion without MORE the kernel posts nothing more for the attempt. *)
Theorem C09_final_completion_ends_attempt :
  forall s i c c', Inv s -> ev_ok s (KPost i c) = true -> more c = false ->
    ev_ok (kpost s i c) (KPost i c') = false.
Proof. exact final_completion_ends_attempt. Qed.

(** Outside the kernel contract (an interruption carrying MORE): the [Running] path of a
    multishot poll reports the interruption to the caller … *)
Theorem C09_multi_interruption_with_more_surfaces_refuted : c09_multi_interruption_with_more_surfaces.
Proof. exact c09_multi_interruption_with_more_surfaces_refuted. Qed.

(** … and the [Done] path panics on its sanity assertion. *)
Theorem C09_multi_restart_with_queued_results_panics_refuted : multi_restart_with_queued_results_panics.
Proof. exact multi_restart_with_queued_results_panics_refuted. Qed.

Check C09_restart_transparent : restart_transparent.
Check C09_multi_interruption_with_more_surfaces_refuted : c09_multi_interruption_with_more_surfaces.
Check C09_multi_restart_with_queued_results_panics_refuted : multi_restart_with_queued_results_panics.
Print Assumptions C09_restart_transparent.
Print Assumptions C09_final_completion_ends_attempt.
Print Assumptions C09_multi_interruption_with_more_surfaces_refuted.
Print Assumptions C09_multi_restart_with_queued_results_panics_refuted.

(** C01 — Memory shared with the kernel outlives the operation: the boxed state and the
    resources of an operation stay allocated, at the same place, while a submission for it is
    queued, the request is in flight or a completion for it is unprocessed — across drops of the
    future at any point, cancellations winning or losing, EINTR/ECANCELED re-issue, two-step and
    multishot completions.
    Property theorems only; model in Model/OpState.v, proofs in Proofs/OpStateInv.v (structural
    invariant of reachable states) and Proofs/OpStateProofs.v. *)
From A10 Require Import Base.Word Base.Run Model.OpState Proofs.OpStateInv Proofs.OpStateProofs.

(** For every queue size, every table of operations and every valid history: whatever the
    kernel still refers to is neither freed nor stripped of its resources. *)
Theorem C01_inflight_implies_allocated : inflight_implies_allocated.
Proof. exact inflight_implies_allocated_holds. Qed.

(** The identity (index = address of the box = user_data) of an operation's state never
    changes; re-issue queues [Submit] of the same identity and only counts [attempts] up. *)
Theorem C01_addresses_stable : addresses_stable.
Proof. exact addresses_stable_holds. Qed.

(** The structural invariant behind both (exported for the other OpState properties). *)
Theorem C01_reachable_states_well_formed :
  forall cap0 kinds es, valid (init cap0 kinds) es -> Inv (fst (run step (init cap0 kinds) es)).
Proof. exact reachable_Inv. Qed.

Check C01_inflight_implies_allocated : inflight_implies_allocated.
Check C01_addresses_stable : addresses_stable.
Print Assumptions C01_inflight_implies_allocated.
Print Assumptions C01_addresses_stable.
Print Assumptions C01_reachable_states_well_formed.

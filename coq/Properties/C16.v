(** C16 — socket addresses round-trip through the kernel's representation, and the
    pointer/length pair passed to the kernel covers exactly the structure for the address.
    Property theorems only; model in Model/SockAddr.v, proofs in Proofs/SockAddrProofs.v.

    [Fixed] is the code in /repo (after the repairs of H7, H8 and H29), [AsIs] the code before
    them. On the code as it WAS the two laws failed on two narrow classes (findings H7 and H8):
    the first group of theorems states what held outside these classes (the restriction is an
    explicit predicate), the exact behaviour inside them, and witnesses refuting the
    unrestricted statements [sockaddr_roundtrip] and [ptr_len_covers_family_struct] for [AsIs];
    the [_fixed] theorems are the full statements for the code as it is. *)
From A10 Require Import Base.Word Model.SockAddr Proofs.SockAddrProofs.

(** ** The code before the repairs of H7 and H8 ([AsIs]) *)

(** Every supported address other than a Unix pathname reads back as itself with the length
    the kernel reports; a Unix pathname does with the length that excludes the NUL. *)
Theorem C16_sockaddr_roundtrip_except_unix_path : sockaddr_roundtrip_except_unix_path.
Proof. exact sockaddr_roundtrip_except_unix_path_holds. Qed.

(** H7: with the length the kernel does report, every pathname reads back unnamed. *)
Theorem C16_h7_unix_path_reads_back_unnamed : unix_path_reads_back_unnamed.
Proof. exact unix_path_reads_back_unnamed_holds. Qed.

Theorem C16_sockaddr_roundtrip_refuted : sockaddr_roundtrip_refuted_stmt.
Proof. exact sockaddr_roundtrip_refuted. Qed.

Theorem C16_sockaddr_roundtrip_fails : ~ sockaddr_roundtrip.
Proof. exact sockaddr_roundtrip_fails. Qed.

(** The pairs stay in bounds for every address; outside the class of H8 Linux reads exactly
    the address out of the [as_ptr] pair. *)
Theorem C16_ptr_len_covers_except_short_abstract : ptr_len_covers_except_short_abstract.
Proof. exact ptr_len_covers_except_short_abstract_holds. Qed.

(** H8: an abstract name reaches the kernel NUL-padded to 107 bytes. *)
Theorem C16_h8_unix_abstract_arrives_padded : unix_abstract_arrives_padded.
Proof. exact unix_abstract_arrives_padded_holds. Qed.

Theorem C16_ptr_len_covers_refuted : ptr_len_covers_refuted_stmt.
Proof. exact ptr_len_covers_refuted. Qed.

Theorem C16_ptr_len_covers_fails : ~ ptr_len_covers_family_struct.
Proof. exact ptr_len_covers_fails. Qed.

(** bind, getsockname, read back: the address survives for the IP families. *)
Theorem C16_bind_getsockname_roundtrip_except_unix : bind_getsockname_roundtrip_except_unix.
Proof. exact bind_getsockname_roundtrip_except_unix_holds. Qed.

(** ** The code after the proposed repair: the full statements *)
Theorem C16_sockaddr_roundtrip_fixed : sockaddr_roundtrip_fixed.
Proof. exact sockaddr_roundtrip_fixed_holds. Qed.

Theorem C16_ptr_len_covers_family_struct_fixed : ptr_len_covers_family_struct_fixed.
Proof. exact ptr_len_covers_family_struct_fixed_holds. Qed.

Theorem C16_bind_getsockname_roundtrip_fixed : bind_getsockname_roundtrip_fixed.
Proof. exact bind_getsockname_roundtrip_fixed_holds. Qed.

(** H29 (repaired, ae7d306): the unnamed Unix address with every length the kernel reports for it,
    0 included (recvmsg from a sender that is not bound). *)
Theorem C16_unix_unnamed_every_reported_length : unix_unnamed_every_reported_length.
Proof. exact unix_unnamed_every_reported_length_holds. Qed.

Theorem C16_unix_length_zero_h29_refuted : unix_length_zero_h29_refuted.
Proof. exact unix_length_zero_h29_refuted_holds. Qed.

Check C16_sockaddr_roundtrip_except_unix_path : sockaddr_roundtrip_except_unix_path.
Check C16_h7_unix_path_reads_back_unnamed : unix_path_reads_back_unnamed.
Check C16_sockaddr_roundtrip_refuted : sockaddr_roundtrip_refuted_stmt.
Check C16_sockaddr_roundtrip_fails : ~ sockaddr_roundtrip.
Check C16_ptr_len_covers_except_short_abstract : ptr_len_covers_except_short_abstract.
Check C16_h8_unix_abstract_arrives_padded : unix_abstract_arrives_padded.
Check C16_ptr_len_covers_refuted : ptr_len_covers_refuted_stmt.
Check C16_ptr_len_covers_fails : ~ ptr_len_covers_family_struct.
Check C16_bind_getsockname_roundtrip_except_unix : bind_getsockname_roundtrip_except_unix.
Check C16_sockaddr_roundtrip_fixed : sockaddr_roundtrip_fixed.
Check C16_ptr_len_covers_family_struct_fixed : ptr_len_covers_family_struct_fixed.
Check C16_bind_getsockname_roundtrip_fixed : bind_getsockname_roundtrip_fixed.
Print Assumptions C16_sockaddr_roundtrip_except_unix_path.
Print Assumptions C16_h7_unix_path_reads_back_unnamed.
Print Assumptions C16_sockaddr_roundtrip_refuted.
Print Assumptions C16_sockaddr_roundtrip_fails.
Print Assumptions C16_ptr_len_covers_except_short_abstract.
Print Assumptions C16_h8_unix_abstract_arrives_padded.
Print Assumptions C16_ptr_len_covers_refuted.
Print Assumptions C16_ptr_len_covers_fails.
Print Assumptions C16_bind_getsockname_roundtrip_except_unix.
Print Assumptions C16_sockaddr_roundtrip_fixed.
Print Assumptions C16_ptr_len_covers_family_struct_fixed.
Print Assumptions C16_bind_getsockname_roundtrip_fixed.
Check C16_unix_unnamed_every_reported_length : unix_unnamed_every_reported_length.
Check C16_unix_length_zero_h29_refuted : unix_length_zero_h29_refuted.
Print Assumptions C16_unix_unnamed_every_reported_length.
Print Assumptions C16_unix_length_zero_h29_refuted.

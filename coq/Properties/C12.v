(** C12 — Dropping the Ring with operations queued, in flight, abandoned or finished submits the
    queued clean-up requests, cancels what is still running, reclaims every abandoned operation's
    state and unmaps exactly the memory it mapped. SubmissionQueue clones, AsyncFds, pending
    operations, ReadBufPools and ReadBufs may be dropped before or after the Ring in any order
    without crashing, touching unmapped memory, or leaving their descriptors, registrations or
    allocations behind.

    Property theorems only; model in Model/Teardown.v, proofs in Proofs/TeardownProofs.v.
    Quantification: any state satisfying the invariant [wf] (the stored reference counts equal the
    number of live holders, every running or abandoned operation has exactly one final completion
    still due, every posted result of a two-step operation is followed by its final completion,
    ...) — in particular [init pp] for every population [pp] of any size ([init_wf]), whose
    operations may be single-step or two-step (zero-copy sends: result with F_MORE, then the
    notification), cancellable or not, and start in any of eight states —, and any list of
    [Drop]/[KComplete] events (the kernel's completions come at any point, also after the Ring and
    every handle are gone) in which a future is not dropped after the [AsyncFd] it borrows
    ([borrows_ok], what the borrow checker enforces). *)
From A10 Require Import Base.Word Base.Run Model.Teardown Proofs.TeardownProofs.

(** The log replays against the resource monitor — for every population, with operations that
    survive the blanket cancellation and two-step (zero-copy send) operations in any state, and
    with kernel completions anywhere, also after the Ring is gone. No exclusion. *)
Theorem C12_teardown_memory_safe : teardown_memory_safe.
Proof. exact teardown_memory_safe_holds. Qed.

(** The same over the code as it is (the repaired drain of fbe02e5). *)
Theorem C12_teardown_memory_safe_fixed : teardown_memory_safe_fixed.
Proof. exact teardown_memory_safe_fixed_holds. Qed.

(** ... which means, in plain terms: no access to a mapping after its munmap, each munmap with the
    mapping's own length and not repeated, the ring descriptor closed at most once, after the three
    munmaps and after the last enter / register on it, no allocation freed twice, no pool memory
    used or unregistered after it was freed, no descriptor closed twice, the completion handler
    never touches an operation state after its release, and ([log_due_safe]) when an operation
    state is released every request of that operation accepted by the kernel has had its final
    completion processed: nothing in flight, no final completion still to be processed. *)
Theorem C12_teardown_log_safe : teardown_log_safe.
Proof. exact teardown_log_safe_holds. Qed.

Theorem C12_teardown_log_safe_fixed : teardown_log_safe_fixed.
Proof. exact teardown_log_safe_fixed_holds. Qed.

(** When every live object is dropped: nothing stays mapped, the ring descriptor is closed, no
    pool stays registered or allocated; an operation state that is still allocated implies the
    named class H14 or the named class H28 for that very operation (still in flight after the Ring
    was dropped), an [AsyncFd] descriptor that is still open implies the named class H13. *)
Theorem C12_teardown_releases_everything : teardown_releases_everything.
Proof. exact teardown_releases_everything_holds. Qed.

(** Whatever was held at the start and is not held at the end was released by exactly one event. *)
Theorem C12_teardown_exactly_once : teardown_exactly_once.
Proof. exact teardown_exactly_once_holds. Qed.

(** The same for every population (the invariant holds initially). *)
Theorem C12_teardown_of_populations : teardown_of_populations.
Proof. exact teardown_of_populations_holds. Qed.

(** The named classes are inhabited (the code violates the property there). *)
Theorem C12_fd_dropped_after_ring_refuted :
  exists pp es, pop_ok pp /\ covers (init pp) es /\ borrows_ok step (init pp) es /\
    exists m, replay (pp_d pp) (mon_of (init pp)) (snd (run step (init pp) es)) = Some m /\
              nth 0 (m_desc m) false = true.
Proof. exact fd_dropped_after_ring_refuted. Qed.

Theorem C12_abandoned_ops_beyond_cq_capacity_refuted :
  exists pp es, pop_ok pp /\ covers (init pp) es /\ borrows_ok step (init pp) es /\
    exists m, replay (pp_d pp) (mon_of (init pp)) (snd (run step (init pp) es)) = Some m /\
              nth 2 (m_box m) false = true /\ m_desc m = [false].
Proof. exact abandoned_ops_beyond_cq_capacity_refuted. Qed.

(** H28: an operation still in flight after the Ring was dropped — it survived the blanket
    cancellation, or (second witness) it is a zero-copy send whose notification is outstanding —
    keeps its state for ever (the code as it is; a leak, memory safe). *)
Theorem C12_op_in_flight_after_ring_drop_refuted :
  exists pp es, pop_ok pp /\ covers (init pp) es /\ borrows_ok step_fixed (init pp) es /\
    exists m, replay (pp_d pp) (mon_of (init pp)) (snd (run step_fixed (init pp) es)) = Some m /\
              nth 0 (m_box m) false = true /\ m_fd m = false.
Proof. exact op_in_flight_after_ring_drop_refuted. Qed.

Theorem C12_op_in_flight_after_ring_drop_refuted_notification :
  exists pp es, pop_ok pp /\ covers (init pp) es /\ borrows_ok step_fixed (init pp) es /\
    exists m, replay (pp_d pp) (mon_of (init pp)) (snd (run step_fixed (init pp) es)) = Some m /\
              nth 0 (m_box m) false = true /\ m_fd m = false.
Proof. exact op_in_flight_after_ring_drop_refuted_notification. Qed.

(** The repaired drain (fbe02e5, [drop_ring_fixed]) — the code as it is, and what the
    correspondence runs: no exception for the size of the completion queue; what remains is H28
    and H13. *)
Theorem C12_teardown_releases_everything_fixed : teardown_releases_everything_fixed.
Proof. exact teardown_releases_everything_fixed_holds. Qed.

Theorem C12_teardown_of_populations_fixed : teardown_of_populations_fixed.
Proof. exact teardown_of_populations_fixed_holds. Qed.

(** The two seeded regressions break memory safety (witnesses by computation): with C12-c
    (release on the result completion of an abandoned two-step operation) and with C01-f (release
    at drop time once the Ring is gone) the log of a small population no longer replays, because a
    state is released while its request is in flight; the code as it is replays on the same input. *)
Theorem C12_seeded_c12c_releases_state_in_flight_refuted :
  exists pp es, pop_ok pp /\ covers (init pp) es /\ borrows_ok step_fixed (init pp) es /\
    (exists m, replay (pp_d pp) (mon_of (init pp)) (snd (run step_fixed (init pp) es)) = Some m) /\
    replay (pp_d pp) (mon_of (init pp)) (snd (run step_c12c (init pp) es)) = None /\
    ~ log_due_safe (m_due (mon_of (init pp))) (snd (run step_c12c (init pp) es)).
Proof. exact c12c_releases_state_in_flight_refuted. Qed.

Theorem C12_seeded_c12c_uses_released_state_in_drain_refuted :
  exists pp es, pop_ok pp /\ covers (init pp) es /\ borrows_ok step_fixed (init pp) es /\
    (exists m, replay (pp_d pp) (mon_of (init pp)) (snd (run step_fixed (init pp) es)) = Some m /\ m_box m = [false]) /\
    replay (pp_d pp) (mon_of (init pp)) (snd (run step_c12c (init pp) es)) = None /\
    exists l1 l2, snd (run step_c12c (init pp) es) = l1 ++ LFree (ABox 0) :: l2 /\ In (LProcess 0 true) l2.
Proof. exact c12c_uses_released_state_in_drain_refuted. Qed.

Theorem C12_seeded_c01f_releases_state_in_flight_refuted :
  exists pp es, pop_ok pp /\ covers (init pp) es /\ borrows_ok step_fixed (init pp) es /\
    (exists m, replay (pp_d pp) (mon_of (init pp)) (snd (run step_fixed (init pp) es)) = Some m) /\
    replay (pp_d pp) (mon_of (init pp)) (snd (run step_c01f (init pp) es)) = None /\
    ~ log_due_safe (m_due (mon_of (init pp))) (snd (run step_c01f (init pp) es)).
Proof. exact c01f_releases_state_in_flight_refuted. Qed.

(** "Cancels what is still running": after the drop of the Ring nothing is queued and whatever
    is still in flight is a request a cancellation cannot finish (the kernel does not cancel it, or
    a two-step request that only waits for its notification); so the class H28 holds such
    operations only. *)
Theorem C12_ring_drop_leaves_only_uncancelable : ring_drop_leaves_only_uncancelable.
Proof. exact ring_drop_leaves_only_uncancelable_holds. Qed.

Theorem C12_in_flight_after_ring_drop_is_uncancelable : in_flight_after_ring_drop_is_uncancelable.
Proof. exact in_flight_after_ring_drop_is_uncancelable_holds. Qed.

(** Seeded change C12-k (a ring set up without IORING_SETUP_SUBMIT_ALL): the kernel stops
    consuming at a refused submission, the read queued behind it is started by the drain after the
    blanket cancellation and is in flight, cancelable, when the Ring is gone; with the flag
    nothing is. *)
Theorem C12_seeded_c12k_without_submit_all_refuted :
  k_inflight (ring_drop_kernel consume_stop dims_c12k 3%nat kern_c12k) = [1%nat] /\
  k_sqq (ring_drop_kernel consume_stop dims_c12k 3%nat kern_c12k) = [] /\
  cancelable dims_c12k (ring_drop_kernel consume_stop dims_c12k 3%nat kern_c12k) 1%nat = true /\
  k_inflight (ring_drop_kernel consume_all dims_c12k 3%nat kern_c12k) = [].
Proof. exact without_submit_all_refuted. Qed.

Check C12_teardown_memory_safe : teardown_memory_safe.
Check C12_ring_drop_leaves_only_uncancelable : ring_drop_leaves_only_uncancelable.
Check C12_in_flight_after_ring_drop_is_uncancelable : in_flight_after_ring_drop_is_uncancelable.
Check C12_teardown_memory_safe_fixed : teardown_memory_safe_fixed.
Check C12_teardown_log_safe : teardown_log_safe.
Check C12_teardown_log_safe_fixed : teardown_log_safe_fixed.
Check C12_teardown_releases_everything : teardown_releases_everything.
Check C12_teardown_exactly_once : teardown_exactly_once.
Check C12_teardown_of_populations : teardown_of_populations.
Check C12_teardown_releases_everything_fixed : teardown_releases_everything_fixed.
Check C12_teardown_of_populations_fixed : teardown_of_populations_fixed.
Print Assumptions C12_teardown_memory_safe.
Print Assumptions C12_teardown_memory_safe_fixed.
Print Assumptions C12_teardown_log_safe.
Print Assumptions C12_teardown_log_safe_fixed.
Print Assumptions C12_teardown_releases_everything.
Print Assumptions C12_teardown_exactly_once.
Print Assumptions C12_teardown_of_populations.
Print Assumptions C12_fd_dropped_after_ring_refuted.
Print Assumptions C12_abandoned_ops_beyond_cq_capacity_refuted.
Print Assumptions C12_op_in_flight_after_ring_drop_refuted.
Print Assumptions C12_op_in_flight_after_ring_drop_refuted_notification.
Print Assumptions C12_teardown_releases_everything_fixed.
Print Assumptions C12_teardown_of_populations_fixed.
Print Assumptions C12_seeded_c12c_releases_state_in_flight_refuted.
Print Assumptions C12_seeded_c12c_uses_released_state_in_drain_refuted.
Print Assumptions C12_seeded_c01f_releases_state_in_flight_refuted.
Print Assumptions C12_ring_drop_leaves_only_uncancelable.
Print Assumptions C12_in_flight_after_ring_drop_is_uncancelable.
Print Assumptions C12_seeded_c12k_without_submit_all_refuted.

(** C12 — Dropping the Ring with operations queued, in flight, abandoned or finished submits the
    queued clean-up requests, cancels what is still running, reclaims every abandoned operation's
    state and unmaps exactly the memory it mapped. SubmissionQueue clones, AsyncFds, pending
    operations, ReadBufPools and ReadBufs may be dropped before or after the Ring in any order
    without crashing, touching unmapped memory, or leaving their descriptors, registrations or
    allocations behind.

    Property theorems only; model in Model/Teardown.v, proofs in Proofs/TeardownProofs.v.
    Quantification: any state satisfying the invariant [wf] (the stored reference counts equal the
    number of live holders, every running or abandoned operation has exactly one final completion
    still due, ...) — in particular [init pp] for every population [pp] of any size
    ([init_wf]) —, and any list of [Drop]/[KComplete] events in which a future is not dropped
    after the [AsyncFd] it borrows ([borrows_ok], what the borrow checker enforces). *)
From A10 Require Import Base.Word Base.Run Model.Teardown Proofs.TeardownProofs.

(** The log replays against the resource monitor ... *)
Theorem C12_teardown_memory_safe : teardown_memory_safe.
Proof. exact teardown_memory_safe_holds. Qed.

(** ... which means, in plain terms: no access to a mapping after its munmap, each munmap with the
    mapping's own length and not repeated, the ring descriptor closed at most once, after the three
    munmaps and after the last enter / register on it, no allocation freed twice, no pool memory
    used or unregistered after it was freed, no descriptor closed twice. *)
Theorem C12_teardown_log_safe : teardown_log_safe.
Proof. exact teardown_log_safe_holds. Qed.

(** When every live object is dropped: nothing stays mapped, the ring descriptor is closed, no
    pool stays registered or allocated; an operation state that is still allocated implies the
    named class H14, an [AsyncFd] descriptor that is still open implies the named class H13. *)
Theorem C12_teardown_releases_everything : teardown_releases_everything.
Proof. exact teardown_releases_everything_holds. Qed.

(** Whatever was held at the start and is not held at the end was released by exactly one event. *)
Theorem C12_teardown_exactly_once : teardown_exactly_once.
Proof. exact teardown_exactly_once_holds. Qed.

(** The same for every population (the invariant holds initially). *)
Theorem C12_teardown_of_populations : teardown_of_populations.
Proof. exact teardown_of_populations_holds. Qed.

(** The two named classes are inhabited (the code violates the property there). *)
Theorem C12_fd_dropped_after_ring_refuted :
  exists pp es, pop_ok pp /\ covers (init pp) es /\ borrows_ok step (init pp) es /\
    exists m, replay (pp_d pp) (mon_of (init pp)) (snd (run step (init pp) es)) = Some m /\
              nth 0 (m_desc m) false = true.
Proof. exact fd_dropped_after_ring_refuted. Qed.

Theorem C12_abandoned_ops_beyond_cq_capacity_refuted :
  exists pp es, pop_ok pp /\ covers (init pp) es /\ borrows_ok step (init pp) es /\
    exists m, replay (pp_d pp) (mon_of (init pp)) (snd (run step (init pp) es)) = Some m /\
              nth 2 (m_box m) false = true /\ m_desc m = [false].
Proof. exact abandoned_ops_beyond_cq_capacity_refuted. Qed.

(** The repaired drain (proposed_fix_h14.diff, [drop_ring_fixed]): no exception for operation
    states. Not the code as it is; the correspondence runs [drop_ring]. *)
Theorem C12_teardown_releases_everything_fixed : teardown_releases_everything_fixed.
Proof. exact teardown_releases_everything_fixed_holds. Qed.

Check C12_teardown_memory_safe : teardown_memory_safe.
Check C12_teardown_log_safe : teardown_log_safe.
Check C12_teardown_releases_everything : teardown_releases_everything.
Check C12_teardown_exactly_once : teardown_exactly_once.
Check C12_teardown_of_populations : teardown_of_populations.
Check C12_teardown_releases_everything_fixed : teardown_releases_everything_fixed.
Print Assumptions C12_teardown_memory_safe.
Print Assumptions C12_teardown_log_safe.
Print Assumptions C12_teardown_releases_everything.
Print Assumptions C12_teardown_exactly_once.
Print Assumptions C12_teardown_of_populations.
Print Assumptions C12_fd_dropped_after_ring_refuted.
Print Assumptions C12_abandoned_ops_beyond_cq_capacity_refuted.
Print Assumptions C12_teardown_releases_everything_fixed.

(** C02 — Each operation receives exactly its own results, once, in order: completions are
    routed by their tag to the operation they belong to and to no other, first in first out,
    each exactly once; a multishot stream hands out exactly the dispatched results, in order,
    then one end marker; a single-shot or two-step operation resolves once, after its final
    completion, with the result of its (last) non-notification completion.
    Property theorems only; model in Model/OpState.v, proofs in Proofs/OpStateLedger.v. *)
(* the small-step race model first: the names of Model/OpState.v imported next take precedence *)
From A10 Require Import Model.OpRace Proofs.OpRaceProofs.
From A10 Require Import Base.Word Base.Run Model.OpState Proofs.OpStateInv Proofs.OpStateRestart
                        Proofs.OpStateLedger.

(** (a) routing for valid histories, (b) the multishot ledger for histories of the kernel's
    script shape K2m, (c) the single-shot ledger for ANY history, and the one-step facts that
    pin down what the ghost ledgers record. *)
Theorem C02_outputs_refine_kernel_script : outputs_refine_kernel_script.
Proof. exact outputs_refine_kernel_script_holds. Qed.

(** With one result completion per attempt (the kernel's shape for single-shot and two-step
    operations) the reported value is that completion's — the first. *)
Theorem C02_single_result_is_the_only_result : single_result_is_the_only_result.
Proof. exact single_result_is_the_only_result_holds. Qed.

(** A single-shot operation hands out at most one result over any history. *)
Theorem C02_single_resolves_once : single_resolves_once.
Proof. exact single_resolves_once_holds. Qed.

(** Outside that shape (two result completions in one single-shot attempt) the code keeps the
    last result, not the first: witness. *)
Theorem C02_single_keeps_last_result_refuted : single_keeps_last_result.
Proof. exact single_keeps_last_result_refuted. Qed.

Check C02_outputs_refine_kernel_script : outputs_refine_kernel_script.
Check C02_single_result_is_the_only_result : single_result_is_the_only_result.
Check C02_single_resolves_once : single_resolves_once.
Check C02_single_keeps_last_result_refuted : single_keeps_last_result.
Print Assumptions C02_outputs_refine_kernel_script.
Print Assumptions C02_single_result_is_the_only_result.
Print Assumptions C02_single_resolves_once.
Print Assumptions C02_single_keeps_last_result_refuted.

(** * Under interleaving (Model/OpRace.v, small-step at hook-B granularity: future threads polling /
    dropping while [Ring::poll] dispatches and the kernel posts; single-shot, multishot and
    two-step operations, all completion scripts, all programs obeying [progs_ok], ALL
    interleavings; replayed against the real code by the driver C03R on every run of this check):
    a multishot stream hands out exactly a prefix of what the kernel posted for that operation,
    each result once, in order, and everything once it has ended; a single-shot / two-step
    operation resolves at most once, only after its final completion was dispatched, with the
    result of its own last completion that is not a notification. *)
Theorem C02_race_results_are_own_in_order : OpRaceProofs.race_results_are_own_in_order.
Proof. exact OpRaceProofs.race_results_are_own_in_order_holds. Qed.

(** Seeded change C02-a ([Multishot::next] with [swap_remove(0)]): a valid interleaving whose
    handed-out order (11, 13, 12) differs from the posted order (11, 12, 13). *)
Theorem C02_race_stream_order_c02a_refuted : OpRaceProofs.race_stream_order_c02a_refuted.
Proof. exact OpRaceProofs.race_stream_order_c02a_refuted_holds. Qed.

Check C02_race_results_are_own_in_order : OpRaceProofs.race_results_are_own_in_order.
Check C02_race_stream_order_c02a_refuted : OpRaceProofs.race_stream_order_c02a_refuted.
Print Assumptions C02_race_results_are_own_in_order.
Print Assumptions C02_race_stream_order_c02a_refuted.

(** C02 — Each operation receives exactly its own results, once, in order: completions are
    routed by their tag to the operation they belong to and to no other, first in first out,
    each exactly once; a multishot stream hands out exactly the dispatched results, in order,
    then one end marker; a single-shot or two-step operation resolves once, after its final
    completion, with the result of its (last) non-notification completion.
    Property theorems only; model in Model/OpState.v, proofs in Proofs/OpStateLedger.v. *)
From A10 Require Import Base.Word Base.Run Model.OpState Proofs.OpStateInv Proofs.OpStateRestart
                        Proofs.OpStateLedger.

(** (a) routing for valid histories, (b) the multishot ledger for histories of the kernel's
    script shape K2m, (c) the single-shot ledger for ANY history, and the one-step facts that
    pin down what the ghost ledgers record. *)
Theorem C02_outputs_refine_kernel_script : outputs_refine_kernel_script.
Proof. exact outputs_refine_kernel_script_holds. Qed.

(** With one result completion per attempt (the kernel's shape for single-shot and two-step
    operations) the reported value is that completion's — the first. *)
Theorem C02_single_result_is_the_only_result : single_result_is_the_only_result.
Proof. exact single_result_is_the_only_result_holds. Qed.

(** A single-shot operation hands out at most one result over any history. *)
Theorem C02_single_resolves_once : single_resolves_once.
Proof. exact single_resolves_once_holds. Qed.

(** Outside that shape (two result completions in one single-shot attempt) the code keeps the
    last result, not the first: witness. *)
Theorem C02_single_keeps_last_result_refuted : single_keeps_last_result.
Proof. exact single_keeps_last_result_refuted. Qed.

Check C02_outputs_refine_kernel_script : outputs_refine_kernel_script.
Check C02_single_result_is_the_only_result : single_result_is_the_only_result.
Check C02_single_resolves_once : single_resolves_once.
Check C02_single_keeps_last_result_refuted : single_keeps_last_result.
Print Assumptions C02_outputs_refine_kernel_script.
Print Assumptions C02_single_result_is_the_only_result.
Print Assumptions C02_single_resolves_once.
Print Assumptions C02_single_keeps_last_result_refuted.

(** C18 — [Config::build] either returns a working [Ring] whose queues have the sizes and modes
    that were requested (as granted by the kernel), or returns an error and leaves no descriptor
    and no memory mapping behind; which of the two happens depends only on what the kernel
    answers.
    Property theorems only; model in Model/Build.v, proofs in Proofs/BuildProofs.v. *)
From Coq Require Import Permutation.
From A10 Require Import Base.Word Base.Run Model.Build Proofs.BuildProofs.

(** For every configuration, every combination of kernel answers and both arithmetic modes:
    an error leaves the multiset of released resources equal to the multiset of acquired ones
    (each munmap with the length of its mmap, the descriptor closed once, nothing released
    that was not held) and is the kernel's first refusal; a [Ring] holds exactly the descriptor
    and the three mappings, records the sizes and modes the kernel wrote back, and dropping it
    releases exactly those. *)
Theorem C18_build_all_or_nothing : build_all_or_nothing.
Proof. exact build_all_or_nothing_holds. Qed.

(** The outcome (the ring, or which error) is a function of the answers and of whether a
    direct descriptor table was asked for — of nothing else in the configuration. *)
Theorem C18_build_outcome_function_of_answers : build_outcome_function_of_answers.
Proof. exact build_outcome_function_of_answers_holds. Qed.

(** [build] returns (rather than panics) without overflow checks, and with them whenever the
    granted sizes fit the [u32] length computations (the kernel caps entries at 32768/65536). *)
Theorem C18_build_never_panics : build_never_panics.
Proof. exact build_never_panics_holds. Qed.

(** Every field and every flag bit of the block passed to io_uring_setup, as a function of the
    configuration (bit positions of the Linux ABI). *)
Theorem C18_params_honour_config : params_honour_config.
Proof. exact params_honour_config_holds. Qed.

(** Every public setter reaches its field of the configuration. *)
Theorem C18_setters_honoured : setters_honoured.
Proof. exact setters_honoured_holds. Qed.

(** Why [C18_build_never_panics] has a hypothesis: with overflow checks, absurd granted sizes
    make [build] unwind (resources are still released: the first theorem covers [EPanic]). *)
Theorem C18_build_checked_overflow_panics_witness :
  exists c a, fst (build true c a) = Failed EPanic /\ fst (build false c a) <> Failed EPanic.
Proof. exact build_checked_overflow_panics_witness. Qed.

Check C18_build_all_or_nothing : build_all_or_nothing.
Check C18_build_outcome_function_of_answers : build_outcome_function_of_answers.
Check C18_build_never_panics : build_never_panics.
Check C18_params_honour_config : params_honour_config.
Check C18_setters_honoured : setters_honoured.
Print Assumptions C18_build_all_or_nothing.
Print Assumptions C18_build_outcome_function_of_answers.
Print Assumptions C18_build_never_panics.
Print Assumptions C18_params_honour_config.
Print Assumptions C18_setters_honoured.
Print Assumptions C18_build_checked_overflow_panics_witness.

(** C05 — Every completion the kernel publishes is processed exactly once, in order, from a
    slot the kernel has finished writing; no slot is released before it was read, across
    32-bit counter wrap-around and kernel-side overflow.
    Property theorems only; model in Model/CqRing.v, proofs in Proofs/CqRingProofs.v. *)
From A10 Require Import Base.Word Base.Run Model.CqRing Proofs.CqRingProofs.

(** In every reachable state (any interleaving of kernel postings with the phases of a poll,
    any start value of the counters) the invariant holds, the completions dispatched so far are
    exactly the non-bookkeeping ones among the first [g_hu] placed in the ring, in order, and
    ring history followed by the overflow list is the posting history. *)
Theorem C05_cq_exactly_once_in_order : cq_exactly_once_in_order.
Proof. exact cq_exactly_once_in_order_holds. Qed.

(** The slot read by an iteration of the loop holds the next published completion. *)
Theorem C05_cq_reads_published_only : cq_reads_published_only.
Proof. exact cq_reads_published_only_holds. Qed.

(** A kernel posting never touches a slot between the published head and the tail. *)
Theorem C05_cq_kernel_never_overwrites_unread : cq_kernel_never_overwrites_unread.
Proof. exact cq_kernel_never_overwrites_unread_holds. Qed.

(** A whole poll leaves the ring empty (head == tail, everything placed was processed). *)
Theorem C05_cq_poll_drains_ring : cq_poll_drains_ring.
Proof. exact cq_poll_drains_ring_holds. Qed.

(** Bookkeeping completions never reach an operation; operation addresses are not reserved. *)
Theorem C05_cq_internal_never_dispatched : cq_internal_never_dispatched.
Proof. exact cq_internal_never_dispatched_holds. Qed.

(** What was wrong before the repair of H3 (numeric [head < tail]). *)
Theorem C05_h3_numeric_compare_refuted :
  exists c1 c2 s,
    is_internal c1 = false /\ is_internal c2 = false
    /\ s = fst (run step (init 4 (two32 - 1)) [KPost c1; KPost c2])
    /\ poll_h3 s = []
    /\ snd (run step s [PollBegin; PollEnd]) = [c1; c2].
Proof. exact poll_h3_refuted. Qed.

Check C05_cq_exactly_once_in_order : cq_exactly_once_in_order.
Check C05_cq_reads_published_only : cq_reads_published_only.
Check C05_cq_kernel_never_overwrites_unread : cq_kernel_never_overwrites_unread.
Check C05_cq_poll_drains_ring : cq_poll_drains_ring.
Check C05_cq_internal_never_dispatched : cq_internal_never_dispatched.
Print Assumptions C05_cq_exactly_once_in_order.
Print Assumptions C05_cq_reads_published_only.
Print Assumptions C05_cq_kernel_never_overwrites_unread.
Print Assumptions C05_cq_poll_drains_ring.
Print Assumptions C05_cq_internal_never_dispatched.
Print Assumptions C05_h3_numeric_compare_refuted.

(** C07 — While its Ring exists, each descriptor owned by an AsyncFd is closed exactly once: when
    the AsyncFd is dropped (through the ring, or synchronously when the submission queue is
    full) or when AsyncFd::close completes — regular descriptors as regular, direct descriptors
    as direct, and the standard-stream handles never. Every descriptor the kernel returns for an
    operation (open, socket, accept, pipe, descriptor conversions) ends up owned by exactly one
    AsyncFd of the requested kind, or is closed if the operation had been abandoned.

    The last clause does not hold for the code as it is: a descriptor returned for an operation
    whose future is gone is never closed (H12), nor is one whose [close()] future is dropped
    before its first submission (H19). Both classes are named predicates with witnesses; the
    theorem is proved for everything outside them.

    "Of the requested kind" has one exception that the code documents (src/pipe.rs) and the
    model states openly: on a kernel that refuses IORING_OP_PIPE with EINVAL (Linux < 6.16) the
    pipe is made with pipe2(2) and both ends come back as REGULAR descriptors, also when direct
    ones were asked for ([C07_pipe_fallback_wraps_regular]). They are correctly labelled, so they
    are owned and closed exactly once like every other regular descriptor — the event that stands
    for the refusal is part of the alphabet all theorems below quantify over. Labelling them
    with the requested kind instead is refuted ([C07_pipe_fallback_requested_kind_refuted]).
    Property theorems only; model in Model/FdTable.v, proofs in Proofs/FdTableProofs.v. *)
From A10 Require Import Base.Word Base.Run Model.FdTable Proofs.FdTableProofs.
From Coq Require Import Permutation.

(** [from_raw] then [fd()] / [kind()]: identity on every non-negative [i32] and both kinds. *)
Theorem C07_fd_word_roundtrip : fd_word_roundtrip.
Proof. exact fd_word_roundtrip_holds. Qed.

(** The CLOSE submission and the synchronous fallback, read by the kernel's ABI, close exactly
    (number, kind) — also after the trip through the [AsyncFd] word. *)
Theorem C07_close_encoding : close_encoding.
Proof. exact close_encoding_holds. Qed.

(** Every reachable state, all histories. *)
Theorem C07_descriptor_closed_exactly_once : descriptor_closed_exactly_once.
Proof. exact descriptor_closed_exactly_once_holds. Qed.

(** The pipe2(2) fallback: two new process descriptors, wrapped as regular, for both requested
    kinds; reachable for both. *)
Theorem C07_pipe_fallback_wraps_regular : pipe_fallback_wraps_regular.
Proof. exact pipe_fallback_wraps_regular_holds. Qed.

(** pipe2(2) is called from the poll of a live future only: never for an abandoned pipe. *)
Theorem C07_pipe_fallback_only_in_poll : pipe_fallback_only_in_poll.
Proof. exact pipe_fallback_only_in_poll_holds. Qed.

(** Wrapping the fallback's descriptors with the requested kind: another owner's direct slot
    is closed, two closes hit nothing, two process descriptors leak. *)
Theorem C07_pipe_fallback_requested_kind_refuted : pipe_fallback_requested_kind_refuted_stmt.
Proof. exact pipe_fallback_requested_kind_refuted. Qed.

(** H12: delivered to an operation whose future was dropped while it was in flight. *)
Theorem C07_delivered_to_abandoned_op_refuted :
  exists cap0 nslots0 es d, let s := reach cap0 nslots0 es in
    quiescent s = true /\ delivered_to_abandoned_op s d /\ In d (kopen s) /\ ~ In d (closed s)
    /\ leak19 s = [].
Proof. exact delivered_to_abandoned_op_refuted. Qed.

(** H12, second form: the completion was processed, the future dropped before taking it. *)
Theorem C07_delivered_to_finished_unpolled_op_refuted :
  exists cap0 nslots0 es d, let s := reach cap0 nslots0 es in
    quiescent s = true /\ delivered_to_abandoned_op s d /\ In d (kopen s) /\ ~ In d (closed s)
    /\ leak19 s = [].
Proof. exact delivered_to_finished_unpolled_op_refuted. Qed.

(** H19: [close()] future dropped before its first submission. *)
Theorem C07_close_future_never_started_refuted :
  exists cap0 nslots0 es d, let s := reach cap0 nslots0 es in
    quiescent s = true /\ close_future_never_started s d /\ In d (kopen s) /\ ~ In d (closed s)
    /\ leak12 s = [].
Proof. exact close_future_never_started_refuted. Qed.

(** Hence the unconditional statement fails. *)
Theorem C07_all_closed_at_rest_refuted : ~ all_closed_at_rest.
Proof. exact all_closed_at_rest_refuted. Qed.

(** What was wrong before the repair of H30 (cabaa94): the CLOSE of a [close()] future answered
    with EINTR (the descriptor is closed all the same) was submitted again; once the number has
    been handed out again, the second CLOSE takes the new owner's descriptor. *)
Theorem C07_close_restarted_after_eintr_h30_refuted :
  let s1 := fst (run step (init 4 0) h30_history_a) in
  let s2 := fst (run step (restart_close_h30 s1 0) h30_history_b) in
  let s2' := fst (run step s1 h30_history_b) in
  closed s1 = [(5, Regular)] /\ bad s2 <> [] /\ bad s2' = [].
Proof. exact close_restarted_after_eintr_h30_refuted. Qed.

Check C07_fd_word_roundtrip : fd_word_roundtrip.
Check C07_close_encoding : close_encoding.
Check C07_descriptor_closed_exactly_once : descriptor_closed_exactly_once.
Check (C07_fd_word_roundtrip :
  forall fd k, fd < two31 ->
    fd_of (mk_word fd k) = fd /\ kind_of (mk_word fd k) = k /\ mk_word fd k < two32).
Check (C07_close_encoding :
  forall fd k, fd < two31 ->
    kernel_close_target (close_sqe fd k) = Some (fd, k)
    /\ kernel_sys_target (fallback_close fd k) = Some (fd, k)
    /\ (let w := mk_word fd k in
        kernel_close_target (close_sqe (fd_of w) (kind_of w)) = Some (fd, k)
        /\ kernel_sys_target (fallback_close (fd_of w) (kind_of w)) = Some (fd, k))).
Check (C07_descriptor_closed_exactly_once :
  forall cap0 nslots0 es, let s := reach cap0 nslots0 es in
    bad s = []
    /\ Permutation (issued s) (closed s ++ kopen s)
    /\ NoDup (kopen s)
    /\ (forall d, (count_occ desc_dec (closed s) d <= count_occ desc_dec (issued s) d)%nat)
    /\ Permutation (kopen s)
         (owned s ++ in_results s ++ closing s ++ queued_closes s ++ leak12 s ++ leak19 s)
    /\ (forall d, is_std d = true -> ~ In d (closed s) /\ ~ In d (bad s) /\ ~ In d (kopen s))
    /\ (quiescent s = true ->
        Permutation (kopen s) (leak12 s ++ leak19 s)
        /\ (forall d, In d (kopen s) <-> delivered_to_abandoned_op s d \/ close_future_never_started s d))
    /\ (quiescent s = true ->
        (forall d, ~ delivered_to_abandoned_op s d) -> (forall d, ~ close_future_never_started s d) ->
        kopen s = [] /\ Permutation (issued s) (closed s))).
Check C07_pipe_fallback_wraps_regular : pipe_fallback_wraps_regular.
Check (C07_pipe_fallback_wraps_regular :
  (forall cap0 nslots0 es i o fd fd2 rest,
     let s := reach cap0 nslots0 es in
     nth_error (ops s) i = Some o -> o_st o = ODone -> o_res o = (RInval [fd; fd2], false) :: rest ->
     all_fresh s [(fd, Regular); (fd2, Regular)] = true ->
     let s' := fst (step_with (fun _ => Regular) s (PollOp i)) in
     kopen s' = kopen s ++ [(fd, Regular); (fd2, Regular)]
     /\ issued s' = issued s ++ [(fd, Regular); (fd2, Regular)]
     /\ handles s' = handles s ++ [wrap fd Regular; wrap fd2 Regular]
     /\ owned s' = owned s ++ [(fd, Regular); (fd2, Regular)]
     /\ snd (step_with (fun _ => Regular) s (PollOp i)) = [11; 0; nz fd; 11; 0; nz fd2]%Z
     /\ kind_of (h_word (wrap fd Regular)) = Regular /\ fd_of (h_word (wrap fd Regular)) = fd
     /\ kind_of (h_word (wrap fd2 Regular)) = Regular /\ fd_of (h_word (wrap fd2 Regular)) = fd2)
  /\ (forall k, exists cap0 nslots0 es i o fd fd2,
        let s := reach cap0 nslots0 es in
        nth_error (ops s) i = Some o /\ o_cop o = CPipe k /\ o_kind o = k /\ o_st o = ODone
        /\ o_res o = [(RInval [fd; fd2], false)]
        /\ all_fresh s [(fd, Regular); (fd2, Regular)] = true)).
Check (C07_pipe_fallback_only_in_poll :
  forall s i,
    (forall fd fd2, frame s (kpipe_inval s i fd fd2))
    /\ frame s (fst (process_all s))
    /\ frame s (drop_op s i)
    /\ (forall o fd fd2, snd (fst (update1 o (RInval [fd; fd2], false))) = [])
    /\ (forall o, nth_error (ops s) i = Some o -> fut_alive o = false -> step s (PollOp i) = (s, []))).
Check (C07_pipe_fallback_requested_kind_refuted :
  exists cap0 nslots0 es,
    let s := fst (run (step_with (fun k => k)) (init cap0 nslots0) es) in
    quiescent s = true /\ leak12 s = [] /\ leak19 s = []
    /\ kopen s = [(5, Regular); (6, Regular)] /\ owners s = []
    /\ nth_error (handles s) 0 = Some {| h_word := mk_word 5 Direct; h_std := false; h_live := false |}
    /\ nth_error (handles s) 1 = Some {| h_word := mk_word 5 Direct; h_std := false; h_live := false |}
    /\ closed s = [(5, Direct)]
    /\ bad s = [(6, Direct); (5, Direct)]
    /\ (let s0 := reach cap0 nslots0 es in
        quiescent s0 = true /\ bad s0 = [] /\ kopen s0 = []
        /\ closed s0 = [(5, Regular); (6, Regular); (5, Direct)])).
(* [reach] runs [step], the code as it is, over the full event alphabet (KPipeInval included). *)
Check (eq_refl : reach = fun cap0 nslots0 es => fst (run (step_with pipe_fallback_kind) (init cap0 nslots0) es)).
Check (eq_refl : pipe_fallback_kind = fun _ => Regular).
Print Assumptions C07_fd_word_roundtrip.
Print Assumptions C07_close_encoding.
Print Assumptions C07_descriptor_closed_exactly_once.
Print Assumptions C07_delivered_to_abandoned_op_refuted.
Print Assumptions C07_delivered_to_finished_unpolled_op_refuted.
Print Assumptions C07_close_future_never_started_refuted.
Print Assumptions C07_all_closed_at_rest_refuted.
Print Assumptions C07_pipe_fallback_wraps_regular.
Print Assumptions C07_pipe_fallback_only_in_poll.
Print Assumptions C07_pipe_fallback_requested_kind_refuted.
Print Assumptions C07_close_restarted_after_eintr_h30_refuted.

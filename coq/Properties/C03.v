(** C03 — No lost wake-ups (single-threaded half): the ring poll that processes the first
    readying completion of an operation whose last poll returned Pending wakes the waker of the
    MOST RECENT such poll; a waker parked because the submission queue was full is woken, in
    order, by the next ring poll whose enter succeeds with a free slot. (The two-thread race of
    the second sentence, finding H15, is the subject of the scheduler runs, not of this model.)
    Property theorems only; model in Model/OpState.v, proofs in Proofs/OpStateWake.v. *)
From A10 Require Import Base.Word Base.Run Model.OpState Proofs.OpStateInv Proofs.OpStateWake.

Theorem C03_readying_completion_wakes_latest_waker : readying_completion_wakes_latest_waker.
Proof. exact readying_completion_wakes_latest_waker_holds. Qed.

Theorem C03_queue_full_waiter_is_parked : queue_full_waiter_is_parked.
Proof. exact queue_full_waiter_is_parked_holds. Qed.

Check C03_readying_completion_wakes_latest_waker : readying_completion_wakes_latest_waker.
Check C03_queue_full_waiter_is_parked : queue_full_waiter_is_parked.
Print Assumptions C03_readying_completion_wakes_latest_waker.
Print Assumptions C03_queue_full_waiter_is_parked.

(** C03 — No lost wake-ups (single-threaded half): the ring poll that processes the first
    readying completion of an operation whose last poll returned Pending wakes the waker of the
    MOST RECENT such poll; a waker parked because the submission queue was full is woken, in
    order, by the next ring poll whose enter succeeds with a free slot. (The two-thread race of
    the second sentence, finding H15, is the subject of the scheduler runs, not of this model.)
    Property theorems only; model in Model/OpState.v, proofs in Proofs/OpStateWake.v. *)
From A10 Require Import Base.Word Base.Run Model.OpState Proofs.OpStateInv Proofs.OpStateWake.

Theorem C03_readying_completion_wakes_latest_waker : readying_completion_wakes_latest_waker.
Proof. exact readying_completion_wakes_latest_waker_holds. Qed.

Theorem C03_queue_full_waiter_is_parked : queue_full_waiter_is_parked.
Proof. exact queue_full_waiter_is_parked_holds. Qed.

(** What the repair of H15 provides: every ring poll ends by waking parked wakers for the slots
    free at that moment, oldest first; the oldest parked waker is woken by any ring poll that
    ends with room in the queue, even if no operation ever completes. *)
Theorem C03_end_of_poll_wakes_parked : end_of_poll_wakes_parked.
Proof. exact end_of_poll_wakes_parked_holds. Qed.

(** The stronger "a waker stays parked only while the queue is full" does not hold: with more
    parked wakers than free slots the younger ones wait for the next poll (witness inside). *)
Theorem C03_parked_only_if_queue_full_refuted : ~ parked_only_if_queue_full.
Proof. exact parked_only_if_queue_full_refuted. Qed.

Check C03_readying_completion_wakes_latest_waker : readying_completion_wakes_latest_waker.
Check C03_queue_full_waiter_is_parked : queue_full_waiter_is_parked.
Print Assumptions C03_readying_completion_wakes_latest_waker.
Check C03_end_of_poll_wakes_parked : end_of_poll_wakes_parked.
Print Assumptions C03_queue_full_waiter_is_parked.
Print Assumptions C03_end_of_poll_wakes_parked.
Print Assumptions C03_parked_only_if_queue_full_refuted.

(** C03 — No lost wake-ups (single-threaded half): the ring poll that processes the first
    readying completion of an operation whose last poll returned Pending wakes the waker of the
    MOST RECENT such poll; a waker parked because the submission queue was full is woken, in
    order, by the next ring poll whose enter succeeds with a free slot. (The two-thread race of
    the second sentence, finding H15, is the subject of the scheduler runs, not of this model.)
    Property theorems only; model in Model/OpState.v, proofs in Proofs/OpStateWake.v. *)
(* the small-step race model first: the names of Model/OpState.v imported next take precedence *)
From A10 Require Import Model.OpRace Proofs.OpRaceProofs.
From A10 Require Import Base.Word Base.Run Model.OpState Proofs.OpStateInv Proofs.OpStateWake.

Theorem C03_readying_completion_wakes_latest_waker : readying_completion_wakes_latest_waker.
Proof. exact readying_completion_wakes_latest_waker_holds. Qed.

Theorem C03_queue_full_waiter_is_parked : queue_full_waiter_is_parked.
Proof. exact queue_full_waiter_is_parked_holds. Qed.

(** What the repair of H15 provides: every ring poll ends by waking parked wakers for the slots
    free at that moment, oldest first; the oldest parked waker is woken by any ring poll that
    ends with room in the queue, even if no operation ever completes. *)
Theorem C03_end_of_poll_wakes_parked : end_of_poll_wakes_parked.
Proof. exact end_of_poll_wakes_parked_holds. Qed.

(** The stronger "a waker stays parked only while the queue is full" does not hold: with more
    parked wakers than free slots the younger ones wait for the next poll (witness inside). *)
Theorem C03_parked_only_if_queue_full_refuted : ~ parked_only_if_queue_full.
Proof. exact parked_only_if_queue_full_refuted. Qed.

Check C03_readying_completion_wakes_latest_waker : readying_completion_wakes_latest_waker.
Check C03_queue_full_waiter_is_parked : queue_full_waiter_is_parked.
Print Assumptions C03_readying_completion_wakes_latest_waker.
Check C03_end_of_poll_wakes_parked : end_of_poll_wakes_parked.
Print Assumptions C03_queue_full_waiter_is_parked.
Print Assumptions C03_end_of_poll_wakes_parked.
Print Assumptions C03_parked_only_if_queue_full_refuted.

(** * Two threads and more: futures polled / dropped on future threads while [Ring::poll] runs on
    the ring thread, at the granularity of the hook-B scheduling points (Model/OpRace.v,
    Proofs/OpRaceProofs.v): all numbers of operations and threads, all capacities, all programs
    obeying Rust's ownership rules ([progs_ok]), ALL interleavings. The executed interleavings of
    the real code are replayed on this model by the driver C03R on every run of this check. *)

(** No lost wake-up under interleaving: once the completion that makes an operation ready has
    been dispatched, the waker of its MOST RECENT Pending poll has been invoked since that poll.
    Single-shot and two-step operations: the final completion (status Done; the result completion
    of a two-step operation wakes nobody and leaves the stored waker in place); multishot: ANY
    dispatched completion (a result is queued). *)
Theorem C03_race_readying_completion_wakes_latest_waker :
  OpRaceProofs.race_readying_completion_wakes_latest_waker.
Proof. exact OpRaceProofs.race_readying_completion_wakes_latest_waker_holds. Qed.

(** Parked wakers under interleaving: on the blocked list when the poll returns; never lost by
    the take / re-queue of [wake_blocked_futures] whatever is pushed meanwhile; every poll ends
    with [wake_blocked_futures], which wakes the oldest [min available |list|] with
    [available] at least the free slots of that moment. *)
Theorem C03_race_parked_waker_is_woken : OpRaceProofs.race_parked_waker_is_woken.
Proof. exact OpRaceProofs.race_parked_waker_is_woken_holds. Qed.

(** The code before the repair of H15: a waker parked while a poll was in progress is never woken
    by any number of later polls although the queue is empty. *)
Theorem C03_race_parked_waker_h15_lost : OpRaceProofs.race_parked_waker_h15_lost.
Proof. exact OpRaceProofs.race_parked_waker_h15_lost_holds. Qed.

(** Per operation the small-step execution is an execution of the atomic life cycle of
    Model/OpState.v with stuttering (what is missing for a full linearisation is said next to the
    statement). *)
Theorem C03_race_refines_atomic_per_operation_partial : OpRaceProofs.race_refines_atomic_per_operation_partial.
Proof. exact OpRaceProofs.race_refines_atomic_per_operation_partial_holds. Qed.

Check C03_race_readying_completion_wakes_latest_waker : OpRaceProofs.race_readying_completion_wakes_latest_waker.
Check C03_race_parked_waker_is_woken : OpRaceProofs.race_parked_waker_is_woken.
Check C03_race_parked_waker_h15_lost : OpRaceProofs.race_parked_waker_h15_lost.
Check C03_race_refines_atomic_per_operation_partial : OpRaceProofs.race_refines_atomic_per_operation_partial.
Print Assumptions C03_race_readying_completion_wakes_latest_waker.
Print Assumptions C03_race_parked_waker_is_woken.
Print Assumptions C03_race_parked_waker_h15_lost.
Print Assumptions C03_race_refines_atomic_per_operation_partial.

(** Running step functions over event lists and a generic mismatch reporter used by the
    generated correspondence files. *)
From A10 Require Export Base.Word.

Fixpoint run {S E O : Type} (step : S -> E -> S * list O) (s : S) (es : list E) : S * list O :=
  match es with
  | [] => (s, [])
  | e :: es' =>
      let '(s1, o1) := step s e in
      let '(s2, o2) := run step s1 es' in
      (s2, o1 ++ o2)
  end.

Lemma run_app {S E O : Type} (step : S -> E -> S * list O) s es1 es2 :
  run step s (es1 ++ es2) =
  let '(s1, o1) := run step s es1 in
  let '(s2, o2) := run step s1 es2 in (s2, o1 ++ o2).
Proof.
  revert s; induction es1 as [|e es1 IH]; intros s; cbn [run app].
  - destruct (run step s es2); reflexivity.
  - destruct (step s e) as [s1 o1]. rewrite IH.
    destruct (run step s1 es1) as [s2 o2]. destruct (run step s2 es2) as [s3 o3].
    rewrite app_assoc. reflexivity.
Qed.

(** Invariant lifting: an invariant of one step holds in every reachable state. *)
Lemma run_invariant {S E O : Type} (step : S -> E -> S * list O) (Inv : S -> Prop) :
  (forall s e, Inv s -> Inv (fst (step s e))) ->
  forall es s, Inv s -> Inv (fst (run step s es)).
Proof.
  intros Hstep es; induction es as [|e es IH]; intros s Hs; cbn [run]; [exact Hs|].
  specialize (Hstep s e Hs). destruct (step s e) as [s1 o1]. cbn [fst] in Hstep.
  specialize (IH s1 Hstep). destruct (run step s1 es) as [s2 o2]. exact IH.
Qed.

(** Correspondence support: observations are canonicalised to [list Z] on both sides. *)
Fixpoint zlist_eqb (a b : list Z) : bool :=
  match a, b with
  | [], [] => true
  | x :: a', y :: b' => Z.eqb x y && zlist_eqb a' b'
  | _, _ => false
  end.

Lemma zlist_eqb_eq a b : zlist_eqb a b = true <-> a = b.
Proof.
  revert b; induction a as [|x a IH]; intros [|y b]; cbn; try (split; congruence).
  rewrite andb_true_iff, Z.eqb_eq, IH. split; [intros [-> ->]; reflexivity|].
  intros H; inversion H; auto.
Qed.

(** [mismatches f cases]: indices (and model outputs) where the model disagrees with the
    implementation's recorded observation. *)
Definition mismatches {C : Type} (f : C -> list Z) (cases : list (Z * C * list Z))
  : list (Z * list Z) :=
  flat_map (fun '(i, c, o) => let m := f c in if zlist_eqb m o then [] else [(i, m)]) cases.

Definition bz (b : bool) : Z := if b then 1%Z else 0%Z.
Definition nz (n : N) : Z := Z.of_N n.

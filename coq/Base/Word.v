(** Fixed-width unsigned arithmetic on [N], written out explicitly.

    Everything in the models that the Rust code computes on [u8]/[u16]/[u32]/[u64]/[usize]
    goes through these definitions, so that wrap-around, saturation and [as] truncation are
    part of the model rather than assumed away. *)
From Coq Require Export NArith ZArith List Bool Lia.
From Coq Require Import ZifyN ZifyBool ZifyNat.
Export ListNotations.
Ltac Zify.zify_post_hook ::= Z.div_mod_to_equations.

#[global] Open Scope N_scope.

Definition two16 : N := 65536.
Definition two31 : N := 2147483648.
Definition two32 : N := 4294967296.
Definition two64 : N := 18446744073709551616.

(** [x as uN] *)
Definition trunc16 (x : N) : N := x mod two16.
Definition trunc32 (x : N) : N := x mod two32.
Definition trunc64 (x : N) : N := x mod two64.

(** [u32::wrapping_add], [u32::wrapping_sub], [u32::saturating_sub] on values [< 2^32]. *)
Definition wadd32 (a b : N) : N := (a + b) mod two32.
Definition wsub32 (a b : N) : N := (a + two32 - b) mod two32.
Definition satsub (a b : N) : N := a - b.  (* N subtraction truncates at 0 *)
Definition wadd16 (a b : N) : N := (a + b) mod two16.
Definition wsub16 (a b : N) : N := (a + two16 - b) mod two16.

Definition is_pow2_of (len m : N) : Prop := len * m = two32 /\ 0 < len.

Lemma trunc32_lt x : trunc32 x < two32.
Proof. unfold trunc32, two32. lia. Qed.

Lemma trunc32_small x : x < two32 -> trunc32 x = x.
Proof. unfold trunc32, two32. intros. lia. Qed.

Lemma wadd32_lt a b : wadd32 a b < two32.
Proof. unfold wadd32, two32. lia. Qed.

Lemma wsub32_lt a b : wsub32 a b < two32.
Proof. unfold wsub32, two32. lia. Qed.

(** Ghost-counter lemmas: real counters are ghost counters modulo 2^32. *)
Lemma wsub32_ghost (T H : N) :
  H <= T -> T - H < two32 -> wsub32 (T mod two32) (H mod two32) = T - H.
Proof. unfold wsub32, two32. intros. lia. Qed.

Lemma wadd32_ghost (T : N) : wadd32 (T mod two32) 1 = (T + 1) mod two32.
Proof. unfold wadd32, two32. lia. Qed.

Lemma wsub16_ghost (T H : N) :
  H <= T -> T - H < two16 -> wsub16 (T mod two16) (H mod two16) = T - H.
Proof. unfold wsub16, two16. intros. lia. Qed.

Lemma wadd16_ghost (T : N) : wadd16 (T mod two16) 1 = (T + 1) mod two16.
Proof. unfold wadd16, two16. lia. Qed.

(** Slot arithmetic. [len] divides [2^w], so reducing the real counter modulo [len] is the
    same as reducing the ghost counter. *)
Lemma mod_mod_divides (T len m W : N) :
  len * m = W -> 0 < len -> W <> 0 -> (T mod W) mod len = T mod len.
Proof.
  intros Hm Hlen HW.
  assert (Hm0 : m <> 0) by (intro; subst m; rewrite N.mul_0_r in Hm; congruence).
  rewrite <- Hm.
  rewrite N.mod_mul_r by lia.
  rewrite (N.mul_comm len ((T / len) mod m)), N.mod_add by lia. apply N.mod_mod. lia.
Qed.

Lemma slot_of_real32 (T len m : N) :
  len * m = two32 -> 0 < len -> (T mod two32) mod len = T mod len.
Proof. intros; eapply mod_mod_divides; eauto; unfold two32; lia. Qed.

Lemma slot_of_real16 (T len m : N) :
  len * m = two16 -> 0 < len -> (T mod two16) mod len = T mod len.
Proof. intros; eapply mod_mod_divides; eauto; unfold two16; lia. Qed.

(** Distinct live indices map to distinct slots. *)
Lemma slots_distinct (i j len : N) :
  0 < len -> i < j -> j < i + len -> i mod len <> j mod len.
Proof.
  intros Hlen Hij Hj Heq.
  pose proof (N.div_mod i len ltac:(lia)) as Hi.
  pose proof (N.div_mod j len ltac:(lia)) as Hj'.
  pose proof (N.mod_lt i len ltac:(lia)).
  pose proof (N.mod_lt j len ltac:(lia)).
  rewrite Heq in Hi.
  assert (Hq : i / len < j / len \/ j / len <= i / len) by lia.
  destruct Hq as [Hq|Hq].
  - assert (len * (i / len + 1) <= len * (j / len)) by (apply N.mul_le_mono_l; lia).
    rewrite N.mul_add_distr_l, N.mul_1_r in H1. lia.
  - assert (len * (j / len) <= len * (i / len)) by (apply N.mul_le_mono_l; lia). lia.
Qed.

(** Masking with [len - 1] for a power of two is reduction modulo [len]. *)
Lemma land_pow2_mask (x k : N) : N.land x (2 ^ k - 1) = x mod 2 ^ k.
Proof. replace (2 ^ k - 1) with (N.ones k) by (rewrite N.ones_equiv; lia). apply N.land_ones. Qed.

(** [lia] after case analysis on every boolean comparison in the goal. *)
Ltac bdestruct_all :=
  repeat match goal with
  | |- context [N.eqb ?a ?b] => destruct (N.eqb_spec a b)
  | |- context [N.ltb ?a ?b] => destruct (N.ltb_spec a b)
  | |- context [N.leb ?a ?b] => destruct (N.leb_spec a b)
  end.
Ltac blia := bdestruct_all; cbn [negb andb orb]; try reflexivity; try lia.

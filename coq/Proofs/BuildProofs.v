(** Proofs about Model/Build.v: all-or-nothing construction of a [Ring] and the parameter block
    as a function of the configuration. Statements are [Definition]s next to their proofs;
    Properties/C18.v re-exports them. *)
From Coq Require Import Permutation.
From A10 Require Import Base.Word Base.Run Gen.Consts Model.Build.

(** * Bits *)
Lemma land_pow2_testbit (x k : N) : negb (N.land x (2 ^ k) =? 0) = N.testbit x k.
Proof.
  destruct (N.testbit x k) eqn:H.
  - destruct (N.eqb_spec (N.land x (2 ^ k)) 0) as [E|E]; [|reflexivity].
    assert (B : N.testbit (N.land x (2 ^ k)) k = true)
      by (rewrite N.land_spec, H, N.pow2_bits_true; reflexivity).
    rewrite E in B. rewrite N.bits_0 in B. discriminate.
  - assert (E : N.land x (2 ^ k) = 0).
    { apply N.bits_inj_0. intros j. rewrite N.land_spec, N.pow2_bits_eqb.
      destruct (N.eqb_spec k j) as [->|]; [rewrite H|]; cbn; [reflexivity|apply andb_false_r]. }
    rewrite E. reflexivity.
Qed.

(** * Resource bookkeeping *)
Lemma resource_eqb_refl x : resource_eqb x x = true.
Proof. destruct x; cbn [resource_eqb]; rewrite ?N.eqb_refl; reflexivity. Qed.

Lemma take_out_head x h : take_out x (x :: h) = Some h.
Proof. cbn [take_out]. rewrite resource_eqb_refl. reflexivity. Qed.

Lemma acquired_app l1 l2 : acquired (l1 ++ l2) = acquired l1 ++ acquired l2.
Proof. apply flat_map_app. Qed.
Lemma released_app l1 l2 : released (l1 ++ l2) = released l1 ++ released l2.
Proof. apply flat_map_app. Qed.

(** Evaluate the bookkeeping functions on explicit event lists without touching arithmetic. *)
Ltac ev_norm :=
  cbn [app acquired released flat_map acquired_by released_by rev held drop_ring drop_shared
       drop_completions r_cq r_sq sh_ring sh_ring_len sh_sqes sh_entries sh_kthread sh_single sh_fd
       co_ring co_ring_len co_entries fst snd].
Ltac replay_norm :=
  repeat (cbn [app replay drop_ring drop_shared drop_completions r_cq r_sq sh_ring sh_ring_len sh_sqes
               sh_entries sh_kthread sh_single sh_fd co_ring co_ring_len co_entries];
          rewrite ?take_out_head).

(** * Statements *)

(** What a returned [Ring] records, in terms of what the kernel wrote back. Bit positions are
    the ones of the Linux ABI (IORING_SETUP_SQPOLL = 1 << 1, IORING_SETUP_SINGLE_ISSUER = 1 << 12). *)
Definition ring_records (g : granted) (a : answers) (r : ring) : Prop :=
  sh_fd (r_sq r) = g_fd g
  /\ sh_entries (r_sq r) = g_sq g
  /\ co_entries (r_cq r) = g_cq g
  /\ sh_kthread (r_sq r) = N.testbit (g_flags g) 1
  /\ sh_single (r_sq r) = N.testbit (g_flags g) 12
  /\ a_map0 a = MapOk (sh_ring (r_sq r))
  /\ a_map1 a = MapOk (sh_sqes (r_sq r))
  /\ a_map2 a = MapOk (co_ring (r_cq r)).

Definition build_all_or_nothing : Prop :=
  forall (checked : bool) (c : config) (a : answers),
    match build checked c a with
    | (Failed e, log) =>
        (* everything acquired has been released, once, and only while it was held *)
        Permutation (acquired log) (released log)
        /\ replay [] log = Some []
        (* which error: the kernel's first refusal *)
        /\ first_refusal checked (is_some (c_direct c)) a = Some e
    | (Built r, log) =>
        (* nothing was released; exactly the descriptor and the three mappings are held *)
        released log = []
        /\ acquired log = held r
        /\ first_refusal checked (is_some (c_direct c)) a = None
        /\ (exists g, a_setup a = SetupOk g /\ ring_records g a r)
        (* dropping the ring releases exactly what it holds, with the lengths it was mapped with *)
        /\ acquired (drop_ring r) = []
        /\ Permutation (held r) (released (drop_ring r))
        /\ replay [] (log ++ drop_ring r) = Some []
    end.

(** The outcome is a function of the answers (and of whether the registration is asked for). *)
Definition build_outcome_function_of_answers : Prop :=
  forall checked c1 c2 a,
    is_some (c_direct c1) = is_some (c_direct c2) ->
    fst (build checked c1 a) = fst (build checked c2 a).

(** Overflow panics need answers no kernel gives, and overflow checks. *)
Definition answers_fit (a : answers) : Prop :=
  match a_setup a with
  | SetupErr _ => True
  | SetupOk g => g_sq_array g + g_sq g * SIZE_U32 < two32 /\ g_cq_cqes g + g_cq g * SIZE_CQE < two32
  end.

Definition build_never_panics : Prop :=
  forall checked c a, checked = false \/ answers_fit a -> fst (build checked c a) <> Failed EPanic.

(** * Proofs *)
Lemma mmap_helper_cases len off m adv :
  (exists addr, m = MapOk addr /\ adv = SysOk
                /\ mmap_helper len off m adv = (inl addr, [EMap addr len off; EAdvise addr len true])
                /\ map_refusal m adv = None)
  \/ (exists e ev, mmap_helper len off m adv = (inr e, ev) /\ map_refusal m adv = Some e
                   /\ ((exists addr, ev = [EMap addr len off; EAdvise addr len false; EUnmap addr len])
                       \/ ev = [EMapFail len off])).
Proof.
  destruct m as [addr|e]; [destruct adv as [|e]|]; cbn [mmap_helper map_refusal].
  - left. exists addr. repeat split.
  - right. exists e, [EMap addr len off; EAdvise addr len false; EUnmap addr len].
    repeat split. left. exists addr. reflexivity.
  - right. exists e, [EMapFail len off]. repeat split. right. reflexivity.
Qed.

Ltac use_helper len off m adv :=
  let H := fresh "H" in
  let Hr := fresh "Hr" in
  destruct (mmap_helper_cases len off m adv)
    as [(?addr & ?Hm & ?Ha & H & Hr) | (?e & ?ev & H & Hr & [(?addr & ->) | ->])];
  rewrite H; clear H; rewrite ?Hr.

Lemma perm_rev_eq {A : Type} (x y : list A) : y = rev x -> Permutation x y.
Proof. intros ->. apply Permutation_rev. Qed.

Lemma sqpoll_bit x : negb (N.land x IORING_SETUP_SQPOLL =? 0) = N.testbit x 1.
Proof. change IORING_SETUP_SQPOLL with (2 ^ 1). apply land_pow2_testbit. Qed.
Lemma single_issuer_bit x : negb (N.land x IORING_SETUP_SINGLE_ISSUER =? 0) = N.testbit x 12.
Proof. change IORING_SETUP_SINGLE_ISSUER with (2 ^ 12). apply land_pow2_testbit. Qed.

Ltac failed_leaf :=
  split; [apply perm_rev_eq; ev_norm; reflexivity | split; [replay_norm; reflexivity | reflexivity]].

Lemma build_all_or_nothing_holds : build_all_or_nothing.
Proof.
  intros checked c a. unfold build, first_refusal.
  destruct (a_setup a) as [e|g] eqn:Hsetup.
  { failed_leaf. }
  destruct (first_missing (g_features g) required_features) as [f|].
  { failed_leaf. }
  unfold shared_new.
  destruct (sq_ring_len checked g) as [ring_len|].
  2:{ failed_leaf. }
  use_helper ring_len IORING_OFF_SQ_RING (a_map0 a) (a_adv0 a); try solve [failed_leaf].
  use_helper (g_sq g * SIZE_SQE) IORING_OFF_SQES (a_map1 a) (a_adv1 a); try solve [failed_leaf].
  unfold completions_new.
  destruct (cq_ring_len checked g) as [cq_len|].
  2:{ failed_leaf. }
  use_helper cq_len IORING_OFF_CQ_RING (a_map2 a) (a_adv2 a); try solve [failed_leaf].
  assert (Hrec : forall r, r = {| r_cq := {| co_ring := addr1; co_ring_len := cq_len; co_entries := g_cq g |};
                                  r_sq := {| sh_ring := addr; sh_ring_len := ring_len; sh_sqes := addr0;
                                             sh_entries := g_sq g;
                                             sh_kthread := negb (N.land (g_flags g) IORING_SETUP_SQPOLL =? 0);
                                             sh_single := negb (N.land (g_flags g) IORING_SETUP_SINGLE_ISSUER =? 0);
                                             sh_fd := g_fd g |} |} ->
                           exists g', SetupOk g = SetupOk g' /\ ring_records g' a r).
  { intros r ->. exists g. split; [reflexivity|]. unfold ring_records. ev_norm.
    rewrite sqpoll_bit, single_issuer_bit. repeat split; assumption. }
  destruct (c_direct c) as [size|]; cbn [is_some]; [destruct (a_register a) as [|e]|].
  - repeat split; try (ev_norm; reflexivity).
    + apply Hrec; reflexivity.
    + apply perm_rev_eq; ev_norm; reflexivity.
    + replay_norm; reflexivity.
  - failed_leaf.
  - repeat split; try (ev_norm; reflexivity).
    + apply Hrec; reflexivity.
    + apply perm_rev_eq; ev_norm; reflexivity.
    + replay_norm; reflexivity.
Qed.

Lemma build_outcome_function_of_answers_holds : build_outcome_function_of_answers.
Proof.
  intros checked c1 c2 a Hd. unfold build.
  destruct (a_setup a) as [e|g]; [reflexivity|].
  destruct (first_missing (g_features g) required_features); [reflexivity|].
  destruct (shared_new checked g a) as [[sh|e] ev_s]; [|reflexivity].
  destruct (completions_new checked g a) as [[co|e] ev_c]; [|reflexivity].
  destruct (c_direct c1), (c_direct c2); try discriminate Hd; [|reflexivity].
  destruct (a_register a); reflexivity.
Qed.

Lemma mul32_fits checked x y : x * y < two32 -> mul32 checked x y = Some (x * y).
Proof.
  intros H. unfold mul32. destruct (N.leb_spec two32 (x * y)); [lia|].
  rewrite andb_false_r, trunc32_small by assumption. reflexivity.
Qed.
Lemma add32_fits checked x y : x + y < two32 -> add32 checked x y = Some (x + y).
Proof.
  intros H. unfold add32. destruct (N.leb_spec two32 (x + y)); [lia|].
  rewrite andb_false_r, trunc32_small by assumption. reflexivity.
Qed.

Lemma lens_defined checked a g :
  a_setup a = SetupOk g -> checked = false \/ answers_fit a ->
  sq_ring_len checked g <> None /\ cq_ring_len checked g <> None.
Proof.
  intros Hs [->|Hfit]; unfold sq_ring_len, cq_ring_len.
  - unfold mul32, add32. cbn [andb]. split; discriminate.
  - unfold answers_fit in Hfit. rewrite Hs in Hfit. destruct Hfit as [H1 H2].
    rewrite (mul32_fits checked (g_sq g) SIZE_U32) by lia.
    rewrite (mul32_fits checked (g_cq g) SIZE_CQE) by lia.
    rewrite !add32_fits by assumption. split; discriminate.
Qed.

Lemma build_never_panics_holds : build_never_panics.
Proof.
  intros checked c a Hok. pose proof (build_all_or_nothing_holds checked c a) as H.
  destruct (build checked c a) as [[r|e] log]; cbn [fst]; [discriminate|].
  destruct H as (_ & _ & Hfr). intros Heq. injection Heq as ->.
  unfold first_refusal in Hfr.
  destruct (a_setup a) as [e|g] eqn:Hs; [discriminate|].
  destruct (lens_defined checked a g Hs Hok) as [Hsq Hcq].
  destruct (first_missing (g_features g) required_features); [discriminate|].
  destruct (sq_ring_len checked g); [|congruence].
  destruct (map_refusal (a_map0 a) (a_adv0 a)); [discriminate|].
  destruct (map_refusal (a_map1 a) (a_adv1 a)); [discriminate|].
  destruct (cq_ring_len checked g); [|congruence].
  destruct (map_refusal (a_map2 a) (a_adv2 a)); [discriminate|].
  destruct (is_some (c_direct c)); [destruct (a_register a)|]; discriminate.
Qed.

(** * The parameter block honours the configuration *)
Definition b2n (b : bool) : N := if b then 1 else 0.

(** Bit [k] of the flag word, for every [k]; positions are those of the Linux ABI
    (include/uapi/linux/io_uring.h), not a10's constants. *)
Definition flag_bit (c : config) (k : N) : bool :=
  (k =? 7)                                  (* IORING_SETUP_SUBMIT_ALL: always *)
  || (k =? 16)                              (* IORING_SETUP_NO_SQARRAY: always *)
  || (c_kthread c && (k =? 1))              (* IORING_SETUP_SQPOLL iff with_kernel_thread *)
  || (negb (c_kthread c) && (k =? 8))       (* IORING_SETUP_COOP_TASKRUN iff not *)
  || (c_disabled c && (k =? 6))             (* IORING_SETUP_R_DISABLED iff disable *)
  || (c_single c && (k =? 12))              (* IORING_SETUP_SINGLE_ISSUER iff single_issuer *)
  || (c_defer c && (k =? 13))               (* IORING_SETUP_DEFER_TASKRUN iff defer_task_run *)
  || (is_some (c_cq c) && (k =? 3))         (* IORING_SETUP_CQSIZE iff a completion queue size was given *)
  || (c_clamp c && (k =? 4))                (* IORING_SETUP_CLAMP iff with_maximum_queue_size *)
  || (is_some (c_cpu c) && (k =? 2))        (* IORING_SETUP_SQ_AFF iff with_cpu_affinity *)
  || (is_some (c_attach c) && (k =? 5)).    (* IORING_SETUP_ATTACH_WQ iff attach *)

Definition params_honour_config : Prop :=
  forall c : config,
    let p := params_of_config c in
    (forall k, N.testbit (p_flags p) k = flag_bit c k)
    /\ p_flags p = 128 + 65536 + b2n (c_kthread c) * 2 + b2n (negb (c_kthread c)) * 256
                   + b2n (c_disabled c) * 64 + b2n (c_single c) * 4096 + b2n (c_defer c) * 8192
                   + b2n (is_some (c_cq c)) * 8 + b2n (c_clamp c) * 16 + b2n (is_some (c_cpu c)) * 4
                   + b2n (is_some (c_attach c)) * 32
    /\ N.testbit (p_flags p) 7 = true
    /\ N.testbit (p_flags p) 16 = true
    /\ N.testbit (p_flags p) 1 = c_kthread c
    /\ N.testbit (p_flags p) 8 = negb (c_kthread c)
    /\ N.testbit (p_flags p) 6 = c_disabled c
    /\ N.testbit (p_flags p) 12 = c_single c
    /\ N.testbit (p_flags p) 13 = c_defer c
    /\ N.testbit (p_flags p) 3 = is_some (c_cq c)
    /\ N.testbit (p_flags p) 4 = c_clamp c
    /\ N.testbit (p_flags p) 2 = is_some (c_cpu c)
    /\ N.testbit (p_flags p) 5 = is_some (c_attach c)
    /\ (forall k, ~ In k [1; 2; 3; 4; 5; 6; 7; 8; 12; 13; 16] -> N.testbit (p_flags p) k = false)
    /\ setup_entries c = c_sq c
    /\ p_sq_entries p = c_sq c
    /\ p_cq_entries p = match c_cq c with Some n => n | None => 0 end
    /\ p_sq_thread_cpu p = match c_cpu c with Some n => n | None => 0 end
    /\ p_sq_thread_idle p = match c_idle c with Some n => n | None => 0 end
    /\ p_wq_fd p = match c_attach c with Some fd => fd mod two32 | None => 0 end.

Lemma or_if_bit b w f k : N.testbit (or_if b w f) k = N.testbit w k || (b && N.testbit f k).
Proof. destruct b; cbn [or_if andb]; [apply N.lor_spec|rewrite orb_false_r; reflexivity]. Qed.

Lemma flags_bit c k : N.testbit (flags_of_config c) k = flag_bit c k.
Proof.
  unfold flags_of_config, flag_bit.
  rewrite !or_if_bit.
  assert (Hk : N.testbit (if c_kthread c
                          then N.lor (N.lor IORING_SETUP_SUBMIT_ALL IORING_SETUP_NO_SQARRAY) IORING_SETUP_SQPOLL
                          else N.lor (N.lor IORING_SETUP_SUBMIT_ALL IORING_SETUP_NO_SQARRAY) IORING_SETUP_COOP_TASKRUN) k
               = (k =? 7) || (k =? 16) || (c_kthread c && (k =? 1)) || (negb (c_kthread c) && (k =? 8))).
  { change IORING_SETUP_SUBMIT_ALL with (2 ^ 7). change IORING_SETUP_NO_SQARRAY with (2 ^ 16).
    change IORING_SETUP_SQPOLL with (2 ^ 1). change IORING_SETUP_COOP_TASKRUN with (2 ^ 8).
    destruct (c_kthread c); cbn [negb andb]; rewrite !N.lor_spec, !N.pow2_bits_eqb;
      rewrite ?orb_false_r, (N.eqb_sym 7 k), (N.eqb_sym 16 k), ?(N.eqb_sym 1 k), ?(N.eqb_sym 8 k); reflexivity. }
  rewrite Hk.
  change IORING_SETUP_R_DISABLED with (2 ^ 6). change IORING_SETUP_SINGLE_ISSUER with (2 ^ 12).
  change IORING_SETUP_DEFER_TASKRUN with (2 ^ 13). change IORING_SETUP_CQSIZE with (2 ^ 3).
  change IORING_SETUP_CLAMP with (2 ^ 4). change IORING_SETUP_SQ_AFF with (2 ^ 2).
  change IORING_SETUP_ATTACH_WQ with (2 ^ 5).
  rewrite !N.pow2_bits_eqb.
  rewrite (N.eqb_sym 6 k), (N.eqb_sym 12 k), (N.eqb_sym 13 k), (N.eqb_sym 3 k), (N.eqb_sym 4 k),
    (N.eqb_sym 2 k), (N.eqb_sym 5 k).
  reflexivity.
Qed.

Lemma flags_value c :
  flags_of_config c = 128 + 65536 + b2n (c_kthread c) * 2 + b2n (negb (c_kthread c)) * 256
                   + b2n (c_disabled c) * 64 + b2n (c_single c) * 4096 + b2n (c_defer c) * 8192
                   + b2n (is_some (c_cq c)) * 8 + b2n (c_clamp c) * 16 + b2n (is_some (c_cpu c)) * 4
                   + b2n (is_some (c_attach c)) * 32.
Proof.
  unfold flags_of_config.
  destruct (c_kthread c), (c_disabled c), (c_single c), (c_defer c), (is_some (c_cq c)), (c_clamp c),
    (is_some (c_cpu c)), (is_some (c_attach c)); vm_compute; reflexivity.
Qed.

Ltac one_bit := unfold flag_bit; cbn [N.eqb Pos.eqb]; rewrite ?andb_false_r, ?andb_true_r, ?orb_false_r, ?orb_true_r; reflexivity.

Lemma params_honour_config_holds : params_honour_config.
Proof.
  intros c p. subst p. cbn [params_of_config p_flags p_sq_entries p_cq_entries p_sq_thread_cpu
                            p_sq_thread_idle p_wq_fd setup_entries].
  split; [intros k; apply flags_bit|].
  split; [apply flags_value|].
  repeat (split; [rewrite flags_bit; one_bit|]).
  split.
  { intros k Hk. rewrite flags_bit. unfold flag_bit.
    assert (E : forall i, In i [1; 2; 3; 4; 5; 6; 7; 8; 12; 13; 16] -> (k =? i) = false).
    { intros i Hi. apply N.eqb_neq. intros ->. exact (Hk Hi). }
    rewrite !E by (cbn [In]; tauto).
    rewrite ?andb_false_r. reflexivity. }
  unfold some_or0, trunc32. repeat split.
Qed.

(** The setters reach the configuration: booleans are set by their setter and never cleared,
    value fields hold what the last call gave. *)
Definition is_setter (which : setter -> bool) (ss : list setter) : bool := existsb which ss.
Definition last_value {A : Type} (pick : setter -> option A) (ss : list setter) (d : A) : A :=
  fold_left (fun acc s => match pick s with Some v => v | None => acc end) ss d.

Definition setters_honoured : Prop :=
  forall ss : list setter,
    let c := apply_setters ss in
    c_clamp c = is_setter (fun s => match s with MaximumQueueSize => true | _ => false end) ss
    /\ c_kthread c = is_setter (fun s => match s with KernelThread => true | _ => false end) ss
    /\ c_single c = is_setter (fun s => match s with SingleIssuer => true | _ => false end) ss
    /\ c_defer c = is_setter (fun s => match s with DeferTaskRun => true | _ => false end) ss
    /\ c_disabled c = is_setter (fun s => match s with Disable => true | _ => false end) ss
    /\ c_sq c = last_value (fun s => match s with SubmissionQueueSize n => Some n
                                               | MaximumQueueSize => Some u32_max | _ => None end) ss 32
    /\ c_cq c = last_value (fun s => match s with CompletionQueueSize n => Some (Some n) | _ => None end) ss None
    /\ c_cpu c = last_value (fun s => match s with CpuAffinity n => Some (Some n) | _ => None end) ss None
    /\ c_idle c = last_value (fun s => match s with IdleTimeout secs nanos => Some (Some (idle_millis secs nanos))
                                                  | _ => None end) ss None
    /\ c_attach c = last_value (fun s => match s with Attach fd => Some (Some fd) | _ => None end) ss None
    /\ c_direct c = last_value (fun s => match s with DirectDescriptors n => Some (Some n) | _ => None end) ss None.

Lemma bool_field_set (field : config -> bool) (which : setter -> bool) :
  (forall c s, field (apply_setter c s) = field c || which s) ->
  forall ss c0, field (fold_left apply_setter ss c0) = field c0 || existsb which ss.
Proof.
  intros Hstep ss. induction ss as [|s ss IH]; intros c0; cbn [fold_left existsb].
  - rewrite orb_false_r. reflexivity.
  - rewrite IH, Hstep, orb_assoc. reflexivity.
Qed.

Lemma value_field_set {A : Type} (field : config -> A) (pick : setter -> option A) :
  (forall c s, field (apply_setter c s) = match pick s with Some v => v | None => field c end) ->
  forall ss c0, field (fold_left apply_setter ss c0) = last_value pick ss (field c0).
Proof.
  intros Hstep ss. unfold last_value. induction ss as [|s ss IH]; intros c0; cbn [fold_left].
  - reflexivity.
  - rewrite IH, Hstep. reflexivity.
Qed.

Ltac bool_field f w :=
  rewrite (bool_field_set f w) by
    (intros c s; destruct s; cbn [apply_setter c_clamp c_kthread c_single c_defer c_disabled];
     rewrite ?orb_false_r, ?orb_true_r; reflexivity);
  reflexivity.
Ltac value_field f w :=
  rewrite (value_field_set f w) by (intros c s; destruct s; reflexivity);
  reflexivity.

Lemma setters_honoured_holds : setters_honoured.
Proof.
  intros ss c. subst c. unfold apply_setters, is_setter.
  split; [bool_field c_clamp (fun s => match s with MaximumQueueSize => true | _ => false end)|].
  split; [bool_field c_kthread (fun s => match s with KernelThread => true | _ => false end)|].
  split; [bool_field c_single (fun s => match s with SingleIssuer => true | _ => false end)|].
  split; [bool_field c_defer (fun s => match s with DeferTaskRun => true | _ => false end)|].
  split; [bool_field c_disabled (fun s => match s with Disable => true | _ => false end)|].
  split; [value_field c_sq (fun s => match s with SubmissionQueueSize n => Some n
                                               | MaximumQueueSize => Some u32_max | _ => None end)|].
  split; [value_field c_cq (fun s => match s with CompletionQueueSize n => Some (Some n) | _ => None end)|].
  split; [value_field c_cpu (fun s => match s with CpuAffinity n => Some (Some n) | _ => None end)|].
  split; [value_field c_idle (fun s => match s with IdleTimeout secs nanos => Some (Some (idle_millis secs nanos))
                                                  | _ => None end)|].
  split; [value_field c_attach (fun s => match s with Attach fd => Some (Some fd) | _ => None end)|].
  value_field c_direct (fun s => match s with DirectDescriptors n => Some (Some n) | _ => None end).
Qed.

(** * Non-vacuity and witnesses *)
Definition ex_granted : granted :=
  {| g_fd := 5; g_sq := 8; g_cq := 16; g_flags := 4096 + 128; g_features := 2 + 4 + 8 + 128;
     g_sq_array := 0; g_cq_cqes := 192 |}.
Definition ex_answers : answers :=
  {| a_setup := SetupOk ex_granted; a_map0 := MapOk 1000; a_adv0 := SysOk; a_map1 := MapOk 2000;
     a_adv1 := SysOk; a_map2 := MapOk 3000; a_adv2 := SysOk; a_register := SysOk |}.
Definition with_register (a : answers) (r : sys_answer) : answers :=
  {| a_setup := a_setup a; a_map0 := a_map0 a; a_adv0 := a_adv0 a; a_map1 := a_map1 a; a_adv1 := a_adv1 a;
     a_map2 := a_map2 a; a_adv2 := a_adv2 a; a_register := r |}.
Definition with_adv2 (a : answers) (r : sys_answer) : answers :=
  {| a_setup := a_setup a; a_map0 := a_map0 a; a_adv0 := a_adv0 a; a_map1 := a_map1 a; a_adv1 := a_adv1 a;
     a_map2 := a_map2 a; a_adv2 := r; a_register := a_register a |}.

(** Both branches of [build_all_or_nothing] are inhabited. *)
Example build_succeeds_example :
  exists r, build true (apply_setters [SubmissionQueueSize 8; SingleIssuer; DirectDescriptors 4]) ex_answers
            = (Built r,
               [EOpen 5; EMap 1000 32 0; EAdvise 1000 32 true; EMap 2000 512 268435456; EAdvise 2000 512 true;
                EMap 3000 448 134217728; EAdvise 3000 448 true; ERegister 13 32 4 1 true])
            /\ sh_single (r_sq r) = true /\ sh_kthread (r_sq r) = false.
Proof. eexists. vm_compute. repeat split. Qed.

Example build_register_refused_example :
  build true (apply_setters [SubmissionQueueSize 8; DirectDescriptors 4]) (with_register ex_answers (SysErr 24))
  = (Failed (EOs 24),
     [EOpen 5; EMap 1000 32 0; EAdvise 1000 32 true; EMap 2000 512 268435456; EAdvise 2000 512 true;
      EMap 3000 448 134217728; EAdvise 3000 448 true; ERegister 13 32 4 1 false;
      EUnmap 3000 448; EUnmap 2000 512; EUnmap 1000 32; EClose 5]).
Proof. vm_compute. reflexivity. Qed.

Example build_last_madvise_refused_example :
  build true config_new (with_adv2 ex_answers (SysErr 22))
  = (Failed (EOs 22),
     [EOpen 5; EMap 1000 32 0; EAdvise 1000 32 true; EMap 2000 512 268435456; EAdvise 2000 512 true;
      EMap 3000 448 134217728; EAdvise 3000 448 false; EUnmap 3000 448;
      EUnmap 2000 512; EUnmap 1000 32; EClose 5]).
Proof. vm_compute. reflexivity. Qed.

Example answers_fit_example : answers_fit ex_answers.
Proof. vm_compute. split; reflexivity. Qed.

(** With overflow checks, sizes no kernel grants make [build] panic instead of returning (the
    descriptor is still closed by unwinding: covered by [build_all_or_nothing]). This is why
    [build_never_panics] asks for [answers_fit]. *)
Lemma build_checked_overflow_panics_witness :
  exists c a, fst (build true c a) = Failed EPanic /\ fst (build false c a) <> Failed EPanic.
Proof.
  exists config_new.
  exists {| a_setup := SetupOk {| g_fd := 5; g_sq := two32 - 1; g_cq := 16; g_flags := 0;
                                  g_features := 2 + 4 + 8 + 128; g_sq_array := 0; g_cq_cqes := 192 |};
            a_map0 := MapOk 1000; a_adv0 := SysOk; a_map1 := MapOk 2000; a_adv1 := SysOk;
            a_map2 := MapOk 3000; a_adv2 := SysOk; a_register := SysOk |}.
  split; vm_compute; [reflexivity|discriminate].
Qed.

Example params_example :
  params_of_config (apply_setters [MaximumQueueSize; CompletionQueueSize 64; KernelThread; CpuAffinity 3;
                                   IdleTimeout 2 500000000; SingleIssuer; Disable; Attach 7])
  = {| p_sq_entries := 4294967295; p_cq_entries := 64;
       p_flags := 65536 + 128 + 2 + 64 + 4096 + 8 + 16 + 4 + 32;
       p_sq_thread_cpu := 3; p_sq_thread_idle := 2500; p_wq_fd := 7 |}.
Proof. vm_compute. reflexivity. Qed.

(** Proofs about Model/BufPool.v (property C08). *)
From A10 Require Import Base.Word Base.Run Model.BufPool.
From Coq Require Import ZifyN ZifyBool ZifyNat Permutation.
Ltac Zify.zify_post_hook ::= Z.div_mod_to_equations.

Ltac alia := repeat match goal with H : _ = _ mod _ |- _ => clear H end; lia.

(** Pool parameters: [2^k] buffers with [k <= 15] ([pool_size <= 1 << 15], a power of two) of
    [sz > 0] bytes. *)
Definition params_ok (k sz : N) : Prop := k <= 15 /\ 0 < sz.

(** * Arithmetic: 16-bit counters against the unbounded ghost counters *)

Lemma pow_pos k : 0 < 2 ^ k.
Proof. apply N.neq_0_lt_0. apply N.pow_nonzero. lia. Qed.

Lemma pow_le_15 k : k <= 15 -> 2 ^ k <= 32768.
Proof. intros H. change 32768 with (2 ^ 15). apply N.pow_le_mono_r; lia. Qed.

(** [tail & tail_mask] is reduction modulo the pool size. *)
Lemma mask16 k x : N.land x (2 ^ k - 1) = x mod 2 ^ k.
Proof. apply land_pow2_mask. Qed.

(** The pool size divides 2^16, so the slot of the 16-bit counter is the slot of the ghost. *)
Lemma slot16 k T : k <= 16 -> (T mod two16) mod 2 ^ k = T mod 2 ^ k.
Proof.
  intros H. apply (slot_of_real16 T (2 ^ k) (2 ^ (16 - k))); [|apply pow_pos].
  rewrite <- N.pow_add_r. replace (k + (16 - k)) with 16 by lia. reflexivity.
Qed.

Lemma sub16 T H : H <= T -> T - H < two16 -> wsub16 (T mod two16) (H mod two16) = T - H.
Proof. apply wsub16_ghost. Qed.

Lemma eq16 T H : H <= T -> T - H < two16 -> H mod two16 = T mod two16 -> H = T.
Proof. unfold two16. intros. lia. Qed.

Lemma add16 T : wadd16 (T mod two16) 1 = (T + 1) mod two16.
Proof. apply wadd16_ghost. Qed.

(** The id recomputed from the pointer: [(id * size) / size] truncated to 16 bits. *)
Lemma rel_id_mul sz id : 0 < sz -> id < two16 -> rel_id sz (id * sz) = id.
Proof.
  intros Hsz Hid. unfold rel_id, trunc16. rewrite N.div_mul by lia. apply N.mod_small. exact Hid.
Qed.

(** Distinct buffers do not overlap. *)
Lemma bufs_disjoint sz a b : a <> b -> a * sz + sz <= b * sz \/ b * sz + sz <= a * sz.
Proof.
  intros H. assert (C : a + 1 <= b \/ b + 1 <= a) by lia. destruct C as [C|C]; [left|right].
  - replace (a * sz + sz) with ((a + 1) * sz) by lia. apply N.mul_le_mono_r. exact C.
  - replace (b * sz + sz) with ((b + 1) * sz) by lia. apply N.mul_le_mono_r. exact C.
Qed.

(** * Lists *)
Definition cnt (l : list N) (x : N) : nat := count_occ N.eq_dec l x.

Lemma cnt_app l1 l2 x : cnt (l1 ++ l2) x = (cnt l1 x + cnt l2 x)%nat.
Proof. apply count_occ_app. Qed.

Lemma cnt_nil x : cnt [] x = 0%nat.
Proof. reflexivity. Qed.

Lemma cnt_one a x : cnt [a] x = if a =? x then 1%nat else 0%nat.
Proof.
  unfold cnt. cbn [count_occ]. destruct (N.eq_dec a x) as [->|H].
  - rewrite N.eqb_refl. reflexivity.
  - apply N.eqb_neq in H. rewrite H. reflexivity.
Qed.

Lemma cnt_cons a l x : cnt (a :: l) x = ((if N.eqb a x then 1 else 0) + cnt l x)%nat.
Proof. change (a :: l) with ([a] ++ l). rewrite cnt_app, cnt_one. reflexivity. Qed.

Lemma cnt_pos_in l x : (0 < cnt l x)%nat <-> In x l.
Proof. unfold cnt. rewrite (count_occ_In N.eq_dec). lia. Qed.

Lemma nth_error_split_at {A} : forall (l : list A) i t,
  nth_error l i = Some t -> l = firstn i l ++ t :: skipn (S i) l.
Proof.
  induction l as [|a l IH]; intros [|i] t H; cbn [nth_error] in H; try discriminate.
  - injection H as ->. reflexivity.
  - change (firstn (S i) (a :: l)) with (a :: firstn i l).
    change (skipn (S (S i)) (a :: l)) with (skipn (S i) l).
    cbn [app]. f_equal. apply IH. exact H.
Qed.

Lemma nth_error_upd {A} (x : A) : forall (l : list A) i j, (i < length l)%nat ->
  nth_error (upd l i x) j = if Nat.eqb j i then Some x else nth_error l j.
Proof.
  unfold upd. induction l as [|a l IH]; intros i j Hi; cbn [length] in Hi; [lia|].
  destruct i as [|i].
  - cbn [firstn skipn app]. destruct j; reflexivity.
  - change (firstn (S i) (a :: l)) with (a :: firstn i l).
    change (skipn (S (S i)) (a :: l)) with (skipn (S i) l).
    destruct j as [|j]; cbn [app nth_error Nat.eqb]; [reflexivity|]. apply IH. lia.
Qed.

Lemma upd_length {A} (x : A) (l : list A) i : (i < length l)%nat -> length (upd l i x) = length l.
Proof.
  intros H. unfold upd. rewrite app_length, firstn_length. cbn [length]. rewrite skipn_length. lia.
Qed.

Lemma nth_error_lt {A} (l : list A) i a : nth_error l i = Some a -> (i < length l)%nat.
Proof. intros H. apply nth_error_Some. congruence. Qed.

Lemma Forall_upd {A} (P : A -> Prop) : forall (l : list A) i x,
  Forall P l -> P x -> Forall P (upd l i x).
Proof.
  unfold upd. induction l as [|a l IH]; intros i x Hl Hx.
  - rewrite firstn_nil, skipn_nil. cbn [app]. constructor; [exact Hx|constructor].
  - inversion Hl as [|? ? Ha Hl']; subst. destruct i as [|i].
    + cbn [firstn skipn app]. constructor; assumption.
    + change (firstn (S i) (a :: l)) with (a :: firstn i l).
      change (skipn (S (S i)) (a :: l)) with (skipn (S i) l).
      cbn [app]. constructor; [assumption|]. apply IH; assumption.
Qed.

Lemma Forall_nth_error {A} (P : A -> Prop) (l : list A) i a :
  Forall P l -> nth_error l i = Some a -> P a.
Proof. intros H E. apply (proj1 (Forall_forall P l) H). eapply nth_error_In. exact E. Qed.

(** Replacing one element of a table changes the ids it contributes and nothing else. *)
Lemma cnt_flat_map_upd {A} (f : A -> list N) (l : list A) i a x y :
  nth_error l i = Some a ->
  (cnt (flat_map f (upd l i x)) y + cnt (f a) y = cnt (flat_map f l) y + cnt (f x) y)%nat.
Proof.
  intros H. rewrite (nth_error_split_at l i a H) at 2. unfold upd.
  rewrite !flat_map_app. cbn [flat_map]. rewrite !cnt_app. lia.
Qed.

(** [iota n] holds every id below [n] once. *)
Lemma in_iota n x : In x (iota n) <-> x < n.
Proof.
  unfold iota. rewrite in_map_iff. split.
  - intros (j & <- & Hj). apply in_seq in Hj. lia.
  - intros H. exists (N.to_nat x). split; [lia|]. apply in_seq. lia.
Qed.

Lemma NoDup_iota n : NoDup (iota n).
Proof.
  unfold iota. apply FinFun.Injective_map_NoDup; [|apply seq_NoDup].
  intros a b H. lia.
Qed.

Lemma cnt_iota n x : cnt (iota n) x = if x <? n then 1%nat else 0%nat.
Proof.
  unfold cnt. destruct (N.ltb_spec x n) as [H|H].
  - apply (proj1 (NoDup_count_occ' N.eq_dec (iota n)) (NoDup_iota n)). apply in_iota. exact H.
  - apply (count_occ_not_In N.eq_dec). rewrite in_iota. lia.
Qed.

Lemma length_iota n : length (iota n) = N.to_nat n.
Proof. unfold iota. rewrite map_length, seq_length. reflexivity. Qed.

Lemma nth_iota_map {A} (f : N -> A) (d : A) n j :
  j < n -> nth (N.to_nat j) (map f (iota n)) d = f j.
Proof.
  intros H. unfold iota. rewrite map_map.
  rewrite (nth_indep _ d (f (N.of_nat 0))) by (rewrite map_length, seq_length; lia).
  rewrite (map_nth (fun i => f (N.of_nat i)) (seq 0 (N.to_nat n)) 0%nat).
  rewrite seq_nth by lia. cbn [Nat.add]. rewrite N2Nat.id. reflexivity.
Qed.

Lemma ring_set_spec n r idx e j :
  j < n -> ring_set n r idx e j = if j =? idx then e else r j.
Proof. intros H. unfold ring_set. apply (nth_iota_map (fun j => if j =? idx then e else r j)). exact H. Qed.

Lemma init_ring_spec n sz j :
  j < n -> init_ring n sz j = {| e_addr := j * sz; e_len := sz; e_bid := j |}.
Proof.
  intros H. unfold init_ring.
  apply (nth_iota_map (fun i => {| e_addr := i * sz; e_len := sz; e_bid := i |})). exact H.
Qed.

(** Two lists that together hold every id below [n] exactly once have [n] elements. *)
Lemma cnt_total_length (A B : list N) n :
  (forall x, (cnt A x + cnt B x)%nat = if x <? n then 1%nat else 0%nat) ->
  (length A + length B)%nat = N.to_nat n.
Proof.
  intros H. rewrite <- app_length, <- length_iota. apply Permutation_length.
  apply (Permutation_count_occ N.eq_dec). intros x.
  fold (cnt (A ++ B) x). fold (cnt (iota n) x). rewrite cnt_app, cnt_iota. apply H.
Qed.

(** * The ghost window [g_h, g_t) *)
Fixpoint gseq (a : N) (c : nat) : list N :=
  match c with O => [] | S c' => a :: gseq (a + 1) c' end.

Lemma gseq_snoc : forall c a, gseq a (S c) = gseq a c ++ [a + N.of_nat c].
Proof.
  induction c as [|c IH]; intros a.
  - cbn [gseq app N.of_nat]. rewrite N.add_0_r. reflexivity.
  - change (gseq a (S (S c))) with (a :: gseq (a + 1) (S c)). rewrite IH.
    cbn [gseq app]. f_equal. f_equal. f_equal. lia.
Qed.

Lemma in_gseq : forall c a i, In i (gseq a c) <-> a <= i /\ i < a + N.of_nat c.
Proof.
  induction c as [|c IH]; intros a i; cbn [gseq In].
  - lia.
  - rewrite IH. lia.
Qed.

Lemma gseq_length : forall c a, length (gseq a c) = c.
Proof. induction c as [|c IH]; intros a; cbn [gseq length]; [reflexivity|]. rewrite IH. reflexivity. Qed.

(** * The five places a buffer id can be in *)
Definition offered_of (r : N -> entry) (n gh gt : N) : list N :=
  map (fun i => e_bid (r (i mod n))) (gseq gh (N.to_nat (gt - gh))).
Definition transit_of (l : list op) : list N := flat_map (fun o => cbufs (oqueue o)) l.
Definition slot_ids (sz : N) (x : slot) : list N :=
  match x with SBuf (Some (off, _)) => [rel_id sz off] | _ => [] end.
Definition owned_of (sz : N) (l : list slot) : list N := flat_map (slot_ids sz) l.
Definition thr_ids (t : thread) : list N := match tpc t with PStore => [tbid t] | _ => [] end.
Definition releasing_of (l : list thread) : list N := flat_map thr_ids l.

(** Ids in the ring entries between the kernel's head and the tail. *)
Definition offered (s : pool) : list N := offered_of (ring s) (pn s) (g_h s) (g_t s).
(** Ids picked by the kernel, completion not yet turned into a [ReadBuf]. *)
Definition transit (s : pool) : list N := transit_of (ops s).
(** Ids of the buffers live [ReadBuf]s point into (recomputed from the pointer as [release] does). *)
Definition owned (s : pool) : list N := owned_of (psz s) (bufs s).
(** Ids a thread has written into the ring without having stored the tail yet. *)
Definition releasing (s : pool) : list N := releasing_of (threads s).

(** Ids lost because the kernel picked them for an operation whose future was dropped before
    the completion was turned into a [ReadBuf] (finding H11): the named class. *)
Definition picked_for_abandoned_op (s : pool) (id : N) : Prop := In id (lost s).

Definition all_ids (s : pool) : list N :=
  offered s ++ transit s ++ owned s ++ releasing s ++ lost s.

Definition total (s : pool) (x : N) : nat :=
  (cnt (offered s) x + cnt (transit s) x + cnt (owned s) x + cnt (releasing s) x + cnt (lost s) x)%nat.

Definition entry_ok (sz : N) (e : entry) : Prop := e_addr e = e_bid e * sz /\ e_len e = sz.
Definition slot_ok (sz : N) (x : slot) : Prop :=
  match x with SBuf (Some (off, len)) => off = rel_id sz off * sz /\ len <= sz | _ => True end.
Definition cres_ok (sz : N) (c : cres) : Prop := match c with CBuf _ l => l <= sz | _ => True end.
Definition queues_ok (sz : N) (l : list op) : Prop := Forall (fun o => Forall (cres_ok sz) (oqueue o)) l.

(** What is known about thread [i]: it is between the entry write and the tail store iff it
    holds the lock; then its local tail is the tail and the slot after the window holds the
    entry for the buffer it took. *)
Definition thread_ok (s : pool) (i : nat) (t : thread) : Prop :=
  (tpc t = PStore <-> holder s = Some i)
  /\ (tpc t = PStore ->
        tlt t = tail s /\ tptr t = tbid t * psz s
        /\ ring s (g_t s mod pn s) = {| e_addr := tptr t; e_len := psz s; e_bid := tbid t |}).

Definition Inv (k sz : N) (s : pool) : Prop :=
  pn s = 2 ^ k /\ psz s = sz
  /\ tail s = g_t s mod two16 /\ khead s = g_h s mod two16
  /\ g_h s <= g_t s /\ g_t s - g_h s <= pn s
  /\ (forall i, g_h s <= i -> i < g_t s -> entry_ok sz (ring s (i mod pn s)))
  /\ (forall x, total s x = if x <? pn s then 1%nat else 0%nat)
  /\ Forall (slot_ok sz) (bufs s)
  /\ queues_ok sz (ops s)
  /\ (forall i, holder s = Some i -> (i < length (threads s))%nat)
  /\ (forall i t, nth_error (threads s) i = Some t -> thread_ok s i t).

(** * One step at a time *)
Ltac proj :=
  cbn [pn psz ring tail khead handle registered ops bufs holder threads lost g_t g_h
       set_ring set_tail set_khead set_handle set_registered set_ops set_bufs set_holder
       set_threads set_lost set_op set_buf set_thread rel_write rel_store release_now release_now_with settle
       okind ocancel kalive oqueue oust ocancelq ofin oref with_k with_u
       tpc ttodo tptr tbid tlt with_pc mk_thread] in *.
Ltac raw := unfold total, offered, transit, owned, releasing in *; proj.

Ltac inv_destruct H :=
  destruct H as (Hpn & Hpsz & Htl & Hkh & Hle & Hcap & Hent & Htot & Hsl & Hq & Hho & Hth).

(** The kernel takes the first entry of the window. *)
Lemma offered_pick r n gh gt :
  gh < gt -> offered_of r n gh gt = e_bid (r (gh mod n)) :: offered_of r n (gh + 1) gt.
Proof.
  unfold offered_of. intros Hlt.
  replace (N.to_nat (gt - gh)) with (S (N.to_nat (gt - (gh + 1)))) by lia. reflexivity.
Qed.

(** A release appends the entry in the slot after the window, provided writing it did not
    disturb the window. *)
Lemma offered_push r r' n gh gt :
  gh <= gt -> (forall i, gh <= i -> i < gt -> r' (i mod n) = r (i mod n)) ->
  offered_of r' n gh (gt + 1) = offered_of r n gh gt ++ [e_bid (r' (gt mod n))].
Proof.
  unfold offered_of. intros Hle Hsame.
  replace (N.to_nat (gt + 1 - gh)) with (S (N.to_nat (gt - gh))) by lia.
  rewrite gseq_snoc, map_app. cbn [map]. f_equal.
  - apply map_ext_in. intros i Hi. apply in_gseq in Hi. rewrite Hsame by lia. reflexivity.
  - replace (gh + N.of_nat (N.to_nat (gt - gh))) with gt by lia. reflexivity.
Qed.

Lemma offered_length r n gh gt : length (offered_of r n gh gt) = N.to_nat (gt - gh).
Proof. unfold offered_of. rewrite map_length, gseq_length. reflexivity. Qed.

Lemma transit_upd l o a x y :
  nth_error l o = Some a ->
  (cnt (transit_of (upd l o x)) y + cnt (cbufs (oqueue a)) y
   = cnt (transit_of l) y + cnt (cbufs (oqueue x)) y)%nat.
Proof. apply (cnt_flat_map_upd (fun o => cbufs (oqueue o))). Qed.

Lemma owned_upd sz l b a x y :
  nth_error l b = Some a ->
  (cnt (owned_of sz (upd l b x)) y + cnt (slot_ids sz a) y
   = cnt (owned_of sz l) y + cnt (slot_ids sz x) y)%nat.
Proof. apply (cnt_flat_map_upd (slot_ids sz)). Qed.

Lemma releasing_upd l i a x y :
  nth_error l i = Some a ->
  (cnt (releasing_of (upd l i x)) y + cnt (thr_ids a) y
   = cnt (releasing_of l) y + cnt (thr_ids x) y)%nat.
Proof. apply (cnt_flat_map_upd thr_ids). Qed.

Lemma cbufs_app q1 q2 : cbufs (q1 ++ q2) = cbufs q1 ++ cbufs q2.
Proof. unfold cbufs. apply flat_map_app. Qed.

Lemma transit_settle l : transit_of (map settle_op l) = transit_of l.
Proof.
  unfold transit_of. induction l as [|a l IH]; [reflexivity|].
  cbn [map flat_map]. rewrite IH. reflexivity.
Qed.

Lemma queues_settle sz l : queues_ok sz l -> queues_ok sz (map settle_op l).
Proof. intros H. apply Forall_map. exact H. Qed.

Lemma queues_upd sz l o x : queues_ok sz l -> Forall (cres_ok sz) (oqueue x) -> queues_ok sz (upd l o x).
Proof. intros H Hx. apply Forall_upd; assumption. Qed.

Lemma queues_nth sz l o a : queues_ok sz l -> nth_error l o = Some a -> Forall (cres_ok sz) (oqueue a).
Proof. intros H E. exact (Forall_nth_error _ l o a H E). Qed.

(** Everything except the head, the operations, the ReadBufs and the lost ids is as before. *)
Lemma Inv_frame k sz s s' :
  Inv k sz s ->
  pn s' = pn s -> psz s' = psz s -> ring s' = ring s -> tail s' = tail s ->
  holder s' = holder s -> threads s' = threads s -> g_t s' = g_t s ->
  khead s' = g_h s' mod two16 -> g_h s <= g_h s' -> g_h s' <= g_t s' ->
  (forall x, total s' x = total s x) ->
  Forall (slot_ok sz) (bufs s') -> queues_ok sz (ops s') ->
  Inv k sz s'.
Proof.
  intros HI E1 E2 E3 E4 E5 E6 E7 Hk Hh1 Hh2 Ht Hs Ho. inv_destruct HI.
  unfold Inv, thread_ok in *. rewrite E1, E2, E3, E4, E5, E6, E7 in *.
  repeat match goal with |- _ /\ _ => split end; try assumption; try lia.
  - intros i Hi1 Hi2. apply Hent; lia.
  - intros x. rewrite Ht. apply Htot.
Qed.

Lemma Inv_settle k sz s : Inv k sz s -> Inv k sz (settle s).
Proof.
  intros HI. apply (Inv_frame k sz s _ HI); try reflexivity; try (inv_destruct HI; proj; assumption || lia).
  - intros x. raw. rewrite transit_settle. reflexivity.
  - inv_destruct HI. proj. apply queues_settle. exact Hq.
Qed.

(** Replacing one operation record by one that holds the same buffer ids. *)
Lemma Inv_set_op k sz s o a x :
  Inv k sz s -> nth_error (ops s) o = Some a ->
  (forall y, cnt (cbufs (oqueue x)) y = cnt (cbufs (oqueue a)) y) ->
  Forall (cres_ok sz) (oqueue x) ->
  Inv k sz (set_op s o x).
Proof.
  intros HI Ha Hsame Hx.
  apply (Inv_frame k sz s _ HI); try reflexivity; try (inv_destruct HI; proj; assumption || lia).
  - intros y. raw. pose proof (transit_upd (ops s) o a x y Ha) as E. rewrite Hsame in E. lia.
  - inv_destruct HI. proj. apply queues_upd; assumption.
Qed.

Lemma op_free_queue x : op_free x = true -> oqueue x = [].
Proof.
  unfold op_free. intros H. destruct (oqueue x); [reflexivity|].
  rewrite andb_false_r in H. discriminate H.
Qed.

Lemma nth_error_settle s o : nth_error (ops (settle s)) o = option_map settle_op (nth_error (ops s) o).
Proof. proj. apply nth_error_map. Qed.

Lemma head_slot k sz s : params_ok k sz -> Inv k sz s -> N.land (khead s) (pn s - 1) = g_h s mod pn s.
Proof. intros [Hk _] HI. inv_destruct HI. rewrite Hpn, mask16, Hkh, slot16 by lia. reflexivity. Qed.

Lemma tail_slot k sz s : params_ok k sz -> Inv k sz s -> N.land (tail s) (pn s - 1) = g_t s mod pn s.
Proof. intros [Hk _] HI. inv_destruct HI. rewrite Hpn, mask16, Htl, slot16 by lia. reflexivity. Qed.

Lemma ghost_lt k sz s : params_ok k sz -> Inv k sz s -> khead s <> tail s -> g_h s < g_t s.
Proof.
  intros _ HI Hne. inv_destruct HI.
  destruct (N.eq_dec (g_h s) (g_t s)) as [e|e]; [|alia].
  exfalso. apply Hne. rewrite Hkh, Htl, e. reflexivity.
Qed.

Lemma ghost_eq k sz s : params_ok k sz -> Inv k sz s -> khead s = tail s -> g_h s = g_t s.
Proof.
  intros [Hk _] HI He. inv_destruct HI. pose proof (pow_le_15 k Hk) as Hn.
  rewrite Hkh, Htl in He. apply eq16 in He; [exact He|alia|unfold two16; alia].
Qed.

(** The kernel selects the entry at its head for request [o]. *)
Lemma Inv_pick k sz s o a m q' lost' :
  params_ok k sz -> Inv k sz s -> nth_error (ops s) o = Some a -> khead s <> tail s ->
  (forall y, (cnt (cbufs q') y + cnt lost' y
              = cnt (cbufs (oqueue a)) y + cnt (lost s) y
                + cnt [e_bid (ring s (N.land (khead s) (pn s - 1)))] y)%nat) ->
  Forall (cres_ok sz) q' ->
  Inv k sz (set_lost (set_op (set_khead s (wadd16 (khead s) 1) (g_h s + 1)) o (with_k a m q')) lost').
Proof.
  intros Hp HI Ha Hne Hcnt Hq'.
  pose proof (ghost_lt k sz s Hp HI Hne) as Hlt.
  pose proof (head_slot k sz s Hp HI) as Hslot. rewrite Hslot in Hcnt.
  apply (Inv_frame k sz s _ HI); try reflexivity; proj.
  - inv_destruct HI. rewrite Hkh. apply add16.
  - lia.
  - lia.
  - intros y. raw. rewrite (offered_pick (ring s) (pn s) (g_h s) (g_t s) Hlt), cnt_cons.
    pose proof (transit_upd (ops s) o a (with_k a m q') y Ha) as E. proj.
    specialize (Hcnt y). rewrite cnt_one in Hcnt. lia.
  - inv_destruct HI. exact Hsl.
  - inv_destruct HI. apply queues_upd; assumption.
Qed.

Lemma cnt_flat_map_ge {A} (f : A -> list N) (l : list A) i a y :
  nth_error l i = Some a -> (cnt (f a) y <= cnt (flat_map f l) y)%nat.
Proof.
  intros H. rewrite (nth_error_split_at l i a H). rewrite flat_map_app. cbn [flat_map].
  rewrite !cnt_app. lia.
Qed.

(** Any id found in one of the five places is an id of the pool. *)
Lemma id_bound k sz s x : Inv k sz s -> (0 < total s x)%nat -> x < pn s.
Proof.
  intros HI H. inv_destruct HI. rewrite Htot in H. destruct (N.ltb_spec x (pn s)); [assumption|lia].
Qed.

Lemma queued_id_bound k sz s o a bid l :
  Inv k sz s -> nth_error (ops s) o = Some a -> In (CBuf bid l) (oqueue a) -> bid < pn s.
Proof.
  intros HI Ha Hin. apply (id_bound k sz s bid HI). unfold total.
  pose proof (cnt_flat_map_ge (fun o => cbufs (oqueue o)) (ops s) o a bid Ha) as G.
  assert (0 < cnt (cbufs (oqueue a)) bid)%nat.
  { apply cnt_pos_in. unfold cbufs. apply in_flat_map. exists (CBuf bid l). split; [exact Hin|left; reflexivity]. }
  unfold transit, transit_of. lia.
Qed.

(** A completion is turned into a [ReadBuf] stored in the empty place [b]. *)
Lemma Inv_deliver k sz s o a x b sl :
  Inv k sz s -> nth_error (ops s) o = Some a -> nth_error (bufs s) b = Some SEmpty ->
  (forall y, (cnt (cbufs (oqueue x)) y + cnt (slot_ids sz sl) y = cnt (cbufs (oqueue a)) y)%nat) ->
  Forall (cres_ok sz) (oqueue x) -> slot_ok sz sl ->
  Inv k sz (set_buf (set_op s o x) b sl).
Proof.
  intros HI Ha Hb Hcnt Hx Hsl'.
  apply (Inv_frame k sz s _ HI); try reflexivity; proj; try (inv_destruct HI; assumption || lia).
  - intros y. raw. inv_destruct HI. rewrite Hpsz.
    pose proof (transit_upd (ops s) o a x y Ha) as E1.
    pose proof (owned_upd sz (bufs s) b SEmpty sl y Hb) as E2. cbn [slot_ids] in E2. rewrite cnt_nil in E2.
    specialize (Hcnt y). lia.
  - inv_destruct HI. apply Forall_upd; assumption.
  - inv_destruct HI. apply queues_upd; assumption.
Qed.

Lemma Inv_op_lost k sz s o a x lost' :
  Inv k sz s -> nth_error (ops s) o = Some a ->
  (forall y, (cnt (cbufs (oqueue x)) y + cnt lost' y = cnt (cbufs (oqueue a)) y + cnt (lost s) y)%nat) ->
  Forall (cres_ok sz) (oqueue x) ->
  Inv k sz (set_lost (set_op s o x) lost').
Proof.
  intros HI Ha Hcnt Hx.
  apply (Inv_frame k sz s _ HI); try reflexivity; proj; try (inv_destruct HI; assumption || lia).
  - intros y. raw. pose proof (transit_upd (ops s) o a x y Ha) as E. specialize (Hcnt y). lia.
  - inv_destruct HI. apply queues_upd; assumption.
Qed.

Lemma Inv_set_buf_same k sz s b a sl :
  Inv k sz s -> nth_error (bufs s) b = Some a ->
  (forall y, cnt (slot_ids sz sl) y = cnt (slot_ids sz a) y) -> slot_ok sz sl ->
  Inv k sz (set_buf s b sl).
Proof.
  intros HI Hb Hcnt Hsl'.
  apply (Inv_frame k sz s _ HI); try reflexivity; proj; try (inv_destruct HI; assumption || lia).
  - intros y. raw. inv_destruct HI. rewrite Hpsz.
    pose proof (owned_upd sz (bufs s) b a sl y Hb) as E. specialize (Hcnt y). lia.
  - inv_destruct HI. apply Forall_upd; assumption.
Qed.

(** While some id is not offered there is a free slot in the ring. *)
Lemma room k sz s x :
  Inv k sz s ->
  (0 < cnt (transit s) x + cnt (owned s) x + cnt (releasing s) x + cnt (lost s) x)%nat ->
  g_t s - g_h s < pn s.
Proof.
  intros HI Hx. inv_destruct HI.
  pose proof (cnt_total_length (offered s) (transit s ++ owned s ++ releasing s ++ lost s) (pn s)) as L.
  unfold offered in L. rewrite offered_length in L. fold (offered s) in L.
  assert (0 < length (transit s ++ owned s ++ releasing s ++ lost s))%nat as Hpos.
  { assert (In x (transit s ++ owned s ++ releasing s ++ lost s)) as Hin.
    { apply cnt_pos_in. rewrite !cnt_app. lia. }
    destruct (transit s ++ owned s ++ releasing s ++ lost s); [contradiction|cbn [length]; lia]. }
  assert ((N.to_nat (g_t s - g_h s) + length (transit s ++ owned s ++ releasing s ++ lost s))%nat = N.to_nat (pn s)).
  { apply L. intros y. rewrite !cnt_app. specialize (Htot y). unfold total in Htot. lia. }
  lia.
Qed.

Lemma owned_slot_cnt sz l b off len :
  nth_error l b = Some (SBuf (Some (off, len))) -> (0 < cnt (owned_of sz l) (rel_id sz off))%nat.
Proof.
  intros H. pose proof (cnt_flat_map_ge (slot_ids sz) l b _ (rel_id sz off) H) as G.
  cbn [slot_ids] in G. rewrite cnt_one, N.eqb_refl in G. unfold owned_of. lia.
Qed.

(** Writing the entry for a released buffer at [tail & mask] leaves the window alone. *)
Lemma write_outside_window k sz s e i :
  params_ok k sz -> Inv k sz s -> g_t s - g_h s < pn s -> g_h s <= i -> i < g_t s ->
  ring_set (pn s) (ring s) (N.land (tail s) (pn s - 1)) e (i mod pn s) = ring s (i mod pn s).
Proof.
  intros Hp HI Hroom Hi1 Hi2. rewrite (tail_slot k sz s Hp HI). inv_destruct HI.
  pose proof (pow_pos k) as Hn. rewrite <- Hpn in Hn.
  rewrite ring_set_spec by (apply N.mod_lt; lia).
  destruct (N.eqb_spec (i mod pn s) (g_t s mod pn s)) as [E|E]; [|reflexivity].
  exfalso. revert E. apply slots_distinct; lia.
Qed.

Lemma write_at_tail k sz s e :
  params_ok k sz -> Inv k sz s ->
  ring_set (pn s) (ring s) (N.land (tail s) (pn s - 1)) e (g_t s mod pn s) = e.
Proof.
  intros Hp HI. rewrite (tail_slot k sz s Hp HI). inv_destruct HI.
  pose proof (pow_pos k) as Hn. rewrite <- Hpn in Hn.
  rewrite ring_set_spec by (apply N.mod_lt; lia). rewrite N.eqb_refl. reflexivity.
Qed.

(** [ReadBuf::release] / drop of an owning [ReadBuf] from the harness thread. *)
Lemma Inv_release k sz s b off len sl' :
  params_ok k sz -> Inv k sz s -> holder s = None ->
  nth_error (bufs s) b = Some (SBuf (Some (off, len))) ->
  slot_ids sz sl' = [] -> slot_ok sz sl' ->
  Inv k sz (release_now (set_buf s b sl') off).
Proof.
  intros Hp HI Hho' Hb Hids Hsl'.
  assert (Hroom : g_t s - g_h s < pn s).
  { apply (room k sz s (rel_id (psz s) off) HI). pose proof (owned_slot_cnt (psz s) (bufs s) b off len Hb).
    unfold owned. lia. }
  pose proof (fun e i => write_outside_window k sz s e i Hp HI Hroom) as Hout.
  pose proof (fun e => write_at_tail k sz s e Hp HI) as Hat.
  pose proof HI as HI0. inv_destruct HI.
  assert (Hok : slot_ok sz (SBuf (Some (off, len)))) by (exact (Forall_nth_error _ _ _ _ Hsl Hb)).
  cbn [slot_ok] in Hok. destruct Hok as [Hoff Hlen].
  unfold Inv; proj. repeat match goal with |- _ /\ _ => split end; try assumption; try alia.
  - rewrite Htl. apply add16.
  - intros i Hi1 Hi2. assert (C : i < g_t s \/ i = g_t s) by alia. destruct C as [C|C].
    + rewrite Hout by assumption. apply Hent; assumption.
    + subst i. rewrite Hat. rewrite Hpsz. unfold rel_entry, entry_ok. cbn [e_addr e_bid e_len].
      split; [exact Hoff|reflexivity].
  - intros y. raw.
    rewrite (offered_push (ring s) _ (pn s) (g_h s) (g_t s) Hle (fun i a c => Hout _ i a c)), Hat.
    rewrite cnt_app, cnt_one. unfold rel_entry. cbn [e_bid].
    pose proof (owned_upd (psz s) (bufs s) b _ sl' y Hb) as E. rewrite Hpsz in *. rewrite Hids in E.
    cbn [slot_ids] in E. rewrite cnt_one, cnt_nil in E. specialize (Htot y). lia.
  - apply Forall_upd; assumption.
  - intros i t Hi. destruct (Hth i t Hi) as [A B]. unfold thread_ok; proj. rewrite Hho' in *. split.
    + exact A.
    + intros E. apply A in E. discriminate E.
Qed.

(** [Inv] only looks at these twelve fields. *)
Lemma Inv_ext k sz s s' :
  Inv k sz s ->
  pn s' = pn s -> psz s' = psz s -> ring s' = ring s -> tail s' = tail s -> khead s' = khead s ->
  ops s' = ops s -> bufs s' = bufs s -> holder s' = holder s -> threads s' = threads s ->
  lost s' = lost s -> g_t s' = g_t s -> g_h s' = g_h s -> Inv k sz s'.
Proof.
  unfold Inv, total, offered, transit, owned, releasing, thread_ok.
  intros H -> -> -> -> -> -> -> -> -> -> -> ->. exact H.
Qed.

Lemma offered_ring_ext r r' n gh gt :
  (forall i, gh <= i -> i < gt -> r' (i mod n) = r (i mod n)) ->
  offered_of r' n gh gt = offered_of r n gh gt.
Proof.
  intros H. unfold offered_of. apply map_ext_in. intros i Hi. apply in_gseq in Hi.
  rewrite H by lia. reflexivity.
Qed.

Lemma thr_ids_idle t : tpc t <> PStore -> thr_ids t = [].
Proof. unfold thr_ids. destruct (tpc t); congruence. Qed.

(** A thread moves between points at which it does not hold the lock. *)
Lemma Inv_thread_idle k sz s i t t' :
  Inv k sz s -> nth_error (threads s) i = Some t -> tpc t <> PStore -> tpc t' <> PStore ->
  Inv k sz (set_thread s i t').
Proof.
  intros HI Hi Ht Ht'. pose proof (nth_error_lt _ _ _ Hi) as Hil. inv_destruct HI.
  unfold Inv; proj. repeat match goal with |- _ /\ _ => split end; try assumption.
  - intros y. raw. pose proof (releasing_upd (threads s) i t t' y Hi) as E.
    rewrite (thr_ids_idle t Ht), (thr_ids_idle t' Ht') in E. specialize (Htot y). lia.
  - intros j Hj. rewrite upd_length by exact Hil. apply Hho. exact Hj.
  - intros j tj Hj. rewrite nth_error_upd in Hj by exact Hil.
    destruct (Nat.eqb_spec j i) as [->|Hne].
    + injection Hj as <-. destruct (Hth i t Hi) as [A _]. unfold thread_ok; proj. split.
      * split; [intros E; contradiction|]. intros E. apply A in E. contradiction.
      * intros E. contradiction.
    + exact (Hth j tj Hj).
Qed.

Lemma slot_ids_none sz : slot_ids sz (SBuf None) = [].
Proof. reflexivity. Qed.

Lemma Inv_finish_item k sz s i t d b rest :
  Inv k sz s -> nth_error (threads s) i = Some t -> tpc t <> PStore ->
  Inv k sz (finish_item s i t d b rest).
Proof.
  intros HI Hi Ht. unfold finish_item.
  assert (Hpc : tpc {| tpc := match rest with [] => PDone | _ :: _ => PLock end; ttodo := rest;
                       tptr := tptr t; tbid := tbid t; tlt := tlt t |} <> PStore)
    by (cbn [tpc]; destruct rest; discriminate).
  destruct d; [|apply (Inv_thread_idle k sz s i t); assumption].
  destruct (nth_error (bufs s) b) as [[|[p|]]|] eqn:Hb; try (apply (Inv_thread_idle k sz s i t); assumption).
  apply (Inv_thread_idle k sz _ i t); try assumption.
  apply (Inv_set_buf_same k sz s b (SBuf None)); try assumption; try reflexivity.
Qed.

(** Thread [i] takes its ReadBuf's buffer, gets the lock, reads the tail and writes the entry. *)
Lemma Inv_tlock k sz s i t b off len todo' :
  params_ok k sz -> Inv k sz s -> nth_error (threads s) i = Some t -> tpc t <> PStore ->
  holder s = None -> nth_error (bufs s) b = Some (SBuf (Some (off, len))) ->
  Inv k sz (set_thread (rel_write (set_holder (set_buf s b (SBuf None)) (Some i)) off (tail s)) i
              {| tpc := PStore; ttodo := todo'; tptr := off; tbid := rel_id (psz s) off; tlt := tail s |}).
Proof.
  intros Hp HI Hi Ht Hho' Hb. pose proof (nth_error_lt _ _ _ Hi) as Hil.
  assert (Hroom : g_t s - g_h s < pn s).
  { apply (room k sz s (rel_id (psz s) off) HI). pose proof (owned_slot_cnt (psz s) (bufs s) b off len Hb).
    unfold owned. lia. }
  pose proof (fun e i => write_outside_window k sz s e i Hp HI Hroom) as Hout.
  pose proof (fun e => write_at_tail k sz s e Hp HI) as Hat.
  inv_destruct HI.
  assert (Hok : slot_ok sz (SBuf (Some (off, len)))) by (exact (Forall_nth_error _ _ _ _ Hsl Hb)).
  cbn [slot_ok] in Hok. destruct Hok as [Hoff Hlen].
  unfold Inv; proj. repeat match goal with |- _ /\ _ => split end; try assumption.
  - intros j Hj1 Hj2. rewrite Hout by assumption. apply Hent; assumption.
  - intros y. raw.
    rewrite (offered_ring_ext (ring s) _ (pn s) (g_h s) (g_t s) (fun j a c => Hout _ j a c)).
    pose proof (owned_upd (psz s) (bufs s) b _ (SBuf None) y Hb) as E1.
    pose proof (releasing_upd (threads s) i t
      {| tpc := PStore; ttodo := todo'; tptr := off; tbid := rel_id (psz s) off; tlt := tail s |} y Hi) as E2.
    rewrite (thr_ids_idle t Ht) in E2. unfold thr_ids in E2. cbn [tpc tbid slot_ids] in *.
    specialize (Htot y). rewrite Hpsz in *. lia.
  - apply Forall_upd; [assumption|exact I].
  - intros j Hj. injection Hj as <-. rewrite upd_length by exact Hil. exact Hil.
  - intros j tj Hj. rewrite nth_error_upd in Hj by exact Hil.
    destruct (Nat.eqb_spec j i) as [->|Hne].
    + injection Hj as <-. unfold thread_ok; proj. split; [split; reflexivity|].
      intros _. split; [reflexivity|]. split; [rewrite Hpsz; exact Hoff|]. rewrite Hat. reflexivity.
    + destruct (Hth j tj Hj) as [A _]. rewrite Hho' in A. unfold thread_ok; proj. split.
      * split; [intros E; apply A in E; discriminate E|]. intros E. injection E as E. congruence.
      * intros E. apply A in E. discriminate E.
Qed.

Lemma releasing_thread_cnt l i t :
  nth_error l i = Some t -> tpc t = PStore -> (0 < cnt (releasing_of l) (tbid t))%nat.
Proof.
  intros H Ht. pose proof (cnt_flat_map_ge thr_ids l i t (tbid t) H) as G.
  assert (E : thr_ids t = [tbid t]) by (unfold thr_ids; rewrite Ht; reflexivity).
  rewrite E, cnt_one, N.eqb_refl in G. unfold releasing_of. lia.
Qed.

(** Thread [i] stores the tail, unlocks, and lets go of the ReadBuf. *)
Lemma Inv_tstore k sz s i t t' bufs' :
  params_ok k sz -> Inv k sz s -> nth_error (threads s) i = Some t -> tpc t = PStore ->
  tpc t' <> PStore ->
  (forall y, cnt (owned_of sz bufs') y = cnt (owned_of sz (bufs s)) y) -> Forall (slot_ok sz) bufs' ->
  Inv k sz (set_thread (set_bufs (set_holder (rel_store s (tlt t)) None) bufs') i t').
Proof.
  intros Hp HI Hi Ht Ht' Hown Hsl'. pose proof (nth_error_lt _ _ _ Hi) as Hil.
  assert (Hroom : g_t s - g_h s < pn s).
  { apply (room k sz s (tbid t) HI). pose proof (releasing_thread_cnt (threads s) i t Hi Ht).
    unfold releasing. lia. }
  inv_destruct HI. destruct (Hth i t Hi) as [A B]. destruct (B Ht) as (B1 & B2 & B3).
  assert (Hhi : holder s = Some i) by (apply A; exact Ht).
  unfold Inv; proj. repeat match goal with |- _ /\ _ => split end; try assumption; try alia.
  - rewrite B1, Htl. apply add16.
  - intros j Hj1 Hj2. assert (C : j < g_t s \/ j = g_t s) by alia. destruct C as [C|C].
    + apply Hent; assumption.
    + subst j. rewrite B3. unfold entry_ok. cbn [e_addr e_bid e_len]. rewrite Hpsz in *. split; [exact B2|reflexivity].
  - intros y. raw.
    rewrite (offered_push (ring s) (ring s) (pn s) (g_h s) (g_t s) Hle (fun _ _ _ => eq_refl)), B3.
    cbn [e_bid]. rewrite cnt_app, cnt_one.
    pose proof (releasing_upd (threads s) i t t' y Hi) as E.
    rewrite (thr_ids_idle t' Ht') in E. unfold thr_ids in E. rewrite Ht in E. rewrite cnt_one, cnt_nil in E.
    specialize (Htot y). rewrite Hpsz in *. rewrite Hown. lia.
  - intros j Hj. discriminate Hj.
  - intros j tj Hj. rewrite nth_error_upd in Hj by exact Hil.
    destruct (Nat.eqb_spec j i) as [->|Hne].
    + injection Hj as <-. unfold thread_ok; proj. split.
      * split; [intros E; contradiction|discriminate].
      * intros E. contradiction.
    + destruct (Hth j tj Hj) as [A' _]. rewrite Hhi in A'. unfold thread_ok; proj. split.
      * split; [|discriminate]. intros E. apply A' in E. injection E as E. congruence.
      * intros E. apply A' in E. injection E as E. congruence.
Qed.

Lemma releasing_spawn progs : releasing_of (map mk_thread progs) = [].
Proof.
  unfold releasing_of. induction progs as [|p l IH]; [reflexivity|].
  cbn [map flat_map]. rewrite IH. unfold thr_ids, mk_thread. cbn [tpc]. destruct p; reflexivity.
Qed.

Lemma holder_none_no_threads k sz s : Inv k sz s -> threads s = [] -> holder s = None.
Proof.
  intros HI E. inv_destruct HI. destruct (holder s) as [i|] eqn:Eh; [|reflexivity].
  specialize (Hho i eq_refl). rewrite E in Hho. cbn [length] in Hho. lia.
Qed.

Lemma Inv_spawn k sz s progs :
  Inv k sz s -> threads s = [] -> Inv k sz (set_threads s (map mk_thread progs)).
Proof.
  intros HI E. pose proof (holder_none_no_threads k sz s HI E) as Hn. inv_destruct HI.
  unfold Inv; proj. repeat match goal with |- _ /\ _ => split end; try assumption.
  - intros y. specialize (Htot y). raw. rewrite releasing_spawn. rewrite E in Htot. exact Htot.
  - intros i Hi. rewrite Hn in Hi. discriminate Hi.
  - intros i t Hi. rewrite nth_error_map in Hi. destruct (nth_error progs i) as [p|]; [|discriminate Hi].
    injection Hi as <-. unfold thread_ok; proj. rewrite Hn.
    assert (Hpc : match p with [] => PDone | _ :: _ => PLock end <> PStore) by (destruct p; discriminate).
    split; [split; [intros X; contradiction|discriminate]|intros X; contradiction].
Qed.

Lemma releasing_done l : forallb thread_done l = true -> releasing_of l = [].
Proof.
  unfold releasing_of. induction l as [|t l IH]; [reflexivity|].
  cbn [forallb flat_map]. intros H. apply andb_true_iff in H. destruct H as [H1 H2].
  rewrite (IH H2), app_nil_r. unfold thread_done in H1. unfold thr_ids. destruct (tpc t); try discriminate; reflexivity.
Qed.

Lemma Inv_join k sz s :
  Inv k sz s -> forallb thread_done (threads s) = true -> Inv k sz (set_threads s []).
Proof.
  intros HI Hd. inv_destruct HI.
  assert (Hn : holder s = None).
  { destruct (holder s) as [i|] eqn:Eh; [|reflexivity]. exfalso.
    specialize (Hho i eq_refl). destruct (nth_error (threads s) i) as [t|] eqn:Hi;
      [|apply nth_error_None in Hi; lia].
    destruct (Hth i t Hi) as [A _]. apply A in Eh.
    pose proof (proj1 (forallb_forall _ _) Hd t (nth_error_In _ _ Hi)) as D.
    unfold thread_done in D. rewrite Eh in D. discriminate D. }
  unfold Inv; proj. repeat match goal with |- _ /\ _ => split end; try assumption.
  - intros y. specialize (Htot y). raw. rewrite (releasing_done _ Hd) in Htot. exact Htot.
  - intros i Hi. rewrite Hn in Hi. discriminate Hi.
  - intros i t Hi. destruct i; discriminate Hi.
Qed.

Lemma cres_ok_app sz q c : Forall (cres_ok sz) q -> cres_ok sz c -> Forall (cres_ok sz) (q ++ [c]).
Proof. intros H Hc. apply Forall_app. split; [exact H|]. constructor; [exact Hc|constructor]. Qed.

(** Every event keeps the invariant. *)
Lemma Inv_step_reg k sz s e : params_ok k sz -> Inv k sz s -> Inv k sz (fst (step_reg s e)).
Proof.
  intros Hp HI. destruct e as [o kd c|o len|o| |o b|o|b nl|b|b| |progs|i| ]; unfold step_reg; cbn [step_reg_with].
  - (* Start *)
    destruct (nth_error (ops s) o) as [x|] eqn:Ho; [|exact HI].
    destruct (handle s && op_free x) eqn:Hf; [|exact HI]. cbn [fst].
    apply andb_true_iff in Hf. destruct Hf as [_ Hf].
    apply (Inv_set_op k sz (settle s) o (settle_op x)).
    + apply Inv_settle. exact HI.
    + rewrite nth_error_settle, Ho. reflexivity.
    + intros y. cbn [oqueue settle_op]. rewrite (op_free_queue x Hf). reflexivity.
    + constructor.
  - (* KPick *)
    destruct (nth_error (ops s) o) as [x|] eqn:Ho; [|exact HI].
    destruct (kalive x); [|exact HI].
    destruct (N.eqb_spec (khead s) (tail s)) as [He|Hne]; cbn [fst].
    + apply (Inv_set_op k sz s o x); try assumption.
      * intros y. cbn [oqueue with_k]. destruct (oust x); try reflexivity.
        rewrite cbufs_app, cnt_app. cbn. lia.
      * pose proof HI as HI'. inv_destruct HI'. pose proof (queues_nth sz _ o x Hq Ho) as Hqx.
        cbn [oqueue with_k]. destruct (oust x); try assumption. apply cres_ok_app; [assumption|exact I].
    + pose proof (ghost_lt k sz s Hp HI Hne) as Hlt.
      pose proof (head_slot k sz s Hp HI) as Hslot.
      pose proof HI as HI'. inv_destruct HI'. pose proof (queues_nth sz _ o x Hq Ho) as Hqx.
      assert (Hlen : N.min len (e_len (ring s (N.land (khead s) (pn s - 1)))) <= sz).
      { rewrite Hslot. destruct (Hent (g_h s) ltac:(lia) Hlt) as [_ E]. rewrite E. lia. }
      destruct (oust x) eqn:Hu; cbn [fst];
        try (apply (Inv_pick k sz s o x); try assumption;
             intros y; proj; rewrite cnt_app; lia).
      (* ULive: the completion is queued *)
      replace (set_op (set_khead s (wadd16 (khead s) 1) (g_h s + 1)) o
                 (with_k x (is_multi (okind x))
                    (oqueue x ++ [CBuf (e_bid (ring s (N.land (khead s) (pn s - 1))))
                                       (N.min len (e_len (ring s (N.land (khead s) (pn s - 1)))))])))
        with (set_lost (set_op (set_khead s (wadd16 (khead s) 1) (g_h s + 1)) o
                 (with_k x (is_multi (okind x))
                    (oqueue x ++ [CBuf (e_bid (ring s (N.land (khead s) (pn s - 1))))
                                       (N.min len (e_len (ring s (N.land (khead s) (pn s - 1)))))]))) (lost s))
        by reflexivity.
      apply (Inv_pick k sz s o x); try assumption.
      * intros y. rewrite cbufs_app, cnt_app. cbn [cbufs flat_map app]. lia.
      * apply cres_ok_app; [assumption|exact Hlen].
  - (* KEof *)
    destruct (nth_error (ops s) o) as [x|] eqn:Ho; [|exact HI].
    destruct (kalive x); [|exact HI]. cbn [fst].
    apply (Inv_set_op k sz s o x); try assumption.
    + intros y. cbn [oqueue with_k]. destruct (oust x); try reflexivity.
      rewrite cbufs_app, cnt_app. cbn. lia.
    + pose proof HI as HI'. inv_destruct HI'. pose proof (queues_nth sz _ o x Hq Ho) as Hqx.
      cbn [oqueue with_k]. destruct (oust x); try assumption. apply cres_ok_app; [assumption|exact I].
  - (* RingPoll *) apply Inv_settle. exact HI.
  - (* Deliver *)
    pose proof (Inv_settle k sz s HI) as HS. set (s1 := settle s) in *.
    assert (Eps : psz s = psz s1) by reflexivity. clearbody s1. rewrite Eps.
    destruct (nth_error (ops s1) o) as [x|] eqn:Ho; [|exact HS].
    destruct (oust x) eqn:Hu; try exact HS.
    pose proof HS as HS'. inv_destruct HS'. pose proof (queues_nth sz _ o x Hq Ho) as Hqx.
    destruct (oqueue x) as [|c r] eqn:Hqe.
    + destruct (is_multi (okind x) && negb (kalive x)); [|exact HS]. cbn [fst].
      apply (Inv_set_op k sz s1 o x); try assumption.
      intros y. cbn [oqueue with_u]. rewrite Hqe. reflexivity.
    + pose proof (Forall_inv Hqx) as Hc. pose proof (Forall_inv_tail Hqx) as Hr.
      set (x' := match okind x with Single => with_u x r UDone false | Multi => with_u x r ULive (oref x) end).
      assert (Hx'q : oqueue x' = r) by (unfold x'; destruct (okind x); reflexivity).
      destruct c as [bid l| |].
      * destruct (nth_error (bufs s1) b) as [[|w]|] eqn:Hb; try exact HS. cbn [fst].
        assert (Hbid : bid < pn s1).
        { apply (queued_id_bound k sz s1 o x bid l HS Ho). rewrite Hqe. left. reflexivity. }
        destruct Hp as [Hk Hsz]. pose proof (pow_le_15 k Hk) as Hn.
        assert (Hrid : rel_id sz (bid * sz) = bid) by (apply rel_id_mul; [exact Hsz|unfold two16; lia]).
        apply (Inv_deliver k sz s1 o x x' b); try assumption.
        -- intros y. rewrite Hx'q, Hqe, Hpsz. cbn [slot_ids cbufs flat_map app]. rewrite Hrid.
           rewrite cnt_one, cnt_cons. fold (cbufs r). lia.
        -- rewrite Hx'q. exact Hr.
        -- rewrite Hpsz. cbn [slot_ok]. rewrite Hrid. split; [reflexivity|exact Hc].
      * cbn [fst]. apply (Inv_set_op k sz s1 o x); try assumption.
        -- intros y. rewrite Hx'q, Hqe. reflexivity.
        -- rewrite Hx'q. exact Hr.
      * destruct (nth_error (bufs s1) b) as [[|w]|] eqn:Hb; try exact HS. cbn [fst].
        apply (Inv_deliver k sz s1 o x x' b); try assumption.
        -- intros y. rewrite Hx'q, Hqe. cbn [slot_ids cbufs flat_map app]. rewrite cnt_nil. fold (cbufs r). lia.
        -- rewrite Hx'q. exact Hr.
  - (* DropOp *)
    destruct (nth_error (ops s) o) as [x|] eqn:Ho; [|exact HI].
    destruct (oust x) eqn:Hu; try exact HI. cbn [fst].
    apply (Inv_op_lost k sz s o x); try assumption.
    + intros y. cbn [oqueue]. rewrite cnt_app. cbn. lia.
    + constructor.
  - (* Edit *)
    destruct (nth_error (bufs s) b) as [[|[[off len]|]]|] eqn:Hb; try exact HI.
    destruct (N.leb_spec nl (psz s)) as [Hnl|Hnl]; [|exact HI]. cbn [fst].
    pose proof HI as HI'. inv_destruct HI'.
    pose proof (Forall_nth_error _ _ _ _ Hsl Hb) as Hok. cbn [slot_ok] in Hok.
    apply (Inv_set_buf_same k sz s b (SBuf (Some (off, len)))); try assumption; try reflexivity.
    cbn [slot_ok]. split; [apply Hok|lia].
  - (* Release *)
    destruct (nth_error (bufs s) b) as [[|[[off len]|]]|] eqn:Hb; try exact HI.
    destruct (holder s) eqn:Hh; [exact HI|]. cbn [fst].
    apply (Inv_release k sz s b off len); try assumption; try reflexivity.
  - (* DropBuf *)
    destruct (nth_error (bufs s) b) as [[|[[off len]|]]|] eqn:Hb; try exact HI.
    + destruct (holder s) eqn:Hh; [exact HI|]. cbn [fst].
      apply (Inv_release k sz s b off len); try assumption; try reflexivity.
    + cbn [fst]. apply (Inv_set_buf_same k sz s b (SBuf None)); try assumption; try reflexivity.
  - (* PoolDrop *)
    cbn [fst]. apply (Inv_ext k sz s); try reflexivity. exact HI.
  - (* Spawn *)
    destruct (threads s) eqn:Et; [|exact HI]. cbn [fst]. apply Inv_spawn; assumption.
  - (* T *)
    destruct (nth_error (threads s) i) as [t|] eqn:Hi; [|exact HI].
    destruct (tpc t) eqn:Epc.
    + (* PLock *)
      destruct (ttodo t) as [|[d b] rest] eqn:Etd; cbn [fst].
      * apply (Inv_thread_idle k sz s i t); try assumption; [congruence|discriminate].
      * destruct (nth_error (bufs s) b) as [[|[[off len]|]]|] eqn:Hb; cbn [fst];
          try (apply Inv_finish_item; try assumption; congruence).
        destruct (holder s) eqn:Hh; cbn [fst].
        -- apply (Inv_thread_idle k sz s i t); try assumption; [congruence|discriminate].
        -- apply (Inv_tlock k sz s i t b off len); try assumption. congruence.
    + (* PSpin *)
      destruct (ttodo t) as [|[d b] rest] eqn:Etd; cbn [fst].
      * apply (Inv_thread_idle k sz s i t); try assumption; [congruence|discriminate].
      * destruct (nth_error (bufs s) b) as [[|[[off len]|]]|] eqn:Hb; cbn [fst];
          try (apply Inv_finish_item; try assumption; congruence).
        destruct (holder s) eqn:Hh; cbn [fst].
        -- apply (Inv_thread_idle k sz s i t); try assumption; [congruence|discriminate].
        -- apply (Inv_tlock k sz s i t b off len); try assumption. congruence.
    + (* PStore *)
      pose proof HI as HI'. inv_destruct HI'.
      destruct (ttodo t) as [|[d b] rest] eqn:Etd; cbn [fst].
      * apply (Inv_ext k sz (set_thread (set_bufs (set_holder (rel_store s (tlt t)) None) (bufs s)) i (with_pc t PDone)));
          try reflexivity.
        apply (Inv_tstore k sz s i t); try assumption; [discriminate|reflexivity].
      * unfold finish_item.
        set (t' := {| tpc := match rest with [] => PDone | _ :: _ => PLock end; ttodo := rest;
                      tptr := tptr t; tbid := tbid t; tlt := tlt t |}).
        assert (Ht' : tpc t' <> PStore) by (unfold t'; cbn [tpc]; destruct rest; discriminate).
        assert (Hplain : Inv k sz (set_thread (set_holder (rel_store s (tlt t)) None) i t')).
        { apply (Inv_ext k sz (set_thread (set_bufs (set_holder (rel_store s (tlt t)) None) (bufs s)) i t'));
            try reflexivity.
          apply (Inv_tstore k sz s i t); try assumption. reflexivity. }
        destruct d; [|exact Hplain].
        change (nth_error (bufs (set_holder (rel_store s (tlt t)) None)) b) with (nth_error (bufs s) b).
        destruct (nth_error (bufs s) b) as [[|[p|]]|] eqn:Hb; try exact Hplain.
        apply (Inv_ext k sz (set_thread (set_bufs (set_holder (rel_store s (tlt t)) None) (upd (bufs s) b SEmpty)) i t'));
          try reflexivity.
        apply (Inv_tstore k sz s i t); try assumption.
        -- intros y. pose proof (owned_upd sz (bufs s) b (SBuf None) SEmpty y Hb) as E.
           cbn [slot_ids] in E. lia.
        -- apply Forall_upd; [assumption|exact I].
    + (* PDone *) exact HI.
  - (* Join *)
    destruct (forallb thread_done (threads s)) eqn:Hd; [|exact HI]. cbn [fst]. apply Inv_join; assumption.
Qed.

Lemma Inv_step k sz s e : params_ok k sz -> Inv k sz s -> Inv k sz (fst (step s e)).
Proof.
  intros Hp HI. unfold step, step_with. fold step_reg. destruct (registered s); [|exact HI].
  pose proof (Inv_step_reg k sz s e Hp HI) as H. destruct (step_reg s e) as [s' o]. cbn [fst] in *.
  apply (Inv_ext k sz s'); try reflexivity. exact H.
Qed.

Lemma Inv_step_obs k sz s e : params_ok k sz -> Inv k sz s -> Inv k sz (fst (step_obs s e)).
Proof.
  intros Hp HI. unfold step_obs. pose proof (Inv_step k sz s e Hp HI) as H.
  destruct (step s e) as [s' o]. exact H.
Qed.

Lemma Inv_run_body k sz : params_ok k sz -> forall es s h, Inv k sz s -> Inv k sz (fst (run_body s h es)).
Proof.
  intros Hp es. induction es as [|e es IH]; intros s h HI; cbn [run_body].
  - exact HI.
  - pose proof (Inv_step k sz s e Hp HI) as H. destruct (step s e) as [s' o]. apply IH. exact H.
Qed.

Lemma Inv_exec_ev k sz s e : params_ok k sz -> Inv k sz s -> Inv k sz (fst (exec_ev s e)).
Proof.
  intros Hp HI. destruct e as [b|n body]; cbn [exec_ev].
  - apply Inv_step_obs; assumption.
  - pose proof (N.iter_invariant n (pool * Z) (fun sh => run_body (fst sh) (snd sh) body)
                  (fun sh => Inv k sz (fst sh))) as H.
    specialize (H (fun sh Hsh => Inv_run_body k sz Hp body (fst sh) (snd sh) Hsh) (s, 0%Z) HI).
    destruct (N.iter n _ (s, 0%Z)) as [s' h]. exact H.
Qed.

(** [ReadBufPool::new]: every buffer is offered. *)
Lemma offered_init n sz c : forall a, a + N.of_nat c <= n ->
  map (fun i => e_bid (init_ring n sz (i mod n))) (gseq a c) = gseq a c.
Proof.
  induction c as [|c IH]; intros a Ha; cbn [gseq map]; [reflexivity|].
  rewrite IH by lia. rewrite N.mod_small by lia. rewrite init_ring_spec by lia. reflexivity.
Qed.

Lemma gseq_iota : forall c a, gseq a c = map (fun j => a + N.of_nat j) (seq 0 c).
Proof.
  induction c as [|c IH]; intros a; [reflexivity|].
  cbn [gseq seq map]. rewrite N.add_0_r. f_equal. rewrite IH, <- seq_shift, map_map.
  apply map_ext. intros j. lia.
Qed.

Lemma Inv_init k sz nops nbufs : params_ok k sz -> Inv k sz (init k sz nops nbufs).
Proof.
  intros [Hk Hsz]. pose proof (pow_le_15 k Hk) as Hn. pose proof (pow_pos k) as Hn0.
  unfold Inv, init; proj. repeat match goal with |- _ /\ _ => split end; try reflexivity; try lia.
  - rewrite N.mod_small by (unfold two16; lia). reflexivity.
  - intros i _ Hi. rewrite N.mod_small by lia. rewrite init_ring_spec by lia.
    unfold entry_ok. cbn [e_addr e_bid e_len]. split; reflexivity.
  - intros x. unfold total, offered, transit, owned, releasing; proj.
    unfold offered_of. rewrite N.sub_0_r, (offered_init (2 ^ k) sz) by lia.
    replace (transit_of (repeat op0 nops)) with (@nil N).
    2:{ unfold transit_of. induction nops as [|m IH]; [reflexivity|]. cbn [repeat flat_map]. rewrite <- IH. reflexivity. }
    replace (owned_of sz (repeat SEmpty nbufs)) with (@nil N).
    2:{ unfold owned_of. induction nbufs as [|m IH]; [reflexivity|]. cbn [repeat flat_map]. rewrite <- IH. reflexivity. }
    cbn [releasing_of flat_map]. rewrite !cnt_nil.
    replace (gseq 0 (N.to_nat (2 ^ k))) with (iota (2 ^ k)).
    2:{ rewrite gseq_iota. unfold iota. apply map_ext. intros j. lia. }
    rewrite cnt_iota. lia.
  - apply Forall_forall. intros x Hx. apply repeat_spec in Hx. subst x. exact I.
  - apply Forall_forall. intros x Hx. apply repeat_spec in Hx. subst x. constructor.
  - intros i Hi. discriminate Hi.
  - intros i t Hi. destruct i; discriminate Hi.
Qed.

Definition reach (k sz : N) (nops nbufs : nat) (es : list ev) : pool :=
  fst (run exec_ev (init k sz nops nbufs) es).

Lemma Inv_reach k sz nops nbufs es : params_ok k sz -> Inv k sz (reach k sz nops nbufs es).
Proof.
  intros Hp. unfold reach. apply (run_invariant exec_ev (Inv k sz)).
  - intros s e. apply Inv_exec_ev. exact Hp.
  - apply Inv_init. exact Hp.
Qed.

(** * Consequences of the invariant *)

Lemma partition_of_inv k sz s :
  Inv k sz s -> Permutation (all_ids s) (iota (2 ^ k)) /\ NoDup (all_ids s).
Proof.
  intros HI. inv_destruct HI.
  assert (P : Permutation (all_ids s) (iota (2 ^ k))).
  { apply (Permutation_count_occ N.eq_dec). intros x.
    fold (cnt (all_ids s) x). fold (cnt (iota (2 ^ k)) x). rewrite cnt_iota, <- Hpn, <- Htot.
    unfold all_ids, total. rewrite !cnt_app. lia. }
  split; [exact P|]. apply (Permutation_NoDup (Permutation_sym P)). apply NoDup_iota.
Qed.

Lemma NoDup_app_r {A} (l1 l2 : list A) : NoDup (l1 ++ l2) -> NoDup l2.
Proof. induction l1 as [|a l1 IH]; [auto|]. cbn [app]. intros H. inversion H; subst. auto. Qed.

Lemma NoDup_app_l {A} (l1 l2 : list A) : NoDup (l1 ++ l2) -> NoDup l1.
Proof.
  induction l1 as [|a l1 IH]; [constructor|]. cbn [app]. intros H. inversion H as [|? ? Hn Hd]; subst.
  constructor; [|auto]. intros Hin. apply Hn. apply in_or_app. left. exact Hin.
Qed.

(** Two different places never hold ReadBufs of the same buffer. *)
Lemma cnt_flat_map_two {A} (f : A -> list N) (l : list A) i j a b (e : A) y :
  f e = [] -> nth_error l i = Some a -> nth_error l j = Some b -> i <> j ->
  (cnt (f a) y + cnt (f b) y <= cnt (flat_map f l) y)%nat.
Proof.
  intros He Hi Hj Hne.
  pose proof (cnt_flat_map_upd f l i a e y Hi) as E. rewrite He, cnt_nil in E.
  assert (Hj' : nth_error (upd l i e) j = Some b).
  { rewrite nth_error_upd by (eapply nth_error_lt; exact Hi).
    destruct (Nat.eqb_spec j i); [congruence|exact Hj]. }
  pose proof (cnt_flat_map_ge f (upd l i e) j b y Hj') as G. lia.
Qed.

Lemma total_le_one k sz s x : Inv k sz s -> (total s x <= 1)%nat.
Proof. intros HI. inv_destruct HI. rewrite Htot. destruct (x <? pn s); lia. Qed.

Lemma live_bufs_distinct k sz s b1 b2 off1 len1 off2 len2 :
  Inv k sz s -> b1 <> b2 ->
  nth_error (bufs s) b1 = Some (SBuf (Some (off1, len1))) ->
  nth_error (bufs s) b2 = Some (SBuf (Some (off2, len2))) ->
  rel_id sz off1 <> rel_id sz off2 /\ (off1 + sz <= off2 \/ off2 + sz <= off1).
Proof.
  intros HI Hne H1 H2. pose proof (total_le_one k sz s (rel_id sz off1) HI) as T.
  pose proof HI as HI'. inv_destruct HI'.
  assert (D : rel_id sz off1 <> rel_id sz off2).
  { intros E.
    pose proof (cnt_flat_map_two (slot_ids sz) (bufs s) b1 b2 _ _ SEmpty (rel_id sz off1) eq_refl H1 H2 Hne) as G.
    cbn [slot_ids] in G. rewrite !cnt_one, <- E, N.eqb_refl in G.
    unfold total, owned, owned_of in T. rewrite Hpsz in T. lia. }
  split; [exact D|].
  pose proof (Forall_nth_error _ _ _ _ Hsl H1) as O1. pose proof (Forall_nth_error _ _ _ _ Hsl H2) as O2.
  cbn [slot_ok] in O1, O2. destruct O1 as [O1 _]. destruct O2 as [O2 _]. rewrite O1, O2.
  apply bufs_disjoint. exact D.
Qed.

(** What the kernel's 16-bit walk from its head to the tail sees is the ghost window. *)
Lemma window_from_ghost k s : k <= 15 -> pn s = 2 ^ k -> tail s = g_t s mod two16 ->
  forall fuel gh, gh <= g_t s -> g_t s - gh <= 32768 -> (N.to_nat (g_t s - gh) < fuel)%nat ->
  window_from fuel s (gh mod two16) = map (fun i => ring s (i mod pn s)) (gseq gh (N.to_nat (g_t s - gh))).
Proof.
  intros Hk Hpn Htl fuel. induction fuel as [|f IH]; intros gh H1 H2 H3; [lia|].
  cbn [window_from]. destruct (N.eqb_spec (gh mod two16) (tail s)) as [E|E].
  - rewrite Htl in E. apply eq16 in E; [|lia|unfold two16; lia]. subst gh.
    rewrite N.sub_diag. reflexivity.
  - assert (Hlt : gh < g_t s).
    { destruct (N.eq_dec gh (g_t s)) as [e|e]; [|lia]. exfalso. apply E. rewrite Htl, e. reflexivity. }
    replace (N.to_nat (g_t s - gh)) with (S (N.to_nat (g_t s - (gh + 1)))) by lia.
    cbn [gseq map]. rewrite add16, IH by lia.
    rewrite Hpn, mask16, slot16 by lia. reflexivity.
Qed.

Lemma window_ghost k sz s : params_ok k sz -> Inv k sz s ->
  window s = map (fun i => ring s (i mod pn s)) (gseq (g_h s) (N.to_nat (g_t s - g_h s))).
Proof.
  intros [Hk _] HI. inv_destruct HI. pose proof (pow_le_15 k Hk). unfold window. rewrite Hkh.
  apply (window_from_ghost k s Hk Hpn Htl); lia.
Qed.

Lemma offered_is_window k sz s : params_ok k sz -> Inv k sz s -> offered s = map e_bid (window s).
Proof.
  intros Hp HI. rewrite (window_ghost k sz s Hp HI), map_map. reflexivity.
Qed.

(** * Statements *)

(** At every moment every buffer id is in exactly one of: offered to the kernel, in transit,
    owned by exactly one live ReadBuf, being released by exactly one thread, or lost by the
    known class; in particular never offered and owned at once and never owned twice, the
    buffers of two live ReadBufs do not overlap, and the buffer the kernel would pick next
    overlaps no live ReadBuf. *)
Definition pool_partition_invariant : Prop :=
  forall k sz nops nbufs es, params_ok k sz ->
    let s := reach k sz nops nbufs es in
    let n := 2 ^ k in
    Inv k sz s
    /\ Permutation (offered s ++ transit s ++ owned s ++ releasing s ++ lost s) (iota n)
    /\ NoDup (offered s ++ transit s ++ owned s ++ releasing s ++ lost s)
    /\ (forall id, id < n ->
          (cnt (offered s) id + cnt (transit s) id + cnt (owned s) id + cnt (releasing s) id
           + cnt (lost s) id = 1)%nat)
    /\ (forall id, In id (offered s) -> ~ In id (owned s))
    /\ NoDup (owned s)
    /\ (forall b1 b2 off1 len1 off2 len2, b1 <> b2 ->
          nth_error (bufs s) b1 = Some (SBuf (Some (off1, len1))) ->
          nth_error (bufs s) b2 = Some (SBuf (Some (off2, len2))) ->
          off1 + sz <= off2 \/ off2 + sz <= off1)
    /\ (khead s <> tail s ->
          let e := ring s (N.land (khead s) (n - 1)) in
          In (e_bid e) (offered s) /\ e_addr e = e_bid e * sz /\ e_len e = sz
          /\ forall b off len, nth_error (bufs s) b = Some (SBuf (Some (off, len))) ->
               off + sz <= e_addr e \/ e_addr e + sz <= off).

(** The slot a release writes, [tail & mask], is outside the window [head, tail): whenever
    some ReadBuf owns a buffer (or a thread is in the middle of a release) fewer than [n]
    entries are offered. *)
Definition ring_slot_free_on_release : Prop :=
  forall k sz s, params_ok k sz -> Inv k sz s ->
    (owned s <> [] \/ releasing s <> []) ->
    g_t s - g_h s < 2 ^ k
    /\ forall j, g_h s <= j -> j < g_t s -> j mod 2 ^ k <> N.land (tail s) (2 ^ k - 1).

(** The id [release] recomputes from the pointer is the id the buffer was delivered with,
    whatever edits happened in between: the arithmetic, the edits leave the pointer alone, a
    delivered ReadBuf points at [id * size], and in every reachable state every owning ReadBuf
    points at the start of the buffer whose id [release] will compute. *)
Definition slot_ptr (s : pool) (b : nat) : option N :=
  match nth_error (bufs s) b with Some (SBuf (Some (off, _))) => Some off | _ => None end.
Definition is_edit (e : bev) : Prop := match e with Edit _ _ => True | _ => False end.

Definition release_returns_own_id : Prop :=
  (forall sz id, 0 < sz -> id < two16 -> rel_id sz (id * sz) = id)
  /\ (forall s b edits, Forall is_edit edits -> slot_ptr (fst (run step s edits)) b = slot_ptr s b)
  /\ (forall s o b x bid l r, registered s = true ->
        nth_error (ops (settle s)) o = Some x -> oust x = ULive -> oqueue x = CBuf bid l :: r ->
        nth_error (bufs s) b = Some SEmpty ->
        nth_error (bufs (fst (step s (Deliver o b)))) b = Some (SBuf (Some (bid * psz s, l))))
  /\ (forall k sz nops nbufs es, params_ok k sz ->
        let s := reach k sz nops nbufs es in
        forall b off len, nth_error (bufs s) b = Some (SBuf (Some (off, len))) ->
          rel_id sz off < 2 ^ k /\ off = rel_id sz off * sz /\ len <= sz /\ In (rel_id sz off) (owned s)).

(** Head and tail are 16-bit values that wrap; they stay related to the unbounded counts of
    published and consumed entries modulo 2^16, at most [n <= 2^15] apart, so that the
    wrapping subtraction, the kernel's emptiness test and the slot computations are exact, and
    what the kernel reads between head and tail is the ghost window. For histories of any
    length. *)
Definition tail_wrap_safe : Prop :=
  forall k sz nops nbufs es, params_ok k sz ->
    let s := reach k sz nops nbufs es in
    let n := 2 ^ k in
    tail s = g_t s mod two16 /\ khead s = g_h s mod two16
    /\ g_h s <= g_t s /\ g_t s - g_h s <= n /\ n <= 32768
    /\ wsub16 (tail s) (khead s) = g_t s - g_h s
    /\ (khead s = tail s <-> g_h s = g_t s)
    /\ N.land (tail s) (n - 1) = g_t s mod n /\ N.land (khead s) (n - 1) = g_h s mod n
    /\ window s = map (fun i => ring s (i mod n)) (gseq (g_h s) (N.to_nat (g_t s - g_h s)))
    /\ offered s = map e_bid (window s).

(** Once no ReadBuf owns a buffer, nothing is in transit or being released, and no id is in
    the lost class, the kernel can use every buffer of the pool. *)
Definition all_available_when_quiescent : Prop :=
  forall k sz s, params_ok k sz -> Inv k sz s ->
    owned s = [] -> transit s = [] -> releasing s = [] -> lost s = [] ->
    Permutation (offered s) (iota (2 ^ k)) /\ g_t s - g_h s = 2 ^ k
    /\ Permutation (map e_bid (window s)) (iota (2 ^ k)).

(** * Proofs of the statements *)

Lemma kernel_pick_target k sz s : params_ok k sz -> Inv k sz s -> khead s <> tail s ->
  let e := ring s (N.land (khead s) (2 ^ k - 1)) in
  In (e_bid e) (offered s) /\ e_addr e = e_bid e * sz /\ e_len e = sz
  /\ forall b off len, nth_error (bufs s) b = Some (SBuf (Some (off, len))) ->
       off + sz <= e_addr e \/ e_addr e + sz <= off.
Proof.
  intros Hp HI Hne. cbv zeta.
  pose proof (ghost_lt k sz s Hp HI Hne) as Hlt. pose proof (head_slot k sz s Hp HI) as Hslot.
  pose proof (total_le_one k sz s) as T.
  pose proof HI as HI'. inv_destruct HI'. rewrite Hpn in Hslot. rewrite Hslot.
  assert (Hin : In (e_bid (ring s (g_h s mod 2 ^ k))) (offered s)).
  { unfold offered. rewrite (offered_pick _ _ _ _ Hlt), Hpn. left. reflexivity. }
  destruct (Hent (g_h s) ltac:(lia) Hlt) as [Ea El]. rewrite Hpn in Ea, El.
  split; [exact Hin|]. split; [exact Ea|]. split; [exact El|].
  intros b off len Hb. pose proof (Forall_nth_error _ _ _ _ Hsl Hb) as O. cbn [slot_ok] in O.
  destruct O as [O _]. rewrite Ea, O. apply bufs_disjoint. intros E.
  specialize (T (e_bid (ring s (g_h s mod 2 ^ k))) HI). unfold total in T.
  apply cnt_pos_in in Hin. pose proof (owned_slot_cnt sz (bufs s) b off len Hb) as G.
  rewrite E in G. unfold owned in T. rewrite Hpsz in T. lia.
Qed.

Lemma pool_partition_invariant_holds : pool_partition_invariant.
Proof.
  intros k sz nops nbufs es Hp. cbv zeta.
  pose proof (Inv_reach k sz nops nbufs es Hp) as HI. set (s := reach k sz nops nbufs es) in *. clearbody s.
  destruct (partition_of_inv k sz s HI) as [P ND]. unfold all_ids in P, ND.
  pose proof (total_le_one k sz s) as T.
  split; [exact HI|]. split; [exact P|]. split; [exact ND|].
  split; [|split; [|split; [|split]]].
  - intros id Hid. pose proof HI as HI'. inv_destruct HI'. specialize (Htot id). unfold total in Htot.
    rewrite Hpn in Htot. destruct (N.ltb_spec id (2 ^ k)); [exact Htot|lia].
  - intros id H1 H2. apply cnt_pos_in in H1. apply cnt_pos_in in H2.
    specialize (T id HI). unfold total in T. lia.
  - apply NoDup_app_r in ND. apply NoDup_app_r in ND. apply NoDup_app_l in ND. exact ND.
  - intros b1 b2 off1 len1 off2 len2 Hne H1 H2.
    exact (proj2 (live_bufs_distinct k sz s b1 b2 off1 len1 off2 len2 HI Hne H1 H2)).
  - apply kernel_pick_target; assumption.
Qed.

Lemma ring_slot_free_on_release_holds : ring_slot_free_on_release.
Proof.
  intros k sz s Hp HI Hsome.
  assert (Hroom : g_t s - g_h s < pn s).
  { destruct Hsome as [H|H].
    - destruct (owned s) as [|x l] eqn:E; [contradiction|].
      apply (room k sz s x HI). rewrite E, cnt_cons, N.eqb_refl. lia.
    - destruct (releasing s) as [|x l] eqn:E; [contradiction|].
      apply (room k sz s x HI). rewrite E, cnt_cons, N.eqb_refl. lia. }
  pose proof (tail_slot k sz s Hp HI) as Hslot. inv_destruct HI. rewrite Hpn in *.
  split; [exact Hroom|]. intros j Hj1 Hj2. rewrite Hslot.
  apply slots_distinct; [apply pow_pos|lia|lia].
Qed.

Lemma slot_ptr_edit s b b' nl : slot_ptr (fst (step s (Edit b' nl))) b = slot_ptr s b.
Proof.
  unfold step, step_with. fold step_reg. destruct (registered s); [|reflexivity]. unfold step_reg; cbn [step_reg_with].
  destruct (nth_error (bufs s) b') as [[|[[off len]|]]|] eqn:Hb; try reflexivity.
  destruct (nl <=? psz s); [|reflexivity]. cbn [fst]. unfold slot_ptr; proj.
  rewrite nth_error_upd by (eapply nth_error_lt; exact Hb).
  destruct (Nat.eqb_spec b b') as [->|Hne]; [|reflexivity]. rewrite Hb. reflexivity.
Qed.

Lemma release_returns_own_id_holds : release_returns_own_id.
Proof.
  split; [exact rel_id_mul|]. split; [|split].
  - intros s b edits. revert s. induction edits as [|e edits IH]; intros s H; [reflexivity|].
    inversion H as [|? ? He Hr]; subst. cbn [run].
    destruct e; try contradiction.
    pose proof (slot_ptr_edit s b b0 newlen) as E. destruct (step s (Edit b0 newlen)) as [s1 o1].
    cbn [fst] in E. specialize (IH s1 Hr). destruct (run step s1 edits) as [s2 o2]. cbn [fst] in *.
    rewrite IH. exact E.
  - intros s o b x bid l r Hreg Ho Hu Hq Hb. unfold step, step_with. rewrite Hreg. cbn [step_reg_with].
    rewrite Ho, Hu, Hq.
    change (nth_error (bufs (settle s)) b) with (nth_error (bufs s) b). rewrite Hb. cbn [fst]; proj.
    rewrite nth_error_upd by (eapply nth_error_lt; exact Hb). rewrite Nat.eqb_refl. reflexivity.
  - intros k sz nops nbufs es Hp. cbv zeta.
    pose proof (Inv_reach k sz nops nbufs es Hp) as HI. set (s := reach k sz nops nbufs es) in *. clearbody s.
    intros b off len Hb. pose proof HI as HI'. inv_destruct HI'.
    pose proof (Forall_nth_error _ _ _ _ Hsl Hb) as O. cbn [slot_ok] in O. destruct O as [O1 O2].
    pose proof (owned_slot_cnt sz (bufs s) b off len Hb) as G.
    assert (Hin : In (rel_id sz off) (owned s)) by (apply cnt_pos_in; unfold owned; rewrite Hpsz; exact G).
    split; [|split; [exact O1|split; [exact O2|exact Hin]]].
    rewrite <- Hpn. apply (id_bound k sz s _ HI). unfold total, owned. rewrite Hpsz. lia.
Qed.

Lemma tail_wrap_safe_holds : tail_wrap_safe.
Proof.
  intros k sz nops nbufs es Hp. cbv zeta.
  pose proof (Inv_reach k sz nops nbufs es Hp) as HI. set (s := reach k sz nops nbufs es) in *. clearbody s.
  pose proof (tail_slot k sz s Hp HI) as Ht. pose proof (head_slot k sz s Hp HI) as Hh.
  pose proof (window_ghost k sz s Hp HI) as Hw. pose proof (offered_is_window k sz s Hp HI) as Ho.
  pose proof (ghost_eq k sz s Hp HI) as Heq.
  destruct Hp as [Hk Hsz]. pose proof (pow_le_15 k Hk) as Hn. inv_destruct HI. rewrite Hpn in *.
  repeat match goal with |- _ /\ _ => split end; try assumption.
  - rewrite Htl, Hkh. apply sub16; [exact Hle|unfold two16; alia].
  - split; [exact Heq|]. intros E. rewrite Hkh, Htl, E. reflexivity.
Qed.

Lemma all_available_when_quiescent_holds : all_available_when_quiescent.
Proof.
  intros k sz s Hp HI Ho Ht Hr Hl. pose proof (offered_is_window k sz s Hp HI) as Hw.
  inv_destruct HI.
  assert (P : Permutation (offered s) (iota (2 ^ k))).
  { apply (Permutation_count_occ N.eq_dec). intros x. fold (cnt (offered s) x). fold (cnt (iota (2 ^ k)) x).
    rewrite cnt_iota, <- Hpn, <- Htot. unfold total. rewrite Ho, Ht, Hr, Hl, !cnt_nil. lia. }
  split; [exact P|]. split; [|rewrite <- Hw; exact P].
  apply Permutation_length in P. unfold offered in P. rewrite offered_length, length_iota in P. lia.
Qed.

(** * H11: buffers picked for an abandoned operation
    Ids enter [lost] only through [DropOp] (completions queued in the dropped future or
    stream) or through a pick for a request whose future was dropped before. Without a
    [DropOp] in the history nothing is ever lost. *)
Definition is_dropop (e : bev) : bool := match e with DropOp _ => true | _ => false end.
Definition ev_abandons (e : ev) : bool :=
  match e with E b => is_dropop b | Rep _ body => existsb is_dropop body end.
Definition never_abandons (es : list ev) : Prop := forallb (fun e => negb (ev_abandons e)) es = true.

Definition noab_op (x : op) : Prop :=
  oust x <> UDropped /\ (kalive x = true -> oust x = ULive)
  /\ (okind x = Single -> oqueue x <> [] -> kalive x = false).
Definition NoAb (s : pool) : Prop := lost s = [] /\ Forall noab_op (ops s).

Lemma noab_settle x : noab_op x -> noab_op (settle_op x).
Proof.
  intros (A & B & C). unfold noab_op, settle_op. cbn [oust kalive okind oqueue].
  split; [exact A|]. split.
  - intros H. apply andb_true_iff in H. destruct H as [H _]. auto.
  - intros H1 H2. rewrite (C H1 H2). reflexivity.
Qed.

Lemma NoAb_settle s : NoAb s -> NoAb (settle s).
Proof.
  intros [A B]. split; [exact A|]. proj. apply Forall_map. apply Forall_forall. intros x Hx.
  apply noab_settle. exact (proj1 (Forall_forall _ _) B x Hx).
Qed.

Lemma NoAb_set_op s o x : NoAb s -> noab_op x -> NoAb (set_op s o x).
Proof. intros [A B] Hx. split; [exact A|]. proj. apply Forall_upd; assumption. Qed.

Lemma NoAb_same_ops s s' : NoAb s -> lost s' = lost s -> ops s' = ops s -> NoAb s'.
Proof. unfold NoAb. intros H -> ->. exact H. Qed.

Lemma NoAb_set_buf s b x : NoAb s -> NoAb (set_buf s b x).
Proof. intros H. apply (NoAb_same_ops s); try reflexivity. exact H. Qed.

Lemma app_not_nil {A} (l : list A) x : l ++ [x] <> [].
Proof. destruct l; discriminate. Qed.

Ltac noab_same HN :=
  repeat match goal with |- context [match ?x with _ => _ end] => destruct x end; exact HN.

Lemma NoAb_step_reg s e : is_dropop e = false -> NoAb s -> NoAb (fst (step_reg s e)).
Proof.
  intros Hd HN. destruct e as [o kd c|o len|o| |o b|o|b nl|b|b| |progs|i| ]; unfold step_reg; cbn [step_reg_with];
    try discriminate Hd.
  - destruct (nth_error (ops s) o) as [x|] eqn:Ho; [|exact HN].
    destruct (handle s && op_free x); [|exact HN]. cbn [fst].
    apply NoAb_set_op; [apply NoAb_settle; exact HN|].
    unfold noab_op. cbn [oust kalive okind oqueue]. split; [discriminate|]. split; [reflexivity|].
    intros _ H. contradiction.
  - destruct (nth_error (ops s) o) as [x|] eqn:Ho; [|exact HN].
    destruct (kalive x) eqn:Hk; [|exact HN].
    destruct HN as [A B]. pose proof (Forall_nth_error _ _ _ _ B Ho) as (X1 & X2 & X3).
    rewrite (X2 Hk).
    destruct (khead s =? tail s); cbn [fst].
    + apply NoAb_set_op; [split; assumption|]. unfold noab_op, with_k. cbn [oust kalive okind oqueue].
      split; [exact X1|]. split; [discriminate|]. reflexivity.
    + apply NoAb_set_op; [split; assumption|]. unfold noab_op, with_k. cbn [oust kalive okind oqueue].
      split; [exact X1|]. split; [intros _; exact (X2 Hk)|]. intros Hs _. rewrite Hs. reflexivity.
  - destruct (nth_error (ops s) o) as [x|] eqn:Ho; [|exact HN].
    destruct (kalive x) eqn:Hk; [|exact HN]. cbn [fst].
    destruct HN as [A B]. pose proof (Forall_nth_error _ _ _ _ B Ho) as (X1 & X2 & X3).
    apply NoAb_set_op; [split; assumption|]. unfold noab_op, with_k. cbn [oust kalive okind oqueue].
    split; [exact X1|]. split; [discriminate|]. reflexivity.
  - apply NoAb_settle. exact HN.
  - pose proof (NoAb_settle s HN) as HS. set (s1 := settle s) in *. clearbody s1.
    destruct (nth_error (ops s1) o) as [x|] eqn:Ho; [|exact HS].
    destruct (oust x) eqn:Hu; try exact HS.
    destruct HS as [A B]. pose proof (Forall_nth_error _ _ _ _ B Ho) as (X1 & X2 & X3).
    destruct (oqueue x) as [|c r] eqn:Hq.
    + destruct (is_multi (okind x) && negb (kalive x)) eqn:Hm; [|split; assumption]. cbn [fst].
      apply andb_true_iff in Hm. destruct Hm as [_ Hm]. apply negb_true_iff in Hm.
      apply NoAb_set_op; [split; assumption|]. unfold noab_op, with_u. cbn [oust kalive okind oqueue].
      split; [discriminate|]. split; [rewrite Hm; discriminate|]. intros _ H. contradiction.
    + assert (Hx' : noab_op match okind x with Single => with_u x r UDone false | Multi => with_u x r ULive (oref x) end).
      { destruct (okind x) eqn:Hkd; unfold noab_op, with_u; cbn [oust kalive okind oqueue].
        - assert (Hk : kalive x = false) by (apply X3; [reflexivity|discriminate]).
          split; [discriminate|]. split; [rewrite Hk; discriminate|]. intros _ _. exact Hk.
        - split; [discriminate|]. split; [reflexivity|]. intros H. rewrite Hkd in H. discriminate H. }
      destruct c as [bid l| |].
      * destruct (nth_error (bufs s1) b) as [[|w]|]; try (split; assumption). cbn [fst].
        apply NoAb_set_buf. apply NoAb_set_op; [split; assumption|exact Hx'].
      * cbn [fst]. apply NoAb_set_op; [split; assumption|exact Hx'].
      * destruct (nth_error (bufs s1) b) as [[|w]|]; try (split; assumption). cbn [fst].
        apply NoAb_set_buf. apply NoAb_set_op; [split; assumption|exact Hx'].
  - noab_same HN.
  - noab_same HN.
  - noab_same HN.
  - exact HN.
  - noab_same HN.
  - unfold finish_item. noab_same HN.
  - noab_same HN.
Qed.

Lemma NoAb_step s e : is_dropop e = false -> NoAb s -> NoAb (fst (step s e)).
Proof.
  intros Hd HN. unfold step, step_with. fold step_reg. destruct (registered s); [|exact HN].
  pose proof (NoAb_step_reg s e Hd HN) as H. destruct (step_reg s e) as [s' o]. exact H.
Qed.

Lemma NoAb_run_body : forall es s h, existsb is_dropop es = false -> NoAb s -> NoAb (fst (run_body s h es)).
Proof.
  induction es as [|e es IH]; intros s h Hd HN; cbn [run_body]; [exact HN|].
  cbn [existsb] in Hd. apply orb_false_iff in Hd. destruct Hd as [H1 H2].
  pose proof (NoAb_step s e H1 HN) as H. destruct (step s e) as [s' o]. apply IH; assumption.
Qed.

Lemma NoAb_exec_ev s e : ev_abandons e = false -> NoAb s -> NoAb (fst (exec_ev s e)).
Proof.
  intros Hd HN. destruct e as [b|n body]; cbn [exec_ev ev_abandons] in *.
  - unfold step_obs. pose proof (NoAb_step s b Hd HN) as H. destruct (step s b) as [s' o]. exact H.
  - pose proof (N.iter_invariant n (pool * Z) (fun sh => run_body (fst sh) (snd sh) body)
                  (fun sh => NoAb (fst sh))) as H.
    specialize (H (fun sh Hsh => NoAb_run_body body (fst sh) (snd sh) Hd Hsh) (s, 0%Z) HN).
    destruct (N.iter n _ (s, 0%Z)) as [s' h]. exact H.
Qed.

Lemma NoAb_run : forall es s, never_abandons es -> NoAb s -> NoAb (fst (run exec_ev s es)).
Proof.
  induction es as [|e es IH]; intros s Hd HN; cbn [run]; [exact HN|].
  unfold never_abandons in Hd. cbn [forallb] in Hd. apply andb_true_iff in Hd. destruct Hd as [H1 H2].
  apply negb_true_iff in H1.
  pose proof (NoAb_exec_ev s e H1 HN) as H. destruct (exec_ev s e) as [s1 o1].
  specialize (IH s1 H2 H). destruct (run exec_ev s1 es) as [s2 o2]. exact IH.
Qed.

Lemma NoAb_init k sz nops nbufs : NoAb (init k sz nops nbufs).
Proof.
  split; [reflexivity|]. unfold init; proj. apply Forall_forall. intros x Hx. apply repeat_spec in Hx.
  subst x. unfold noab_op, op0. cbn [oust kalive okind oqueue].
  split; [discriminate|]. split; [discriminate|]. intros _ H. contradiction.
Qed.

(** Ids are lost only by the named class: a history in which no future or stream is dropped
    loses nothing, so with [all_available_when_quiescent] every buffer comes back. *)
Definition lost_only_when_abandoned : Prop :=
  forall k sz nops nbufs es, never_abandons es ->
    forall id, ~ picked_for_abandoned_op (reach k sz nops nbufs es) id.

Lemma lost_only_when_abandoned_holds : lost_only_when_abandoned.
Proof.
  intros k sz nops nbufs es Hd id. unfold picked_for_abandoned_op, reach.
  destruct (NoAb_run es (init k sz nops nbufs) Hd (NoAb_init k sz nops nbufs)) as [H _].
  rewrite H. intros [].
Qed.

(** The statement without the "no lost id" clause: false on the code as it is (H11). *)
Definition all_available_even_after_abandon : Prop :=
  forall k sz nops nbufs es, params_ok k sz ->
    let s := reach k sz nops nbufs es in
    owned s = [] -> transit s = [] -> releasing s = [] ->
    (forall x, In x (ops s) -> kalive x = false) ->
    Permutation (offered s) (iota (2 ^ k)).

(** Two buffers of 8 bytes. A single-shot pool read is started, the kernel picks buffer 0 for
    it and posts the completion, the future is dropped before it is polled again, the ring is
    polled. Nothing is in flight, no ReadBuf exists, and buffer 0 is offered no more. *)
Definition h11_history : list ev :=
  [E (Start 0 Single false); E (KPick 0 4); E (DropOp 0); E RingPoll].

Lemma h11_details :
  let s := reach 1 8 1 1 h11_history in
  offered s = [1] /\ lost s = [0] /\ owned s = [] /\ transit s = [] /\ releasing s = []
  /\ map kalive (ops s) = [false] /\ map oref (ops s) = [false] /\ registered s = true.
Proof. cbv zeta. repeat split; vm_compute; reflexivity. Qed.

Lemma all_available_h11_refuted : ~ all_available_even_after_abandon.
Proof.
  intros H. specialize (H 1 8 1%nat 1%nat h11_history).
  assert (Hp : params_ok 1 8) by (unfold params_ok; lia). specialize (H Hp). cbv zeta in H.
  destruct h11_details as (Ho & _ & Hw & Ht & Hr & Hk & _).
  specialize (H Hw Ht Hr).
  assert (Hall : forall x, In x (ops (reach 1 8 1 1 h11_history)) -> kalive x = false).
  { intros x Hx. apply (in_map kalive) in Hx. rewrite Hk in Hx. destruct Hx as [<-|[]]. reflexivity. }
  specialize (H Hall). rewrite Ho in H. apply Permutation_length in H. vm_compute in H. discriminate H.
Qed.

(** The other ways into the class: the cancellation loses and the kernel picks after the drop;
    results queued in a dropped multishot stream. *)
Lemma h11_other_witnesses :
  (let s := reach 1 8 1 1 [E (Start 0 Single false); E (DropOp 0); E RingPoll; E (KPick 0 4); E RingPoll] in
   offered s = [1] /\ lost s = [0] /\ map kalive (ops s) = [false])
  /\ (let s := reach 1 8 1 2 [E (Start 0 Multi true); E (KPick 0 4); E (KPick 0 4); E (Deliver 0 0);
                              E (DropOp 0); E RingPoll; E (DropBuf 0)] in
      offered s = [0] /\ lost s = [1] /\ owned s = [] /\ map kalive (ops s) = [false])
  /\ (* the cancellation wins: nothing is picked, nothing is lost *)
     (let s := reach 1 8 1 1 [E (Start 0 Single true); E (DropOp 0); E RingPoll; E (KPick 0 4)] in
      offered s = [0; 1] /\ lost s = [] /\ map kalive (ops s) = [false]).
Proof. cbv zeta. repeat split; vm_compute; reflexivity. Qed.

(** * Non-vacuity *)

(** A history from [ReadBufPool::new] on a pool of two: multishot read, two picks, the third
    finds nothing offered (-ENOBUFS ends the stream), both ReadBufs delivered, one edited, one
    released twice and dropped, the other dropped; the stream ends; everything is offered again
    (in release order). *)
Example c08_example :
  let es := [E (Start 0 Multi true); E (KPick 0 5); E (KPick 0 9); E (KPick 0 1);
             E (Deliver 0 0); E (Deliver 0 1); E (Edit 1 3); E (Release 1); E (Release 1);
             E (DropBuf 0); E (DropBuf 1); E (Deliver 0 0); E (Deliver 0 0)] in
  let s := reach 1 8 1 2 es in
  params_ok 1 8
  /\ offered s = [1; 0] /\ owned s = [] /\ transit s = [] /\ lost s = []
  /\ tail s = 4 /\ khead s = 2 /\ g_t s = 4 /\ g_h s = 2
  /\ map oust (ops s) = [UDone]
  /\ (let s5 := reach 1 8 1 2 (firstn 7 es) in
      offered s5 = [] /\ owned s5 = [0; 1] /\ bufs s5 = [SBuf (Some (0, 5)); SBuf (Some (8, 3))]
      /\ map oqueue (ops s5) = [[CErr]]).
Proof.
  cbv zeta. split; [unfold params_ok; lia|]. repeat split; vm_compute; reflexivity.
Qed.

(** A state of a pool of two after 65533 picks and 65533 releases: the 16-bit tail is 65535. *)
Definition near_wrap : pool :=
  {| pn := 2; psz := 8; ring := init_ring 2 8; tail := 65535; khead := 65533;
     handle := true; registered := true; ops := [op0]; bufs := [SEmpty; SEmpty];
     holder := None; threads := []; lost := []; g_t := 65535; g_h := 65533 |}.

Lemma near_wrap_inv : Inv 1 8 near_wrap.
Proof.
  unfold Inv, near_wrap; proj. repeat match goal with |- _ /\ _ => split end; try reflexivity; try lia.
  - intros i H1 H2. assert (C : i = 65533 \/ i = 65534) by lia.
    destruct C as [-> | ->]; vm_compute; split; reflexivity.
  - intros x. unfold total, offered, transit, owned, releasing; proj.
    replace (offered_of (init_ring 2 8) 2 65533 65535) with [1; 0] by (vm_compute; reflexivity).
    cbn [transit_of owned_of releasing_of flat_map op0 oqueue cbufs slot_ids app].
    rewrite cnt_cons, cnt_one, !cnt_nil.
    destruct (N.eqb_spec 1 x), (N.eqb_spec 0 x), (N.ltb_spec x 2); lia.
  - repeat constructor.
  - repeat constructor.
  - intros i H. discriminate H.
  - intros i t H. destruct i; discriminate H.
Qed.

(** From there two picks, two ReadBufs, and two releases that take the tail through the wrap:
    65535 -> 0 -> 1, while the ghost counter goes 65535 -> 65537; the invariant (hence the
    partition) holds in the resulting state and the window the kernel walks, from head 65535 to
    tail 1, is the two released entries. *)
Example tail_wrap_example :
  let es := [E (Start 0 Multi true); E (KPick 0 8); E (KPick 0 8); E (Deliver 0 0); E (Deliver 0 1);
             E (DropBuf 1); E (DropBuf 0)] in
  let s := fst (run exec_ev near_wrap es) in
  Inv 1 8 s
  /\ tail s = 1 /\ khead s = 65535 /\ g_t s = 65537 /\ g_h s = 65535
  /\ wsub16 (tail s) (khead s) = 2
  /\ offered s = [0; 1]
  /\ map e_bid (window s) = [0; 1] /\ map e_addr (window s) = [0; 8]
  /\ (let s' := fst (run exec_ev near_wrap (firstn 6 es)) in
      tail s' = 0 /\ g_t s' = 65536 /\ offered s' = [0] /\ owned s' = [1]).
Proof.
  cbv zeta. split.
  - apply (run_invariant exec_ev (Inv 1 8)).
    + intros s e. apply Inv_exec_ev. unfold params_ok; lia.
    + exact near_wrap_inv.
  - repeat split; vm_compute; reflexivity.
Qed.

(** Two threads dropping their ReadBufs at once: thread 0 takes the lock and writes its entry
    (its id is neither owned nor offered at that point: it is being released), thread 1 finds
    the lock taken and spins, thread 0 stores the tail and unlocks, thread 1 gets the lock,
    writes and stores. *)
Example two_thread_example :
  let es := [E (Start 0 Multi true); E (KPick 0 8); E (KPick 0 8); E (Deliver 0 0); E (Deliver 0 1);
             E (Spawn [[(true, 0%nat)]; [(true, 1%nat)]]);
             E (T 0); E (T 1); E (T 1); E (T 0); E (T 1); E (T 1); E Join] in
  let s := reach 1 8 1 2 es in
  offered s = [0; 1] /\ bufs s = [SEmpty; SEmpty] /\ holder s = None /\ tail s = 4
  /\ (let s' := reach 1 8 1 2 (firstn 8 es) in
      holder s' = Some 0%nat /\ releasing s' = [0] /\ owned s' = [1] /\ offered s' = []
      /\ map tpc (threads s') = [PStore; PSpin]).
Proof. cbv zeta. repeat split; vm_compute; reflexivity. Qed.

(** * What was wrong before the repair of H26
    [release] wrote a whole [io_uring_buf] with [resv: 0] into the ring slot; for slot 0 that
    field is the ring tail. Pool of two buffers of 8 bytes, both picked (head = tail = 2) and
    delivered. One thread drops the ReadBuf of buffer 1: it takes the lock and writes the entry
    into slot [2 & 1 = 0] — the published tail is now 0. Before the tail store the kernel
    selects twice for an in-flight multishot read: [head = 2 <> 0 = tail], it takes slot 0 (the
    entry just written: buffer 1), then [head = 3 <> 0], it takes slot 1, which still holds the
    entry for buffer 1 it consumed long ago. Both completions are delivered: two live ReadBufs
    own buffer 1 (and the first one's bytes were overwritten by the second read). *)
Definition h26_history : list bev :=
  [Start 0 Multi true; KPick 0 8; KPick 0 8; Deliver 0 0; Deliver 0 1;
   Spawn [[(true, 1%nat)]]; T 0; KPick 0 8; KPick 0 8; T 0; Join;
   Deliver 0 1; Deliver 0 2].

Lemma h26_details :
  let s := fst (run step_h26 (init 1 8 1 3) h26_history) in
  bufs s = [SBuf (Some (0, 8)); SBuf (Some (8, 8)); SBuf (Some (8, 8))]
  /\ owned s = [0; 1; 1] /\ tail s = 3 /\ khead s = 4
  /\ (let s' := fst (run step_h26 (init 1 8 1 3) (firstn 7 h26_history)) in
      tail s' = 0 /\ khead s' = 2 /\ g_t s' = 2 /\ holder s' = Some 0%nat
      /\ map e_bid (window s') = [1; 1; 1]).
Proof. cbv zeta. repeat split; vm_compute; reflexivity. Qed.

(** The partition theorem fails for the code before the repair: two live ReadBufs own the same
    buffer. *)
Lemma pool_partition_h26_refuted :
  exists es b1 b2 off len1 len2,
    let s := fst (run step_h26 (init 1 8 1 3) es) in
    b1 <> b2
    /\ nth_error (bufs s) b1 = Some (SBuf (Some (off, len1)))
    /\ nth_error (bufs s) b2 = Some (SBuf (Some (off, len2)))
    /\ ~ NoDup (owned s).
Proof.
  exists h26_history, 1%nat, 2%nat, 8, 8, 8. cbv zeta.
  destruct h26_details as (Hb & Ho & _). rewrite Hb, Ho.
  split; [discriminate|]. split; [reflexivity|]. split; [reflexivity|].
  intros H. inversion H as [|? ? _ H1]; subst. inversion H1 as [|? ? Hn _]; subst.
  apply Hn. left. reflexivity.
Qed.

(** The same schedule against the repaired code: the tail stays 2 during the entry write, the
    kernel finds nothing offered (-ENOBUFS ends the stream), nothing is handed out twice. *)
Example h26_history_repaired :
  let s := fst (run step (init 1 8 1 3) h26_history) in
  bufs s = [SBuf (Some (0, 8)); SEmpty; SEmpty] /\ owned s = [0] /\ offered s = [1]
  /\ tail s = 3 /\ khead s = 2
  /\ (let s' := fst (run step (init 1 8 1 3) (firstn 7 h26_history)) in
      tail s' = 2 /\ khead s' = 2 /\ releasing s' = [1] /\ window s' = []).
Proof. cbv zeta. repeat split; vm_compute; reflexivity. Qed.

(** C13 — proofs about the operation encoders (Model/Encode.v).

    [decoded o k fd] reads the SQE a10 fills in for operation [o] on a descriptor of kind [k]
    back through the ABI table. The property: it is the call the method documents. *)
From A10 Require Import Base.Word Gen.Consts Model.Encode.

Definition decoded (o : op) (k : kind) (fd : N) : option posix_call :=
  let '(s, m) := encode o k fd in abi_decode m s.

(** ** Statements *)

(** The full statement of the property (part A). It does NOT hold for the code as it is:
    see [encode_matches_abi_h20_refuted], [encode_matches_abi_h24_refuted]. *)
Definition encode_matches_abi : Prop :=
  forall o k fd, wf_op o -> kind_ok o k -> u31 fd ->
    decoded o k fd = Some (intended_call o k fd).

(** H20: [splice_to] on a direct descriptor. *)
Definition h20_class (o : op) (k : kind) : Prop :=
  match o, k with OSpliceTo _ _ _ _ _, Direct => True | _, _ => False end.

(** H24: [metadata] on a direct descriptor (IORING_OP_STATX takes a directory descriptor in
    [sqe.fd], never a registered file). *)
Definition h24_class (o : op) (k : kind) : Prop :=
  match o, k with OStatx _, Direct => True | _, _ => False end.

Definition encode_matches_abi_except_h20_h24 : Prop :=
  forall o k fd, wf_op o -> kind_ok o k -> u31 fd -> ~ h20_class o k -> ~ h24_class o k ->
    decoded o k fd = Some (intended_call o k fd).

(** What happens inside the two classes. *)
Definition h20_splice_to_direct_swaps_tables : Prop :=
  forall t len oi oo flags fd, wf_op (OSpliceTo t len oi oo flags) -> u31 fd ->
    decoded (OSpliceTo t len oi oo flags) Direct fd =
    Some (PSplice (FdNum (Z.of_N fd)) (pos_of oi) (FdFixed (Z.of_N t)) (pos_of oo) len flags).

Definition h24_statx_direct_is_refused : Prop :=
  forall mask fd, decoded (OStatx mask) Direct fd = None.

Definition encode_matches_abi_h20_refuted_stmt : Prop :=
  exists o fd, wf_op o /\ kind_ok o Direct /\ u31 fd /\ h20_class o Direct /\
    decoded o Direct fd <> Some (intended_call o Direct fd).

Definition encode_matches_abi_h24_refuted_stmt : Prop :=
  exists o fd, wf_op o /\ kind_ok o Direct /\ u31 fd /\ h24_class o Direct /\
    decoded o Direct fd <> Some (intended_call o Direct fd).

(** Corollaries read off the decoded call: the generic bits. *)
Definition call_file (c : posix_call) : option fdref :=
  match c with
  | PRead f _ _ | PReadMulti f _ _ | PWrite f _ _ _ | PReadv f _ _ | PWritev f _ _ | PFsync f _
  | PFallocate f _ _ _ | PFadvise f _ _ _ | PFtruncate f _ | PConnect f _ | PBind f _ | PListen f _
  | PAccept f _ _ _ _ _ | PSendto f _ _ _ _ _ | PSendmsg f _ _ _ _ _ _ | PRecv f _ _ _
  | PRecvmsg f _ _ _ _ _ _ _ | PShutdown f _ | PGetsockopt f _ _ _ _ | PSetsockopt f _ _ _
  | PGetsockname f _ _ _ | PPollAdd f _ _ | PClose f => Some f
  | _ => None
  end.

Definition call_newfd (c : posix_call) : option (newfd * N) :=
  match c with
  | POpenat _ _ flags _ nf | PSocket _ flags _ nf | PAccept _ _ _ flags nf _ | PPipe2 _ flags nf =>
      Some (nf, flags)
  | _ => None
  end.

(** IOSQE_FIXED_FILE iff the target is direct, for every operation on an [AsyncFd] that has a
    single file (everything but splice and the two conversions). *)
Definition fixed_file_iff_direct : Prop :=
  forall o k fd c f, wf_op o -> kind_ok o k -> u31 fd -> decoded o k fd = Some c -> call_file c = Some f ->
    on_async_fd o = true \/ o = OClose ->
    f = target k fd.

(** file_index = ALLOC iff a direct result is requested, O_CLOEXEC / SOCK_CLOEXEC iff a regular
    one. [rk] is the requested kind: the builder's for open/socket/pipe, the listener's for accept. *)
Definition requested_kind (o : op) (k : kind) : option kind :=
  match o with
  | OOpen _ _ _ nk | OSocket _ _ _ nk | OPipe _ nk => Some nk
  | OAccept _ _ | OMultishotAccept _ => Some k
  | _ => None
  end.

Definition alloc_and_cloexec_follow_requested_kind : Prop :=
  forall o k fd c nf flags rk, wf_op o -> kind_ok o k -> u31 fd -> decoded o k fd = Some c ->
    call_newfd c = Some (nf, flags) -> requested_kind o k = Some rk ->
    nf = created rk /\ N.testbit flags O_CLOEXEC_BIT = match rk with Regular => true | Direct => false end.

(** ** Non-vacuity: the hypotheses are satisfiable for both kinds *)
Example wf_example_regular : wf_op (ORead (UserBuf 0 3 10) NO_OFFSET) /\ kind_ok (ORead (UserBuf 0 3 10) NO_OFFSET) Regular
                             /\ u31 7 /\ ~ h20_class (ORead (UserBuf 0 3 10) NO_OFFSET) Regular.
Proof. cbn. unfold u32, u64, u31, two32, two64, two31, NO_OFFSET. repeat split; try lia. Qed.

Example wf_example_direct : wf_op (OAccept (Some 28) 0) /\ kind_ok (OAccept (Some 28) 0) Direct /\ u31 3.
Proof. cbn. unfold u32, u31, two32, two31, no_cloexec. repeat split; try lia. Qed.

(** ** Small lemmas *)
Lemma iov_map (iov : list iovarg) :
  map (fun '(b, l) => (as_ptr b, l)) (iov_words iov) = iov_ptrs iov.
Proof.
  unfold iov_words, iov_ptrs. rewrite map_map. apply map_ext. intros [[r o] l]. reflexivity.
Qed.

Lemma iov_len (iov : list iovarg) : length (iov_words iov) = length iov.
Proof. unfold iov_words. apply map_length. Qed.

Lemma lor_cloexec_bit (f : N) : N.testbit (N.lor f O_CLOEXEC) O_CLOEXEC_BIT = true.
Proof. rewrite N.lor_spec. replace (N.testbit O_CLOEXEC O_CLOEXEC_BIT) with true by reflexivity. apply orb_true_r. Qed.

Lemma pow2_31 : SPLICE_F_FD_IN_FIXED = 2 ^ 31.
Proof. reflexivity. Qed.

Lemma ldiff_in_fixed (f : N) : N.testbit f SPLICE_F_FD_IN_FIXED_BIT = false -> N.ldiff f SPLICE_F_FD_IN_FIXED = f.
Proof.
  intros H. apply N.bits_inj. intros i. rewrite N.ldiff_spec, pow2_31, N.pow2_bits_eqb.
  unfold SPLICE_F_FD_IN_FIXED_BIT in H. destruct (N.eqb_spec 31 i) as [<-|_]; cbn [negb].
  - rewrite H. reflexivity.
  - apply andb_true_r.
Qed.

Lemma sockopt_level (level name : N) : level < two32 -> (level + two32 * name) mod two32 = level.
Proof. unfold two32. intros. lia. Qed.

Lemma sockopt_name (level name : N) : level < two32 -> (level + two32 * name) / two32 = name.
Proof. unfold two32. intros. lia. Qed.

Lemma close_index (fd : N) : fd < two31 -> trunc32 (fd + 1) - 1 = fd /\ (trunc32 (fd + 1) =? 0) = false.
Proof.
  unfold trunc32, two31, two32. intros H.
  assert (E : (fd + 1) mod 4294967296 = fd + 1) by (apply N.mod_small; lia).
  rewrite E. split; [lia | apply N.eqb_neq; lia].
Qed.

Ltac red1 :=
  cbn -[N.of_nat trunc32 trunc16 N.modulo N.div N.mul N.add N.sub Z.of_N Z.sub].


Lemma lor_lt_two32 (a b : N) : a < two32 -> b < two32 -> N.lor a b < two32.
Proof.
  unfold two32. change 4294967296 with (2 ^ 32). intros Ha Hb.
  destruct (N.eq_dec (N.lor a b) 0) as [E|E]; [rewrite E; reflexivity|].
  apply N.log2_lt_pow2; [lia|]. rewrite N.log2_lor. apply N.max_lub_lt.
  - destruct (N.eq_dec a 0) as [->|Ea]; [reflexivity|]. apply N.log2_lt_pow2; lia.
  - destruct (N.eq_dec b 0) as [->|Eb]; [reflexivity|]. apply N.log2_lt_pow2; lia.
Qed.

Lemma ltb_true (a b : N) : a < b -> (a <? b) = true.
Proof. intros. apply N.ltb_lt. assumption. Qed.

Ltac fin := unfold decoded; red1.

(** ** One lemma per operation family (both kinds) *)
Lemma enc_readv iov offset k fd : wf_op (OReadv iov offset) ->
  decoded (OReadv iov offset) k fd = Some (intended_call (OReadv iov offset) k fd).
Proof.
  intros [[Hn _] _]. destruct k; fin;
    rewrite iov_len, (trunc32_small _ Hn), N.eqb_refl, iov_map; reflexivity.
Qed.

Lemma enc_writev iov offset k fd : wf_op (OWritev iov offset) ->
  decoded (OWritev iov offset) k fd = Some (intended_call (OWritev iov offset) k fd).
Proof.
  intros [[Hn _] _]. destruct k; fin;
    rewrite iov_len, (trunc32_small _ Hn), N.eqb_refl, iov_map; reflexivity.
Qed.

Lemma enc_splice_to_regular t len oi oo flags fd : wf_op (OSpliceTo t len oi oo flags) -> u31 fd ->
  decoded (OSpliceTo t len oi oo flags) Regular fd = Some (intended_call (OSpliceTo t len oi oo flags) Regular fd).
Proof.
  intros (_ & _ & _ & _ & _ & Hb) Hfd. fin. unfold bit. rewrite Hb, (ldiff_in_fixed _ Hb), (ltb_true _ _ Hfd).
  reflexivity.
Qed.

Lemma enc_splice_from t len oi oo flags k fd : wf_op (OSpliceFrom t len oi oo flags) ->
  decoded (OSpliceFrom t len oi oo flags) k fd = Some (intended_call (OSpliceFrom t len oi oo flags) k fd).
Proof.
  intros (Ht & _ & _ & _ & _ & Hb). destruct k; fin; unfold bit;
    rewrite Hb, (ldiff_in_fixed _ Hb), (ltb_true _ _ Ht); reflexivity.
Qed.

Lemma enc_close k fd : u31 fd -> decoded OClose k fd = Some (intended_call OClose k fd).
Proof.
  intros Hfd. destruct k; [reflexivity|]. fin. destruct (close_index fd Hfd) as [E1 E2].
  rewrite E2, E1. reflexivity.
Qed.

Lemma enc_open path flags mode nk fd : wf_op (OOpen path flags mode nk) ->
  decoded (OOpen path flags mode nk) Regular fd = Some (intended_call (OOpen path flags mode nk) Regular fd).
Proof.
  intros (_ & _ & Hc). destruct nk; fin; [reflexivity|].
  unfold cloexec_ok, bit. red1. rewrite N.lor_0_r, Hc. reflexivity.
Qed.

Lemma enc_socket domain ty proto nk fd : wf_op (OSocket domain ty proto nk) ->
  decoded (OSocket domain ty proto nk) Regular fd = Some (intended_call (OSocket domain ty proto nk) Regular fd).
Proof.
  intros (_ & Hty & _ & Hc). destruct nk; fin.
  - rewrite (ltb_true _ _ (lor_lt_two32 ty O_CLOEXEC Hty ltac:(reflexivity))). reflexivity.
  - unfold cloexec_ok, bit. red1. rewrite N.lor_0_r, Hc, (ltb_true _ _ Hty). reflexivity.
Qed.

Lemma enc_pipe flags nk fd : wf_op (OPipe flags nk) ->
  decoded (OPipe flags nk) Regular fd = Some (intended_call (OPipe flags nk) Regular fd).
Proof.
  intros (_ & Hc). destruct nk; fin; [reflexivity|].
  unfold cloexec_ok, bit. red1. rewrite N.lor_0_r, Hc. reflexivity.
Qed.

Lemma enc_connect sa k fd : decoded (OConnect sa) k fd = Some (intended_call (OConnect sa) k fd).
Proof. destruct k; fin; rewrite N.eqb_refl; reflexivity. Qed.

Lemma enc_bind sa k fd : decoded (OBind sa) k fd = Some (intended_call (OBind sa) k fd).
Proof. destruct k; fin; rewrite N.eqb_refl; reflexivity. Qed.

Lemma enc_accept c flags k fd : wf_op (OAccept c flags) ->
  decoded (OAccept c flags) k fd = Some (intended_call (OAccept c flags) k fd).
Proof.
  intros (_ & _ & Hc). destruct k, c; fin; try reflexivity;
    unfold cloexec_ok, bit; red1; rewrite N.lor_0_r, Hc; reflexivity.
Qed.

Lemma enc_multishot_accept flags k fd : wf_op (OMultishotAccept flags) ->
  decoded (OMultishotAccept flags) k fd = Some (intended_call (OMultishotAccept flags) k fd).
Proof.
  intros (_ & Hc). destruct k; fin; try reflexivity.
  unfold cloexec_ok, bit; red1; rewrite N.lor_0_r, Hc; reflexivity.
Qed.

Lemma trunc16_small (x : N) : x < two16 -> trunc16 x = x.
Proof. unfold trunc16, two16. intros. apply N.mod_small. assumption. Qed.

Lemma enc_sendto r off l sa flags zc k fd : wf_op (OSendTo r off l sa flags zc) ->
  decoded (OSendTo r off l sa flags zc) k fd = Some (intended_call (OSendTo r off l sa flags zc) k fd).
Proof.
  intros (_ & Hsa & _). destruct k, zc, sa as [bs|]; fin; try reflexivity;
    destruct Hsa as [Hsa _]; rewrite (trunc16_small _ Hsa), (ltb_true _ _ Hsa), N.eqb_refl; reflexivity.
Qed.

Lemma enc_sendmsg iov sa flags zc k fd :
  decoded (OSendMsg iov sa flags zc) k fd = Some (intended_call (OSendMsg iov sa flags zc) k fd).
Proof.
  destruct k, zc, sa as [bs|]; fin; rewrite ?N.eqb_refl; red1; rewrite iov_len, N.eqb_refl, iov_map; reflexivity.
Qed.

Lemma enc_recvmsg iov c flags k fd :
  decoded (ORecvMsg iov c flags) k fd = Some (intended_call (ORecvMsg iov c flags) k fd).
Proof. destruct k, c; fin; rewrite N.eqb_refl, iov_map; reflexivity. Qed.

Lemma enc_recvfrom b c flags k fd :
  decoded (ORecvFrom b c flags) k fd = Some (intended_call (ORecvFrom b c flags) k fd).
Proof. destruct k, b, c; reflexivity. Qed.

Lemma enc_getsockopt level name optlen k fd : wf_op (OGetSockOpt level name optlen) ->
  decoded (OGetSockOpt level name optlen) k fd = Some (intended_call (OGetSockOpt level name optlen) k fd).
Proof.
  intros (Hl & _). destruct k; fin; rewrite (sockopt_level _ _ Hl), (sockopt_name _ _ Hl); reflexivity.
Qed.

Lemma enc_setsockopt level name value k fd : wf_op (OSetSockOpt level name value) ->
  decoded (OSetSockOpt level name value) k fd = Some (intended_call (OSetSockOpt level name value) k fd).
Proof.
  intros (Hl & _). destruct k; fin;
    rewrite N.eqb_refl, (sockopt_level _ _ Hl), (sockopt_name _ _ Hl); reflexivity.
Qed.

(** ** The theorem outside the two classes *)
Lemma encode_matches_abi_except_h20_h24_holds : encode_matches_abi_except_h20_h24.
Proof.
  intros o k fd Hwf Hk Hfd H20 H24.
  destruct o;
  lazymatch goal with
  | |- decoded (OReadv _ _) _ _ = _ => apply enc_readv, Hwf
  | |- decoded (OWritev _ _) _ _ = _ => apply enc_writev, Hwf
  | |- decoded (OSpliceTo _ _ _ _ _) _ _ = _ =>
      destruct k; [apply enc_splice_to_regular; assumption | exfalso; apply H20; exact I]
  | |- decoded (OSpliceFrom _ _ _ _ _) _ _ = _ => apply enc_splice_from, Hwf
  | |- decoded OClose _ _ = _ => apply enc_close, Hfd
  | |- decoded (OStatx _) _ _ = _ => destruct k; [reflexivity | exfalso; apply H24; exact I]
  | |- decoded (OOpen _ _ _ _) _ _ = _ => cbn [kind_ok] in Hk; subst k; apply enc_open, Hwf
  | |- decoded (OSocket _ _ _ _) _ _ = _ => cbn [kind_ok] in Hk; subst k; apply enc_socket, Hwf
  | |- decoded (OPipe _ _) _ _ = _ => cbn [kind_ok] in Hk; subst k; apply enc_pipe, Hwf
  | |- decoded (OConnect _) _ _ = _ => apply enc_connect
  | |- decoded (OBind _) _ _ = _ => apply enc_bind
  | |- decoded (OAccept _ _) _ _ = _ => apply enc_accept, Hwf
  | |- decoded (OMultishotAccept _) _ _ = _ => apply enc_multishot_accept, Hwf
  | |- decoded (OSendTo _ _ _ _ _ _) _ _ = _ => apply enc_sendto, Hwf
  | |- decoded (OSendMsg _ _ _ _) _ _ = _ => apply enc_sendmsg
  | |- decoded (ORecvMsg _ _ _) _ _ = _ => apply enc_recvmsg
  | |- decoded (ORecvFrom _ _ _) _ _ = _ => apply enc_recvfrom
  | |- decoded (OGetSockOpt _ _ _) _ _ = _ => apply enc_getsockopt, Hwf
  | |- decoded (OSetSockOpt _ _ _) _ _ = _ => apply enc_setsockopt, Hwf
  | |- decoded (ORead ?b _) _ _ = _ => destruct k, b; reflexivity
  | |- decoded (ORecv ?b _) _ _ = _ => destruct k, b; reflexivity
  | |- decoded (OFsync ?d) _ _ = _ => destruct k, d; reflexivity
  | |- decoded (OUnlink _ ?d) _ _ = _ => cbn [kind_ok] in Hk; subst k; destruct d; reflexivity
  | |- decoded (OSend _ _ _ _ ?z) _ _ = _ => destruct k, z; reflexivity
  | |- decoded (OShutdown ?h) _ _ = _ => destruct k, h; reflexivity
  | |- decoded (OSockName ?p ?c) _ _ = _ => destruct k, p, c; reflexivity
  | |- decoded (OWaitid ?w _) _ _ = _ => cbn [kind_ok] in Hk; subst k; destruct w; reflexivity
  | _ => destruct k; cbn [kind_ok] in Hk; try discriminate Hk; reflexivity
  end.
Qed.

(** ** Inside the classes *)
Lemma h20_splice_to_direct_swaps_tables_holds : h20_splice_to_direct_swaps_tables.
Proof.
  intros t len oi oo flags fd (_ & _ & _ & _ & _ & Hb) Hfd. fin. unfold bit.
  rewrite Hb, (ldiff_in_fixed _ Hb), (ltb_true _ _ Hfd). reflexivity.
Qed.

Lemma h24_statx_direct_is_refused_holds : h24_statx_direct_is_refused.
Proof. intros mask fd. reflexivity. Qed.

(** Witnesses: [splice_to(target 5, 10 bytes)] on direct descriptor 3; [metadata()] on direct
    descriptor 3. *)
Lemma encode_matches_abi_h20_refuted : encode_matches_abi_h20_refuted_stmt.
Proof.
  exists (OSpliceTo 5 10 NO_OFFSET NO_OFFSET 0), 3.
  repeat split; try (vm_compute; reflexivity); try exact I.
  vm_compute. discriminate.
Qed.

Lemma encode_matches_abi_h24_refuted : encode_matches_abi_h24_refuted_stmt.
Proof.
  exists (OStatx 2047), 3.
  repeat split; try (vm_compute; reflexivity); try exact I.
  vm_compute. discriminate.
Qed.

Lemma encode_matches_abi_fails : ~ encode_matches_abi.
Proof.
  intros H. destruct encode_matches_abi_h20_refuted as (o & fd & Hwf & Hk & Hfd & _ & Hne).
  apply Hne. apply H; assumption.
Qed.

(** ** Corollaries *)
Lemma class_dec (o : op) (k : kind) : (h20_class o k \/ h24_class o k) \/ (~ h20_class o k /\ ~ h24_class o k).
Proof. destruct o, k; cbn; tauto. Qed.

Lemma fixed_file_iff_direct_holds : fixed_file_iff_direct.
Proof.
  intros o k fd c f Hwf Hk Hfd Hd Hc Hon.
  destruct (class_dec o k) as [[H20|H24]|[N20 N24]].
  - destruct o, k; try contradiction.
    rewrite (h20_splice_to_direct_swaps_tables_holds _ _ _ _ _ _ Hwf Hfd) in Hd.
    inversion Hd; subst c. discriminate Hc.
  - destruct o, k; try contradiction. rewrite h24_statx_direct_is_refused_holds in Hd. discriminate Hd.
  - rewrite (encode_matches_abi_except_h20_h24_holds o k fd Hwf Hk Hfd N20 N24) in Hd.
    inversion Hd; subst c. clear Hd.
    destruct Hon as [Hon | ->]; [| cbn in Hc; inversion Hc; reflexivity].
    destruct o; cbn in Hon; try discriminate Hon; cbn in Hc; try discriminate Hc;
      try (inversion Hc; reflexivity).
    destruct b; cbn in Hc; inversion Hc; reflexivity.
Qed.

Lemma alloc_and_cloexec_follow_requested_kind_holds : alloc_and_cloexec_follow_requested_kind.
Proof.
  intros o k fd c nf flags rk Hwf Hk Hfd Hd Hc Hr.
  assert (N20 : ~ h20_class o k) by (destruct o, k; cbn; try tauto; cbn in Hr; discriminate Hr).
  assert (N24 : ~ h24_class o k) by (destruct o, k; cbn; try tauto; cbn in Hr; discriminate Hr).
  rewrite (encode_matches_abi_except_h20_h24_holds o k fd Hwf Hk Hfd N20 N24) in Hd.
  inversion Hd; subst c. clear Hd.
  destruct o; cbn in Hr; try discriminate Hr; inversion Hr; subst rk; cbn in Hc; inversion Hc; subst nf flags;
    cbn in Hwf.
  - destruct nk; split; try reflexivity; [apply lor_cloexec_bit | apply Hwf].
  - destruct nk; split; try reflexivity; [apply lor_cloexec_bit | apply Hwf].
  - destruct k; split; try reflexivity; [apply lor_cloexec_bit | apply Hwf].
  - destruct k; split; try reflexivity; [apply lor_cloexec_bit | apply Hwf].
  - destruct nk; split; try reflexivity; [apply lor_cloexec_bit | apply Hwf].
Qed.

(** Proofs about the inotify decoder model (Model/Inotify.v): on every well-formed sequence of
    kernel records, cut into successive reads in any way, with 0-byte reads and failed reads
    anywhere, the iterator yields exactly the user-visible records, in order, each with its
    fields, its unpadded name and the path of its watch joined with the name; it forgets
    watches exactly at IN_IGNORED records; and the decoder never touches an index outside the
    bytes of the current read. The clause that an event stays valid while safe code can use it
    is refuted (H10). *)
From A10 Require Import Base.Word Base.Run Model.Inotify.
From Coq Require Import Arith.

(** * Well-formed kernel input *)

(** A name is one directory entry: at most NAME_MAX bytes, no NUL, no '/'. *)
Definition name_ok (n : list N) : Prop :=
  (length n <= NAME_MAX)%nat /\ Forall (fun b => b <> 0 /\ b <> SEP /\ b < 256) n.

(** The guarantee of inotify(7) the decoder depends on: "The name field is present only when
    an event is returned for a file inside a watched directory [...] This filename is
    null-terminated, and may include further null bytes to align subsequent reads"; [len]
    "counts all of the bytes in name, including the null bytes" and is 0 when there is no name
    (fs/notify/inotify/inotify_user.c, [round_event_name_len]: 0 for no name, else
    [roundup(strlen + 1, sizeof(struct inotify_event))]). Only the second half is needed:
    a record without a name carries no padding. *)
Definition kernel_pads (r : record) : Prop := r_name r = [] -> r_pad r = 0.

(** What the kernel actually emits (implies [kernel_pads]; every record is then a multiple of
    16 bytes long and fits the 272-byte buffer). *)
Definition kernel_len (n : N) : N := if n =? 0 then 0 else ((n + 1 + 15) / 16) * 16.
Definition kernel_exact (r : record) : Prop :=
  rec_len r = kernel_len (N.of_nat (length (r_name r))).

Definition fields_ok (r : record) : Prop :=
  (-2147483648 <= r_wd r < 2147483648)%Z /\ r_mask r < two32 /\ r_cookie r < two32
  /\ rec_len r < two32.

Definition wf_record (r : record) : Prop := name_ok (r_name r) /\ kernel_pads r /\ fields_ok r.

Definition wf_rd (x : rdspec) : Prop :=
  match x with Batch rs => Forall wf_record rs | Fail _ => True end.

(** * The specification, on records *)
Definition ignored (r : record) : bool := negb (N.land (r_mask r) IN_IGNORED =? 0).
Definition overflow (r : record) : bool := negb (N.land (r_mask r) IN_Q_OVERFLOW =? 0).
Definition user_visible (r : record) : bool := negb (ignored r) && negb (overflow r).

Definition event_of (r : record) : event :=
  {| e_wd := r_wd r; e_mask := r_mask r; e_cookie := r_cookie r; e_name := r_name r |}.

(** [watched_path/name]: the watched path alone for an event on the watch itself, the bare
    name when the descriptor is not (or no longer) in the table. *)
Definition full_path (w : watching) (r : record) : list N :=
  match w_get (r_wd r) w with
  | None => r_name r
  | Some base =>
      match r_name r with
      | [] => base
      | _ => if need_sep base then base ++ [SEP] ++ r_name r else base ++ r_name r
      end
  end.

Inductive ival := VEvent (e : event) (path : list N) | VErr (errno : Z) | VNone | VPending.

Definition item_val (it : item) : ival :=
  match it with
  | IEvent _ e p => VEvent e p
  | IErr e => VErr e
  | INone => VNone
  | IPending => VPending
  end.

(** The user-visible records in order, each with the table of watches at the time it is
    handed out; the table after all of them. *)
Fixpoint visible (w : watching) (rs : list record) : list (ival * watching) :=
  match rs with
  | [] => []
  | r :: rs' =>
      if ignored r then visible (w_remove (r_wd r) w) rs'
      else if overflow r then visible w rs'
      else (VEvent (event_of r) (full_path w r), w) :: visible w rs'
  end.
Fixpoint final_watch (w : watching) (rs : list record) : watching :=
  match rs with
  | [] => w
  | r :: rs' => if ignored r then final_watch (w_remove (r_wd r) w) rs' else final_watch w rs'
  end.

(** Records delivered before the stream ends, and how it ends: a 0-byte read ([VNone]), a
    failed read (other than the EINTR / ECANCELED failures the operation layer hides by
    reissuing the read), or the script running out ([VPending]). *)
Fixpoint live (sc : list rdspec) : list record :=
  match sc with
  | Batch (r :: rs) :: sc' => (r :: rs) ++ live sc'
  | Fail e :: sc' => if op_restarts e then live sc' else []
  | _ => []
  end.
Fixpoint term (sc : list rdspec) : ival :=
  match sc with
  | [] => VPending
  | Fail e :: sc' => if op_restarts e then term sc' else VErr (op_errno e)
  | Batch [] :: _ => VNone
  | Batch (_ :: _) :: sc' => term sc'
  end.
(** After the end: [None] for ever (or still pending). *)
Definition after (t : ival) : ival := match t with VPending => VPending | _ => VNone end.

Definition expected (w : watching) (sc : list rdspec) (k : nat) : list (ival * watching) :=
  visible w (live sc)
  ++ (term sc, final_watch w (live sc)) :: repeat (after (term sc), final_watch w (live sc)) k.

Definition pv (r : polled) : ival * watching := (item_val (p_item r), s_watch (p_state r)).

(** C17, decoding clauses. For all tables, all scripts of well-formed batches / 0-byte reads /
    failures, and any number [k] of polls: the items handed out (with the table after each
    poll) are the first [k] of: the user-visible records, then the end of stream, then
    [None] for ever. *)
Definition events_decoded_exactly : Prop :=
  forall (w : watching) (sc : list rdspec) (k : nat),
    Forall wf_rd sc ->
    map pv (poll_n k (init w (map wire_rd sc))) = firstn k (expected w sc k).

Definition touches_ok (r : polled) : Prop :=
  Forall (fun x : nat * nat => (fst x < snd x)%nat) (p_touch r).

(** Every index dereferenced (and every byte covered by a reference handed out) lies inside
    the bytes of the read it was made in. *)
Definition reads_in_bounds : Prop :=
  forall (w : watching) (sc : list rdspec) (k : nat),
    Forall wf_rd sc ->
    Forall touches_ok (poll_n k (init w (map wire_rd sc))).

(** * Bytes *)
Lemma u32_round x : x < two32 ->
  x mod 256 + 256 * ((x / 256) mod 256) + 65536 * ((x / 65536) mod 256)
  + 16777216 * ((x / 16777216) mod 256) = x.
Proof. unfold two32. intros. lia. Qed.

Lemma i32_round z : (-2147483648 <= z < 2147483648)%Z -> to_i32 (i32_bits z) = z.
Proof.
  unfold to_i32, i32_bits, two31. intros.
  destruct (N.ltb_spec (Z.to_N (z mod 4294967296)) 2147483648); lia.
Qed.

Lemma i32_bits_lt z : i32_bits z < two32.
Proof. unfold i32_bits, two32. lia. Qed.

Lemma get_app_r (pre l : list N) i : get (pre ++ l) (length pre + i) = get l i.
Proof. unfold get. apply app_nth2_plus. Qed.

Lemma le32_at_shift (pre l : list N) k : le32_at (pre ++ l) (length pre + k) = le32_at l k.
Proof. unfold le32_at. rewrite <- !Nat.add_assoc, !get_app_r. reflexivity. Qed.

Lemma skipn_app_len {A} (pre l : list A) k : skipn (length pre + k) (pre ++ l) = skipn k l.
Proof. induction pre as [|a pre IH]; cbn [length Nat.add app skipn]; auto. Qed.

Lemma firstn_app_exact {A} (l rest : list A) : firstn (length l) (l ++ rest) = l.
Proof. induction l as [|a l IH]; cbn [length app firstn]; [destruct rest|]; congruence. Qed.

Lemma sub_shift (pre l : list N) k n : sub (length pre + k) n (pre ++ l) = sub k n l.
Proof. unfold sub. rewrite skipn_app_len. reflexivity. Qed.

Definition hdr (r : record) : list N :=
  u32_le (i32_bits (r_wd r)) ++ u32_le (r_mask r) ++ u32_le (r_cookie r) ++ u32_le (rec_len r).
Definition body (r : record) : list N := r_name r ++ zeros (N.to_nat (r_pad r)).

Lemma ser_split r : ser r = hdr r ++ body r.
Proof. unfold ser, hdr, body. rewrite <- !app_assoc. reflexivity. Qed.

Lemma hdr_length r : length (hdr r) = HDR.
Proof. reflexivity. Qed.

Lemma body_length r : length (body r) = N.to_nat (rec_len r).
Proof.
  unfold body, rec_len, zeros. rewrite app_length, repeat_length. lia.
Qed.

Lemma ser_length r : length (ser r) = (HDR + N.to_nat (rec_len r))%nat.
Proof. rewrite ser_split, app_length, hdr_length, body_length. reflexivity. Qed.

Lemma le32_hdr r rest :
  fields_ok r ->
  le32_at (hdr r ++ rest) 0 = i32_bits (r_wd r)
  /\ le32_at (hdr r ++ rest) 4 = r_mask r
  /\ le32_at (hdr r ++ rest) 8 = r_cookie r
  /\ le32_at (hdr r ++ rest) 12 = rec_len r.
Proof.
  intros (Hwd & Hm & Hc & Hl).
  unfold hdr, u32_le, le32_at, get. cbn [app nth Nat.add].
  repeat split; apply u32_round; auto using i32_bits_lt.
Qed.

Lemma sub_body r rest : sub HDR (N.to_nat (rec_len r)) (ser r ++ rest) = body r.
Proof.
  rewrite ser_split, <- app_assoc, <- (hdr_length r).
  replace (length (hdr r)) with (length (hdr r) + 0)%nat by lia.
  rewrite sub_shift. unfold sub. cbn [skipn].
  rewrite <- body_length. apply firstn_app_exact.
Qed.

(** * The name cut *)
Lemma rposition_zeros k : rposition_nz (zeros k) = None.
Proof. induction k as [|k IH]; cbn [zeros repeat rposition_nz]; auto. fold (zeros k). rewrite IH. reflexivity. Qed.

Lemma rposition_app_zeros l k : rposition_nz (l ++ zeros k) = rposition_nz l.
Proof.
  induction l as [|b l IH]; cbn [app rposition_nz].
  - apply rposition_zeros.
  - rewrite IH. reflexivity.
Qed.

Lemma rposition_no_nul l :
  Forall (fun b => b <> 0) l ->
  rposition_nz l = match l with [] => None | _ => Some (pred (length l)) end.
Proof.
  induction 1 as [|b l Hb Hl IH]; cbn [rposition_nz]; auto.
  rewrite IH. destruct l as [|c l]; cbn [length pred].
  - destruct (N.eqb_spec b 0); congruence.
  - reflexivity.
Qed.

(** Non-empty name: the padding is removed whatever its length (even none). *)
Lemma path_len_named l k :
  Forall (fun b => b <> 0) l -> l <> [] -> path_len (l ++ zeros k) = length l.
Proof.
  intros Hl Hne. unfold path_len. rewrite rposition_app_zeros, rposition_no_nul by auto.
  destruct l; [congruence|reflexivity].
Qed.

(** No name: [rposition] finds nothing and the code keeps all [len] bytes. *)
Lemma path_len_unnamed k : path_len (zeros k) = k.
Proof. unfold path_len. rewrite rposition_zeros. apply repeat_length. Qed.

Lemma name_no_nul r : name_ok (r_name r) -> Forall (fun b => b <> 0) (r_name r).
Proof. intros [_ H]. eapply Forall_impl; [|exact H]. cbn. tauto. Qed.

Lemma path_len_body r : name_ok (r_name r) -> kernel_pads r -> path_len (body r) = length (r_name r).
Proof.
  intros Hn Hk. unfold body. destruct (r_name r) as [|b l] eqn:E.
  - rewrite Hk by auto. reflexivity.
  - rewrite <- E in *. apply path_len_named; [apply name_no_nul; auto|congruence].
Qed.

Lemma sub_name r rest :
  sub HDR (length (r_name r)) (ser r ++ rest) = r_name r.
Proof.
  rewrite ser_split, <- app_assoc, <- (hdr_length r).
  replace (length (hdr r)) with (length (hdr r) + 0)%nat by lia.
  rewrite sub_shift. unfold sub, body. cbn [skipn]. rewrite <- app_assoc. apply firstn_app_exact.
Qed.

(** A reference to a record in the buffer reads back the record. *)
Lemma read_view_record pre r rest :
  wf_record r ->
  read_view (pre ++ ser r ++ rest) {| v_off := length pre; v_plen := length (r_name r) |}
  = event_of r.
Proof.
  intros (Hn & Hk & Hf). unfold read_view, event_of. cbn [v_off v_plen].
  replace (length pre) with (length pre + 0)%nat at 1 by lia.
  rewrite Nat.add_0_r at 1.
  replace (le32_at (pre ++ ser r ++ rest) (length pre)) with (le32_at (ser r ++ rest) 0)
    by (rewrite <- (le32_at_shift pre), Nat.add_0_r; reflexivity).
  rewrite !le32_at_shift, sub_shift, sub_name.
  rewrite ser_split, <- app_assoc.
  destruct (le32_hdr r (body r ++ rest) Hf) as (-> & -> & -> & _).
  rewrite i32_round by apply Hf. reflexivity.
Qed.

(** Bytes behind the view do not matter. *)
Lemma get_app_l (l tl : list N) i : (i < length l)%nat -> get (l ++ tl) i = get l i.
Proof. unfold get. intros. apply app_nth1. assumption. Qed.

Lemma read_view_app buf tl v :
  (v_off v + HDR + v_plen v <= length buf)%nat -> read_view (buf ++ tl) v = read_view buf v.
Proof.
  unfold HDR. intros H. unfold read_view, le32_at, sub.
  rewrite !get_app_l by lia.
  f_equal. rewrite skipn_app, firstn_app.
  replace (v_plen v - length (skipn (v_off v + HDR) buf))%nat with 0%nat
    by (rewrite skipn_length; unfold HDR; lia).
  cbn [firstn]. apply app_nil_r.
Qed.

(** * One record *)
Definition inb (n : nat) (g : list nat) : Prop := Forall (fun i => (i < n)%nat) g.

Lemma inb_app n g1 g2 : inb n g1 -> inb n g2 -> inb n (g1 ++ g2).
Proof. unfold inb. intros. apply Forall_app; auto. Qed.
Lemma inb_idx4 n o : (o + 3 < n)%nat -> inb n (idx4 o).
Proof. unfold inb, idx4. intros. repeat constructor; lia. Qed.
Lemma inb_seq n a len : (a + len <= n)%nat -> inb n (seq a len).
Proof. unfold inb. intros. apply Forall_forall. intros i Hi. apply in_seq in Hi. lia. Qed.
Lemma inb_mono n m g : (n <= m)%nat -> inb n g -> inb m g.
Proof. unfold inb. intros. eapply Forall_impl; [|eassumption]. cbn. intros. lia. Qed.

(** One iteration of the walk on a buffer holding a whole record at [p] (any name, any
    padding). *)
Lemma process_one_gen f w pre r rest :
  fields_ok r ->
  process (S f) w (pre ++ ser r ++ rest) (length pre) =
    if ignored r then
      let '(w2, p2, v, g) :=
        process f (w_remove (r_wd r) w) (pre ++ ser r ++ rest) (length pre + length (ser r)) in
      (w2, p2, v, idx4 (length pre + 12) ++ idx4 (length pre + 4) ++ idx4 (length pre) ++ g)
    else if overflow r then
      let '(w2, p2, v, g) :=
        process f w (pre ++ ser r ++ rest) (length pre + length (ser r)) in
      (w2, p2, v, idx4 (length pre + 12) ++ idx4 (length pre + 4) ++ g)
    else
      (w, (length pre + length (ser r))%nat,
       Some {| v_off := length pre; v_plen := path_len (body r) |},
       idx4 (length pre + 12) ++ idx4 (length pre + 4)
       ++ seq (length pre + HDR) (N.to_nat (rec_len r))
       ++ seq (length pre) (HDR + path_len (body r))).
Proof.
  intros Hf.
  cbn [process].
  assert (Hlen : (length (pre ++ ser r ++ rest) <=? length pre)%nat = false).
  { apply Nat.leb_gt. rewrite !app_length, ser_length. unfold HDR. lia. }
  rewrite Hlen.
  assert (H0 : le32_at (pre ++ ser r ++ rest) (length pre) = i32_bits (r_wd r)).
  { rewrite <- (Nat.add_0_r (length pre)), le32_at_shift, ser_split, <- app_assoc.
    apply (le32_hdr r _ Hf). }
  assert (H12 : le32_at (pre ++ ser r ++ rest) (length pre + 12) = rec_len r).
  { rewrite le32_at_shift, ser_split, <- app_assoc. apply (le32_hdr r _ Hf). }
  assert (H4 : le32_at (pre ++ ser r ++ rest) (length pre + 4) = r_mask r).
  { rewrite le32_at_shift, ser_split, <- app_assoc. apply (le32_hdr r _ Hf). }
  rewrite H0, H12, H4.
  rewrite i32_round by apply Hf.
  rewrite <- Nat.add_assoc, <- ser_length.
  fold (ignored r). fold (overflow r).
  destruct (ignored r); [reflexivity|].
  destruct (overflow r); [reflexivity|].
  rewrite sub_shift, sub_body.
  reflexivity.
Qed.

(** The same on a well-formed record: the name is handed out without its padding. *)
Lemma process_one f w pre r rest :
  wf_record r ->
  process (S f) w (pre ++ ser r ++ rest) (length pre) =
    if ignored r then
      let '(w2, p2, v, g) :=
        process f (w_remove (r_wd r) w) (pre ++ ser r ++ rest) (length pre + length (ser r)) in
      (w2, p2, v, idx4 (length pre + 12) ++ idx4 (length pre + 4) ++ idx4 (length pre) ++ g)
    else if overflow r then
      let '(w2, p2, v, g) :=
        process f w (pre ++ ser r ++ rest) (length pre + length (ser r)) in
      (w2, p2, v, idx4 (length pre + 12) ++ idx4 (length pre + 4) ++ g)
    else
      (w, (length pre + length (ser r))%nat,
       Some {| v_off := length pre; v_plen := length (r_name r) |},
       idx4 (length pre + 12) ++ idx4 (length pre + 4)
       ++ seq (length pre + HDR) (N.to_nat (rec_len r))
       ++ seq (length pre) (HDR + length (r_name r))).
Proof.
  intros (Hn & Hk & Hf). rewrite process_one_gen by exact Hf.
  rewrite path_len_body by auto. reflexivity.
Qed.

(** The shape the kernel never emits: no name but [len > 0]. [rposition] finds no non-NUL byte
    and [map_or(len, ..)] keeps all [len] bytes: the event's name is [len] NUL bytes. *)
Lemma unnamed_padded_yields_nuls f w pre r rest :
  fields_ok r -> r_name r = [] -> ignored r = false -> overflow r = false ->
  process (S f) w (pre ++ ser r ++ rest) (length pre) =
    (w, (length pre + length (ser r))%nat,
     Some {| v_off := length pre; v_plen := N.to_nat (r_pad r) |},
     idx4 (length pre + 12) ++ idx4 (length pre + 4)
     ++ seq (length pre + HDR) (N.to_nat (rec_len r))
     ++ seq (length pre) (HDR + N.to_nat (r_pad r)))
  /\ e_name (read_view (pre ++ ser r ++ rest)
                       {| v_off := length pre; v_plen := N.to_nat (r_pad r) |})
     = zeros (N.to_nat (r_pad r)).
Proof.
  intros Hf Hn Hi Ho. rewrite process_one_gen, Hi, Ho by exact Hf.
  assert (Hb : body r = zeros (N.to_nat (r_pad r))) by (unfold body; rewrite Hn; reflexivity).
  rewrite Hb, path_len_unnamed. split; [reflexivity|].
  unfold read_view. cbn [e_name v_off v_plen].
  rewrite sub_shift.
  assert (Hl : N.to_nat (r_pad r) = N.to_nat (rec_len r)) by (unfold rec_len; rewrite Hn; cbn [length]; lia).
  rewrite Hl, sub_body, Hb, <- Hl. reflexivity.
Qed.

(** * One read: a batch of whole records *)

(** Skip to the first user-visible record: table after the skipped IN_IGNORED records, the
    skipped records, the visible one and what follows it. *)
Fixpoint skip (w : watching) (rs : list record)
  : watching * list record * option (record * list record) :=
  match rs with
  | [] => (w, [], None)
  | r :: rs' =>
      if ignored r then
        let '(w', sk, o) := skip (w_remove (r_wd r) w) rs' in (w', r :: sk, o)
      else if overflow r then
        let '(w', sk, o) := skip w rs' in (w', r :: sk, o)
      else (w, [], Some (r, rs'))
  end.

Lemma skip_split w rs :
  match skip w rs with
  | (_, sk, Some (r, rest)) => rs = sk ++ r :: rest
  | (_, sk, None) => rs = sk
  end.
Proof.
  revert w; induction rs as [|r rs IH]; intros w; cbn [skip]; auto.
  destruct (ignored r).
  - specialize (IH (w_remove (r_wd r) w)). destruct (skip _ rs) as [[w' sk] [[r0 rest]|]]; cbn [app]; congruence.
  - destruct (overflow r); [|reflexivity].
    specialize (IH w). destruct (skip _ rs) as [[w' sk] [[r0 rest]|]]; cbn [app]; congruence.
Qed.

Lemma skip_app w a b :
  skip w (a ++ b) =
  match skip w a with
  | (w', sk, Some (r, rest)) => (w', sk, Some (r, rest ++ b))
  | (w', sk, None) => let '(w'', sk', o) := skip w' b in (w'', sk ++ sk', o)
  end.
Proof.
  revert w; induction a as [|r a IH]; intros w; cbn [app skip].
  - destruct (skip w b) as [[w'' sk'] o]. reflexivity.
  - destruct (ignored r).
    + rewrite IH. destruct (skip _ a) as [[w' sk] [[r0 rest]|]]; [reflexivity|].
      destruct (skip w' b) as [[w'' sk'] o]. reflexivity.
    + destruct (overflow r); [|reflexivity].
      rewrite IH. destruct (skip _ a) as [[w' sk] [[r0 rest]|]]; [reflexivity|].
      destruct (skip w' b) as [[w'' sk'] o]. reflexivity.
Qed.

(** [skip] against the flat specification. *)
Lemma skip_visible w rs :
  match skip w rs with
  | (w', _, Some (r, rest)) =>
      visible w rs = (VEvent (event_of r) (full_path w' r), w') :: visible w' rest
      /\ final_watch w rs = final_watch w' rest
      /\ ignored r = false /\ overflow r = false
  | (w', _, None) => visible w rs = [] /\ final_watch w rs = w'
  end.
Proof.
  revert w; induction rs as [|r rs IH]; intros w; cbn [skip visible final_watch]; auto.
  destruct (ignored r) eqn:Ei.
  - specialize (IH (w_remove (r_wd r) w)). destruct (skip _ rs) as [[w' sk] [[r0 rest]|]]; exact IH.
  - destruct (overflow r) eqn:Eo.
    + specialize (IH w). destruct (skip _ rs) as [[w' sk] [[r0 rest]|]]; exact IH.
    + rewrite Ei. auto.
Qed.

Lemma wire_app a b : wire (a ++ b) = wire a ++ wire b.
Proof. unfold wire. apply flat_map_app. Qed.
Lemma wire_cons r rs : wire (r :: rs) = ser r ++ wire rs.
Proof. reflexivity. Qed.

Lemma wire_length_ge rs : (length rs <= length (wire rs))%nat.
Proof.
  induction rs as [|r rs IH]; cbn [length]; [lia|].
  rewrite wire_cons, app_length, ser_length. unfold HDR. lia.
Qed.

(** The walk over a buffer whose unprocessed part is a list of whole well-formed records:
    it stops at the first user-visible record, having removed the watches of the IN_IGNORED
    records before it; otherwise it ends exactly at the end of the buffer. *)
Lemma process_batch : forall rs fuel w pre,
  Forall wf_record rs -> (length rs <= fuel)%nat ->
  exists g,
    inb (length (pre ++ wire rs)) g /\
    process fuel w (pre ++ wire rs) (length pre) =
      match skip w rs with
      | (w', sk, Some (r, rest)) =>
          (w', (length pre + length (wire sk) + length (ser r))%nat,
           Some {| v_off := (length pre + length (wire sk))%nat; v_plen := length (r_name r) |}, g)
      | (w', sk, None) => (w', length (pre ++ wire rs), None, g)
      end.
Proof.
  induction rs as [|r rs IH]; intros fuel w pre Hwf Hfuel.
  - exists []. split; [constructor|]. cbn [skip wire flat_map]. rewrite app_nil_r.
    destruct fuel; cbn [process]; [reflexivity|]. rewrite Nat.leb_refl. reflexivity.
  - inversion Hwf as [|? ? Hr Hrs]; subst.
    destruct fuel as [|f]; [cbn [length] in Hfuel; lia|].
    cbn [length] in Hfuel.
    rewrite wire_cons, process_one by auto.
    assert (Hbuf : pre ++ ser r ++ wire rs = (pre ++ ser r) ++ wire rs) by apply app_assoc.
    assert (Hp : (length pre + length (ser r))%nat = length (pre ++ ser r)) by (rewrite app_length; reflexivity).
    assert (Hser := ser_length r). unfold HDR in Hser.
    assert (Hpl : (length (pre ++ ser r ++ wire rs) = length pre + length (ser r) + length (wire rs))%nat)
      by (rewrite !app_length; lia).
    cbn [skip].
    destruct (ignored r).
    + destruct (IH f (w_remove (r_wd r) w) (pre ++ ser r) Hrs ltac:(lia)) as (g & Hg & Heq).
      rewrite Hbuf, Hp, Heq.
      destruct (skip (w_remove (r_wd r) w) rs) as [[w' sk] [[r0 rest]|]].
      * eexists. split; [|rewrite wire_cons, (app_length (ser r)), <- Hp, !Nat.add_assoc; reflexivity].
        rewrite <- Hbuf, Hpl. rewrite app_length in Hg.
        repeat apply inb_app; try apply inb_idx4; try lia. rewrite <- Hp in Hg. exact Hg.
      * eexists. split; [|reflexivity].
        rewrite <- Hbuf, Hpl. rewrite app_length in Hg.
        repeat apply inb_app; try apply inb_idx4; try lia. rewrite <- Hp in Hg. exact Hg.
    + destruct (overflow r).
      * destruct (IH f w (pre ++ ser r) Hrs ltac:(lia)) as (g & Hg & Heq).
        rewrite Hbuf, Hp, Heq.
        destruct (skip w rs) as [[w' sk] [[r0 rest]|]].
        -- eexists. split; [|rewrite wire_cons, (app_length (ser r)), <- Hp, !Nat.add_assoc; reflexivity].
           rewrite <- Hbuf, Hpl. rewrite app_length in Hg.
           repeat apply inb_app; try apply inb_idx4; try lia. rewrite <- Hp in Hg. exact Hg.
        -- eexists. split; [|reflexivity].
           rewrite <- Hbuf, Hpl. rewrite app_length in Hg.
           repeat apply inb_app; try apply inb_idx4; try lia. rewrite <- Hp in Hg. exact Hg.
      * eexists. split; [|cbn [wire flat_map length]; rewrite Nat.add_0_r; reflexivity].
        rewrite Hpl.
        assert (Hnm : (length (r_name r) <= N.to_nat (rec_len r))%nat) by (unfold rec_len; lia).
        repeat apply inb_app; try apply inb_idx4; try apply inb_seq; unfold HDR; lia.
Qed.

(** * [path_for] *)
Lemma path_for_full w r : name_ok (r_name r) -> path_for w (event_of r) = full_path w r.
Proof.
  intros [_ Hn]. unfold path_for, full_path, event_of. cbn [e_wd e_name].
  destruct (w_get (r_wd r) w) as [base|]; [|reflexivity].
  destruct (r_name r) as [|b l]; [reflexivity|].
  inversion Hn as [|? ? (_ & Hb & _) _]; subst.
  unfold path_join, starts_with_sep.
  destruct (N.eqb_spec b SEP); [congruence|reflexivity].
Qed.

(** * The iterator against the records still to be delivered *)

(** [rep s rem t]: in state [s] the records not yet walked are [rem] (rest of the current
    buffer, then the batches the kernel will still deliver before the stream ends with [t]). *)
Inductive rep : st -> list record -> ival -> Prop :=
| rep_proc w done rest sc mem buf p :
    buf = wire (done ++ rest) -> p = length (wire done) ->
    Forall wf_record rest -> Forall wf_rd sc ->
    (exists tl, mem = buf ++ tl) ->
    rep {| s_watch := w; s_phase := PProcessing buf p; s_mem := mem; s_reads := map wire_rd sc |}
        (rest ++ live sc) (term sc)
| rep_read w sc mem :
    Forall wf_rd sc ->
    rep {| s_watch := w; s_phase := PReading; s_mem := mem; s_reads := map wire_rd sc |}
        (live sc) (term sc)
| rep_done w mem rds :
    rep {| s_watch := w; s_phase := PDone; s_mem := mem; s_reads := rds |} [] VNone.

(** The reference handed out reads, through the buffer's memory, what was handed out. *)
Definition fresh_ok (r : polled) : Prop :=
  forall v e pth, p_item r = IEvent v e pth -> reread (p_state r) v = Some e.

Definition step_ok (w : watching) (rem : list record) (t : ival) (r : polled) : Prop :=
  touches_ok r /\ fresh_ok r /\
  match skip w rem with
  | (w', _, Some (r0, rem')) =>
      item_val (p_item r) = VEvent (event_of r0) (full_path w' r0)
      /\ s_watch (p_state r) = w' /\ rep (p_state r) rem' t
  | (w', _, None) =>
      item_val (p_item r) = t /\ s_watch (p_state r) = w' /\ rep (p_state r) [] (after t)
  end.

Lemma tag_ok n g : inb n g -> Forall (fun x : nat * nat => (fst x < snd x)%nat) (tag n g).
Proof. unfold inb, tag. intros H. apply Forall_map. eapply Forall_impl; [|exact H]. cbn. auto. Qed.

Lemma wire_single r : wire [r] = ser r.
Proof. cbn [wire flat_map]. apply app_nil_r. Qed.

Lemma is_nil_wire r rs : is_nil (wire (r :: rs)) = false.
Proof. rewrite wire_cons, ser_split. reflexivity. Qed.

Lemma fresh_ok_not_event r : (forall v e pth, p_item r <> IEvent v e pth) -> fresh_ok r.
Proof. intros H v e pth E. destruct (H v e pth E). Qed.

Lemma from_reading_spec : forall sc w mem nr g,
  Forall wf_rd sc -> Forall (fun x : nat * nat => (fst x < snd x)%nat) g ->
  step_ok w (live sc) (term sc) (from_reading w mem (map wire_rd sc) nr g).
Proof.
  induction sc as [|x sc IH]; intros w mem nr g Hsc Hg.
  - split; [exact Hg|]. split; [apply fresh_ok_not_event; cbn [map from_reading p_item]; discriminate|].
    cbn [live skip term map from_reading p_item p_state s_watch item_val after].
    repeat split. apply (rep_read w [] mem). constructor.
  - inversion Hsc as [|? ? Hx Hsc']; subst. destruct x as [[|r1 rs]|e].
    + (* 0-byte read *)
      split; [exact Hg|].
      split; [apply fresh_ok_not_event; cbn [map wire_rd wire flat_map from_reading is_nil p_item]; discriminate|].
      cbn [live skip term map wire_rd wire flat_map from_reading is_nil p_item p_state s_watch item_val after].
      repeat split. apply rep_done.
    + (* a batch *)
      cbn [map wire_rd from_reading]. rewrite is_nil_wire.
      cbn [wf_rd] in Hx.
      destruct (process_batch (r1 :: rs) (length (wire (r1 :: rs))) w [] Hx (wire_length_ge _))
        as (g0 & Hg0 & Heq).
      change ([] ++ wire (r1 :: rs)) with (wire (r1 :: rs)) in *.
      change (length (@nil N)) with 0%nat in *.
      rewrite Heq. clear Heq.
      unfold step_ok. cbn [live term]. rewrite skip_app.
      pose proof (skip_split w (r1 :: rs)) as Hsplit.
      destruct (skip w (r1 :: rs)) as [[w' sk] [[r0 rest]|]].
      * cbv beta iota zeta. cbn [p_touch p_item p_state s_watch item_val].
        assert (Hwf0 : wf_record r0 /\ Forall wf_record rest).
        { rewrite Hsplit in Hx. apply Forall_app in Hx. destruct Hx as [_ Hx].
          inversion Hx; auto. }
        destruct Hwf0 as [Hr0 Hrest].
        split; [apply Forall_app; split; [exact Hg|apply tag_ok; exact Hg0]|].
        rewrite Nat.add_0_l.
        assert (Hrv : read_view (wire (r1 :: rs))
                        {| v_off := length (wire sk); v_plen := length (r_name r0) |} = event_of r0).
        { rewrite Hsplit, wire_app, wire_cons. apply read_view_record. exact Hr0. }
        rewrite Hrv, path_for_full by apply Hr0.
        split.
        { intros v e pth E. cbn [p_item] in E. injection E as Ev Ee Ep. subst v e pth.
          unfold reread, overlay. cbn [p_state s_phase s_mem]. f_equal.
          rewrite read_view_app; [exact Hrv|]. cbn [v_off v_plen].
          rewrite Hsplit, wire_app, wire_cons, !app_length, ser_length. unfold rec_len. lia. }
        repeat split.
        apply (rep_proc w' (sk ++ [r0]) rest sc); auto.
        -- rewrite Hsplit, <- app_assoc. reflexivity.
        -- rewrite wire_app, wire_single, app_length. reflexivity.
        -- unfold overlay. eexists. reflexivity.
      * cbv beta iota zeta.
        specialize (IH w' (overlay (wire (r1 :: rs)) mem) (S nr)
                       (g ++ tag (length (wire (r1 :: rs))) g0) Hsc'
                       ltac:(apply Forall_app; split; [exact Hg|apply tag_ok; exact Hg0])).
        unfold step_ok in IH.
        destruct (skip w' (live sc)) as [[w'' sk'] [[r0 rest]|]]; exact IH.
    + (* failed read *)
      cbn [live term map wire_rd from_reading]. destruct (op_restarts e).
      * apply IH; auto.
      * split; [exact Hg|].
        split; [apply fresh_ok_not_event; cbn [p_item]; discriminate|].
        cbn [skip p_item p_state s_watch item_val after].
        repeat split. apply rep_done.
Qed.

Lemma wf_live sc : Forall wf_rd sc -> Forall wf_record (live sc).
Proof.
  induction 1 as [|x sc Hx Hsc IH]; cbn [live]; [constructor|].
  destruct x as [[|r rs]|e]; try constructor.
  - cbn [wf_rd] in Hx. inversion Hx; auto.
  - apply Forall_app. cbn [wf_rd] in Hx. inversion Hx; auto.
  - destruct (op_restarts e); [exact IH|constructor].
Qed.

(** One [next()] from any reachable state. *)
Lemma next_spec s rem t : rep s rem t -> step_ok (s_watch s) rem t (next s).
Proof.
  intros H. destruct H as [w done rest sc mem buf p Hbuf Hp Hrest Hsc Hmem | w sc mem Hsc | w mem rds].
  - unfold next. cbn [s_phase s_watch s_mem s_reads]. subst buf p. destruct Hmem as [tl ->].
    rewrite wire_app.
    destruct (process_batch rest (length (wire done ++ wire rest)) w (wire done) Hrest
                ltac:(rewrite app_length; pose proof (wire_length_ge rest); lia))
      as (g0 & Hg0 & Heq).
    rewrite Heq. clear Heq.
    unfold step_ok. rewrite skip_app.
    pose proof (skip_split w rest) as Hsplit.
    destruct (skip w rest) as [[w' sk] [[r0 rest0]|]].
    + cbv beta iota zeta. cbn [p_touch p_item p_state s_watch item_val].
      assert (Hwf0 : wf_record r0 /\ Forall wf_record rest0).
      { rewrite Hsplit in Hrest. apply Forall_app in Hrest. destruct Hrest as [_ Hx].
        inversion Hx; auto. }
      destruct Hwf0 as [Hr0 Hrest0].
      split; [apply tag_ok; exact Hg0|].
      assert (Hrv : read_view (wire done ++ wire rest)
                      {| v_off := (length (wire done) + length (wire sk))%nat;
                         v_plen := length (r_name r0) |} = event_of r0).
      { rewrite Hsplit, wire_app, wire_cons, app_assoc, <- app_length.
        apply read_view_record. exact Hr0. }
      rewrite Hrv, path_for_full by apply Hr0.
      split.
      { intros v e pth E. cbn [p_item] in E. injection E as Ev Ee Ep. subst v e pth.
        unfold reread. cbn [p_state s_phase s_mem]. f_equal.
        rewrite read_view_app; [exact Hrv|]. cbn [v_off v_plen].
        rewrite Hsplit, wire_app, wire_cons, !app_length, ser_length. unfold rec_len. lia. }
      repeat split.
      apply (rep_proc w' (done ++ sk ++ [r0]) rest0 sc); auto.
      * rewrite Hsplit, <- wire_app, <- !app_assoc. reflexivity.
      * rewrite !wire_app, wire_single, !app_length, Nat.add_assoc. reflexivity.
      * exists tl. reflexivity.
    + cbv beta iota zeta.
      pose proof (from_reading_spec sc w' ((wire done ++ wire rest) ++ tl) 0
                    (tag (length (wire done ++ wire rest)) g0) Hsc (tag_ok _ _ Hg0)) as IH.
      unfold step_ok in IH.
      destruct (skip w' (live sc)) as [[w'' sk'] [[r0 rest0]|]]; exact IH.
  - unfold next. cbn [s_phase s_watch s_mem s_reads].
    apply from_reading_spec; [exact Hsc|constructor].
  - unfold next, step_ok. cbn [s_phase skip p_touch p_item p_state s_watch item_val after].
    split; [constructor|]. split; [apply fresh_ok_not_event; cbn [p_item]; discriminate|].
    repeat split. apply rep_done.
Qed.

(** * Any number of polls *)
Lemma firstn_repeat_le {A} (x : A) k n : (k <= n)%nat -> firstn k (repeat x n) = repeat x k.
Proof.
  revert n; induction k as [|k IH]; intros n Hk; [reflexivity|].
  destruct n as [|n]; [lia|]. cbn [repeat firstn]. rewrite IH by lia. reflexivity.
Qed.

Lemma firstn_app_repeat {A} (x : A) l k n m :
  (k <= n)%nat -> (k <= m)%nat -> firstn k (l ++ repeat x n) = firstn k (l ++ repeat x m).
Proof.
  revert k; induction l as [|a l IH]; intros k Hn Hm; cbn [app].
  - rewrite !firstn_repeat_le by lia. reflexivity.
  - destruct k as [|k]; [reflexivity|]. cbn [firstn]. rewrite (IH k) by lia. reflexivity.
Qed.

Definition flat (w : watching) (rem : list record) (t : ival) (k : nat) : list (ival * watching) :=
  visible w rem ++ (t, final_watch w rem) :: repeat (after t, final_watch w rem) k.

Lemma after_after t : after (after t) = after t.
Proof. destruct t; reflexivity. Qed.

Lemma flat_more w rem t k n : (k <= n)%nat -> firstn k (flat w rem t n) = firstn k (flat w rem t k).
Proof.
  intros Hk. unfold flat.
  change (visible w rem ++ (t, final_watch w rem) :: repeat (after t, final_watch w rem) n)
    with (visible w rem ++ [(t, final_watch w rem)] ++ repeat (after t, final_watch w rem) n).
  change (visible w rem ++ (t, final_watch w rem) :: repeat (after t, final_watch w rem) k)
    with (visible w rem ++ [(t, final_watch w rem)] ++ repeat (after t, final_watch w rem) k).
  rewrite !app_assoc. apply firstn_app_repeat; lia.
Qed.

Lemma poll_n_spec : forall k s rem t,
  rep s rem t ->
  map pv (poll_n k s) = firstn k (flat (s_watch s) rem t k)
  /\ Forall (fun r => touches_ok r /\ fresh_ok r) (poll_n k s).
Proof.
  induction k as [|k IH]; intros s rem t Hrep; [split; [reflexivity|constructor]|].
  cbn [poll_n map].
  destruct (next_spec s rem t Hrep) as [Htouch [Hfresh Hstep]].
  pose proof (skip_visible (s_watch s) rem) as Hvis.
  destruct (skip (s_watch s) rem) as [[w' sk] [[r0 rem']|]].
  - destruct Hstep as (Hitem & Hw & Hrep'). destruct Hvis as (Hv & Hf & _).
    destruct (IH _ _ _ Hrep') as [IHv IHt].
    split; [|constructor; auto].
    unfold flat. rewrite Hv, Hf. cbn [app firstn]. f_equal.
    + unfold pv. rewrite Hitem, Hw. reflexivity.
    + rewrite IHv, Hw. fold (flat w' rem' t (S k)). fold (flat w' rem' t k).
      symmetry. apply flat_more. lia.
  - destruct Hstep as (Hitem & Hw & Hrep'). destruct Hvis as (Hv & Hf).
    destruct (IH _ _ _ Hrep') as [IHv IHt].
    split; [|constructor; auto].
    unfold flat. rewrite Hv, Hf. cbn [app firstn]. f_equal.
    + unfold pv. rewrite Hitem, Hw. reflexivity.
    + rewrite IHv, Hw. unfold flat. cbn [visible final_watch app]. rewrite after_after.
      change ((after t, w') :: repeat (after t, w') k) with (repeat (after t, w') (S k)).
      rewrite !firstn_repeat_le by lia. reflexivity.
Qed.

Theorem events_decoded_exactly_holds : events_decoded_exactly.
Proof.
  intros w sc k Hsc.
  apply (poll_n_spec k (init w (map wire_rd sc)) (live sc) (term sc)).
  apply rep_read. exact Hsc.
Qed.

Theorem reads_in_bounds_holds : reads_in_bounds.
Proof.
  intros w sc k Hsc.
  destruct (poll_n_spec k (init w (map wire_rd sc)) (live sc) (term sc)) as [_ H].
  { apply rep_read. exact Hsc. }
  eapply Forall_impl; [|exact H]. cbn. tauto.
Qed.

(** An event reads through its reference, at the moment it is handed out, what was handed out
    (and by [event_stable_until_next_read] keeps doing so until the next read starts). *)
Definition event_valid_when_handed_out : Prop :=
  forall (w : watching) (sc : list rdspec) (k : nat),
    Forall wf_rd sc -> Forall fresh_ok (poll_n k (init w (map wire_rd sc))).

Theorem event_valid_when_handed_out_holds : event_valid_when_handed_out.
Proof.
  intros w sc k Hsc.
  destruct (poll_n_spec k (init w (map wire_rd sc)) (live sc) (term sc)) as [_ H].
  { apply rep_read. exact Hsc. }
  eapply Forall_impl; [|exact H]. cbn. tauto.
Qed.

(** * Fuel: [length buf] iterations are always enough (any bytes) *)
Lemma process_fuel_irrelevant buf : forall n fuel w p,
  (length buf - p <= n)%nat -> (n <= fuel)%nat -> process fuel w buf p = process n w buf p.
Proof.
  induction n as [|n IH]; intros fuel w p Hn Hf.
  - destruct fuel as [|f]; [reflexivity|]. cbn [process].
    replace (length buf <=? p)%nat with true by (symmetry; apply Nat.leb_le; lia). reflexivity.
  - destruct fuel as [|f]; [lia|]. cbn [process].
    destruct (Nat.leb_spec (length buf) p); [reflexivity|].
    unfold HDR.
    destruct (negb (N.land (le32_at buf (p + 4)) IN_IGNORED =? 0)).
    + rewrite (IH f) by lia. reflexivity.
    + destruct (negb (N.land (le32_at buf (p + 4)) IN_Q_OVERFLOW =? 0)); [|reflexivity].
      rewrite (IH f) by lia. reflexivity.
Qed.

(** * The kernel's exact padding *)
Lemma kernel_exact_pads r : kernel_exact r -> kernel_pads r.
Proof.
  unfold kernel_exact, kernel_pads, rec_len, kernel_len. intros H Hn. rewrite Hn in H.
  cbn [length N.of_nat N.eqb] in H. lia.
Qed.

Lemma kernel_exact_nul_terminated r : kernel_exact r -> r_name r <> [] -> 1 <= r_pad r.
Proof.
  unfold kernel_exact, rec_len, kernel_len. intros H Hn.
  destruct (N.eqb_spec (N.of_nat (length (r_name r))) 0) as [E|E].
  - destruct (r_name r); [congruence|cbn [length] in E; lia].
  - lia.
Qed.

(** [BUF_SIZE] holds the largest record (and a 255-byte name needs all of it). *)
Lemma kernel_record_fits_buf r :
  name_ok (r_name r) -> kernel_exact r -> (length (ser r) <= BUF_SIZE)%nat.
Proof.
  unfold name_ok, kernel_exact, kernel_len, NAME_MAX, BUF_SIZE. intros [Hl _] H.
  rewrite ser_length, H. unfold HDR.
  destruct (N.eqb_spec (N.of_nat (length (r_name r))) 0); lia.
Qed.

(** Records stay 16-byte aligned in the buffer (the header is read through a
    [*const inotify_event], alignment 4). *)
Lemma kernel_record_aligned r : kernel_exact r -> (length (ser r) mod 16 = 0)%nat.
Proof.
  unfold kernel_exact, kernel_len. intros H. rewrite ser_length, H. unfold HDR.
  destruct (N.eqb_spec (N.of_nat (length (r_name r))) 0); [reflexivity|].
  assert (E : exists q, N.to_nat ((N.of_nat (length (r_name r)) + 1 + 15) / 16 * 16) = (q * 16)%nat).
  { exists (N.to_nat ((N.of_nat (length (r_name r)) + 1 + 15) / 16)). lia. }
  destruct E as [q ->]. replace (16 + q * 16)%nat with ((1 + q) * 16)%nat by lia.
  apply Nat.mod_mul. lia.
Qed.

(** * How long an event stays valid *)
Lemma from_reading_nreads : forall reads w mem nr g, (nr < p_nreads (from_reading w mem reads nr g))%nat.
Proof.
  induction reads as [|x reads IH]; intros w mem nr g; cbn [from_reading p_nreads]; [lia|].
  destruct x as [bs|e];
    [|destruct (op_restarts e); [specialize (IH w mem (S nr) g); lia|cbn [p_nreads]; lia]].
  destruct (is_nil bs); [cbn [p_nreads]; lia|].
  destruct (process (length bs) w bs 0) as [[[w' p'] [v|]] gt]; [cbn [p_nreads]; lia|].
  specialize (IH w' (overlay bs mem) (S nr) (g ++ tag (length bs) gt)). lia.
Qed.

(** Until the iterator starts its next read nothing an earlier reference shows changes. *)
Lemma event_stable_until_next_read s v :
  p_nreads (next s) = 0%nat -> reread (p_state (next s)) v = reread s v.
Proof.
  unfold next. destruct s as [w ph mem reads]. cbn [s_phase s_watch s_mem s_reads].
  destruct ph as [|buf p|].
  - intros H. pose proof (from_reading_nreads reads w mem 0 []). lia.
  - destruct (process (length buf) w buf p) as [[[w' p'] [v'|]] gt].
    + intros _. reflexivity.
    + intros H. pose proof (from_reading_nreads reads w' mem 0 (tag (length buf) gt)). lia.
  - intros _. reflexivity.
Qed.

(** The clause of C17 that does not hold: an event handed out by poll [i] still reads the same
    after poll [j >= i], for as long as the caller can hold it. ([poll_next] returns
    [&'w Event]: the lifetime of the borrow of the [Watcher], not of the [&mut Events]
    passed to [poll_next]; safe code can keep it across later polls and across dropping the
    iterator.) *)
Definition event_validity : Prop :=
  forall (w : watching) (sc : list rdspec) (i j : nat) v e pth ri rj,
    Forall wf_rd sc -> (i <= j)%nat ->
    nth_error (poll_n (S j) (init w (map wire_rd sc))) i = Some ri ->
    p_item ri = IEvent v e pth ->
    nth_error (poll_n (S j) (init w (map wire_rd sc))) j = Some rj ->
    reread (p_state rj) v = Some e.

Definition wA : watching := [(1%Z, [100])].
Definition rA : record := {| r_wd := 1; r_mask := 256; r_cookie := 0; r_name := [97]; r_pad := 15 |}.
Definition rB : record := {| r_wd := 1; r_mask := 512; r_cookie := 0; r_name := [98]; r_pad := 15 |}.

Ltac wf_tac :=
  repeat first [apply Forall_cons | apply Forall_nil];
  unfold wf_rd, wf_record, name_ok, kernel_pads, fields_ok, rec_len, NAME_MAX, SEP, two32;
  cbn;
  repeat first [apply Forall_cons | apply Forall_nil | split]; try lia; try discriminate; try exact I.

Lemma wf_rA : wf_record rA. Proof. wf_tac. Qed.
Lemma wf_rB : wf_record rB. Proof. wf_tac. Qed.

Lemma wf_scAB : Forall wf_rd [Batch [rA]; Batch [rB]].
Proof.
  repeat apply Forall_cons; try apply Forall_nil; cbn [wf_rd];
  repeat apply Forall_cons; try apply Forall_nil; first [apply wf_rA | apply wf_rB].
Qed.
Lemma wf_scA0 : Forall wf_rd [Batch [rA]; Batch []].
Proof.
  repeat apply Forall_cons; try apply Forall_nil; cbn [wf_rd];
  repeat apply Forall_cons; try apply Forall_nil; apply wf_rA.
Qed.

(** History [read A; yield a; read B]: the reference to [a] was good when handed out and now
    shows [b]. *)
Lemma h10_overwritten_witness :
  exists w sc,
    Forall wf_rd sc /\
    match poll_n 2 (init w (map wire_rd sc)) with
    | [ri; rj] =>
        match p_item ri with
        | IEvent v e _ =>
            reread (p_state ri) v = Some e
            /\ e = event_of rA
            /\ reread (p_state rj) v = Some (event_of rB)
            /\ reread (p_state rj) v <> Some e
        | _ => False
        end
    | _ => False
    end.
Proof.
  exists wA, [Batch [rA]; Batch [rB]]. split; [exact wf_scAB|].
  vm_compute. repeat split. discriminate.
Qed.

(** History [read A; yield a; read 0 bytes]: the buffer is freed, the reference dangles. *)
Lemma h10_dangling_witness :
  exists w sc,
    Forall wf_rd sc /\
    match poll_n 2 (init w (map wire_rd sc)) with
    | [ri; rj] =>
        match p_item ri with
        | IEvent v e _ => p_item rj = INone /\ reread (p_state rj) v = None
        | _ => False
        end
    | _ => False
    end.
Proof.
  exists wA, [Batch [rA]; Batch []]. split; [exact wf_scA0|].
  vm_compute. repeat split.
Qed.

Theorem event_validity_h10_refuted : ~ event_validity.
Proof.
  intros H.
  destruct h10_overwritten_witness as (w & sc & Hwf & Hw).
  specialize (H w sc 0%nat 1%nat).
  destruct (poll_n 2 (init w (map wire_rd sc))) as [|ri [|rj [|? ?]]]; try contradiction.
  destruct (p_item ri) as [v e pth| | |] eqn:Ei; try contradiction.
  destruct Hw as (_ & _ & _ & Hne).
  apply Hne. apply (H v e pth ri rj Hwf); auto.
Qed.

(** * The hypotheses are satisfiable; concrete instances *)
Definition r_ign : record := {| r_wd := 1; r_mask := IN_IGNORED; r_cookie := 0; r_name := []; r_pad := 0 |}.
Definition r_ovf : record := {| r_wd := -1; r_mask := IN_Q_OVERFLOW; r_cookie := 0; r_name := []; r_pad := 0 |}.
Definition r_self : record := {| r_wd := 1; r_mask := 1024; r_cookie := 0; r_name := []; r_pad := 0 |}.

Example wf_inputs_exist :
  Forall wf_rd [Batch [rA; r_ovf; r_self]; Batch [r_ign; rB]; Batch []].
Proof. repeat apply Forall_cons; try apply Forall_nil; wf_tac. Qed.

Example decoded_example :
  map pv (poll_n 5 (init wA (map wire_rd [Batch [rA; r_ovf; r_self]; Batch [r_ign; rB]; Batch []])))
  = [(VEvent (event_of rA) [100; 47; 97], wA);
     (VEvent (event_of r_self) [100], wA);
     (VEvent (event_of rB) [98], []);
     (VNone, []); (VNone, [])].
Proof. vm_compute. reflexivity. Qed.

Example kernel_exact_example : kernel_exact rA /\ length (ser rA) = 32%nat.
Proof. split; reflexivity. Qed.

(** A 255-byte name fills the buffer exactly. *)
Example buf_size_is_tight :
  let r := {| r_wd := 1; r_mask := 256; r_cookie := 0; r_name := repeat 97 255; r_pad := 1 |} in
  kernel_exact r /\ length (ser r) = BUF_SIZE.
Proof. split; vm_compute; reflexivity. Qed.

(** The never-emitted shape, concretely: no name, [len = 16]: the name is 16 NULs and the path
    is the watched path joined with them. *)
Example unnamed_padded_example :
  map pv (poll_n 1 (init wA [RBytes (ser {| r_wd := 1; r_mask := 1024; r_cookie := 0; r_name := []; r_pad := 16 |})]))
  = [(VEvent {| e_wd := 1; e_mask := 1024; e_cookie := 0; e_name := zeros 16 |}
             ([100; 47] ++ zeros 16), wA)].
Proof. vm_compute. reflexivity. Qed.

(** Proofs about Model/OpState.v, part 3: wake-ups (C03, single-threaded half). *)
From A10 Require Import Base.Word Base.Run Model.OpState Proofs.OpStateInv.
From Coq Require Import ZifyN ZifyBool ZifyNat.
Ltac Zify.zify_post_hook ::= Z.div_mod_to_equations.
Local Open Scope nat_scope.

(** ** Statements *)

(** The ghost [g_lastw] is, by the three clauses (G1)-(G3) below, "the waker given to the most
    recent poll of the operation that returned Pending with the operation running (i.e. by
    registering the waker, not by parking on the queue-full list), unless a readying completion
    (final for single-shot, any for multishot) has been processed since".

    C03(a): in every state reachable from [init] (by ANY history) the registered waker of every
    operation IS that waker; processing a readying completion of a running operation wakes it
    and a non-readying one keeps it registered; hence the [RingPoll] that processes the first
    readying completion of a running operation with registered waker [w] emits [OWake w]. *)
Definition readying_completion_wakes_latest_waker : Prop :=
  (* invariant *)
  (forall cap0 kinds es, let s := fst (run step (init cap0 kinds) es) in
     forall i o, nth_error (ops s) i = Some o -> waker o = g_lastw o)
  (* (G1)/(G2): a poll sets the ghost to its own waker exactly when it returns Pending with the
     operation running; the other events on the API side leave it alone *)
  /\ (forall s i w o, nth_error (ops s) i = Some o ->
        exists o', nth_error (ops (fst (poll s i w))) i = Some o'
          /\ g_lastw o' = (if match snd (poll s i w), st o' with
                              | [OPending], Running _ => true
                              | _, _ => false
                              end then Some w else g_lastw o))
  /\ (forall s i o, nth_error (ops s) i = Some o ->
        exists o', nth_error (ops (fst (drop_op s i))) i = Some o' /\ g_lastw o' = g_lastw o)
  (* (G3) and the one-step lemma about [update] *)
  /\ (forall s i c o rs, nth_error (ops s) i = Some o -> st o = Running rs ->
        exists o', nth_error (ops (fst (update s i c))) i = Some o'
          /\ if readying (kd o) c
             then g_lastw o' = None /\ waker o' = None
                  /\ snd (update s i c) = match waker o with Some w => [OWake w] | None => [] end
             else g_lastw o' = g_lastw o /\ waker o' = waker o /\ snd (update s i c) = []
                  /\ exists rs', st o' = Running rs')
  (* a step on another operation does not touch this one *)
  /\ (forall s i j c, j <> i -> nth_error (ops (fst (update s j c))) i = nth_error (ops s) i)
  (* the ring poll that processes the (first) readying completion wakes the latest waker *)
  /\ (forall s i o rs w c, nth_error (ops s) i = Some o -> st o = Running rs -> waker o = Some w ->
        In (Some i, c) (cq s) -> readying (kd o) c = true ->
        In (OWake w) (snd (ring_poll s))).

(** C03(b), single-threaded half: a poll that has to submit (first poll, or the re-issue after
    EINTR/ECANCELED) and finds the queue full parks its waker at the end of [blocked] and
    submits nothing; a ring poll that enters the kernel (no completion pending) and whose enter
    reports success wakes the first [min cap |blocked|] parked wakers, in order, and keeps the
    rest; otherwise it wakes no parked waker. Completion processing does not touch [blocked];
    the poll ends (repair of H15) with one more [wake_blocked] on the state after processing. *)
Definition queue_full_waiter_is_parked : Prop :=
  (forall s i w o o1, nth_error (ops s) i = Some o -> has_room s = false ->
     let r := poll_start s i o1 w in
     snd r = [OPending] /\ blocked (fst r) = blocked s ++ [w] /\ sq (fst r) = sq s
     /\ nth_error (ops (fst r)) i = Some o1)
  /\ (forall s i w o, nth_error (ops s) i = Some o -> st o = NotStarted ->
        poll s i w = poll_start s i o w)
  /\ (forall s,
        let entered := fold_left kconsume (sq s) (take_sq s) in
        let n := N.to_nat (cap s) in
        (cq s = [] -> (sq s <> [] \/ cq entered <> []) ->
           snd (phase1 s) = map OConsumed (sq s) ++ map OWake (firstn n (blocked s))
           /\ blocked (fst (phase1 s)) = skipn n (blocked s)
           /\ length (firstn n (blocked s)) = Nat.min n (length (blocked s)))
        /\ (cq s = [] -> sq s = [] -> cq entered = [] ->
              snd (phase1 s) = [] /\ blocked (fst (phase1 s)) = blocked s)
        /\ (cq s <> [] -> phase1 s = (s, []))
        /\ (let s2 := fst (process (length (cq (fst (phase1 s)))) (fst (phase1 s))) in
            blocked s2 = blocked (fst (phase1 s))
            /\ blocked (fst (ring_poll s)) = blocked (fst (wake_blocked s2))
            /\ snd (ring_poll s)
               = snd (phase1 s) ++ snd (process (length (cq (fst (phase1 s)))) (fst (phase1 s)))
                 ++ snd (wake_blocked s2))).

(** C03(b), what the repair of H15 adds: every ring poll ends by waking parked wakers for the
    submission slots free at that moment ([avail]), oldest first. So a waker stays parked after
    a ring poll only if every free slot has been matched by a wake-up of an older waiter, and
    the OLDEST parked waker is woken by any ring poll that ends with room in the queue — whether
    or not any operation completes. (With more parked wakers than free slots the younger ones
    wait for a later poll: [parked_only_if_queue_full] below does not hold.) *)
Definition end_of_poll_wakes_parked : Prop :=
  forall s,
    let s2 := fst (process (length (cq (fst (phase1 s)))) (fst (phase1 s))) in
    let s' := fst (ring_poll s) in
    let avail := N.to_nat (cap s2 - N.of_nat (length (sq s2))) in
    (sq s' = sq s2 /\ cap s' = cap s /\ cap s2 = cap s)
    /\ snd (wake_blocked s2) = map OWake (firstn avail (blocked s2))
    /\ blocked s' = skipn avail (blocked s2)
    /\ (blocked s' <> [] ->
          length (firstn avail (blocked s2)) = avail
          /\ avail = N.to_nat (cap s' - N.of_nat (length (sq s'))))
    /\ (forall w r, blocked s = w :: r -> has_room s' = true -> In (OWake w) (snd (ring_poll s))).

(** The stronger reading "after a ring poll a waker is parked only if the queue is full" is
    false of the code: with one slot and three parked wakers a ring poll wakes two of them (one
    after [enter], one at the end) and leaves the third parked although the queue is empty; it
    is woken by the next poll. *)
Definition parked_only_if_queue_full : Prop :=
  forall cap0 kinds es, valid (init cap0 kinds) es ->
    let s' := fst (run step (init cap0 kinds) (es ++ [RingPoll])) in
    blocked s' <> [] -> (cap s' <= N.of_nat (length (sq s')))%N.

(** ** Effects of the elementary functions on the table *)

Lemma update_other s i j c : j <> i -> nth_error (ops (fst (update s j c))) i = nth_error (ops s) i.
Proof.
  intros Hji. unfold update. destruct (nth_error (ops s) j) as [o|] eqn:Hj; [|reflexivity].
  assert (Hset : forall o', nth_error (ops (set_op s j o')) i = nth_error (ops s) i).
  { intros o'. rewrite nth_error_set_op by (eapply nth_error_lt; eauto).
    destruct (Nat.eqb_spec i j); [congruence|reflexivity]. }
  destruct (st o); cbn [fst]; auto.
  - destruct (negb (more c) || _); [destruct (waker o)|]; cbn [fst]; apply Hset.
  - destruct (negb (more c) || _); [destruct (waker o)|]; cbn [fst]; apply Hset.
  - destruct (more c); cbn [fst]; apply Hset.
Qed.

Lemma update_cq s i c : cq (fst (update s i c)) = cq s.
Proof.
  unfold update. destruct (nth_error (ops s) i) as [o|]; [|reflexivity].
  destruct (st o); try reflexivity.
  - destruct (negb (more c) || _); [destruct (waker o)|]; reflexivity.
  - destruct (negb (more c) || _); [destruct (waker o)|]; reflexivity.
  - destruct (more c); reflexivity.
Qed.

Lemma update_blocked s i c : blocked (fst (update s i c)) = blocked s.
Proof.
  unfold update. destruct (nth_error (ops s) i) as [o|]; [|reflexivity].
  destruct (st o); try reflexivity.
  - destruct (negb (more c) || _); [destruct (waker o)|]; reflexivity.
  - destruct (negb (more c) || _); [destruct (waker o)|]; reflexivity.
  - destruct (more c); reflexivity.
Qed.

Lemma process_blocked f : forall s, blocked (fst (process f s)) = blocked s.
Proof.
  induction f as [|f IH]; intros s; cbn [process]; [reflexivity|].
  destruct (cq s) as [|[t c] r]; [reflexivity|]. destruct t as [i|].
  - pose proof (update_blocked (pop_cq s (Some i) c r) i c) as Hu.
    destruct (update (pop_cq s (Some i) c r) i c) as [s1 o1]. cbn [fst] in Hu.
    specialize (IH s1). destruct (process f s1) as [s2 o2]. cbn [fst pop_cq blocked] in *. congruence.
  - rewrite IH. reflexivity.
Qed.

(** One step of [update] on a running operation. *)
Lemma update_running s i c o rs :
  nth_error (ops s) i = Some o -> st o = Running rs ->
  exists o', nth_error (ops (fst (update s i c))) i = Some o'
    /\ if readying (kd o) c
       then g_lastw o' = None /\ waker o' = None
            /\ snd (update s i c) = match waker o with Some w => [OWake w] | None => [] end
       else g_lastw o' = g_lastw o /\ waker o' = waker o /\ snd (update s i c) = []
            /\ exists rs', st o' = Running rs'.
Proof.
  intros Hi Hr. pose proof (nth_error_lt _ _ _ Hi) as Hlt. unfold update. rewrite Hi, Hr.
  unfold readying.
  destruct (negb (more c) || match kd o with Multi => true | Single => false end) eqn:Erd.
  - destruct (waker o) as [w|] eqn:Ew; cbn [fst snd];
      rewrite nth_error_set_op, Nat.eqb_refl by exact Hlt; eexists; (split; [reflexivity|]);
      op_cbn; rewrite ?Erd; auto.
  - cbn [fst snd]. rewrite nth_error_set_op, Nat.eqb_refl by exact Hlt.
    eexists; split; [reflexivity|]. op_cbn. repeat split.
    apply orb_false_iff in Erd. destruct Erd as [Em _]. rewrite Em. eauto.
Qed.

(** ** The registered waker is the ghost "latest pending poll" waker *)

Definition tracks (o o' : op) : Prop := waker o = g_lastw o -> waker o' = g_lastw o'.

Lemma tracks_refl o : tracks o o.
Proof. unfold tracks. auto. Qed.
Lemma tracks_trans a b c : tracks a b -> tracks b c -> tracks a c.
Proof. unfold tracks. auto. Qed.

Ltac tracks_leaf := unfold tracks; op_cbn; auto.

Lemma poll_start_tracks s i o o1 w :
  nth_error (ops s) i = Some o -> tracks o o1 -> ops_rel tracks s (fst (poll_start s i o1 w)).
Proof.
  intros Hi Ho. unfold poll_start. destruct (has_room s); cbn [fst].
  - eapply ops_rel_ext; [|apply (ops_rel_set_op tracks s i o); [exact tracks_refl|exact Hi|]];
      [reflexivity|]. tracks_leaf.
  - eapply ops_rel_ext; [|apply (ops_rel_set_op tracks s i o); [exact tracks_refl|exact Hi|exact Ho]].
    reflexivity.
Qed.

Lemma poll_tracks s i w : ops_rel tracks s (fst (poll s i w)).
Proof.
  unfold poll. destruct (nth_error (ops s) i) as [o|] eqn:Hi;
    [|apply ops_rel_same; [exact tracks_refl|reflexivity]].
  assert (Hset : forall o', tracks o o' -> ops_rel tracks s (set_op s i o')).
  { intros o' Ho'. apply (ops_rel_set_op tracks s i o); auto using tracks_refl. }
  assert (Hid : ops_rel tracks s s) by (apply ops_rel_same; [exact tracks_refl|reflexivity]).
  destruct (st o) eqn:Est.
  - apply (poll_start_tracks s i o); [exact Hi|apply tracks_refl].
  - destruct (kd o); [|destruct rs]; cbn [fst]; apply Hset; tracks_leaf.
  - assert (Hre : ops_rel tracks s (fst (poll_start s i (new_attempt (with_st o NotStarted)) w))).
    { apply (poll_start_tracks s i o); [exact Hi|tracks_leaf]. }
    destruct (kd o); destruct rs as [|c rs']; cbn [fst]; auto; try (apply Hset; tracks_leaf).
    + destruct (0 <=? res c)%Z; [apply Hset; tracks_leaf|].
      destruct (is_restart c); [exact Hre|apply Hset; tracks_leaf].
    + destruct (0 <=? res c)%Z; [apply Hset; tracks_leaf|].
      destruct (is_restart c); [|apply Hset; tracks_leaf].
      destruct rs'; [exact Hre|apply Hset; tracks_leaf].
  - exact Hid.
  - exact Hid.
Qed.

Lemma drop_tracks s i : ops_rel tracks s (fst (drop_op s i)).
Proof.
  unfold drop_op. destruct (nth_error (ops s) i) as [o|] eqn:Hi;
    [|apply ops_rel_same; [exact tracks_refl|reflexivity]].
  assert (Hid : ops_rel tracks s s) by (apply ops_rel_same; [exact tracks_refl|reflexivity]).
  destruct (st o) eqn:Est; cbn [fst]; auto;
    try (apply (ops_rel_set_op tracks s i o); [exact tracks_refl|exact Hi|tracks_leaf]).
  intros j. rewrite nth_error_set_op by (destruct (has_room s); cbn [push_sq ops]; eapply nth_error_lt; eauto).
  replace (ops (if has_room s then push_sq s (Cancel i) else s)) with (ops s)
    by (destruct (has_room s); reflexivity).
  destruct (Nat.eqb_spec j i) as [->|]; [rewrite Hi; tracks_leaf|].
  destruct (nth_error (ops s) j); auto using tracks_refl.
Qed.

Lemma update_tracks s i c : ops_rel tracks s (fst (update s i c)).
Proof.
  unfold update. destruct (nth_error (ops s) i) as [o|] eqn:Hi;
    [|apply ops_rel_same; [exact tracks_refl|reflexivity]].
  assert (Hid : ops_rel tracks s s) by (apply ops_rel_same; [exact tracks_refl|reflexivity]).
  assert (Hset : forall o', tracks o o' -> ops_rel tracks s (set_op s i o')).
  { intros o' Ho'. apply (ops_rel_set_op tracks s i o); auto using tracks_refl. }
  destruct (st o) eqn:Est; cbn [fst]; auto.
  - unfold readying.
    destruct (negb (more c) || match kd o with Multi => true | Single => false end) eqn:Erd;
      [destruct (waker o) eqn:Ew|]; cbn [fst]; apply Hset; unfold tracks; op_cbn;
      rewrite ?Ew; auto.
  - unfold readying.
    destruct (negb (more c) || match kd o with Multi => true | Single => false end) eqn:Erd;
      [destruct (waker o) eqn:Ew|]; cbn [fst]; apply Hset; unfold tracks; op_cbn;
      rewrite ?Ew; auto.
  - destruct (more c); cbn [fst]; apply Hset; tracks_leaf.
Qed.

Lemma process_tracks f : forall s, ops_rel tracks s (fst (process f s)).
Proof.
  induction f as [|f IH]; intros s; cbn [process];
    [apply ops_rel_same; [exact tracks_refl|reflexivity]|].
  destruct (cq s) as [|[t c] r]; [apply ops_rel_same; [exact tracks_refl|reflexivity]|].
  destruct t as [i|].
  - pose proof (update_tracks (pop_cq s (Some i) c r) i c) as Hu.
    destruct (update (pop_cq s (Some i) c r) i c) as [s1 o1]. cbn [fst] in Hu.
    specialize (IH s1). destruct (process f s1) as [s2 o2]. cbn [fst] in *.
    apply (ops_rel_trans tracks _ s1); [exact tracks_trans| |exact IH].
    intros j. exact (Hu j).
  - specialize (IH (pop_cq s None c r)). intros j. exact (IH j).
Qed.

Lemma step_tracks s e : ops_rel tracks s (fst (step s e)).
Proof.
  destruct e as [i w|i| |i c]; cbn [step fst].
  - apply poll_tracks.
  - apply drop_tracks.
  - rewrite ring_poll_phases. pose proof (phase1_ops s) as H1. destruct (phase1 s) as [s1 o1].
    cbn [fst] in H1. pose proof (process_tracks (length (cq s1)) s1) as Hp.
    destruct (process (length (cq s1)) s1) as [s2 o2]. cbn [fst] in *.
    intros j. specialize (Hp j). rewrite H1 in Hp. exact Hp.
  - apply ops_rel_same; [exact tracks_refl|]. unfold kpost.
    destruct (existsb _ _); [|reflexivity]. destruct (more c); reflexivity.
Qed.

Definition waker_is_latest (s : sys) : Prop :=
  forall i o, nth_error (ops s) i = Some o -> waker o = g_lastw o.

Lemma step_waker_is_latest s e : waker_is_latest s -> waker_is_latest (fst (step s e)).
Proof.
  intros H i o' Hi'. pose proof (step_tracks s e i) as Ht. rewrite Hi' in Ht.
  destruct (nth_error (ops s) i) as [o|] eqn:Hi; [|contradiction]. apply Ht. exact (H i o Hi).
Qed.

Lemma init_waker_is_latest cap0 kinds : waker_is_latest (init cap0 kinds).
Proof.
  intros i o Hi. cbn [init ops] in Hi. apply nth_error_In, in_map_iff in Hi.
  destruct Hi as ([k c] & <- & _). reflexivity.
Qed.

(** ** The ring poll wakes the registered waker *)

Lemma process_wakes f : forall s i o rs w c,
  length (cq s) <= f ->
  nth_error (ops s) i = Some o -> st o = Running rs -> waker o = Some w ->
  In (Some i, c) (cq s) -> readying (kd o) c = true ->
  In (OWake w) (snd (process f s)).
Proof.
  induction f as [|f IH]; intros s i o rs w c Hlen Hi Hr Hw Hin Hrd.
  - destruct (cq s); [destruct Hin|cbn [length] in Hlen; lia].
  - cbn [process]. destruct (cq s) as [|[t c0] r] eqn:Hcq; [destruct Hin|].
    cbn [length] in Hlen. destruct t as [j|].
    + destruct (Nat.eq_dec j i) as [->|Hji].
      * (* a completion of i itself *)
        destruct (update_running (pop_cq s (Some i) c0 r) i c0 o rs Hi Hr) as (o' & Hi' & Hcase).
        destruct (readying (kd o) c0) eqn:Erd0.
        -- destruct Hcase as (_ & _ & Hout). rewrite Hw in Hout.
           destruct (update (pop_cq s (Some i) c0 r) i c0) as [s1 o1]. cbn [snd] in Hout. subst o1.
           destruct (process f s1) as [s2 o2]. cbn [snd]. left. reflexivity.
        -- destruct Hcase as (Hg & Hw' & Hout & rs' & Hr').
           assert (Hin' : In (Some i, c) r).
           { destruct Hin as [E|Hin]; [|exact Hin]. inversion E; subst. congruence. }
           pose proof (update_cq (pop_cq s (Some i) c0 r) i c0) as Hcq'.
           pose proof (ops_rel_some _ _ _ _ _ (update_stable (pop_cq s (Some i) c0 r) i c0) Hi) as (o'' & Hi'' & Hk & _).
           destruct (update (pop_cq s (Some i) c0 r) i c0) as [s1 o1]. cbn [fst snd] in *.
           rewrite Hi' in Hi''. inversion Hi''; subst o''.
           assert (Hgoal : In (OWake w) (snd (process f s1))).
           { apply (IH s1 i o' rs' w c); auto; try congruence; rewrite ?Hcq'; cbn [pop_cq cq]; auto; try lia;
               try (rewrite Hk; exact Hrd). }
           destruct (process f s1) as [s2 o2]. cbn [snd] in *. apply in_or_app. right. exact Hgoal.
      * (* a completion of another operation *)
        assert (Hin' : In (Some i, c) r).
        { destruct Hin as [E|Hin]; [|exact Hin]. inversion E; subst. congruence. }
        pose proof (update_other (pop_cq s (Some j) c0 r) i j c0 Hji) as Hoth.
        pose proof (update_cq (pop_cq s (Some j) c0 r) j c0) as Hcq'.
        destruct (update (pop_cq s (Some j) c0 r) j c0) as [s1 o1]. cbn [fst snd pop_cq ops cq] in *.
        assert (Hgoal : In (OWake w) (snd (process f s1))).
        { apply (IH s1 i o rs w c); auto; try congruence; rewrite ?Hcq'; auto; lia. }
        destruct (process f s1) as [s2 o2]. cbn [snd] in *. apply in_or_app. right. exact Hgoal.
    + assert (Hin' : In (Some i, c) r).
      { destruct Hin as [E|Hin]; [|exact Hin]. inversion E. }
      apply (IH (pop_cq s None c0 r) i o rs w c); auto. cbn [pop_cq cq]. lia.
Qed.

Lemma ring_poll_wakes s i o rs w c :
  nth_error (ops s) i = Some o -> st o = Running rs -> waker o = Some w ->
  In (Some i, c) (cq s) -> readying (kd o) c = true ->
  In (OWake w) (snd (ring_poll s)).
Proof.
  intros Hi Hr Hw Hin Hrd. rewrite ring_poll_phases.
  assert (Hp : phase1 s = (s, [])) by (unfold phase1; destruct (cq s); [destruct Hin|reflexivity]).
  rewrite Hp. pose proof (process_wakes (length (cq s)) s i o rs w c (Nat.le_refl _) Hi Hr Hw Hin Hrd) as H.
  destruct (process (length (cq s)) s) as [s2 o2]. cbn [snd app] in *.
  apply in_or_app. left. exact H.
Qed.

(** ** Polls and the ghost *)

Lemma poll_ghost s i w o :
  nth_error (ops s) i = Some o ->
  exists o', nth_error (ops (fst (poll s i w))) i = Some o'
    /\ g_lastw o' = (if match snd (poll s i w), st o' with
                        | [OPending], Running _ => true
                        | _, _ => false
                        end then Some w else g_lastw o).
Proof.
  intros Hi. pose proof (nth_error_lt _ _ _ Hi) as Hlt. unfold poll. rewrite Hi.
  assert (Hps : forall o1, st o1 = NotStarted -> g_lastw o1 = g_lastw o ->
            exists o', nth_error (ops (fst (poll_start s i o1 w))) i = Some o'
              /\ g_lastw o' = (if match snd (poll_start s i o1 w), st o' with
                                  | [OPending], Running _ => true
                                  | _, _ => false
                                  end then Some w else g_lastw o)).
  { intros o1 Hs Hg. unfold poll_start. destruct (has_room s); cbn [fst snd push_sq push_blocked ops];
      rewrite nth_error_set_op, Nat.eqb_refl by exact Hlt; eexists; (split; [reflexivity|]).
    - reflexivity.
    - rewrite Hs. exact Hg. }
  assert (Hset : forall o', g_lastw o' = g_lastw o ->
            exists o'', nth_error (ops (set_op s i o')) i = Some o'' /\ g_lastw o'' = g_lastw o).
  { intros o' Hg. rewrite nth_error_set_op, Nat.eqb_refl by exact Hlt. exists o'. auto. }
  assert (Hid : exists o'', nth_error (ops s) i = Some o'' /\ g_lastw o'' = g_lastw o) by eauto.
  destruct (st o) eqn:Est.
  - apply Hps; auto.
  - assert (Hreg : exists o', nth_error (ops (set_op s i (registered (with_waker o (Some w)) w))) i = Some o'
              /\ g_lastw o' = (if match [OPending], st o' with
                                  | [OPending], Running _ => true
                                  | _, _ => false
                                  end then Some w else g_lastw o)).
    { rewrite nth_error_set_op, Nat.eqb_refl by exact Hlt. eexists; split; [reflexivity|].
      op_cbn. rewrite Est. reflexivity. }
    destruct (kd o); [exact Hreg|]. destruct rs as [|c rs']; [exact Hreg|].
    destruct (res c <? 0)%Z; cbn [fst snd]; apply Hset; reflexivity.
  - destruct (kd o); destruct rs as [|c rs']; cbn [fst snd].
    + exact Hid.
    + destruct (0 <=? res c)%Z; [cbn [fst snd]; apply Hset; reflexivity|].
      destruct (is_restart c); [apply Hps; reflexivity|cbn [fst snd]; apply Hset; reflexivity].
    + apply Hset; reflexivity.
    + destruct (0 <=? res c)%Z; [cbn [fst snd]; apply Hset; reflexivity|].
      destruct (is_restart c); [|cbn [fst snd]; apply Hset; reflexivity].
      destruct rs'; [apply Hps; reflexivity|cbn [fst snd]; apply Hset; reflexivity].
  - cbn [fst snd]. exact Hid.
  - cbn [fst snd]. exact Hid.
Qed.

Lemma drop_ghost s i o :
  nth_error (ops s) i = Some o ->
  exists o', nth_error (ops (fst (drop_op s i))) i = Some o' /\ g_lastw o' = g_lastw o.
Proof.
  intros Hi. pose proof (nth_error_lt _ _ _ Hi) as Hlt. unfold drop_op. rewrite Hi.
  destruct (st o); cbn [fst]; try (exists o; auto; fail);
    try (rewrite nth_error_set_op, Nat.eqb_refl by exact Hlt; eexists; split; reflexivity).
  rewrite nth_error_set_op, Nat.eqb_refl by (destruct (has_room s); exact Hlt).
  eexists; split; reflexivity.
Qed.

Lemma readying_completion_wakes_latest_waker_holds : readying_completion_wakes_latest_waker.
Proof.
  split; [|split; [|split; [|split; [|split]]]].
  - intros cap0 kinds es s. subst s.
    apply (run_invariant step waker_is_latest step_waker_is_latest es).
    apply init_waker_is_latest.
  - exact poll_ghost.
  - exact drop_ghost.
  - intros s i c o rs. apply update_running.
  - intros s i j c. apply update_other.
  - exact ring_poll_wakes.
Qed.

(** ** Queue-full waiters *)

Lemma kconsume_blocked s e : blocked (kconsume s e) = blocked s /\ cap (kconsume s e) = cap s.
Proof.
  destruct e as [i|i]; cbn [kconsume]; [auto|].
  destruct (existsb (Nat.eqb i) (inflight s)); [|auto].
  destruct (nth_error (ops s) i) as [o|]; [|auto]. destruct (cancelable o); auto.
Qed.

Lemma kconsume_all_blocked q : forall s,
  blocked (fold_left kconsume q s) = blocked s /\ cap (fold_left kconsume q s) = cap s.
Proof.
  induction q as [|e q IH]; intros s; cbn [fold_left]; [auto|].
  destruct (IH (kconsume s e)) as [A B]. destruct (kconsume_blocked s e) as [C D]. split; congruence.
Qed.

Lemma kconsume_all_sq' q : forall s, sq (fold_left kconsume q s) = sq s.
Proof. induction q as [|e q IH]; intros s; cbn [fold_left]; [reflexivity|]. rewrite IH. apply kconsume_sq. Qed.

Lemma queue_full_waiter_is_parked_holds : queue_full_waiter_is_parked.
Proof.
  split; [|split].
  - intros s i w o o1 Hi Hroom r. subst r. unfold poll_start. rewrite Hroom.
    cbn [fst snd push_blocked blocked sq ops].
    rewrite nth_error_set_op, Nat.eqb_refl by (eapply nth_error_lt; eauto). auto.
  - intros s i w o Hi Hs. unfold poll. rewrite Hi, Hs. reflexivity.
  - intros s entered n.
    destruct (kconsume_all_blocked (sq s) (take_sq s)) as [Hb Hc].
    pose proof (kconsume_all_sq' (sq s) (take_sq s)) as Hq.
    fold entered in Hb, Hc, Hq. cbn [take_sq set_sq blocked cap sq] in Hb, Hc, Hq.
    split; [|split; [|split]].
    + intros Hcq Hent. unfold phase1. rewrite Hcq. fold entered.
      assert (Hcond : negb (length (sq s) =? 0) || negb (length (cq entered) =? 0) = true).
      { destruct Hent as [H|H]; [destruct (sq s); [congruence|reflexivity]|].
        destruct (cq entered); [congruence|]. apply orb_true_r. }
      rewrite Hcond. cbn [wake_blocked fst snd blocked]. rewrite Hb, Hc, Hq. cbn [length].
      rewrite N.sub_0_r. fold n. repeat split. apply firstn_length.
    + intros Hcq Hsq Hent. unfold phase1. rewrite Hcq. fold entered. rewrite Hsq, Hent. cbn.
      split; [reflexivity|]. exact Hb.
    + intros Hcq. unfold phase1. destruct (cq s); [congruence|reflexivity].
    + cbv zeta. rewrite ring_poll_phases. destruct (phase1 s) as [s1 o1]. cbn [fst snd].
      pose proof (process_blocked (length (cq s1)) s1) as Hp.
      destruct (process (length (cq s1)) s1) as [s2 o2]. cbn [fst snd] in *.
      split; [exact Hp|]. split; reflexivity.
Qed.

Lemma update_cap s i c : cap (fst (update s i c)) = cap s.
Proof.
  unfold update. destruct (nth_error (ops s) i) as [o|]; [|reflexivity].
  destruct (st o); try reflexivity.
  - destruct (negb (more c) || _); [destruct (waker o)|]; reflexivity.
  - destruct (negb (more c) || _); [destruct (waker o)|]; reflexivity.
  - destruct (more c); reflexivity.
Qed.

Lemma process_cap f : forall s, cap (fst (process f s)) = cap s.
Proof.
  induction f as [|f IH]; intros s; cbn [process]; [reflexivity|].
  destruct (cq s) as [|[t c] r]; [reflexivity|]. destruct t as [i|].
  - pose proof (update_cap (pop_cq s (Some i) c r) i c) as Hu.
    destruct (update (pop_cq s (Some i) c r) i c) as [s1 o1]. cbn [fst] in Hu.
    specialize (IH s1). destruct (process f s1) as [s2 o2]. cbn [fst pop_cq cap] in *. congruence.
  - rewrite IH. reflexivity.
Qed.

Lemma phase1_cap s : cap (fst (phase1 s)) = cap s.
Proof.
  unfold phase1. destruct (cq s); [|reflexivity].
  destruct (kconsume_all_blocked (sq s) (take_sq s)) as [_ Hc].
  destruct (negb _ || negb _); cbn [fst wake_blocked cap]; exact Hc.
Qed.

Lemma firstn_head_in {A} (w : A) r n : 0 < n -> In w (firstn n (w :: r)).
Proof. destruct n; [lia|]. intros _. left. reflexivity. Qed.

Lemma end_of_poll_wakes_parked_holds : end_of_poll_wakes_parked.
Proof.
  intros s s2 s' avail.
  assert (Hs' : s' = fst (wake_blocked s2) /\ snd (ring_poll s)
                = snd (phase1 s) ++ snd (process (length (cq (fst (phase1 s)))) (fst (phase1 s)))
                  ++ snd (wake_blocked s2)).
  { subst s' s2. rewrite ring_poll_phases. destruct (phase1 s) as [s1 o1]. cbn [fst snd].
    destruct (process (length (cq s1)) s1) as [s2 o2]. split; reflexivity. }
  destruct Hs' as [Hs' Hout].
  assert (Hcap2 : cap s2 = cap s) by (subst s2; rewrite process_cap; apply phase1_cap).
  assert (Hb2 : blocked s2 = blocked (fst (phase1 s))) by (subst s2; apply process_blocked).
  split; [rewrite Hs'; cbn [wake_blocked fst sq cap]; auto|].
  split; [reflexivity|]. split; [rewrite Hs'; reflexivity|]. split.
  - intros Hne. rewrite Hs' in *. cbn [wake_blocked fst blocked sq cap] in *. fold avail in Hne |- *.
    split; [|reflexivity]. rewrite firstn_length. apply Nat.min_l.
    destruct (Nat.le_gt_cases avail (length (blocked s2))) as [H|H]; [exact H|].
    exfalso. apply Hne. apply skipn_all2. lia.
  - intros w r Hbl Hroom. rewrite Hout.
    assert (Hav : 0 < avail).
    { rewrite Hs' in Hroom. unfold has_room in Hroom. cbn [wake_blocked fst sq cap] in Hroom.
      subst avail. lia. }
    (* either [enter] already woke it, or it is still the oldest waiter at the end *)
    assert (Hcase : In (OWake w) (snd (phase1 s)) \/ blocked (fst (phase1 s)) = w :: r).
    { unfold phase1. destruct (cq s); [|right; exact Hbl].
      destruct (kconsume_all_blocked (sq s) (take_sq s)) as [Hb Hc].
      pose proof (kconsume_all_sq' (sq s) (take_sq s)) as Hq.
      cbn [take_sq set_sq blocked cap sq] in Hb, Hc, Hq.
      destruct (negb _ || negb _); [|right; cbn [fst]; rewrite Hb; exact Hbl].
      left. cbn [wake_blocked snd]. apply in_or_app. right. rewrite Hb, Hc, Hq, Hbl. cbn [length].
      apply in_map. apply firstn_head_in. subst avail. rewrite Hcap2 in Hav. lia. }
    destruct Hcase as [H|H]; [apply in_or_app; left; exact H|].
    apply in_or_app. right. apply in_or_app. right. cbn [wake_blocked snd]. fold avail.
    rewrite Hb2, H. apply in_map. apply firstn_head_in. exact Hav.
Qed.

Lemma parked_only_if_queue_full_refuted : ~ parked_only_if_queue_full.
Proof.
  intros H.
  specialize (H 1%N [(Single, true); (Single, true); (Single, true); (Single, true)]
                [Poll 0 1%N; Poll 1 2%N; Poll 2 3%N; Poll 3 4%N]).
  assert (Hv : valid (init 1 [(Single, true); (Single, true); (Single, true); (Single, true)])
                 [Poll 0 1%N; Poll 1 2%N; Poll 2 3%N; Poll 3 4%N]) by (vm_compute; repeat split).
  specialize (H Hv). vm_compute in H. specialize (H ltac:(discriminate)). apply H. reflexivity.
Qed.

(** ** Non-vacuity: a replaced waker (the latest one is woken) and a parked waiter. *)
Example wake_histories :
  snd (run step (init 1 [(Single, true); (Single, true)])
         [Poll 0 1%N; Poll 0 2%N; RingPoll; Poll 0 3%N;
          KPost 0 {| res := 7; more := false; notif := false |}; RingPoll])
  = [OPending; OPending; OConsumed (Submit 0); OPending; OWake 3%N]
  /\ snd (run step (init 1 [(Single, true); (Single, true)])
            [Poll 0 1%N; Poll 1 9%N; RingPoll; Poll 1 9%N; RingPoll])
     = [OPending; OPending; OConsumed (Submit 0); OWake 9%N; OPending; OConsumed (Submit 1)].
Proof. vm_compute. split; reflexivity. Qed.

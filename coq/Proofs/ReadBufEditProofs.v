(** Proofs about Model/ReadBufEdit.v: an owned [ReadBuf] refines a byte vector of fixed
    capacity, its edits are confined to its slot of the pool memory, and the slot id
    recomputed at release is the one the kernel delivered. *)
From A10 Require Import Base.Word Base.Run Model.ReadBufEdit.
From Coq Require Import ZifyN ZifyBool ZifyNat.
Ltac Zify.zify_post_hook ::= Z.div_mod_to_equations.

(** * List facts (indices in [nat]) *)
Lemma firstn_app_l {A} (a b : list A) (n : nat) :
  (n <= length a)%nat -> firstn n (a ++ b) = firstn n a.
Proof.
  intros. rewrite firstn_app. replace (n - length a)%nat with 0%nat by lia.
  cbn [firstn]. apply app_nil_r.
Qed.

Lemma skipn_app_l {A} (a b : list A) (n : nat) :
  (n <= length a)%nat -> skipn n (a ++ b) = skipn n a ++ b.
Proof.
  intros. rewrite skipn_app. replace (n - length a)%nat with 0%nat by lia. reflexivity.
Qed.

Lemma skipn_app_r {A} (a b : list A) (n : nat) :
  skipn (length a + n) (a ++ b) = skipn n b.
Proof.
  rewrite skipn_app. rewrite skipn_all2 by lia.
  replace (length a + n - length a)%nat with n by lia. reflexivity.
Qed.

Lemma split_at {A} (a b : list A) (k : nat) :
  length a = k -> firstn k (a ++ b) = a /\ skipn k (a ++ b) = b.
Proof.
  intros <-. split.
  - rewrite firstn_app_l by lia. apply firstn_all.
  - rewrite <- (Nat.add_0_r (length a)). rewrite skipn_app_r. reflexivity.
Qed.

(** * Memory accesses inside one slot: [m = pre ++ sb ++ post] *)
Lemma mwrite_frame pre sb post p o bs :
  length pre = N.to_nat p -> (N.to_nat o + length bs <= length sb)%nat ->
  mwrite (pre ++ sb ++ post) (p + o) bs = pre ++ mwrite sb o bs ++ post.
Proof.
  intros Hp Hb. unfold mwrite.
  replace (N.to_nat (p + o)) with (length pre + N.to_nat o)%nat by lia.
  rewrite firstn_app_2.
  rewrite (firstn_app_l sb post) by lia.
  replace (length pre + N.to_nat o + length bs)%nat
    with (length pre + (N.to_nat o + length bs))%nat by lia.
  rewrite skipn_app_r. rewrite (skipn_app_l sb post) by lia.
  rewrite <- !app_assoc. reflexivity.
Qed.

Lemma mread_frame pre sb post p o n :
  length pre = N.to_nat p -> (N.to_nat o + N.to_nat n <= length sb)%nat ->
  mread (pre ++ sb ++ post) (p + o) n = mread sb o n.
Proof.
  intros Hp Hb. unfold mread.
  replace (N.to_nat (p + o)) with (length pre + N.to_nat o)%nat by lia.
  rewrite skipn_app_r. rewrite (skipn_app_l sb post) by lia.
  apply firstn_app_l. rewrite skipn_length. lia.
Qed.

Lemma mread_slot pre sb post p cap :
  length pre = N.to_nat p -> length sb = N.to_nat cap ->
  mread (pre ++ sb ++ post) p cap = sb.
Proof.
  intros Hp Hs. rewrite <- (N.add_0_r p) at 1. rewrite mread_frame by (cbn; lia).
  unfold mread. cbn [N.to_nat skipn]. rewrite <- Hs. apply firstn_all.
Qed.

Lemma mwrite_length sb o bs :
  (N.to_nat o + length bs <= length sb)%nat -> length (mwrite sb o bs) = length sb.
Proof.
  intros. unfold mwrite. rewrite !app_length, firstn_length, skipn_length. lia.
Qed.

Lemma mwrite_nil m a : mwrite m a [] = m.
Proof. unfold mwrite. cbn [app length]. rewrite Nat.add_0_r. apply firstn_skipn. Qed.

(** * Hypotheses of the theorems *)

(** [buf_size] is a non-zero [u32], [pool_size] at most 2^15 (what [ReadBufPool::new] asks for). *)
Definition pool_ok (cap psize : N) : Prop := 0 < cap /\ cap < two32 /\ psize <= 32768.

(** An owned buffer of the pool: the memory has [pool_size * buf_size] bytes, the pointer is
    the start of a slot (what [init_buffer] returns) and the length is within the capacity. *)
Definition wf_owned (cap psize : N) (m : list N) (b : rbuf) : Prop :=
  length m = N.to_nat (psize * cap) /\
  (exists id, id < psize /\ rb_ptr b = id * cap) /\
  rb_len b <= cap.

Definition owned_wf (cap psize : N) (s : rstate) : Prop :=
  exists b, st_owned s = Some b /\ wf_owned cap psize (st_mem s) b.

(** What a build without debug assertions needs from the caller: [set_len] within its
    documented contract (it is an [unsafe fn]). In a build with them ([dbg = true]) nothing is
    needed: the assertion rejects the call. *)
Definition set_len_in_contract (cap : N) (e : edit) : Prop :=
  match e with SetLen n => n <= cap | _ => True end.

Definition edit_ok (dbg : bool) (cap : N) (e : edit) : Prop :=
  dbg = true \/ set_len_in_contract cap e.

Definition abs (cap : N) (s : rstate) : bvec :=
  match st_owned s with
  | Some b => abs_owned cap (st_mem s) b
  | None => {| v_data := []; v_spare := [] |}
  end.

(** * One step inside the slot (pointer 0, memory = the slot) *)

Lemma write_at_len d sp ln ys :
  length d = N.to_nat ln -> (length ys <= length sp)%nat ->
  mwrite (d ++ sp) ln ys = (d ++ ys) ++ skipn (length ys) sp.
Proof.
  intros Hd Hy. unfold mwrite. rewrite <- Hd.
  destruct (split_at d sp (length d) eq_refl) as [-> _].
  rewrite skipn_app_r. rewrite <- app_assoc. reflexivity.
Qed.

Lemma checked_add1_cases x :
  (x + 1 < two64 /\ checked_add1 x = Some (x + 1)) \/ (two64 <= x + 1 /\ checked_add1 x = None).
Proof.
  unfold checked_add1. destruct (N.ltb_spec (x + 1) two64); [left|right]; auto.
Qed.

Lemma cap_lt_two64 cap : cap < two32 -> cap < two64.
Proof. unfold two32, two64. lia. Qed.

Lemma usub_le dbg a b : b <= a -> usub dbg a b = Some (a - b).
Proof. intros. unfold usub. destruct (N.leb_spec b a); [reflexivity|lia]. Qed.

Definition vec_of (sb : list N) (ln : N) : bvec :=
  {| v_data := firstn (N.to_nat ln) sb; v_spare := skipn (N.to_nat ln) sb |}.

Lemma vec_of_split a b ln : length a = N.to_nat ln -> vec_of (a ++ b) ln = {| v_data := a; v_spare := b |}.
Proof. intros H. unfold vec_of. destruct (split_at a b _ H) as [-> ->]. reflexivity. Qed.

(** The removal proper, once the range is known to be valid. *)
Lemma remove_copy d sp ln lo hi :
  length d = N.to_nat ln -> lo <= hi -> hi <= ln ->
  mwrite (d ++ sp) lo (mread (d ++ sp) hi (ln - (hi - lo) - lo)) =
  (firstn (N.to_nat lo) d ++ skipn (N.to_nat hi) d) ++ (skipn (N.to_nat (ln - (hi - lo))) d ++ sp).
Proof.
  intros Hd Hlo Hhi.
  assert (Hr : mread (d ++ sp) hi (ln - (hi - lo) - lo) = skipn (N.to_nat hi) d).
  { unfold mread. rewrite skipn_app_l by lia.
    rewrite firstn_app_l by (rewrite skipn_length; lia).
    apply firstn_all2. rewrite skipn_length. lia. }
  rewrite Hr. unfold mwrite.
  rewrite firstn_app_l by lia.
  rewrite skipn_length.
  replace (N.to_nat lo + (length d - N.to_nat hi))%nat with (N.to_nat (ln - (hi - lo))) by lia.
  rewrite skipn_app_l by lia.
  rewrite <- !app_assoc. reflexivity.
Qed.

(** Bounds resolved by the code = bounds resolved over unbounded naturals, or a panic for a
    bound beyond [usize]. *)
Lemma norm_start_ok rs :
  norm_start rs = Some (range_lo rs) \/ (norm_start rs = None /\ two64 <= range_lo rs).
Proof.
  destruct rs as [s|s|]; cbn [norm_start range_lo]; auto.
  destruct (checked_add1_cases s) as [[_ ->]|[H ->]]; auto.
Qed.

Lemma norm_end_ok re ln :
  norm_end ln re = Some (range_hi ln re) \/ (norm_end ln re = None /\ two64 <= range_hi ln re).
Proof.
  destruct re as [s|s|]; cbn [norm_end range_hi]; auto.
  destruct (checked_add1_cases s) as [[_ ->]|[H ->]]; auto.
Qed.

Ltac three := split; [|split].
Ltac inv_step E sb' b' o := inversion E; subst sb' b' o; clear E; cbn [rb_len]; rewrite ?N.add_0_l.

Lemma slot_refines dbg cap d sp ln e :
  cap < two32 -> length d = N.to_nat ln -> length (d ++ sp) = N.to_nat cap -> edit_ok dbg cap e ->
  forall sb' b' o,
    step_owned dbg cap (d ++ sp) {| rb_ptr := 0; rb_len := ln |} e = (sb', b', o) ->
    rb_len b' <= cap /\ length sb' = length (d ++ sp) /\
    vec_step cap {| v_data := d; v_spare := sp |} e = (vec_of sb' (rb_len b'), o).
Proof.
  intros Hcap Hd Hc Hok sb' b' o.
  assert (Hsp : length sp = N.to_nat (cap - ln) /\ ln <= cap) by (rewrite app_length in Hc; lia).
  destruct Hsp as [Hsp Hle].
  assert (Hnd : nlen d = ln) by (unfold nlen; lia).
  assert (Hns : nlen sp = cap - ln) by (unfold nlen; lia).
  pose proof (cap_lt_two64 cap Hcap) as Hcap64.
  pose proof (vec_of_split d sp ln Hd) as Hsame.
  destruct e as [n| |rs re|n|xs| |xs]; cbn [step_owned vec_step v_data v_spare];
    unfold parts_mut, set_init, change_size; cbn [rb_len rb_ptr].
  - (* truncate *)
    rewrite Hnd. destruct (N.ltb_spec ln n); intros E; inv_step E sb' b' o.
    + destruct (N.leb_spec n ln); [lia|]. rewrite Hsame. three; [lia|reflexivity|reflexivity].
    + destruct (N.leb_spec n ln); [|lia]. three; [lia|reflexivity|].
      unfold vec_of. rewrite firstn_app_l, skipn_app_l by lia. reflexivity.
  - (* clear *)
    intros E; inv_step E sb' b' o. three; [lia|reflexivity|reflexivity].
  - (* remove *)
    rewrite Hnd.
    set (lo := range_lo rs). set (hi := range_hi ln re).
    destruct (norm_start_ok rs) as [Hs|[Hs Hlo]]; rewrite Hs;
      [destruct (norm_end_ok re ln) as [He|[He Hhi]]; rewrite He|]; fold lo hi.
    2,3: intros E; inv_step E sb' b' o; rewrite Hsame; (three; [lia|reflexivity|]);
      destruct (N.leb_spec lo hi); destruct (N.leb_spec hi ln); cbn [andb]; try reflexivity; lia.
    destruct (N.ltb_spec hi lo).
    { intros E; inv_step E sb' b' o. rewrite Hsame. three; [lia|reflexivity|].
      destruct (N.leb_spec lo hi); [lia|]. reflexivity. }
    destruct (N.ltb_spec ln hi).
    { intros E; inv_step E sb' b' o. rewrite Hsame. three; [lia|reflexivity|].
      destruct (N.leb_spec lo hi); destruct (N.leb_spec hi ln); cbn [andb]; try reflexivity; lia. }
    destruct (N.leb_spec lo hi); [|lia]. destruct (N.leb_spec hi ln); [|lia]. cbn [andb].
    pose proof (remove_copy d sp ln lo hi Hd ltac:(lia) ltac:(lia)) as Hcopy.
    assert (Hlen : length (firstn (N.to_nat lo) d ++ skipn (N.to_nat hi) d) = N.to_nat (ln - (hi - lo))).
    { rewrite app_length, firstn_length, skipn_length. lia. }
    destruct ((ln - (hi - lo) =? 0) || (ln - (hi - lo) <=? lo)) eqn:Hnc;
      intros E; inv_step E sb' b' o.
    + (* nothing to copy: the tail is empty *)
      assert (Hhl : hi = ln).
      { apply orb_true_iff in Hnc. destruct Hnc as [Hz|Hz]; [apply N.eqb_eq in Hz|apply N.leb_le in Hz]; lia. }
      three; [lia|reflexivity|].
      replace (d ++ sp) with ((firstn (N.to_nat lo) d ++ skipn (N.to_nat hi) d) ++
                              (skipn (N.to_nat (ln - (hi - lo))) d ++ sp)).
      { rewrite (vec_of_split _ _ _ Hlen). reflexivity. }
      rewrite Hhl. replace (ln - (ln - lo)) with lo by lia.
      rewrite (@skipn_all2 _ (N.to_nat ln) d) by lia. rewrite app_nil_r.
      rewrite app_assoc. rewrite firstn_skipn. reflexivity.
    + rewrite Hcopy. three; [lia| |].
      * rewrite !app_length, firstn_length, !skipn_length. lia.
      * rewrite (vec_of_split _ _ _ Hlen). reflexivity.
  - (* set_len *)
    destruct (dbg && (cap <? n)) eqn:Hb; intros E; inv_step E sb' b' o.
    + apply andb_true_iff in Hb. destruct Hb as [_ Hb]. apply N.ltb_lt in Hb.
      destruct (N.leb_spec n cap); [lia|]. rewrite Hsame. three; [lia|reflexivity|reflexivity].
    + assert (n <= cap).
      { destruct Hok as [->|Hn]; [|exact Hn]. cbn [andb] in Hb. apply N.ltb_ge in Hb. exact Hb. }
      destruct (N.leb_spec n cap); [|lia]. three; [lia|reflexivity|reflexivity].
  - (* extend_from_slice *)
    rewrite Hnd. destruct (N.ltb_spec cap (ln + nlen xs)); intros E; inv_step E sb' b' o.
    + destruct (N.leb_spec (ln + nlen xs) cap); [lia|]. rewrite Hsame. three; [lia|reflexivity|reflexivity].
    + destruct (N.leb_spec (ln + nlen xs) cap); [|lia].
      unfold nlen in *.
      rewrite write_at_len by lia. three; [lia| |].
      * rewrite !app_length, skipn_length. lia.
      * rewrite vec_of_split by (rewrite app_length; lia). reflexivity.
  - (* spare_capacity_mut *)
    rewrite usub_le by lia. intros E; inv_step E sb' b' o.
    rewrite Hsame, Hns. three; [lia|reflexivity|reflexivity].
  - (* fill through parts_mut / set_init *)
    rewrite usub_le by lia. rewrite trunc32_small by (unfold two32 in *; lia).
    rewrite Hns.
    intros E; inv_step E sb' b' o.
    set (k := N.min (nlen xs) (cap - ln)).
    assert (Hk : length (firstn (N.to_nat k) xs) = N.to_nat k).
    { rewrite firstn_length. unfold k, nlen. lia. }
    rewrite (write_at_len d sp ln _ Hd) by (rewrite Hk; unfold k; lia).
    rewrite Hk. three; [unfold k; lia| |].
    + rewrite !app_length, skipn_length, Hk. unfold k. lia.
    + rewrite vec_of_split by (rewrite app_length, Hk; lia). reflexivity.
Qed.

(** * One step on the whole pool memory *)
Lemma mread_length sb o n :
  (N.to_nat o + N.to_nat n <= length sb)%nat -> length (mread sb o n) = N.to_nat n.
Proof. intros. unfold mread. rewrite firstn_length, skipn_length. lia. Qed.

(** A step on the pool memory is the step on the slot alone, with everything before and
    after the slot carried along untouched. Needs nothing but [len <= capacity]. *)
Lemma step_owned_frame dbg cap pre sb post p ln e :
  length pre = N.to_nat p -> length sb = N.to_nat cap -> ln <= cap -> cap < two32 ->
  step_owned dbg cap (pre ++ sb ++ post) {| rb_ptr := p; rb_len := ln |} e =
  let '(sb', b', o) := step_owned dbg cap sb {| rb_ptr := 0; rb_len := ln |} e in
  (pre ++ sb' ++ post, {| rb_ptr := p; rb_len := rb_len b' |}, o).
Proof.
  intros Hp Hs Hle Hcap.
  destruct e as [n| |rs re|n|xs| |xs]; cbn [step_owned];
    unfold parts_mut, set_init, change_size; cbn [rb_len rb_ptr].
  - destruct (ln <? n); reflexivity.
  - reflexivity.
  - destruct (norm_start rs) as [st|]; [|reflexivity].
    destruct (norm_end ln re) as [en|]; [|reflexivity].
    destruct (N.ltb_spec en st); [reflexivity|].
    destruct (N.ltb_spec ln en); [reflexivity|].
    destruct ((ln - (en - st) =? 0) || (ln - (en - st) <=? st)); [reflexivity|].
    cbn [rb_len]. rewrite !N.add_0_l.
    rewrite mread_frame by lia.
    rewrite mwrite_frame by (try rewrite mread_length; lia).
    reflexivity.
  - destruct (dbg && (cap <? n)); reflexivity.
  - destruct (N.ltb_spec cap (ln + nlen xs)); [reflexivity|].
    cbn [rb_len]. rewrite N.add_0_l. unfold nlen in *.
    rewrite mwrite_frame by lia. reflexivity.
  - destruct (usub dbg cap ln); reflexivity.
  - rewrite usub_le by lia. cbn [rb_len]. rewrite N.add_0_l.
    rewrite mwrite_frame; [reflexivity|exact Hp|].
    rewrite trunc32_small by (unfold two32 in *; lia).
    rewrite firstn_length. unfold nlen. lia.
Qed.

Lemma slot_bound cap psize id : id < psize -> id * cap + cap <= psize * cap.
Proof.
  intros H. replace (id * cap + cap) with ((id + 1) * cap) by (rewrite N.mul_add_distr_r; lia).
  apply N.mul_le_mono_r. lia.
Qed.

Lemma owned_decompose cap psize m b :
  wf_owned cap psize m b ->
  exists pre sb post, m = pre ++ sb ++ post /\
    length pre = N.to_nat (rb_ptr b) /\ length sb = N.to_nat cap.
Proof.
  intros (Hm & (id & Hid & Hp) & Hl).
  pose proof (slot_bound cap psize id Hid) as Hb. rewrite <- Hp in Hb.
  exists (firstn (N.to_nat (rb_ptr b)) m),
         (firstn (N.to_nat cap) (skipn (N.to_nat (rb_ptr b)) m)),
         (skipn (N.to_nat cap) (skipn (N.to_nat (rb_ptr b)) m)).
  split; [rewrite !firstn_skipn; reflexivity|].
  rewrite !firstn_length, skipn_length. lia.
Qed.

(** Bytes outside [ptr, ptr + cap) are the same in [m] and [m']. *)
Definition outside_unchanged (cap : N) (b : rbuf) (m m' : list N) : Prop :=
  length m' = length m /\
  forall i, i < rb_ptr b \/ rb_ptr b + cap <= i ->
    nth_error m' (N.to_nat i) = nth_error m (N.to_nat i).

Lemma outside_frame cap p ln pre sb sb' post :
  length pre = N.to_nat p -> length sb = N.to_nat cap -> length sb' = length sb ->
  outside_unchanged cap {| rb_ptr := p; rb_len := ln |} (pre ++ sb ++ post) (pre ++ sb' ++ post).
Proof.
  intros Hp Hs Hs'. split; [rewrite !app_length; lia|].
  cbn [rb_ptr]. intros i [Hi|Hi].
  - rewrite !nth_error_app1 by lia. reflexivity.
  - rewrite !(nth_error_app2 pre) by lia.
    rewrite !nth_error_app2 by lia. rewrite Hs'. reflexivity.
Qed.

Lemma outside_trans cap b b' m1 m2 m3 :
  rb_ptr b' = rb_ptr b ->
  outside_unchanged cap b m1 m2 -> outside_unchanged cap b' m2 m3 -> outside_unchanged cap b m1 m3.
Proof.
  intros Hp [L1 H1] [L2 H2]. split; [congruence|].
  intros i Hi. rewrite H2 by (rewrite Hp; exact Hi). apply H1. exact Hi.
Qed.

Lemma outside_refl cap b m : outside_unchanged cap b m m.
Proof. split; auto. Qed.

Lemma step_owned_refines dbg cap psize m b e :
  pool_ok cap psize -> wf_owned cap psize m b -> edit_ok dbg cap e ->
  forall m' b' o, step_owned dbg cap m b e = (m', b', o) ->
    vec_step cap (abs_owned cap m b) e = (abs_owned cap m' b', o) /\
    wf_owned cap psize m' b' /\ rb_ptr b' = rb_ptr b /\
    outside_unchanged cap b m m'.
Proof.
  intros (Hc0 & Hcap & Hps) Hwf Hok m' b' o.
  destruct (owned_decompose cap psize m b Hwf) as (pre & sb & post & -> & Hp & Hs).
  destruct Hwf as (Hm & Hslot & Hl).
  destruct b as [p ln]. cbn [rb_ptr rb_len] in *.
  rewrite (step_owned_frame dbg cap pre sb post p ln e Hp Hs Hl Hcap).
  rewrite <- (firstn_skipn (N.to_nat ln) sb) in *.
  set (d := firstn (N.to_nat ln) sb) in *. set (sp := skipn (N.to_nat ln) sb) in *.
  assert (Hd : length d = N.to_nat ln).
  { unfold d. rewrite firstn_length. rewrite app_length in Hs. unfold d, sp in Hs.
    rewrite firstn_length, skipn_length in Hs. lia. }
  destruct (step_owned dbg cap (d ++ sp) {| rb_ptr := 0; rb_len := ln |} e) as [[sb' b0] o0] eqn:E.
  destruct (slot_refines dbg cap d sp ln e Hcap Hd Hs Hok sb' b0 o0 E) as (Hl' & Hlen & Hv).
  intros E'; inversion E'; subst m' b' o; clear E'.
  unfold abs_owned. cbn [rb_ptr rb_len].
  rewrite (mread_slot pre (d ++ sp) post p cap Hp Hs).
  rewrite (mread_slot pre sb' post p cap Hp) by congruence.
  fold (vec_of (d ++ sp) ln). fold (vec_of sb' (rb_len b0)).
  rewrite (vec_of_split d sp ln Hd).
  split; [exact Hv|]. split; [|split; [reflexivity|]].
  - split; [|split; [exact Hslot|exact Hl']].
    rewrite <- Hm. rewrite !app_length in *. lia.
  - apply outside_frame; auto.
Qed.

(** * Statements *)

(** (a) One call: the buffer after the call stands for the vector after the same call, with
    the same outcome (same value returned, same refusal, same panic); the buffer stays a
    well-formed buffer of the same slot. *)
Definition readbuf_refines_bounded_vec_step : Prop :=
  forall dbg cap psize s e,
    pool_ok cap psize -> owned_wf cap psize s -> edit_ok dbg cap e ->
    vec_step cap (abs cap s) e = (abs cap (fst (rb_step dbg cap s e)), snd (rb_step dbg cap s e)) /\
    owned_wf cap psize (fst (rb_step dbg cap s e)).

(** A refused or rejected call changes nothing (any state, any build, any argument). *)
Definition rejection_changes_nothing : Prop :=
  forall dbg cap s e,
    snd (rb_step dbg cap s e) = Rejected \/ snd (rb_step dbg cap s e) = Refused ->
    fst (rb_step dbg cap s e) = s.

(** (a) lifted to every sequence of calls. *)
Definition readbuf_refines_bounded_vec : Prop :=
  forall dbg cap psize s es,
    pool_ok cap psize -> owned_wf cap psize s -> Forall (edit_ok dbg cap) es ->
    vec_run cap (abs cap s) es = (abs cap (fst (rb_run dbg cap s es)), snd (rb_run dbg cap s es)) /\
    owned_wf cap psize (fst (rb_run dbg cap s es)).

(** Every build, with the one thing an [unsafe fn] may ask of its caller: [set_len] within
    the capacity. (Before the repair of H23 this was false for builds without overflow
    checks, see [remove_bounds_h23_refuted].) *)
Definition readbuf_refines_bounded_vec_every_build : Prop :=
  forall dbg cap psize s es,
    pool_ok cap psize -> owned_wf cap psize s -> Forall (set_len_in_contract cap) es ->
    vec_run cap (abs cap s) es = (abs cap (fst (rb_run dbg cap s es)), snd (rb_run dbg cap s es)) /\
    owned_wf cap psize (fst (rb_run dbg cap s es)).

(** (b) Every sequence of calls leaves all pool memory outside the buffer's own slot as it
    was, and the buffer keeps pointing at that slot. *)
Definition edits_confined_to_slot : Prop :=
  forall dbg cap psize s es,
    pool_ok cap psize -> owned_wf cap psize s -> Forall (edit_ok dbg cap) es ->
    exists b b',
      st_owned s = Some b /\ st_owned (fst (rb_run dbg cap s es)) = Some b' /\
      rb_ptr b' = rb_ptr b /\
      outside_unchanged cap b (st_mem s) (st_mem (fst (rb_run dbg cap s es))).

(** (b') Nothing outside the slot is read: two pool memories that agree on the slot give the
    same outcome, the same new length and the same new slot contents. *)
Definition reads_confined_to_slot : Prop :=
  forall dbg cap psize m1 m2 b e,
    pool_ok cap psize -> wf_owned cap psize m1 b -> wf_owned cap psize m2 b ->
    mread m1 (rb_ptr b) cap = mread m2 (rb_ptr b) cap ->
    let r1 := step_owned dbg cap m1 b e in
    let r2 := step_owned dbg cap m2 b e in
    snd r1 = snd r2 /\ snd (fst r1) = snd (fst r2) /\
    mread (fst (fst r1)) (rb_ptr b) cap = mread (fst (fst r2)) (rb_ptr b) cap.

(** (c) Whatever calls were made since the kernel delivered buffer [id], dropping the buffer
    hands exactly [id] (and the slot's own address) back to the kernel. No side condition on
    the calls. *)
Definition release_slot_unchanged : Prop :=
  forall dbg cap psize m0 id n es,
    pool_ok cap psize -> id < psize ->
    let s0 := {| st_mem := m0; st_owned := Some (init_buffer cap id n) |} in
    exists b, st_owned (fst (rb_run dbg cap s0 es)) = Some b /\
              release_id cap b = id /\ release_addr b = id * cap.

(** * Proofs of the statements *)
Lemma readbuf_refines_bounded_vec_step_holds : readbuf_refines_bounded_vec_step.
Proof.
  intros dbg cap psize s e Hpool (b & Hb & Hwf) Hok.
  unfold rb_step, abs. rewrite Hb.
  destruct (step_owned dbg cap (st_mem s) b e) as [[m' b'] o] eqn:E.
  destruct (step_owned_refines dbg cap psize _ _ e Hpool Hwf Hok _ _ _ E) as (Hv & Hwf' & _ & _).
  cbn [fst snd st_owned st_mem]. split; [exact Hv|].
  exists b'. split; [reflexivity|exact Hwf'].
Qed.

Lemma step_owned_rejected dbg cap m b e :
  snd (step_owned dbg cap m b e) = Rejected \/ snd (step_owned dbg cap m b e) = Refused ->
  fst (step_owned dbg cap m b e) = (m, b).
Proof.
  destruct e as [n| |rs re|n|xs| |xs]; cbn [step_owned].
  - destruct (rb_len b <? n); cbn; intros [H|H]; discriminate.
  - cbn; intros [H|H]; discriminate.
  - destruct (norm_start rs); [|reflexivity]. destruct (norm_end (rb_len b) re); [|reflexivity].
    destruct (_ <? _); [reflexivity|]. destruct (_ <? _); [reflexivity|].
    destruct (_ || _); cbn; intros [H|H]; discriminate.
  - destruct (dbg && _); [reflexivity|]. cbn; intros [H|H]; discriminate.
  - destruct (_ <? _); [reflexivity|]. cbn; intros [H|H]; discriminate.
  - destruct (usub dbg cap (rb_len b)); [|reflexivity]. cbn; intros [H|H]; discriminate.
  - destruct (parts_mut dbg cap b) as [[p l]|]; [|reflexivity]. cbn; intros [H|H]; discriminate.
Qed.

Lemma rejection_changes_nothing_holds : rejection_changes_nothing.
Proof.
  intros dbg cap s e. unfold rb_step. destruct s as [m [b|]]; cbn [st_owned st_mem].
  - pose proof (step_owned_rejected dbg cap m b e) as H.
    destruct (step_owned dbg cap m b e) as [[m' b'] o]. cbn [fst snd] in *.
    intros Ho. specialize (H Ho). inversion H. reflexivity.
  - reflexivity.
Qed.

Lemma run_cons_rb dbg cap s e es :
  rb_run dbg cap s (e :: es) =
  (fst (rb_run dbg cap (fst (rb_step dbg cap s e)) es),
   snd (rb_step dbg cap s e) :: snd (rb_run dbg cap (fst (rb_step dbg cap s e)) es)).
Proof.
  unfold rb_run. cbn [run]. unfold rb_step1 at 1.
  destruct (rb_step dbg cap s e) as [s1 o1]. cbn [fst snd].
  destruct (run (rb_step1 dbg cap) s1 es) as [s2 o2]. reflexivity.
Qed.

Lemma run_cons_vec cap v e es :
  vec_run cap v (e :: es) =
  (fst (vec_run cap (fst (vec_step cap v e)) es),
   snd (vec_step cap v e) :: snd (vec_run cap (fst (vec_step cap v e)) es)).
Proof.
  unfold vec_run. cbn [run]. unfold vec_step1 at 1.
  destruct (vec_step cap v e) as [v1 o1]. cbn [fst snd].
  destruct (run (vec_step1 cap) v1 es) as [v2 o2]. reflexivity.
Qed.

Lemma readbuf_refines_bounded_vec_holds : readbuf_refines_bounded_vec.
Proof.
  intros dbg cap psize s es Hpool. revert s.
  induction es as [|e es IH]; intros s Hwf Hok.
  - split; [reflexivity|exact Hwf].
  - inversion Hok as [|? ? He Hes]; subst.
    destruct (readbuf_refines_bounded_vec_step_holds dbg cap psize s e Hpool Hwf He) as (Hv & Hwf1).
    rewrite run_cons_rb, run_cons_vec. rewrite Hv. cbn [fst snd].
    destruct (IH _ Hwf1 Hes) as (Hr & Hwf2).
    rewrite Hr. cbn [fst snd]. split; [reflexivity|exact Hwf2].
Qed.

Lemma edits_confined_to_slot_holds : edits_confined_to_slot.
Proof.
  intros dbg cap psize s es Hpool. revert s.
  induction es as [|e es IH]; intros s Hwf Hok.
  - destruct Hwf as (b & Hb & Hwf). exists b, b. cbn. repeat split; auto.
  - inversion Hok as [|? ? He Hes]; subst.
    destruct (readbuf_refines_bounded_vec_step_holds dbg cap psize s e Hpool Hwf He) as (_ & Hwf1).
    destruct Hwf as (b & Hb & Hwf).
    destruct (step_owned dbg cap (st_mem s) b e) as [[m' b'] o] eqn:E.
    assert (Hstep : rb_step dbg cap s e = ({| st_mem := m'; st_owned := Some b' |}, o))
      by (unfold rb_step; rewrite Hb, E; reflexivity).
    destruct (step_owned_refines dbg cap psize _ _ e Hpool Hwf He _ _ _ E) as (_ & _ & Hp & Hout).
    rewrite run_cons_rb. rewrite Hstep in *. cbn [fst snd] in *.
    destruct (IH _ Hwf1 Hes) as (b1 & b2 & Hb1 & Hb2 & Hp12 & Hout12).
    cbn [st_owned st_mem] in *. inversion Hb1; subst b1.
    exists b, b2. split; [exact Hb|]. split; [exact Hb2|]. split; [congruence|].
    eapply outside_trans; eauto.
Qed.

Lemma reads_confined_to_slot_holds : reads_confined_to_slot.
Proof.
  intros dbg cap psize m1 m2 b e (Hc0 & Hcap & Hps) Hwf1 Hwf2 Hsame.
  destruct (owned_decompose cap psize m1 b Hwf1) as (pre1 & sb1 & post1 & -> & Hp1 & Hs1).
  destruct (owned_decompose cap psize m2 b Hwf2) as (pre2 & sb2 & post2 & -> & Hp2 & Hs2).
  rewrite (mread_slot _ _ _ _ _ Hp1 Hs1), (mread_slot _ _ _ _ _ Hp2 Hs2) in Hsame. subst sb2.
  destruct Hwf1 as (_ & _ & Hl). destruct b as [p ln]. cbn [rb_ptr rb_len] in *.
  rewrite (step_owned_frame dbg cap pre1 sb1 post1 p ln e Hp1 Hs1 Hl Hcap).
  rewrite (step_owned_frame dbg cap pre2 sb1 post2 p ln e Hp2 Hs1 Hl Hcap).
  rewrite <- (firstn_skipn (N.to_nat ln) sb1) in *.
  set (d := firstn (N.to_nat ln) sb1) in *. set (sp := skipn (N.to_nat ln) sb1) in *.
  assert (Hd : length d = N.to_nat ln).
  { unfold d. rewrite firstn_length. rewrite app_length in Hs1. unfold d, sp in Hs1.
    rewrite firstn_length, skipn_length in Hs1. lia. }
  destruct (step_owned dbg cap (d ++ sp) {| rb_ptr := 0; rb_len := ln |} e) as [[sb' b0] o0] eqn:E.
  assert (Hlen : length sb' = N.to_nat cap).
  { (* the slot keeps its size: by case analysis, as in [slot_refines] but without [edit_ok] *)
    clear - E Hs1 Hd Hl Hcap.
    destruct e as [n| |rs re|n|xs| |xs]; cbn [step_owned] in E;
      unfold parts_mut, set_init, change_size in E; cbn [rb_len rb_ptr] in E.
    - destruct (ln <? n); inversion E; subst; exact Hs1.
    - inversion E; subst; exact Hs1.
    - destruct (norm_start rs) as [st|]; [|inversion E; subst; exact Hs1].
      destruct (norm_end ln re) as [en|]; [|inversion E; subst; exact Hs1].
      destruct (N.ltb_spec en st); [inversion E; subst; exact Hs1|].
      destruct (N.ltb_spec ln en); [inversion E; subst; exact Hs1|].
      destruct (_ || _); inversion E; subst; [exact Hs1|].
      rewrite mwrite_length; [exact Hs1|]. rewrite mread_length by lia. lia.
    - destruct (dbg && _); inversion E; subst; exact Hs1.
    - destruct (N.ltb_spec cap (ln + nlen xs)); inversion E; subst; [exact Hs1|].
      unfold nlen in *. rewrite mwrite_length; [exact Hs1|lia].
    - destruct (usub dbg cap ln); inversion E; subst; exact Hs1.
    - rewrite usub_le in E by lia. inversion E; subst.
      rewrite mwrite_length; [exact Hs1|].
      rewrite trunc32_small by (unfold two32 in *; lia).
      rewrite firstn_length. unfold nlen. lia. }
  cbn [fst snd]. split; [reflexivity|]. split; [reflexivity|].
  rewrite (mread_slot _ _ _ _ _ Hp1 Hlen), (mread_slot _ _ _ _ _ Hp2 Hlen). reflexivity.
Qed.

Lemma step_owned_ptr dbg cap m b e : rb_ptr (snd (fst (step_owned dbg cap m b e))) = rb_ptr b.
Proof.
  destruct e as [n| |rs re|n|xs| |xs]; cbn [step_owned].
  - destruct (_ <? _); reflexivity.
  - reflexivity.
  - destruct (norm_start rs); [|reflexivity]. destruct (norm_end (rb_len b) re); [|reflexivity].
    destruct (_ <? _); [reflexivity|]. destruct (_ <? _); [reflexivity|].
    destruct (_ || _); reflexivity.
  - destruct (dbg && _); reflexivity.
  - destruct (_ <? _); reflexivity.
  - destruct (usub dbg cap (rb_len b)); reflexivity.
  - destruct (parts_mut dbg cap b) as [[p l]|]; reflexivity.
Qed.

Lemma run_keeps_ptr dbg cap es : forall s b,
  st_owned s = Some b ->
  exists b', st_owned (fst (rb_run dbg cap s es)) = Some b' /\ rb_ptr b' = rb_ptr b.
Proof.
  induction es as [|e es IH]; intros s b Hb.
  - exists b. split; [exact Hb|reflexivity].
  - rewrite run_cons_rb. cbn [fst].
    pose proof (step_owned_ptr dbg cap (st_mem s) b e) as Hp.
    destruct (IH (fst (rb_step dbg cap s e)) (snd (fst (step_owned dbg cap (st_mem s) b e)))) as (b' & Hb' & Hp').
    { unfold rb_step. rewrite Hb. destruct (step_owned dbg cap (st_mem s) b e) as [[m' b1] o]. reflexivity. }
    exists b'. split; [exact Hb'|congruence].
Qed.

Lemma release_slot_unchanged_holds : release_slot_unchanged.
Proof.
  intros dbg cap psize m0 id n es (Hc0 & Hcap & Hps) Hid s0.
  destruct (run_keeps_ptr dbg cap es s0 (init_buffer cap id n) eq_refl) as (b & Hb & Hp).
  exists b. split; [exact Hb|]. unfold release_id, release_addr. rewrite Hp. cbn [init_buffer rb_ptr].
  split; [|reflexivity].
  rewrite N.div_mul by lia. unfold trunc16, two16. apply N.mod_small. lia.
Qed.

(** * The hypotheses hold for every buffer the kernel delivers, and in a build with overflow
      checks every call qualifies *)
Lemma init_state_wf cap psize m0 id n :
  length m0 = N.to_nat (psize * cap) -> id < psize -> n <= cap ->
  owned_wf cap psize {| st_mem := m0; st_owned := Some (init_buffer cap id n) |}.
Proof.
  intros Hm Hid Hn. exists (init_buffer cap id n). split; [reflexivity|].
  split; [exact Hm|]. split; [exists id; split; [exact Hid|reflexivity]|exact Hn].
Qed.

Lemma edit_ok_debug cap e : edit_ok true cap e.
Proof. left. reflexivity. Qed.

Lemma all_edits_ok_debug cap es : Forall (edit_ok true cap) es.
Proof. induction es; constructor; auto using edit_ok_debug. Qed.

(** With overflow checks and debug assertions: no side condition at all. *)
Definition readbuf_refines_bounded_vec_checked_build : Prop :=
  forall cap psize s es,
    pool_ok cap psize -> owned_wf cap psize s ->
    vec_run cap (abs cap s) es = (abs cap (fst (rb_run true cap s es)), snd (rb_run true cap s es)).

Lemma readbuf_refines_bounded_vec_checked_build_holds : readbuf_refines_bounded_vec_checked_build.
Proof.
  intros cap psize s es Hpool Hwf.
  exact (proj1 (readbuf_refines_bounded_vec_holds true cap psize s es Hpool Hwf (all_edits_ok_debug cap es))).
Qed.

Lemma readbuf_refines_bounded_vec_every_build_holds : readbuf_refines_bounded_vec_every_build.
Proof.
  intros dbg cap psize s es Hpool Hwf Hc.
  apply (readbuf_refines_bounded_vec_holds dbg cap psize s es Hpool Hwf).
  eapply Forall_impl; [|exact Hc]. intros e He. right. exact He.
Qed.

(** Non-vacuity: a pool of two 4-byte buffers, buffer 1 filled with 3 bytes; the calls
    qualify, and this is what they do (a removal, a fitting and a refused extension, a
    rejected [set_len] beyond the capacity, a rejected out-of-bounds range). *)
Definition ex_state : rstate :=
  {| st_mem := [1; 2; 3; 4; 5; 6; 7; 8]; st_owned := Some (init_buffer 4 1 3) |}.
Definition ex_edits : list edit :=
  [Remove (Incl 0) (Excl 1); Extend [9; 9]; Extend [7]; SetLen 5; Remove (Incl 2) (Incl 4)].

Example hypotheses_satisfiable :
  pool_ok 4 2 /\ owned_wf 4 2 ex_state /\ Forall (edit_ok true 4) ex_edits /\
  Forall (edit_ok false 4) [Remove (Incl 0) (Excl 1); Extend [9; 9]; SetLen 4] /\
  rb_run true 4 ex_state ex_edits =
    ({| st_mem := [1; 2; 3; 4; 6; 7; 9; 9]; st_owned := Some {| rb_ptr := 4; rb_len := 4 |} |},
     [Done 0; Done 0; Refused; Rejected; Rejected]).
Proof.
  split; [unfold pool_ok, two32; lia|].
  split; [apply init_state_wf; [reflexivity|lia|lia]|].
  split; [apply all_edits_ok_debug|].
  split; [|vm_compute; reflexivity].
  constructor; [right; exact I|].
  constructor; [right; exact I|].
  constructor; [right; unfold set_len_in_contract; lia|]. constructor.
Qed.

(** * What the code did before the repair of H23 (unchecked [bound + 1]) *)

(** Without overflow checks the old normalisation turned the bounds
    [(Excluded(usize::MAX), Unbounded)] into the valid range [0 .. len] (so [remove] emptied
    the buffer) and [..=usize::MAX] into [0 .. 0] (so [remove] did nothing), where the vector
    rejects both ranges; the repaired normalisation rejects both in every build. *)
Lemma remove_bounds_h23_refuted :
  exists rs re ln,
    norm_start_h23 false rs = Some 0 /\ norm_end_h23 false ln re = Some ln /\
    ~ (range_lo rs <= range_hi ln re /\ range_hi ln re <= ln) /\
    norm_start rs = None /\
    norm_start_h23 false Unb = Some 0 /\ norm_end_h23 false ln (Incl usize_max) = Some 0 /\
    ~ (range_hi ln (Incl usize_max) <= ln) /\
    norm_end ln (Incl usize_max) = None.
Proof.
  exists (Excl usize_max), Unb, 4.
  repeat split; try (vm_compute; reflexivity).
  - intros [H _]. vm_compute in H. apply H. reflexivity.
  - intros H. vm_compute in H. apply H. reflexivity.
Qed.

(** * Before the kernel selected a buffer ([owned = None], outside the property): every call
      leaves everything as it is. It is not an empty vector, though: an out-of-bounds range
      that starts at 0 is accepted. *)
Lemma unowned_inert dbg cap m e :
  fst (rb_step dbg cap {| st_mem := m; st_owned := None |} e) = {| st_mem := m; st_owned := None |}.
Proof. reflexivity. Qed.

Lemma unowned_accepts_out_of_bounds_range :
  exists e, forall dbg cap sp,
    snd (rb_step dbg cap {| st_mem := []; st_owned := None |} e) = Done 0 /\
    snd (vec_step cap {| v_data := []; v_spare := sp |} e) = Rejected.
Proof. exists (Remove (Incl 0) (Excl 5)). intros. split; reflexivity. Qed.

(** Proofs about Model/SockAddr.v, and the statements of C16. *)
From A10 Require Import Base.Word Model.SockAddr.
From Coq Require Import ZifyN ZifyBool ZifyNat.
Ltac Zify.zify_post_hook ::= Z.div_mod_to_equations.

(** * The supported addresses *)
Definition bytes_ok (l : list N) : Prop := Forall (fun x => x < 256) l.

Definition wf_addr (a : addr) : Prop :=
  match a with
  | V4 ip port => length ip = 4%nat /\ bytes_ok ip /\ port < 65536
  | V6 ip port flow scope =>
      length ip = 16%nat /\ bytes_ok ip /\ port < 65536 /\ flow < two32 /\ scope < two32
  | UnUnnamed => True
  | UnPath p => (1 <= length p <= 107)%nat /\ bytes_ok p /\ ~ In 0 p
  | UnAbstract n => (length n <= 107)%nat /\ bytes_ok n
  | NoAddr => True
  end.

(** Which Rust type carries which address. *)
Definition accepts (i : impl) (a : addr) : Prop :=
  match i, a with
  | ISockAddrV4, V4 _ _ | ISockAddrV6, V6 _ _ _ _ | ISockAddr, V4 _ _ | ISockAddr, V6 _ _ _ _
  | IUnix, UnUnnamed | IUnix, UnPath _ | IUnix, UnAbstract _ | INoAddress, NoAddr => True
  | _, _ => False
  end.

Definition supported (i : impl) (a : addr) : Prop := accepts i a /\ wf_addr a.

Definition is_unix_path (a : addr) : Prop := match a with UnPath _ => True | _ => False end.
(** The class of H8: Unix addresses whose kernel representation is shorter than
    [sockaddr_un] and does not end in a C string. *)
Definition is_unix_short_abstract_or_unnamed (a : addr) : Prop :=
  match a with UnUnnamed => True | UnAbstract n => (length n < 107)%nat | _ => False end.

(** * Linux's side, stated independently of the model of the code.
    [wire a]: the bytes the kernel holds and returns for [a] ([kernel_len a] of them).
    [kernel_view s]: how bind/connect/sendmsg read a name of [length s] bytes. *)
Definition wire (a : addr) : list N :=
  match a with
  | V4 ip port => [2; 0; port / 256; port mod 256] ++ ip ++ [0; 0; 0; 0; 0; 0; 0; 0]
  | V6 ip port flow scope => [10; 0; port / 256; port mod 256] ++ u32_le flow ++ ip ++ u32_le scope
  | UnUnnamed => [1; 0]
  | UnPath p => [1; 0] ++ p ++ [0]
  | UnAbstract n => [1; 0; 0] ++ n
  | NoAddr => []
  end.

(** [strlen]. *)
Fixpoint take_nz (l : list N) : list N :=
  match l with
  | [] => []
  | x :: r => if x =? 0 then [] else x :: take_nz r
  end.

Definition kernel_view (s : list N) : option addr :=
  match s with
  | [] => Some NoAddr                   (* no name *)
  | [_] => None
  | f0 :: f1 :: body =>
      let family := f0 + 256 * f1 in
      let n := length s in
      if family =? AF_INET then
        if (n <? 16)%nat then None
        else Some (V4 (sub 2 4 body) (256 * byte_at body 0 + byte_at body 1))
      else if family =? AF_INET6 then
        if (n <? 24)%nat then None      (* SIN6_LEN_RFC2133 *)
        else Some (V6 (sub 6 16 body) (256 * byte_at body 0 + byte_at body 1) (le_u32 (sub 2 4 body))
                      (if (n <? 28)%nat then 0 else le_u32 (sub 22 4 body)))
      else if family =? AF_UNIX then
        if (110 <? n)%nat then None
        else match body with
             | [] => Some UnUnnamed     (* bind: autobind; otherwise the unnamed address *)
             | 0 :: name => Some (UnAbstract name)
             | _ => Some (UnPath (take_nz body))
             end
      else None
  end.

(** * Integers *)
Lemma le_u16_app2 a b r : le_u16 (a :: b :: r) = a + 256 * b.
Proof. reflexivity. Qed.

Lemma le_u16_u16_le x r : x < 65536 -> le_u16 (u16_le x ++ r) = x.
Proof. intros. unfold u16_le. cbn [app]. rewrite le_u16_app2. lia. Qed.

Lemma swap16_lt x : swap16 x < 65536.
Proof. unfold swap16. lia. Qed.

Lemma swap16_invol x : x < 65536 -> swap16 (swap16 x) = x.
Proof. unfold swap16. intros. lia. Qed.

Lemma le_u32_u32_le x : x < two32 -> le_u32 (u32_le x) = x.
Proof. unfold le_u32, u32_le, byte_at, two32. cbn [nth]. intros. lia. Qed.

Lemma u32_le_le_u32 a b c d :
  a < 256 -> b < 256 -> c < 256 -> d < 256 -> u32_le (le_u32 [a; b; c; d]) = [a; b; c; d].
Proof.
  unfold le_u32, u32_le, byte_at. cbn [nth]. intros.
  f_equal; [|f_equal; [|f_equal; [|f_equal]]]; lia.
Qed.

(** The port goes out in network byte order. *)
Lemma u16_le_swap16 x : x < 65536 -> u16_le (swap16 x) = [x / 256; x mod 256].
Proof. unfold u16_le, swap16. intros. f_equal; [|f_equal]; lia. Qed.

(** * Lists *)
Lemma firstn_repeat_min {A} (x : A) m n : firstn m (repeat x n) = repeat x (Nat.min m n).
Proof.
  revert n; induction m as [|m IH]; intros [|n]; cbn [firstn repeat Nat.min]; try reflexivity.
  rewrite IH. reflexivity.
Qed.

Lemma zeros_length n : length (zeros n) = n.
Proof. apply repeat_length. Qed.

Lemma firstn_pad_to n k l :
  (length l <= k)%nat -> (k <= n)%nat -> firstn k (pad_to n l) = l ++ zeros (k - length l).
Proof.
  intros Hl Hk. unfold pad_to. rewrite firstn_firstn. replace (Nat.min k n) with k by lia.
  rewrite firstn_app, (firstn_all2 l) by lia. f_equal.
  unfold zeros. rewrite firstn_repeat_min. f_equal. lia.
Qed.

Lemma pad_to_length n l : length (pad_to n l) = n.
Proof.
  unfold pad_to. rewrite firstn_length, app_length, zeros_length. lia.
Qed.

Lemma pad_to_short n l : (length l <= n)%nat -> pad_to n l = l ++ zeros (n - length l).
Proof.
  intros H. rewrite <- (firstn_all (pad_to n l)) at 1. rewrite pad_to_length.
  apply firstn_pad_to; lia.
Qed.

Lemma pad_fill_short cap fill l :
  (length l <= cap)%nat -> pad_fill cap fill l = l ++ repeat fill (cap - length l).
Proof.
  intros H. unfold pad_fill. rewrite firstn_app, (firstn_all2 l) by lia. f_equal.
  rewrite firstn_repeat_min. f_equal. lia.
Qed.

Lemma pad_fill_length cap fill l : length (pad_fill cap fill l) = cap.
Proof. unfold pad_fill. rewrite firstn_length, app_length, repeat_length. lia. Qed.

Lemma pad_fill_full cap fill l : length l = cap -> pad_fill cap fill l = l.
Proof.
  intros H. rewrite pad_fill_short by lia. replace (cap - length l)%nat with 0%nat by lia.
  apply app_nil_r.
Qed.

Lemma take_nz_app_zeros p k : ~ In 0 p -> take_nz (p ++ zeros k) = p.
Proof.
  induction p as [|x p IH]; intros H; cbn [app take_nz].
  - destruct k; reflexivity.
  - destruct (N.eqb_spec x 0) as [->|_]; [exfalso; apply H; left; reflexivity|].
    rewrite IH; [reflexivity|]. intros Hin; apply H; right; exact Hin.
Qed.

Lemma existsb_zero_false p : ~ In 0 p -> existsb (N.eqb 0) p = false.
Proof.
  induction p as [|x p IH]; intros H; cbn [existsb]; [reflexivity|].
  destruct (N.eqb_spec 0 x) as [<-|_]; [exfalso; apply H; left; reflexivity|].
  apply IH. intros Hin; apply H; right; exact Hin.
Qed.

Lemma existsb_zero_snoc p : existsb (N.eqb 0) (p ++ [0]) = true.
Proof. rewrite existsb_app. cbn. apply orb_true_r. Qed.

Lemma strip_nul_snoc p : strip_nul (p ++ [0]) = p.
Proof. unfold strip_nul. rewrite rev_app_distr. cbn [rev app]. apply rev_involutive. Qed.

Lemma strip_nul_no_nul p : ~ In 0 p -> strip_nul p = p.
Proof.
  intros H. unfold strip_nul. destruct (rev p) as [|x r] eqn:E; [reflexivity|].
  destruct x; [|reflexivity]. exfalso. apply H. apply in_rev. rewrite E. left; reflexivity.
Qed.

(** Lists of a known length become explicit. *)
Ltac explode l H :=
  repeat (destruct l as [|? l]; [discriminate H|]; cbn [length] in H; apply Nat.succ_inj in H);
  destruct l; [clear H|discriminate H].

Ltac forall_inv H :=
  unfold bytes_ok in H;
  repeat match type of H with
  | Forall _ (_ :: _) => let H1 := fresh "Hb" in apply Forall_cons_iff in H; destruct H as [H1 H]
  end.

(** * IPv4 / IPv6: storage is the kernel's representation *)
Lemma store_in_wire ip port : wf_addr (V4 ip port) -> store_in ip port = wire (V4 ip port).
Proof.
  intros (Hl & Hb & Hp). explode ip Hl. forall_inv Hb.
  unfold store_in, wire. rewrite u16_le_swap16, u32_le_le_u32 by assumption. reflexivity.
Qed.

Lemma store_in6_wire ip port flow scope :
  port < 65536 -> store_in6 ip port flow scope = wire (V6 ip port flow scope).
Proof. intros. unfold store_in6, wire. rewrite u16_le_swap16 by assumption. reflexivity. Qed.

Lemma swap16_be hi lo : hi < 256 -> lo < 256 -> swap16 (hi + 256 * lo) = 256 * hi + lo.
Proof. unfold swap16. intros. lia. Qed.

Lemma port_be port : port < 65536 -> 256 * (port / 256) + port mod 256 = port.
Proof. intros. lia. Qed.

Lemma init_in_wire ip port r :
  wf_addr (V4 ip port) -> init_in (wire (V4 ip port) ++ r) 16 = Some (V4 ip port).
Proof.
  intros (Hl & Hb & Hp). explode ip Hl. forall_inv Hb.
  unfold init_in, wire, sub. cbn [app skipn firstn]. rewrite !le_u16_app2.
  change (negb (16 =? SIZEOF_IN)) with false. change (negb (2 + 256 * 0 =? AF_INET)) with false.
  cbn [negb]. rewrite swap16_be, port_be, u32_le_le_u32 by (assumption || lia). reflexivity.
Qed.

Lemma init_in6_wire ip port flow scope :
  wf_addr (V6 ip port flow scope) ->
  init_in6 (wire (V6 ip port flow scope)) 28 = Some (V6 ip port flow scope).
Proof.
  intros (Hl & Hb & Hp & Hf & Hs). explode ip Hl.
  unfold init_in6, wire, sub, u32_le. cbn [app skipn firstn]. rewrite !le_u16_app2.
  change (negb (28 =? SIZEOF_IN6)) with false. change (negb (10 + 256 * 0 =? AF_INET6)) with false.
  cbn [negb]. rewrite swap16_be, port_be by lia.
  change [flow mod 256; (flow / 256) mod 256; (flow / 65536) mod 256; (flow / 16777216) mod 256] with (u32_le flow).
  change [scope mod 256; (scope / 256) mod 256; (scope / 65536) mod 256; (scope / 16777216) mod 256] with (u32_le scope).
  rewrite !le_u32_u32_le by assumption. reflexivity.
Qed.

Lemma init_sockaddr_wire4 ip port r :
  wf_addr (V4 ip port) -> length r = 12%nat ->
  init_sockaddr (wire (V4 ip port) ++ r) 16 = Some (V4 ip port).
Proof.
  intros Hwf Hr. pose proof Hwf as (Hl & Hb & Hp). explode ip Hl.
  unfold init_sockaddr. change (16 <? 2) with false. cbn [wire app]. rewrite le_u16_app2.
  change (2 + 256 * 0 =? AF_INET) with true. cbn [firstn].
  exact (init_in_wire [n; n0; n1; n2] port [] Hwf).
Qed.

Lemma init_sockaddr_wire6 ip port flow scope :
  wf_addr (V6 ip port flow scope) ->
  init_sockaddr (wire (V6 ip port flow scope)) 28 = Some (V6 ip port flow scope).
Proof.
  intros Hwf. unfold init_sockaddr. change (28 <? 2) with false. cbn [wire app].
  rewrite le_u16_app2. change (10 + 256 * 0 =? AF_INET) with false.
  exact (init_in6_wire ip port flow scope Hwf).
Qed.

(** What is passed to the kernel for an IP address is exactly its representation. *)
Lemma sent_inet v i a :
  supported i a -> (match a with V4 _ _ | V6 _ _ _ _ => True | _ => False end) ->
  sent v i a = wire a /\ as_ptr_len v i (into_storage v i a) = kernel_len a.
Proof.
  intros [Hacc Hwf] Hip. destruct a as [ip port|ip port flow scope| | | |]; try contradiction;
    destruct i; try contradiction; unfold sent, into_storage; cbn [fst snd].
  - rewrite store_in_wire by assumption. destruct Hwf as (Hl & _). explode ip Hl. split; reflexivity.
  - rewrite store_in_wire by assumption. destruct Hwf as (Hl & _). explode ip Hl. split; reflexivity.
  - destruct Hwf as (Hl & _ & Hp & _). rewrite store_in6_wire by assumption. explode ip Hl. split; reflexivity.
  - destruct Hwf as (Hl & _ & Hp & _). rewrite store_in6_wire by assumption. explode ip Hl. split; reflexivity.
Qed.

(** * Unix *)
Lemma sun_path_len a : accepts IUnix a -> wf_addr a -> (length (sun_path_of a) <= 108)%nat.
Proof. destruct a; cbn [accepts wf_addr sun_path_of length]; intros; lia. Qed.

Lemma store_un_eq a :
  (length (sun_path_of a) <= 108)%nat ->
  store_un a = 1 :: 0 :: sun_path_of a ++ zeros (108 - length (sun_path_of a)).
Proof. intros H. unfold store_un, SUN_PATH_LEN. rewrite pad_to_short by assumption. reflexivity. Qed.

Lemma store_un_length a : length (store_un a) = 110%nat.
Proof. unfold store_un. rewrite app_length, pad_to_length. reflexivity. Qed.

Lemma sent_unix v a :
  sent v IUnix a = firstn (N.to_nat (match v with AsIs => 110 | Fixed => un_len a end)) (store_un a).
Proof. destruct v, a; reflexivity. Qed.

Lemma firstn_app_zeros k (l : list N) m :
  (length l <= k)%nat -> (k <= length l + m)%nat -> firstn k (l ++ zeros m) = l ++ zeros (k - length l).
Proof.
  intros H1 H2. rewrite firstn_app, (firstn_all2 l) by lia. f_equal.
  unfold zeros. rewrite firstn_repeat_min. f_equal. lia.
Qed.

(** [init] on a [sockaddr_un] whose first [len] bytes are [AF_UNIX] and [content]. *)
Lemma init_un_shape v content rest len :
  2 <= len -> len <= 110 -> N.to_nat (len - 2) = length content ->
  init_un v (1 :: 0 :: content ++ rest) len =
  match content with
  | 0 :: name => Some (UnAbstract name)
  | _ => Some (from_pathname (match v with AsIs => content | Fixed => strip_nul content end))
  end.
Proof.
  intros H1 H2 H3. unfold init_un, SUN_PATH_OFFSET, SIZEOF_UN.
  destruct (N.ltb_spec len 2); [lia|]. destruct (N.ltb_spec 110 len); [lia|].
  rewrite le_u16_app2. change (negb (1 + 256 * 0 =? AF_UNIX)) with false. cbv iota.
  unfold sub. rewrite H3. cbn [skipn]. rewrite firstn_app, firstn_all, Nat.sub_diag.
  cbn [firstn]. rewrite app_nil_r. reflexivity.
Qed.

Lemma from_pathname_ok p : (1 <= length p <= 107)%nat -> ~ In 0 p -> from_pathname p = UnPath p.
Proof.
  intros Hl Hz. unfold from_pathname, SUN_PATH_LEN. rewrite existsb_zero_false by assumption.
  destruct (Nat.leb_spec 108 (length p)); [lia|]. destruct p; [cbn in Hl; lia|reflexivity].
Qed.

Lemma from_pathname_nul p : from_pathname (p ++ [0]) = UnUnnamed.
Proof. unfold from_pathname. rewrite existsb_zero_snoc. reflexivity. Qed.

Lemma path_head p : (1 <= length p)%nat -> ~ In 0 p -> exists x r, p = N.pos x :: r.
Proof.
  destruct p as [|[|x] r]; cbn [length]; intros Hl Hz; [lia| |eauto].
  exfalso; apply Hz; left; reflexivity.
Qed.

(** The storage, cut after [k] bytes of [sun_path]. *)
Definition un_content (a : addr) (k : nat) : list N :=
  firstn k (sun_path_of a ++ zeros (108 - length (sun_path_of a))).

Lemma un_content_length a k :
  (length (sun_path_of a) <= 108)%nat -> (k <= 108)%nat -> length (un_content a k) = k.
Proof. intros. unfold un_content. rewrite firstn_length, app_length, zeros_length. lia. Qed.

(** Outcome of [init] by class, for the lengths of interest. *)
Definition un_outcome (v : variant) (a : addr) (k : nat) : option addr :=
  match un_content a k with
  | 0 :: name => Some (UnAbstract name)
  | c => Some (from_pathname (match v with AsIs => c | Fixed => strip_nul c end))
  end.

Lemma init_un_content v a len rest :
  accepts IUnix a -> wf_addr a -> 2 <= len -> len <= 110 ->
  init_un v (1 :: 0 :: un_content a (N.to_nat len - 2) ++ rest) len = un_outcome v a (N.to_nat len - 2).
Proof.
  intros Ha Hw H1 H2. rewrite init_un_shape; try assumption.
  - unfold un_outcome. destruct (un_content a (N.to_nat len - 2)) as [|[|?] ?]; reflexivity.
  - rewrite un_content_length; [lia|apply sun_path_len; assumption|lia].
Qed.

Lemma un_outcome_path_nul v p :
  wf_addr (UnPath p) ->
  un_outcome v (UnPath p) (length p + 1) = Some (match v with AsIs => UnUnnamed | Fixed => UnPath p end).
Proof.
  intros (Hl & _ & Hz). unfold un_outcome, un_content. cbn [sun_path_of].
  rewrite firstn_app_zeros by lia. replace (length p + 1 - length p)%nat with 1%nat by lia.
  destruct (path_head p) as (x & r & ->); [lia|assumption|]. cbn [app zeros repeat].
  change (N.pos x :: r ++ [0]) with ((N.pos x :: r) ++ [0]).
  destruct v; [rewrite from_pathname_nul; reflexivity|].
  rewrite strip_nul_snoc, from_pathname_ok by assumption. reflexivity.
Qed.

Lemma un_outcome_path v p :
  wf_addr (UnPath p) -> un_outcome v (UnPath p) (length p) = Some (UnPath p).
Proof.
  intros (Hl & _ & Hz). unfold un_outcome, un_content. cbn [sun_path_of].
  rewrite firstn_app_zeros by lia. rewrite Nat.sub_diag. cbn [zeros repeat]. rewrite app_nil_r.
  destruct (path_head p) as (x & r & E); [lia|assumption|]. subst p. cbv iota.
  rewrite strip_nul_no_nul by assumption. destruct v; rewrite from_pathname_ok by assumption; reflexivity.
Qed.

Lemma un_outcome_abstract v n :
  wf_addr (UnAbstract n) -> un_outcome v (UnAbstract n) (length n + 1) = Some (UnAbstract n).
Proof.
  intros (Hl & _). unfold un_outcome, un_content. cbn [sun_path_of].
  rewrite firstn_app_zeros by (cbn [length]; lia). cbn [length].
  replace (length n + 1 - S (length n))%nat with 0%nat by lia. cbn [zeros repeat app].
  rewrite app_nil_r. reflexivity.
Qed.

Lemma un_outcome_unnamed v : un_outcome v UnUnnamed 0 = Some UnUnnamed.
Proof. destruct v; reflexivity. Qed.

Lemma un_len_bounds a : accepts IUnix a -> wf_addr a -> 2 <= un_len a /\ un_len a <= 110 /\ un_len a = kernel_len a.
Proof.
  destruct a; cbn [accepts wf_addr un_len kernel_len]; unfold SUN_PATH_OFFSET; intros; lia.
Qed.

Lemma store_un_split a k :
  (length (sun_path_of a) <= 108)%nat ->
  store_un a = 1 :: 0 :: un_content a k
               ++ skipn k (sun_path_of a ++ zeros (108 - length (sun_path_of a))).
Proof. intros H. rewrite store_un_eq by assumption. unfold un_content. rewrite firstn_skipn. reflexivity. Qed.

Lemma reply_unix v a len fill :
  accepts IUnix a -> wf_addr a -> 2 <= len ->
  len <= (match v with AsIs => 110 | Fixed => un_len a end) ->
  reply v IUnix a len fill
  = 1 :: 0 :: un_content a (N.to_nat len - 2) ++ repeat fill (110 - N.to_nat len).
Proof.
  intros Ha Hw H1 H2. pose proof (un_len_bounds a Ha Hw) as (_ & Hu & _).
  pose proof (sun_path_len a Ha Hw) as Hs.
  assert (H3 : len <= 110) by (destruct v; lia).
  unfold reply. rewrite sent_unix, firstn_firstn.
  replace (Nat.min (N.to_nat len) _) with (N.to_nat len) by (destruct v; lia).
  rewrite (store_un_split a (N.to_nat len - 2)) by assumption.
  replace (N.to_nat len) with (S (S (N.to_nat len - 2))) at 1 by lia. cbn [firstn].
  rewrite firstn_app, firstn_all2 by (rewrite un_content_length; lia).
  rewrite un_content_length by lia. rewrite Nat.sub_diag. cbn [firstn]. rewrite app_nil_r.
  change (N.to_nat (as_mut_ptr_len IUnix)) with 110%nat.
  rewrite pad_fill_short by (cbn [length]; rewrite un_content_length; lia).
  cbn [length app]. rewrite un_content_length by lia.
  replace (110 - S (S (N.to_nat len - 2)))%nat with (110 - N.to_nat len)%nat by lia. reflexivity.
Qed.

Lemma unix_read_back v a len fill :
  accepts IUnix a -> wf_addr a -> 2 <= len ->
  len <= (match v with AsIs => 110 | Fixed => un_len a end) ->
  read_back v IUnix a len fill = un_outcome v a (N.to_nat len - 2).
Proof.
  intros Ha Hw H1 H2. pose proof (un_len_bounds a Ha Hw) as (_ & Hu & _).
  unfold read_back. rewrite reply_unix by assumption. cbn [init].
  apply init_un_content; try assumption. destruct v; lia.
Qed.

Lemma unix_direct v a len :
  accepts IUnix a -> wf_addr a -> 2 <= len -> len <= 110 ->
  init v IUnix (fst (into_storage v IUnix a)) len = un_outcome v a (N.to_nat len - 2).
Proof.
  intros Ha Hw H1 H2. replace (fst (into_storage v IUnix a)) with (store_un a) by (destruct a; reflexivity).
  rewrite (store_un_split a (N.to_nat len - 2)) by (apply sun_path_len; assumption).
  cbn [init]. apply init_un_content; assumption.
Qed.

(** * C16, first law: the round trip *)
Definition is_inet (a : addr) : Prop := match a with V4 _ _ | V6 _ _ _ _ => True | _ => False end.

(** Reading [a] back with reported length [len]: from a fresh storage in which the kernel
    wrote [len] bytes (whatever the other bytes hold), and from the storage itself. *)
Definition roundtrip_at (v : variant) (i : impl) (a : addr) (len : N) : Prop :=
  (forall fill, read_back v i a len fill = Some a)
  /\ init v i (fst (into_storage v i a)) len = Some a.

Lemma inet_roundtrip v i a : supported i a -> is_inet a -> roundtrip_at v i a (kernel_len a).
Proof.
  intros Hs Hip. pose proof (sent_inet v i a Hs Hip) as [Hsent _]. destruct Hs as [Hacc Hwf].
  split; [intros fill; unfold read_back, reply; rewrite Hsent|];
    destruct a as [ip port|ip port flow scope| | | |]; try contradiction;
    destruct i; try contradiction; cbn [init kernel_len into_storage fst].
  - pose proof Hwf as (Hl & _). explode ip Hl.
    exact (init_in_wire [n; n0; n1; n2] port [] Hwf).
  - pose proof Hwf as (Hl & _). explode ip Hl.
    exact (init_sockaddr_wire4 [n; n0; n1; n2] port (repeat fill 12) Hwf eq_refl).
  - pose proof Hwf as (Hl & _). explode ip Hl.
    exact (init_in6_wire _ port flow scope Hwf).
  - pose proof Hwf as (Hl & _). explode ip Hl.
    exact (init_sockaddr_wire6 _ port flow scope Hwf).
  - rewrite store_in_wire, <- (app_nil_r (wire _)) by assumption. apply init_in_wire; assumption.
  - rewrite store_in_wire by assumption. apply init_sockaddr_wire4; [assumption|reflexivity].
  - rewrite store_in6_wire by apply Hwf. apply init_in6_wire; assumption.
  - rewrite store_in6_wire by apply Hwf. apply init_sockaddr_wire6; assumption.
Qed.

Definition sockaddr_roundtrip_for (v : variant) : Prop :=
  forall i a, supported i a ->
    roundtrip_at v i a (kernel_len a)
    /\ (is_unix_path a -> roundtrip_at v i a (kernel_len a - 1)).

(** The property for the code as it is. It does not hold: [sockaddr_roundtrip_refuted]. *)
Definition sockaddr_roundtrip : Prop := sockaddr_roundtrip_for AsIs.

(** What does hold for the code as it is: everything but pathnames with their NUL. *)
Definition sockaddr_roundtrip_except_unix_path : Prop :=
  forall i a, supported i a ->
    (~ is_unix_path a -> roundtrip_at AsIs i a (kernel_len a))
    /\ (is_unix_path a -> roundtrip_at AsIs i a (kernel_len a - 1)).

(** H7, exactly: every pathname comes back unnamed. *)
Definition unix_path_reads_back_unnamed : Prop :=
  forall p, wf_addr (UnPath p) -> forall fill,
    read_back AsIs IUnix (UnPath p) (kernel_len (UnPath p)) fill = Some UnUnnamed.

Definition sockaddr_roundtrip_refuted_stmt : Prop :=
  exists i a, supported i a /\ ~ roundtrip_at AsIs i a (kernel_len a).

(** After the proposed repair. *)
Definition sockaddr_roundtrip_fixed : Prop := sockaddr_roundtrip_for Fixed.

Ltac len_side :=
  try assumption; try exact I;
  try (try match goal with
           | |- context [match ?v with AsIs => _ | Fixed => _ end] => is_var v; destruct v
           end;
       cbn [un_len kernel_len length] in *; unfold SUN_PATH_OFFSET in *; lia).

Lemma roundtrip_cases v i a :
  supported i a ->
  (v = Fixed \/ ~ is_unix_path a -> roundtrip_at v i a (kernel_len a))
  /\ (is_unix_path a -> roundtrip_at v i a (kernel_len a - 1)).
Proof.
  intros Hs. destruct a as [ip port|ip port flow scope| |p|n|] eqn:Ea.
  1,2: split; [intros _; rewrite <- Ea in *; apply inet_roundtrip; [assumption|rewrite Ea; exact I]
              |intros []].
  all: destruct Hs as [Hacc Hwf]; destruct i; try contradiction.
  - (* unnamed *)
    split; [intros _|intros []].
    split; [intros fill; rewrite unix_read_back by len_side|rewrite unix_direct by len_side];
      apply un_outcome_unnamed.
  - (* pathname *)
    pose proof Hwf as (Hl & _).
    assert (E1 : (N.to_nat (kernel_len (UnPath p)) - 2 = length p + 1)%nat) by len_side.
    assert (E2 : (N.to_nat (kernel_len (UnPath p) - 1) - 2 = length p)%nat) by len_side.
    split.
    + intros Hv. assert (v = Fixed) as -> by (destruct Hv as [?|Hn]; [assumption|exfalso; apply Hn; exact I]).
      split; [intros fill; rewrite unix_read_back by len_side|rewrite unix_direct by len_side];
        rewrite E1; apply (un_outcome_path_nul Fixed); assumption.
    + intros _.
      split; [intros fill; rewrite unix_read_back by len_side|rewrite unix_direct by len_side];
        rewrite E2; apply un_outcome_path; assumption.
  - (* abstract *)
    pose proof Hwf as (Hl & _).
    assert (E1 : (N.to_nat (kernel_len (UnAbstract n)) - 2 = length n + 1)%nat) by len_side.
    split; [intros _|intros []].
    split; [intros fill; rewrite unix_read_back by len_side|rewrite unix_direct by len_side];
      rewrite E1; apply un_outcome_abstract; assumption.
  - (* NoAddress *)
    split; [intros _|intros []]. split; [intros fill|]; reflexivity.
Qed.

Lemma sockaddr_roundtrip_except_unix_path_holds : sockaddr_roundtrip_except_unix_path.
Proof.
  intros i a Hs. destruct (roundtrip_cases AsIs i a Hs) as [H1 H2].
  split; [intros Hn; apply H1; right; exact Hn|exact H2].
Qed.

Lemma sockaddr_roundtrip_fixed_holds : sockaddr_roundtrip_fixed.
Proof.
  intros i a Hs. destruct (roundtrip_cases Fixed i a Hs) as [H1 H2].
  split; [apply H1; left; reflexivity|exact H2].
Qed.

Lemma unix_path_reads_back_unnamed_holds : unix_path_reads_back_unnamed.
Proof.
  intros p Hwf fill. pose proof Hwf as (Hl & _).
  rewrite unix_read_back by len_side.
  replace (N.to_nat (kernel_len (UnPath p)) - 2)%nat with (length p + 1)%nat by len_side.
  apply (un_outcome_path_nul AsIs). assumption.
Qed.

Lemma wf_path_a : wf_addr (UnPath [97]).
Proof.
  split; [cbn; lia|split].
  - repeat constructor.
  - intros [H|[]]; discriminate H.
Qed.

Lemma sockaddr_roundtrip_refuted : sockaddr_roundtrip_refuted_stmt.
Proof.
  exists IUnix, (UnPath [97]). split; [split; [exact I|exact wf_path_a]|].
  intros [H _]. specialize (H 0). vm_compute in H. discriminate H.
Qed.

(** Hence the full statement is false for the code as it is. *)
Lemma sockaddr_roundtrip_fails : ~ sockaddr_roundtrip.
Proof.
  intros H. destruct (H IUnix (UnPath [97])) as [[H1 _] _]; [split; [exact I|exact wf_path_a]|].
  specialize (H1 0). vm_compute in H1. discriminate H1.
Qed.

(** * C16, second law: the pointer/length pairs *)
Definition struct_size (i : impl) : N :=
  match i with ISockAddrV4 => 16 | ISockAddrV6 | ISockAddr => 28 | IUnix => 110 | INoAddress => 0 end.

(** The [as_ptr] pair stays inside the storage; the storage and the [as_mut_ptr] pair are
    the whole structure of the family, large enough for what the kernel reports; and the
    kernel's representation of [a] is what the pair starts with. *)
Definition ptr_len_in_bounds (v : variant) (i : impl) (a : addr) : Prop :=
  let st := into_storage v i a in
  (N.to_nat (as_ptr_len v i st) <= length (fst st))%nat
  /\ length (fst st) = N.to_nat (struct_size i)
  /\ as_mut_ptr_len i = struct_size i
  /\ kernel_len a <= struct_size i
  /\ firstn (N.to_nat (kernel_len a)) (sent v i a) = wire a.

(** The pair covers exactly the address: Linux reads [a] out of it (and for the fixed-size
    families the length is the size of the structure). *)
Definition kernel_reads_same (v : variant) (i : impl) (a : addr) : Prop :=
  kernel_view (sent v i a) = Some a
  /\ (is_inet a -> as_ptr_len v i (into_storage v i a) = kernel_len a).

Definition ptr_len_covers_family_struct_for (v : variant) : Prop :=
  forall i a, supported i a -> ptr_len_in_bounds v i a /\ kernel_reads_same v i a.

(** The property for the code as it is. It does not hold: [ptr_len_covers_refuted]. *)
Definition ptr_len_covers_family_struct : Prop := ptr_len_covers_family_struct_for AsIs.

Definition ptr_len_covers_except_short_abstract : Prop :=
  forall i a, supported i a ->
    ptr_len_in_bounds AsIs i a
    /\ (~ is_unix_short_abstract_or_unnamed a -> kernel_reads_same AsIs i a).

(** H8, exactly: the name arrives padded to 107 bytes; unnamed arrives as 107 NULs. *)
Definition unix_abstract_arrives_padded : Prop :=
  (forall n, wf_addr (UnAbstract n) ->
     kernel_view (sent AsIs IUnix (UnAbstract n)) = Some (UnAbstract (n ++ zeros (107 - length n))))
  /\ kernel_view (sent AsIs IUnix UnUnnamed) = Some (UnAbstract (zeros 107)).

Definition ptr_len_covers_refuted_stmt : Prop :=
  exists i a, supported i a /\ kernel_view (sent AsIs i a) <> Some a.

Definition ptr_len_covers_family_struct_fixed : Prop := ptr_len_covers_family_struct_for Fixed.

Lemma kernel_view_wire4 ip port : wf_addr (V4 ip port) -> kernel_view (wire (V4 ip port)) = Some (V4 ip port).
Proof.
  intros (Hl & Hb & Hp). explode ip Hl. unfold kernel_view, wire, sub, byte_at.
  cbn [app skipn firstn nth]. rewrite port_be by assumption. reflexivity.
Qed.

Lemma kernel_view_wire6 ip port flow scope :
  wf_addr (V6 ip port flow scope) -> kernel_view (wire (V6 ip port flow scope)) = Some (V6 ip port flow scope).
Proof.
  intros (Hl & Hb & Hp & Hf & Hs). explode ip Hl. unfold kernel_view, wire, sub, byte_at, u32_le.
  cbn [app skipn firstn nth]. rewrite port_be by assumption.
  change [flow mod 256; (flow / 256) mod 256; (flow / 65536) mod 256; (flow / 16777216) mod 256] with (u32_le flow).
  change [scope mod 256; (scope / 256) mod 256; (scope / 65536) mod 256; (scope / 16777216) mod 256] with (u32_le scope).
  change (10 + 256 * 0 =? AF_INET) with false. change (10 + 256 * 0 =? AF_INET6) with true. cbv iota.
  cbn [length Nat.ltb Nat.leb]. rewrite !le_u32_u32_le by assumption. reflexivity.
Qed.

Lemma kernel_view_unix body :
  (length body <= 108)%nat ->
  kernel_view (1 :: 0 :: body) =
  match body with
  | [] => Some UnUnnamed
  | 0 :: name => Some (UnAbstract name)
  | _ => Some (UnPath (take_nz body))
  end.
Proof.
  intros H. unfold kernel_view.
  change (1 + 256 * 0 =? AF_INET) with false. change (1 + 256 * 0 =? AF_INET6) with false.
  change (1 + 256 * 0 =? AF_UNIX) with true. cbv iota.
  destruct (Nat.ltb_spec 110 (length (1 :: 0 :: body))) as [H1|_]; [cbn [length] in H1; lia|].
  reflexivity.
Qed.

Lemma sent_unix_asis a : accepts IUnix a -> wf_addr a ->
  sent AsIs IUnix a = 1 :: 0 :: sun_path_of a ++ zeros (108 - length (sun_path_of a)).
Proof.
  intros Ha Hw. rewrite sent_unix. rewrite firstn_all2 by (rewrite store_un_length; lia).
  apply store_un_eq, sun_path_len; assumption.
Qed.

(** [Fixed]: exactly the kernel's representation is passed. *)
Lemma sent_unix_fixed a : accepts IUnix a -> wf_addr a -> sent Fixed IUnix a = wire a.
Proof.
  intros Ha Hw. rewrite sent_unix.
  rewrite store_un_eq by (apply sun_path_len; assumption).
  destruct a as [| | |p|n|]; try contradiction; cbn [un_len sun_path_of wire]; unfold SUN_PATH_OFFSET.
  - reflexivity.
  - destruct Hw as (Hl & _).
    replace (N.to_nat (2 + N.of_nat (length p) + 1)) with (S (S (length p + 1))) by lia.
    cbn [firstn app]. rewrite firstn_app_zeros by lia.
    replace (length p + 1 - length p)%nat with 1%nat by lia. reflexivity.
  - destruct Hw as (Hl & _).
    replace (N.to_nat (2 + 1 + N.of_nat (length n))) with (S (S (S (length n)))) by lia.
    cbn [firstn app length]. rewrite firstn_app_zeros by lia. rewrite Nat.sub_diag.
    cbn [zeros repeat]. rewrite app_nil_r. reflexivity.
Qed.

Lemma kernel_view_wire_unix a : accepts IUnix a -> wf_addr a -> kernel_view (wire a) = Some a.
Proof.
  intros Ha Hw. destruct a as [| | |p|n|]; try contradiction; cbn [wire app].
  - reflexivity.
  - destruct Hw as (Hl & _ & Hz). rewrite kernel_view_unix by (rewrite app_length; cbn [length]; lia).
    destruct (path_head p) as (x & r & E); [lia|assumption|]. subst p. cbn [app]. cbv iota.
    change (N.pos x :: r ++ [0]) with ((N.pos x :: r) ++ zeros 1).
    rewrite take_nz_app_zeros by assumption. reflexivity.
  - destruct Hw as (Hl & _). rewrite kernel_view_unix by (cbn [length]; lia). reflexivity.
Qed.

Lemma unix_abstract_arrives_padded_holds : unix_abstract_arrives_padded.
Proof.
  split.
  - intros n Hw. pose proof Hw as (Hl & _). rewrite sent_unix_asis by (exact I || assumption).
    cbn [sun_path_of length app].
    rewrite kernel_view_unix by (cbn [length]; rewrite app_length, zeros_length; lia).
    reflexivity.
  - reflexivity.
Qed.

Lemma firstn_wire_asis a :
  accepts IUnix a -> wf_addr a -> firstn (N.to_nat (kernel_len a)) (sent AsIs IUnix a) = wire a.
Proof.
  intros Ha Hw. rewrite <- (sent_unix_fixed a Ha Hw), !sent_unix, firstn_firstn.
  destruct (un_len_bounds a Ha Hw) as (_ & H2 & E). rewrite E in *. f_equal. lia.
Qed.

Lemma store_in_length ip port : length (store_in ip port) = 16%nat.
Proof. reflexivity. Qed.

Lemma store_in6_length ip port flow scope :
  length ip = 16%nat -> length (store_in6 ip port flow scope) = 28%nat.
Proof. intros H. unfold store_in6. rewrite !app_length, H. reflexivity. Qed.

Lemma wire_length a : wf_addr a -> length (wire a) = N.to_nat (kernel_len a).
Proof.
  destruct a; cbn [wf_addr wire kernel_len]; intros Hw; rewrite ?app_length; cbn [length u32_le].
  - destruct Hw as (-> & _). reflexivity.
  - destruct Hw as (-> & _). reflexivity.
  - reflexivity.
  - lia.
  - lia.
  - reflexivity.
Qed.

Lemma in_bounds_all v i a : supported i a -> ptr_len_in_bounds v i a.
Proof.
  intros Hs. pose proof Hs as [Hacc Hwf]. unfold ptr_len_in_bounds. cbv zeta.
  destruct a as [ip port|ip port flow scope| |p|n|] eqn:Ea.
  1,2: rewrite <- Ea in *;
       destruct (sent_inet v i a Hs) as [Hsent Hlen]; [rewrite Ea; exact I|];
       rewrite Hlen, Hsent, firstn_all2 by (rewrite wire_length by assumption; lia);
       rewrite Ea in *; destruct i; try contradiction;
       cbn [into_storage fst kernel_len struct_size as_mut_ptr_len];
       rewrite ?app_length, ?store_in_length, ?store_in6_length by apply Hwf;
       repeat split; cbn; lia.
  all: destruct i; try contradiction.
  4: { repeat split; cbn; lia. }
  all: rewrite <- Ea in *;
       replace (fst (into_storage v IUnix a)) with (store_un a) by (rewrite Ea; reflexivity);
       rewrite store_un_length;
       destruct (un_len_bounds a Hacc Hwf) as (Hu1 & Hu2 & Hu3);
       cbn [struct_size as_mut_ptr_len];
       (split; [|split; [reflexivity|split; [reflexivity|split; [lia|]]]]).
  all: try (destruct v; [exact (firstn_wire_asis a Hacc Hwf)
                        |rewrite sent_unix_fixed, firstn_all2 by (assumption || (rewrite wire_length by assumption; lia)); reflexivity]).
  all: destruct v; cbn [as_ptr_len]; unfold SIZEOF_UN;
       [|replace (snd (into_storage Fixed IUnix a)) with (un_len a) by (rewrite Ea; reflexivity)]; lia.
Qed.

Lemma reads_same_cases v i a :
  supported i a ->
  v = Fixed \/ ~ is_unix_short_abstract_or_unnamed a -> kernel_reads_same v i a.
Proof.
  intros Hs Hv. pose proof Hs as [Hacc Hwf]. unfold kernel_reads_same.
  destruct a as [ip port|ip port flow scope| |p|n|] eqn:Ea.
  1,2: rewrite <- Ea in *;
       destruct (sent_inet v i a Hs) as [Hsent Hlen]; [rewrite Ea; exact I|];
       rewrite Hsent; split; [|intros _; exact Hlen]; rewrite Ea in *;
       first [apply kernel_view_wire4; assumption|apply kernel_view_wire6; assumption].
  all: destruct i; try contradiction.
  4: { split; [reflexivity|intros []]. }
  all: split; [|intros []].
  all: destruct v; [|rewrite sent_unix_fixed by assumption; apply kernel_view_wire_unix; assumption].
  all: destruct Hv as [Hv|Hv]; [discriminate Hv|].
  - exfalso; apply Hv; exact I.
  - (* pathname: NUL-padded to the full structure, the kernel stops at the first NUL *)
    pose proof Hwf as (Hl & _ & Hz). rewrite sent_unix_asis by (exact I || assumption).
    cbn [sun_path_of]. rewrite kernel_view_unix by (rewrite app_length, zeros_length; lia).
    destruct (path_head p) as (x & r & E); [lia|assumption|]. subst p. cbn [app]. cbv iota.
    change (N.pos x :: r ++ zeros (108 - length (N.pos x :: r)))
      with ((N.pos x :: r) ++ zeros (108 - length (N.pos x :: r))).
    rewrite take_nz_app_zeros by assumption. reflexivity.
  - (* abstract name of exactly 107 bytes *)
    rewrite (proj1 unix_abstract_arrives_padded_holds n Hwf).
    cbn [is_unix_short_abstract_or_unnamed] in Hv. destruct Hwf as (Hl & _).
    replace (107 - length n)%nat with 0%nat by lia. cbn [zeros repeat]. rewrite app_nil_r. reflexivity.
Qed.

Lemma ptr_len_covers_except_short_abstract_holds : ptr_len_covers_except_short_abstract.
Proof.
  intros i a Hs. split; [apply in_bounds_all; assumption|].
  intros Hn. apply reads_same_cases; [assumption|right; exact Hn].
Qed.

Lemma ptr_len_covers_family_struct_fixed_holds : ptr_len_covers_family_struct_fixed.
Proof.
  intros i a Hs. split; [apply in_bounds_all; assumption|].
  apply reads_same_cases; [assumption|left; reflexivity].
Qed.

Lemma wf_abstract_a : wf_addr (UnAbstract [97]).
Proof. split; [cbn; lia|repeat constructor]. Qed.

Lemma ptr_len_covers_refuted : ptr_len_covers_refuted_stmt.
Proof.
  exists IUnix, (UnAbstract [97]). split; [split; [exact I|exact wf_abstract_a]|].
  vm_compute. intros H. discriminate H.
Qed.

Lemma ptr_len_covers_fails : ~ ptr_len_covers_family_struct.
Proof.
  intros H. destruct (H IUnix (UnAbstract [97])) as [_ [H1 _]]; [split; [exact I|exact wf_abstract_a]|].
  vm_compute in H1. discriminate H1.
Qed.

(** Non-vacuity: each class of supported addresses is inhabited. *)
Example c16_supported_examples :
  supported ISockAddrV4 (V4 [127; 0; 0; 1] 8080)
  /\ supported ISockAddr (V6 [32; 1; 13; 184; 0; 0; 0; 0; 0; 0; 0; 0; 0; 0; 0; 1] 65535 1048575 4294967295)
  /\ supported IUnix UnUnnamed
  /\ supported IUnix (UnPath [97])
  /\ supported IUnix (UnAbstract [97])
  /\ supported INoAddress NoAddr
  /\ read_back AsIs IUnix (UnPath [47; 116; 109; 112; 47; 115]) 9 170 = Some UnUnnamed
  /\ read_back Fixed IUnix (UnPath [47; 116; 109; 112; 47; 115]) 9 170 = Some (UnPath [47; 116; 109; 112; 47; 115])
  /\ as_ptr_len AsIs IUnix (into_storage AsIs IUnix (UnAbstract [97])) = 110
  /\ as_ptr_len Fixed IUnix (into_storage Fixed IUnix (UnAbstract [97])) = 4.
Proof.
  repeat match goal with |- _ /\ _ => split end; try (vm_compute; reflexivity).
  - split; [exact I|]. split; [reflexivity|]. split; [repeat constructor|cbn; lia].
  - split; [exact I|]. split; [reflexivity|]. split; [repeat constructor|unfold two32; lia].
  - split; exact I.
  - split; [exact I|exact wf_path_a].
  - split; [exact I|exact wf_abstract_a].
  - split; exact I.
Qed.

(** * Both laws together: pass the address to the kernel (bind), let the kernel report the
      address it holds (getsockname), read it back. *)
Definition is_unix (a : addr) : Prop :=
  match a with UnUnnamed | UnPath _ | UnAbstract _ => True | _ => False end.

Definition through_kernel (v : variant) (i : impl) (a : addr) : Prop :=
  exists k, kernel_view (sent v i a) = Some k
            /\ forall fill, init v i (pad_fill (N.to_nat (as_mut_ptr_len i)) fill (wire k)) (kernel_len k) = Some a.

Definition bind_getsockname_roundtrip_for (v : variant) : Prop :=
  forall i a, supported i a -> through_kernel v i a.
Definition bind_getsockname_roundtrip : Prop := bind_getsockname_roundtrip_for AsIs.
Definition bind_getsockname_roundtrip_except_unix : Prop :=
  forall i a, supported i a -> ~ is_unix a -> through_kernel AsIs i a.
Definition bind_getsockname_roundtrip_fixed : Prop := bind_getsockname_roundtrip_for Fixed.

Lemma through_kernel_cases v i a :
  supported i a -> v = Fixed \/ ~ is_unix a -> through_kernel v i a.
Proof.
  intros Hs Hv. exists a.
  assert (Hv1 : v = Fixed \/ ~ is_unix_short_abstract_or_unnamed a).
  { destruct Hv as [?|Hn]; [left; assumption|right]. intros H; apply Hn. destruct a; try contradiction; exact I. }
  assert (Hv2 : v = Fixed \/ ~ is_unix_path a).
  { destruct Hv as [?|Hn]; [left; assumption|right]. intros H; apply Hn. destruct a; try contradiction; exact I. }
  split; [apply reads_same_cases; assumption|].
  intros fill. destruct (in_bounds_all v i a Hs) as (_ & _ & _ & _ & <-).
  destruct (roundtrip_cases v i a Hs) as [H _]. apply (proj1 (H Hv2) fill).
Qed.

Lemma bind_getsockname_roundtrip_except_unix_holds : bind_getsockname_roundtrip_except_unix.
Proof. intros i a Hs Hn. apply through_kernel_cases; [assumption|right; exact Hn]. Qed.

Lemma bind_getsockname_roundtrip_fixed_holds : bind_getsockname_roundtrip_fixed.
Proof. intros i a Hs. apply through_kernel_cases; [assumption|left; reflexivity]. Qed.

(** * H29: the length recvmsg reports for a Unix sender that is not bound is 0. *)

(** The unnamed Unix address reads back as itself with every length the kernel reports for it:
    2 (getsockname, accept) and 0 (recvmsg, sender not bound: nothing is written, whatever the
    storage held before); in fact with every length below [sizeof(sa_family_t)]. *)
Definition unix_unnamed_every_reported_length : Prop :=
  (forall fill, read_back Fixed IUnix UnUnnamed (kernel_len UnUnnamed) fill = Some UnUnnamed)
  /\ (forall fill, read_back Fixed IUnix UnUnnamed (kernel_len_recv UnUnnamed) fill = Some UnUnnamed)
  /\ (forall b len, len < 2 -> init Fixed IUnix b len = Some UnUnnamed).

(** Before the repair the code subtracted the offset of [sun_path] from such a length: a debug
    assertion, or a wrapped length and an out-of-bounds slice (SIGSEGV observed). *)
Definition unix_length_zero_h29_refuted : Prop :=
  forall b len, len < 2 -> init AsIs IUnix b len = None.

Lemma unix_unnamed_every_reported_length_holds : unix_unnamed_every_reported_length.
Proof.
  split; [|split].
  - intros fill. vm_compute. reflexivity.
  - intros fill. vm_compute. reflexivity.
  - intros b len H. cbn [init]. unfold init_un, SUN_PATH_OFFSET.
    destruct (N.ltb_spec len 2) as [_|H']; [reflexivity|lia].
Qed.

Lemma unix_length_zero_h29_refuted_holds : unix_length_zero_h29_refuted.
Proof.
  intros b len H. cbn [init]. unfold init_un, SUN_PATH_OFFSET.
  destruct (N.ltb_spec len 2) as [_|H']; [reflexivity|lia].
Qed.

(** Proofs about Model/OpState.v, part 2: statements and proofs of C01 (kernel-shared memory
    outlives the operation) and C06 (drop cancels exactly it; state reclaimed exactly once). *)
From A10 Require Import Base.Word Base.Run Model.OpState Proofs.OpStateInv.
From Coq Require Import ZifyN ZifyBool ZifyNat.
Ltac Zify.zify_post_hook ::= Z.div_mod_to_equations.
Local Open Scope nat_scope.

(** The kernel still refers to operation [i]: a submission is queued, the request is in
    flight, or a completion is posted and not yet processed. *)
Definition kernel_holds (s : sys) (i : nat) : Prop :=
  In (Submit i) (sq s) \/ In i (inflight s) \/ exists c, In (Some i, c) (cq s).

(** ** Statements *)

(** C01: in every reachable state, the boxed state and the resources of an operation the
    kernel still refers to are allocated: they are released only after the final completion
    has been posted AND processed. For all queue sizes, operation tables and valid histories. *)
Definition inflight_implies_allocated : Prop :=
  forall cap0 kinds es, valid (init cap0 kinds) es ->
    let s := fst (run step (init cap0 kinds) es) in
    forall i, kernel_holds s i ->
      exists o, nth_error (ops s) i = Some o /\ freed o = false /\ res_live o = true.

(** C01: the identity of an operation's state (its index; in the implementation the address of
    the box = user_data) never changes, whatever the step: the table keeps its length, every
    operation keeps its kind and cancelability, [attempts] only counts up; a poll of [i] queues
    nothing, or exactly [Submit i] (same identity) together with [attempts + 1]; no other event
    ever queues a submission of an operation. *)
Definition addresses_stable : Prop :=
  forall s e, let s' := fst (step s e) in
    length (ops s') = length (ops s)
    /\ (forall j o, nth_error (ops s) j = Some o ->
          exists o', nth_error (ops s') j = Some o' /\ kd o' = kd o /\ cancelable o' = cancelable o
                     /\ (attempts o <= attempts o')%N)
    /\ match e with
       | Poll i w =>
           forall o, nth_error (ops s) i = Some o ->
             exists o', nth_error (ops s') i = Some o'
               /\ ((sq s' = sq s /\ attempts o' = attempts o)
                   \/ (sq s' = sq s ++ [Submit i] /\ attempts o' = (attempts o + 1)%N))
       | _ =>
           (forall j, nsub j (sq s') <= nsub j (sq s))
           /\ (forall j o o', nth_error (ops s) j = Some o -> nth_error (ops s') j = Some o' ->
                 attempts o' = attempts o)
       end.

(** C06, one step: dropping a running operation queues exactly one cancellation naming it when
    the queue has room and nothing otherwise, marks it dropped and does NOT free it; dropping an
    operation in any other status queues nothing and frees it now. Nothing else changes. *)
Definition drop_cancels_exactly_it : Prop :=
  forall s i o, nth_error (ops s) i = Some o -> st o <> Dropped ->
    let s' := fst (drop_op s i) in
    match st o with
    | Running _ =>
        sq s' = (if has_room s then sq s ++ [Cancel i] else sq s)
        /\ nth_error (ops s') i = Some (with_st o Dropped)
        /\ freed (with_st o Dropped) = freed o /\ res_live (with_st o Dropped) = res_live o
        /\ snd (drop_op s i) = []
    | _ =>
        sq s' = sq s
        /\ nth_error (ops s') i = Some (free_op o)
        /\ snd (drop_op s i) = (if res_live o then [OFreeRes i] else [])
                               ++ (if (0 <? attempts o)%N then [OFree i] else [])
    end
    /\ inflight s' = inflight s /\ cq s' = cq s /\ blocked s' = blocked s
    /\ (forall j, j <> i -> nth_error (ops s') j = nth_error (ops s) j).

(** C06: in every reachable state a queued cancellation names an operation whose future was
    dropped; and consuming [Cancel i] can post an operation completion (-ECANCELED, final) only
    to [i] itself, and only if [i] is in flight. *)
Definition cancel_targets_only_dropped : Prop :=
  (forall cap0 kinds es, valid (init cap0 kinds) es ->
     let s := fst (run step (init cap0 kinds) es) in
     forall i, In (Cancel i) (sq s) -> exists o, nth_error (ops s) i = Some o /\ st o = Dropped)
  /\ (forall s i j c, In (Some j, c) (cq (kconsume s (Cancel i))) ->
        In (Some j, c) (cq s)
        \/ (j = i /\ res c = (- ECANCELED)%Z /\ more c = false /\ In i (inflight s))).

Definition is_free_of (i : nat) (x : obs) : bool :=
  match x with OFree j => Nat.eqb j i | _ => false end.

(** C06: over any valid history the state of an operation is freed at most once, and a freed
    state never comes back. *)
Definition state_freed_at_most_once : Prop :=
  (forall cap0 kinds es i, valid (init cap0 kinds) es ->
     cnt (is_free_of i) (snd (run step (init cap0 kinds) es)) <= 1)
  /\ (forall s e j o, nth_error (ops s) j = Some o -> freed o = true ->
        exists o', nth_error (ops (fst (step s e))) j = Some o' /\ freed o' = true).

(** C06: a dropped, not yet freed operation is never orphaned — the kernel still has its
    submission, the request in flight, or its final completion is waiting to be processed — and
    processing the final completion frees it (state and resources). *)
Definition dropped_state_is_reclaimed : Prop :=
  (forall cap0 kinds es, valid (init cap0 kinds) es ->
     let s := fst (run step (init cap0 kinds) es) in
     forall i o, nth_error (ops s) i = Some o -> st o = Dropped -> freed o = false ->
       In (Submit i) (sq s) \/ In i (inflight s)
       \/ exists c, In (Some i, c) (cq s) /\ more c = false)
  /\ (forall s i o c, nth_error (ops s) i = Some o -> st o = Dropped -> freed o = false ->
        more c = false ->
        (exists o', nth_error (ops (fst (update s i c))) i = Some o' /\ freed o' = true
                    /\ res_live o' = false)
        /\ In (OFree i) (snd (update s i c))).

(** ** C01 *)

Lemma kernel_holds_counts s i :
  kernel_holds s i <-> nsub i (sq s) <> 0 \/ ninfl i (inflight s) <> 0 \/ ncq i (cq s) <> 0.
Proof. unfold kernel_holds. rewrite nsub_in, ninfl_in, ncq_in. reflexivity. Qed.

Lemma Inv_allocated s i :
  Inv s -> kernel_holds s i ->
  exists o, nth_error (ops s) i = Some o /\ freed o = false /\ res_live o = true.
Proof.
  intros [H1 _] Hk. apply kernel_holds_counts in Hk. destruct (H1 i) as [Ha _].
  unfold op_inv in Ha. destruct (nth_error (ops s) i) as [o|]; [|lia].
  exists o. split; [reflexivity|]. destruct Ha as [Ha Hl].
  destruct (st o) eqn:Est; try lia.
  - destruct Ha as (Hf & _). split; [exact Hf|]. apply Hl; [exact Hf|discriminate].
  - destruct (freed o); [lia|]. split; [reflexivity|]. apply Hl; [reflexivity|discriminate].
Qed.

Lemma inflight_implies_allocated_holds : inflight_implies_allocated.
Proof.
  intros cap0 kinds es Hv s i Hk. apply Inv_allocated; [|exact Hk].
  apply reachable_Inv. exact Hv.
Qed.

Lemma update_sq s i c : sq (fst (update s i c)) = sq s.
Proof.
  unfold update. destruct (nth_error (ops s) i) as [o|]; [|reflexivity].
  destruct (st o); try reflexivity.
  - destruct (negb (more c) || _); [destruct (waker o)|]; reflexivity.
  - destruct (negb (more c) || _); [destruct (waker o)|]; reflexivity.
  - destruct (more c); reflexivity.
Qed.

Lemma process_sq f : forall s, sq (fst (process f s)) = sq s.
Proof.
  induction f as [|f IH]; intros s; cbn [process]; [reflexivity|].
  destruct (cq s) as [|[t c] r]; [reflexivity|]. destruct t as [i|].
  - pose proof (update_sq (pop_cq s (Some i) c r) i c) as Hu.
    destruct (update (pop_cq s (Some i) c r) i c) as [s1 o1]. cbn [fst] in Hu.
    specialize (IH s1). destruct (process f s1) as [s2 o2]. cbn [fst pop_cq sq] in *. congruence.
  - rewrite IH. reflexivity.
Qed.

Lemma kconsume_all_sq q : forall s, sq (fold_left kconsume q s) = sq s.
Proof. induction q as [|e q IH]; intros s; cbn [fold_left]; [reflexivity|]. rewrite IH. apply kconsume_sq. Qed.

Lemma phase1_sq s : sq (fst (phase1 s)) = match cq s with [] => [] | _ => sq s end.
Proof.
  unfold phase1. destruct (cq s); [|reflexivity].
  destruct (negb _ || negb _); cbn [fst wake_blocked sq]; rewrite kconsume_all_sq; reflexivity.
Qed.

Lemma ring_poll_sq s : sq (fst (ring_poll s)) = match cq s with [] => [] | _ => sq s end.
Proof.
  rewrite ring_poll_phases. pose proof (phase1_sq s) as H1. destruct (phase1 s) as [s1 o1].
  cbn [fst] in H1. pose proof (process_sq (length (cq s1)) s1) as Hp.
  destruct (process (length (cq s1)) s1) as [s2 o2]. cbn [fst] in *. congruence.
Qed.

(** Attempts change only in [poll]. *)
Definition same_attempts (o o' : op) : Prop := attempts o' = attempts o.

Lemma update_attempts s i c : ops_rel same_attempts s (fst (update s i c)).
Proof.
  assert (Hr : forall o, same_attempts o o) by reflexivity.
  unfold update. destruct (nth_error (ops s) i) as [o|] eqn:Hi; [|apply ops_rel_same; auto].
  assert (Hset : forall o', same_attempts o o' -> ops_rel same_attempts s (set_op s i o')).
  { intros o' Ho'. apply (ops_rel_set_op same_attempts s i o); auto. }
  destruct (st o); cbn [fst]; try (apply ops_rel_same; auto; fail).
  - destruct (negb (more c) || _); [destruct (waker o)|]; cbn [fst]; apply Hset; reflexivity.
  - destruct (negb (more c) || _); [destruct (waker o)|]; cbn [fst]; apply Hset; reflexivity.
  - destruct (more c); cbn [fst]; apply Hset; reflexivity.
Qed.

Lemma process_attempts f : forall s, ops_rel same_attempts s (fst (process f s)).
Proof.
  assert (Hr : forall o, same_attempts o o) by reflexivity.
  induction f as [|f IH]; intros s; cbn [process]; [apply ops_rel_same; auto|].
  destruct (cq s) as [|[t c] r]; [apply ops_rel_same; auto|]. destruct t as [i|].
  - pose proof (update_attempts (pop_cq s (Some i) c r) i c) as Hu.
    destruct (update (pop_cq s (Some i) c r) i c) as [s1 o1]. cbn [fst] in Hu.
    specialize (IH s1). destruct (process f s1) as [s2 o2]. cbn [fst] in *.
    apply (ops_rel_trans same_attempts _ s1); [unfold same_attempts; congruence| |exact IH].
    intros j. exact (Hu j).
  - specialize (IH (pop_cq s None c r)). intros j. exact (IH j).
Qed.

Lemma ring_poll_attempts s : ops_rel same_attempts s (fst (ring_poll s)).
Proof.
  rewrite ring_poll_phases. pose proof (phase1_ops s) as H1. destruct (phase1 s) as [s1 o1].
  cbn [fst] in H1. pose proof (process_attempts (length (cq s1)) s1) as Hp.
  destruct (process (length (cq s1)) s1) as [s2 o2]. cbn [fst] in *.
  intros j. specialize (Hp j). rewrite H1 in Hp. exact Hp.
Qed.

Lemma drop_attempts s i : ops_rel same_attempts s (fst (drop_op s i)).
Proof.
  assert (Hr : forall o, same_attempts o o) by reflexivity.
  unfold drop_op. destruct (nth_error (ops s) i) as [o|] eqn:Hi; [|apply ops_rel_same; auto].
  destruct (st o); cbn [fst]; try (apply ops_rel_same; auto; fail);
    try (apply (ops_rel_set_op same_attempts s i o); auto; reflexivity).
  intros j. rewrite nth_error_set_op by (destruct (has_room s); cbn [push_sq ops]; eapply nth_error_lt; eauto).
  replace (ops (if has_room s then push_sq s (Cancel i) else s)) with (ops s)
    by (destruct (has_room s); reflexivity).
  destruct (Nat.eqb_spec j i) as [->|]; [rewrite Hi; reflexivity|].
  destruct (nth_error (ops s) j); auto.
Qed.

Lemma poll_start_effect s i o1 w :
  i < length (ops s) ->
  exists o', nth_error (ops (fst (poll_start s i o1 w))) i = Some o'
    /\ ((sq (fst (poll_start s i o1 w)) = sq s /\ attempts o' = attempts o1)
        \/ (sq (fst (poll_start s i o1 w)) = sq s ++ [Submit i] /\ attempts o' = (attempts o1 + 1)%N)).
Proof.
  intros Hlt. unfold poll_start. destruct (has_room s); cbn [fst push_sq push_blocked ops sq];
    rewrite nth_error_set_op, Nat.eqb_refl by exact Hlt; eexists; (split; [reflexivity|]);
    cbn [set_op sq attempts]; auto.
Qed.

Lemma addresses_stable_holds : addresses_stable.
Proof.
  intros s e s'. pose proof (step_stable s e) as Hst. fold s' in Hst. split; [|split].
  - exact (ops_rel_length _ _ _ Hst).
  - intros j o Hj. destruct (ops_rel_some _ _ _ _ _ Hst Hj) as (o' & Hj' & A1 & A2 & A3 & _).
    exists o'. auto.
  - destruct e as [i w|i| |i c].
    + intros o Hi. subst s'. cbn [step fst]. unfold poll. rewrite Hi.
      pose proof (nth_error_lt _ _ _ Hi) as Hlt.
      assert (Hset : forall o', attempts o' = attempts o ->
                exists o'', nth_error (ops (set_op s i o')) i = Some o''
                  /\ ((sq (set_op s i o') = sq s /\ attempts o'' = attempts o)
                      \/ (sq (set_op s i o') = sq s ++ [Submit i] /\ attempts o'' = (attempts o + 1)%N))).
      { intros o' Ha. exists o'. rewrite nth_error_set_op, Nat.eqb_refl by exact Hlt. auto. }
      assert (Hid : exists o'', nth_error (ops s) i = Some o''
                  /\ ((sq s = sq s /\ attempts o'' = attempts o)
                      \/ (sq s = sq s ++ [Submit i] /\ attempts o'' = (attempts o + 1)%N))) by eauto.
      pose proof (poll_start_effect s i (new_attempt (with_st o NotStarted)) w Hlt) as Hre.
      destruct (st o).
      * apply poll_start_effect. exact Hlt.
      * destruct (kd o); [|destruct rs]; cbn [fst]; apply Hset; reflexivity.
      * destruct (kd o); destruct rs as [|c rs']; cbn [fst]; auto; try (apply Hset; reflexivity).
        -- destruct (0 <=? res c)%Z; [apply Hset; reflexivity|].
           destruct (is_restart c); [exact Hre|apply Hset; reflexivity].
        -- destruct (0 <=? res c)%Z; [apply Hset; reflexivity|].
           destruct (is_restart c); [|apply Hset; reflexivity].
           destruct rs'; [exact Hre|apply Hset; reflexivity].
      * exact Hid.
      * exact Hid.
    + split.
      * intros j. subst s'. cbn [step fst]. unfold drop_op.
        destruct (nth_error (ops s) i) as [o|]; [|cbn [fst]; lia].
        destruct (st o); cbn [fst set_op sq]; try lia.
        destruct (has_room s); cbn [push_sq sq]; [rewrite nsub_snoc_cancel|]; lia.
      * intros j o o' Hj Hj'. pose proof (drop_attempts s i j) as H. subst s'. cbn [step fst] in Hj'.
        rewrite Hj, Hj' in H. exact H.
    + split.
      * intros j. subst s'. cbn [step fst]. rewrite ring_poll_sq. destruct (cq s); [|lia].
        unfold nsub. rewrite cnt_nil. lia.
      * intros j o o' Hj Hj'. pose proof (ring_poll_attempts s j) as H. subst s'. cbn [step fst] in Hj'.
        rewrite Hj, Hj' in H. exact H.
    + assert (Hops : ops s' = ops s /\ sq s' = sq s).
      { subst s'. cbn [step fst]. unfold kpost. destruct (existsb _ _); [|auto].
        destruct (more c); auto. }
      destruct Hops as [E1 E2]. rewrite E1, E2. split; [intros; lia|].
      intros j o o' Hj Hj'. congruence.
Qed.

(** ** C06 *)

Lemma drop_cancels_exactly_it_holds : drop_cancels_exactly_it.
Proof.
  intros s i o Hi Hnd s'. subst s'. unfold drop_op. rewrite Hi.
  pose proof (nth_error_lt _ _ _ Hi) as Hlt.
  assert (Hoth : forall s1 o', ops s1 = ops s -> forall j, j <> i ->
            nth_error (ops (set_op s1 i o')) j = nth_error (ops s) j).
  { intros s1 o' E j Hj. rewrite nth_error_set_op by (rewrite E; exact Hlt).
    destruct (Nat.eqb_spec j i); [contradiction|]. rewrite E. reflexivity. }
  destruct (st o) eqn:Est; try congruence; cbn [fst snd].
  - split; [|repeat split; auto].
    rewrite nth_error_set_op, Nat.eqb_refl by exact Hlt. auto.
  - assert (E : ops (if has_room s then push_sq s (Cancel i) else s) = ops s)
      by (destruct (has_room s); reflexivity).
    split; [|destruct (has_room s); repeat split; auto].
    rewrite nth_error_set_op, Nat.eqb_refl by (rewrite E; exact Hlt).
    destruct (has_room s); repeat split; auto.
  - split; [|repeat split; auto].
    rewrite nth_error_set_op, Nat.eqb_refl by exact Hlt. auto.
  - split; [|repeat split; auto].
    rewrite nth_error_set_op, Nat.eqb_refl by exact Hlt. auto.
Qed.

Lemma cancel_targets_only_dropped_holds : cancel_targets_only_dropped.
Proof.
  split.
  - intros cap0 kinds es Hv s i Hc. pose proof (reachable_Inv cap0 kinds es Hv) as [_ H2].
    exact (H2 i Hc).
  - intros s i j c. cbn [kconsume].
    destruct (existsb (Nat.eqb i) (inflight s)) eqn:E.
    + destruct (nth_error (ops s) i) as [o|]; [|auto]. destruct (cancelable o).
      * cbn [post set_inflight cq]. rewrite in_snoc. intros [H|H]; [auto|]. right.
        inversion H; subst. cbn. repeat split. apply ninfl_in, existsb_ninfl. exact E.
      * cbn [post cq]. rewrite in_snoc. intros [H|H]; [auto|discriminate].
    + cbn [post cq]. rewrite in_snoc. intros [H|H]; [auto|discriminate].
Qed.

(** How many more times the state of [i] can be freed. *)
Definition budget (s : sys) (i : nat) : nat :=
  match nth_error (ops s) i with Some o => if freed o then 0 else 1 | None => 0 end.

Lemma budget_stable s s' i : ops_rel stable s s' -> budget s' i <= budget s i.
Proof.
  intros H. specialize (H i). unfold budget.
  destruct (nth_error (ops s) i) as [o|], (nth_error (ops s') i) as [o'|]; try contradiction; [|lia].
  destruct H as (_ & _ & _ & Hf & _). destruct (freed o); [rewrite Hf by reflexivity; lia|].
  destruct (freed o'); lia.
Qed.

Lemma cnt_free_app i l1 l2 : cnt (is_free_of i) (l1 ++ l2) = cnt (is_free_of i) l1 + cnt (is_free_of i) l2.
Proof. apply cnt_app. Qed.

Lemma update_free_budget s i c r j :
  Inv s -> cq s = (Some i, c) :: r ->
  cnt (is_free_of j) (snd (update (pop_cq s (Some i) c r) i c))
  + budget (fst (update (pop_cq s (Some i) c r) i c)) j <= budget s j.
Proof.
  intros Hinv Hcq.
  assert (Hnc : ncq i (cq s) <> 0).
  { rewrite Hcq. unfold ncq. rewrite cnt_cons, is_cq_some, Nat.eqb_refl. lia. }
  pose proof (budget_stable _ _ j (update_stable (pop_cq s (Some i) c r) i c)) as Hb.
  change (budget (pop_cq s (Some i) c r) j) with (budget s j) in Hb.
  destruct (Inv_allocated s i Hinv) as (o & Hi & Hfr & Hrl); [right; right; apply ncq_in; exact Hnc|].
  revert Hb. unfold update. change (ops (pop_cq s (Some i) c r)) with (ops s). rewrite Hi.
  destruct (st o) eqn:Est; cbn [fst snd]; try (rewrite cnt_nil; lia); try (cbn; lia).
  - destruct (negb (more c) || _); [destruct (waker o)|]; cbn [fst snd]; cbn; lia.
  - destruct (negb (more c) || _); [destruct (waker o)|]; cbn [fst snd]; cbn; lia.
  - destruct (more c); cbn [fst snd]; [cbn; lia|]. intros _.
    rewrite cnt_free_app. rewrite cnt_cons, cnt_nil. cbn [is_free_of].
    assert (Hz : cnt (is_free_of j) (if res_live o then [OFreeRes i] else []) = 0)
      by (destruct (res_live o); reflexivity).
    rewrite Hz. unfold budget.
    rewrite nth_error_set_op by (cbn [pop_cq ops]; eapply nth_error_lt; eauto).
    cbn [pop_cq ops]. destruct (Nat.eqb_spec i j) as [<-|Hij].
    + rewrite Nat.eqb_refl, Hi, Hfr. cbn. lia.
    + destruct (Nat.eqb_spec j i); [congruence|]. destruct (nth_error (ops s) j) as [oj|]; [|lia].
      destruct (freed oj); lia.
Qed.

Lemma process_free_budget f j : forall s, Inv s ->
  cnt (is_free_of j) (snd (process f s)) + budget (fst (process f s)) j <= budget s j.
Proof.
  induction f as [|f IH]; intros s Hinv; cbn [process]; [cbn; lia|].
  destruct (cq s) as [|[t c] r] eqn:Hcq; [cbn; lia|]. destruct t as [i|].
  - pose proof (update_free_budget s i c r j Hinv Hcq) as Hu.
    pose proof (update_Inv s i c r Hinv Hcq) as Hi.
    destruct (update (pop_cq s (Some i) c r) i c) as [s1 o1]. cbn [fst snd] in *.
    specialize (IH s1 Hi). destruct (process f s1) as [s2 o2]. cbn [fst snd] in *.
    rewrite cnt_free_app. lia.
  - specialize (IH (pop_cq s None c r) (Inv_pop_none s c r Hinv Hcq)).
    change (budget (pop_cq s None c r) j) with (budget s j) in IH. exact IH.
Qed.

Lemma phase1_no_free s j : cnt (is_free_of j) (snd (phase1 s)) = 0.
Proof.
  assert (Hc : forall q, cnt (is_free_of j) (map OConsumed q) = 0)
    by (induction q as [|e q IH]; [reflexivity|cbn [map]; rewrite cnt_cons; exact IH]).
  assert (Hw : forall q, cnt (is_free_of j) (map OWake q) = 0)
    by (induction q as [|e q IH]; [reflexivity|cbn [map]; rewrite cnt_cons; exact IH]).
  unfold phase1. destruct (cq s); [|reflexivity].
  destruct (negb _ || negb _); cbn [snd wake_blocked]; [rewrite cnt_free_app, Hc, Hw|rewrite Hc]; reflexivity.
Qed.

Lemma step_free_budget s e j :
  Inv s -> ev_ok s e = true ->
  cnt (is_free_of j) (snd (step s e)) + budget (fst (step s e)) j <= budget s j.
Proof.
  intros Hinv Hok. destruct e as [i w|i| |i c]; cbn [step fst snd].
  - (* poll frees nothing *)
    pose proof (budget_stable _ _ j (poll_stable s i w)) as Hb.
    assert (Hz : cnt (is_free_of j) (snd (poll s i w)) = 0); [|lia].
    unfold poll. destruct (nth_error (ops s) i) as [o|]; [|reflexivity].
    assert (Hps : forall o1, cnt (is_free_of j) (snd (poll_start s i o1 w)) = 0)
      by (intros o1; unfold poll_start; destruct (has_room s); reflexivity).
    destruct (st o); try reflexivity; auto.
    + destruct (kd o); [|destruct rs as [|c rs']]; try reflexivity.
      cbn [snd]. destruct (res c <? 0)%Z; reflexivity.
    + destruct (kd o); destruct rs as [|c rs']; try reflexivity.
      * destruct (0 <=? res c)%Z; [reflexivity|]. destruct (is_restart c); [apply Hps|reflexivity].
      * destruct (0 <=? res c)%Z; [reflexivity|]. destruct (is_restart c); [|reflexivity].
        destruct rs'; [apply Hps|reflexivity].
  - (* drop *)
    pose proof (budget_stable _ _ j (drop_stable s i)) as Hb. revert Hb.
    unfold drop_op. destruct (nth_error (ops s) i) as [o|] eqn:Hi; [|cbn; lia].
    destruct (ev_ok_drop s i o Hok Hi) as (Hnd & Hfr).
    assert (Hfree : cnt (is_free_of j)
                      ((if res_live o then [OFreeRes i] else []) ++ (if (0 <? attempts o)%N then [OFree i] else []))
                    + budget (set_op s i (free_op o)) j <= budget s j).
    { rewrite cnt_free_app.
      assert (Hz : cnt (is_free_of j) (if res_live o then [OFreeRes i] else []) = 0)
        by (destruct (res_live o); reflexivity).
      rewrite Hz. unfold budget. rewrite nth_error_set_op by (eapply nth_error_lt; eauto).
      destruct (Nat.eqb_spec j i) as [->|Hji].
      - rewrite Hi, Hfr. destruct (0 <? attempts o)%N; rewrite ?cnt_cons, ?cnt_nil;
          cbn [is_free_of free_op freed]; rewrite ?Nat.eqb_refl; lia.
      - assert (Hz' : cnt (is_free_of j) (if (0 <? attempts o)%N then [OFree i] else []) = 0).
        { destruct (0 <? attempts o)%N; [|reflexivity]. rewrite cnt_cons, cnt_nil. cbn [is_free_of].
          destruct (Nat.eqb_spec i j); [congruence|reflexivity]. }
        rewrite Hz'. destruct (nth_error (ops s) j) as [oj|]; [destruct (freed oj)|]; lia. }
    destruct (st o); cbn [fst snd]; intros Hb; try exact Hfree; cbn; lia.
  - (* ring poll *)
    rewrite ring_poll_phases. pose proof (phase1_no_free s j) as H0.
    pose proof (phase1_ops s) as Ho. pose proof (phase1_Inv s Hinv) as H1.
    destruct (phase1 s) as [s1 o1]. cbn [fst snd] in *.
    pose proof (process_free_budget (length (cq s1)) j s1 H1) as Hp.
    destruct (process (length (cq s1)) s1) as [s2 o2]. cbn [fst snd] in *.
    rewrite cnt_free_app. assert (budget s1 j = budget s j) by (unfold budget; rewrite Ho; reflexivity). lia.
  - pose proof (budget_stable _ _ j (step_stable s (KPost i c))) as Hb. cbn [step fst] in Hb.
    rewrite cnt_nil. lia.
Qed.

Lemma run_free_budget j : forall es s, Inv s -> valid s es ->
  cnt (is_free_of j) (snd (run step s es)) <= budget s j.
Proof.
  induction es as [|e es IH]; intros s Hinv Hv; cbn [run]; [cbn; lia|].
  destruct Hv as [Hok Hv]. pose proof (step_free_budget s e j Hinv Hok) as Hs.
  pose proof (step_Inv s e Hinv Hok) as Hi. destruct (step s e) as [s1 o1]. cbn [fst snd] in *.
  specialize (IH s1 Hi Hv). destruct (run step s1 es) as [s2 o2]. cbn [snd] in *.
  rewrite cnt_free_app. lia.
Qed.

Lemma state_freed_at_most_once_holds : state_freed_at_most_once.
Proof.
  split.
  - intros cap0 kinds es i Hv.
    pose proof (run_free_budget i es _ (Inv_init cap0 kinds) Hv) as H.
    assert (budget (init cap0 kinds) i <= 1); [|lia].
    unfold budget. destruct (nth_error _ i) as [o|]; [destruct (freed o)|]; lia.
  - intros s e j o Hj Hf.
    destruct (ops_rel_some _ _ _ _ _ (step_stable s e) Hj) as (o' & Hj' & _ & _ & _ & Hfm & _).
    exists o'. auto.
Qed.

Lemma dropped_state_is_reclaimed_holds : dropped_state_is_reclaimed.
Proof.
  split.
  - intros cap0 kinds es Hv s i o Hi Hd Hf.
    pose proof (Inv_op s i o (reachable_Inv cap0 kinds es Hv) Hi) as Ho.
    unfold op_inv in Ho. rewrite Hd, Hf in Ho. destruct Ho as [(Hsum & _) _].
    rewrite nsub_in, ninfl_in, nfin_in. lia.
  - intros s i o c Hi Hd Hf Hm. unfold update. rewrite Hi, Hd, Hm. cbn [fst snd]. split.
    + rewrite nth_error_set_op, Nat.eqb_refl by (eapply nth_error_lt; eauto).
      eexists; split; [reflexivity|]. split; reflexivity.
    + apply in_or_app. right. left. reflexivity.
Qed.

(** ** Non-vacuity: concrete valid histories (a restart; a drop while running with the
    cancellation winning; one with it losing — the state is freed only when the operation's own
    final completion has been processed). *)
Definition ex_cqe (r : Z) (m n : bool) : cqe := {| res := r; more := m; notif := n |}.

Definition ex_restart : list ev :=
  [Poll 0 1%N; RingPoll; KPost 0 (ex_cqe (-4) false false); RingPoll; Poll 0 2%N; RingPoll;
   KPost 0 (ex_cqe 9 false false); RingPoll; Poll 0 3%N].
Definition ex_cancel_wins : list ev := [Poll 0 1%N; RingPoll; DropOp 0; RingPoll].
Definition ex_cancel_loses : list ev :=
  [Poll 0 1%N; RingPoll; DropOp 0; RingPoll; KPost 0 (ex_cqe 5 false false); RingPoll].

Example opstate_histories_valid :
  (valid (init 2 [(Single, true)]) ex_restart
   /\ snd (run step (init 2 [(Single, true)]) ex_restart)
      = [OPending; OConsumed (Submit 0); OWake 1%N; OPending; OConsumed (Submit 0); OWake 2%N;
         OReady 9])
  /\ (valid (init 2 [(Single, true)]) ex_cancel_wins
      /\ snd (run step (init 2 [(Single, true)]) ex_cancel_wins)
         = [OPending; OConsumed (Submit 0); OConsumed (Cancel 0); OFreeRes 0; OFree 0])
  /\ (valid (init 2 [(Single, false)]) ex_cancel_loses
      /\ snd (run step (init 2 [(Single, false)]) (firstn 4 ex_cancel_loses))
         = [OPending; OConsumed (Submit 0); OConsumed (Cancel 0)]
      /\ snd (run step (init 2 [(Single, false)]) ex_cancel_loses)
         = [OPending; OConsumed (Submit 0); OConsumed (Cancel 0); OFreeRes 0; OFree 0]).
Proof. vm_compute. repeat split. Qed.

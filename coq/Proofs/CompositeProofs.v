(** Proofs about Model/Composite.v (property C10).

    Route: the abstract state of every loop is "S bytes handed over so far". A request issued
    in state S offers exactly the bytes [S ..) of the concatenated input (writes) resp. of the
    concatenated spare capacity (reads) - lemmas [skip_iovecs_bytes], [skip_parts_bytes],
    [mslice_set_init_bytes] - and a completion of r bytes leads to state S + r. The run of a
    loop is captured by the inductive relation [grun]; the statements of the property are
    consequences of [grun]. *)
From A10 Require Import Base.Word Base.Run Gen.Consts Model.BufTraits Model.Composite
  Proofs.BufTraitsProofs.
From Coq Require Import ZifyN ZifyBool ZifyNat.
Ltac Zify.zify_post_hook ::= Z.div_mod_to_equations.

(** * Bytes: (buffer index, position inside that buffer). *)
Definition byte := (N * N)%type.

Fixpoint bytes_from (i s : N) (n : nat) : list byte :=
  match n with O => [] | S n' => (i, s) :: bytes_from i (s + 1) n' end.
(** The [l] bytes of buffer [i] starting at position [s], in order. *)
Definition bytes_of (i s l : N) : list byte := bytes_from i s (N.to_nat l).

(** Every byte of every input buffer, in order (buffers numbered from [i]). *)
Fixpoint buf_bytes (i : N) (bs : list vbuf) : list byte :=
  match bs with
  | [] => []
  | b :: bs' => bytes_of i 0 (len b) ++ buf_bytes (i + 1) bs'
  end.

(** Every byte of spare capacity of every read buffer, in order. *)
Fixpoint spare_bytes (i : N) (bs : list vbuf) : list byte :=
  match bs with
  | [] => []
  | b :: bs' => bytes_of i (len b) (cap b - len b) ++ spare_bytes (i + 1) bs'
  end.

(** The bytes a list of (pointer, length) pairs denotes: pair k belongs to buffer k. *)
Fixpoint iov_bytes (i : N) (bs : list vbuf) (iovs : list iov) : list byte :=
  match bs, iovs with
  | b :: bs', v :: iovs' => bytes_of i (fst v - base b) (snd v) ++ iov_bytes (i + 1) bs' iovs'
  | _, _ => []
  end.

Definition req_bytes (bs : list vbuf) (q : req) : list byte := iov_bytes 0 bs (q_iovs q).

(** ** List facts *)
Lemma skipn_skipn {A} (a b : nat) (l : list A) : skipn a (skipn b l) = skipn (b + a) l.
Proof.
  revert l; induction b as [|b IH]; intros l; [reflexivity|].
  destruct l as [|x l]; [destruct a; reflexivity|]. cbn [skipn Nat.add]. apply IH.
Qed.

Lemma firstn_app_skipn {A} (a b : nat) (l : list A) :
  firstn a l ++ firstn b (skipn a l) = firstn (a + b) l.
Proof.
  revert l; induction a as [|a IH]; intros l; [reflexivity|].
  destruct l as [|x l]; [destruct b; reflexivity|].
  cbn [firstn skipn Nat.add app]. f_equal. apply IH.
Qed.

Lemma bytes_from_length i s n : length (bytes_from i s n) = n.
Proof. revert s; induction n as [|n IH]; intros s; cbn [bytes_from length]; [|rewrite IH]; reflexivity. Qed.

Lemma bytes_of_length i s l : length (bytes_of i s l) = N.to_nat l.
Proof. apply bytes_from_length. Qed.

Lemma bytes_from_skipn i s n k :
  skipn k (bytes_from i s n) = bytes_from i (s + N.of_nat k) (n - k).
Proof.
  revert s n; induction k as [|k IH]; intros s n.
  - rewrite Nat.sub_0_r. cbn [skipn N.of_nat]. rewrite N.add_0_r. reflexivity.
  - destruct n as [|n]; [reflexivity|].
    cbn [bytes_from skipn]. rewrite IH. replace (S n - S k)%nat with (n - k)%nat by lia.
    f_equal. lia.
Qed.

Lemma bytes_of_skipn i s l k :
  skipn (N.to_nat k) (bytes_of i s l) = bytes_of i (s + k) (l - k).
Proof.
  unfold bytes_of. rewrite bytes_from_skipn. f_equal; lia.
Qed.

Lemma bytes_of_zero i s : bytes_of i s 0 = [].
Proof. reflexivity. Qed.

Lemma slice_total_len_cons b bs : slice_total_len (b :: bs) = len b + slice_total_len bs.
Proof. reflexivity. Qed.

Lemma buf_bytes_length i bs : length (buf_bytes i bs) = N.to_nat (slice_total_len bs).
Proof.
  revert i; induction bs as [|b bs IH]; intros i; [reflexivity|].
  cbn [buf_bytes]. rewrite app_length, bytes_of_length, IH.
  change (slice_total_len (b :: bs)) with (buf_len b + slice_total_len bs). unfold buf_len. lia.
Qed.

Lemma wf_mut_parts b : wf b -> mut_parts b = (base b + len b, cap b - len b).
Proof. unfold wf, mut_parts, trunc32, two32. intros. f_equal. lia. Qed.

Lemma wf_buf_parts b : wf b -> buf_parts b = (base b, len b).
Proof. unfold wf, buf_parts, trunc32, two32. intros. f_equal. lia. Qed.

Lemma spare_bytes_length i bs :
  Forall wf bs -> length (spare_bytes i bs) = N.to_nat (sum_lens (mslice_iovecs bs)).
Proof.
  intros H; revert i; induction H as [|b bs Hb Hbs IH]; intros i; [reflexivity|].
  cbn [spare_bytes]. rewrite app_length, bytes_of_length, IH.
  change (mslice_iovecs (b :: bs)) with (mut_parts b :: mslice_iovecs bs).
  rewrite sum_lens_cons, (wf_mut_parts b Hb). cbn [snd]. lia.
Qed.

Lemma iov_bytes_same_base i bs bs' iovs :
  map base bs = map base bs' -> iov_bytes i bs iovs = iov_bytes i bs' iovs.
Proof.
  revert i bs' iovs; induction bs as [|b bs IH]; intros i [|b' bs'] iovs H; try discriminate; [reflexivity|].
  cbn [map] in H. injection H as Hb Hr. destruct iovs as [|v iovs]; [reflexivity|].
  cbn [iov_bytes]. rewrite Hb, (IH _ _ _ Hr). reflexivity.
Qed.

(** ** What the exposed (pointer, length) pairs denote *)
Lemma slice_iovecs_bytes i bs : Forall wf bs -> iov_bytes i bs (slice_iovecs bs) = buf_bytes i bs.
Proof.
  intros H; revert i; induction H as [|b bs Hb Hbs IH]; intros i; [reflexivity|].
  change (slice_iovecs (b :: bs)) with (buf_parts b :: slice_iovecs bs).
  cbn [iov_bytes buf_bytes]. rewrite (wf_buf_parts b Hb), IH. cbn [fst snd].
  replace (base b - base b) with 0 by lia. reflexivity.
Qed.

Lemma mslice_iovecs_bytes i bs : Forall wf bs -> iov_bytes i bs (mslice_iovecs bs) = spare_bytes i bs.
Proof.
  intros H; revert i; induction H as [|b bs Hb Hbs IH]; intros i; [reflexivity|].
  change (mslice_iovecs (b :: bs)) with (mut_parts b :: mslice_iovecs bs).
  cbn [iov_bytes spare_bytes]. rewrite (wf_mut_parts b Hb), IH. cbn [fst snd].
  replace (base b + len b - base b) with (len b) by lia. reflexivity.
Qed.

(** Dropping [s] bytes front to back (IoSlice::{set_len, skip}) leaves exactly the suffix. *)
Lemma skip_iovecs_bytes i bs s :
  Forall wf bs ->
  iov_bytes i bs (skip_iovecs (slice_iovecs bs) s) = skipn (N.to_nat s) (buf_bytes i bs).
Proof.
  intros H; revert i s; induction H as [|b bs Hb Hbs IH]; intros i s.
  - cbn. destruct (N.to_nat s); reflexivity.
  - change (slice_iovecs (b :: bs)) with (buf_parts b :: slice_iovecs bs).
    rewrite (wf_buf_parts b Hb). cbn [skip_iovecs buf_bytes].
    rewrite skipn_app, bytes_of_length.
    destruct (N.leb_spec (len b) s) as [Hle|Hgt].
    + cbn [iov_bytes fst snd]. rewrite bytes_of_zero, IH. cbn [app].
      rewrite (@skipn_all2 _ (N.to_nat s) (bytes_of i 0 (len b))) by (rewrite bytes_of_length; lia).
      cbn [app]. f_equal. lia.
    + cbn [iov_bytes fst snd]. rewrite (slice_iovecs_bytes _ _ Hbs), bytes_of_skipn.
      replace (N.to_nat s - N.to_nat (len b))%nat with 0%nat by lia. cbn [skipn].
      f_equal. f_equal; lia.
Qed.

Lemma skip_iovecs_length iovs s : length (skip_iovecs iovs s) = length iovs.
Proof.
  revert s; induction iovs as [|[p l] r IH]; intros s; [reflexivity|].
  cbn [skip_iovecs]. destruct (l <=? s); cbn [length]; [rewrite IH|]; reflexivity.
Qed.

Lemma skip_iovecs_zero iovs : skip_iovecs iovs 0 = iovs.
Proof.
  induction iovs as [|[p l] r IH]; [reflexivity|]. cbn [skip_iovecs].
  destruct (N.leb_spec l 0).
  - replace (0 - l) with 0 by lia. rewrite IH. f_equal. f_equal. lia.
  - f_equal. f_equal; lia.
Qed.

Lemma all_empty_sum (iovs : list iov) : forallb (fun i => snd i =? 0) iovs = (sum_lens iovs =? 0).
Proof.
  induction iovs as [|v r IH]; [reflexivity|]. cbn [forallb]. rewrite sum_lens_cons, IH. blia.
Qed.

(** SkipBuf on one buffer. *)
Lemma skip_parts_wf b s : wf b ->
  skip_parts b s = if len b <=? s then (base b, 0) else (base b + s, len b - s).
Proof. intros H. unfold skip_parts. rewrite (wf_buf_parts b H). reflexivity. Qed.

Lemma skip_parts_bytes b s : wf b ->
  iov_bytes 0 [b] [skip_parts b s] = skipn (N.to_nat s) (buf_bytes 0 [b]).
Proof.
  intros H. rewrite (skip_parts_wf b s H). cbn [buf_bytes iov_bytes]. rewrite !app_nil_r.
  rewrite bytes_of_skipn. destruct (N.leb_spec (len b) s); cbn [fst snd].
  - replace (len b - s) with 0 by lia. reflexivity.
  - f_equal; lia.
Qed.

(** [set_init] across the read buffers: the spare capacity shrinks by exactly the first [n]
    spare bytes. *)
Lemma mut_set_init_wf b n : wf b -> n <= cap b - len b -> wf (mut_set_init b n).
Proof. unfold wf, mut_set_init; cbn [base len cap]. lia. Qed.

Lemma mslice_set_init_bytes bs n :
  Forall wf bs -> bs <> [] -> n <= sum_lens (mslice_iovecs bs) ->
  exists bs', mslice_set_init bs n = Some bs' /\ bs' <> [] /\ Forall wf bs'
    /\ map base bs' = map base bs /\ map cap bs' = map cap bs
    /\ (forall i, spare_bytes i bs' = skipn (N.to_nat n) (spare_bytes i bs))
    /\ slice_total_len bs' = slice_total_len bs + n.
Proof.
  intros H; revert n; induction H as [|b bs Hb Hbs IH]; intros n Hne Hn; [congruence|].
  change (mslice_iovecs (b :: bs)) with (mut_parts b :: mslice_iovecs bs) in Hn.
  rewrite sum_lens_cons in Hn. cbn [mslice_set_init].
  rewrite (wf_mut_parts b Hb) in *. cbn [snd] in *.
  destruct (N.ltb_spec (cap b - len b) n) as [Hlt|Hge].
  - destruct bs as [|b2 bs2]; [cbn in Hn; lia|].
    destruct (IH (n - (cap b - len b)) ltac:(congruence) ltac:(lia))
      as (bs' & -> & Hne' & Hwf' & Hbase & Hcap & Hsp & Htot).
    eexists; split; [reflexivity|].
    assert (Hw : wf (mut_set_init b (cap b - len b))) by (apply mut_set_init_wf; [assumption|lia]).
    split; [congruence|]. split; [constructor; assumption|].
    split; [cbn [map mut_set_init base]; f_equal; exact Hbase|].
    split; [cbn [map mut_set_init cap]; f_equal; exact Hcap|].
    split.
    + intros i. cbn [spare_bytes]. unfold mut_set_init at 1 2 3; cbn [len cap].
      rewrite skipn_app, bytes_of_length, Hsp.
      rewrite (@skipn_all2 _ (N.to_nat n) (bytes_of i (len b) (cap b - len b))) by (rewrite bytes_of_length; lia).
      replace (cap b - (len b + (cap b - len b))) with 0 by (unfold wf in Hb; lia).
      rewrite bytes_of_zero. cbn [app]. f_equal. lia.
    + rewrite slice_total_len_cons, Htot, !slice_total_len_cons. unfold mut_set_init at 1; cbn [len].
      unfold wf in Hb. lia.
  - eexists; split; [reflexivity|].
    assert (Hw : wf (mut_set_init b n)) by (apply mut_set_init_wf; assumption).
    split; [congruence|]. split; [constructor; assumption|].
    split; [reflexivity|]. split; [reflexivity|]. split.
    + intros i. cbn [spare_bytes]. unfold mut_set_init at 1 2 3; cbn [len cap].
      rewrite skipn_app, bytes_of_length, bytes_of_skipn.
      replace (N.to_nat n - N.to_nat (cap b - len b))%nat with 0%nat by lia. cbn [skipn].
      f_equal. f_equal; lia.
    + rewrite !slice_total_len_cons. unfold mut_set_init; cbn [len]. lia.
Qed.

(** * Offsets *)
Definition off_at (off s : N) : N := if off =? NO_OFFSET then NO_OFFSET else off + s.

(** The positional offset never reaches [u64::MAX] (which the code reads as "no offset") and
    does not wrap. The kernel refuses offsets of 2^63 and above anyway (negative [loff_t]). *)
Definition offset_ok (off total : N) : Prop := off = NO_OFFSET \/ off + total < two64.

Lemma next_off_at off total s n :
  offset_ok off total -> s + n <= total -> 0 < n ->
  next_off (off_at off s) n = off_at off (s + n).
Proof.
  unfold offset_ok, next_off, off_at, wadd64, trunc64, NO_OFFSET, two64. intros [->|H] Hs Hn.
  - reflexivity.
  - destruct (N.eqb_spec off 18446744073709551615); [lia|].
    destruct (N.eqb_spec (off + s) 18446744073709551615); lia.
Qed.

(** * Runs *)
(** The script respects what each request asked for: [0 <= r_i <= requested_i]. Only the
    results the loop consumes are constrained. *)
Fixpoint within (reqs : list req) (script : list Z) : Prop :=
  match reqs, script with
  | q :: reqs', r :: script' => (0 <= r)%Z /\ Z.to_N r <= requested q /\ within reqs' script'
  | _, _ => True
  end.

Fixpoint nsum (rs : list Z) : N :=
  match rs with [] => 0 | r :: rs' => Z.to_N r + nsum rs' end.

(** The first [r_j] bytes of each request: what the kernel actually transferred, in order. *)
Fixpoint delivered (bs : list vbuf) (reqs : list req) (used : list Z) : list byte :=
  match reqs, used with
  | q :: reqs', r :: used' => firstn (Z.to_nat r) (req_bytes bs q) ++ delivered bs reqs' used'
  | _, _ => []
  end.

(** A run from abstract state [S]: requests issued, results consumed, outcome. [P S q]: request
    [q] is the right one for state [S]; [fin S]: the loop is finished in state [S]; [zero]: the
    outcome of a 0-byte completion. *)
Inductive grun (P : N -> req -> Prop) (fin : N -> bool) (zero : outcome)
  : N -> list req -> list Z -> outcome -> Prop :=
  | gr_pending S q : P S q -> grun P fin zero S [q] [] Pending
  | gr_zero S q : P S q -> grun P fin zero S [q] [0%Z] zero
  | gr_done S q r : P S q -> (0 < r)%Z -> fin (S + Z.to_N r) = true ->
      grun P fin zero S [q] [r] OkAll
  | gr_more S q r reqs used out : P S q -> (0 < r)%Z -> fin (S + Z.to_N r) = false ->
      grun P fin zero (S + Z.to_N r) reqs used out ->
      grun P fin zero S (q :: reqs) (r :: used) out.

Lemma grun_nth P fin zero S reqs used out :
  grun P fin zero S reqs used out ->
  forall j q, nth_error reqs j = Some q -> P (S + nsum (firstn j used)) q.
Proof.
  induction 1 as [S q HP|S q HP|S q r HP Hr Hf|S q r reqs used out HP Hr Hf Hrun IH]; intros j q' Hn.
  1-3: destruct j as [|j]; cbn [nth_error] in Hn;
       [injection Hn as <-; cbn [firstn nsum]; rewrite N.add_0_r; exact HP
       |destruct j; discriminate].
  destruct j as [|j]; cbn [nth_error] in Hn.
  - injection Hn as <-. cbn [firstn nsum]. rewrite N.add_0_r. exact HP.
  - cbn [firstn nsum]. rewrite N.add_assoc. apply IH. exact Hn.
Qed.

Lemma grun_ok_iff P fin zero S reqs used out :
  grun P fin zero S reqs used out -> zero <> OkAll -> fin S = false ->
  (out = OkAll <-> fin (S + nsum used) = true).
Proof.
  intros H Hz. induction H as [S q HP|S q HP|S q r HP Hr Hf|S q r reqs used out HP Hr Hf Hrun IH];
    intros HS; cbn [nsum].
  - rewrite N.add_0_r, HS. split; discriminate.
  - change (Z.to_N 0) with 0. rewrite !N.add_0_r, HS. split; [congruence|discriminate].
  - rewrite N.add_0_r, Hf. split; reflexivity.
  - rewrite N.add_assoc. apply IH. exact Hf.
Qed.

Lemma grun_zero_iff P fin zero S reqs used out :
  grun P fin zero S reqs used out -> zero <> OkAll -> zero <> Pending ->
  (out = zero <-> In 0%Z used).
Proof.
  intros H Hz Hp. induction H as [S q HP|S q HP|S q r HP Hr Hf|S q r reqs used out HP Hr Hf Hrun IH].
  - split; [congruence|intros []].
  - split; [left; reflexivity|reflexivity].
  - split; [congruence|intros [E|[]]; lia].
  - rewrite IH. split; [right; assumption|intros [E|E]; [lia|assumption]].
Qed.

Lemma grun_outcomes P fin zero S reqs used out :
  grun P fin zero S reqs used out -> out = OkAll \/ out = zero \/ out = Pending.
Proof. induction 1; auto. Qed.

Lemma grun_lengths P fin zero S reqs used out :
  grun P fin zero S reqs used out -> zero <> Pending ->
  (out = Pending <-> (length used < length reqs)%nat) /\ (length used <= length reqs)%nat.
Proof.
  intros H Hp. induction H as [S q HP|S q HP|S q r HP Hr Hf|S q r reqs used out HP Hr Hf Hrun IH];
    cbn [length].
  - split; [split; [lia|reflexivity]|lia].
  - split; [split; [congruence|lia]|lia].
  - split; [split; [discriminate|lia]|lia].
  - destruct IH as [IH1 IH2]. split; [rewrite IH1; lia|lia].
Qed.

Lemma grun_positive P fin zero S reqs used out :
  grun P fin zero S reqs used out -> Forall (fun r => (0 <= r)%Z) used.
Proof. induction 1; repeat constructor; try lia; assumption. Qed.

Lemma grun_delivered (P : N -> req -> Prop) fin zero S reqs used out bs U :
  (forall S q, P S q -> req_bytes bs q = skipn (N.to_nat S) U) ->
  grun P fin zero S reqs used out ->
  delivered bs reqs used = firstn (N.to_nat (nsum used)) (skipn (N.to_nat S) U).
Proof.
  intros HP H. induction H as [S q Hq|S q Hq|S q r Hq Hr Hf|S q r reqs used out Hq Hr Hf Hrun IH];
    cbn [delivered nsum].
  - reflexivity.
  - reflexivity.
  - rewrite (HP _ _ Hq), app_nil_r. f_equal. lia.
  - rewrite (HP _ _ Hq), IH.
    replace (N.to_nat (S + Z.to_N r)) with (N.to_nat S + Z.to_nat r)%nat by lia.
    rewrite <- skipn_skipn, firstn_app_skipn. f_equal. lia.
Qed.

(** * What "the right request for state S" means. [U]: the byte universe (all input bytes /
    all spare bytes); [offf]: the offset field as a function of the state; [sel0]: the first
    request selects a pool buffer; [lim]: requests are only issued in states below [lim]. *)
Definition req_ok (bs : list vbuf) (U : list byte) (op fl : N) (offf : N -> N) (sel0 : bool)
    (lim : N) (S : N) (q : req) : Prop :=
  S < lim
  /\ q_op q = op /\ q_flags q = fl /\ q_off q = offf S /\ q_sel q = (sel0 && (S =? 0))
  /\ length (q_iovs q) = length bs
  /\ req_bytes bs q = skipn (N.to_nat S) U
  /\ requested q = N.of_nat (length U) - S.

(** Request [j] is the right one for the state reached by the results before it. *)
Definition requests_exact (bs : list vbuf) (U : list byte) (op fl : N) (offf : N -> N)
    (sel0 : bool) (lim : N) (reqs : list req) (used : list Z) : Prop :=
  forall j q, nth_error reqs j = Some q ->
    req_ok bs U op fl offf sel0 lim (nsum (firstn j used)) q.

(** ** The write loops *)
Lemma wloop_grun {X : Type} (req_of : X -> req) (advance : X -> N -> X) (is_done : X -> bool)
    (ret : X -> list vbuf) (R : X -> N -> Prop) (P : N -> req -> Prop) (T : N) :
  (forall x S, R x S -> S < T -> P S (req_of x) /\ requested (req_of x) = T - S) ->
  (forall x S n, R x S -> S < T -> 0 < n -> S + n <= T ->
      R (advance x n) (S + n) /\ is_done (advance x n) = (S + n =? T)) ->
  forall script x S reqs out rb,
    R x S -> S < T ->
    wloop req_of advance is_done ret x script = (reqs, out, rb) ->
    within reqs script ->
    grun P (fun S' => S' =? T) ErrWriteZero S reqs (firstn (length reqs) script) out
    /\ (out = OkAll -> exists x', R x' T /\ rb = ret x').
Proof.
  intros Hreq Hadv script; induction script as [|r rest IH]; intros x S reqs out rb HR HS Hw Hin;
    cbn [wloop] in Hw.
  - injection Hw as <- <- <-. split; [apply gr_pending, (Hreq x S HR HS)|discriminate].
  - destruct (Hreq x S HR HS) as [HP Hrq].
    destruct (r <? 0)%Z eqn:Eneg.
    { exfalso. destruct (restarts r).
      - destruct (wloop req_of advance is_done ret x rest) as [[qs o] b].
        injection Hw as <- <- <-. cbn [within] in Hin. lia.
      - injection Hw as <- <- <-. cbn [within] in Hin. lia. }
    destruct (r =? 0)%Z eqn:Ez.
    { injection Hw as <- <- <-. assert (r = 0%Z) by lia. subst r.
      split; [apply gr_zero, HP|discriminate]. }
    destruct (is_done (advance x (Z.to_N r))) eqn:Ed.
    + injection Hw as <- <- <-. cbn [within] in Hin. destruct Hin as (H0 & Hle & _).
      rewrite Hrq in Hle.
      destruct (Hadv x S (Z.to_N r) HR HS ltac:(lia) ltac:(lia)) as [HR' Hd].
      rewrite Hd in Ed. cbn [length firstn]. split.
      * apply gr_done; [exact HP|lia|exact Ed].
      * intros _. exists (advance x (Z.to_N r)). split; [|reflexivity].
        replace T with (S + Z.to_N r) by lia. exact HR'.
    + destruct (wloop req_of advance is_done ret (advance x (Z.to_N r)) rest) as [[qs o] b] eqn:Er.
      injection Hw as <- <- <-. cbn [within] in Hin. destruct Hin as (H0 & Hle & Hin).
      rewrite Hrq in Hle.
      destruct (Hadv x S (Z.to_N r) HR HS ltac:(lia) ltac:(lia)) as [HR' Hd].
      rewrite Hd in Ed.
      destruct (IH _ (S + Z.to_N r) _ _ _ HR' ltac:(lia) Er Hin) as [Hg Hret].
      cbn [length firstn]. split; [|exact Hret].
      apply gr_more; [exact HP|lia|exact Ed|exact Hg].
Qed.

(** Everything the property says about a write, as a consequence of the run. [ret]: what the
    extract variant hands back. *)
Definition write_exact_spec (bs : list vbuf) (op fl : N) (offf : N -> N) (script : list Z)
    (reqs : list req) (out : outcome) (ret : list vbuf) : Prop :=
  let U := buf_bytes 0 bs in
  let T := slice_total_len bs in
  let used := firstn (length reqs) script in
  (* every request carries the caller's opcode (zero-copy mode) and flags, the offset
     [off + (bytes transferred before it)] (NO_OFFSET stays), and offers exactly the not yet
     transferred bytes of the input, in order *)
  requests_exact bs U op fl offf false T reqs used
  (* success exactly when everything was transferred *)
  /\ (out = OkAll <-> nsum used = T)
  (* the bytes the kernel accepted: every input byte exactly once, in order; the caller's
     buffers come back *)
  /\ (out = OkAll -> delivered bs reqs used = U /\ ret = bs)
  /\ delivered bs reqs used = firstn (N.to_nat (nsum used)) U
  (* WriteZero exactly when the kernel accepted nothing in some request *)
  /\ (out = ErrWriteZero <-> In 0%Z used)
  /\ (out = Pending <-> (length script < length reqs)%nat)
  /\ (out = OkAll \/ out = ErrWriteZero \/ out = Pending).

Lemma write_spec_of_grun bs op fl offf script reqs out ret :
  1 <= slice_total_len bs ->
  grun (req_ok bs (buf_bytes 0 bs) op fl offf false (slice_total_len bs))
       (fun S' => S' =? slice_total_len bs) ErrWriteZero 0 reqs (firstn (length reqs) script) out ->
  (out = OkAll -> ret = bs) ->
  write_exact_spec bs op fl offf script reqs out ret.
Proof.
  intros HT Hg Hret. unfold write_exact_spec. cbv zeta.
  set (used := firstn (length reqs) script) in *.
  assert (Hdel : delivered bs reqs used = firstn (N.to_nat (nsum used)) (buf_bytes 0 bs)).
  { rewrite (grun_delivered _ _ _ _ _ _ _ bs (buf_bytes 0 bs) (fun S q Hq => proj1 (proj2 (proj2 (proj2 (proj2 (proj2 (proj2 Hq))))))) Hg).
    reflexivity. }
  assert (Hok : out = OkAll <-> nsum used = slice_total_len bs).
  { rewrite (grun_ok_iff _ _ _ _ _ _ _ Hg) by (try discriminate; blia).
    rewrite N.add_0_l. split; intros; blia. }
  split; [intros j q Hn; rewrite <- (N.add_0_l (nsum _)); exact (grun_nth _ _ _ _ _ _ _ Hg j q Hn)|].
  split; [exact Hok|].
  split.
  { intros E. split; [|exact (Hret E)]. rewrite Hdel. apply Hok in E. rewrite E.
    rewrite <- (buf_bytes_length 0). apply firstn_all. }
  split; [exact Hdel|].
  split; [apply (grun_zero_iff _ _ _ _ _ _ _ Hg); discriminate|].
  split.
  { destruct (grun_lengths _ _ _ _ _ _ _ Hg ltac:(discriminate)) as [H1 H2]. rewrite H1.
    subst used. rewrite firstn_length. lia. }
  exact (grun_outcomes _ _ _ _ _ _ _ Hg).
Qed.

(** *** WriteAll / SendAll *)
Definition skipbuf_at (b : vbuf) (sb : skipbuf) (S : N) : Prop := sb_buf sb = b /\ sb_skip sb = S.

Lemma skipbuf_req b sb S :
  wf b -> skipbuf_at b sb S -> S < len b ->
  let iovs := [skip_parts (sb_buf sb) (sb_skip sb)] in
  length iovs = length [b]
  /\ iov_bytes 0 [b] iovs = skipn (N.to_nat S) (buf_bytes 0 [b])
  /\ sum_lens iovs = N.of_nat (length (buf_bytes 0 [b])) - S
  /\ sum_lens iovs = len b - S.
Proof.
  intros Hwf [-> ->] HS. cbv zeta. split; [reflexivity|]. split; [apply skip_parts_bytes, Hwf|].
  rewrite buf_bytes_length. change (slice_total_len [b]) with (buf_len b + 0). unfold buf_len.
  rewrite (skip_parts_wf _ _ Hwf). destruct (N.leb_spec (len b) S); cbn [sum_lens fold_right snd]; lia.
Qed.

Lemma skipbuf_advance b sb S n :
  wf b -> skipbuf_at b sb S -> S + n <= len b ->
  let sb' := {| sb_buf := sb_buf sb; sb_skip := wadd32 (sb_skip sb) (trunc32 n) |} in
  skipbuf_at b sb' (S + n)
  /\ (snd (skip_parts (sb_buf sb') (sb_skip sb')) =? 0) = (S + n =? len b).
Proof.
  intros Hwf [Hb Hs] Hle. cbv zeta. cbn [sb_buf sb_skip]. rewrite Hb, Hs.
  assert (E : wadd32 S (trunc32 n) = S + n).
  { unfold wf in Hwf. unfold wadd32, trunc32, two32 in *. lia. }
  rewrite E. split; [split; reflexivity|].
  rewrite (skip_parts_wf _ _ Hwf). destruct (N.leb_spec (len b) (S + n)); cbn [snd]; blia.
Qed.

Definition write_all_exact : Prop :=
  forall (b : vbuf) (off : N) (script : list Z) reqs out ret,
    wf b -> 1 <= len b -> offset_ok off (len b) ->
    write_all b off script = (reqs, out, ret) ->
    within reqs script ->
    write_exact_spec [b] IORING_OP_WRITE 0 (off_at off) script reqs out ret.

Lemma total_single b : slice_total_len [b] = len b.
Proof. change (slice_total_len [b]) with (buf_len b + 0). unfold buf_len. lia. Qed.

Lemma write_all_exact_holds : write_all_exact.
Proof.
  intros b off script reqs out ret Hwf Hlen Hoff Hrun Hin. unfold write_all in Hrun.
  pose (R := fun (st : wa_state) (S : N) => skipbuf_at b (wa_buf st) S /\ wa_off st = off_at off S).
  destruct (wloop_grun wa_req wa_advance wa_done wa_ret R
              (req_ok [b] (buf_bytes 0 [b]) IORING_OP_WRITE 0 (off_at off) false (slice_total_len [b]))
              (slice_total_len [b])) with (script := script) (x := {| wa_buf := {| sb_buf := b; sb_skip := 0 |}; wa_off := off |})
              (S := 0) (reqs := reqs) (out := out) (rb := ret) as [Hg Hret].
  - rewrite total_single. intros x S [Hsb Ho] HS. destruct (skipbuf_req b (wa_buf x) S Hwf Hsb HS) as (H1 & H2 & H3 & H4).
    split; [|exact H4]. unfold req_ok, wa_req, req_bytes, requested; cbn [q_op q_off q_flags q_sel q_iovs].
    repeat split; assumption.
  - rewrite total_single. intros x S n [Hsb Ho] HS Hn Hle.
    destruct (skipbuf_advance b (wa_buf x) S n Hwf Hsb Hle) as [H1 H2].
    split; [split; [exact H1|]|exact H2].
    unfold wa_advance; cbn [wa_off]. rewrite Ho. apply next_off_at with (total := len b); assumption.
  - split; [split; reflexivity|]. cbn [wa_off]. unfold off_at. destruct (off =? NO_OFFSET) eqn:E; [|lia].
    apply N.eqb_eq in E. congruence.
  - rewrite total_single. lia.
  - exact Hrun.
  - exact Hin.
  - apply write_spec_of_grun; [rewrite total_single; assumption|exact Hg|].
    intros E. destruct (Hret E) as (x' & [[Hb _] _] & ->). unfold wa_ret. rewrite Hb. reflexivity.
Qed.

Definition send_op (zc : bool) : N := if zc then IORING_OP_SEND_ZC else IORING_OP_SEND.
Definition sendmsg_op (zc : bool) : N := if zc then IORING_OP_SENDMSG_ZC else IORING_OP_SENDMSG.

Definition send_all_exact : Prop :=
  forall (b : vbuf) (fl : N) (zc : bool) (script : list Z) reqs out ret,
    wf b -> 1 <= len b ->
    send_all b fl zc script = (reqs, out, ret) ->
    within reqs script ->
    write_exact_spec [b] (send_op zc) fl (fun _ => 0) script reqs out ret.

Lemma send_all_exact_holds : send_all_exact.
Proof.
  intros b fl zc script reqs out ret Hwf Hlen Hrun Hin. unfold send_all in Hrun.
  pose (R := fun (st : sa_state) (S : N) =>
               skipbuf_at b (sa_buf st) S /\ sa_zc st = zc /\ sa_flags st = fl).
  destruct (wloop_grun sa_req sa_advance sa_done sa_ret R
              (req_ok [b] (buf_bytes 0 [b]) (send_op zc) fl (fun _ => 0) false (slice_total_len [b]))
              (slice_total_len [b])) with (script := script)
              (x := {| sa_buf := {| sb_buf := b; sb_skip := 0 |}; sa_zc := zc; sa_flags := fl |})
              (S := 0) (reqs := reqs) (out := out) (rb := ret) as [Hg Hret].
  - rewrite total_single. intros x S (Hsb & Hz & Hf) HS. destruct (skipbuf_req b (sa_buf x) S Hwf Hsb HS) as (H1 & H2 & H3 & H4).
    split; [|exact H4]. unfold req_ok, sa_req, req_bytes, requested, send_op;
      cbn [q_op q_off q_flags q_sel q_iovs].
    rewrite Hz, Hf. repeat split; try assumption.
  - rewrite total_single. intros x S n (Hsb & Hz & Hf) HS Hn Hle.
    destruct (skipbuf_advance b (sa_buf x) S n Hwf Hsb Hle) as [H1 H2].
    split; [split; [exact H1|split; assumption]|exact H2].
  - repeat split.
  - rewrite total_single. lia.
  - exact Hrun.
  - exact Hin.
  - apply write_spec_of_grun; [rewrite total_single; assumption|exact Hg|].
    intros E. destruct (Hret E) as (x' & [[Hb _] _] & ->). unfold sa_ret. rewrite Hb. reflexivity.
Qed.

(** *** WriteAllVectored / SendAllVectored *)
Definition iovs_at (bs : list vbuf) (bufs : list vbuf) (iovs : list iov) (skip S : N) : Prop :=
  bufs = bs /\ skip = S /\ iovs = skip_iovecs (slice_iovecs bs) S.

Lemma iovs_req bs bufs iovs skip S :
  Forall wf bs -> iovs_at bs bufs iovs skip S ->
  length iovs = length bs
  /\ iov_bytes 0 bs iovs = skipn (N.to_nat S) (buf_bytes 0 bs)
  /\ sum_lens iovs = N.of_nat (length (buf_bytes 0 bs)) - S
  /\ sum_lens iovs = slice_total_len bs - S.
Proof.
  intros Hwf (-> & -> & ->).
  split; [rewrite skip_iovecs_length; unfold slice_iovecs; apply map_length|].
  split; [apply skip_iovecs_bytes, Hwf|].
  rewrite skip_iovecs_sum, (sum_lens_slice _ Hwf), buf_bytes_length. lia.
Qed.

Lemma iovs_advance bs bufs iovs skip S n :
  Forall wf bs -> iovs_at bs bufs iovs skip S -> S + n <= slice_total_len bs ->
  slice_total_len bs < two64 ->
  let skip' := wadd64 skip (trunc64 n) in
  let iovs' := skip_iovecs (slice_iovecs bufs) skip' in
  iovs_at bs bufs iovs' skip' (S + n)
  /\ forallb (fun i => snd i =? 0) iovs' = (S + n =? slice_total_len bs).
Proof.
  intros Hwf (-> & -> & ->) Hle Hbig. cbv zeta.
  assert (E : wadd64 S (trunc64 n) = S + n) by (unfold wadd64, trunc64, two64 in *; lia).
  rewrite E. split; [repeat split|].
  rewrite all_empty_sum, skip_iovecs_sum, (sum_lens_slice _ Hwf). blia.
Qed.

(** The cumulative [skip] is a [u64]: the total length stays below 2^64 (at most 8 buffers of
    less than 4 GiB each; in general: the address space). *)
Definition total_fits (bs : list vbuf) : Prop := slice_total_len bs < two64.

Definition write_all_vectored_exact : Prop :=
  forall (bs : list vbuf) (off : N) (script : list Z) reqs out ret,
    Forall wf bs -> 1 <= slice_total_len bs -> total_fits bs ->
    offset_ok off (slice_total_len bs) ->
    write_all_vectored bs off script = (reqs, out, ret) ->
    within reqs script ->
    write_exact_spec bs IORING_OP_WRITEV 0 (off_at off) script reqs out ret.

Lemma write_all_vectored_exact_holds : write_all_vectored_exact.
Proof.
  intros bs off script reqs out ret Hwf Hlen Hfit Hoff Hrun Hin. unfold write_all_vectored in Hrun.
  pose (R := fun (st : wv_state) (S : N) =>
               iovs_at bs (wv_bufs st) (wv_iovs st) (wv_skip st) S /\ wv_off st = off_at off S).
  destruct (wloop_grun wv_req wv_advance wv_done wv_ret R
              (req_ok bs (buf_bytes 0 bs) IORING_OP_WRITEV 0 (off_at off) false (slice_total_len bs))
              (slice_total_len bs)) with (script := script)
              (x := {| wv_bufs := bs; wv_iovs := slice_iovecs bs; wv_skip := 0; wv_off := off |})
              (S := 0) (reqs := reqs) (out := out) (rb := ret) as [Hg Hret].
  - intros x S [Hio Ho] HS. destruct (iovs_req _ _ _ _ _ Hwf Hio) as (H1 & H2 & H3 & H4).
    split; [|exact H4]. unfold req_ok, wv_req, req_bytes, requested; cbn [q_op q_off q_flags q_sel q_iovs].
    repeat split; try assumption.
  - intros x S n [Hio Ho] HS Hn Hle.
    destruct (iovs_advance _ _ _ _ _ n Hwf Hio Hle Hfit) as [H1 H2].
    split; [split; [exact H1|]|exact H2].
    unfold wv_advance; cbn [wv_off]. rewrite Ho. apply next_off_at with (total := slice_total_len bs); assumption.
  - split; [repeat split; symmetry; apply skip_iovecs_zero|].
    cbn [wv_off]. unfold off_at. destruct (off =? NO_OFFSET) eqn:E; [|lia]. apply N.eqb_eq in E. congruence.
  - lia.
  - exact Hrun.
  - exact Hin.
  - apply write_spec_of_grun; try assumption.
    intros E. destruct (Hret E) as (x' & [(Hb & _) _] & ->). exact Hb.
Qed.

Definition send_all_vectored_exact : Prop :=
  forall (bs : list vbuf) (fl : N) (zc : bool) (script : list Z) reqs out ret,
    Forall wf bs -> 1 <= slice_total_len bs -> total_fits bs ->
    send_all_vectored bs fl zc script = (reqs, out, ret) ->
    within reqs script ->
    write_exact_spec bs (sendmsg_op zc) fl (fun _ => 0) script reqs out ret.

Lemma send_all_vectored_exact_holds : send_all_vectored_exact.
Proof.
  intros bs fl zc script reqs out ret Hwf Hlen Hfit Hrun Hin. unfold send_all_vectored in Hrun.
  pose (R := fun (st : sv_state) (S : N) =>
               iovs_at bs (sv_bufs st) (sv_iovs st) (sv_skip st) S /\ sv_zc st = zc /\ sv_flags st = fl).
  destruct (wloop_grun sv_req sv_advance sv_done sv_ret R
              (req_ok bs (buf_bytes 0 bs) (sendmsg_op zc) fl (fun _ => 0) false (slice_total_len bs))
              (slice_total_len bs)) with (script := script)
              (x := {| sv_bufs := bs; sv_iovs := slice_iovecs bs; sv_skip := 0; sv_zc := zc; sv_flags := fl |})
              (S := 0) (reqs := reqs) (out := out) (rb := ret) as [Hg Hret].
  - intros x S (Hio & Hz & Hf) HS. destruct (iovs_req _ _ _ _ _ Hwf Hio) as (H1 & H2 & H3 & H4).
    split; [|exact H4]. unfold req_ok, sv_req, req_bytes, requested, sendmsg_op;
      cbn [q_op q_off q_flags q_sel q_iovs].
    rewrite Hz, Hf. repeat split; try assumption.
  - intros x S n (Hio & Hz & Hf) HS Hn Hle.
    destruct (iovs_advance _ _ _ _ _ n Hwf Hio Hle Hfit) as [H1 H2].
    split; [split; [exact H1|split; assumption]|exact H2].
  - split; [repeat split; symmetry; apply skip_iovecs_zero|split; reflexivity].
  - lia.
  - exact Hrun.
  - exact Hin.
  - apply write_spec_of_grun; try assumption.
    intros E. destruct (Hret E) as (x' & [(Hb & _) _] & ->). exact Hb.
Qed.

(** ** The read loops *)
(** [rb]: the read buffers after [Sf] bytes were appended: same allocations, the spare capacity
    is what is left of the original spare capacity after its first [Sf] bytes, the initialised
    lengths grew by [Sf] in total. *)
Definition ret_ok (bs0 : list vbuf) (Sf : N) (rb : list vbuf) : Prop :=
  Forall wf rb /\ map base rb = map base bs0 /\ map cap rb = map cap bs0
  /\ spare_bytes 0 rb = skipn (N.to_nat Sf) (spare_bytes 0 bs0)
  /\ slice_total_len rb = slice_total_len bs0 + Sf.

Definition rinv (bs0 : list vbuf) (n : N) (offf : N -> N) (sel0 : bool)
    (shape : list vbuf -> Prop) (st : rstate) (S : N) : Prop :=
  shape (r_bufs st) /\ ret_ok bs0 S (r_bufs st)
  /\ r_left st = n - S /\ r_off st = offf S /\ r_sel st = (sel0 && (S =? 0)).

Definition set_init_ok (shape : list vbuf -> Prop)
    (set_init : list vbuf -> N -> option (list vbuf)) : Prop :=
  forall bs n, shape bs -> Forall wf bs -> n <= sum_lens (mslice_iovecs bs) ->
    exists bs', set_init bs n = Some bs' /\ shape bs' /\ Forall wf bs'
      /\ map base bs' = map base bs /\ map cap bs' = map cap bs
      /\ spare_bytes 0 bs' = skipn (N.to_nat n) (spare_bytes 0 bs)
      /\ slice_total_len bs' = slice_total_len bs + n.

Definition mk_ok (shape : list vbuf -> Prop) (mk : rstate -> req) (op fl : N) : Prop :=
  forall st, shape (r_bufs st) -> Forall wf (r_bufs st) ->
    q_op (mk st) = op /\ q_flags (mk st) = fl /\ q_off (mk st) = r_off st /\ q_sel (mk st) = r_sel st
    /\ length (q_iovs (mk st)) = length (r_bufs st)
    /\ iov_bytes 0 (r_bufs st) (q_iovs (mk st)) = spare_bytes 0 (r_bufs st)
    /\ requested (mk st) = sum_lens (mslice_iovecs (r_bufs st)).

Definition off_step (positional : bool) (offf : N -> N) (n : N) : Prop :=
  forall S m, 0 < m -> S + m < n ->
    (if positional then next_off (offf S) m else offf S) = offf (S + m).

Lemma rloop_head mk set_init positional st r rest reqs out rb :
  rloop mk set_init positional st (r :: rest) = (reqs, out, rb) -> exists qs, reqs = mk st :: qs.
Proof.
  cbn [rloop]. intros H.
  destruct (r <? 0)%Z.
  { destruct (restarts r); [destruct (rloop mk set_init positional st rest) as [[? ?] ?]|];
      injection H as <- <- <-; eexists; reflexivity. }
  destruct (set_init (r_bufs st) (Z.to_N r)); [|injection H as <- <- <-; eexists; reflexivity].
  destruct (Z.to_N r =? 0); [injection H as <- <- <-; eexists; reflexivity|].
  destruct (r_left st <=? Z.to_N r); [injection H as <- <- <-; eexists; reflexivity|].
  destruct (rloop mk set_init positional _ rest) as [[? ?] ?].
  injection H as <- <- <-; eexists; reflexivity.
Qed.

Lemma req_ok_of_rinv mk shape op fl offf sel0 bs0 n st S :
  mk_ok shape mk op fl -> rinv bs0 n offf sel0 shape st S -> S < n ->
  req_ok bs0 (spare_bytes 0 bs0) op fl offf sel0 n S (mk st)
  /\ requested (mk st) = sum_lens (mslice_iovecs (r_bufs st)).
Proof.
  intros Hmk (Hsh & (Hwf & Hbase & Hcap & Hsp & Htot) & Hleft & Hoff & Hsel) HS.
  destruct (Hmk st Hsh Hwf) as (H1 & H2 & H3 & H4 & H5 & H6 & H7).
  split; [|exact H7]. unfold req_ok, req_bytes.
  split; [exact HS|]. split; [exact H1|]. split; [exact H2|]. split; [congruence|].
  split; [congruence|].
  split. { rewrite H5. rewrite <- (map_length base (r_bufs st)), Hbase. apply map_length. }
  split. { rewrite <- (iov_bytes_same_base 0 (r_bufs st) bs0 _ Hbase), H6. exact Hsp. }
  rewrite H7. pose proof (spare_bytes_length 0 (r_bufs st) Hwf) as Hl. rewrite Hsp, skipn_length in Hl. lia.
Qed.

Lemma rloop_grun mk set_init positional shape op fl offf sel0 bs0 n :
  set_init_ok shape set_init -> mk_ok shape mk op fl -> off_step positional offf n ->
  forall script st S reqs out rb,
    rinv bs0 n offf sel0 shape st S -> S < n ->
    rloop mk set_init positional st script = (reqs, out, rb) ->
    within reqs script ->
    grun (req_ok bs0 (spare_bytes 0 bs0) op fl offf sel0 n) (fun S' => n <=? S') ErrUnexpectedEof
         S reqs (firstn (length reqs) script) out
    /\ (out = OkAll -> ret_ok bs0 (S + nsum (firstn (length reqs) script)) rb).
Proof.
  intros Hset Hmk Hoffs script; induction script as [|r rest IH]; intros st S reqs out rb Hinv HS Hw Hin.
  - cbn [rloop] in Hw. injection Hw as <- <- <-.
    split; [apply gr_pending, (req_ok_of_rinv _ _ _ _ _ _ _ _ _ _ Hmk Hinv HS)|discriminate].
  - destruct (req_ok_of_rinv _ _ _ _ _ _ _ _ _ _ Hmk Hinv HS) as [HP Hrq].
    destruct (rloop_head _ _ _ _ _ _ _ _ _ Hw) as [qs ->].
    cbn [within] in Hin. destruct Hin as (H0 & Hle & Hin). rewrite Hrq in Hle.
    destruct Hinv as (Hsh & (Hwf & Hbase & Hcap & Hsp & Htot) & Hleft & Hoff & Hsel).
    destruct (Hset _ _ Hsh Hwf Hle) as (bs' & Hsi & Hsh' & Hwf' & Hbase' & Hcap' & Hsp' & Htot').
    cbn [rloop] in Hw. rewrite Hsi in Hw.
    destruct (r <? 0)%Z eqn:Eneg; [lia|].
    assert (Hret : ret_ok bs0 (S + Z.to_N r) bs').
    { split; [exact Hwf'|]. split; [congruence|]. split; [congruence|]. split.
      - rewrite Hsp', Hsp, skipn_skipn. f_equal. lia.
      - lia. }
    destruct (N.eqb_spec (Z.to_N r) 0) as [E0|E0].
    { injection Hw as <- <- <-. assert (r = 0%Z) by lia. subst r. cbn [length firstn].
      split; [apply gr_zero, HP|discriminate]. }
    destruct (N.leb_spec (r_left st) (Z.to_N r)) as [Hd|Hd].
    + injection Hw as <- <- <-. cbn [length firstn nsum]. split.
      * apply gr_done; [exact HP|lia|]. apply N.leb_le. lia.
      * intros _. rewrite N.add_0_r. exact Hret.
    + destruct (rloop mk set_init positional _ rest) as [[qs' o] b] eqn:Er in Hw.
      injection Hw as <- <- <-.
      match type of Er with rloop _ _ _ ?st' _ = _ =>
        assert (Hinv' : rinv bs0 n offf sel0 shape st' (S + Z.to_N r)) end.
      { split; [exact Hsh'|]. split; [exact Hret|]. cbn [r_left r_off r_sel].
        split; [lia|]. split.
        - rewrite Hoff. apply Hoffs; lia.
        - replace (S + Z.to_N r =? 0) with false by (symmetry; apply N.eqb_neq; lia).
          symmetry. apply andb_false_r. }
      destruct (IH _ (S + Z.to_N r) _ _ _ Hinv' ltac:(lia) Er Hin) as [Hg Hr].
      cbn [length firstn nsum]. split.
      * apply gr_more; [exact HP|lia|apply N.leb_gt; lia|exact Hg].
      * rewrite N.add_assoc. exact Hr.
Qed.

Definition read_exact_spec (bs : list vbuf) (n : N) (op fl : N) (offf : N -> N) (sel0 : bool)
    (script : list Z) (reqs : list req) (out : outcome) (ret : list vbuf) : Prop :=
  let U := spare_bytes 0 bs in
  let used := firstn (length reqs) script in
  (* every request carries the caller's flags, the offset [off + (bytes received before it)]
     (NO_OFFSET stays; sockets: 0), and its target is exactly the spare capacity that is left
     after the bytes received so far: it starts where the previous transfer ended *)
  requests_exact bs U op fl offf sel0 n reqs used
  (* success exactly when at least n bytes arrived *)
  /\ (out = OkAll <-> n <= nsum used)
  (* the bytes the kernel stored, in arrival order, are the first spare bytes in order *)
  /\ delivered bs reqs used = firstn (N.to_nat (nsum used)) U
  (* the buffers handed back: same allocations, grown by exactly what arrived *)
  /\ (out = OkAll -> ret_ok bs (nsum used) ret)
  (* UnexpectedEof exactly after a 0-byte completion *)
  /\ (out = ErrUnexpectedEof <-> In 0%Z used)
  /\ (out = Pending <-> (length script < length reqs)%nat)
  /\ (out = OkAll \/ out = ErrUnexpectedEof \/ out = Pending).

(** "UnexpectedEof only if the stream ended": some request that asked for at least one byte
    completed with 0. *)
Definition eof_is_real (reqs : list req) (used : list Z) (out : outcome) : Prop :=
  out = ErrUnexpectedEof ->
  exists j q, nth_error reqs j = Some q /\ nth_error used j = Some 0%Z /\ 0 < requested q.

(** The hypothesis H16 is about: the spare capacity can hold the [n] bytes asked for. *)
Definition spare_covers (n : N) (bs : list vbuf) : Prop := n <= mslice_total_spare bs.

Lemma read_spec_of_grun bs n op fl offf sel0 script reqs out ret :
  1 <= n ->
  grun (req_ok bs (spare_bytes 0 bs) op fl offf sel0 n) (fun S' => n <=? S') ErrUnexpectedEof
       0 reqs (firstn (length reqs) script) out ->
  (out = OkAll -> ret_ok bs (0 + nsum (firstn (length reqs) script)) ret) ->
  read_exact_spec bs n op fl offf sel0 script reqs out ret.
Proof.
  intros Hn Hg Hret. unfold read_exact_spec. cbv zeta.
  set (used := firstn (length reqs) script) in *.
  split; [intros j q Hj; rewrite <- (N.add_0_l (nsum _)); exact (grun_nth _ _ _ _ _ _ _ Hg j q Hj)|].
  split.
  { rewrite (grun_ok_iff _ _ _ _ _ _ _ Hg) by (try discriminate; blia). rewrite N.add_0_l. blia. }
  split.
  { rewrite (grun_delivered _ _ _ _ _ _ _ bs (spare_bytes 0 bs)
               (fun S q Hq => proj1 (proj2 (proj2 (proj2 (proj2 (proj2 (proj2 Hq))))))) Hg).
    reflexivity. }
  split; [intros E; rewrite <- (N.add_0_l (nsum _)); exact (Hret E)|].
  split; [apply (grun_zero_iff _ _ _ _ _ _ _ Hg); discriminate|].
  split.
  { destruct (grun_lengths _ _ _ _ _ _ _ Hg ltac:(discriminate)) as [H1 H2]. rewrite H1.
    subst used. rewrite firstn_length. lia. }
  exact (grun_outcomes _ _ _ _ _ _ _ Hg).
Qed.

Lemma eof_is_real_of_grun bs n op fl offf sel0 script reqs out :
  Forall wf bs -> spare_covers n bs ->
  grun (req_ok bs (spare_bytes 0 bs) op fl offf sel0 n) (fun S' => n <=? S') ErrUnexpectedEof
       0 reqs (firstn (length reqs) script) out ->
  eof_is_real reqs (firstn (length reqs) script) out.
Proof.
  intros Hwf Hcov Hg E. set (used := firstn (length reqs) script) in *.
  apply (grun_zero_iff _ _ _ _ _ _ _ Hg) in E; try discriminate.
  apply In_nth_error in E. destruct E as [j Hj].
  destruct (grun_lengths _ _ _ _ _ _ _ Hg ltac:(discriminate)) as [_ Hlen].
  assert (Hjl : (j < length reqs)%nat).
  { assert (j < length used)%nat by (apply nth_error_Some; congruence). lia. }
  destruct (nth_error reqs j) as [q|] eqn:Hq; [|apply nth_error_None in Hq; lia].
  exists j, q. split; [exact Hq|]. split; [exact Hj|].
  pose proof (grun_nth _ _ _ _ _ _ _ Hg j q Hq) as (HS & _ & _ & _ & _ & _ & _ & Hrq).
  rewrite Hrq, (spare_bytes_length 0 bs Hwf), (sum_lens_mslice bs Hwf).
  unfold spare_covers in Hcov. lia.
Qed.

(** *** The two kinds of [set_init] and of request *)
Definition single_shape (bs : list vbuf) : Prop := length bs = 1%nat.
Definition slice_shape (bs : list vbuf) : Prop := bs <> [].

Lemma single_set_init_ok : set_init_ok single_shape single_set_init.
Proof.
  intros [|b [|b2 r]] n Hsh Hwf Hn; try discriminate Hsh.
  inversion Hwf as [|? ? Hb _]; subst.
  change (mslice_iovecs [b]) with [mut_parts b] in Hn.
  rewrite sum_lens_cons, (wf_mut_parts b Hb) in Hn. cbn [snd sum_lens fold_right] in Hn.
  exists [mut_set_init b n]. split; [reflexivity|]. split; [reflexivity|].
  split; [constructor; [apply mut_set_init_wf; [exact Hb|lia]|constructor]|].
  split; [reflexivity|]. split; [reflexivity|]. split.
  - cbn [spare_bytes]. rewrite !app_nil_r, bytes_of_skipn. unfold mut_set_init; cbn [len cap].
    f_equal; lia.
  - rewrite !slice_total_len_cons. unfold mut_set_init; cbn [len]. lia.
Qed.

Lemma slice_set_init_ok : set_init_ok slice_shape mslice_set_init.
Proof.
  intros bs n Hsh Hwf Hn.
  destruct (mslice_set_init_bytes bs n Hwf Hsh Hn) as (bs' & H1 & H2 & H3 & H4 & H5 & H6 & H7).
  exists bs'. repeat split; try assumption. apply H6.
Qed.

Lemma single_mk_ok op fl : mk_ok single_shape (rn_req op fl false) op fl.
Proof.
  intros st Hsh Hwf. unfold rn_req; cbn [q_op q_off q_flags q_sel q_iovs]. unfold requested; cbn [q_iovs].
  destruct (r_bufs st) as [|b [|b2 r]]; try discriminate Hsh.
  repeat split. change (single_iovs [b]) with (mslice_iovecs [b]). apply mslice_iovecs_bytes, Hwf.
Qed.

Lemma slice_mk_ok op fl : mk_ok slice_shape (rn_req op fl true) op fl.
Proof.
  intros st Hsh Hwf. unfold rn_req; cbn [q_op q_off q_flags q_sel q_iovs]. unfold requested; cbn [q_iovs].
  repeat split.
  - unfold mslice_iovecs. apply map_length.
  - apply mslice_iovecs_bytes, Hwf.
Qed.

Lemma off_step_positional off n : offset_ok off n -> off_step true (off_at off) n.
Proof. intros H S m Hm Hs. apply next_off_at with (total := n); [exact H|lia|exact Hm]. Qed.

Lemma off_step_socket n : off_step false (fun _ => 0) n.
Proof. intros S m _ _. reflexivity. Qed.

Lemma rinv_init bs n offf sel0 (shape : list vbuf -> Prop) off :
  shape bs -> Forall wf bs -> off = offf 0 ->
  rinv bs n offf sel0 shape {| r_bufs := bs; r_off := off; r_left := n; r_sel := sel0 |} 0.
Proof.
  intros Hsh Hwf Hoff. split; [exact Hsh|]. split.
  - cbn [r_bufs]. split; [exact Hwf|]. repeat split. lia.
  - cbn [r_left r_off r_sel]. split; [lia|]. split; [exact Hoff|].
    symmetry. apply andb_true_r.
Qed.

Lemma off_at_zero off : off = off_at off 0.
Proof.
  unfold off_at. destruct (off =? NO_OFFSET) eqn:E; [apply N.eqb_eq in E; exact E|lia].
Qed.

(** *** The four read theorems. First without any assumption on the capacity ... *)
Definition read_n_exact_any_capacity : Prop :=
  forall (b : vbuf) (pool : bool) (n off : N) (script : list Z) reqs out ret,
    wf b -> 1 <= n -> offset_ok off n ->
    read_n b pool n off script = (reqs, out, ret) ->
    within reqs script ->
    read_exact_spec [b] n IORING_OP_READ 0 (off_at off) pool script reqs out ret.

Definition read_n_vectored_exact_any_capacity : Prop :=
  forall (bs : list vbuf) (n off : N) (script : list Z) reqs out ret,
    Forall wf bs -> bs <> [] -> 1 <= n -> offset_ok off n ->
    read_n_vectored bs n off script = (reqs, out, ret) ->
    within reqs script ->
    read_exact_spec bs n IORING_OP_READV 0 (off_at off) false script reqs out ret.

Definition recv_n_exact_any_capacity : Prop :=
  forall (b : vbuf) (pool : bool) (n fl : N) (script : list Z) reqs out ret,
    wf b -> 1 <= n ->
    recv_n b pool n fl script = (reqs, out, ret) ->
    within reqs script ->
    read_exact_spec [b] n IORING_OP_RECV fl (fun _ => 0) pool script reqs out ret.

Definition recv_n_vectored_exact_any_capacity : Prop :=
  forall (bs : list vbuf) (n fl : N) (script : list Z) reqs out ret,
    Forall wf bs -> bs <> [] -> 1 <= n ->
    recv_n_vectored bs n fl script = (reqs, out, ret) ->
    within reqs script ->
    read_exact_spec bs n IORING_OP_RECVMSG fl (fun _ => 0) false script reqs out ret.

(** ... then the full statement of the property, under the hypothesis [spare_covers]. *)
Definition read_n_exact : Prop :=
  forall (b : vbuf) (pool : bool) (n off : N) (script : list Z) reqs out ret,
    wf b -> 1 <= n -> offset_ok off n ->
    spare_covers n [b] ->
    read_n b pool n off script = (reqs, out, ret) ->
    within reqs script ->
    read_exact_spec [b] n IORING_OP_READ 0 (off_at off) pool script reqs out ret
    /\ eof_is_real reqs (firstn (length reqs) script) out.

Definition read_n_vectored_exact : Prop :=
  forall (bs : list vbuf) (n off : N) (script : list Z) reqs out ret,
    Forall wf bs -> bs <> [] -> 1 <= n -> offset_ok off n ->
    spare_covers n bs ->
    read_n_vectored bs n off script = (reqs, out, ret) ->
    within reqs script ->
    read_exact_spec bs n IORING_OP_READV 0 (off_at off) false script reqs out ret
    /\ eof_is_real reqs (firstn (length reqs) script) out.

Definition recv_n_exact : Prop :=
  forall (b : vbuf) (pool : bool) (n fl : N) (script : list Z) reqs out ret,
    wf b -> 1 <= n ->
    spare_covers n [b] ->
    recv_n b pool n fl script = (reqs, out, ret) ->
    within reqs script ->
    read_exact_spec [b] n IORING_OP_RECV fl (fun _ => 0) pool script reqs out ret
    /\ eof_is_real reqs (firstn (length reqs) script) out.

Definition recv_n_vectored_exact : Prop :=
  forall (bs : list vbuf) (n fl : N) (script : list Z) reqs out ret,
    Forall wf bs -> bs <> [] -> 1 <= n ->
    spare_covers n bs ->
    recv_n_vectored bs n fl script = (reqs, out, ret) ->
    within reqs script ->
    read_exact_spec bs n IORING_OP_RECVMSG fl (fun _ => 0) false script reqs out ret
    /\ eof_is_real reqs (firstn (length reqs) script) out.

Lemma read_n_run (b : vbuf) (pool : bool) (n off : N) (script : list Z) reqs out ret :
  wf b -> 1 <= n -> offset_ok off n ->
  read_n b pool n off script = (reqs, out, ret) -> within reqs script ->
  grun (req_ok [b] (spare_bytes 0 [b]) IORING_OP_READ 0 (off_at off) pool n) (fun S' => n <=? S')
       ErrUnexpectedEof 0 reqs (firstn (length reqs) script) out
  /\ (out = OkAll -> ret_ok [b] (0 + nsum (firstn (length reqs) script)) ret).
Proof.
  intros Hwf Hn Hoff Hrun Hin.
  eapply (rloop_grun _ _ _ single_shape); try eassumption.
  - apply single_set_init_ok.
  - apply single_mk_ok.
  - apply off_step_positional, Hoff.
  - apply rinv_init; [reflexivity|constructor; [exact Hwf|constructor]|apply off_at_zero].
  - lia.
Qed.

Lemma read_n_vectored_run (bs : list vbuf) (n off : N) (script : list Z) reqs out ret :
  Forall wf bs -> bs <> [] -> 1 <= n -> offset_ok off n ->
  read_n_vectored bs n off script = (reqs, out, ret) -> within reqs script ->
  grun (req_ok bs (spare_bytes 0 bs) IORING_OP_READV 0 (off_at off) false n) (fun S' => n <=? S')
       ErrUnexpectedEof 0 reqs (firstn (length reqs) script) out
  /\ (out = OkAll -> ret_ok bs (0 + nsum (firstn (length reqs) script)) ret).
Proof.
  intros Hwf Hne Hn Hoff Hrun Hin.
  eapply (rloop_grun _ _ _ slice_shape); try eassumption.
  - apply slice_set_init_ok.
  - apply slice_mk_ok.
  - apply off_step_positional, Hoff.
  - apply rinv_init; [exact Hne|exact Hwf|apply off_at_zero].
  - lia.
Qed.

Lemma recv_n_run (b : vbuf) (pool : bool) (n fl : N) (script : list Z) reqs out ret :
  wf b -> 1 <= n ->
  recv_n b pool n fl script = (reqs, out, ret) -> within reqs script ->
  grun (req_ok [b] (spare_bytes 0 [b]) IORING_OP_RECV fl (fun _ => 0) pool n) (fun S' => n <=? S')
       ErrUnexpectedEof 0 reqs (firstn (length reqs) script) out
  /\ (out = OkAll -> ret_ok [b] (0 + nsum (firstn (length reqs) script)) ret).
Proof.
  intros Hwf Hn Hrun Hin.
  eapply (rloop_grun _ _ _ single_shape); try eassumption.
  - apply single_set_init_ok.
  - apply single_mk_ok.
  - apply off_step_socket.
  - apply rinv_init; [reflexivity|constructor; [exact Hwf|constructor]|reflexivity].
  - lia.
Qed.

Lemma recv_n_vectored_run (bs : list vbuf) (n fl : N) (script : list Z) reqs out ret :
  Forall wf bs -> bs <> [] -> 1 <= n ->
  recv_n_vectored bs n fl script = (reqs, out, ret) -> within reqs script ->
  grun (req_ok bs (spare_bytes 0 bs) IORING_OP_RECVMSG fl (fun _ => 0) false n) (fun S' => n <=? S')
       ErrUnexpectedEof 0 reqs (firstn (length reqs) script) out
  /\ (out = OkAll -> ret_ok bs (0 + nsum (firstn (length reqs) script)) ret).
Proof.
  intros Hwf Hne Hn Hrun Hin.
  eapply (rloop_grun _ _ _ slice_shape); try eassumption.
  - apply slice_set_init_ok.
  - apply slice_mk_ok.
  - apply off_step_socket.
  - apply rinv_init; [exact Hne|exact Hwf|reflexivity].
  - lia.
Qed.

Lemma read_n_exact_any_capacity_holds : read_n_exact_any_capacity.
Proof.
  intros b pool n off script reqs out ret Hwf Hn Hoff Hrun Hin.
  destruct (read_n_run _ _ _ _ _ _ _ _ Hwf Hn Hoff Hrun Hin) as [Hg Hr].
  apply read_spec_of_grun; assumption.
Qed.

Lemma read_n_vectored_exact_any_capacity_holds : read_n_vectored_exact_any_capacity.
Proof.
  intros bs n off script reqs out ret Hwf Hne Hn Hoff Hrun Hin.
  destruct (read_n_vectored_run _ _ _ _ _ _ _ Hwf Hne Hn Hoff Hrun Hin) as [Hg Hr].
  apply read_spec_of_grun; assumption.
Qed.

Lemma recv_n_exact_any_capacity_holds : recv_n_exact_any_capacity.
Proof.
  intros b pool n fl script reqs out ret Hwf Hn Hrun Hin.
  destruct (recv_n_run _ _ _ _ _ _ _ _ Hwf Hn Hrun Hin) as [Hg Hr].
  apply read_spec_of_grun; assumption.
Qed.

Lemma recv_n_vectored_exact_any_capacity_holds : recv_n_vectored_exact_any_capacity.
Proof.
  intros bs n fl script reqs out ret Hwf Hne Hn Hrun Hin.
  destruct (recv_n_vectored_run _ _ _ _ _ _ _ Hwf Hne Hn Hrun Hin) as [Hg Hr].
  apply read_spec_of_grun; assumption.
Qed.

Lemma read_n_exact_holds : read_n_exact.
Proof.
  intros b pool n off script reqs out ret Hwf Hn Hoff Hcov Hrun Hin.
  destruct (read_n_run _ _ _ _ _ _ _ _ Hwf Hn Hoff Hrun Hin) as [Hg Hr].
  split; [apply read_spec_of_grun; assumption|].
  eapply eof_is_real_of_grun; [constructor; [exact Hwf|constructor]|exact Hcov|exact Hg].
Qed.

Lemma read_n_vectored_exact_holds : read_n_vectored_exact.
Proof.
  intros bs n off script reqs out ret Hwf Hne Hn Hoff Hcov Hrun Hin.
  destruct (read_n_vectored_run _ _ _ _ _ _ _ Hwf Hne Hn Hoff Hrun Hin) as [Hg Hr].
  split; [apply read_spec_of_grun; assumption|].
  eapply eof_is_real_of_grun; [exact Hwf|exact Hcov|exact Hg].
Qed.

Lemma recv_n_exact_holds : recv_n_exact.
Proof.
  intros b pool n fl script reqs out ret Hwf Hn Hcov Hrun Hin.
  destruct (recv_n_run _ _ _ _ _ _ _ _ Hwf Hn Hrun Hin) as [Hg Hr].
  split; [apply read_spec_of_grun; assumption|].
  eapply eof_is_real_of_grun; [constructor; [exact Hwf|constructor]|exact Hcov|exact Hg].
Qed.

Lemma recv_n_vectored_exact_holds : recv_n_vectored_exact.
Proof.
  intros bs n fl script reqs out ret Hwf Hne Hn Hcov Hrun Hin.
  destruct (recv_n_vectored_run _ _ _ _ _ _ _ Hwf Hne Hn Hrun Hin) as [Hg Hr].
  split; [apply read_spec_of_grun; assumption|].
  eapply eof_is_real_of_grun; [exact Hwf|exact Hcov|exact Hg].
Qed.

(** * H16 (known finding): with less spare capacity than [n] the loop reports UnexpectedEof
    although the stream has not ended. Once the buffers are full the next request asks for 0
    bytes, the kernel (correctly) returns 0, and that is read as end of stream. *)
Definition kernel_never_signalled_eof (reqs : list req) (used : list Z) : Prop :=
  forall j q, nth_error reqs j = Some q -> nth_error used j = Some 0%Z -> requested q = 0.

Lemma never_signalled_not_real reqs used :
  kernel_never_signalled_eof reqs used -> ~ eof_is_real reqs used ErrUnexpectedEof.
Proof.
  intros Hk H. destruct (H eq_refl) as (j & q & Hq & Hu & Hpos). rewrite (Hk j q Hq Hu) in Hpos. lia.
Qed.

Local Ltac h16_never :=
  intros j q Hq Hu; destruct j as [|[|j]]; vm_compute in Hq, Hu;
  [discriminate Hu|injection Hq as <-; reflexivity|destruct j; discriminate Hq].
Local Ltac decide_cmp := vm_compute; repeat split; intro; discriminate.
Local Ltac solve_wf := repeat constructor; vm_compute; first [reflexivity | intro; discriminate].

Definition h16_buf : vbuf := {| base := 4096; len := 0; cap := 4 |}.
Definition h16_bufs : list vbuf := [ {| base := 4096; len := 1; cap := 3 |}; {| base := 8192; len := 2; cap := 4 |} ].

Definition read_n_spare_below_n_fails : Prop :=
  exists b n script reqs out ret,
    wf b /\ 1 <= n /\ ~ spare_covers n [b]
    /\ read_n b false n NO_OFFSET script = (reqs, out, ret) /\ within reqs script
    /\ out = ErrUnexpectedEof
    /\ kernel_never_signalled_eof reqs (firstn (length reqs) script)
    /\ ~ eof_is_real reqs (firstn (length reqs) script) out.

Lemma read_n_h16_refuted : read_n_spare_below_n_fails.
Proof.
  exists h16_buf, 5, [4; 0]%Z. eexists _, _, _.
  split; [solve_wf|]. split; [lia|]. split; [vm_compute; intros H; apply H; reflexivity|].
  split; [vm_compute; reflexivity|]. split; [decide_cmp|]. split; [reflexivity|].
  assert (Hk : kernel_never_signalled_eof
                 (fst (fst (read_n h16_buf false 5 NO_OFFSET [4; 0]%Z))) [4; 0]%Z) by h16_never.
  split; [exact Hk|]. apply never_signalled_not_real. exact Hk.
Qed.

Definition read_n_pool_spare_below_n_fails : Prop :=
  exists b n script reqs out ret,
    wf b /\ 1 <= n /\ ~ spare_covers n [b]
    /\ read_n b true n NO_OFFSET script = (reqs, out, ret) /\ within reqs script
    /\ out = ErrUnexpectedEof
    /\ kernel_never_signalled_eof reqs (firstn (length reqs) script).

Lemma read_n_pool_h16_refuted : read_n_pool_spare_below_n_fails.
Proof.
  exists h16_buf, 5, [4; 0]%Z. eexists _, _, _.
  split; [solve_wf|]. split; [lia|]. split; [vm_compute; intros H; apply H; reflexivity|].
  split; [vm_compute; reflexivity|]. split; [decide_cmp|]. split; [reflexivity|]. h16_never.
Qed.

Definition read_n_vectored_spare_below_n_fails : Prop :=
  exists bs n script reqs out ret,
    Forall wf bs /\ bs <> [] /\ 1 <= n /\ ~ spare_covers n bs
    /\ read_n_vectored bs n 7 script = (reqs, out, ret) /\ within reqs script
    /\ out = ErrUnexpectedEof
    /\ kernel_never_signalled_eof reqs (firstn (length reqs) script).

Lemma read_n_vectored_h16_refuted : read_n_vectored_spare_below_n_fails.
Proof.
  exists h16_bufs, 5, [4; 0]%Z. eexists _, _, _.
  split; [solve_wf|]. split; [discriminate|]. split; [lia|].
  split; [vm_compute; intros H; apply H; reflexivity|].
  split; [vm_compute; reflexivity|]. split; [decide_cmp|]. split; [reflexivity|]. h16_never.
Qed.

Definition recv_n_spare_below_n_fails : Prop :=
  exists b n script reqs out ret,
    wf b /\ 1 <= n /\ ~ spare_covers n [b]
    /\ recv_n b false n 0 script = (reqs, out, ret) /\ within reqs script
    /\ out = ErrUnexpectedEof
    /\ kernel_never_signalled_eof reqs (firstn (length reqs) script).

Lemma recv_n_h16_refuted : recv_n_spare_below_n_fails.
Proof.
  exists h16_buf, 5, [4; 0]%Z. eexists _, _, _.
  split; [solve_wf|]. split; [lia|]. split; [vm_compute; intros H; apply H; reflexivity|].
  split; [vm_compute; reflexivity|]. split; [decide_cmp|]. split; [reflexivity|]. h16_never.
Qed.

Definition recv_n_vectored_spare_below_n_fails : Prop :=
  exists bs n script reqs out ret,
    Forall wf bs /\ bs <> [] /\ 1 <= n /\ ~ spare_covers n bs
    /\ recv_n_vectored bs n 0 script = (reqs, out, ret) /\ within reqs script
    /\ out = ErrUnexpectedEof
    /\ kernel_never_signalled_eof reqs (firstn (length reqs) script).

Lemma recv_n_vectored_h16_refuted : recv_n_vectored_spare_below_n_fails.
Proof.
  exists h16_bufs, 5, [4; 0]%Z. eexists _, _, _.
  split; [solve_wf|]. split; [discriminate|]. split; [lia|].
  split; [vm_compute; intros H; apply H; reflexivity|].
  split; [vm_compute; reflexivity|]. split; [decide_cmp|]. split; [reflexivity|]. h16_never.
Qed.

(** * Why [offset_ok] is there: [u64::MAX] is both a legal argument of [.at(..)] and the
    marker "no offset". A positional write whose running offset reaches it continues as a
    non-positional one. (Linux rejects offsets of 2^63 and more for ordinary files, so the first
    request of such a write fails in practice.) *)
Definition positional_write_reaches_sentinel : Prop :=
  exists b off script reqs out ret q,
    wf b /\ 1 <= len b /\ off <> NO_OFFSET /\ ~ offset_ok off (len b)
    /\ write_all b off script = (reqs, out, ret) /\ within reqs script
    /\ nth_error reqs 1 = Some q /\ q_off q = NO_OFFSET.

Lemma write_all_offset_sentinel_refuted : positional_write_reaches_sentinel.
Proof.
  exists {| base := 4096; len := 3; cap := 3 |}, (two64 - 2), [1; 1; 1]%Z. eexists _, _, _, _.
  split; [solve_wf|]. split; [cbn [len]; lia|]. split; [vm_compute; discriminate|].
  split. { unfold offset_ok, NO_OFFSET, two64; cbn [len]. lia. }
  split; [vm_compute; reflexivity|]. split; [decide_cmp|].
  split; vm_compute; reflexivity.
Qed.

(** * Non-vacuity: the hypotheses of every theorem are satisfiable, on runs with short
    transfers, empty buffers in every position, an offset, flags and zero copy. *)
Definition ex_bufs : list vbuf :=
  [ {| base := 4096; len := 0; cap := 0 |}; {| base := 8192; len := 3; cap := 3 |};
    {| base := 12288; len := 0; cap := 0 |}; {| base := 16384; len := 2; cap := 2 |};
    {| base := 20480; len := 0; cap := 0 |} ].

Example write_all_vectored_example :
  Forall wf ex_bufs /\ 1 <= slice_total_len ex_bufs /\ total_fits ex_bufs
  /\ offset_ok 100 (slice_total_len ex_bufs)
  /\ exists reqs, write_all_vectored ex_bufs 100 [2; 2; 1]%Z = (reqs, OkAll, ex_bufs)
                  /\ within reqs [2; 2; 1]%Z /\ length reqs = 3%nat.
Proof.
  split; [solve_wf|]. split; [vm_compute; discriminate|]. split; [vm_compute; reflexivity|].
  split; [right; vm_compute; reflexivity|]. eexists. split; [vm_compute; reflexivity|].
  split; [decide_cmp|reflexivity].
Qed.

Example send_all_vectored_example :
  exists reqs, send_all_vectored ex_bufs 32768 true [4; 0]%Z = (reqs, ErrWriteZero, [])
               /\ within reqs [4; 0]%Z /\ length reqs = 2%nat.
Proof. eexists. split; [vm_compute; reflexivity|]. split; [decide_cmp|reflexivity]. Qed.

Example write_all_example :
  let b := {| base := 4096; len := 5; cap := 5 |} in
  wf b /\ 1 <= len b /\ offset_ok NO_OFFSET (len b)
  /\ exists reqs, write_all b NO_OFFSET [1; 3; 1]%Z = (reqs, OkAll, [b])
                  /\ within reqs [1; 3; 1]%Z /\ length reqs = 3%nat.
Proof.
  cbv zeta. split; [solve_wf|]. split; [cbn [len]; lia|]. split; [left; reflexivity|].
  eexists. split; [vm_compute; reflexivity|]. split; [decide_cmp|reflexivity].
Qed.

Example send_all_example :
  let b := {| base := 4096; len := 5; cap := 5 |} in
  exists reqs, send_all b 64 true [2; 3]%Z = (reqs, OkAll, [b])
               /\ within reqs [2; 3]%Z /\ length reqs = 2%nat.
Proof. cbv zeta. eexists. split; [vm_compute; reflexivity|]. split; [decide_cmp|reflexivity]. Qed.

Definition ex_rbufs : list vbuf :=
  [ {| base := 4096; len := 1; cap := 3 |}; {| base := 8192; len := 2; cap := 2 |};
    {| base := 12288; len := 0; cap := 5 |} ].

Example read_n_vectored_example :
  Forall wf ex_rbufs /\ ex_rbufs <> [] /\ 1 <= 4 /\ offset_ok 7 4 /\ spare_covers 4 ex_rbufs
  /\ exists reqs ret, read_n_vectored ex_rbufs 4 7 [1; 2; 3]%Z = (reqs, OkAll, ret)
                      /\ within reqs [1; 2; 3]%Z /\ length reqs = 3%nat
                      /\ map len ret = [3; 2; 4].
Proof.
  split; [solve_wf|]. split; [discriminate|]. split; [lia|].
  split; [right; vm_compute; reflexivity|]. split; [vm_compute; discriminate|].
  eexists _, _. split; [vm_compute; reflexivity|]. split; [decide_cmp|]. split; reflexivity.
Qed.

Example recv_n_pool_example :
  let b := {| base := 4096; len := 0; cap := 16 |} in
  wf b /\ spare_covers 10 [b]
  /\ exists reqs ret, recv_n b true 10 2 [4; 5; 0]%Z = (reqs, ErrUnexpectedEof, ret)
                      /\ within reqs [4; 5; 0]%Z /\ length reqs = 3%nat
                      /\ eof_is_real reqs [4; 5; 0]%Z ErrUnexpectedEof.
Proof.
  cbv zeta. split; [solve_wf|]. split; [vm_compute; discriminate|].
  eexists _, _. split; [vm_compute; reflexivity|]. split; [decide_cmp|]. split; [reflexivity|].
  intros _. eexists 2%nat, _. split; [reflexivity|]. split; [reflexivity|]. vm_compute. reflexivity.
Qed.

(** Proofs about Model/OpState.v, part 4: transparent restart after EINTR/ECANCELED (C09) and
    the kernel-shape assumption K2m under which a multishot stream never shows an interruption. *)
From A10 Require Import Base.Word Base.Run Model.OpState Proofs.OpStateInv Proofs.OpStateWake.
From Coq Require Import ZifyN ZifyBool ZifyNat.
Ltac Zify.zify_post_hook ::= Z.div_mod_to_equations.
Local Open Scope nat_scope.

(** ** Traces, and the extra kernel-shape assumption *)

(** The history with the observations of each event. *)
Fixpoint trace (s : sys) (es : list ev) : list (ev * list obs) :=
  match es with
  | [] => []
  | e :: r => let '(s1, o) := step s e in (e, o) :: trace s1 r
  end.

(** K2m: a completion carrying -EINTR or -ECANCELED never has the MORE flag (an interrupted or
    cancelled request is over: Linux posts these results as final completions). Together with
    [ev_ok] (completions only for requests in flight, and a request leaves flight with its
    first completion without MORE) this is the K2 script shape [(more)* final]. *)
Definition ev_ok_k2m (s : sys) (e : ev) : bool :=
  ev_ok s e && match e with KPost _ c => negb (is_restart c && more c) | _ => true end.

Fixpoint valid_k2m (s : sys) (es : list ev) : Prop :=
  match es with
  | [] => True
  | e :: r => ev_ok_k2m s e = true /\ valid_k2m (fst (step s e)) r
  end.

Lemma valid_k2m_valid es : forall s, valid_k2m s es -> valid s es.
Proof.
  induction es as [|e es IH]; intros s; cbn [valid_k2m valid]; [auto|].
  intros [H1 H2]. split; [|apply IH; exact H2]. unfold ev_ok_k2m in H1.
  apply andb_true_iff in H1. tauto.
Qed.

(** A property of every (event, observations) pair of a history, by invariant. *)
Lemma trace_forall (V : sys -> list ev -> Prop) (ok : sys -> ev -> Prop)
      (P : sys -> Prop) (Q : ev -> list obs -> Prop) :
  (forall s e r, V s (e :: r) -> ok s e /\ V (fst (step s e)) r) ->
  (forall s e, P s -> ok s e -> P (fst (step s e)) /\ Q e (snd (step s e))) ->
  forall es s, P s -> V s es -> forall e out, In (e, out) (trace s es) -> Q e out.
Proof.
  intros HV Hstep es; induction es as [|e0 es IH]; intros s HP Hv e out Hin; cbn [trace] in Hin;
    [destruct Hin|].
  destruct (HV s e0 es Hv) as [Hok Hv']. destruct (Hstep s e0 HP Hok) as [HP' HQ].
  destruct (step s e0) as [s1 o1]. cbn [fst snd] in *. destruct Hin as [E|Hin].
  - inversion E; subst. exact HQ.
  - exact (IH s1 HP' Hv' e out Hin).
Qed.

Definition restart_code (e : Z) : bool := (e =? - EINTR)%Z || (e =? - ECANCELED)%Z.

Lemma is_restart_code c : is_restart c = restart_code (res c).
Proof. reflexivity. Qed.

Lemma is_restart_neg c : is_restart c = true -> (0 <=? res c)%Z = false.
Proof. unfold is_restart, EINTR, ECANCELED. lia. Qed.

(** ** Statements *)

(** What a poll that restarts the operation does: it reports Pending, keeps the state and the
    resources allocated, and either queues exactly one new [Submit i] (same identity, attempt
    counter + 1, waker registered) or, when the queue is full, parks the waker and stays
    [NotStarted] so that the next poll retries. Nothing else changes. *)
Definition restart_effect (s : sys) (i : nat) (w : N) (o : op) : Prop :=
  let s' := fst (poll s i w) in
  snd (poll s i w) = [OPending]
  /\ (exists o', nth_error (ops s') i = Some o'
        /\ freed o' = freed o /\ res_live o' = res_live o /\ kd o' = kd o
        /\ (if has_room s
            then st o' = Running (match kd o with Single => [default_cqe] | Multi => [] end)
                 /\ attempts o' = (attempts o + 1)%N /\ sq s' = sq s ++ [Submit i]
                 /\ waker o' = Some w /\ blocked s' = blocked s
            else st o' = NotStarted /\ attempts o' = attempts o /\ sq s' = sq s
                 /\ blocked s' = blocked s ++ [w]))
  /\ inflight s' = inflight s /\ cq s' = cq s
  /\ (forall j, j <> i -> nth_error (ops s') j = nth_error (ops s) j).

Definition outcome (c : cqe) : obs := if (0 <=? res c)%Z then OReady (res c) else OErr (res c).

Definition kind_at (s : sys) (i : nat) : option kind := option_map kd (nth_error (ops s) i).

(** C09. (1) A single-shot (or two-step) operation whose result is -EINTR/-ECANCELED is
    restarted by the next poll, transparently. (2) So is a multishot operation when the
    interruption is the last queued result; (3) and a multishot stream whose kernel script is
    [results…; interruption (final)] hands out exactly the results, then restarts. (4) In every
    reachable state the resources of a finished, not yet dropped operation are still there to
    be re-submitted. (5) Over ANY history no single-shot operation ever reports -EINTR or
    -ECANCELED to its caller. (6) Over any history whose kernel completions have the K2m shape
    no operation at all does, and the restart path never hits its assertion. *)
Definition restart_transparent : Prop :=
  (forall s i w o c rs, nth_error (ops s) i = Some o -> kd o = Single ->
     st o = Done (c :: rs) -> is_restart c = true -> restart_effect s i w o)
  /\ (forall s i w o c, nth_error (ops s) i = Some o -> kd o = Multi ->
        st o = Done [c] -> is_restart c = true -> restart_effect s i w o)
  /\ (forall rs s i o c ws w, nth_error (ops s) i = Some o -> kd o = Multi ->
        st o = Done (rs ++ [c]) -> (forall x, In x rs -> is_restart x = false) ->
        is_restart c = true -> length ws = length rs ->
        let r := run step s (map (Poll i) (ws ++ [w])) in
        snd r = map outcome rs ++ [OPending]
        /\ exists o', nth_error (ops (fst r)) i = Some o'
             /\ freed o' = freed o /\ res_live o' = res_live o
             /\ if has_room s
                then st o' = Running [] /\ attempts o' = (attempts o + 1)%N
                     /\ sq (fst r) = sq s ++ [Submit i]
                else st o' = NotStarted /\ blocked (fst r) = blocked s ++ [w])
  /\ (forall cap0 kinds es, valid (init cap0 kinds) es ->
        let s := fst (run step (init cap0 kinds) es) in
        forall i o rs, nth_error (ops s) i = Some o -> st o = Done rs -> freed o = false ->
          res_live o = true)
  /\ (forall cap0 kinds es i w out e,
        In (Poll i w, out) (trace (init cap0 kinds) es) ->
        kind_at (init cap0 kinds) i = Some Single ->
        In (OErr e) out -> restart_code e = false)
  /\ (forall cap0 kinds es i w out, valid_k2m (init cap0 kinds) es ->
        In (Poll i w, out) (trace (init cap0 kinds) es) ->
        (forall e, In (OErr e) out -> restart_code e = false)
        /\ (In OPanic out -> kind_at (init cap0 kinds) i = Some Multi /\ out = [OPanic])).

(** Outside K2m (a completion with -EINTR and MORE, which Linux does not produce) the
    [Running] path of a multishot poll has no restart and surfaces the interruption… *)
Definition c09_multi_interruption_with_more_surfaces : Prop :=
  exists es, valid (init 4 [(Multi, true)]) es
    /\ snd (run step (init 4 [(Multi, true)]) es)
       = [OPending; OConsumed (Submit 0); OWake 1%N; OErr (- EINTR)].

(** … and the [Done] path trips its sanity assertion (a panic; the queued result is lost). *)
Definition multi_restart_with_queued_results_panics : Prop :=
  exists es, valid (init 4 [(Multi, true)]) es
    /\ snd (run step (init 4 [(Multi, true)]) es)
       = [OPending; OConsumed (Submit 0); OWake 1%N; OPanic].

(** ** One-step lemmas *)

Lemma poll_start_effect_full s i w o o1 :
  nth_error (ops s) i = Some o ->
  let r := poll_start s i o1 w in
  snd r = [OPending]
  /\ (exists o', nth_error (ops (fst r)) i = Some o'
        /\ freed o' = freed o1 /\ res_live o' = res_live o1 /\ kd o' = kd o1
        /\ (if has_room s
            then st o' = Running (match kd o1 with Single => [default_cqe] | Multi => [] end)
                 /\ attempts o' = (attempts o1 + 1)%N /\ sq (fst r) = sq s ++ [Submit i]
                 /\ waker o' = Some w /\ blocked (fst r) = blocked s
            else st o' = st o1 /\ attempts o' = attempts o1 /\ sq (fst r) = sq s
                 /\ blocked (fst r) = blocked s ++ [w]))
  /\ inflight (fst r) = inflight s /\ cq (fst r) = cq s
  /\ (forall j, j <> i -> nth_error (ops (fst r)) j = nth_error (ops s) j).
Proof.
  intros Hi r. subst r. pose proof (nth_error_lt _ _ _ Hi) as Hlt. unfold poll_start.
  destruct (has_room s); cbn [fst snd push_sq push_blocked ops sq inflight cq blocked].
  - split; [reflexivity|]. split; [|split; [reflexivity|split; [reflexivity|]]].
    + rewrite nth_error_set_op, Nat.eqb_refl by exact Hlt. eexists; split; [reflexivity|].
      cbn. repeat split.
    + intros j Hj. rewrite nth_error_set_op by exact Hlt.
      destruct (Nat.eqb_spec j i); [contradiction|reflexivity].
  - split; [reflexivity|]. split; [|split; [reflexivity|split; [reflexivity|]]].
    + rewrite nth_error_set_op, Nat.eqb_refl by exact Hlt. eexists; split; [reflexivity|].
      cbn. repeat split.
    + intros j Hj. rewrite nth_error_set_op by exact Hlt.
      destruct (Nat.eqb_spec j i); [contradiction|reflexivity].
Qed.

Lemma restart_effect_of_start s i w o :
  nth_error (ops s) i = Some o ->
  poll s i w = poll_start s i (new_attempt (with_st o NotStarted)) w ->
  restart_effect s i w o.
Proof.
  intros Hi E. unfold restart_effect. rewrite E.
  destruct (poll_start_effect_full s i w o (new_attempt (with_st o NotStarted)) Hi)
    as (H1 & (o' & Ho' & A1 & A2 & A3 & A4) & H3 & H4 & H5).
  split; [exact H1|]. split; [|auto]. exists o'. split; [exact Ho'|]. op_cbn. auto.
Qed.

Lemma single_restart s i w o c rs :
  nth_error (ops s) i = Some o -> kd o = Single -> st o = Done (c :: rs) -> is_restart c = true ->
  restart_effect s i w o.
Proof.
  intros Hi Hk Hs Hr. apply restart_effect_of_start; [exact Hi|].
  unfold poll. rewrite Hi, Hs, Hk, (is_restart_neg c Hr), Hr. reflexivity.
Qed.

Lemma multi_restart s i w o c :
  nth_error (ops s) i = Some o -> kd o = Multi -> st o = Done [c] -> is_restart c = true ->
  restart_effect s i w o.
Proof.
  intros Hi Hk Hs Hr. apply restart_effect_of_start; [exact Hi|].
  unfold poll. rewrite Hi, Hs, Hk, (is_restart_neg c Hr), Hr. reflexivity.
Qed.

Lemma has_room_set_op s i o : has_room (set_op s i o) = has_room s.
Proof. reflexivity. Qed.

Lemma multi_stream_restarts rs : forall s i o c ws w,
  nth_error (ops s) i = Some o -> kd o = Multi ->
  st o = Done (rs ++ [c]) -> (forall x, In x rs -> is_restart x = false) ->
  is_restart c = true -> length ws = length rs ->
  let r := run step s (map (Poll i) (ws ++ [w])) in
  snd r = map outcome rs ++ [OPending]
  /\ exists o', nth_error (ops (fst r)) i = Some o'
       /\ freed o' = freed o /\ res_live o' = res_live o
       /\ if has_room s
          then st o' = Running [] /\ attempts o' = (attempts o + 1)%N
               /\ sq (fst r) = sq s ++ [Submit i]
          else st o' = NotStarted /\ blocked (fst r) = blocked s ++ [w].
Proof.
  induction rs as [|c0 rs IH]; intros s i o c ws w Hi Hk Hs Hnr Hr Hlen r; subst r.
  - destruct ws; [|discriminate]. cbn [app map run step].
    destruct (multi_restart s i w o c Hi Hk Hs Hr) as (H1 & (o' & Ho' & A1 & A2 & A3 & A4) & _).
    destruct (poll s i w) as [s1 o1]. cbn [fst snd] in *. subst o1. split; [reflexivity|].
    exists o'. split; [exact Ho'|]. split; [exact A1|]. split; [exact A2|].
    rewrite Hk in A4. destruct (has_room s); tauto.
  - destruct ws as [|w0 ws]; [discriminate|]. cbn [app map run step]. cbn [length] in Hlen.
    pose proof (nth_error_lt _ _ _ Hi) as Hlt.
    assert (Hnr0 : is_restart c0 = false) by (apply Hnr; left; reflexivity).
    assert (Hp : exists o1, poll s i w0 = (set_op s i o1, [outcome c0])
                   /\ kd o1 = Multi /\ st o1 = Done (rs ++ [c]) /\ freed o1 = freed o
                   /\ res_live o1 = res_live o /\ attempts o1 = attempts o).
    { unfold poll. rewrite Hi, Hs, Hk. cbn [app]. unfold outcome.
      destruct (0 <=? res c0)%Z; [|rewrite Hnr0]; eexists; (split; [reflexivity|]); op_cbn; auto. }
    destruct Hp as (o1 & Ep & B1 & B2 & B3 & B4 & B5). rewrite Ep.
    assert (Hi1 : nth_error (ops (set_op s i o1)) i = Some o1)
      by (rewrite nth_error_set_op, Nat.eqb_refl by exact Hlt; reflexivity).
    specialize (IH (set_op s i o1) i o1 c ws w Hi1 B1 B2
                   (fun x Hx => Hnr x (or_intror Hx)) Hr ltac:(lia)).
    cbv zeta in IH. destruct (run step (set_op s i o1) (map (Poll i) (ws ++ [w]))) as [s2 o2].
    cbn [fst snd] in *. destruct IH as (Hout & o' & Ho' & C1 & C2 & C3). split.
    + cbn [map app]. rewrite Hout. reflexivity.
    + exists o'. split; [exact Ho'|]. split; [congruence|]. split; [congruence|].
      rewrite has_room_set_op in C3. cbn [set_op sq blocked] in C3. rewrite B5 in C3. exact C3.
Qed.

Lemma poll_single_no_restart_err s i w o e :
  nth_error (ops s) i = Some o -> kd o = Single -> In (OErr e) (snd (poll s i w)) ->
  restart_code e = false.
Proof.
  intros Hi Hk. unfold poll. rewrite Hi, Hk.
  assert (Hps : forall o1, In (OErr e) (snd (poll_start s i o1 w)) -> restart_code e = false).
  { intros o1. unfold poll_start. destruct (has_room s); cbn; intuition discriminate. }
  destruct (st o) as [|rs|rs| |]; [apply Hps| | | |]; try (cbn; intuition discriminate).
  destruct rs as [|c rs]; [cbn; intuition discriminate|].
  destruct (0 <=? res c)%Z; [cbn; intuition discriminate|].
  destruct (is_restart c) eqn:Er; [apply Hps|]. cbn [snd]. intros [E|[]]. inversion E; subst.
  exact Er.
Qed.

(** ** K2m: interruptions sit only at the end of a multishot result queue *)

Definition no_restart (rs : list cqe) : Prop := forall c, In c rs -> is_restart c = false.

Definition k_op (o : op) : Prop :=
  kd o = Multi ->
  match st o with
  | Running rs => no_restart rs
  | Done rs => no_restart (removelast rs)
  | _ => True
  end.

Definition KInv (s : sys) : Prop :=
  (forall i o, nth_error (ops s) i = Some o -> k_op o)
  /\ (forall i c, In (Some i, c) (cq s) -> is_restart c = true -> more c = false).

Lemma no_restart_nil : no_restart [].
Proof. intros c []. Qed.

Lemma removelast_cons_in {A} (x y : A) l : In y (removelast l) -> In y (removelast (x :: l)).
Proof. destruct l as [|z l]; [intros []|]. intros H. cbn [removelast] in *. right. exact H. Qed.

Lemma removelast_head {A} (x y : A) l : In x (removelast (x :: y :: l)).
Proof. left. reflexivity. Qed.

Definition k_rel (o o' : op) : Prop := k_op o -> k_op o'.

Lemma poll_start_k s i o o1 w :
  nth_error (ops s) i = Some o -> st o1 = NotStarted -> ops_rel k_rel s (fst (poll_start s i o1 w)).
Proof.
  assert (Hr : forall o, k_rel o o) by (unfold k_rel; auto).
  intros Hi Hs. unfold poll_start. destruct (has_room s); cbn [fst].
  - eapply ops_rel_ext; [|apply (ops_rel_set_op k_rel s i o); [exact Hr|exact Hi|]]; [reflexivity|].
    unfold k_rel, k_op. cbn. intros _ _. destruct (kd o1); auto using no_restart_nil.
    intros c [E|[]]. subst c. reflexivity.
  - eapply ops_rel_ext; [|apply (ops_rel_set_op k_rel s i o); [exact Hr|exact Hi|]]; [reflexivity|].
    unfold k_rel, k_op. rewrite Hs. auto.
Qed.

Lemma poll_k s i w : ops_rel k_rel s (fst (poll s i w)).
Proof.
  assert (Hr : forall o, k_rel o o) by (unfold k_rel; auto).
  unfold poll. destruct (nth_error (ops s) i) as [o|] eqn:Hi; [|apply ops_rel_same; auto].
  assert (Hset : forall o', k_rel o o' -> ops_rel k_rel s (set_op s i o')).
  { intros o' Ho'. apply (ops_rel_set_op k_rel s i o); auto. }
  assert (Hid : ops_rel k_rel s s) by (apply ops_rel_same; auto).
  assert (Htriv : forall o', (forall rs, st o' <> Running rs) -> (forall rs, st o' <> Done rs) -> k_rel o o').
  { intros o' H1 H2 _ _. destruct (st o'); auto; [elim (H1 rs)|elim (H2 rs)]; reflexivity. }
  destruct (st o) eqn:Est.
  - apply (poll_start_k s i o); auto.
  - destruct (kd o) eqn:Ek; [|destruct rs as [|c rs']]; cbn [fst]; apply Hset;
      unfold k_rel, k_op; op_cbn; rewrite Est; auto.
    intros H Hm c' Hc'. apply (H Hm). right. exact Hc'.
  - assert (Hre : ops_rel k_rel s (fst (poll_start s i (new_attempt (with_st o NotStarted)) w)))
      by (apply (poll_start_k s i o); auto).
    assert (Htl : forall c rs' x, st o = Done (c :: rs') ->
              k_rel o (hand_out (with_st o (Done rs')) x)).
    { intros c rs' x Hs. unfold k_rel, k_op. op_cbn. rewrite Hs. intros H Hm c' Hc'.
      apply (H Hm). apply removelast_cons_in. exact Hc'. }
    destruct (kd o) eqn:Ek; destruct rs as [|c rs']; cbn [fst]; auto.
    + destruct (0 <=? res c)%Z; [apply Hset, Htriv; op_cbn; discriminate|].
      destruct (is_restart c); [exact Hre|apply Hset, Htriv; op_cbn; discriminate].
    + apply Hset, Htriv; op_cbn; discriminate.
    + destruct (0 <=? res c)%Z; [apply Hset, (Htl c rs'); exact Est|].
      destruct (is_restart c); [|apply Hset, (Htl c rs'); exact Est].
      destruct rs'; [exact Hre|]. apply Hset. unfold k_rel, k_op. op_cbn. rewrite Est.
      intros H Hm c' Hc'. apply (H Hm). apply removelast_cons_in. exact Hc'.
  - exact Hid.
  - exact Hid.
Qed.

Lemma drop_k s i : ops_rel k_rel s (fst (drop_op s i)).
Proof.
  assert (Hr : forall o, k_rel o o) by (unfold k_rel; auto).
  unfold drop_op. destruct (nth_error (ops s) i) as [o|] eqn:Hi; [|apply ops_rel_same; auto].
  destruct (st o) eqn:Est; cbn [fst]; try (apply ops_rel_same; auto; fail);
    try (apply (ops_rel_set_op k_rel s i o); auto; unfold k_rel, k_op; op_cbn; rewrite Est; auto; fail).
  intros j. rewrite nth_error_set_op by (destruct (has_room s); cbn [push_sq ops]; eapply nth_error_lt; eauto).
  replace (ops (if has_room s then push_sq s (Cancel i) else s)) with (ops s)
    by (destruct (has_room s); reflexivity).
  destruct (Nat.eqb_spec j i) as [->|]; [rewrite Hi; unfold k_rel, k_op; op_cbn; auto|].
  destruct (nth_error (ops s) j); auto.
Qed.

Lemma KInv_of_rel s s' :
  KInv s -> ops_rel k_rel s s' -> cq s' = cq s -> KInv s'.
Proof.
  intros [H1 H2] Hrel Hcq. split; [|rewrite Hcq; exact H2].
  intros i o' Hi'. specialize (Hrel i). rewrite Hi' in Hrel.
  destruct (nth_error (ops s) i) as [o|] eqn:Hi; [|contradiction]. apply Hrel. exact (H1 i o Hi).
Qed.

Lemma poll_cq s i w : cq (fst (poll s i w)) = cq s.
Proof.
  unfold poll. destruct (nth_error (ops s) i) as [o|]; [|reflexivity].
  assert (Hps : forall o1, cq (fst (poll_start s i o1 w)) = cq s)
    by (intros o1; unfold poll_start; destruct (has_room s); reflexivity).
  destruct (st o); auto.
  - destruct (kd o); [|destruct rs]; reflexivity.
  - destruct (kd o); destruct rs as [|c rs']; try reflexivity.
    + destruct (0 <=? res c)%Z; [reflexivity|]. destruct (is_restart c); [apply Hps|reflexivity].
    + destruct (0 <=? res c)%Z; [reflexivity|]. destruct (is_restart c); [|reflexivity].
      destruct rs'; [apply Hps|reflexivity].
Qed.

Lemma drop_cq s i : cq (fst (drop_op s i)) = cq s.
Proof.
  unfold drop_op. destruct (nth_error (ops s) i) as [o|]; [|reflexivity].
  destruct (st o); try reflexivity. destruct (has_room s); reflexivity.
Qed.

Lemma Inv_cq_status s i c :
  Inv s -> In (Some i, c) (cq s) ->
  exists o, nth_error (ops s) i = Some o /\ freed o = false
            /\ ((exists rs, st o = Running rs) \/ st o = Dropped).
Proof.
  intros [H1 _] Hin. assert (Hnc : ncq i (cq s) <> 0) by (apply ncq_in; eauto).
  destruct (H1 i) as [Ha _]. unfold op_inv in Ha.
  destruct (nth_error (ops s) i) as [o|]; [|lia]. exists o. split; [reflexivity|].
  destruct Ha as [Ha _]. destruct (st o); try lia.
  - split; [tauto|]. left; eauto.
  - destruct (freed o); [lia|]. auto.
Qed.

Lemma update_k s i c r :
  Inv s -> KInv s -> cq s = (Some i, c) :: r -> KInv (fst (update (pop_cq s (Some i) c r) i c)).
Proof.
  intros Hinv [K1 K2] Hcq.
  assert (Hc : is_restart c = true -> more c = false) by (apply (K2 i); rewrite Hcq; left; reflexivity).
  assert (K2' : forall j c', In (Some j, c') r -> is_restart c' = true -> more c' = false)
    by (intros j c' Hin; apply (K2 j); rewrite Hcq; right; exact Hin).
  destruct (Inv_cq_status s i c Hinv) as (o & Hi & Hfr & Hst); [rewrite Hcq; left; reflexivity|].
  split; [|rewrite update_cq; exact K2'].
  intros j oj Hj. destruct (Nat.eq_dec j i) as [->|Hji];
    [|rewrite (update_other _ _ _ _ (not_eq_sym Hji)) in Hj; exact (K1 j oj Hj)].
  revert Hj. unfold update. change (ops (pop_cq s (Some i) c r)) with (ops s). rewrite Hi.
  pose proof (nth_error_lt _ _ _ Hi) as Hlt. pose proof (K1 i o Hi) as Ko.
  destruct Hst as [(rs & Hs)|Hs]; rewrite Hs.
  - assert (Hnew : forall o', kd o' = kd o ->
              st o' = (if negb (more c) then Done (match kd o with Single => if notif c then rs else [c] | Multi => rs ++ [c] end)
                       else Running (match kd o with Single => if notif c then rs else [c] | Multi => rs ++ [c] end)) ->
              k_op o').
    { intros o' Hk' Hs'. unfold k_op. rewrite Hk', Hs'. intros Hm. unfold k_op in Ko.
      rewrite Hs in Ko. specialize (Ko Hm). rewrite Hm.
      destruct (more c) eqn:Em; cbn [negb].
      - intros x Hx. apply in_app_iff in Hx. destruct Hx as [Hx|[<-|[]]]; [auto|].
        destruct (is_restart c); [|reflexivity]. specialize (Hc eq_refl). discriminate.
      - rewrite removelast_last. exact Ko. }
    destruct (negb (more c) || _); [destruct (waker o)|]; cbn [fst];
      rewrite nth_error_set_op, Nat.eqb_refl by exact Hlt; intros E; inversion E; subst oj;
      apply Hnew; reflexivity.
  - destruct (more c); cbn [fst]; rewrite nth_error_set_op, Nat.eqb_refl by exact Hlt;
      intros E; inversion E; subst oj; unfold k_op; op_cbn; rewrite Hs; auto.
Qed.

Lemma process_k f : forall s, Inv s -> KInv s -> KInv (fst (process f s)).
Proof.
  induction f as [|f IH]; intros s Hinv Hk; cbn [process]; [exact Hk|].
  destruct (cq s) as [|[t c] r] eqn:Hcq; [exact Hk|]. destruct t as [i|].
  - pose proof (update_Inv s i c r Hinv Hcq) as Hu. pose proof (update_k s i c r Hinv Hk Hcq) as Hk'.
    destruct (update (pop_cq s (Some i) c r) i c) as [s1 o1]. cbn [fst] in *.
    specialize (IH s1 Hu Hk'). destruct (process f s1) as [s2 o2]. exact IH.
  - apply IH; [apply Inv_pop_none; assumption|]. destruct Hk as [K1 K2]. split; [exact K1|].
    cbn [pop_cq cq]. intros j c' Hin. apply (K2 j). rewrite Hcq. right. exact Hin.
Qed.

Lemma kconsume_k s e : KInv s -> KInv (kconsume s e).
Proof.
  intros [K1 K2]. split; [rewrite kconsume_ops; exact K1|].
  intros j c. destruct e as [i|i]; cbn [kconsume]; [apply K2|].
  destruct (existsb (Nat.eqb i) (inflight s)).
  - destruct (nth_error (ops s) i) as [o|]; [|apply K2]. destruct (cancelable o); cbn [post set_inflight cq];
      rewrite in_snoc; (intros [H|H]; [apply (K2 j c H)|inversion H; reflexivity]).
  - cbn [post cq]. rewrite in_snoc. intros [H|H]; [apply (K2 j c H)|inversion H].
Qed.

Lemma kconsume_all_k q : forall s, KInv s -> KInv (fold_left kconsume q s).
Proof. induction q as [|e q IH]; intros s Hk; cbn [fold_left]; [exact Hk|]. apply IH, kconsume_k, Hk. Qed.

Lemma phase1_k s : KInv s -> KInv (fst (phase1 s)).
Proof.
  intros Hk. unfold phase1. destruct (cq s); [|exact Hk].
  assert (H : KInv (fold_left kconsume (sq s) (take_sq s))) by (apply kconsume_all_k; exact Hk).
  destruct (negb _ || negb _); [|exact H]. exact H.
Qed.

Lemma step_k s e : Inv s -> KInv s -> ev_ok_k2m s e = true -> KInv (fst (step s e)).
Proof.
  intros Hinv Hk Hok. destruct e as [i w|i| |i c]; cbn [step fst].
  - apply (KInv_of_rel s); [exact Hk|apply poll_k|apply poll_cq].
  - apply (KInv_of_rel s); [exact Hk|apply drop_k|apply drop_cq].
  - rewrite ring_poll_phases. pose proof (phase1_k s Hk) as H1. pose proof (phase1_Inv s Hinv) as H2.
    destruct (phase1 s) as [s1 o1]. cbn [fst] in *.
    pose proof (process_k (length (cq s1)) s1 H2 H1) as Hp.
    destruct (process (length (cq s1)) s1) as [s2 o2]. exact Hp.
  - unfold ev_ok_k2m in Hok. apply andb_true_iff in Hok. destruct Hok as [_ Hc].
    destruct Hk as [K1 K2]. unfold kpost. destruct (existsb _ _); [|split; assumption].
    split; [destruct (more c); exact K1|]. intros j c'.
    assert (E : cq (post (if more c then s else set_inflight s (remove_first i (inflight s))) (Some i, c))
                = cq s ++ [(Some i, c)]) by (destruct (more c); reflexivity).
    rewrite E, in_snoc. intros [H|H]; [apply (K2 j c' H)|]. injection H as Hj Hc'. subst c'. intros Hr.
    rewrite Hr in Hc. destruct (more c); [discriminate|reflexivity].
Qed.

Lemma KInv_init cap0 kinds : KInv (init cap0 kinds).
Proof.
  split; [|intros i c []]. intros i o Hi. cbn [init ops] in Hi.
  apply nth_error_In, in_map_iff in Hi. destruct Hi as ([k c] & <- & _). unfold k_op. cbn. auto.
Qed.

(** Under K2m a multishot poll never reports an interruption and the restart path never
    panics; a poll panics only on a finished multishot stream (polled again after [OEnd]). *)
Lemma poll_k2m_outputs s i w o :
  nth_error (ops s) i = Some o -> k_op o -> kd o = Multi ->
  (forall e, In (OErr e) (snd (poll s i w)) -> restart_code e = false)
  /\ (In OPanic (snd (poll s i w)) -> (st o = Dropped \/ st o = Complete) /\ snd (poll s i w) = [OPanic]).
Proof.
  intros Hi Hk Hm. unfold poll. rewrite Hi. unfold k_op in Hk. specialize (Hk Hm).
  assert (Hps : forall o1, (forall e, In (OErr e) (snd (poll_start s i o1 w)) -> restart_code e = false)
                  /\ (In OPanic (snd (poll_start s i o1 w)) ->
                      (st o = Dropped \/ st o = Complete) /\ snd (poll_start s i o1 w) = [OPanic])).
  { intros o1. unfold poll_start. destruct (has_room s); cbn; intuition discriminate. }
  destruct (st o) eqn:Est; auto.
  - rewrite Hm. destruct rs as [|c rs']; [cbn; intuition discriminate|]. cbn [snd].
    assert (Hc : is_restart c = false) by (apply Hk; left; reflexivity).
    destruct (res c <? 0)%Z; (split; [intros e [E|[]]|intros [E|[]]]); inversion E; subst; exact Hc.
  - rewrite Hm. destruct rs as [|c rs']; [cbn; intuition discriminate|].
    destruct (0 <=? res c)%Z; [cbn; intuition discriminate|].
    destruct (is_restart c) eqn:Er.
    + destruct rs' as [|c' rs'']; [apply Hps|]. exfalso.
      assert (is_restart c = false) by (apply Hk; apply removelast_head). congruence.
    + cbn [snd]. split; [intros e [E|[]]|intros [E|[]]]; inversion E; subst. exact Er.
  - cbn. intuition discriminate.
  - cbn. intuition discriminate.
Qed.

(** ** Main proofs *)

Definition kinds_fixed (s0 s : sys) : Prop := forall i, kind_at s i = kind_at s0 i.

Lemma kinds_fixed_step s0 s e : kinds_fixed s0 s -> kinds_fixed s0 (fst (step s e)).
Proof.
  intros H i. rewrite <- (H i). unfold kind_at. pose proof (step_stable s e i) as Hs.
  destruct (nth_error (ops s) i) as [o|], (nth_error (ops (fst (step s e))) i) as [o'|];
    try contradiction; [|reflexivity]. cbn. destruct Hs as (Hk & _). congruence.
Qed.

Lemma restart_transparent_holds : restart_transparent.
Proof.
  split; [exact single_restart|]. split; [exact multi_restart|].
  split; [exact multi_stream_restarts|]. split; [|split].
  - intros cap0 kinds es Hv s i o rs Hi Hs Hf.
    pose proof (Inv_op s i o (reachable_Inv cap0 kinds es Hv) Hi) as Ho. unfold op_inv in Ho.
    destruct Ho as [_ Hl]. apply Hl; [exact Hf|]. rewrite Hs. discriminate.
  - intros cap0 kinds es i w out e Hin Hkind.
    pose (s0 := init cap0 kinds).
    pose (Q := fun (ev0 : ev) (out0 : list obs) =>
                 match ev0 with
                 | Poll j _ => kind_at s0 j = Some Single ->
                               forall e0, In (OErr e0) out0 -> restart_code e0 = false
                 | _ => True
                 end).
    assert (HQ : Q (Poll i w) out).
    { apply (trace_forall (fun _ _ => True) (fun _ _ => True) (kinds_fixed s0) Q) with (es := es) (s := s0); auto.
      - intros s e0 H _. split; [apply kinds_fixed_step; assumption|].
        destruct e0 as [j w0|j| |j c]; cbn [Q]; auto. intros Hk e0. cbn [step snd].
        rewrite <- (H j) in Hk. unfold kind_at in Hk.
        destruct (nth_error (ops s) j) as [oj|] eqn:Hj; [|discriminate]. cbn in Hk.
        apply (poll_single_no_restart_err s j w0 oj); congruence.
      - intros j. reflexivity. }
    exact (HQ Hkind e).
  - intros cap0 kinds es i w out Hv Hin.
    pose (s0 := init cap0 kinds).
    pose (P := fun s => Inv s /\ KInv s /\ kinds_fixed s0 s /\ all_slots_ok s).
    pose (Q := fun (ev0 : ev) (out0 : list obs) =>
                 match ev0 with
                 | Poll j _ => (forall e0, In (OErr e0) out0 -> restart_code e0 = false)
                               /\ (In OPanic out0 -> kind_at s0 j = Some Multi /\ out0 = [OPanic])
                 | _ => True
                 end).
    assert (HQ : Q (Poll i w) out).
    { apply (trace_forall valid_k2m (fun s e0 => ev_ok_k2m s e0 = true) P Q) with (es := es) (s := s0); auto.
      - intros s e0 (Hi & Hk & Hf & Hsl) Hok.
        assert (Hok' : ev_ok s e0 = true) by (unfold ev_ok_k2m in Hok; apply andb_true_iff in Hok; tauto).
        split; [split; [apply step_Inv; assumption|split; [apply step_k; assumption|
                  split; [apply kinds_fixed_step; assumption|apply step_all_slots_ok; assumption]]]|].
        destruct e0 as [j w0|j| |j c]; cbn [Q]; auto. cbn [step snd].
        cbn [ev_ok] in Hok'. destruct (nth_error (ops s) j) as [oj|] eqn:Hj; [|discriminate].
        pose proof (Hf j) as Hkj. unfold kind_at in Hkj at 1. rewrite Hj in Hkj. cbn in Hkj.
        destruct (kd oj) eqn:Ek.
        + split; [intros e0; apply (poll_single_no_restart_err s j w0 oj); assumption|].
          (* a valid poll of a single-shot operation does not panic, except on [Done []],
             which the result slot of a single-shot operation never is *)
          intros Hp. exfalso. revert Hp. unfold poll. rewrite Hj, Ek.
          assert (Hps : forall o1, ~ In OPanic (snd (poll_start s j o1 w0)))
            by (intros o1; unfold poll_start; destruct (has_room s); cbn; intuition discriminate).
          unfold is_dropped, is_single, is_complete in Hok'. rewrite Ek in Hok'.
          destruct (st oj) eqn:Es.
          * apply Hps.
          * cbn. intuition discriminate.
          * pose proof (Hsl j oj Hj Ek) as Hl. rewrite Es in Hl.
            destruct rs as [|c rs]; [discriminate|].
            destruct (0 <=? res c)%Z; [cbn; intuition discriminate|].
            destruct (is_restart c); [apply Hps|cbn; intuition discriminate].
          * cbn in Hok'. discriminate.
          * destruct (freed oj); cbn in Hok'; discriminate.
        + destruct Hk as [K1 _].
          destruct (poll_k2m_outputs s j w0 oj Hj (K1 j oj Hj) Ek) as [A B]. split; [exact A|].
          intros Hp. destruct (B Hp) as [_ Ho]. split; [congruence|exact Ho].
      - split; [apply Inv_init|split; [apply KInv_init|split; [intros j; reflexivity|apply init_all_slots_ok]]]. }
    exact HQ.
Qed.

(** K2 made explicit: once the kernel has posted a completion without MORE for a request, no
    further completion for that attempt is valid kernel behaviour (the request has left
    [inflight], and [ev_ok] admits completions only for requests in flight). *)
Lemma Inv_ninfl_le1 s i : Inv s -> ninfl i (inflight s) <= 1.
Proof.
  intros [H1 _]. destruct (H1 i) as [Ha _]. unfold op_inv in Ha.
  destruct (nth_error (ops s) i) as [o|]; [|lia]. destruct Ha as [Ha _].
  destruct (st o); try lia. destruct (freed o); lia.
Qed.

Lemma final_completion_ends_attempt s i c c' :
  Inv s -> ev_ok s (KPost i c) = true -> more c = false ->
  ev_ok (kpost s i c) (KPost i c') = false.
Proof.
  intros Hinv Hok Hm. cbn [ev_ok] in *. apply andb_true_iff in Hok. destruct Hok as [Hin _].
  unfold kpost. rewrite Hin, Hm. cbn [post set_inflight inflight].
  assert (H0 : ninfl i (remove_first i (inflight s)) = 0).
  { rewrite ninfl_remove_first_same by (apply existsb_ninfl; exact Hin).
    pose proof (Inv_ninfl_le1 s i Hinv). lia. }
  destruct (existsb (Nat.eqb i) (remove_first i (inflight s))) eqn:E; [|reflexivity].
  apply existsb_ninfl in E. contradiction.
Qed.

(** ** Witnesses outside K2m, and non-vacuity *)

Lemma c09_multi_interruption_with_more_surfaces_refuted : c09_multi_interruption_with_more_surfaces.
Proof.
  exists [Poll 0 1%N; RingPoll; KPost 0 {| res := -4; more := true; notif := false |}; RingPoll;
          Poll 0 2%N].
  vm_compute. repeat split.
Qed.

Lemma multi_restart_with_queued_results_panics_refuted : multi_restart_with_queued_results_panics.
Proof.
  exists [Poll 0 1%N; RingPoll; KPost 0 {| res := -4; more := true; notif := false |};
          KPost 0 {| res := 7; more := false; notif := false |}; RingPoll; Poll 0 2%N].
  vm_compute. repeat split.
Qed.

(** Neither witness is a K2m history. *)
Lemma witnesses_are_outside_k2m :
  ~ valid_k2m (init 4 [(Multi, true)])
      [Poll 0 1%N; RingPoll; KPost 0 {| res := -4; more := true; notif := false |}].
Proof. vm_compute. intros (_ & _ & H & _). discriminate H. Qed.

(** Non-vacuity: K2m histories with restarts — a single-shot read interrupted twice (the
    second re-issue parked because the one-slot queue is full), a two-step send interrupted at
    its first completion, a multishot stream interrupted after two results — and what the
    callers observe: only the outcome of the last attempt. *)
Example restart_histories :
  (valid_k2m (init 1 [(Single, true); (Single, true)])
     [Poll 0 1%N; RingPoll; KPost 0 {| res := -4; more := false; notif := false |}; RingPoll;
      Poll 1 5%N; Poll 0 2%N; RingPoll; Poll 0 3%N; RingPoll;
      KPost 0 {| res := 12; more := false; notif := false |}; RingPoll; Poll 0 4%N]
   /\ snd (run step (init 1 [(Single, true); (Single, true)])
        [Poll 0 1%N; RingPoll; KPost 0 {| res := -4; more := false; notif := false |}; RingPoll;
         Poll 1 5%N; Poll 0 2%N; RingPoll; Poll 0 3%N; RingPoll;
         KPost 0 {| res := 12; more := false; notif := false |}; RingPoll; Poll 0 4%N])
      = [OPending; OConsumed (Submit 0); OWake 1%N; OPending; OPending; OConsumed (Submit 1);
         OWake 2%N; OPending; OConsumed (Submit 0); OWake 3%N; OReady 12])
  /\ (valid_k2m (init 2 [(Single, true)])
        [Poll 0 1%N; RingPoll; KPost 0 {| res := -125; more := false; notif := false |}; RingPoll;
         Poll 0 1%N; RingPoll; KPost 0 {| res := 30; more := true; notif := false |};
         KPost 0 {| res := 0; more := false; notif := true |}; RingPoll; Poll 0 1%N]
      /\ snd (run step (init 2 [(Single, true)])
           [Poll 0 1%N; RingPoll; KPost 0 {| res := -125; more := false; notif := false |}; RingPoll;
            Poll 0 1%N; RingPoll; KPost 0 {| res := 30; more := true; notif := false |};
            KPost 0 {| res := 0; more := false; notif := true |}; RingPoll; Poll 0 1%N])
         = [OPending; OConsumed (Submit 0); OWake 1%N; OPending; OConsumed (Submit 0); OWake 1%N;
            OReady 30])
  /\ (valid_k2m (init 2 [(Multi, true)])
        [Poll 0 1%N; RingPoll; KPost 0 {| res := 5; more := true; notif := false |};
         KPost 0 {| res := 6; more := true; notif := false |};
         KPost 0 {| res := -4; more := false; notif := false |}; RingPoll;
         Poll 0 2%N; Poll 0 2%N; Poll 0 2%N; RingPoll]
      /\ snd (run step (init 2 [(Multi, true)])
           [Poll 0 1%N; RingPoll; KPost 0 {| res := 5; more := true; notif := false |};
            KPost 0 {| res := 6; more := true; notif := false |};
            KPost 0 {| res := -4; more := false; notif := false |}; RingPoll;
            Poll 0 2%N; Poll 0 2%N; Poll 0 2%N; RingPoll])
         = [OPending; OConsumed (Submit 0); OWake 1%N; OReady 5; OReady 6; OPending;
            OConsumed (Submit 0)]).
Proof. vm_compute. repeat split. Qed.

(** Proofs about Model/SqRing.v (property C04). *)
From A10 Require Import Base.Word Base.Run Model.SqRing.
From A10 Require Proofs.CqRingProofs.
From Coq Require Import ZifyN ZifyBool ZifyNat Permutation.
Ltac Zify.zify_post_hook ::= Z.div_mod_to_equations.

(** Ring parameters: [n] entries, a divisor of 2^32 (hence a power of two) strictly below 2^32
    ([submissions_len : u32]); [h0] the value both counters had when the ring was handed over
    (any 32-bit value). *)
Definition params_ok (n m h0 : N) : Prop := n * m = two32 /\ 0 < n /\ n < two32 /\ h0 < two32.

(** Published and not yet consumed, in publication order. *)
Definition pending_ghost (s : sq) : list N := skipn (N.to_nat (g_h s)) (g_accepted s).

(** The scheduling points at which a thread holds the submission lock. *)
Definition locked (p : pc) : bool :=
  match p with PLoadH2 | PLoadT2 | PFill | PStore => true | _ => false end.

(** What is known about thread [i] (in state [t]) when the shared state is [s].
    - a thread that is not done has a current payload;
    - it is at a locked point iff it is the lock holder (hence at most one such thread);
    - the head it loaded under the lock is an *old* head: some ghost value [gh <= g_h], not
      more than [n] behind the tail (the tail cannot move: the thread holds the lock);
    - once past the locked check, its local tail is the tail and the slot it is about to write,
      [(h0 + g_t) mod n], is free: fewer than [n] entries are pending. *)
Definition thread_ok (n h0 : N) (s : sq) (i : nat) (t : thread) : Prop :=
  (pcv t <> PDone -> todo t <> [])
  /\ (locked (pcv t) = true <-> holder s = Some i)
  /\ (pcv t = PLoadT2 ->
      exists gh, gh <= g_h s /\ g_t s - gh <= n /\ lh t = (h0 + gh) mod two32)
  /\ (pcv t = PFill \/ pcv t = PStore -> lt t = ktail s /\ g_t s - g_h s < n).

(** The invariant tying the 32-bit words, the slot array and the lock to the unbounded
    history. *)
Definition Inv (n h0 : N) (s : sq) : Prop :=
  len s = n
  /\ khead s = (h0 + g_h s) mod two32
  /\ ktail s = (h0 + g_t s) mod two32
  /\ g_h s <= g_t s
  /\ g_t s - g_h s <= n
  /\ N.of_nat (length (g_accepted s)) = g_t s
  /\ (forall i, g_h s <= i -> i < g_t s ->
        slots s ((h0 + i) mod n) = Entry (nth (N.to_nat i) (g_accepted s) 0))
  /\ consumed s = map Entry (firstn (N.to_nat (g_h s)) (g_accepted s))
  /\ (forall i, holder s = Some i -> (i < length (threads s))%nat)
  /\ (forall i t, nth_error (threads s) i = Some t -> thread_ok n h0 s i t).

(** Every payload handed to [add] so far or still to be handed: published, parked, panicked in
    its fill closure, or to do. *)
Definition acct (s : sq) : list N :=
  g_accepted s ++ blocked s ++ panicked s ++ concat (map todo (threads s)).

(** ** Statements (proved below). *)

(** C04 main: in every reachable state (any number of threads, any interleaving with the
    kernel, any start value of the counters) what the kernel read is exactly the accepted
    payloads, in publication order, each once, none of them partially written, and never more
    than [n] entries are pending. *)
Definition sq_exactly_once_unmodified : Prop :=
  forall n m h0 progs es, params_ok n m h0 ->
    let s := fst (run step (init n h0 progs) es) in
    Inv n h0 s
    /\ consumed s = map Entry (firstn (N.to_nat (g_h s)) (g_accepted s))
    /\ (forall x, In x (consumed s) -> x <> Torn)
    /\ g_t s - g_h s <= n.

(** Every payload is accounted for: published, parked on the blocked list, abandoned because
    its fill closure panicked, or not yet added. *)
Definition sq_every_add_accounted : Prop :=
  forall n m h0 progs es, params_ok n m h0 ->
    let s := fst (run step (init n h0 progs) es) in
    Permutation (g_accepted s ++ blocked s ++ panicked s ++ concat (map todo (threads s)))
                (concat progs).

(** A submission whose fill closure panicked (after the slot was reset) is never published:
    its payload is not among the accepted ones and the kernel never reads it. Payloads are
    told apart by their value, hence the distinctness hypothesis. *)
Definition sq_panicked_never_published : Prop :=
  forall n m h0 progs es, params_ok n m h0 ->
    let s := fst (run step (init n h0 progs) es) in
    forall p, In p (panicked s) -> NoDup (concat progs) ->
      ~ In p (g_accepted s) /\ ~ In (Entry p) (consumed s).

(** No step of any thread touches a slot holding a published entry the kernel has not
    consumed. *)
Definition sq_never_overwrites_pending : Prop :=
  forall n m h0 s i j, params_ok n m h0 -> Inv n h0 s ->
    g_h s <= j -> j < g_t s ->
    slots (tstep s i) ((h0 + j) mod n) = slots s ((h0 + j) mod n).

(** When the kernel has caught up with the tail it has consumed everything accepted. *)
Definition sq_drained_means_all_delivered : Prop :=
  forall n m h0 s, params_ok n m h0 -> Inv n h0 s -> khead s = ktail s ->
    consumed s = map Entry (g_accepted s).

(** ** Arithmetic (shared with the completion ring) *)
Ltac alia := repeat match goal with H : _ = _ mod _ |- _ => clear H end; lia.

Definition mask_is_mod := CqRingProofs.mask_is_mod.
Definition sub_off := CqRingProofs.sub_off.
Definition eq_off := CqRingProofs.eq_off.
Definition add1_off := CqRingProofs.add1_off.
Definition slot_off := CqRingProofs.slot_off.
Definition slots_distinct_off := CqRingProofs.slots_distinct_off.
Definition firstn_S_snoc := @CqRingProofs.firstn_S_snoc.
Definition firstn_app_le := @CqRingProofs.firstn_app_le.
Definition nth_snoc := @CqRingProofs.nth_snoc.

(** ** Lists: replacing the [i]-th thread *)
Lemma nth_error_upd {A} (x : A) : forall (l : list A) i j, (i < length l)%nat ->
  nth_error (firstn i l ++ x :: skipn (S i) l) j = if Nat.eqb j i then Some x else nth_error l j.
Proof.
  induction l as [|a l IH]; intros i j Hi; cbn [length] in Hi; [lia|].
  destruct i as [|i].
  - cbn [firstn skipn app]. destruct j; reflexivity.
  - change (firstn (S i) (a :: l)) with (a :: firstn i l).
    change (skipn (S (S i)) (a :: l)) with (skipn (S i) l).
    destruct j as [|j]; cbn [app nth_error Nat.eqb]; [reflexivity|]. apply IH. lia.
Qed.

Lemma upd_length {A} (x : A) (l : list A) i : (i < length l)%nat ->
  length (firstn i l ++ x :: skipn (S i) l) = length l.
Proof.
  intros H. rewrite app_length, firstn_length. cbn [length]. rewrite skipn_length. lia.
Qed.

Lemma nth_error_split_at {A} : forall (l : list A) i t,
  nth_error l i = Some t -> l = firstn i l ++ t :: skipn (S i) l.
Proof.
  induction l as [|a l IH]; intros [|i] t H; cbn [nth_error] in H; try discriminate.
  - injection H as ->. reflexivity.
  - change (firstn (S i) (a :: l)) with (a :: firstn i l).
    change (skipn (S (S i)) (a :: l)) with (skipn (S i) l).
    cbn [app]. f_equal. apply IH. exact H.
Qed.

Lemma todo_upd (l : list thread) i t t' : nth_error l i = Some t ->
  exists A B, concat (map todo l) = A ++ todo t ++ B
    /\ concat (map todo (firstn i l ++ t' :: skipn (S i) l)) = A ++ todo t' ++ B.
Proof.
  intros H. exists (concat (map todo (firstn i l))), (concat (map todo (skipn (S i) l))).
  split.
  - rewrite (nth_error_split_at l i t H) at 1.
    rewrite map_app, concat_app. cbn [map concat]. reflexivity.
  - rewrite map_app, concat_app. cbn [map concat]. reflexivity.
Qed.

Lemma nth_skipn {A} (d : A) : forall a (l : list A) k, nth k (skipn a l) d = nth (a + k) l d.
Proof.
  induction a as [|a IH]; intros l k; [reflexivity|].
  destruct l as [|x l]; [destruct k; reflexivity|]. cbn [skipn Nat.add nth]. apply IH.
Qed.

Lemma perm_mid2 {A} (p : A) X1 X2 Y :
  Permutation (p :: X1 ++ X2 ++ Y) (X1 ++ X2 ++ p :: Y).
Proof. rewrite !app_assoc. apply Permutation_middle. Qed.

Lemma perm_mid3 {A} (p : A) X1 X2 X3 Y :
  Permutation (p :: X1 ++ X2 ++ X3 ++ Y) (X1 ++ X2 ++ X3 ++ p :: Y).
Proof. rewrite !app_assoc. apply Permutation_middle. Qed.

Lemma NoDup_app_disjoint {A} (x : A) : forall l1 l2, NoDup (l1 ++ l2) -> In x l1 -> In x l2 -> False.
Proof.
  induction l1 as [|a l1 IH]; intros l2 H H1 H2; [destruct H1|].
  cbn [app] in H. apply NoDup_cons_iff in H. destruct H as [Hn Hd].
  destruct H1 as [->|H1].
  - apply Hn. apply in_or_app. right. exact H2.
  - apply (IH l2); assumption.
Qed.

Lemma In_firstn {A} (x : A) k l : In x (firstn k l) -> In x l.
Proof. intros H. rewrite <- (firstn_skipn k l). apply in_or_app. left. exact H. Qed.

(** ** One step at a time *)
Ltac proj :=
  cbn [len khead ktail slots holder threads blocked panicked consumed g_h g_t g_accepted
       set_thread set_holder with_pc next_add pcv todo lh lt] in *.
Ltac inv_destruct H :=
  destruct H as (Hlen & Hkh & Hkt & Hle & Hcap & Hlp & Hsl & Hco & Hho & Hth).

(** [thread_ok] only looks at the lock word, the ghost counters and the tail. *)
Lemma thread_ok_frame n h0 s s' j tj :
  holder s' = holder s -> g_h s' = g_h s -> g_t s' = g_t s -> ktail s' = ktail s ->
  thread_ok n h0 s j tj -> thread_ok n h0 s' j tj.
Proof. unfold thread_ok. intros -> -> -> -> H. exact H. Qed.

(** When the lock changes hands between "free" and "held by [i]", every other thread is at an
    unlocked point, about which the invariant says nothing that depends on the shared state. *)
Lemma thread_ok_other n h0 s s' i j tj :
  j <> i -> (holder s = None \/ holder s = Some i) -> (holder s' = None \/ holder s' = Some i) ->
  thread_ok n h0 s j tj -> thread_ok n h0 s' j tj.
Proof.
  intros Hne Hs Hs' (A & B & C & D).
  assert (Hun : locked (pcv tj) = false).
  { destruct (locked (pcv tj)); [|reflexivity]. destruct B as [B _]. specialize (B eq_refl).
    destruct Hs; congruence. }
  unfold thread_ok. split; [exact A|]. split; [|split].
  - rewrite Hun. split; [discriminate|]. intros E. destruct Hs'; congruence.
  - intros E. rewrite E in Hun. discriminate.
  - intros [E|E]; rewrite E in Hun; discriminate.
Qed.

Lemma Inv_threads n h0 s s' i t t' :
  (forall j tj, nth_error (threads s) j = Some tj -> thread_ok n h0 s j tj) ->
  nth_error (threads s) i = Some t ->
  thread_ok n h0 s' i t' ->
  (forall j tj, j <> i -> thread_ok n h0 s j tj -> thread_ok n h0 s' j tj) ->
  forall j tj, nth_error (firstn i (threads s) ++ t' :: skipn (S i) (threads s)) j = Some tj ->
    thread_ok n h0 s' j tj.
Proof.
  intros Hall Hi Hme Hoth j tj Hj.
  rewrite nth_error_upd in Hj by (apply nth_error_Some; congruence).
  destruct (Nat.eqb_spec j i) as [->|Hne].
  - injection Hj as <-. exact Hme.
  - apply Hoth; auto.
Qed.

(** A step that only changes thread [i]'s own state (and possibly the blocked list). *)
Lemma Inv_local n h0 s s' i t t' :
  Inv n h0 s -> nth_error (threads s) i = Some t ->
  len s' = len s -> khead s' = khead s -> ktail s' = ktail s -> slots s' = slots s ->
  holder s' = holder s -> consumed s' = consumed s ->
  g_h s' = g_h s -> g_t s' = g_t s -> g_accepted s' = g_accepted s ->
  threads s' = firstn i (threads s) ++ t' :: skipn (S i) (threads s) ->
  thread_ok n h0 s i t' -> Inv n h0 s'.
Proof.
  intros HI Hi E1 E2 E3 E4 E5 E6 E7 E8 E9 E10 Hme. inv_destruct HI.
  assert (Hil : (i < length (threads s))%nat) by (apply nth_error_Some; congruence).
  unfold Inv. rewrite E1, E2, E3, E4, E5, E6, E7, E8, E9.
  repeat match goal with |- _ /\ _ => split end; try assumption.
  - intros k Hk. rewrite E10, upd_length by exact Hil. apply Hho. exact Hk.
  - rewrite E10. apply (Inv_threads n h0 s s' i t t'); try assumption.
    + apply (thread_ok_frame n h0 s s'); assumption.
    + intros j tj _. apply thread_ok_frame; assumption.
Qed.

(** The slot a thread past the locked check is about to write. *)
Lemma idx_is n m h0 s t :
  params_ok n m h0 -> Inv n h0 s -> lt t = ktail s ->
  N.land (lt t) (len s - 1) = (h0 + g_t s) mod n.
Proof.
  intros (Hnm & Hn0 & Hn32 & Hh0) HI Hlt. inv_destruct HI.
  rewrite Hlen, (mask_is_mod n m), Hlt, Hkt, (slot_off n m) by assumption. reflexivity.
Qed.

(** ... is none of the slots holding a pending entry. *)
Lemma idx_free n m h0 s t j :
  params_ok n m h0 -> Inv n h0 s -> lt t = ktail s -> g_t s - g_h s < n ->
  g_h s <= j -> j < g_t s ->
  ((h0 + j) mod n =? N.land (lt t) (len s - 1)) = false.
Proof.
  intros Hp HI Hlt Hroom Hj1 Hj2. rewrite (idx_is n m h0 s t Hp HI Hlt).
  destruct Hp as (Hnm & Hn0 & Hn32 & Hh0).
  apply N.eqb_neq. apply slots_distinct_off; lia.
Qed.

(** The locked fullness test is exact enough: it passes only when a slot is free. *)
Lemma locked_check_room n m h0 s t :
  params_ok n m h0 -> Inv n h0 s ->
  (exists gh, gh <= g_h s /\ g_t s - gh <= n /\ lh t = (h0 + gh) mod two32) ->
  is_full (lh t) (ktail s) (len s) = false -> g_t s - g_h s < n.
Proof.
  intros (Hnm & Hn0 & Hn32 & Hh0) HI (gh & G1 & G2 & G3) Hf. inv_destruct HI.
  unfold is_full in Hf. rewrite G3, Hkt, Hlen, sub_off in Hf by alia.
  apply N.leb_gt in Hf. alia.
Qed.

Lemma Inv_tstep n m h0 s i : params_ok n m h0 -> Inv n h0 s -> Inv n h0 (tstep s i).
Proof.
  intros Hp HI. unfold tstep, tstep_with.
  destruct (nth_error (threads s) i) as [t|] eqn:Hi; [|exact HI].
  assert (Hil : (i < length (threads s))%nat) by (apply nth_error_Some; congruence).
  pose proof HI as HI0. inv_destruct HI.
  destruct (Hth i t Hi) as (Htodo & Hlock & HT2 & HFS).
  destruct (pcv t) eqn:Epc; cbn [locked] in Hlock.
  - (* POpLock *)
    apply (Inv_local n h0 s _ i t (with_pc t PLoadH1)); try reflexivity; try assumption.
    unfold thread_ok; proj. split; [intros _; apply Htodo; discriminate|].
    split; [exact Hlock|]. split; [discriminate|]. intros [E|E]; discriminate.
  - (* PLoadH1 *)
    eapply (Inv_local n h0 s _ i t); try reflexivity; try assumption.
    unfold thread_ok; proj. split; [intros _; apply Htodo; discriminate|].
    split; [exact Hlock|]. split; [discriminate|]. intros [E|E]; discriminate.
  - (* PLoadT1 *)
    destruct (is_full (lh t) (ktail s) (len s));
      (eapply (Inv_local n h0 s _ i t); try reflexivity; try assumption;
       unfold thread_ok; proj; (split; [intros _; apply Htodo; discriminate|]);
       (split; [exact Hlock|]); (split; [discriminate|]); intros [E|E]; discriminate).
  - (* PLockSub *)
    destruct (holder s) as [k|] eqn:Eh.
    + eapply (Inv_local n h0 s _ i t); try reflexivity; try assumption.
      unfold thread_ok; proj. split; [intros _; apply Htodo; discriminate|].
      split; [rewrite Eh; exact Hlock|]. split; [discriminate|]. intros [E|E]; discriminate.
    + unfold Inv; proj. repeat match goal with |- _ /\ _ => split end; try assumption.
      * intros k Hk. injection Hk as <-. rewrite upd_length by exact Hil. exact Hil.
      * eapply (Inv_threads n h0 s _ i t); try eassumption; try reflexivity.
        -- unfold thread_ok; proj. split; [intros _; apply Htodo; discriminate|].
           split; [split; reflexivity|]. split; [discriminate|]. intros [E|E]; discriminate.
        -- intros j tj Hne. apply (thread_ok_other n h0 s _ i j tj Hne); [left; exact Eh|].
           right; reflexivity.
  - (* PSpin *)
    destruct (holder s) as [k|] eqn:Eh.
    + eapply (Inv_local n h0 s _ i t); try reflexivity; try assumption.
      unfold thread_ok; proj. split; [intros _; apply Htodo; discriminate|].
      split; [rewrite Eh; exact Hlock|]. split; [discriminate|]. intros [E|E]; discriminate.
    + unfold Inv; proj. repeat match goal with |- _ /\ _ => split end; try assumption.
      * intros k Hk. injection Hk as <-. rewrite upd_length by exact Hil. exact Hil.
      * eapply (Inv_threads n h0 s _ i t); try eassumption; try reflexivity.
        -- unfold thread_ok; proj. split; [intros _; apply Htodo; discriminate|].
           split; [split; reflexivity|]. split; [discriminate|]. intros [E|E]; discriminate.
        -- intros j tj Hne. apply (thread_ok_other n h0 s _ i j tj Hne); [left; exact Eh|].
           right; reflexivity.
  - (* PLoadH2: the head read here is the current one *)
    eapply (Inv_local n h0 s _ i t); try reflexivity; try assumption.
    unfold thread_ok; proj. split; [intros _; apply Htodo; discriminate|].
    split; [exact Hlock|]. split; [|intros [E|E]; discriminate].
    intros _. exists (g_h s). split; [lia|]. split; [exact Hcap|exact Hkh].
  - (* PLoadT2 *)
    destruct (is_full (lh t) (ktail s) (len s)) eqn:Ef.
    + (* full: release the lock *)
      assert (Eh : holder s = Some i) by (apply Hlock; reflexivity).
      unfold Inv; proj. repeat match goal with |- _ /\ _ => split end; try assumption.
      * intros k Hk. discriminate Hk.
      * eapply (Inv_threads n h0 s _ i t); try eassumption; try reflexivity.
        -- unfold thread_ok; proj. split; [intros _; apply Htodo; discriminate|].
           split; [split; discriminate|]. split; [discriminate|]. intros [E|E]; discriminate.
        -- intros j tj Hne. apply (thread_ok_other n h0 s _ i j tj Hne); [right; exact Eh|].
           left; reflexivity.
    + (* room *)
      pose proof (locked_check_room n m h0 s t Hp HI0 (HT2 eq_refl) Ef) as Hroom.
      eapply (Inv_local n h0 s _ i t); try reflexivity; try assumption.
      unfold thread_ok; proj. split; [intros _; apply Htodo; discriminate|].
      split; [exact Hlock|]. split; [discriminate|].
      intros _. split; [reflexivity|exact Hroom].
  - (* PFill *)
    destruct (HFS (or_introl eq_refl)) as (Hlt & Hroom).
    destruct (is_faulty (hd 0 (todo t))).
    + (* the fill closure panics: the reset slot is free, the lock is released, nothing else
         changes *)
      assert (Eh : holder s = Some i) by (apply Hlock; reflexivity).
      unfold Inv; proj. repeat match goal with |- _ /\ _ => split end; try assumption.
      * intros j Hj1 Hj2. rewrite (idx_free n m h0 s t j) by assumption. apply Hsl; assumption.
      * intros k Hk. discriminate Hk.
      * eapply (Inv_threads n h0 s _ i t); try eassumption; try reflexivity.
        -- unfold thread_ok; proj.
           destruct (tl (todo t)) as [|q r];
             (split; [intros Hd; first [discriminate | exfalso; apply Hd; reflexivity]|]);
             (split; [split; discriminate|]); (split; [discriminate|]);
             intros [E|E]; discriminate.
        -- intros j tj Hne. apply (thread_ok_other n h0 s _ i j tj Hne); [right; exact Eh|].
           left; reflexivity.
    + unfold Inv; proj. repeat match goal with |- _ /\ _ => split end; try assumption.
      * intros j Hj1 Hj2. rewrite (idx_free n m h0 s t j) by assumption. apply Hsl; assumption.
      * intros k Hk. rewrite upd_length by exact Hil. apply Hho. exact Hk.
      * eapply (Inv_threads n h0 s _ i t); try eassumption; try reflexivity.
        -- unfold thread_ok; proj. split; [intros _; apply Htodo; discriminate|].
           split; [exact Hlock|]. split; [discriminate|]. intros _. split; assumption.
        -- intros j tj _. apply thread_ok_frame; reflexivity.
  - (* PStore *)
    destruct (HFS (or_intror eq_refl)) as (Hlt & Hroom).
    assert (Eh : holder s = Some i) by (apply Hlock; reflexivity).
    pose proof (idx_is n m h0 s t Hp HI0 Hlt) as Hidx.
    pose proof (fun j => idx_free n m h0 s t j Hp HI0 Hlt Hroom) as Hfree.
    destruct Hp as (Hnm & Hn0 & Hn32 & Hh0).
    unfold Inv; proj. repeat match goal with |- _ /\ _ => split end; try first [assumption|alia].
    + rewrite Hlt, Hkt. apply add1_off.
    + rewrite app_length. cbn [length]. alia.
    + intros j Hj1 Hj2. assert (Hj : j < g_t s \/ j = g_t s) by alia. destruct Hj as [Hj|Hj].
      * rewrite Hfree by assumption. rewrite app_nth1 by alia. apply Hsl; assumption.
      * subst j. rewrite Hidx, N.eqb_refl. rewrite <- Hlp, Nat2N.id. f_equal. symmetry.
        apply nth_snoc.
    + rewrite firstn_app_le by alia. exact Hco.
    + intros k Hk. discriminate Hk.
    + eapply (Inv_threads n h0 s _ i t); try eassumption; try reflexivity.
      * unfold thread_ok; proj.
        destruct (tl (todo t)) as [|q r];
          (split; [intros Hd; first [discriminate | exfalso; apply Hd; reflexivity]|]);
          (split; [split; discriminate|]); (split; [discriminate|]); intros [E|E]; discriminate.
      * intros j tj Hne. apply (thread_ok_other n h0 s _ i j tj Hne); [right; exact Eh|].
        left; reflexivity.
  - (* PLockBlocked *)
    eapply (Inv_local n h0 s _ i t); try reflexivity; try assumption.
    unfold thread_ok; proj.
    destruct (tl (todo t)) as [|q r];
      (split; [intros Hd; first [discriminate | exfalso; apply Hd; reflexivity]|]);
      (split; [exact Hlock|]); (split; [discriminate|]); intros [E|E]; discriminate.
  - (* PDone *) exact HI0.
Qed.

(** The kernel finds a complete entry: the next accepted payload. *)
Lemma kernel_reads n m h0 s :
  params_ok n m h0 -> Inv n h0 s -> g_h s < g_t s ->
  slots s (N.land (khead s) (len s - 1)) = Entry (nth (N.to_nat (g_h s)) (g_accepted s) 0).
Proof.
  intros (Hnm & Hn0 & Hn32 & Hh0) HI Hlt. inv_destruct HI.
  rewrite Hlen, (mask_is_mod n m), Hkh, (slot_off n m) by assumption.
  apply Hsl; alia.
Qed.

Lemma ghost_lt_of_neq n m h0 s :
  params_ok n m h0 -> Inv n h0 s -> khead s <> ktail s -> g_h s < g_t s.
Proof.
  intros (Hnm & Hn0 & Hn32 & Hh0) HI Hne. inv_destruct HI.
  destruct (N.eq_dec (g_h s) (g_t s)) as [e|e]; [|alia].
  exfalso. apply Hne. rewrite Hkh, Hkt, e. reflexivity.
Qed.

Lemma ghost_eq_of_eq n m h0 s :
  params_ok n m h0 -> Inv n h0 s -> khead s = ktail s -> g_h s = g_t s.
Proof.
  intros (Hnm & Hn0 & Hn32 & Hh0) HI He. inv_destruct HI.
  rewrite Hkh, Hkt in He. apply eq_off in He; [exact He|alia|alia].
Qed.

Lemma Inv_kstep n m h0 s : params_ok n m h0 -> Inv n h0 s -> Inv n h0 (kstep s).
Proof.
  intros Hp HI. unfold kstep.
  destruct (N.eqb_spec (khead s) (ktail s)) as [E|E]; [exact HI|].
  pose proof (ghost_lt_of_neq n m h0 s Hp HI E) as Hlt.
  pose proof (kernel_reads n m h0 s Hp HI Hlt) as Hrd.
  destruct Hp as (Hnm & Hn0 & Hn32 & Hh0). inv_destruct HI.
  unfold Inv; proj. repeat match goal with |- _ /\ _ => split end; try first [assumption|alia].
  - rewrite Hkh. apply add1_off.
  - intros j Hj1 Hj2. apply Hsl; alia.
  - replace (N.to_nat (g_h s + 1)) with (S (N.to_nat (g_h s))) by lia.
    rewrite (firstn_S_snoc _ 0) by alia. rewrite map_app, Hco, Hrd. reflexivity.
  - intros j tj Hj. destruct (Hth j tj Hj) as (A & B & C & D).
    unfold thread_ok; proj. split; [exact A|]. split; [exact B|]. split.
    + intros Ej. destruct (C Ej) as (gh & G1 & G2 & G3). exists gh.
      split; [alia|]. split; [alia|exact G3].
    + intros Ej. destruct (D Ej) as (D1 & D2). split; [exact D1|alia].
Qed.

Lemma Inv_step n m h0 s e : params_ok n m h0 -> Inv n h0 s -> Inv n h0 (fst (step s e)).
Proof.
  intros Hp HI. destruct e as [i|]; cbn [step fst].
  - apply (Inv_tstep n m); assumption.
  - apply (Inv_kstep n m); assumption.
Qed.

Lemma Inv_init n m h0 progs : params_ok n m h0 -> Inv n h0 (init n h0 progs).
Proof.
  intros (Hnm & Hn0 & Hn32 & Hh0). unfold Inv, init; proj. rewrite N.add_0_r.
  rewrite N.mod_small by assumption.
  repeat match goal with |- _ /\ _ => split end; try reflexivity; try lia.
  - intros k Hk. discriminate Hk.
  - intros i t Hi. rewrite nth_error_map in Hi.
    destruct (nth_error progs i) as [p|]; cbn [option_map] in Hi; [|discriminate].
    injection Hi as <-. unfold thread_ok; proj.
    destruct p as [|a p];
      (split; [intros Hd; first [discriminate | exfalso; apply Hd; reflexivity]|]);
      (split; [split; discriminate|]); (split; [discriminate|]); intros [E|E]; discriminate.
Qed.

(** ** Accounting *)
Lemma acct_tstep n h0 s i : Inv n h0 s -> Permutation (acct (tstep s i)) (acct s).
Proof.
  intros HI. unfold tstep, tstep_with.
  destruct (nth_error (threads s) i) as [t|] eqn:Hi; [|apply Permutation_refl].
  inv_destruct HI. destruct (Hth i t Hi) as (Htodo & _).
  pose proof (fun t' => todo_upd (threads s) i t t' Hi) as Hupd.
  destruct (pcv t) eqn:Epc;
    repeat match goal with
    | |- context [if ?b then _ else _] => destruct b
    | |- context [match holder s with _ => _ end] => destruct (holder s)
    end;
    try apply Permutation_refl;
    match goal with |- Permutation (acct (set_thread _ _ ?t')) _ =>
      destruct (Hupd t') as (A & B & E1 & E2) end;
    unfold acct; proj; rewrite E1, E2; proj; try apply Permutation_refl.
  - (* PFill, panic *)
    destruct (todo t) as [|p r]; [exfalso; apply Htodo; [discriminate|reflexivity]|].
    cbn [hd tl]. do 2 apply Permutation_app_head. rewrite <- app_assoc.
    apply Permutation_app_head. cbn [app]. apply Permutation_middle.
  - (* PStore *)
    destruct (todo t) as [|p r]; [exfalso; apply Htodo; [discriminate|reflexivity]|].
    cbn [hd tl]. rewrite <- app_assoc. apply Permutation_app_head. cbn [app].
    apply perm_mid3.
  - (* PLockBlocked *)
    destruct (todo t) as [|p r]; [exfalso; apply Htodo; [discriminate|reflexivity]|].
    cbn [hd tl]. apply Permutation_app_head. rewrite <- app_assoc.
    apply Permutation_app_head. cbn [app]. apply perm_mid2.
Qed.

Lemma acct_kstep s : acct (kstep s) = acct s.
Proof. unfold kstep. destruct (khead s =? ktail s); reflexivity. Qed.

Lemma acct_init n h0 progs : acct (init n h0 progs) = concat progs.
Proof.
  unfold acct, init; proj. cbn [app]. f_equal. rewrite map_map. cbn [todo].
  apply map_id.
Qed.

Lemma run_ok n m h0 progs : params_ok n m h0 -> forall es,
  Inv n h0 (fst (run step (init n h0 progs) es))
  /\ Permutation (acct (fst (run step (init n h0 progs) es))) (concat progs).
Proof.
  intros Hp es.
  apply (run_invariant step (fun s => Inv n h0 s /\ Permutation (acct s) (concat progs))).
  - intros s e [HI HP]. split; [apply (Inv_step n m); assumption|].
    destruct e as [i|]; cbn [step fst].
    + eapply perm_trans; [apply (acct_tstep n h0); exact HI|exact HP].
    + rewrite acct_kstep. exact HP.
  - split; [apply (Inv_init n m); exact Hp|]. rewrite acct_init. apply Permutation_refl.
Qed.

(** ** The statements *)
Lemma sq_exactly_once_unmodified_holds : sq_exactly_once_unmodified.
Proof.
  intros n m h0 progs es Hp. cbv zeta.
  destruct (run_ok n m h0 progs Hp es) as [HI _].
  set (s := fst (run step (init n h0 progs) es)) in *. clearbody s.
  split; [exact HI|]. inv_destruct HI.
  split; [exact Hco|]. split; [|exact Hcap].
  intros x Hin. rewrite Hco in Hin. apply in_map_iff in Hin. destruct Hin as (p & <- & _).
  discriminate.
Qed.

Lemma sq_every_add_accounted_holds : sq_every_add_accounted.
Proof.
  intros n m h0 progs es Hp. cbv zeta.
  destruct (run_ok n m h0 progs Hp es) as [_ HP]. exact HP.
Qed.

Lemma sq_never_overwrites_pending_holds : sq_never_overwrites_pending.
Proof.
  intros n m h0 s i j Hp HI Hj1 Hj2. unfold tstep, tstep_with.
  destruct (nth_error (threads s) i) as [t|] eqn:Hi; [|reflexivity].
  pose proof HI as HI0. inv_destruct HI.
  destruct (Hth i t Hi) as (_ & _ & _ & HFS).
  destruct (pcv t) eqn:Epc;
    repeat match goal with
    | |- context [if is_full ?a ?b ?c then _ else _] => destruct (is_full a b c)
    | |- context [if is_faulty ?a then _ else _] => destruct (is_faulty a)
    | |- context [match holder s with _ => _ end] => destruct (holder s)
    end; try reflexivity.
  (* PFill (panicking or not) and PStore: the slot written is (h0 + g_t) mod n *)
  all: destruct (HFS ltac:(auto)) as (Hlt & Hroom); proj;
    rewrite (idx_free n m h0 s t j) by assumption; reflexivity.
Qed.

Lemma sq_drained_means_all_delivered_holds : sq_drained_means_all_delivered.
Proof.
  intros n m h0 s Hp HI He. pose proof (ghost_eq_of_eq n m h0 s Hp HI He) as Hg.
  inv_destruct HI. rewrite Hco, Hg, <- Hlp, Nat2N.id, firstn_all. reflexivity.
Qed.

Lemma sq_panicked_never_published_holds : sq_panicked_never_published.
Proof.
  intros n m h0 progs es Hp. cbv zeta.
  destruct (run_ok n m h0 progs Hp es) as [HI HP].
  set (s := fst (run step (init n h0 progs) es)) in *. clearbody s.
  intros p Hpan Hnd. inv_destruct HI.
  assert (Hacc : ~ In p (g_accepted s)).
  { intros Hin. apply (Permutation_NoDup (Permutation_sym HP)) in Hnd. unfold acct in Hnd.
    apply (NoDup_app_disjoint p _ _ Hnd Hin).
    apply in_or_app. right. apply in_or_app. left. exact Hpan. }
  split; [exact Hacc|].
  intros Hin. apply Hacc. rewrite Hco in Hin. apply in_map_iff in Hin.
  destruct Hin as (q & Eq & Hq). injection Eq as ->. exact (In_firstn _ _ _ Hq).
Qed.

(** The ring content between head and tail is the pending list, in order. *)
Lemma pending_ghost_in_ring n m h0 s k :
  params_ok n m h0 -> Inv n h0 s -> k < g_t s - g_h s ->
  N.of_nat (length (pending_ghost s)) = g_t s - g_h s
  /\ slots s ((h0 + (g_h s + k)) mod n) = Entry (nth (N.to_nat k) (pending_ghost s) 0).
Proof.
  intros _ HI Hk. inv_destruct HI. unfold pending_ghost. split.
  - rewrite skipn_length. alia.
  - rewrite nth_skipn, Hsl by alia. f_equal. f_equal. lia.
Qed.

(** ** What was wrong before the repair of H1.
    With [> len] in the locked check a submitter that finds the ring exactly full goes ahead.
    Two entries; thread 0 publishes payload 1; then thread 0 (payload 2) and thread 1
    (payload 3) both pass the unlocked pre-check seeing one pending entry; thread 0 takes the
    lock and publishes (ring full: 2 pending); thread 1 takes the lock, re-loads, computes
    [2 > 2 = false], resets slot 0 — which still holds payload 1, not yet consumed — and
    publishes. The kernel then reads 3, 2, 3: payload 1 is lost, payload 3 is submitted
    twice, and 3 entries are "pending" in a ring of 2. *)
Definition h1_schedule : list ev :=
  [T 0; T 0; T 0; T 0; T 0; T 0; T 0; T 0]      (* thread 0: add payload 1, completely *)
  ++ [T 0; T 0; T 0] ++ [T 1; T 1; T 1]           (* both: op lock, load head, load tail: 1 < 2 *)
  ++ [T 0; T 0; T 0; T 0; T 0]                    (* thread 0: lock, re-load x2, fill, store *)
  ++ [T 1; T 1; T 1; T 1; T 1]                    (* thread 1: the same; overwrites slot 0 *)
  ++ [K; K; K].

Lemma h1_overrun_details :
  let s := fst (run step_h1 (init 2 0 [[1; 2]; [3]]) h1_schedule) in
  g_accepted s = [1; 2; 3] /\ consumed s = [Entry 3; Entry 2; Entry 3] /\ blocked s = []
  /\ let s' := fst (run step_h1 (init 2 0 [[1; 2]; [3]]) (firstn 24 h1_schedule)) in
     g_t s' - g_h s' = 3 /\ consumed s' = [].
Proof. cbv zeta. repeat split; vm_compute; reflexivity. Qed.

Lemma h1_overrun_refuted :
  exists es, let s := fst (run step_h1 (init 2 0 [[1; 2]; [3]]) es) in
    consumed s <> firstn (length (consumed s)) (map Entry (g_accepted s))
    \/ g_t s - g_h s > 2.
Proof.
  exists h1_schedule. cbv zeta. left. intros H. vm_compute in H. discriminate H.
Qed.

(** The same schedule against the repaired code: thread 1 finds the ring full under the lock
    and parks; nothing is lost or duplicated. *)
Example h1_schedule_repaired :
  let s := fst (run step (init 2 0 [[1; 2]; [3]]) h1_schedule) in
  g_accepted s = [1; 2] /\ consumed s = [Entry 1; Entry 2] /\ blocked s = [3]
  /\ holder s = None.
Proof. cbv zeta. repeat split; vm_compute; reflexivity. Qed.

(** Non-vacuity: three threads on a ring of 2 whose counters start at 2^32 - 1, so that the
    tail wraps with the first publication. Thread 0's first payload (1001) is faulty: it takes
    the lock while thread 1 spins, the kernel runs just before the fill (and finds nothing
    published), the fill closure panics after the slot was reset — lock released, tail
    untouched, nothing accepted. Thread 1 then gets the lock and publishes 20 into that very
    slot; thread 0 goes on with its next payload (10) and fills the ring; thread 2 finds the
    ring full under the lock and parks; thread 0's third add is refused by the unlocked
    pre-check; the kernel consumes the two published entries. *)
Definition c04_schedule : list ev :=
  [T 0; T 0; T 0] ++ [T 1; T 1; T 1]              (* both pass the pre-check on the empty ring *)
  ++ [T 0; T 1; T 0; T 0; K; T 0]                 (* 0 locks, 1 spins, 0 re-loads; K: nothing; 0's fill panics *)
  ++ [T 1; T 1; T 1; T 1; T 1]                    (* 1 gets the lock, re-loads, fills, stores 20 *)
  ++ [T 2; T 2; T 2] ++ [T 0; T 0; T 0]           (* 2 and 0 (payload 10) pass the pre-check (1 < 2) *)
  ++ [T 0; T 0; T 0; T 0; T 0]                    (* 0 locks, re-loads, fills, stores 10: ring full *)
  ++ [T 2; T 2; T 2; T 2]                         (* 2 locks, re-loads: full, releases, parks *)
  ++ [T 0; T 0; T 0; K; T 0; K].                  (* 0 (payload 11): pre-check full; kernel drains *)

Example c04_example :
  let progs := [[1001; 10; 11]; [20]; [30]] in
  let s := fst (run step (init 2 (two32 - 1) progs) c04_schedule) in
  let s1 := fst (run step (init 2 (two32 - 1) progs) (firstn 12 c04_schedule)) in
  params_ok 2 two31 (two32 - 1) /\ NoDup (concat progs)
  (* right after the panic: lock free, slot torn, nothing published *)
  /\ panicked s1 = [1001] /\ holder s1 = None /\ slots s1 1 = Torn /\ g_t s1 = 0
  /\ ktail s1 = two32 - 1
  (* at the end *)
  /\ consumed s = [Entry 20; Entry 10]
  /\ g_accepted s = [20; 10] /\ blocked s = [30; 11] /\ panicked s = [1001]
  /\ concat (map todo (threads s)) = []
  /\ g_h s = 2 /\ g_t s = 2 /\ khead s = 1 /\ ktail s = 1 /\ holder s = None.
Proof.
  cbv zeta. split; [|split].
  - unfold params_ok, two31, two32. repeat split; lia.
  - cbn [concat app]. repeat constructor; cbn [In]; intros H;
      repeat match goal with H : _ \/ _ |- _ => destruct H end; try discriminate; assumption.
  - repeat split; vm_compute; reflexivity.
Qed.

(** C13 — proofs about the result decoders (Model/ResultDecode.v). *)
From A10 Require Import Base.Word Gen.Consts Model.Encode Model.ResultDecode Proofs.EncodeProofs.

Open Scope Z_scope.

Ltac zb :=
  repeat match goal with
  | |- context [Z.ltb ?a ?b] => destruct (Z.ltb_spec a b)
  | |- context [Z.leb ?a ?b] => destruct (Z.leb_spec a b)
  | |- context [Z.eqb ?a ?b] => destruct (Z.eqb_spec a b)
  | H : context [Z.ltb ?a ?b] |- _ => destruct (Z.ltb_spec a b)
  | H : context [Z.leb ?a ?b] |- _ => destruct (Z.leb_spec a b)
  | H : context [Z.eqb ?a ?b] |- _ => destruct (Z.eqb_spec a b)
  end; cbn [andb orb negb] in *.

(** * 1. Completion results *)

(** Success exactly when the call succeeded, with the call's return value. *)
Definition result_done_iff_success : Prop :=
  forall fb k fd res v, decode_result fb k fd res = Done v <-> (0 <= res /\ v = Z.to_N res).

(** An operating system error that is reported is the call's errno. *)
Definition result_errno_is_the_calls : Prop :=
  forall fb k fd res e, decode_result fb k fd res = ErrOs e -> res < 0 /\ e = - res.

(** Operations with the default fallback report every errno but three: EINTR and ECANCELED
    restart the operation, EINVAL is replaced by an "unsupported, update your kernel" error that
    carries no errno (observation O1 of the report). *)
Definition result_errno_reported_except_einval : Prop :=
  forall k fd res, res < 0 -> - res <> EINTR -> - res <> ECANCELED -> - res <> EINVAL ->
    decode_result FbDefault k fd res = ErrOs (- res).

Definition result_einval_is_masked : Prop :=
  forall k fd, decode_result FbDefault k fd (- EINVAL) = ErrUnsupported.

(** The synchronous fallbacks make the documented call on the same descriptor, for both kinds of
    descriptor (full statement; it was false for direct descriptors before the repair of H21),
    and a direct descriptor never reaches a system call of the process's descriptor table. *)
Definition fallback_same_descriptor : Prop :=
  forall fb k fd res c o, op_of_fb fb = Some o -> (k = Direct -> kind_ok o Direct) ->
    decode_result fb k fd res = SyncCall c -> c = intended_call o k fd.

Definition fallback_same_descriptor_regular : Prop :=
  forall fb fd res c o, op_of_fb fb = Some o ->
    decode_result fb Regular fd res = SyncCall c -> c = intended_call o Regular fd.

Definition fallback_direct_never_calls : Prop :=
  forall fb fd res c, (match fb with FbSockName _ _ | FbGetSockOpt _ _ _ | FbSetSockOpt _ _ _ => True | _ => False end) ->
    decode_result fb Direct fd res <> SyncCall c.

(** What a direct descriptor gets instead: the kernel's error, unchanged. *)
Definition fallback_direct_keeps_error : Prop :=
  forall fb fd res, (match fb with FbSockName _ _ | FbGetSockOpt _ _ _ | FbSetSockOpt _ _ _ => True | _ => False end) ->
    res < 0 -> - res <> EINTR -> - res <> ECANCELED ->
    decode_result fb Direct fd res = ErrOs (- res).

(** The repair changes nothing for regular descriptors. *)
Definition fallback_repair_regular_unchanged : Prop :=
  forall fb fd res, decode_result fb Regular fd res = decode_result_h21 fb Regular fd res.

(** H21 (the code before the repair): on a direct descriptor the fallback called libc with the
    direct *index* as if it were a descriptor number of the process. *)
Definition fallback_h21_refuted_stmt : Prop :=
  exists fb fd res c o, op_of_fb fb = Some o /\ kind_ok o Direct /\
    decode_result_h21 fb Direct fd res = SyncCall c /\ c <> intended_call o Direct fd /\
    call_file c = Some (FdNum (Z.of_N fd)) /\ call_file (intended_call o Direct fd) = Some (FdFixed (Z.of_N fd)).

Definition fallback_h21_every_direct_socket_fallback : Prop :=
  forall fb fd res c, (match fb with FbSockName _ _ | FbGetSockOpt _ _ _ | FbSetSockOpt _ _ _ => True | _ => False end) ->
    decode_result_h21 fb Direct fd res = SyncCall c -> call_file c = Some (FdNum (Z.of_N fd)).

Lemma result_done_iff_success_holds : result_done_iff_success.
Proof.
  intros fb k fd res v. unfold decode_result, decode_result_gen. split.
  - destruct (Z.leb_spec 0 res) as [H|H].
    + intros E. inversion E. split; [assumption | reflexivity].
    + destruct ((- res =? EINTR) || (- res =? ECANCELED)); [discriminate|].
      destruct fb; cbn [fallback_gen];
        repeat match goal with |- context [if ?b then _ else _] => destruct b end;
        try discriminate; destruct k; discriminate.
  - intros [H ->]. destruct (Z.leb_spec 0 res); [reflexivity | lia].
Qed.

Lemma result_errno_is_the_calls_holds : result_errno_is_the_calls.
Proof.
  intros fb k fd res e. unfold decode_result, decode_result_gen.
  destruct (Z.leb_spec 0 res) as [H|H]; [discriminate|].
  destruct ((- res =? EINTR) || (- res =? ECANCELED)); [discriminate|].
  destruct fb; cbn [fallback_gen];
    repeat match goal with |- context [if ?b then _ else _] => destruct b end;
    try discriminate; try (destruct k; try discriminate);
    intros E; inversion E; split; (lia || reflexivity).
Qed.

Lemma result_errno_reported_except_einval_holds : result_errno_reported_except_einval.
Proof.
  intros k fd res Hneg H1 H2 H3. unfold decode_result, decode_result_gen, fallback_gen.
  destruct (Z.leb_spec 0 res); [lia|].
  destruct (Z.eqb_spec (- res) EINTR); [contradiction|].
  destruct (Z.eqb_spec (- res) ECANCELED); [contradiction|].
  destruct (Z.eqb_spec (- res) EINVAL); [contradiction|]. reflexivity.
Qed.

Lemma result_einval_is_masked_holds : result_einval_is_masked.
Proof. intros k fd. reflexivity. Qed.

Lemma fallback_same_descriptor_regular_holds : fallback_same_descriptor_regular.
Proof.
  intros fb fd res c o Ho. unfold decode_result, decode_result_gen.
  destruct (0 <=? res); [discriminate|].
  destruct ((- res =? EINTR) || (- res =? ECANCELED)); [discriminate|].
  destruct fb; cbn in Ho; inversion Ho; subst o; cbn [fallback_gen is_regular];
    match goal with |- context [if ?b then _ else _] => destruct b end; try discriminate;
    intros E; inversion E; reflexivity.
Qed.

Lemma fallback_direct_never_calls_holds : fallback_direct_never_calls.
Proof.
  intros fb fd res c Hfb. unfold decode_result, decode_result_gen.
  destruct (0 <=? res); [discriminate|].
  destruct ((- res =? EINTR) || (- res =? ECANCELED)); [discriminate|].
  destruct fb; try contradiction; cbn [fallback_gen is_regular];
    rewrite Bool.andb_false_r; discriminate.
Qed.

Lemma fallback_direct_keeps_error_holds : fallback_direct_keeps_error.
Proof.
  intros fb fd res Hfb Hneg H1 H2. unfold decode_result, decode_result_gen.
  destruct (Z.leb_spec 0 res); [lia|].
  destruct (Z.eqb_spec (- res) EINTR); [contradiction|].
  destruct (Z.eqb_spec (- res) ECANCELED); [contradiction|]. cbn [orb].
  destruct fb; try contradiction; cbn [fallback_gen is_regular];
    rewrite Bool.andb_false_r; reflexivity.
Qed.

Lemma fallback_same_descriptor_holds : fallback_same_descriptor.
Proof.
  intros fb k fd res c o Ho Hk Hd. destruct k.
  - apply (fallback_same_descriptor_regular_holds fb fd res c o Ho Hd).
  - exfalso. destruct fb; cbn in Ho; try discriminate.
    + (* pipe: never on a direct descriptor; the call does not name one *)
      inversion Ho; subst o. specialize (Hk eq_refl). cbn in Hk. discriminate Hk.
    + apply (fallback_direct_never_calls_holds (FbSockName peer cap) fd res c I Hd).
    + apply (fallback_direct_never_calls_holds (FbGetSockOpt level name optlen) fd res c I Hd).
    + apply (fallback_direct_never_calls_holds (FbSetSockOpt level name value) fd res c I Hd).
Qed.

Lemma fallback_repair_regular_unchanged_holds : fallback_repair_regular_unchanged.
Proof.
  intros fb fd res. unfold decode_result, decode_result_h21, decode_result_gen.
  destruct (0 <=? res); [reflexivity|].
  destruct ((- res =? EINTR) || (- res =? ECANCELED)); [reflexivity|].
  destruct fb; cbn [fallback_gen is_regular]; reflexivity.
Qed.

(** [socket_option::<TcpNoDelay>()] (level 6, option 1) on direct descriptor 5, completed with
    -EOPNOTSUPP: before the repair, getsockopt(5, ...) on whatever the process has open as
    descriptor 5. *)
Lemma fallback_h21_refuted : fallback_h21_refuted_stmt.
Proof.
  exists (FbGetSockOpt 6 1 4), 5%N, (- EOPNOTSUPP),
         (PGetsockopt (FdNum 5) 6 1 (Res ROptVal) 4), (OGetSockOpt 6 1 4).
  repeat split; try (vm_compute; reflexivity); try exact I.
  vm_compute. discriminate.
Qed.

Lemma fallback_h21_every_direct_socket_fallback_holds : fallback_h21_every_direct_socket_fallback.
Proof.
  intros fb fd res c Hfb. unfold decode_result_h21, decode_result_gen.
  destruct (0 <=? res); [discriminate|].
  destruct ((- res =? EINTR) || (- res =? ECANCELED)); [discriminate|].
  destruct fb; try contradiction; cbn [fallback_gen];
    rewrite Bool.andb_true_r;
    match goal with |- context [if ?b then _ else _] => destruct b end; try discriminate;
    intros E; inversion E; reflexivity.
Qed.

(** * 2. Descriptors from results *)
Definition from_raw_roundtrip : Prop :=
  forall n k, 0 <= n < 2147483648 -> fd_of (from_raw n k) = n /\ kind_of (from_raw n k) = k.

Lemma lor_sign (n : Z) : 0 <= n < 2147483648 -> Z.lor n (-2147483648) = n - 2147483648.
Proof.
  intros H.
  assert (E : Z.land n (-2147483648) = 0).
  { change (-2147483648) with (Z.lnot (Z.ones 31)). rewrite <- Z.ldiff_land, Z.ldiff_ones_r by lia.
    rewrite Z.shiftr_div_pow2 by lia. change (2 ^ 31) with 2147483648.
    rewrite Z.div_small by lia. reflexivity. }
  rewrite <- Z.lxor_lor by exact E. rewrite <- Z.add_nocarry_lxor by exact E. lia.
Qed.

Lemma from_raw_roundtrip_holds : from_raw_roundtrip.
Proof.
  intros n k H. destruct k; unfold from_raw, fd_of, kind_of.
  - change 2147483647 with (Z.ones 31). rewrite Z.land_ones by lia. change (2 ^ 31) with 2147483648.
    rewrite Z.mod_small by lia. split; [reflexivity|]. destruct (Z.ltb_spec n 0); [lia | reflexivity].
  - rewrite (lor_sign n H). unfold i32_bits.
    replace ((n - 2147483648 + 2147483648) mod 4294967296) with n by (rewrite Z.mod_small; lia).
    change 2147483647 with (Z.ones 31). rewrite Z.land_ones by lia. change (2 ^ 31) with 2147483648.
    split.
    + replace (n - 2147483648) with (n + (-1) * 2147483648) by lia. rewrite Z.mod_add by lia.
      apply Z.mod_small. lia.
    + destruct (Z.ltb_spec (n - 2147483648) 0); [reflexivity | lia].
Qed.

(** * 3. Metadata *)

(** The type predicates are the S_ISxxx macros: [(mode & S_IFMT) == S_IFxxx]. *)
Definition file_type_is_posix_macro : Prop :=
  forall mode ty, ft_is mode ty = true <-> N.land mode S_IFMT = ty.

(** At most one of the seven predicates holds. *)
Definition file_type_exclusive : Prop :=
  forall mode, (length (filter (fun b => b) (file_type_flags mode)) <= 1)%nat.

Lemma file_type_is_posix_macro_holds : file_type_is_posix_macro.
Proof. intros mode ty. unfold ft_is. apply N.eqb_eq. Qed.

Lemma file_type_exclusive_holds : file_type_exclusive.
Proof.
  intros mode. unfold file_type_flags, ft_is. generalize (N.land mode S_IFMT). intros x.
  cbn [map].
  destruct (N.eqb_spec x S_IFDIR) as [->|]; [cbn; lia|].
  destruct (N.eqb_spec x S_IFREG) as [->|]; [cbn; lia|].
  destruct (N.eqb_spec x S_IFLNK) as [->|]; [cbn; lia|].
  destruct (N.eqb_spec x S_IFSOCK) as [->|]; [cbn; lia|].
  destruct (N.eqb_spec x S_IFBLK) as [->|]; [cbn; lia|].
  destruct (N.eqb_spec x S_IFCHR) as [->|]; [cbn; lia|].
  destruct (N.eqb_spec x S_IFIFO) as [->|]; cbn; lia.
Qed.

(** Permission accessors test single mode bits. *)
Definition permission_flags_are_mode_bits : Prop :=
  forall mode, permission_flags mode = map (fun j => N.testbit mode j) [8; 7; 6; 5; 4; 3; 2; 1; 0]%N.

Lemma land_pow2_testbit (m j : N) : negb (N.eqb (N.land m (2 ^ j)) 0) = N.testbit m j.
Proof.
  destruct (N.testbit m j) eqn:E.
  - destruct (N.eqb_spec (N.land m (2 ^ j)) 0) as [H|H]; [|reflexivity].
    assert (N.testbit (N.land m (2 ^ j)) j = false) by (rewrite H; apply N.bits_0).
    rewrite N.land_spec, E, N.pow2_bits_true in H0. discriminate.
  - destruct (N.eqb_spec (N.land m (2 ^ j)) 0) as [H|H]; [reflexivity|]. exfalso. apply H.
    apply N.bits_inj. intros i. rewrite N.land_spec, N.bits_0, N.pow2_bits_eqb.
    destruct (N.eqb_spec j i) as [<-|_]; [rewrite E; reflexivity | apply andb_false_r].
Qed.

Lemma permission_flags_are_mode_bits_holds : permission_flags_are_mode_bits.
Proof.
  intros mode. unfold permission_flags, perm_masks. cbn [map].
  rewrite <- (land_pow2_testbit mode 8), <- (land_pow2_testbit mode 7), <- (land_pow2_testbit mode 6),
    <- (land_pow2_testbit mode 5), <- (land_pow2_testbit mode 4), <- (land_pow2_testbit mode 3),
    <- (land_pow2_testbit mode 2), <- (land_pow2_testbit mode 1), <- (land_pow2_testbit mode 0).
  reflexivity.
Qed.

(** ** Timestamps *)
Definition ts_wf (sec nsec : Z) : Prop := I64_MIN <= sec <= I64_MAX /\ 0 <= nsec < NS.

(** Full statement (false: H9). *)
Definition timestamp_matches_posix : Prop :=
  forall sec nsec, ts_wf sec nsec -> timestamp sec nsec = Some (timestamp_spec sec nsec).

Definition h9_class (sec : Z) : Prop := sec < 0.

Definition timestamp_matches_posix_except_h9 : Prop :=
  forall sec nsec, ts_wf sec nsec -> ~ h9_class sec -> timestamp sec nsec = Some (timestamp_spec sec nsec).

(** Inside the class the accessor panics (all but one corner value). *)
Definition timestamp_h9_panics : Prop :=
  forall sec nsec, ts_wf sec nsec -> h9_class sec -> (sec, nsec) <> (I64_MIN, 0) ->
    timestamp sec nsec = None.

Definition timestamp_h9_refuted_stmt : Prop :=
  exists sec nsec, ts_wf sec nsec /\ timestamp sec nsec <> Some (timestamp_spec sec nsec).

Definition timestamp_fixed_matches_posix : Prop :=
  forall sec nsec, ts_wf sec nsec -> timestamp_fixed sec nsec = Some (timestamp_spec sec nsec).

Example ts_wf_example : ts_wf (-86400) 500000000 /\ ts_wf 1700000000 0.
Proof. unfold ts_wf, I64_MIN, I64_MAX, NS. lia. Qed.

Lemma nsec_small (nsec : Z) : 0 <= nsec < NS -> nsec / NS = 0 /\ nsec mod NS = nsec.
Proof. unfold NS. intros. split; [apply Z.div_small | apply Z.mod_small]; lia. Qed.

Ltac ts_unfold :=
  cbv beta iota zeta delta [timestamp timestamp_fixed dur_new st_add st_sub EPOCH in_i64 u64_of_i64
                            timestamp_spec h9_class I64_MIN I64_MAX NS fst snd] in *.

Ltac ts_cases :=
  repeat (match goal with
          | |- context [Z.ltb ?a ?b] => destruct (Z.ltb_spec a b)
          | |- context [Z.leb ?a ?b] => destruct (Z.leb_spec a b)
          end; cbn [andb]; try lia);
  try reflexivity; try (f_equal; f_equal; lia).

Lemma u64_of_neg (sec : Z) : -9223372036854775808 <= sec < 0 ->
  sec mod 18446744073709551616 = sec + 18446744073709551616.
Proof.
  intros H. replace sec with (sec + 18446744073709551616 + (-1) * 18446744073709551616) at 1 by lia.
  rewrite Z.mod_add by lia. apply Z.mod_small. lia.
Qed.

Lemma timestamp_matches_posix_except_h9_holds : timestamp_matches_posix_except_h9.
Proof.
  intros sec nsec [Hs Hn] Hc. destruct (nsec_small nsec Hn) as [E1 E2]. ts_unfold.
  rewrite E1, E2. rewrite (Z.mod_small sec) by lia. ts_cases.
Qed.

Lemma timestamp_h9_panics_holds : timestamp_h9_panics.
Proof.
  intros sec nsec [Hs Hn] Hc Hne. destruct (nsec_small nsec Hn) as [E1 E2].
  assert (Hn0 : sec = I64_MIN -> nsec <> 0) by (intros -> ->; apply Hne; reflexivity).
  ts_unfold. rewrite E1, E2. rewrite (u64_of_neg sec) by lia. ts_cases.
Qed.

Lemma timestamp_h9_refuted : timestamp_h9_refuted_stmt.
Proof.
  exists (-86400), 0. split; [unfold ts_wf, I64_MIN, I64_MAX, NS; lia|]. vm_compute. discriminate.
Qed.

Lemma timestamp_matches_posix_fails : ~ timestamp_matches_posix.
Proof. intros H. destruct timestamp_h9_refuted as (s & n & Hwf & Hne). apply Hne, H, Hwf. Qed.

Lemma timestamp_fixed_matches_posix_holds : timestamp_fixed_matches_posix.
Proof.
  intros sec nsec [Hs Hn]. destruct (nsec_small nsec Hn) as [E1 E2]. ts_unfold.
  rewrite E1, E2. change (0 / 1000000000) with 0. change (0 mod 1000000000) with 0.
  destruct (Z.ltb_spec sec 0).
  - replace (Z.abs sec) with (- sec) by lia. ts_cases.
  - replace (Z.abs sec) with sec by lia. ts_cases.
Qed.

(** * 4. WaitInfo *)
Definition wait_status_matches_posix : Prop :=
  forall code status, wait_wf code status -> wait_status code status = wait_status_spec code status.

(** The class in which reading [si_status] as a wait-status word happens to be right: a clean
    exit (code 0) and death by signal without a core dump. *)
Definition h22_safe (code status : Z) : Prop :=
  (code = CLD_EXITED /\ status = 0) \/ code = CLD_KILLED.

Definition wait_status_matches_posix_except_h22 : Prop :=
  forall code status, wait_wf code status -> h22_safe code status ->
    wait_status code status = wait_status_spec code status.

(** Outside it [status()] is always wrong. *)
Definition wait_status_h22_always_wrong : Prop :=
  forall code status, wait_wf code status -> ~ h22_safe code status ->
    wait_status code status <> wait_status_spec code status.

Definition wait_status_h22_refuted_stmt : Prop :=
  exists code status, wait_wf code status /\ wait_status code status <> wait_status_spec code status
    /\ v_signal (wait_status code status) = Some status /\ v_code (wait_status_spec code status) = Some status.

Definition wait_status_fixed_matches_posix : Prop :=
  forall code status, wait_wf code status -> wait_status_fixed code status = wait_status_spec code status.

Example wait_wf_example : wait_wf CLD_EXITED 3 /\ wait_wf CLD_KILLED 9.
Proof. unfold wait_wf, CLD_EXITED, CLD_KILLED. split; [left | right]; lia. Qed.

Definition oz_eqb (a b : option Z) : bool :=
  match a, b with Some x, Some y => x =? y | None, None => true | _, _ => false end.
Definition view_eqb (a b : status_view) : bool :=
  oz_eqb (v_code a) (v_code b) && oz_eqb (v_signal a) (v_signal b) && Bool.eqb (v_core a) (v_core b)
  && oz_eqb (v_stopped a) (v_stopped b) && Bool.eqb (v_continued a) (v_continued b).

Lemma oz_eqb_eq a b : oz_eqb a b = true <-> a = b.
Proof.
  destruct a, b; cbn; try (split; congruence). rewrite Z.eqb_eq. split; congruence.
Qed.

Lemma view_eqb_eq a b : view_eqb a b = true <-> a = b.
Proof.
  destruct a, b. unfold view_eqb. cbn.
  rewrite !andb_true_iff, !oz_eqb_eq, !Bool.eqb_true_iff. split.
  - intros [[[[-> ->] ->] ->] ->]. reflexivity.
  - intros E. inversion E. auto.
Qed.

(** Exhaustive evaluation over a range of status values. *)
Definition zrange (lo n : nat) : list Z := map Z.of_nat (seq lo n).

Lemma in_zrange (lo n : nat) (z : Z) : Z.of_nat lo <= z < Z.of_nat (lo + n) -> In z (zrange lo n).
Proof.
  intros H. unfold zrange. replace z with (Z.of_nat (Z.to_nat z)) by lia.
  apply in_map, in_seq. lia.
Qed.

Lemma all_range (P : Z -> bool) (lo n : nat) :
  forallb P (zrange lo n) = true -> forall z, Z.of_nat lo <= z < Z.of_nat (lo + n) -> P z = true.
Proof. intros H z Hz. rewrite forallb_forall in H. apply H, in_zrange, Hz. Qed.

Lemma wait_status_fixed_matches_posix_holds : wait_status_fixed_matches_posix.
Proof.
  intros code status Hwf. apply view_eqb_eq.
  destruct Hwf as [[-> H] | [[-> | [-> | [-> | [-> | ->]]]] H]].
  - apply (all_range (fun s => view_eqb (wait_status_fixed CLD_EXITED s) (wait_status_spec CLD_EXITED s)) 0 256);
      [vm_compute; reflexivity | lia].
  - apply (all_range (fun s => view_eqb (wait_status_fixed CLD_KILLED s) (wait_status_spec CLD_KILLED s)) 1 64);
      [vm_compute; reflexivity | lia].
  - apply (all_range (fun s => view_eqb (wait_status_fixed CLD_DUMPED s) (wait_status_spec CLD_DUMPED s)) 1 64);
      [vm_compute; reflexivity | lia].
  - apply (all_range (fun s => view_eqb (wait_status_fixed CLD_STOPPED s) (wait_status_spec CLD_STOPPED s)) 1 64);
      [vm_compute; reflexivity | lia].
  - apply (all_range (fun s => view_eqb (wait_status_fixed CLD_TRAPPED s) (wait_status_spec CLD_TRAPPED s)) 1 64);
      [vm_compute; reflexivity | lia].
  - apply (all_range (fun s => view_eqb (wait_status_fixed CLD_CONTINUED s) (wait_status_spec CLD_CONTINUED s)) 1 64);
      [vm_compute; reflexivity | lia].
Qed.

Lemma wait_status_matches_posix_except_h22_holds : wait_status_matches_posix_except_h22.
Proof.
  intros code status Hwf Hs. apply view_eqb_eq.
  destruct Hs as [[-> ->] | ->]; [vm_compute; reflexivity|].
  destruct Hwf as [[E _] | [_ H]]; [discriminate E|].
  apply (all_range (fun s => view_eqb (wait_status CLD_KILLED s) (wait_status_spec CLD_KILLED s)) 1 64);
    [vm_compute; reflexivity | lia].
Qed.

Lemma wait_status_h22_always_wrong_holds : wait_status_h22_always_wrong.
Proof.
  intros code status Hwf Hns Heq. apply view_eqb_eq in Heq.
  assert (Hf : view_eqb (wait_status code status) (wait_status_spec code status) = false); [|congruence].
  clear Heq. unfold h22_safe in Hns.
  destruct Hwf as [[-> H] | [[-> | [-> | [-> | [-> | ->]]]] H]].
  - assert (1 <= status <= 255) by (destruct (Z.eq_dec status 0); [exfalso; apply Hns; left; split; [reflexivity|assumption] | lia]).
    apply negb_true_iff.
    apply (all_range (fun s => negb (view_eqb (wait_status CLD_EXITED s) (wait_status_spec CLD_EXITED s))) 1 255);
      [vm_compute; reflexivity | lia].
  - exfalso. apply Hns. right. reflexivity.
  - apply negb_true_iff.
    apply (all_range (fun s => negb (view_eqb (wait_status CLD_DUMPED s) (wait_status_spec CLD_DUMPED s))) 1 64);
      [vm_compute; reflexivity | lia].
  - apply negb_true_iff.
    apply (all_range (fun s => negb (view_eqb (wait_status CLD_STOPPED s) (wait_status_spec CLD_STOPPED s))) 1 64);
      [vm_compute; reflexivity | lia].
  - apply negb_true_iff.
    apply (all_range (fun s => negb (view_eqb (wait_status CLD_TRAPPED s) (wait_status_spec CLD_TRAPPED s))) 1 64);
      [vm_compute; reflexivity | lia].
  - apply negb_true_iff.
    apply (all_range (fun s => negb (view_eqb (wait_status CLD_CONTINUED s) (wait_status_spec CLD_CONTINUED s))) 1 64);
      [vm_compute; reflexivity | lia].
Qed.

(** [sh -c "exit 3"]: a10 reports "killed by signal 3". *)
Lemma wait_status_h22_refuted : wait_status_h22_refuted_stmt.
Proof.
  exists CLD_EXITED, 3. repeat split; try (vm_compute; reflexivity).
  - left. unfold CLD_EXITED. lia.
  - vm_compute. discriminate.
Qed.

Lemma wait_status_matches_posix_fails : ~ wait_status_matches_posix.
Proof. intros H. destruct wait_status_h22_refuted as (c & s & Hwf & Hne & _). apply Hne, H, Hwf. Qed.

(** * 5. Socket option values *)
Definition opt_value_ok (c : optclass) (v : Z) : Prop :=
  match c with OcBool | OcLinger => 0 <= v | _ => True end.

(** With the length the kernel reports for the type and the non-negative values Linux produces
    for boolean options the decoders agree with getsockopt(2)'s meaning. *)
Definition opt_decode_matches_posix : Prop :=
  forall c v v2, opt_value_ok c v -> opt_decode c v v2 (opt_size c) = Some (opt_spec c v v2).

Lemma opt_decode_matches_posix_holds : opt_decode_matches_posix.
Proof.
  intros c v v2 Hv. unfold opt_decode. rewrite N.eqb_refl. cbn [negb].
  destruct c; cbn [opt_value_ok] in Hv; cbn [opt_spec]; f_equal.
  - destruct (Z.leb_spec 1 v), (Z.eqb_spec v 0); try reflexivity; lia.
  - destruct (Z.ltb_spec 0 v), (Z.eqb_spec v 0); try reflexivity; lia.
Qed.

(** Proofs about Model/OpState.v, part 5: each operation receives exactly its own results,
    once, in order (C02) — routing of completions, the multishot ledger, the single-shot
    ledger. *)
From A10 Require Import Base.Word Base.Run Model.OpState Proofs.OpStateInv Proofs.OpStateWake
                        Proofs.OpStateRestart.
From Coq Require Import ZifyN ZifyBool ZifyNat.
Ltac Zify.zify_post_hook ::= Z.div_mod_to_equations.
Local Open Scope nat_scope.

(** ** Vocabulary *)

(** Result values among handed-out observations; end markers; what [poll] hands out. *)
Definition vals (l : list obs) : list Z :=
  flat_map (fun x => match x with OReady v => [v] | OErr e => [e] | _ => [] end) l.
Definition is_end (x : obs) : bool := match x with OEnd => true | _ => false end.
Definition nend (l : list obs) : nat := cnt is_end l.
Definition is_handout (x : obs) : bool :=
  match x with OReady _ | OErr _ | OEnd => true | _ => false end.

(** The result slot of a single-shot operation after completions [l]: the last one that is not
    a notification, or the default (0) if there is none. *)
Definition result_of (l : list cqe) : cqe := last (filter (fun c => negb (notif c)) l) default_cqe.
Definition all_more (l : list cqe) : bool := forallb more l.
Definition has_final (l : list cqe) : bool := existsb (fun c => negb (more c)) l.

(** Operation completions among queue entries; the completions of operation [i] in a ledger. *)
Definition somes (l : list (option nat * cqe)) : list (nat * cqe) :=
  flat_map (fun e => match fst e with Some i => [(i, snd e)] | None => [] end) l.
Definition for_op (i : nat) (l : list (nat * cqe)) : list cqe :=
  map snd (filter (fun p => Nat.eqb (fst p) i) l).

(** ** Statements *)

(** (b) Multishot, at every moment: the values handed out so far followed by the results still
    queued in the status are exactly the results dispatched in this attempt (no loss, no
    duplication, in order); no end marker before the stream is complete; a complete stream has
    handed out everything, then exactly one end marker, after a completion without MORE. *)
Definition multi_ledger (o : op) : Prop :=
  match st o with
  | NotStarted => g_in o = [] /\ g_out o = []
  | Running rs =>
      vals (g_out o) ++ map res rs = map res (g_in o) /\ nend (g_out o) = 0
      /\ all_more (g_in o) = true
  | Done rs =>
      vals (g_out o) ++ map res rs = map res (g_in o) /\ nend (g_out o) = 0
      /\ has_final (g_in o) = true
  | Complete =>
      exists vs, g_out o = vs ++ [OEnd] /\ nend vs = 0 /\ vals vs = map res (g_in o)
                 /\ has_final (g_in o) = true
  | Dropped => True
  end.

(** (c) Single-shot / two-step, at every moment: nothing is handed out before the operation is
    complete; the slot holds the result of the LAST non-notification completion of the attempt;
    the operation resolves only after a completion without MORE, exactly once, with the slot's
    value — never with an interruption. *)
Definition single_ledger (o : op) : Prop :=
  match st o with
  | NotStarted => g_in o = [] /\ g_out o = []
  | Running rs => g_out o = [] /\ rs = [result_of (g_in o)] /\ all_more (g_in o) = true
  | Done rs => g_out o = [] /\ rs = [result_of (g_in o)] /\ has_final (g_in o) = true
  | Complete =>
      g_out o = [outcome (result_of (g_in o))] /\ has_final (g_in o) = true
      /\ is_restart (result_of (g_in o)) = false
  | Dropped => True
  end.

Definition ledger_ok (o : op) : Prop :=
  match kd o with Single => single_ledger o | Multi => multi_ledger o end.

(** The ghost ledgers mean what their names say (one-step facts): a poll appends to [g_out]
    exactly what it hands out, unless it starts a new attempt, which empties both ledgers and
    hands out nothing; [update] appends the completion to [g_in] and [g_recv] whenever it
    accepts it (status Running, Done or Dropped) and touches no other operation; a drop changes
    no ledger. *)
Definition ledgers_faithful : Prop :=
  (forall s i w o, nth_error (ops s) i = Some o ->
     exists o', nth_error (ops (fst (poll s i w))) i = Some o' /\ g_recv o' = g_recv o
       /\ ((g_in o' = g_in o /\ g_out o' = g_out o ++ filter is_handout (snd (poll s i w)))
           \/ (g_in o' = [] /\ g_out o' = [] /\ filter is_handout (snd (poll s i w)) = []
               /\ (st o' = NotStarted \/ attempts o' = (attempts o + 1)%N))))
  /\ (forall s i c o, nth_error (ops s) i = Some o ->
        st o <> NotStarted -> st o <> Complete ->
        exists o', nth_error (ops (fst (update s i c))) i = Some o'
          /\ g_in o' = g_in o ++ [c] /\ g_recv o' = g_recv o ++ [c] /\ g_out o' = g_out o)
  /\ (forall s i j c, j <> i -> nth_error (ops (fst (update s j c))) i = nth_error (ops s) i)
  /\ (forall s i o, nth_error (ops s) i = Some o ->
        exists o', nth_error (ops (fst (drop_op s i))) i = Some o'
          /\ g_in o' = g_in o /\ g_out o' = g_out o /\ g_recv o' = g_recv o)
  /\ (forall s e, g_posted (post s e) = g_posted s ++ somes [e] /\ cq (post s e) = cq s ++ [e])
  /\ (forall s t c r, g_disp (pop_cq s t c r) = g_disp s ++ somes [(t, c)]).

(** (a) Routing. In every reachable state the completions dispatched so far are a prefix of the
    operation completions posted so far and the rest is exactly what is still queued (FIFO, each
    exactly once); what [update] accepted for operation [i] is exactly the dispatched
    completions tagged [i], in order, and the current attempt's [g_in] is a suffix of it.
    [process] hands the head entry [(Some i, c)] to [update … i c] — which touches no other
    operation (see [ledgers_faithful]) — and skips bookkeeping entries; in a valid history the
    dispatch never reaches [unreachable!()] and never meets a freed state. *)
Definition routing_exact : Prop :=
  (forall cap0 kinds es, valid (init cap0 kinds) es ->
     let s := fst (run step (init cap0 kinds) es) in
     g_posted s = g_disp s ++ somes (cq s)
     /\ forall i o, nth_error (ops s) i = Some o ->
          g_recv o = for_op i (g_disp s)
          /\ for_op i (g_posted s) = g_recv o ++ for_op i (somes (cq s))
          /\ exists pre, g_recv o = pre ++ g_in o)
  /\ (forall f s i c r, cq s = (Some i, c) :: r ->
        process (S f) s
        = let '(s1, o1) := update (pop_cq s (Some i) c r) i c in
          let '(s2, o2) := process f s1 in (s2, o1 ++ o2))
  /\ (forall f s c r, cq s = (None, c) :: r -> process (S f) s = process f (pop_cq s None c r))
  /\ (forall cap0 kinds es out, valid (init cap0 kinds) es ->
        In (RingPoll, out) (trace (init cap0 kinds) es) -> ~ In OPanic out).

(** C02. For all queue sizes, operation tables and histories: (a) for valid histories,
    (c) for ANY history, (b) for histories of the K2m shape (outside it the multishot restart
    assertion panics and loses a result: [multi_restart_with_queued_results_panics]). *)
Definition outputs_refine_kernel_script : Prop :=
  routing_exact
  /\ (forall cap0 kinds es, valid_k2m (init cap0 kinds) es ->
        let s := fst (run step (init cap0 kinds) es) in
        forall i o, nth_error (ops s) i = Some o -> kd o = Multi -> multi_ledger o)
  /\ (forall cap0 kinds es,
        let s := fst (run step (init cap0 kinds) es) in
        forall i o, nth_error (ops s) i = Some o -> kd o = Single -> single_ledger o)
  /\ ledgers_faithful.

(** With the kernel's script shape for single-shot and two-step operations — exactly one
    completion that is not a notification per attempt (result first, notification last) — "the
    last non-notification result" is the result of that one completion, i.e. the first. *)
Definition single_result_is_the_only_result : Prop :=
  forall l c, filter (fun x => negb (notif x)) l = [c] ->
    result_of l = c /\ hd_error (filter (fun x => negb (notif x)) l) = Some c.

(** Outside that shape (two result completions for one single-shot attempt) the code keeps the
    LAST result, not the first. *)
Definition single_keeps_last_result : Prop :=
  exists es, valid (init 4 [(Single, true)]) es
    /\ snd (run step (init 4 [(Single, true)]) es)
       = [OPending; OConsumed (Submit 0); OWake 1%N; OReady 7].

(** A single-shot operation resolves at most once over ANY history. *)
Definition single_resolves_once : Prop :=
  forall cap0 kinds es i,
    kind_at (init cap0 kinds) i = Some Single ->
    cnt is_handout
        (flat_map (fun p => match fst p with
                            | Poll j _ => if Nat.eqb j i then snd p else []
                            | _ => []
                            end) (trace (init cap0 kinds) es)) <= 1.

(** ** List lemmas *)

Lemma vals_app l1 l2 : vals (l1 ++ l2) = vals l1 ++ vals l2.
Proof. unfold vals. apply flat_map_app. Qed.

Lemma nend_snoc l x : nend (l ++ [x]) = nend l + (if is_end x then 1 else 0).
Proof. unfold nend. apply cnt_snoc. Qed.

Lemma result_of_snoc l c : result_of (l ++ [c]) = if notif c then result_of l else c.
Proof.
  unfold result_of. rewrite filter_app. cbn [filter]. destruct (notif c); cbn [negb].
  - rewrite app_nil_r. reflexivity.
  - apply last_last.
Qed.

Lemma all_more_snoc l c : all_more (l ++ [c]) = all_more l && more c.
Proof. unfold all_more. rewrite forallb_app. cbn. rewrite andb_true_r. reflexivity. Qed.

Lemma has_final_snoc l c : has_final (l ++ [c]) = has_final l || negb (more c).
Proof. unfold has_final. rewrite existsb_app. cbn. rewrite orb_false_r. reflexivity. Qed.

Lemma somes_app l1 l2 : somes (l1 ++ l2) = somes l1 ++ somes l2.
Proof. unfold somes. apply flat_map_app. Qed.

Lemma for_op_app i l1 l2 : for_op i (l1 ++ l2) = for_op i l1 ++ for_op i l2.
Proof. unfold for_op. rewrite filter_app, map_app. reflexivity. Qed.

Lemma for_op_one i j c : for_op i [(j, c)] = if Nat.eqb j i then [c] else [].
Proof. unfold for_op. cbn. destruct (Nat.eqb j i); reflexivity. Qed.

(** ** (c) The single-shot ledger — any history *)

Definition s_ok (o : op) : Prop := kd o = Single -> single_ledger o.
Definition s_rel (o o' : op) : Prop := s_ok o -> s_ok o'.

Lemma s_rel_refl o : s_rel o o.
Proof. unfold s_rel. auto. Qed.
Lemma s_rel_trans a b c : s_rel a b -> s_rel b c -> s_rel a c.
Proof. unfold s_rel. auto. Qed.

Lemma poll_start_s s i o o1 w :
  nth_error (ops s) i = Some o -> st o1 = NotStarted -> g_in o1 = [] -> g_out o1 = [] ->
  ops_rel s_rel s (fst (poll_start s i o1 w)).
Proof.
  intros Hi Hs Hgi Hgo. unfold poll_start. destruct (has_room s); cbn [fst].
  - eapply ops_rel_ext; [|apply (ops_rel_set_op s_rel s i o); [exact s_rel_refl|exact Hi|]]; [reflexivity|].
    unfold s_rel, s_ok, single_ledger. cbn. intros _ Hk. rewrite Hk. auto.
  - eapply ops_rel_ext; [|apply (ops_rel_set_op s_rel s i o); [exact s_rel_refl|exact Hi|]]; [reflexivity|].
    unfold s_rel, s_ok, single_ledger. rewrite Hs. auto.
Qed.

Lemma is_restart_nonneg c : (0 <=? res c)%Z = true -> is_restart c = false.
Proof. unfold is_restart, EINTR, ECANCELED. lia. Qed.

Lemma poll_s s i w : ops_rel s_rel s (fst (poll s i w)).
Proof.
  unfold poll. destruct (nth_error (ops s) i) as [o|] eqn:Hi;
    [|apply ops_rel_same; [exact s_rel_refl|reflexivity]].
  assert (Hset : forall o', s_rel o o' -> ops_rel s_rel s (set_op s i o')).
  { intros o' Ho'. apply (ops_rel_set_op s_rel s i o); auto using s_rel_refl. }
  assert (Hid : ops_rel s_rel s s) by (apply ops_rel_same; [exact s_rel_refl|reflexivity]).
  assert (Hmulti : forall o', kd o' = Multi -> s_rel o o').
  { intros o' Hk _ Hk'. congruence. }
  assert (Hre : ops_rel s_rel s (fst (poll_start s i (new_attempt (with_st o NotStarted)) w)))
    by (apply (poll_start_s s i o); auto).
  destruct (st o) eqn:Est.
  - destruct (kd o) eqn:Ek.
    + (* the ledger says g_in = g_out = [] *)
      unfold poll_start. destruct (has_room s); cbn [fst].
      * eapply ops_rel_ext; [|apply Hset]; [reflexivity|].
        unfold s_rel, s_ok, single_ledger. cbn. rewrite Ek. auto.
      * eapply ops_rel_ext; [|apply Hset]; [reflexivity|]. exact (s_rel_refl o).
    + unfold poll_start. destruct (has_room s); cbn [fst];
        (eapply ops_rel_ext; [|apply Hset]; [reflexivity|]); [|exact (s_rel_refl o)].
      apply Hmulti; cbn; exact Ek.
  - destruct (kd o) eqn:Ek; [|destruct rs as [|c rs']]; cbn [fst]; apply Hset;
      try (apply Hmulti; cbn; exact Ek).
    unfold s_rel, s_ok, single_ledger. op_cbn. rewrite Est. auto.
  - destruct (kd o) eqn:Ek; destruct rs as [|c rs']; cbn [fst]; auto;
      try (apply Hset, Hmulti; cbn; exact Ek).
    + assert (Hcomp : forall x, x = outcome c -> is_restart c = false ->
                s_rel o (hand_out (take_res (with_st o Complete)) x)).
      { intros x Hx Hnr. unfold s_rel, s_ok, single_ledger. op_cbn. rewrite Est.
        intros H Hk. destruct (H Hk) as (Hgo & Hrs & Hfin). injection Hrs as Hc _.
        rewrite Hgo, <- Hc, Hx. auto. }
      destruct (0 <=? res c)%Z eqn:Epos.
      * apply Hset, Hcomp; [unfold outcome; rewrite Epos; reflexivity|].
        apply is_restart_nonneg. exact Epos.
      * destruct (is_restart c) eqn:Er; [exact Hre|].
        apply Hset, Hcomp; [unfold outcome; rewrite Epos; reflexivity|reflexivity].
    + destruct (0 <=? res c)%Z; [apply Hset, Hmulti; cbn; exact Ek|].
      destruct (is_restart c); [|apply Hset, Hmulti; cbn; exact Ek].
      destruct rs'; [exact Hre|apply Hset, Hmulti; cbn; exact Ek].
  - exact Hid.
  - exact Hid.
Qed.

Lemma update_s s i c : ops_rel s_rel s (fst (update s i c)).
Proof.
  unfold update. destruct (nth_error (ops s) i) as [o|] eqn:Hi;
    [|apply ops_rel_same; [exact s_rel_refl|reflexivity]].
  assert (Hset : forall o', s_rel o o' -> ops_rel s_rel s (set_op s i o')).
  { intros o' Ho'. apply (ops_rel_set_op s_rel s i o); auto using s_rel_refl. }
  assert (Hnew : forall rs o', st o = Running rs \/ st o = Done rs -> kd o' = kd o ->
            g_in o' = g_in o ++ [c] -> g_out o' = g_out o ->
            st o' = (if negb (more c)
                     then Done (match kd o with Single => if notif c then rs else [c] | Multi => rs ++ [c] end)
                     else match st o with
                          | Done _ => Done (match kd o with Single => if notif c then rs else [c] | Multi => rs ++ [c] end)
                          | _ => Running (match kd o with Single => if notif c then rs else [c] | Multi => rs ++ [c] end)
                          end) ->
            s_rel o o').
  { intros rs o' Hs Hk Hgi Hgo Hs'. unfold s_rel, s_ok. rewrite Hk. intros H Hsingle.
    specialize (H Hsingle). unfold single_ledger in *. rewrite Hs', Hsingle, Hgi, Hgo.
    destruct Hs as [Hs|Hs]; rewrite Hs in *; destruct H as (A & B & C); subst rs;
      destruct (more c) eqn:Em; cbn [negb andb orb];
      rewrite ?result_of_snoc, ?all_more_snoc, ?has_final_snoc, ?C, ?Em; cbn [negb andb orb];
      rewrite ?orb_true_r; destruct (notif c); auto. }
  destruct (st o) eqn:Est; cbn [fst]; try (apply ops_rel_same; [exact s_rel_refl|reflexivity]).
  - destruct (negb (more c) || _); [destruct (waker o)|]; cbn [fst]; apply Hset, (Hnew rs);
      op_cbn; auto.
  - destruct (negb (more c) || _); [destruct (waker o)|]; cbn [fst]; apply Hset, (Hnew rs);
      op_cbn; auto.
  - destruct (more c); cbn [fst]; apply Hset; unfold s_rel, s_ok, single_ledger; op_cbn;
      rewrite Est; auto.
Qed.

Lemma step_s s e : ops_rel s_rel s (fst (step s e)).
Proof.
  apply step_ops_rel.
  - exact s_rel_refl.
  - exact s_rel_trans.
  - apply poll_s.
  - apply drop_ops_rel; [exact s_rel_refl| |]; intros o; unfold s_rel, s_ok, single_ledger; op_cbn; auto.
  - apply update_s.
Qed.

Definition all_s_ok (s : sys) : Prop := forall i o, nth_error (ops s) i = Some o -> s_ok o.

Lemma single_ledger_reachable cap0 kinds es :
  all_s_ok (fst (run step (init cap0 kinds) es)).
Proof.
  apply (run_invariant step all_s_ok).
  - intros s e H i o Hi. exact (ops_rel_preserves s_ok s _ (step_s s e) H i o Hi).
  - intros i o Hi. cbn [init ops] in Hi. apply nth_error_In, in_map_iff in Hi.
    destruct Hi as ([k c] & <- & _). unfold s_ok, single_ledger. cbn. auto.
Qed.

(** ** (b) The multishot ledger — K2m histories *)

Definition m_ok (o : op) : Prop := kd o = Multi -> multi_ledger o.
Definition m_rel (o o' : op) : Prop := m_ok o -> m_ok o'.
Definition mk_rel (o o' : op) : Prop := k_op o -> m_ok o -> m_ok o'.

Lemma m_rel_refl o : m_rel o o.
Proof. unfold m_rel. auto. Qed.
Lemma m_rel_trans a b c : m_rel a b -> m_rel b c -> m_rel a c.
Proof. unfold m_rel. auto. Qed.
Lemma mk_rel_refl o : mk_rel o o.
Proof. unfold mk_rel. auto. Qed.

Lemma vals_snoc_value l x v :
  x = OReady v \/ x = OErr v -> vals (l ++ [x]) = vals l ++ [v].
Proof. intros [->| ->]; rewrite vals_app; reflexivity. Qed.

Lemma nend_snoc_value l x v : x = OReady v \/ x = OErr v -> nend (l ++ [x]) = nend l.
Proof. intros [->| ->]; rewrite nend_snoc; cbn; lia. Qed.

Lemma poll_mk s i w : ops_rel mk_rel s (fst (poll s i w)).
Proof.
  unfold poll. destruct (nth_error (ops s) i) as [o|] eqn:Hi;
    [|apply ops_rel_same; [exact mk_rel_refl|reflexivity]].
  assert (Hset : forall o', mk_rel o o' -> ops_rel mk_rel s (set_op s i o')).
  { intros o' Ho'. apply (ops_rel_set_op mk_rel s i o); auto using mk_rel_refl. }
  assert (Hid : ops_rel mk_rel s s) by (apply ops_rel_same; [exact mk_rel_refl|reflexivity]).
  assert (Hsingle : forall o', kd o' = Single -> mk_rel o o').
  { intros o' Hk _ _ Hk'. congruence. }
  assert (Hps : forall o1, st o1 = NotStarted -> g_in o1 = [] -> g_out o1 = [] ->
            ops_rel mk_rel s (fst (poll_start s i o1 w))).
  { intros o1 Hs Hgi Hgo. unfold poll_start. destruct (has_room s); cbn [fst];
      (eapply ops_rel_ext; [|apply Hset]; [reflexivity|]); unfold mk_rel, m_ok, multi_ledger.
    - cbn. intros _ _ Hk. rewrite Hk. auto.
    - rewrite Hs. auto. }
  assert (Hnext : forall c rs' x, (st o = Running (c :: rs') \/ st o = Done (c :: rs')) ->
            x = OReady (res c) \/ x = OErr (res c) ->
            forall o', kd o' = kd o -> g_in o' = g_in o -> g_out o' = g_out o ++ [x] ->
              (st o = Running (c :: rs') -> st o' = Running rs') ->
              (st o = Done (c :: rs') -> st o' = Done rs') -> mk_rel o o').
  { intros c rs' x Hs Hx o' Hk Hgi Hgo Hr Hd. unfold mk_rel, m_ok. rewrite Hk. intros _ H Hm.
    specialize (H Hm). unfold multi_ledger in *. rewrite Hgi, Hgo.
    rewrite (vals_snoc_value _ x (res c) Hx), (nend_snoc_value _ x (res c) Hx).
    destruct Hs as [Hs|Hs]; rewrite Hs in H; [rewrite (Hr Hs)|rewrite (Hd Hs)];
      destruct H as (A & B & C); cbn [map] in A; rewrite <- app_assoc; auto. }
  destruct (st o) eqn:Est.
  - destruct (kd o) eqn:Ek.
    + unfold poll_start. destruct (has_room s); cbn [fst];
        (eapply ops_rel_ext; [|apply Hset]; [reflexivity|]); [|exact (mk_rel_refl o)].
      apply Hsingle. cbn. exact Ek.
    + unfold poll_start. destruct (has_room s); cbn [fst];
        (eapply ops_rel_ext; [|apply Hset]; [reflexivity|]); [|exact (mk_rel_refl o)].
      unfold mk_rel, m_ok, multi_ledger. cbn. rewrite Ek. auto.
  - destruct (kd o) eqn:Ek; [apply Hset, Hsingle; cbn; exact Ek|].
    destruct rs as [|c rs']; cbn [fst]; apply Hset.
    + unfold mk_rel, m_ok, multi_ledger. op_cbn. rewrite Est. auto.
    + apply (Hnext c rs' (if (res c <? 0)%Z then OErr (res c) else OReady (res c))); op_cbn; auto;
        try congruence. destruct (res c <? 0)%Z; auto.
  - destruct (kd o) eqn:Ek.
    + destruct rs as [|c rs']; cbn [fst]; auto.
      destruct (0 <=? res c)%Z; [apply Hset, Hsingle; cbn; exact Ek|].
      destruct (is_restart c); [apply Hps; reflexivity|apply Hset, Hsingle; cbn; exact Ek].
    + destruct rs as [|c rs']; cbn [fst].
      * apply Hset. unfold mk_rel, m_ok, multi_ledger. op_cbn. rewrite Est.
        intros _ H Hm. destruct (H Hm) as (A & B & C). exists (g_out o).
        cbn [map] in A. rewrite app_nil_r in A. auto.
      * destruct (0 <=? res c)%Z;
          [apply Hset, (Hnext c rs' (OReady (res c))); op_cbn; auto; congruence|].
        destruct (is_restart c) eqn:Er;
          [|apply Hset, (Hnext c rs' (OErr (res c))); op_cbn; auto; congruence].
        destruct rs' as [|c' rs'']; [apply Hps; reflexivity|].
        (* the assertion of the restart path: excluded by K2m *)
        apply Hset. intros Hk _ _. exfalso. unfold k_op in Hk. rewrite Est in Hk.
        specialize (Hk Ek c (removelast_head c c' rs'')). congruence.
  - exact Hid.
  - exact Hid.
Qed.

Lemma update_m s i c : ops_rel m_rel s (fst (update s i c)).
Proof.
  unfold update. destruct (nth_error (ops s) i) as [o|] eqn:Hi;
    [|apply ops_rel_same; [exact m_rel_refl|reflexivity]].
  assert (Hset : forall o', m_rel o o' -> ops_rel m_rel s (set_op s i o')).
  { intros o' Ho'. apply (ops_rel_set_op m_rel s i o); auto using m_rel_refl. }
  assert (Hnew : forall rs o', st o = Running rs \/ st o = Done rs -> kd o' = kd o ->
            g_in o' = g_in o ++ [c] -> g_out o' = g_out o ->
            st o' = (if negb (more c)
                     then Done (match kd o with Single => if notif c then rs else [c] | Multi => rs ++ [c] end)
                     else match st o with
                          | Done _ => Done (match kd o with Single => if notif c then rs else [c] | Multi => rs ++ [c] end)
                          | _ => Running (match kd o with Single => if notif c then rs else [c] | Multi => rs ++ [c] end)
                          end) ->
            m_rel o o').
  { intros rs o' Hs Hk Hgi Hgo Hs'. unfold m_rel, m_ok. rewrite Hk. intros H Hm.
    specialize (H Hm). unfold multi_ledger in *. rewrite Hs', Hm, Hgi, Hgo.
    destruct Hs as [Hs|Hs]; rewrite Hs in *; destruct H as (A & B & C);
      destruct (more c) eqn:Em; cbn [negb andb orb];
      rewrite !map_app, ?all_more_snoc, ?has_final_snoc, ?C, ?Em; cbn [negb andb orb map];
      rewrite ?orb_true_r, app_assoc, A; auto. }
  destruct (st o) eqn:Est; cbn [fst]; try (apply ops_rel_same; [exact m_rel_refl|reflexivity]).
  - destruct (negb (more c) || _); [destruct (waker o)|]; cbn [fst]; apply Hset, (Hnew rs);
      op_cbn; auto.
  - destruct (negb (more c) || _); [destruct (waker o)|]; cbn [fst]; apply Hset, (Hnew rs);
      op_cbn; auto.
  - destruct (more c); cbn [fst]; apply Hset; unfold m_rel, m_ok, multi_ledger; op_cbn;
      rewrite Est; auto.
Qed.

Definition all_m_ok (s : sys) : Prop := forall i o, nth_error (ops s) i = Some o -> m_ok o.

Lemma step_m s e : KInv s -> all_m_ok s -> all_m_ok (fst (step s e)).
Proof.
  intros [K1 _] Hm. destruct e as [i w|i| |i c]; cbn [step fst].
  - intros j o' Hj'. pose proof (poll_mk s i w j) as Hr. rewrite Hj' in Hr.
    destruct (nth_error (ops s) j) as [o|] eqn:Hj; [|contradiction].
    apply Hr; [exact (K1 j o Hj)|exact (Hm j o Hj)].
  - intros j o' Hj'.
    assert (Hd : ops_rel m_rel s (fst (drop_op s i))).
    { apply drop_ops_rel; [exact m_rel_refl| |]; intros o; unfold m_rel, m_ok, multi_ledger; op_cbn; auto. }
    exact (ops_rel_preserves m_ok s _ Hd Hm j o' Hj').
  - rewrite ring_poll_phases. pose proof (phase1_ops s) as H1. destruct (phase1 s) as [s1 o1].
    cbn [fst] in H1.
    pose proof (process_ops_rel m_rel m_rel_refl m_rel_trans update_m (length (cq s1)) s1) as Hp.
    destruct (process (length (cq s1)) s1) as [s2 o2]. cbn [fst] in *.
    assert (Hm1 : forall k ok, nth_error (ops s1) k = Some ok -> m_ok ok)
      by (intros k ok Hk; rewrite H1 in Hk; exact (Hm k ok Hk)).
    intros j o' Hj'. exact (ops_rel_preserves m_ok s1 s2 Hp Hm1 j o' Hj').
  - assert (E : ops (kpost s i c) = ops s).
    { unfold kpost. destruct (existsb _ _); [|reflexivity]. destruct (more c); reflexivity. }
    intros j o' Hj'. rewrite E in Hj'. exact (Hm j o' Hj').
Qed.

Lemma multi_ledger_reachable cap0 kinds es :
  valid_k2m (init cap0 kinds) es -> all_m_ok (fst (run step (init cap0 kinds) es)).
Proof.
  intros Hv.
  assert (H : forall es s, Inv s /\ KInv s /\ all_m_ok s -> valid_k2m s es ->
                let s' := fst (run step s es) in Inv s' /\ KInv s' /\ all_m_ok s').
  { clear. induction es as [|e es IH]; intros s HP Hv; cbn [run]; [exact HP|].
    destruct Hv as [Hok Hv]. destruct HP as (Hi & Hk & Hm).
    assert (Hok' : ev_ok s e = true) by (unfold ev_ok_k2m in Hok; apply andb_true_iff in Hok; tauto).
    pose proof (step_Inv s e Hi Hok') as Hi'. pose proof (step_k s e Hi Hk Hok) as Hk'.
    pose proof (step_m s e Hk Hm) as Hm'. destruct (step s e) as [s1 o1]. cbn [fst] in *.
    specialize (IH s1 (conj Hi' (conj Hk' Hm')) Hv). cbv zeta in IH.
    destruct (run step s1 es) as [s2 o2]. exact IH. }
  apply (H es (init cap0 kinds)); [|exact Hv].
  split; [apply Inv_init|split; [apply KInv_init|]].
  intros i o Hi. cbn [init ops] in Hi. apply nth_error_In, in_map_iff in Hi.
  destruct Hi as ([k c] & <- & _). unfold m_ok, multi_ledger. cbn. auto.
Qed.

(** ** The ledgers are faithful *)

Lemma replace_same {A} (l : list A) i o :
  nth_error l i = Some o -> firstn i l ++ o :: skipn (S i) l = l.
Proof.
  revert i; induction l as [|x l IH]; intros [|i] H; cbn in H; try discriminate.
  - injection H as ->. reflexivity.
  - cbn [firstn skipn app]. f_equal. apply IH. exact H.
Qed.

Lemma set_op_same s i o : nth_error (ops s) i = Some o -> ops (set_op s i o) = ops s.
Proof. intros H. unfold set_op; cbn [ops]. apply replace_same. exact H. Qed.

(** Everything a poll changes, in one statement. *)
Definition poll_frame_post (s : sys) (i : nat) (o : op) (r : sys * list obs) (o' : op) : Prop :=
  ops (fst r) = ops (set_op s i o')
  /\ g_posted (fst r) = g_posted s /\ g_disp (fst r) = g_disp s /\ cq (fst r) = cq s
  /\ g_recv o' = g_recv o
  /\ ((g_in o' = g_in o /\ g_out o' = g_out o ++ filter is_handout (snd r))
      \/ (g_in o' = [] /\ g_out o' = [] /\ filter is_handout (snd r) = []
          /\ (st o' = NotStarted \/ attempts o' = (attempts o + 1)%N))).

Lemma poll_frame s i w o :
  nth_error (ops s) i = Some o -> exists o', poll_frame_post s i o (poll s i w) o'.
Proof.
  intros Hi. unfold poll. rewrite Hi.
  assert (Hps : forall o1, st o1 = NotStarted -> g_recv o1 = g_recv o -> attempts o1 = attempts o ->
            ((g_in o1 = g_in o /\ g_out o1 = g_out o) \/ (g_in o1 = [] /\ g_out o1 = [])) ->
            exists o', poll_frame_post s i o (poll_start s i o1 w) o').
  { intros o1 Hs Hr Ha Hg. unfold poll_start, poll_frame_post. destruct (has_room s); cbn [fst snd];
      eexists; (split; [reflexivity|]); (split; [reflexivity|]); (split; [reflexivity|]);
      (split; [reflexivity|]); cbn [g_recv g_in g_out st attempts filter is_handout].
    - split; [exact Hr|]. right. rewrite Ha. auto.
    - split; [exact Hr|]. destruct Hg as [(A & B)|(A & B)]; rewrite ?A, ?B, ?app_nil_r; auto 6. }
  assert (Hset : forall o' out, g_recv o' = g_recv o -> g_in o' = g_in o ->
            g_out o' = g_out o ++ filter is_handout out ->
            exists o'', poll_frame_post s i o (set_op s i o', out) o'').
  { intros o' out Hr Hgi Hgo. exists o'. unfold poll_frame_post. cbn [fst snd]. auto 10. }
  assert (Hid : forall out, filter is_handout out = [] ->
            exists o'', poll_frame_post s i o (s, out) o'').
  { intros out Hf. exists o. unfold poll_frame_post. cbn [fst snd].
    rewrite Hf, app_nil_r, (set_op_same s i o Hi). auto 10. }
  destruct (st o) eqn:Est.
  - apply Hps; auto.
  - destruct (kd o); [|destruct rs as [|c rs']]; try (apply Hset; op_cbn; rewrite ?app_nil_r; reflexivity).
    destruct (res c <? 0)%Z; apply Hset; op_cbn; reflexivity.
  - assert (Hre : exists o', poll_frame_post s i o (poll_start s i (new_attempt (with_st o NotStarted)) w) o')
      by (apply Hps; op_cbn; auto).
    destruct (kd o); destruct rs as [|c rs'].
    + apply Hid; reflexivity.
    + destruct (0 <=? res c)%Z; [apply Hset; op_cbn; reflexivity|].
      destruct (is_restart c); [exact Hre|apply Hset; op_cbn; reflexivity].
    + apply Hset; op_cbn; reflexivity.
    + destruct (0 <=? res c)%Z; [apply Hset; op_cbn; reflexivity|].
      destruct (is_restart c); [|apply Hset; op_cbn; reflexivity].
      destruct rs'; [exact Hre|apply Hset; op_cbn; rewrite ?app_nil_r; reflexivity].
  - apply Hid; reflexivity.
  - apply Hid; reflexivity.
Qed.

Lemma drop_frame s i o :
  nth_error (ops s) i = Some o ->
  exists o', ops (fst (drop_op s i)) = ops (set_op s i o')
    /\ g_posted (fst (drop_op s i)) = g_posted s /\ g_disp (fst (drop_op s i)) = g_disp s
    /\ cq (fst (drop_op s i)) = cq s
    /\ g_in o' = g_in o /\ g_out o' = g_out o /\ g_recv o' = g_recv o.
Proof.
  intros Hi. unfold drop_op. rewrite Hi.
  destruct (st o); cbn [fst]; try (eexists; repeat split; reflexivity);
    try (exists o; rewrite (set_op_same s i o Hi); repeat split; reflexivity).
  destruct (has_room s); eexists; repeat split; reflexivity.
Qed.

Lemma update_frame s i c o :
  nth_error (ops s) i = Some o -> st o <> NotStarted -> st o <> Complete ->
  exists o', ops (fst (update s i c)) = ops (set_op s i o')
    /\ g_posted (fst (update s i c)) = g_posted s /\ g_disp (fst (update s i c)) = g_disp s
    /\ cq (fst (update s i c)) = cq s
    /\ g_in o' = g_in o ++ [c] /\ g_recv o' = g_recv o ++ [c] /\ g_out o' = g_out o
    /\ ~ In OPanic (snd (update s i c)).
Proof.
  intros Hi Hn Hc. unfold update. rewrite Hi.
  destruct (st o); try congruence.
  - destruct (negb (more c) || _); [destruct (waker o)|]; cbn [fst snd]; eexists;
      repeat split; try reflexivity; cbn; intuition discriminate.
  - destruct (negb (more c) || _); [destruct (waker o)|]; cbn [fst snd]; eexists;
      repeat split; try reflexivity; cbn; intuition discriminate.
  - destruct (more c); cbn [fst snd]; eexists; repeat split; try reflexivity; [cbn; tauto|].
    intros H. apply in_app_iff in H. destruct H as [H|[H|[]]]; [|discriminate].
    destruct (res_live o); [destruct H as [H|[]]; discriminate|destruct H].
Qed.

Lemma nth_error_of_frame s s' i o' :
  i < length (ops s) -> ops s' = ops (set_op s i o') ->
  nth_error (ops s') i = Some o' /\ forall j, j <> i -> nth_error (ops s') j = nth_error (ops s) j.
Proof.
  intros Hlt E. rewrite E. split.
  - rewrite nth_error_set_op, Nat.eqb_refl by exact Hlt. reflexivity.
  - intros j Hj. rewrite nth_error_set_op by exact Hlt. destruct (Nat.eqb_spec j i); [contradiction|reflexivity].
Qed.

Lemma ledgers_faithful_holds : ledgers_faithful.
Proof.
  split; [|split; [|split; [|split; [|split]]]].
  - intros s i w o Hi. destruct (poll_frame s i w o Hi) as (o' & E & _ & _ & _ & Hr & Hl).
    exists o'. split; [|auto].
    apply (nth_error_of_frame s _ i o' (nth_error_lt _ _ _ Hi) E).
  - intros s i c o Hi Hn Hc.
    destruct (update_frame s i c o Hi Hn Hc) as (o' & E & _ & _ & _ & A & B & C & _).
    exists o'. split; [|auto]. apply (nth_error_of_frame s _ i o' (nth_error_lt _ _ _ Hi) E).
  - intros s i j c. apply update_other.
  - intros s i o Hi. destruct (drop_frame s i o Hi) as (o' & E & _ & _ & _ & A & B & C).
    exists o'. split; [|auto]. apply (nth_error_of_frame s _ i o' (nth_error_lt _ _ _ Hi) E).
  - intros s e. unfold somes. cbn [post g_posted cq flat_map]. rewrite app_nil_r. auto.
  - intros s t c r. unfold somes. cbn [pop_cq g_disp flat_map fst snd]. rewrite app_nil_r. reflexivity.
Qed.

(** ** (a) Routing *)

Definition r_ok (d : list (nat * cqe)) (i : nat) (o : op) : Prop :=
  g_recv o = for_op i d /\ exists pre, g_recv o = pre ++ g_in o.

Definition RInv (s : sys) : Prop :=
  g_posted s = g_disp s ++ somes (cq s)
  /\ forall i o, nth_error (ops s) i = Some o -> r_ok (g_disp s) i o.

(** A step that rewrites operation [i] only, keeping [g_recv] and keeping or emptying [g_in]. *)
Lemma RInv_frame s s' i o o' :
  RInv s -> nth_error (ops s) i = Some o -> ops s' = ops (set_op s i o') ->
  g_posted s' = g_posted s -> g_disp s' = g_disp s -> cq s' = cq s ->
  g_recv o' = g_recv o -> (g_in o' = g_in o \/ g_in o' = []) -> RInv s'.
Proof.
  intros [R1 R2] Hi E Ep Ed Ec Hr Hg. split; [rewrite Ep, Ed, Ec; exact R1|].
  destruct (nth_error_of_frame s s' i o' (nth_error_lt _ _ _ Hi) E) as [Hi' Hoth].
  intros j oj Hj. rewrite Ed. destruct (Nat.eq_dec j i) as [->|Hji].
  - rewrite Hi' in Hj. injection Hj as <-. destruct (R2 i o Hi) as [A (pre & B)].
    split; [congruence|]. destruct Hg as [Hg|Hg]; rewrite Hg, Hr.
    + exists pre. exact B.
    + exists (g_recv o). rewrite app_nil_r. reflexivity.
  - rewrite (Hoth j Hji) in Hj. exact (R2 j oj Hj).
Qed.

Lemma RInv_post s e : RInv s -> RInv (post s e).
Proof.
  intros [R1 R2]. split; [|exact R2].
  cbn [post g_posted g_disp cq]. rewrite somes_app, app_assoc, <- R1.
  unfold somes. cbn [flat_map]. rewrite app_nil_r. reflexivity.
Qed.

Lemma RInv_same s s' :
  ops s' = ops s -> g_posted s' = g_posted s -> g_disp s' = g_disp s -> cq s' = cq s ->
  RInv s -> RInv s'.
Proof. intros E1 E2 E3 E4 H. unfold RInv. rewrite E1, E2, E3, E4. exact H. Qed.

Lemma kconsume_R s e : RInv s -> RInv (kconsume s e).
Proof.
  intros H. destruct e as [i|i]; cbn [kconsume]; [apply (RInv_same s); auto|].
  destruct (existsb (Nat.eqb i) (inflight s)); [|apply RInv_post; exact H].
  destruct (nth_error (ops s) i) as [o|]; [|exact H].
  destruct (cancelable o); apply RInv_post; [apply (RInv_same s); auto|exact H].
Qed.

Lemma kconsume_all_R q : forall s, RInv s -> RInv (fold_left kconsume q s).
Proof. induction q as [|e q IH]; intros s H; cbn [fold_left]; [exact H|]. apply IH, kconsume_R, H. Qed.

Lemma phase1_R s : RInv s -> RInv (fst (phase1 s)).
Proof.
  intros H. unfold phase1. destruct (cq s); [|exact H].
  assert (Hk : RInv (fold_left kconsume (sq s) (take_sq s)))
    by (apply kconsume_all_R; apply (RInv_same s); auto).
  destruct (negb _ || negb _); [|exact Hk]. apply (RInv_same _ _ eq_refl eq_refl eq_refl eq_refl Hk).
Qed.

Lemma for_op_snoc_same i d c : for_op i (d ++ [(i, c)]) = for_op i d ++ [c].
Proof. rewrite for_op_app, for_op_one, Nat.eqb_refl. reflexivity. Qed.

Lemma for_op_snoc_other i j d c : j <> i -> for_op i (d ++ [(j, c)]) = for_op i d.
Proof.
  intros H. rewrite for_op_app, for_op_one. destruct (Nat.eqb_spec j i); [contradiction|].
  apply app_nil_r.
Qed.

Lemma update_R s i c r :
  Inv s -> RInv s -> cq s = (Some i, c) :: r ->
  RInv (fst (update (pop_cq s (Some i) c r) i c))
  /\ ~ In OPanic (snd (update (pop_cq s (Some i) c r) i c)).
Proof.
  intros Hinv [R1 R2] Hcq.
  destruct (Inv_cq_status s i c Hinv) as (o & Hi & Hfr & Hst); [rewrite Hcq; left; reflexivity|].
  assert (Hn : st o <> NotStarted /\ st o <> Complete)
    by (destruct Hst as [(rs & ->)| ->]; split; discriminate).
  destruct (update_frame (pop_cq s (Some i) c r) i c o Hi (proj1 Hn) (proj2 Hn))
    as (o' & E & Ep & Ed & Ec & A & B & C & Hnp).
  split; [|exact Hnp]. cbn [pop_cq g_posted g_disp cq] in Ep, Ed, Ec.
  destruct (nth_error_of_frame (pop_cq s (Some i) c r) _ i o' (nth_error_lt _ _ _ Hi) E) as [Hi' Hoth].
  cbn [pop_cq ops] in Hoth. split.
  - rewrite Ep, Ed, Ec, R1, Hcq. unfold somes at 1. cbn [flat_map fst snd].
    fold (somes r). rewrite <- app_assoc. reflexivity.
  - intros j oj Hj. rewrite Ed. destruct (Nat.eq_dec j i) as [->|Hji].
    + rewrite Hi' in Hj. injection Hj as <-. destruct (R2 i o Hi) as [A0 (pre & B0)].
      split; [rewrite B, for_op_snoc_same, A0; reflexivity|].
      exists pre. rewrite B, A, B0, app_assoc. reflexivity.
    + rewrite (Hoth j Hji) in Hj. destruct (R2 j oj Hj) as [A0 B0].
      split; [rewrite for_op_snoc_other by (intros ->; congruence); exact A0|exact B0].
Qed.

Lemma process_R f : forall s, Inv s -> RInv s ->
  RInv (fst (process f s)) /\ ~ In OPanic (snd (process f s)).
Proof.
  induction f as [|f IH]; intros s Hinv HR; cbn [process]; [split; [exact HR|intros []]|].
  destruct (cq s) as [|[t c] r] eqn:Hcq; [split; [exact HR|intros []]|]. destruct t as [i|].
  - destruct (update_R s i c r Hinv HR Hcq) as [Hu Hnp].
    pose proof (update_Inv s i c r Hinv Hcq) as Hi.
    destruct (update (pop_cq s (Some i) c r) i c) as [s1 o1]. cbn [fst snd] in *.
    destruct (IH s1 Hi Hu) as [H1 H2]. destruct (process f s1) as [s2 o2]. cbn [fst snd] in *.
    split; [exact H1|]. intros H. apply in_app_iff in H. tauto.
  - apply IH; [apply Inv_pop_none; assumption|]. destruct HR as [R1 R2]. split.
    + cbn [pop_cq g_posted g_disp cq]. rewrite app_nil_r, R1, Hcq. reflexivity.
    + intros j oj Hj. cbn [pop_cq g_disp]. rewrite app_nil_r. exact (R2 j oj Hj).
Qed.

Lemma phase1_no_panic s : ~ In OPanic (snd (phase1 s)).
Proof.
  assert (Hc : forall q, ~ In OPanic (map OConsumed q))
    by (intros q H; apply in_map_iff in H; destruct H as (x & E & _); discriminate).
  assert (Hw : forall q, ~ In OPanic (map OWake q))
    by (intros q H; apply in_map_iff in H; destruct H as (x & E & _); discriminate).
  unfold phase1. destruct (cq s); [|intros []].
  destruct (negb _ || negb _); cbn [snd wake_blocked]; [|apply Hc].
  intros H. apply in_app_iff in H. destruct H as [H|H]; [exact (Hc _ H)|exact (Hw _ H)].
Qed.

Lemma step_R s e :
  Inv s -> RInv s -> ev_ok s e = true ->
  RInv (fst (step s e)) /\ (e = RingPoll -> ~ In OPanic (snd (step s e))).
Proof.
  intros Hinv HR Hok. destruct e as [i w|i| |i c]; cbn [step fst snd].
  - split; [|discriminate]. cbn [ev_ok] in Hok.
    destruct (nth_error (ops s) i) as [o|] eqn:Hi; [|discriminate].
    destruct (poll_frame s i w o Hi) as (o' & E & Ep & Ed & Ec & Hr & Hl).
    apply (RInv_frame s _ i o o'); auto. destruct Hl as [(A & _)|(A & _)]; auto.
  - split; [|discriminate]. cbn [ev_ok] in Hok.
    destruct (nth_error (ops s) i) as [o|] eqn:Hi; [|discriminate].
    destruct (drop_frame s i o Hi) as (o' & E & Ep & Ed & Ec & A & B & C).
    apply (RInv_frame s _ i o o'); auto.
  - rewrite ring_poll_phases. pose proof (phase1_R s HR) as H1. pose proof (phase1_Inv s Hinv) as H2.
    pose proof (phase1_no_panic s) as H3. destruct (phase1 s) as [s1 o1]. cbn [fst snd] in *.
    destruct (process_R (length (cq s1)) s1 H2 H1) as [Hp Hnp].
    destruct (process (length (cq s1)) s1) as [s2 o2]. cbn [fst snd] in *.
    split; [exact (RInv_same s2 _ eq_refl eq_refl eq_refl eq_refl Hp)|]. intros _ H.
    apply in_app_iff in H. destruct H as [H|H]; [tauto|]. apply in_app_iff in H.
    destruct H as [H|H]; [tauto|]. cbn [wake_blocked snd] in H. apply in_map_iff in H.
    destruct H as (x & E & _). discriminate.
  - split; [|discriminate]. unfold kpost. destruct (existsb _ _); [|exact HR].
    apply RInv_post. destruct (more c); [exact HR|apply (RInv_same s); auto].
Qed.

Lemma RInv_init cap0 kinds : RInv (init cap0 kinds).
Proof.
  split; [reflexivity|]. intros i o Hi. cbn [init ops] in Hi.
  apply nth_error_In, in_map_iff in Hi. destruct Hi as ([k c] & <- & _).
  split; [reflexivity|]. exists []. reflexivity.
Qed.

Lemma routing_exact_holds : routing_exact.
Proof.
  split; [|split; [|split]].
  - intros cap0 kinds es Hv s.
    assert (H : Inv s /\ RInv s).
    { subst s. apply (run_valid_invariant (fun s => Inv s /\ RInv s)); [|split; [apply Inv_init|apply RInv_init]|exact Hv].
      intros s e [Hi HR] Hok. split; [apply step_Inv; assumption|apply step_R; assumption]. }
    destruct H as [_ [R1 R2]]. split; [exact R1|]. intros i o Hi. destruct (R2 i o Hi) as [A B].
    split; [exact A|]. split; [|exact B]. rewrite R1, for_op_app, A. reflexivity.
  - intros f s i c r Hcq. cbn [process]. rewrite Hcq. reflexivity.
  - intros f s c r Hcq. cbn [process]. rewrite Hcq. reflexivity.
  - intros cap0 kinds es out Hv Hin.
    pose (Q := fun (e : ev) (out0 : list obs) => e = RingPoll -> ~ In OPanic out0).
    apply (trace_forall valid (fun s e => ev_ok s e = true) (fun s => Inv s /\ RInv s) Q)
      with (es := es) (s := init cap0 kinds) (e := RingPoll); auto.
    + intros s e [Hi HR] Hok. destruct (step_R s e Hi HR Hok) as [A B].
      split; [split; [apply step_Inv; assumption|exact A]|exact B].
    + split; [apply Inv_init|apply RInv_init].
Qed.

(** ** Extras about single-shot operations *)

Lemma single_result_is_the_only_result_holds : single_result_is_the_only_result.
Proof. intros l c H. unfold result_of. rewrite H. split; reflexivity. Qed.

Lemma single_keeps_last_result_refuted : single_keeps_last_result.
Proof.
  exists [Poll 0 1%N; RingPoll; KPost 0 {| res := 5; more := true; notif := false |};
          KPost 0 {| res := 7; more := false; notif := false |}; RingPoll; Poll 0 2%N].
  vm_compute. repeat split.
Qed.

(** [Complete] is final. *)
Definition c_rel (o o' : op) : Prop := st o = Complete -> st o' = Complete.

Lemma c_rel_refl o : c_rel o o.
Proof. unfold c_rel. auto. Qed.
Lemma c_rel_trans a b c : c_rel a b -> c_rel b c -> c_rel a c.
Proof. unfold c_rel. auto. Qed.

Lemma c_rel_of_frame s s' i o o' :
  nth_error (ops s) i = Some o -> st o <> Complete -> ops s' = ops (set_op s i o') ->
  ops_rel c_rel s s'.
Proof.
  intros Hi Hn E. eapply ops_rel_ext; [exact E|].
  apply (ops_rel_set_op c_rel s i o); [exact c_rel_refl|exact Hi|]. intros H. contradiction.
Qed.

Lemma step_c s e : ops_rel c_rel s (fst (step s e)).
Proof.
  assert (Hsame : forall s', ops s' = ops s -> ops_rel c_rel s s')
    by (intros s' E; apply ops_rel_same; [exact c_rel_refl|exact E]).
  apply step_ops_rel; [exact c_rel_refl|exact c_rel_trans| | |]; clear s e Hsame.
  - intros s i w. destruct (nth_error (ops s) i) as [o|] eqn:Hi.
    + destruct (st o) eqn:Est;
        try (destruct (poll_frame s i w o Hi) as (o' & E & _);
             apply (c_rel_of_frame s _ i o o' Hi); [rewrite Est; discriminate|exact E]).
      unfold poll. rewrite Hi, Est. apply ops_rel_same; [exact c_rel_refl|reflexivity].
    + unfold poll. rewrite Hi. apply ops_rel_same; [exact c_rel_refl|reflexivity].
  - intros s i. destruct (nth_error (ops s) i) as [o|] eqn:Hi.
    + destruct (drop_frame s i o Hi) as (o' & E & _).
      destruct (st o) eqn:Est;
        try (apply (c_rel_of_frame s _ i o o' Hi); [rewrite Est; discriminate|exact E]).
      unfold drop_op. rewrite Hi, Est. cbn [fst].
      apply (ops_rel_set_op c_rel s i o); [exact c_rel_refl|exact Hi|]. intros _. exact Est.
    + unfold drop_op. rewrite Hi. apply ops_rel_same; [exact c_rel_refl|reflexivity].
  - intros s i c. destruct (nth_error (ops s) i) as [o|] eqn:Hi.
    + destruct (st o) eqn:Est;
        try (destruct (update_frame s i c o Hi) as (o' & E & _); [rewrite Est; discriminate..|];
             apply (c_rel_of_frame s _ i o o' Hi); [rewrite Est; discriminate|exact E]);
        unfold update; rewrite Hi, Est; apply ops_rel_same; [exact c_rel_refl|reflexivity|exact c_rel_refl|reflexivity].
    + unfold update. rewrite Hi. apply ops_rel_same; [exact c_rel_refl|reflexivity].
Qed.

(** How many more times operation [i] can resolve. *)
Definition hb (s : sys) (i : nat) : nat :=
  match nth_error (ops s) i with
  | Some o => match st o with Complete => 0 | _ => 1 end
  | None => 0
  end.

Lemma hb_step s e i : hb (fst (step s e)) i <= hb s i.
Proof.
  pose proof (step_c s e i) as H. unfold hb.
  destruct (nth_error (ops s) i) as [o|], (nth_error (ops (fst (step s e))) i) as [o'|];
    try contradiction; [|lia].
  unfold c_rel in H. destruct (st o); try (destruct (st o'); lia). rewrite H by reflexivity. lia.
Qed.

Lemma poll_single_handouts s i w o :
  nth_error (ops s) i = Some o -> kd o = Single ->
  cnt is_handout (snd (poll s i w)) + hb (fst (poll s i w)) i <= hb s i.
Proof.
  intros Hi Hk. pose proof (nth_error_lt _ _ _ Hi) as Hlt.
  assert (Hhb : forall s' o', ops s' = ops (set_op s i o') ->
            hb s' i = match st o' with Complete => 0 | _ => 1 end).
  { intros s' o' E. unfold hb. rewrite E, nth_error_set_op, Nat.eqb_refl by exact Hlt. reflexivity. }
  assert (Hps : forall o1, st o <> Complete ->
            cnt is_handout (snd (poll_start s i o1 w)) + hb (fst (poll_start s i o1 w)) i <= hb s i).
  { intros o1 Hn. unfold hb at 2. rewrite Hi. unfold poll_start.
    destruct (has_room s); cbn [fst snd]; unfold hb; cbn [push_sq push_blocked ops];
      rewrite nth_error_set_op, Nat.eqb_refl by exact Hlt; cbn [st];
      destruct (st o); try congruence; destruct (st o1); cbn; lia. }
  unfold poll. rewrite Hi, Hk. destruct (st o) eqn:Est.
  - apply Hps. congruence.
  - cbn [fst snd]. rewrite (Hhb _ _ eq_refl). unfold hb. rewrite Hi, Est. op_cbn. rewrite Est. cbn. lia.
  - destruct rs as [|c rs']; [cbn [fst snd]; cbn; lia|].
    destruct (0 <=? res c)%Z.
    + cbn [fst snd]. rewrite (Hhb _ _ eq_refl). unfold hb. rewrite Hi, Est. op_cbn. cbn. lia.
    + destruct (is_restart c); [apply Hps; congruence|].
      cbn [fst snd]. rewrite (Hhb _ _ eq_refl). unfold hb. rewrite Hi, Est. op_cbn. cbn. lia.
  - cbn [fst snd]. cbn. lia.
  - cbn [fst snd]. cbn. lia.
Qed.

Definition outs_of (i : nat) (p : ev * list obs) : list obs :=
  match fst p with
  | Poll j _ => if Nat.eqb j i then snd p else []
  | _ => []
  end.

Lemma single_resolves_once_holds : single_resolves_once.
Proof.
  intros cap0 kinds es i Hkind.
  assert (H : forall es s, kind_at s i = Some Single ->
            cnt is_handout (flat_map (outs_of i) (trace s es)) <= hb s i).
  { clear. induction es as [|e es IH]; intros s Hk; cbn [trace flat_map]; [rewrite cnt_nil; lia|].
    assert (Hk' : kind_at (fst (step s e)) i = Some Single).
    { unfold kind_at in *. pose proof (step_stable s e i) as Hs.
      destruct (nth_error (ops s) i) as [o|]; [|discriminate].
      destruct (nth_error (ops (fst (step s e))) i) as [o'|]; [|contradiction].
      cbn in *. destruct Hs as (Hkd & _). congruence. }
    pose proof (hb_step s e i) as Hb.
    assert (Hstep : cnt is_handout (outs_of i (e, snd (step s e))) + hb (fst (step s e)) i <= hb s i).
    { destruct e as [j w|j| |j c]; unfold outs_of; cbn [fst snd]; try (rewrite cnt_nil; lia).
      destruct (Nat.eqb_spec j i) as [->|]; [|rewrite cnt_nil; lia]. cbn [step].
      unfold kind_at in Hk. destruct (nth_error (ops s) i) as [o|] eqn:Hi; [|discriminate].
      cbn in Hk. apply (poll_single_handouts s i w o Hi). congruence. }
    specialize (IH (fst (step s e)) Hk'). destruct (step s e) as [s1 o1]. cbn [fst snd] in *.
    cbn [flat_map]. rewrite cnt_app. lia. }
  specialize (H es (init cap0 kinds) Hkind).
  assert (hb (init cap0 kinds) i <= 1) by (unfold hb; destruct (nth_error _ i) as [o|]; [destruct (st o)|]; lia).
  unfold outs_of in H. lia.
Qed.

Lemma outputs_refine_kernel_script_holds : outputs_refine_kernel_script.
Proof.
  split; [exact routing_exact_holds|]. split; [|split; [|exact ledgers_faithful_holds]].
  - intros cap0 kinds es Hv s i o Hi Hk. exact (multi_ledger_reachable cap0 kinds es Hv i o Hi Hk).
  - intros cap0 kinds es s i o Hi Hk. exact (single_ledger_reachable cap0 kinds es i o Hi Hk).
Qed.

(** ** Non-vacuity: two operations completing interleaved, a multishot stream handing out its
    results in order and ending once, a two-step send reporting its first result after the
    notification. *)
Example ledger_histories :
  valid_k2m (init 4 [(Multi, true); (Single, true)])
    [Poll 0 1%N; Poll 1 2%N; RingPoll;
     KPost 0 {| res := 5; more := true; notif := false |};
     KPost 1 {| res := 30; more := true; notif := false |};
     KPost 0 {| res := 6; more := false; notif := false |}; RingPoll;
     Poll 1 2%N; Poll 0 1%N; Poll 0 1%N;
     KPost 1 {| res := 0; more := false; notif := true |}; RingPoll;
     Poll 1 2%N; Poll 0 1%N]
  /\ snd (run step (init 4 [(Multi, true); (Single, true)])
       [Poll 0 1%N; Poll 1 2%N; RingPoll;
        KPost 0 {| res := 5; more := true; notif := false |};
        KPost 1 {| res := 30; more := true; notif := false |};
        KPost 0 {| res := 6; more := false; notif := false |}; RingPoll;
        Poll 1 2%N; Poll 0 1%N; Poll 0 1%N;
        KPost 1 {| res := 0; more := false; notif := true |}; RingPoll;
        Poll 1 2%N; Poll 0 1%N])
     = [OPending; OPending; OConsumed (Submit 0); OConsumed (Submit 1); OWake 1%N;
        OPending; OReady 5; OReady 6; OWake 2%N; OReady 30; OEnd; OFreeRes 0].
Proof. vm_compute. repeat split. Qed.

(** Proofs about Model/BufTraits.v. *)
From A10 Require Import Base.Word Model.BufTraits.
From Coq Require Import ZifyN ZifyBool.
Ltac Zify.zify_post_hook ::= Z.div_mod_to_equations.

Local Ltac unf := unfold wf, in_alloc, lim_buf_parts, lim_mut_parts, lim_buf_len, lim_buf_is_empty,
  lim_mut_spare, lim_mut_has_spare, skip_parts in *;
  unfold buf_parts, mut_parts, buf_len, buf_is_empty, mut_spare, mut_has_spare,
  clamp32, trunc32, two32, two64, satsub in *; cbn [fst snd inner limit] in *.

(** ** Single buffers *)
Lemma buf_parts_in_alloc b : wf b -> in_alloc b (buf_parts b).
Proof. unf. intros. lia. Qed.

Lemma mut_parts_in_alloc b : wf b -> in_alloc b (mut_parts b).
Proof. unf. intros. lia. Qed.

Lemma lim_buf_parts_in_alloc b l : wf b -> in_alloc b (lim_buf_parts {| inner := b; limit := l |}).
Proof. unf. intros. lia. Qed.

Lemma lim_mut_parts_in_alloc b l : wf b -> in_alloc b (lim_mut_parts {| inner := b; limit := l |}).
Proof. unf. intros. lia. Qed.

Lemma skip_parts_in_alloc b s : wf b -> in_alloc b (skip_parts b s).
Proof.
  unfold skip_parts, buf_parts. intros Hwf.
  destruct (trunc32 (len b) <=? s) eqn:E; unf; lia.
Qed.

Lemma buf_len_agrees b : wf b -> buf_len b = snd (buf_parts b) /\ buf_is_empty b = (snd (buf_parts b) =? 0).
Proof. unf. intros. split; [lia|]. f_equal. lia. Qed.

Lemma mut_spare_agrees b :
  wf b -> mut_spare b = snd (mut_parts b) /\ mut_has_spare b = negb (snd (mut_parts b) =? 0)
          /\ snd (mut_parts b) = cap b - len b.
Proof. unf. intros. repeat split; lia. Qed.

Lemma lim_buf_len_agrees b l :
  wf b -> let lb := {| inner := b; limit := l |} in
  lim_buf_len lb = snd (lim_buf_parts lb) /\ lim_buf_is_empty lb = (snd (lim_buf_parts lb) =? 0)
  /\ snd (lim_buf_parts lb) <= l.
Proof. intros Hwf; cbv zeta; unf. split; [|split]; blia. Qed.

Lemma lim_mut_spare_agrees b l :
  wf b -> let lb := {| inner := b; limit := l |} in
  lim_mut_spare lb = snd (lim_mut_parts lb)
  /\ lim_mut_has_spare lb = negb (snd (lim_mut_parts lb) =? 0)
  /\ snd (lim_mut_parts lb) <= l.
Proof. intros Hwf; cbv zeta; unf. split; [|split]; blia. Qed.

(** H6: the code before the repair disagreed with itself for limits of 2^32 and more. *)
Lemma lim_buf_parts_h6_refuted :
  exists b l, wf b /\ snd (lim_buf_parts_h6 {| inner := b; limit := l |})
                      <> lim_buf_len {| inner := b; limit := l |}.
Proof.
  exists {| base := 4096; len := 10; cap := 10 |}, (two32 + 3).
  split; [unfold wf; cbn; unfold two32, two64; lia | vm_compute; congruence].
Qed.

(** [as_slice] shows exactly the bytes of [parts], for every limit; never a panic. *)
Definition as_slice_shows_parts : Prop :=
  forall b, wf b -> forall lim,
    buf_as_slice b = Some (buf_parts b)
    /\ lim_buf_as_slice {| inner := b; limit := lim |} = Some (lim_buf_parts {| inner := b; limit := lim |})
    /\ in_alloc b (lim_buf_parts {| inner := b; limit := lim |}).
Lemma as_slice_shows_parts_holds : as_slice_shows_parts.
Proof.
  intros b Hwf lim. split; [|split; [reflexivity | apply lim_buf_parts_in_alloc; exact Hwf]].
  unfold buf_as_slice, buf_parts. f_equal. f_equal. revert Hwf. unf. intros. lia.
Qed.
Example as_slice_shows_parts_nonvacuous :
  wf {| base := 4096; len := 12; cap := 16 |}
  /\ lim_buf_as_slice {| inner := {| base := 4096; len := 12; cap := 16 |}; limit := 1024 |} = Some (4096, 12).
Proof. split; [unfold wf; cbn; unfold two32, two64; lia | vm_compute; reflexivity]. Qed.

(** Seeded change C14-k: slicing by the limit panics for a limit above the length, while
    [len] still reports the visible bytes. *)
Lemma lim_buf_as_slice_k_refuted :
  exists b l, wf b /\ lim_buf_as_slice_k {| inner := b; limit := l |} = None
              /\ lim_buf_len {| inner := b; limit := l |} = len b.
Proof.
  exists {| base := 4096; len := 12; cap := 12 |}, 1024.
  split; [unfold wf; cbn; unfold two32, two64; lia | vm_compute; split; reflexivity].
Qed.

Lemma mut_set_init_spec b n :
  wf b -> n <= snd (mut_parts b) ->
  wf (mut_set_init b n) /\ len (mut_set_init b n) = len b + n
  /\ base (mut_set_init b n) = base b /\ cap (mut_set_init b n) = cap b.
Proof. unfold mut_set_init. unf. cbn [base len cap]. intros. repeat split; lia. Qed.

Lemma lim_mut_set_init_spec b l n :
  limit (lim_mut_set_init {| inner := b; limit := l |} n) = l - n.
Proof. reflexivity. Qed.

(** ** Slices *)
Lemma sum_lens_cons i r : sum_lens (i :: r) = snd i + sum_lens r.
Proof. reflexivity. Qed.

Lemma sum_lens_slice bs : Forall wf bs -> sum_lens (slice_iovecs bs) = slice_total_len bs.
Proof.
  induction 1 as [|b bs Hb _ IH]; [reflexivity|].
  change (slice_iovecs (b :: bs)) with (buf_parts b :: slice_iovecs bs).
  change (slice_total_len (b :: bs)) with (buf_len b + slice_total_len bs).
  rewrite sum_lens_cons, IH. destruct (buf_len_agrees b Hb) as [-> _]. reflexivity.
Qed.

Lemma slice_is_empty_agrees bs :
  Forall wf bs -> slice_is_empty bs = (sum_lens (slice_iovecs bs) =? 0).
Proof.
  induction 1 as [|b bs Hb _ IH]; [reflexivity|].
  change (slice_iovecs (b :: bs)) with (buf_parts b :: slice_iovecs bs).
  change (slice_is_empty (b :: bs)) with (buf_is_empty b && slice_is_empty bs).
  rewrite sum_lens_cons, IH. destruct (buf_len_agrees b Hb) as [_ ->]. blia.
Qed.

Lemma sum_lens_mslice bs : Forall wf bs -> sum_lens (mslice_iovecs bs) = mslice_total_spare bs.
Proof.
  induction 1 as [|b bs Hb _ IH]; [reflexivity|].
  change (mslice_iovecs (b :: bs)) with (mut_parts b :: mslice_iovecs bs).
  change (mslice_total_spare (b :: bs)) with (mut_spare b + mslice_total_spare bs).
  rewrite sum_lens_cons, IH. destruct (mut_spare_agrees b Hb) as [-> _]. reflexivity.
Qed.

Lemma mslice_has_spare_agrees bs :
  Forall wf bs -> mslice_has_spare bs = negb (sum_lens (mslice_iovecs bs) =? 0).
Proof.
  induction 1 as [|b bs Hb _ IH]; [reflexivity|].
  change (mslice_iovecs (b :: bs)) with (mut_parts b :: mslice_iovecs bs).
  change (mslice_has_spare (b :: bs)) with (mut_has_spare b || mslice_has_spare bs).
  rewrite sum_lens_cons, IH. destruct (mut_spare_agrees b Hb) as [_ [-> _]]. blia.
Qed.

Lemma slice_iovecs_in_alloc bs : Forall wf bs -> Forall2 in_alloc bs (slice_iovecs bs).
Proof. induction 1; cbn; constructor; auto using buf_parts_in_alloc. Qed.

Lemma mslice_iovecs_in_alloc bs : Forall wf bs -> Forall2 in_alloc bs (mslice_iovecs bs).
Proof. induction 1; cbn; constructor; auto using mut_parts_in_alloc. Qed.

(** Clamping iovecs keeps each inside its allocation and sums to [min total limit]. *)
Lemma limit_iovecs_in_alloc bs iovs l :
  Forall2 in_alloc bs iovs -> Forall2 in_alloc bs (limit_iovecs iovs l).
Proof.
  intros H; revert l; induction H as [|b [p n] bs iovs Hb _ IH]; intros l; cbn; [constructor|].
  destruct (n <=? l) eqn:E; constructor; auto.
  unfold in_alloc in *; cbn in *. lia.
Qed.

Lemma limit_iovecs_sum iovs l : sum_lens (limit_iovecs iovs l) = N.min (sum_lens iovs) l.
Proof.
  revert l; induction iovs as [|[p n] r IH]; intros l; cbn [limit_iovecs]; [cbn; lia|].
  destruct (n <=? l) eqn:E; rewrite !sum_lens_cons, IH; cbn [snd]; lia.
Qed.

Lemma limit_iovecs_length iovs l : length (limit_iovecs iovs l) = length iovs.
Proof. revert l; induction iovs as [|[p n] r IH]; intros l; cbn; [reflexivity|].
       destruct (n <=? l); cbn; rewrite IH; reflexivity. Qed.

(** Each clamped iovec starts where the original starts and is no longer. *)
Lemma limit_iovecs_prefix iovs l :
  Forall2 (fun i j => fst j = fst i /\ snd j <= snd i) iovs (limit_iovecs iovs l).
Proof.
  revert l; induction iovs as [|[p n] r IH]; intros l; cbn; [constructor|].
  destruct (n <=? l) eqn:E; constructor; cbn; auto; lia.
Qed.

Lemma skip_iovecs_in_alloc bs iovs s :
  Forall2 in_alloc bs iovs -> Forall2 in_alloc bs (skip_iovecs iovs s).
Proof.
  intros H; revert s; induction H as [|b [p n] bs iovs Hb Hr IH]; intros s; cbn; [constructor|].
  destruct (n <=? s) eqn:E; constructor; auto; unfold in_alloc in *; cbn in *; lia.
Qed.

Lemma skip_iovecs_sum iovs s : sum_lens (skip_iovecs iovs s) = sum_lens iovs - s.
Proof.
  revert s; induction iovs as [|[p n] r IH]; intros s; cbn [skip_iovecs]; [cbn; lia|].
  destruct (n <=? s) eqn:E; rewrite !sum_lens_cons; [rewrite IH|]; cbn [snd]; lia.
Qed.

(** ** set_init across a slice *)
Fixpoint add_lens (bs : list vbuf) (ds : list N) : list vbuf :=
  match bs, ds with
  | b :: bs', d :: ds' => mut_set_init b d :: add_lens bs' ds'
  | _, _ => bs
  end.

Lemma add_lens_zeros bs :
  add_lens bs (distribute 0 (map snd (mslice_iovecs bs))) = bs.
Proof.
  induction bs as [|b bs IH]; [reflexivity|].
  change (mslice_iovecs (b :: bs)) with (mut_parts b :: mslice_iovecs bs).
  cbn [map distribute add_lens].
  replace (N.min 0 (snd (mut_parts b))) with 0 by lia.
  replace (0 - 0) with 0 by lia. rewrite IH.
  unfold mut_set_init. rewrite N.add_0_r. destruct b; reflexivity.
Qed.

Lemma mslice_set_init_spec bs n :
  Forall wf bs -> bs <> [] -> n <= sum_lens (mslice_iovecs bs) ->
  mslice_set_init bs n = Some (add_lens bs (distribute n (map snd (mslice_iovecs bs)))).
Proof.
  intros Hwf; revert n; induction Hwf as [|b bs Hb Hbs IH]; intros n Hne Hn; [congruence|].
  change (mslice_iovecs (b :: bs)) with (mut_parts b :: mslice_iovecs bs) in *.
  rewrite sum_lens_cons in Hn.
  cbn [mslice_set_init map distribute add_lens].
  set (l := snd (mut_parts b)) in *. clearbody l.
  destruct (l <? n) eqn:E.
  - assert (Hmin : N.min n l = l) by lia. rewrite Hmin.
    destruct bs as [|b' bs'].
    + cbn in Hn. lia.
    + rewrite IH; [reflexivity|congruence|lia].
  - assert (Hmin : N.min n l = n) by lia. rewrite Hmin.
    replace (n - n) with 0 by lia.
    rewrite add_lens_zeros. reflexivity.
Qed.

Lemma distribute_sum n cs : n <= fold_right N.add 0 cs -> fold_right N.add 0 (distribute n cs) = n.
Proof.
  revert n; induction cs as [|c cs IH]; intros n H; cbn in *; [lia|].
  rewrite IH; lia.
Qed.

Lemma distribute_le n cs : Forall2 (fun d c => d <= c) (distribute n cs) cs.
Proof. revert n; induction cs as [|c cs IH]; intros n; cbn; constructor; auto; lia. Qed.

(** Front to back: a buffer receives bytes only once all earlier ones are full. *)
Lemma distribute_front_to_back n cs pre c d post :
  cs = pre ++ c :: post -> nth (length pre) (distribute n cs) 0 = d -> 0 < d ->
  firstn (length pre) (distribute n cs) = pre.
Proof.
  intros ->; revert n; induction pre as [|p pre IH]; intros n Hd Hpos; cbn in *; [reflexivity|].
  destruct (N.ltb_spec n p) as [Hlt|Hge].
  - (* n < p: everything after gets 0 *)
    exfalso. replace (N.min n p) with n in * by lia. replace (n - n) with 0 in * by lia.
    clear IH. revert Hd Hpos. generalize (pre ++ c :: post) as xs. intros xs.
    revert xs. induction (length pre) as [|k IHk]; intros [|x xs]; cbn; intros; subst; try lia.
    + replace (0 - N.min 0 x) with 0 in * by lia. eapply IHk; eauto.
  - replace (N.min n p) with p in * by lia. f_equal. eapply IH; eauto.
Qed.

Lemma add_lens_same_alloc bs ds :
  map base (add_lens bs ds) = map base bs /\ map cap (add_lens bs ds) = map cap bs.
Proof.
  revert ds; induction bs as [|b bs IH]; intros [|d ds]; cbn; auto.
  destruct (IH ds) as [-> ->]. auto.
Qed.

Lemma add_lens_len bs ds :
  length ds = length bs ->
  map len (add_lens bs ds) = map (fun '(b, d) => len b + d) (combine bs ds).
Proof.
  revert ds; induction bs as [|b bs IH]; intros [|d ds]; cbn; intros H; try congruence; auto.
  rewrite IH by congruence. reflexivity.
Qed.

(** ** The four laws of C14, assembled. *)
Definition all_exposed_in_bounds : Prop :=
  forall bs, Forall wf bs -> forall lim skip,
    Forall2 in_alloc bs (slice_iovecs bs)
    /\ Forall2 in_alloc bs (mslice_iovecs bs)
    /\ Forall2 in_alloc bs (lim_slice_iovecs {| inner := bs; limit := lim |})
    /\ Forall2 in_alloc bs (lim_mslice_iovecs {| inner := bs; limit := lim |})
    /\ Forall2 in_alloc bs (skip_iovecs (slice_iovecs bs) skip)
    /\ (forall b, In b bs ->
          in_alloc b (buf_parts b) /\ in_alloc b (mut_parts b)
          /\ in_alloc b (lim_buf_parts {| inner := b; limit := lim |})
          /\ in_alloc b (lim_mut_parts {| inner := b; limit := lim |})
          /\ in_alloc b (skip_parts b skip)).

Lemma all_exposed_in_bounds_holds : all_exposed_in_bounds.
Proof.
  intros bs Hwf lim skip. unfold lim_slice_iovecs, lim_mslice_iovecs; cbn [inner limit].
  split; [apply slice_iovecs_in_alloc; assumption|].
  split; [apply mslice_iovecs_in_alloc; assumption|].
  split; [apply limit_iovecs_in_alloc, slice_iovecs_in_alloc; assumption|].
  split; [apply limit_iovecs_in_alloc, mslice_iovecs_in_alloc; assumption|].
  split; [apply skip_iovecs_in_alloc, slice_iovecs_in_alloc; assumption|].
  intros b Hb. rewrite Forall_forall in Hwf. specialize (Hwf b Hb).
  split; [apply buf_parts_in_alloc; assumption|].
  split; [apply mut_parts_in_alloc; assumption|].
  split; [apply lim_buf_parts_in_alloc; assumption|].
  split; [apply lim_mut_parts_in_alloc; assumption|].
  apply skip_parts_in_alloc; assumption.
Qed.

Definition reported_lengths_agree : Prop :=
  forall bs, Forall wf bs -> forall lim,
    (* single buffers *)
    (forall b, In b bs ->
       buf_len b = snd (buf_parts b) /\ buf_is_empty b = (snd (buf_parts b) =? 0)
       /\ mut_spare b = snd (mut_parts b) /\ mut_has_spare b = negb (snd (mut_parts b) =? 0)
       /\ (let lb := {| inner := b; limit := lim |} in
           lim_buf_len lb = snd (lim_buf_parts lb)
           /\ lim_buf_is_empty lb = (snd (lim_buf_parts lb) =? 0)
           /\ lim_mut_spare lb = snd (lim_mut_parts lb)
           /\ lim_mut_has_spare lb = negb (snd (lim_mut_parts lb) =? 0)))
    (* slices of any arity *)
    /\ slice_total_len bs = sum_lens (slice_iovecs bs)
    /\ slice_is_empty bs = (sum_lens (slice_iovecs bs) =? 0)
    /\ mslice_total_spare bs = sum_lens (mslice_iovecs bs)
    /\ mslice_has_spare bs = negb (sum_lens (mslice_iovecs bs) =? 0)
    /\ (let lb := {| inner := bs; limit := lim |} in
        lim_slice_total_len lb = sum_lens (lim_slice_iovecs lb)
        /\ lim_slice_is_empty lb = (sum_lens (lim_slice_iovecs lb) =? 0)
        /\ (mslice_total_spare bs < two32 ->
            lim_mslice_total_spare lb = sum_lens (lim_mslice_iovecs lb))
        /\ lim_mslice_has_spare lb = negb (sum_lens (lim_mslice_iovecs lb) =? 0)).

Lemma reported_lengths_agree_holds : reported_lengths_agree.
Proof.
  intros bs Hwf lim. split; [|repeat split].
  - intros b Hb. rewrite Forall_forall in Hwf. specialize (Hwf b Hb).
    destruct (buf_len_agrees b Hwf) as [? ?]. destruct (mut_spare_agrees b Hwf) as [? [? _]].
    destruct (lim_buf_len_agrees b lim Hwf) as [? [? _]].
    destruct (lim_mut_spare_agrees b lim Hwf) as [? [? _]].
    cbv zeta. repeat split; assumption.
  - symmetry; apply sum_lens_slice; assumption.
  - apply slice_is_empty_agrees; assumption.
  - symmetry; apply sum_lens_mslice; assumption.
  - apply mslice_has_spare_agrees; assumption.
  - unfold lim_slice_total_len, lim_slice_iovecs; cbn [inner limit].
    rewrite limit_iovecs_sum, sum_lens_slice by assumption. reflexivity.
  - unfold lim_slice_is_empty, lim_slice_iovecs; cbn [inner limit].
    rewrite limit_iovecs_sum, slice_is_empty_agrees by assumption. blia.
  - intros Hlt. unfold lim_mslice_total_spare, lim_mslice_iovecs, clamp32; cbn [inner limit].
    rewrite limit_iovecs_sum, sum_lens_mslice by assumption. unfold two32 in *. lia.
  - unfold lim_mslice_has_spare, lim_mslice_iovecs; cbn [inner limit].
    rewrite limit_iovecs_sum, mslice_has_spare_agrees by assumption. blia.
Qed.

Definition set_init_appends_in_order : Prop :=
  forall bs n, Forall wf bs -> bs <> [] -> n <= sum_lens (mslice_iovecs bs) ->
    let exposed := map snd (mslice_iovecs bs) in
    let ds := distribute n exposed in
    exists bs',
      mslice_set_init bs n = Some bs'
      (* same allocations *)
      /\ map base bs' = map base bs /\ map cap bs' = map cap bs
      (* buffer i grew by ds[i] ... *)
      /\ map len bs' = map (fun '(b, d) => len b + d) (combine bs ds)
      (* ... the growths sum to n, none exceeds what the buffer exposed ... *)
      /\ fold_right N.add 0 ds = n /\ Forall2 (fun d c => d <= c) ds exposed
      (* ... and a buffer grows only after every earlier one is full. *)
      /\ (forall pre c post, exposed = pre ++ c :: post -> 0 < nth (length pre) ds 0 ->
            firstn (length pre) ds = pre).

Lemma distribute_length n cs : length (distribute n cs) = length cs.
Proof. revert n; induction cs; intros; cbn; auto. Qed.

Lemma sum_lens_map_snd iovs : fold_right N.add 0 (map snd iovs) = sum_lens iovs.
Proof. induction iovs as [|i r IH]; cbn; [reflexivity|]. rewrite IH. reflexivity. Qed.

Lemma set_init_appends_in_order_holds : set_init_appends_in_order.
Proof.
  intros bs n Hwf Hne Hn exposed ds.
  exists (add_lens bs ds). subst ds exposed.
  split; [apply mslice_set_init_spec; assumption|].
  destruct (add_lens_same_alloc bs (distribute n (map snd (mslice_iovecs bs)))) as [Hb Hc].
  split; [exact Hb|]. split; [exact Hc|].
  split. { apply add_lens_len. rewrite distribute_length, map_length. unfold mslice_iovecs. apply map_length. }
  split. { apply distribute_sum. rewrite sum_lens_map_snd. exact Hn. }
  split. { apply distribute_le. }
  intros pre c post Hex Hpos. eapply distribute_front_to_back; eauto.
Qed.

(** The counting wrapper forwards [set_init] unchanged and its count is the size of the last
    transfer for EVERY n, 0 included (a stale count after a transfer of 0 bytes would make the
    read loops of read_n / recv_n miss the end of the stream: seeded change C14-c). *)
Definition counting_wrapper_counts_every_transfer : Prop :=
  (forall r n, rn_buf (readn_set_init r n) = mut_set_init (rn_buf r) n
               /\ rn_last (readn_set_init r n) = n)
  /\ (forall r n, match readn_mslice_set_init r n with
                  | Some r' => mslice_set_init (rn_buf r) n = Some (rn_buf r') /\ rn_last r' = n
                  | None => mslice_set_init (rn_buf r) n = None
                  end)
  (* in particular after [k > 0] then [0] the count is 0 *)
  /\ (forall r k, rn_last (readn_set_init (readn_set_init r k) 0) = 0).

Lemma counting_wrapper_counts_every_transfer_holds : counting_wrapper_counts_every_transfer.
Proof.
  split; [|split].
  - intros r n. split; reflexivity.
  - intros r n. unfold readn_mslice_set_init.
    destruct (mslice_set_init (rn_buf r) n) as [bs|]; [split; reflexivity|reflexivity].
  - intros r k. reflexivity.
Qed.

Definition limit_never_exceeded : Prop :=
  forall bs lim,
    sum_lens (lim_slice_iovecs {| inner := bs; limit := lim |}) <= lim
    /\ sum_lens (lim_mslice_iovecs {| inner := bs; limit := lim |}) <= lim
    /\ (forall b, snd (lim_buf_parts {| inner := b; limit := lim |}) <= lim
               /\ snd (lim_mut_parts {| inner := b; limit := lim |}) <= lim)
    /\ (forall n b, limit (lim_mut_set_init {| inner := b; limit := lim |} n) = lim - n)
    /\ (forall n bs', lim_mslice_set_init {| inner := bs; limit := lim |} n = Some bs' ->
                      BufTraits.limit bs' = lim - n).

Lemma limit_never_exceeded_holds : limit_never_exceeded.
Proof.
  intros bs lim. unfold lim_slice_iovecs, lim_mslice_iovecs; cbn [inner limit].
  rewrite !limit_iovecs_sum. repeat split; try lia.
  - unfold lim_buf_parts, buf_parts, clamp32; cbn. lia.
  - unfold lim_mut_parts, mut_parts, clamp32; cbn. lia.
  - intros n bs'. unfold lim_mslice_set_init; cbn [inner limit].
    destruct (mslice_set_init bs n); intros H; inversion H; reflexivity.
Qed.

(** Non-vacuity: a concrete three-buffer slice meets the hypotheses. *)
Example c14_example :
  let bs := [ {| base := 4096; len := 3; cap := 8 |};
              {| base := 8192; len := 0; cap := 0 |};
              {| base := 12288; len := 1; cap := 4 |} ] in
  Forall wf bs /\ bs <> [] /\ 7 <= sum_lens (mslice_iovecs bs)
  /\ mslice_set_init bs 7 = Some [ {| base := 4096; len := 8; cap := 8 |};
                                   {| base := 8192; len := 0; cap := 0 |};
                                   {| base := 12288; len := 3; cap := 4 |} ].
Proof.
  cbv zeta. split; [|split; [|split]].
  - repeat constructor; unfold two32, two64; cbn; lia.
  - congruence.
  - vm_compute. congruence.
  - vm_compute. reflexivity.
Qed.

(** Proofs about Model/OpRace.v: the race between futures polled / dropped on future threads
    and [Ring::poll] on the ring thread, at the granularity of the hook-B scheduling points.
    Statements for C02 (own results, once, in order), C03 (wake-ups) and C06 (reclamation,
    cancellation) over ALL numbers of operations and threads, operation kinds (single-shot,
    multishot, two-step), kernel completion scripts, capacities, programs and interleavings: one
    invariant, proved by induction over the event list. *)
From A10 Require Import Base.Word Base.Run Model.OpRace.
From Coq Require Import ZifyN ZifyBool ZifyNat Permutation.
Ltac Zify.zify_post_hook ::= Z.div_mod_to_equations.
Local Open Scope nat_scope.

(** * API usage: who may call what

    Rust's ownership rules, stated on the programs: an operation is used by one thread only
    ([&mut] access to the future), and dropping it is the last thing that happens to it. Polling
    again after Ready is allowed (the model panics like the code). *)
Definition mentions (i : nat) (c : call) : bool :=
  match c with Poll j _ | DropOp j => Nat.eqb j i | Yield => false end.
Definition uses (p : list call) (i : nat) : Prop := exists c, In c p /\ mentions i c = true.
Fixpoint linear (p : list call) : Prop :=
  match p with
  | [] => True
  | c :: r => match c with DropOp i => ~ uses r i | _ => True end /\ linear r
  end.
Definition progs_ok (progs : list (list call)) : Prop :=
  (forall t, linear (nth t progs []))
  /\ (forall t1 t2 i, uses (nth t1 progs []) i -> uses (nth t2 progs []) i -> t1 = t2).

(** * Counting what the kernel owes an operation *)
Definition is_submit (i : nat) (e : sqe) : bool := match e with Submit j => Nat.eqb j i | Cancel _ => false end.
Definition is_cop (i : nat) (c : centry) : bool := match c with COp j _ => Nat.eqb j i | CBook => false end.
(** A FINAL completion of operation [i] (no IORING_CQE_F_MORE). *)
Definition is_fin (i : nat) (c : centry) : bool :=
  match c with COp j x => Nat.eqb j i && negb (c_more x) | CBook => false end.
Definition cnt {A : Type} (f : A -> bool) (l : list A) : nat := length (filter f l).
(** What the kernel still owes operation [i] before it is done with it: its submission queued, its
    request in flight, or its FINAL completion posted and not yet processed. (Completions with
    F_MORE are not counted: more will come.) *)
Definition tokens (s : sys) (i : nat) : nat :=
  cnt (is_submit i) (sq s) + cnt (Nat.eqb i) (inflight s) + cnt (is_fin i) (cq s).
(** Every completion of [i] waiting in the queue has the request still in flight or a final
    completion of [i] at or behind it: the kernel posts nothing after a final completion. *)
Fixpoint covered (i : nat) (nfl : nat) (q : list centry) : Prop :=
  match q with
  | [] => True
  | e :: r => (is_cop i e = true -> 1 <= nfl + cnt (is_fin i) q) /\ covered i nfl r
  end.
(** The completions of operation [i] in a queue, in order. *)
Definition ents (i : nat) (q : list centry) : list cqe :=
  flat_map (fun e => match e with COp j c => if Nat.eqb j i then [c] else [] | CBook => [] end) q.
(** LEDGER of what the kernel posted for operation [i]: what was dispatched to it ([g_disp], ghost)
    followed by what is waiting in the completion queue (real state). It only grows, at its end
    (clause (P) of [race_results_are_own_in_order]). *)
Definition posted (s : sys) (i : nat) : list cqe := g_disp (ops s i) ++ ents i (cq s).
Definition has_final (l : list cqe) : bool := existsb (fun c => negb (c_more c)) l.
(** [Singleshot::update] over a list of completions: the result of the last one without F_NOTIF. *)
Definition last_res (l : list cqe) : Z := fold_left (fun acc c => if c_notif c then acc else c_res c) l 0%Z.
Definition is_multi (k : kind) : bool := match k with Multi => true | _ => false end.
(** The kernel may still touch the operation's state: submitted and not yet reaped. *)
Definition live (x : status) : bool := match x with Running | Dropped => true | _ => false end.

Definition in_add (p : fpc) : bool :=
  match p with
  | FAddH1 | FAddT1 | FSubLock | FSubSpin | FAddH2 | FAddT2 | FFill | FStore => true
  | _ => false
  end.

(** What is known about future thread [t] in the middle of a call: inside [Submissions::add] it
    holds the mutex of the operation its current call is about, whose status has not changed
    since the call looked at it; on its way to the blocked list the operation is still not started. *)
Definition thread_ok (s : sys) (t : nat) : Prop :=
  let f := thr s t in
  (in_add (f_pc f) = true ->
     match f_prog f with
     | Poll i _ :: _ => o_st (ops s i) = NotStarted /\ o_holder (ops s i) = Some t
     | DropOp i :: _ => o_st (ops s i) = Running /\ o_holder (ops s i) = Some t
     | _ => False
     end)
  /\ (f_pc f = FBlockedLock ->
     match f_prog f with
     | Poll i _ :: _ => o_st (ops s i) = NotStarted
     | _ => False
     end).

(** The invariant, clause by clause. *)
Definition P_own (s : sys) : Prop :=
  forall t1 t2 i, uses (f_prog (thr s t1)) i -> uses (f_prog (thr s t2)) i -> t1 = t2.
Definition P_lin (s : sys) : Prop := forall t, linear (f_prog (thr s t)).
(** a freed or dropped operation is not mentioned by any remaining program *)
Definition P_gone (s : sys) : Prop :=
  forall i, o_alloc (ops s i) = false \/ o_st (ops s i) = Dropped -> forall t, ~ uses (f_prog (thr s t)) i.
Definition P_thr (s : sys) : Prop := forall t, thread_ok s t.
(** C03: while the latest waker has not been woken it is the stored one; for a stream, no result is queued either *)
Definition P_A (s : sys) : Prop :=
  forall i w, o_st (ops s i) = Running -> g_lastw (ops s i) = Some w -> g_woken (ops s i) = false ->
    o_waker (ops s i) = Some w /\ (o_kind (ops s i) = Multi -> o_q (ops s i) = []).
Definition P_B (s : sys) : Prop :=
  forall i w, o_st (ops s i) = Done -> g_lastw (ops s i) = Some w -> g_woken (ops s i) = true.
(** C02: the ledgers of one operation *)
Definition ledger_ok (o : op) : Prop :=
  (o_st o = NotStarted -> g_disp o = [] /\ g_out o = [])
  /\ (o_st o = Done \/ o_st o = Complete -> has_final (g_disp o) = true)
  /\ match o_kind o with
     | Multi =>
         (exists rest, map c_res (g_disp o) = g_out o ++ rest)
         /\ (o_st o = Running \/ o_st o = Done -> map c_res (g_disp o) = g_out o ++ o_q o)
         /\ (o_st o = Complete -> map c_res (g_disp o) = g_out o)
     | Single | TwoStep =>
         (o_st o = Running \/ o_st o = Done -> o_res o = last_res (g_disp o) /\ g_out o = [])
         /\ (o_st o = Complete -> g_out o = [last_res (g_disp o)])
         /\ (o_st o = Dropped -> g_out o = [])
     end.
Definition P_L (s : sys) : Prop := forall i, ledger_ok (ops s i).
Definition P_cov (s : sys) : Prop := forall i, covered i (cnt (Nat.eqb i) (inflight s)) (cq s).
(** C06 / C01 *)
Definition P_tk (s : sys) : Prop :=
  forall i, tokens s i = if o_alloc (ops s i) && live (o_st (ops s i)) then 1 else 0.
Definition P_F (s : sys) : Prop := forall i, g_frees (ops s i) = if o_alloc (ops s i) then 0 else 1.
Definition P_C (s : sys) : Prop :=
  forall i, g_cancels (ops s i) = 0 \/ (g_cancels (ops s i) = 1 /\ o_st (ops s i) = Dropped).
Definition P_C2 (s : sys) : Prop := forall i, In (Cancel i) (sq s) -> o_st (ops s i) = Dropped.
Definition P_bad (s : sys) : Prop := g_bad s = false.
(** queue counters and the locals of wake_blocked_futures *)
Definition P_sq (s : sys) : Prop := (sqh s <= sqt s)%N /\ N.of_nat (length (sq s)) = (sqt s - sqh s)%N.
Definition P_wb (s : sys) : Prop :=
  (r_pc s = RWbT -> r_lh s = sqh s)
  /\ (r_pc s = RWbTry -> 1 <= r_avail s /\ (cap s <= N.of_nat (r_avail s) + (sqt s - sqh s))%N)
  /\ (r_pc s <> RWbLock -> r_rest s = []).
(** no parked waker is ever lost *)
Definition P_park (s : sys) : Prop := Permutation (g_parked s) (g_bwoken s ++ blocked s ++ r_rest s).

Record Inv (s : sys) : Prop := {
  inv_own : P_own s; inv_lin : P_lin s; inv_gone : P_gone s; inv_thr : P_thr s;
  inv_A : P_A s; inv_B : P_B s; inv_L : P_L s; inv_cov : P_cov s;
  inv_tk : P_tk s; inv_F : P_F s; inv_C : P_C s; inv_C2 : P_C2 s; inv_bad : P_bad s;
  inv_sq : P_sq s; inv_wb : P_wb s; inv_park : P_park s;
}.

(** * Tactics: projections of updated records *)
Ltac ssimpl :=
  cbn [cap auto ops sqh sqt sq sub_holder inflight scripts cq blocked r_pc r_polls r_lh r_n r_end r_avail
       r_rest thr g_parked g_bwoken g_bad
       set_ops set_op set_thr set_sq set_sub_holder set_kernel set_kernel_scr set_blocked set_ring set_rpc set_bad
       poll_return fst snd
       f_pc f_prog f_lh at_pc at_pc_lh call_done dead
       o_kind o_st o_waker o_holder o_alloc o_started o_cancelable o_res o_q
       g_lastw g_woken g_frees g_cancels g_disp g_out
       mk_op o_lock o_unlock o_repoll o_submitted o_ready o_item o_end o_parked o_dropped o_free o_seen
       o_accept] in *.

Lemma upd_same {A} (f : nat -> A) i x : upd f i x i = x.
Proof. unfold upd. rewrite Nat.eqb_refl. reflexivity. Qed.
Lemma upd_other {A} (f : nat -> A) i j x : j <> i -> upd f i x j = f j.
Proof. unfold upd. intros H. destruct (Nat.eqb_spec j i); [contradiction|reflexivity]. Qed.

Ltac updcase j i :=
  unfold upd in *; destruct (Nat.eqb_spec j i) as [?Heq|?Hne]; [subst|].

(** * Lists *)
Lemma cnt_app {A} (f : A -> bool) l1 l2 : cnt f (l1 ++ l2) = cnt f l1 + cnt f l2.
Proof. unfold cnt. rewrite filter_app, app_length. reflexivity. Qed.
Lemma cnt_nil {A} (f : A -> bool) : cnt f [] = 0.
Proof. reflexivity. Qed.
Lemma cnt_cons {A} (f : A -> bool) x l : cnt f (x :: l) = (if f x then 1 else 0) + cnt f l.
Proof. unfold cnt. cbn [filter]. destruct (f x); reflexivity. Qed.
Lemma cnt_split {A} (f : A -> bool) k l : cnt f l = cnt f (firstn k l) + cnt f (skipn k l).
Proof. rewrite <- cnt_app, firstn_skipn. reflexivity. Qed.

Lemma mem_cnt i l : mem i l = true -> 1 <= cnt (Nat.eqb i) l.
Proof.
  unfold mem. induction l as [|x l IH]; cbn [existsb]; [discriminate|].
  rewrite cnt_cons. destruct (Nat.eqb i x); cbn [orb]; intros H; [lia|]. specialize (IH H). lia.
Qed.
Lemma cnt_remove_same i l : mem i l = true -> S (cnt (Nat.eqb i) (remove_first i l)) = cnt (Nat.eqb i) l.
Proof.
  unfold mem. induction l as [|x l IH]; cbn [existsb remove_first]; [discriminate|].
  destruct (Nat.eqb i x) eqn:E; cbn [orb]; intros H.
  - rewrite cnt_cons, E. lia.
  - rewrite !cnt_cons, E. rewrite <- (IH H). lia.
Qed.
Lemma cnt_remove_other i j l : i <> j -> cnt (Nat.eqb i) (remove_first j l) = cnt (Nat.eqb i) l.
Proof.
  intros Hij. induction l as [|x l IH]; cbn [remove_first]; [reflexivity|].
  destruct (Nat.eqb_spec j x) as [->|Hjx].
  - rewrite cnt_cons. destruct (Nat.eqb_spec i x); [contradiction|]. reflexivity.
  - rewrite !cnt_cons, IH. reflexivity.
Qed.

(** * Programs only shrink *)
Lemma uses_tl p i : uses (tl p) i -> uses p i.
Proof. destruct p as [|c r]; [exact (fun H => H)|]. intros [x [Hx Hm]]. exists x. split; [right; exact Hx|exact Hm]. Qed.
Lemma uses_nil i : ~ uses [] i.
Proof. intros [x [[] _]]. Qed.
Lemma linear_tl p : linear p -> linear (tl p).
Proof. destruct p as [|c r]; [exact (fun H => H)|]. intros [_ H]. exact H. Qed.
Lemma uses_hd c r i : mentions i c = true -> uses (c :: r) i.
Proof. intros H. exists c. split; [left; reflexivity|exact H]. Qed.

Definition shrinks (p p' : list call) : Prop := p' = p \/ p' = tl p \/ p' = [].
Lemma shrinks_uses p p' i : shrinks p p' -> uses p' i -> uses p i.
Proof. intros [->|[->| ->]] H; [exact H|apply uses_tl; exact H|destruct (uses_nil _ H)]. Qed.
Lemma shrinks_linear p p' : shrinks p p' -> linear p -> linear p'.
Proof. intros [->|[->| ->]] H; [exact H|apply linear_tl; exact H|exact I]. Qed.

(** * Frames: the kernel and the dispatch loop *)

Lemma covered_mono i n n' q : covered i n q -> n <= n' -> covered i n' q.
Proof.
  intros H Hle. induction q as [|e r IH]; [exact I|]. destruct H as [H1 H2].
  split; [intros Hc; specialize (H1 Hc); lia|exact (IH H2)].
Qed.

(** Appending a completion while the in-flight count goes from [n] to [n']. *)
Lemma covered_app i n n' q e :
  covered i n q -> n <= n' + (if is_fin i e then 1 else 0) ->
  (is_cop i e = true -> 1 <= n' + (if is_fin i e then 1 else 0)) ->
  covered i n' (q ++ [e]).
Proof.
  intros H Hle He. induction q as [|x r IH]; cbn [app covered].
  - split; [|exact I]. intros Hc. rewrite cnt_cons, cnt_nil. specialize (He Hc). lia.
  - destruct H as [H1 H2]. split; [|exact (IH H2)].
    intros Hc. specialize (H1 Hc). change (x :: r ++ [e]) with ((x :: r) ++ [e]).
    rewrite cnt_app, (cnt_cons _ e), cnt_nil. lia.
Qed.

Lemma covered_tl i n e q : covered i n (e :: q) -> covered i n q.
Proof. intros [_ H]. exact H. Qed.

Lemma ents_app i q1 q2 : ents i (q1 ++ q2) = ents i q1 ++ ents i q2.
Proof. unfold ents. apply flat_map_app. Qed.

Lemma is_fin_cop i e : is_fin i e = true -> is_cop i e = true.
Proof. destruct e as [j c|]; cbn [is_fin is_cop]; [|discriminate]. destruct (Nat.eqb j i); [reflexivity|discriminate]. Qed.

(** What the kernel does to its own state when it consumes submissions / posts: the in-flight
    table and the completion queue change, the queue only by appending. *)
Definition kframe (s : sys) (fl : list nat) (q : list centry) (extra : nat -> nat) : Prop :=
  (forall i, cnt (Nat.eqb i) fl + cnt (is_fin i) q
             = cnt (Nat.eqb i) (inflight s) + cnt (is_fin i) (cq s) + extra i)
  /\ (forall i, covered i (cnt (Nat.eqb i) (inflight s)) (cq s) -> covered i (cnt (Nat.eqb i) fl) q)
  /\ (exists add, q = cq s ++ add).

Lemma kconsume_eq s e : exists fl q, kconsume s e = set_kernel s fl q
  /\ kframe s fl q (fun i => if is_submit i e then 1 else 0).
Proof.
  destruct e as [j|j]; cbn [kconsume is_submit].
  - destruct (auto s).
    + exists (inflight s), (cq s ++ [COp j auto_cqe]). split; [reflexivity|]. split; [|split].
      * intros i. rewrite cnt_app, cnt_cons, cnt_nil. cbn [is_fin auto_cqe fin c_more negb]. rewrite andb_true_r. lia.
      * intros i H. apply (covered_app i _ _ _ _ H); cbn [is_fin is_cop auto_cqe fin c_more negb]; rewrite andb_true_r;
          destruct (Nat.eqb j i); intros; try discriminate; lia.
      * eexists; reflexivity.
    + exists (inflight s ++ [j]), (cq s). split; [reflexivity|]. split; [|split].
      * intros i. rewrite cnt_app, cnt_cons, cnt_nil. rewrite (Nat.eqb_sym i j). lia.
      * intros i H. apply (covered_mono i _ _ _ H). rewrite cnt_app. lia.
      * exists []. rewrite app_nil_r. reflexivity.
  - destruct (mem j (inflight s)) eqn:Hm; [destruct (o_cancelable (ops s j))|].
    + exists (remove_first j (inflight s)), (cq s ++ [COp j (fin (- ECANCELED))]). split; [reflexivity|]. split; [|split].
      * intros i. rewrite cnt_app, cnt_cons, cnt_nil. cbn [is_fin fin c_more negb]. rewrite andb_true_r.
        destruct (Nat.eqb_spec j i) as [->|Hne].
        -- pose proof (cnt_remove_same i _ Hm). lia.
        -- rewrite cnt_remove_other by congruence. lia.
      * intros i H. apply (covered_app i _ _ _ _ H); cbn [is_fin is_cop fin c_more negb]; rewrite andb_true_r;
          destruct (Nat.eqb_spec j i) as [->|Hne]; intros; try discriminate;
          try (pose proof (cnt_remove_same i _ Hm); lia); rewrite cnt_remove_other by congruence; lia.
      * eexists; reflexivity.
    + exists (inflight s), (cq s ++ [CBook]). split; [reflexivity|]. split; [|split].
      * intros i. rewrite cnt_app, cnt_cons, cnt_nil. cbn [is_fin]. lia.
      * intros i H. apply (covered_app i _ _ _ _ H); cbn [is_fin is_cop]; intros; try discriminate; lia.
      * eexists; reflexivity.
    + exists (inflight s), (cq s ++ [CBook]). split; [reflexivity|]. split; [|split].
      * intros i. rewrite cnt_app, cnt_cons, cnt_nil. cbn [is_fin]. lia.
      * intros i H. apply (covered_app i _ _ _ _ H); cbn [is_fin is_cop]; intros; try discriminate; lia.
      * eexists; reflexivity.
Qed.

Lemma kconsume_all_eq taken : forall s, exists fl q, fold_left kconsume taken s = set_kernel s fl q
  /\ kframe s fl q (fun i => cnt (is_submit i) taken).
Proof.
  induction taken as [|e r IH]; intros s; cbn [fold_left].
  - exists (inflight s), (cq s). split; [destruct s; reflexivity|]. split; [|split].
    + intros i. rewrite cnt_nil. lia.
    + intros i H. exact H.
    + exists []. rewrite app_nil_r. reflexivity.
  - destruct (kconsume_eq s e) as [fl1 [q1 [E1 [H1 [C1 [a1 A1]]]]]]. rewrite E1.
    destruct (IH (set_kernel s fl1 q1)) as [fl2 [q2 [E2 [H2 [C2 [a2 A2]]]]]]. rewrite E2.
    exists fl2, q2. split; [reflexivity|]. split; [|split].
    + intros i. specialize (H1 i). specialize (H2 i). ssimpl. rewrite cnt_cons. lia.
    + intros i H. apply (C2 i). ssimpl. apply (C1 i). exact H.
    + ssimpl. subst q1 q2. exists (a1 ++ a2). rewrite app_assoc. reflexivity.
Qed.

(** The kernel posts the next scripted completion of a request. *)
Lemma kpost_eq s i : exists fl sc q, kpost s i = set_kernel_scr s fl sc q /\ kframe s fl q (fun _ => 0).
Proof.
  unfold kpost. destruct (mem i (inflight s)) eqn:Hm.
  2:{ exists (inflight s), (scripts s), (cq s). split; [destruct s; reflexivity|]. split; [|split].
      - intros j. lia.
      - intros j H. exact H.
      - exists []. rewrite app_nil_r. reflexivity. }
  destruct (scripts s i) as [|c r] eqn:Hs.
  { exists (inflight s), (scripts s), (cq s). split; [destruct s; reflexivity|]. split; [|split].
    - intros j. lia.
    - intros j H. exact H.
    - exists []. rewrite app_nil_r. reflexivity. }
  pose proof (mem_cnt i _ Hm) as Hge.
  destruct (c_more c) eqn:Hmore.
  - exists (inflight s), (upd (scripts s) i r), (cq s ++ [COp i c]). split; [reflexivity|]. split; [|split].
    + intros j. rewrite cnt_app, cnt_cons, cnt_nil. cbn [is_fin]. rewrite Hmore. cbn [negb]. rewrite andb_false_r. lia.
    + intros j H. apply (covered_app j _ _ _ _ H); cbn [is_fin is_cop]; rewrite Hmore; cbn [negb]; rewrite andb_false_r; [lia|].
      destruct (Nat.eqb_spec i j) as [->|Hne]; intros; try discriminate. lia.
    + eexists; reflexivity.
  - exists (remove_first i (inflight s)), (upd (scripts s) i r), (cq s ++ [COp i c]). split; [reflexivity|]. split; [|split].
    + intros j. rewrite cnt_app, cnt_cons, cnt_nil. cbn [is_fin]. rewrite Hmore. cbn [negb]. rewrite andb_true_r.
      destruct (Nat.eqb_spec i j) as [->|Hne].
      * pose proof (cnt_remove_same j _ Hm). lia.
      * rewrite cnt_remove_other by congruence. lia.
    + intros j H. apply (covered_app j _ _ _ _ H); cbn [is_fin is_cop]; rewrite Hmore; cbn [negb]; rewrite andb_true_r;
        destruct (Nat.eqb_spec i j) as [->|Hne]; intros; try discriminate;
        try (pose proof (cnt_remove_same j _ Hm); lia); rewrite cnt_remove_other by congruence; lia.
    + eexists; reflexivity.
Qed.

Lemma skip_book_frame n q : forall i,
  cnt (is_fin i) (snd (skip_book n q)) = cnt (is_fin i) q
  /\ ents i (snd (skip_book n q)) = ents i q
  /\ (forall m, covered i m q -> covered i m (snd (skip_book n q))).
Proof.
  revert q. induction n as [|n IH]; intros q i; [split; [reflexivity|split; [reflexivity|auto]]|].
  destruct q as [|[j c|] q']; cbn [skip_book snd];
    [split; [reflexivity|split; [reflexivity|auto]]|split; [reflexivity|split; [reflexivity|auto]]|].
  destruct (IH q' i) as [H1 [H2 H3]]. rewrite H1, H2, cnt_cons. cbn [is_fin ents flat_map app].
  split; [reflexivity|split; [reflexivity|]]. intros m [_ H]. apply H3. exact H.
Qed.

(** [advance] only drops bookkeeping completions and moves the ring thread to the operation's
    mutex or to the head store. *)
Lemma advance_eq s : exists q n p,
  advance s = set_ring (set_kernel s (inflight s) q) p (r_polls s) (r_lh s) n (r_end s) (r_avail s) (r_rest s)
  /\ (forall i, cnt (is_fin i) q = cnt (is_fin i) (cq s))
  /\ (forall i, ents i q = ents i (cq s))
  /\ (forall i m, covered i m (cq s) -> covered i m q)
  /\ (p = RDisp \/ p = RStoreHead).
Proof.
  unfold advance. pose proof (skip_book_frame (r_n s) (cq s)) as Hc.
  destruct (skip_book (r_n s) (cq s)) as [n q]. cbn [snd] in Hc.
  destruct n as [|n']; [|destruct q as [|[j c|] q']];
    eexists _, _, _; (split; [reflexivity|]); (split; [intros i; apply (Hc i)|]);
    (split; [intros i; apply (Hc i)|]); (split; [intros i; apply (Hc i)|auto]).
Qed.

(** * Initial state *)
Lemma init_inv cap0 auto0 kinds canc scr npolls progs : progs_ok progs -> Inv (init cap0 auto0 kinds canc scr npolls progs).
Proof.
  intros [Hlin Hown].
  constructor; unfold P_own, P_lin, P_gone, P_thr, thread_ok, P_A, P_B, P_L, ledger_ok, P_cov, P_tk, P_F, P_C, P_C2, P_bad, P_sq, P_wb, P_park;
    cbn [init ops thr f_prog f_pc new_op o_kind o_st o_alloc o_waker o_res o_q g_lastw g_disp g_out
    g_frees g_cancels o_holder g_woken sq sqh sqt cq inflight blocked r_pc r_avail r_rest r_lh g_parked
    g_bwoken g_bad cap covered]; unfold tokens; cbn [init sq inflight cq ops new_op o_alloc o_st live andb]; intros;
    try discriminate; try reflexivity; auto.
  - eapply Hown; eassumption.
  - destruct H as [H|H]; discriminate.
  - split; intros; discriminate.
  - split; [auto|]. split; [intros [H|H]; discriminate|].
    destruct (nth i kinds Single); repeat split; intros; try discriminate; try (destruct H; discriminate); auto.
    exists []. reflexivity.
  - contradiction.
  - split; [lia|reflexivity].
  - split; [|split]; intros; try discriminate; reflexivity.
Qed.

(** * Case analysis of one step

    [step_split s e HI] replaces a goal about [fst (step s e)] (the invariant clause must be
    folded) by one goal per path through the step function, with the new state spelled out. *)
Ltac expose_frames :=
  repeat match goal with
  | |- context [advance ?x] =>
      let E := fresh "Eadv" in let Hc := fresh "Hadvc" in let Hp := fresh "Hadvp" in
      let He := fresh "Hadve" in let Hv := fresh "Hadvcov" in
      destruct (advance_eq x) as [?q [?n [?p [E [Hc [He [Hv Hp]]]]]]]; rewrite E; clear E
  | |- context [fold_left kconsume ?l ?x] =>
      let E := fresh "Ekc" in let Hc := fresh "Hkc" in
      let Hv := fresh "Hkcov" in let Ha := fresh "Hkadd" in
      destruct (kconsume_all_eq l x) as [?fl [?q [E [Hc [Hv Ha]]]]]; rewrite E; clear E
  | |- context [kpost ?x ?i] =>
      let E := fresh "Ekp" in let Hc := fresh "Hkc" in
      let Hv := fresh "Hkcov" in let Ha := fresh "Hkadd" in
      destruct (kpost_eq x i) as [?fl [?sc [?q [E [Hc [Hv Ha]]]]]]; rewrite E; clear E
  end.

Ltac split_matches :=
  repeat match goal with
  | |- context [match ?x with _ => _ end] =>
      lazymatch x with
      | context [match _ with _ => _ end] => fail
      | _ => destruct x eqn:?; cbv beta iota zeta
      end
  end.

Ltac fut_split s k HI :=
  let Hk1 := fresh "Hk1" in let Hk2 := fresh "Hk2" in
  destruct (inv_thr _ HI k) as [Hk1 Hk2]; cbv beta zeta in Hk1, Hk2;
  unfold fstep, call_start, add_ok, add_failed, sq_full; cbv beta zeta;
  destruct (f_pc (thr s k)) eqn:Hpc; cbn [in_add] in Hk1;
  try specialize (Hk1 eq_refl); try specialize (Hk2 eq_refl);
  destruct (f_prog (thr s k)) as [|[?i ?w|?i|] ?r] eqn:Hprog;
  try contradiction;
  try (lazymatch type of Hk1 with _ /\ _ =>
         let Hst := fresh "Hmidst" in let Hho := fresh "Hmidho" in destruct Hk1 as [Hst Hho] end);
  split_matches.

Ltac ring_split s :=
  unfold rstep_with, rstep_gen, dispatch_with, o_update, enter, wb_done, begin_dispatch; cbv beta iota zeta;
  destruct (r_pc s) eqn:Hpc;
  split_matches.

Ltac step_split s e HI :=
  unfold step, step_with;
  destruct e as [[|?k]|?i];
  [ ring_split s | fut_split s k HI | cbv beta iota zeta ];
  expose_frames; ssimpl.

(** Programs only shrink. *)
Lemma step_shrinks s e : Inv s -> forall t, shrinks (f_prog (thr s t)) (f_prog (thr (fst (step s e)) t)).
Proof.
  intros HI t. unfold shrinks.
  step_split s e HI; try (left; reflexivity);
    try (updcase t k; [ssimpl; rewrite ?Hprog; cbn [tl]; auto|left; reflexivity]).
Qed.

Lemma step_own s e : Inv s -> P_own (fst (step s e)).
Proof.
  intros HI t1 t2 i H1 H2. apply (inv_own _ HI t1 t2 i); eapply shrinks_uses; eauto using step_shrinks.
Qed.
Lemma step_lin s e : Inv s -> P_lin (fst (step s e)).
Proof. intros HI t. eapply shrinks_linear; [apply step_shrinks; exact HI|apply (inv_lin _ HI)]. Qed.

(** A thread whose current call is about operation [i]: the box is allocated and not dropped. *)
Lemma uses_alive s k i : Inv s -> uses (f_prog (thr s k)) i ->
  o_alloc (ops s i) = true /\ o_st (ops s i) <> Dropped.
Proof.
  intros HI Hu. pose proof (inv_gone _ HI i) as Hg. split.
  - destruct (o_alloc (ops s i)); [reflexivity|]. destruct (Hg (or_introl eq_refl) k Hu).
  - intros Hd. destruct (Hg (or_intror Hd) k Hu).
Qed.
Lemma poll_alive s k i w r : Inv s -> f_prog (thr s k) = Poll i w :: r ->
  o_alloc (ops s i) = true /\ o_st (ops s i) <> Dropped.
Proof. intros HI Hp. apply (uses_alive s k i HI). rewrite Hp. apply uses_hd. cbn. apply Nat.eqb_refl. Qed.
Lemma drop_alive s k i r : Inv s -> f_prog (thr s k) = DropOp i :: r ->
  o_alloc (ops s i) = true /\ o_st (ops s i) <> Dropped.
Proof. intros HI Hp. apply (uses_alive s k i HI). rewrite Hp. apply uses_hd. cbn. apply Nat.eqb_refl. Qed.

(** A completion of operation [i] waiting in the queue (final or not): the box is allocated, the
    operation running or dropped. *)
Lemma cop_alive s i c q : Inv s -> cq s = COp i c :: q ->
  o_alloc (ops s i) = true /\ live (o_st (ops s i)) = true.
Proof.
  intros HI Hq. pose proof (inv_tk _ HI i) as Ht. pose proof (inv_cov _ HI i) as Hc. unfold tokens in Ht.
  rewrite Hq in Hc. destruct Hc as [Hc _]. cbn [is_cop] in Hc. rewrite Nat.eqb_refl in Hc. specialize (Hc eq_refl).
  rewrite <- Hq in Hc.
  destruct (o_alloc (ops s i)); destruct (live (o_st (ops s i))); cbn [andb] in Ht; try lia; auto.
Qed.

(** What one step can do to one operation. *)
Inductive op_trans (o : op) : op -> Prop :=
  | ot_same : op_trans o o
  | ot_lock t : o_holder o = None -> o_alloc o = true -> o_st o <> Dropped -> op_trans o (o_lock o t)
  | ot_unlock : o_st o = NotStarted -> op_trans o (o_unlock o)
  | ot_repoll w : o_st o = Running -> o_alloc o = true -> (o_kind o = Multi -> o_q o = []) -> op_trans o (o_repoll o w)
  | ot_submitted w : o_st o = NotStarted -> o_alloc o = true -> op_trans o (o_submitted o w)
  | ot_ready : o_kind o <> Multi -> o_st o = Done -> op_trans o (o_ready o)
  | ot_item v q' : o_kind o = Multi -> o_st o = Running \/ o_st o = Done -> o_q o = v :: q' -> op_trans o (o_item o v q')
  | ot_end : o_kind o = Multi -> o_st o = Done -> o_q o = [] -> op_trans o (o_end o)
  | ot_parked w : o_st o = NotStarted -> op_trans o (o_parked o w)
  | ot_dropped b : o_st o = Running -> op_trans o (o_dropped o b)
  | ot_free_drop : o_alloc o = true -> o_st o <> Running -> o_st o <> Dropped -> op_trans o (o_free o)
  | ot_free_disp c : o_alloc o = true -> o_st o = Dropped -> c_more c = false -> op_trans o (o_free (o_seen o c))
  | ot_seen c : o_alloc o = true -> o_st o = Dropped -> c_more c = true -> op_trans o (o_seen o c)
  | ot_accept c wk : o_st o = Running -> o_alloc o = true -> wk = negb (c_more c) || is_multi (o_kind o) ->
      op_trans o (o_accept o c wk).

Ltac alive_facts s HI :=
  try match goal with
  | Hp : f_prog (thr s ?k) = Poll ?i ?w :: ?r |- _ =>
      let Ha := fresh "Halive" in let Hd := fresh "Hnd" in destruct (poll_alive s k i w r HI Hp) as [Ha Hd]
  | Hp : f_prog (thr s ?k) = DropOp ?i :: ?r |- _ =>
      let Ha := fresh "Halive" in let Hd := fresh "Hnd" in destruct (drop_alive s k i r HI Hp) as [Ha Hd]
  end;
  try match goal with
  | Hq : cq s = COp ?i ?c :: ?q |- _ =>
      let Ha := fresh "Halive" in let Hl := fresh "Hlive" in destruct (cop_alive s i c q HI Hq) as [Ha Hl]
  end.

Lemma step_op_trans s e : Inv s -> forall j, op_trans (ops s j) (ops (fst (step s e)) j).
Proof.
  intros HI j.
  step_split s e HI; try apply ot_same; alive_facts s HI;
    try (updcase j i; [|apply ot_same]);
    try match goal with H : o_st (ops s ?i) = _ |- _ => rewrite H in *; cbn [live] in * end;
    try discriminate;
    try (solve [constructor; (assumption || congruence || discriminate || (left; assumption) || (right; assumption))]);
    try (solve [apply ot_accept; try assumption; try reflexivity;
                repeat match goal with H : c_more _ = _ |- _ => rewrite H | H : o_kind _ = _ |- _ => rewrite H end; reflexivity]).
Qed.

(** ** The clauses about a single operation follow from the transition table. *)
Ltac ot_cases H := inversion H; subst; clear H; ssimpl.

Lemma waker_eqb_refl w : waker_eqb (Some w) (Some w) = true.
Proof. cbn. apply N.eqb_refl. Qed.

Lemma step_A s e : Inv s -> P_A (fst (step s e)).
Proof.
  intros HI j w. pose proof (step_op_trans s e HI j) as Hot. pose proof (inv_A _ HI j w) as HA.
  revert Hot HA. generalize (ops s j) (ops (fst (step s e)) j). intros o o' Hot HA.
  inversion Hot; subst; ssimpl; intros Hst Hl Hw; try discriminate; try congruence;
    try (apply HA; assumption).
  - (* re-poll *) injection Hl as <-. split; [reflexivity|assumption].
  - (* submitted *) injection Hl as <-. split; reflexivity.
  - (* a completion is dispatched *)
    destruct (c_more c) eqn:Hm; [|discriminate]. cbn [negb orb] in *.
    destruct (is_multi (o_kind o)) eqn:Hk.
    + exfalso. apply orb_false_elim in Hw. destruct Hw as [Hw1 Hw2].
      destruct (HA Hst Hl Hw1) as [HA1 _]. rewrite HA1, Hl, waker_eqb_refl in Hw2. discriminate.
    + destruct (HA Hst Hl Hw) as [HA1 _]. split; [exact HA1|].
      intros Hk'. rewrite Hk' in Hk. discriminate.
Qed.

Lemma step_B s e : Inv s -> P_B (fst (step s e)).
Proof.
  intros HI j w. pose proof (step_op_trans s e HI j) as Hot.
  pose proof (inv_A _ HI j w) as HA. pose proof (inv_B _ HI j w) as HB.
  revert Hot HA HB. generalize (ops s j) (ops (fst (step s e)) j). intros o o' Hot HA HB.
  inversion Hot; subst; ssimpl; intros Hst Hl; try discriminate; try congruence; eauto.
  (* a completion is dispatched: if final, the registered waker is the latest one *)
  destruct (c_more c) eqn:Hm; [congruence|]. cbn [negb orb].
  destruct (g_woken o) eqn:Hw; [reflexivity|]. cbn [orb].
  match goal with H : o_st o = Running |- _ => destruct (HA H Hl eq_refl) as [HA1 _] end.
  rewrite HA1, Hl. apply waker_eqb_refl.
Qed.

Lemma has_final_app l c : has_final (l ++ [c]) = has_final l || negb (c_more c).
Proof. unfold has_final. rewrite existsb_app. cbn [existsb]. rewrite orb_false_r. reflexivity. Qed.
Lemma last_res_app l c : last_res (l ++ [c]) = if c_notif c then last_res l else c_res c.
Proof. unfold last_res. rewrite fold_left_app. reflexivity. Qed.

Lemma ledger_step o o' : op_trans o o' -> ledger_ok o -> ledger_ok o'.
Proof.
  intros Hot [L1 [L2 L3]]. unfold ledger_ok.
  inversion Hot; subst; ssimpl; try (split; [exact L1|split; [exact L2|exact L3]]).
  - (* submitted *)
    destruct (L1 ltac:(assumption)) as [Hd Ho]. rewrite Hd, Ho.
    split; [intros; discriminate|]. split; [intros [?|?]; discriminate|].
    destruct (o_kind o); cbn [map app last_res fold_left].
    all: repeat split; intros; try discriminate; try reflexivity; try (exists []; reflexivity).
  - (* ready *)
    split; [intros; discriminate|]. split; [intros _; apply L2; left; assumption|].
    destruct (o_kind o); [|congruence|].
    all: destruct L3 as [L3 _]; destruct (L3 ltac:(right; assumption)) as [Hr Ho]; rewrite Ho, Hr.
    all: repeat split; intros; try discriminate; try (destruct H1; congruence); try congruence; reflexivity.
  - (* item *)
    match goal with H : o_kind o = Multi |- _ => rewrite H in * end.
    destruct L3 as [_ [L3 _]]. specialize (L3 ltac:(assumption)).
    match goal with H : o_q o = _ |- _ => rewrite H in L3 end.
    split; [intros Hn; destruct H0; congruence|]. split; [exact L2|].
    split; [exists q'; rewrite <- app_assoc; exact L3|].
    split; [intros _; rewrite <- app_assoc; exact L3|].
    intros Hc. destruct H0; congruence.
  - (* end *)
    match goal with H : o_kind o = Multi |- _ => rewrite H in * end.
    destruct L3 as [_ [L3 _]]. specialize (L3 ltac:(right; assumption)).
    match goal with H : o_q o = _ |- _ => rewrite H, app_nil_r in L3 end.
    split; [intros; discriminate|]. split; [intros _; apply L2; left; assumption|].
    split; [exists []; rewrite app_nil_r; exact L3|]. split; [intros [?|?]; discriminate|]. intros _. exact L3.
  - (* dropped *)
    split; [intros; discriminate|]. split; [intros [?|?]; discriminate|].
    destruct (o_kind o).
    + destruct L3 as [L3 _]. destruct (L3 ltac:(left; assumption)) as [_ Ho].
      repeat split; intros; try discriminate; try (destruct H0; discriminate); exact Ho.
    + destruct L3 as [L3 _]. split; [exact L3|]. split; [intros [?|?]; discriminate|intros; discriminate].
    + destruct L3 as [L3 _]. destruct (L3 ltac:(left; assumption)) as [_ Ho].
      repeat split; intros; try discriminate; try (destruct H0; discriminate); exact Ho.
  - (* dispatch frees a dropped operation *)
    split; [intros; congruence|]. split; [intros [?|?]; congruence|].
    destruct (o_kind o).
    + destruct L3 as [_ [_ L3]]. repeat split; intros; try congruence; try (destruct H2; congruence); auto.
    + destruct L3 as [[rest L3] _]. split; [|split; [intros [?|?]; congruence|intros; congruence]].
      exists (rest ++ [c_res c]). rewrite map_app, L3, app_assoc. reflexivity.
    + destruct L3 as [_ [_ L3]]. repeat split; intros; try congruence; try (destruct H2; congruence); auto.
  - (* a completion with F_MORE of a dropped operation *)
    split; [intros; congruence|]. split; [intros [?|?]; congruence|].
    destruct (o_kind o).
    + destruct L3 as [_ [_ L3]]. repeat split; intros; try congruence; try (destruct H2; congruence); auto.
    + destruct L3 as [[rest L3] _]. split; [|split; [intros [?|?]; congruence|intros; congruence]].
      exists (rest ++ [c_res c]). rewrite map_app, L3, app_assoc. reflexivity.
    + destruct L3 as [_ [_ L3]]. repeat split; intros; try congruence; try (destruct H2; congruence); auto.
  - (* a completion is accepted *)
    rewrite has_final_app, last_res_app, map_app. cbn [map].
    split; [destruct (c_more c); intros; congruence|].
    split; [destruct (c_more c); [intros [?|?]; congruence|intros _; apply orb_true_r]|].
    unfold store_res, push_res. destruct (o_kind o).
    + destruct L3 as [L3 _]. destruct (L3 ltac:(left; assumption)) as [Hr Ho]. rewrite Ho, Hr.
      split; [intros _; split; reflexivity|]. split; destruct (c_more c); intros; congruence.
    + destruct L3 as [_ [L3 _]]. specialize (L3 ltac:(left; assumption)). rewrite L3, <- app_assoc.
      split; [eexists; reflexivity|]. split; [intros _; reflexivity|]. destruct (c_more c); intros; congruence.
    + destruct L3 as [L3 _]. destruct (L3 ltac:(left; assumption)) as [Hr Ho]. rewrite Ho, Hr.
      split; [intros _; split; reflexivity|]. split; destruct (c_more c); intros; congruence.
Qed.

Lemma step_L s e : Inv s -> P_L (fst (step s e)).
Proof. intros HI j. apply (ledger_step (ops s j)); [apply step_op_trans; exact HI|apply (inv_L _ HI)]. Qed.

Lemma step_F s e : Inv s -> P_F (fst (step s e)).
Proof.
  intros HI j. pose proof (step_op_trans s e HI j) as Hot. pose proof (inv_F _ HI j) as HF.
  revert Hot HF. generalize (ops s j) (ops (fst (step s e)) j). intros o o' Hot HF.
  inversion Hot; subst; ssimpl; try assumption;
    match goal with H : o_alloc o = true |- _ => rewrite H in HF; rewrite HF; reflexivity end.
Qed.

Lemma step_C s e : Inv s -> P_C (fst (step s e)).
Proof.
  intros HI j. pose proof (step_op_trans s e HI j) as Hot. pose proof (inv_C _ HI j) as HC.
  revert Hot HC. generalize (ops s j) (ops (fst (step s e)) j). intros o o' Hot HC.
  inversion Hot; subst; ssimpl; try assumption;
    try (destruct HC as [HC|[HC HD]]; [left; assumption|right; split; [assumption|congruence]]).
  (* State::drop on a running operation *)
  destruct HC as [HC|[HC HD]]; [|congruence]. rewrite HC. destruct b; [right|left]; auto.
Qed.

Lemma dropped_stable o o' : op_trans o o' -> o_st o = Dropped -> o_st o' = Dropped.
Proof. intros Hot Hd. inversion Hot; subst; ssimpl; congruence. Qed.

(** ** Clauses proved by walking through the step function. *)
Lemma step_bad s e : Inv s -> P_bad (fst (step s e)).
Proof.
  intros HI. pose proof (inv_bad _ HI) as Hb. unfold P_bad in *.
  step_split s e HI; alive_facts s HI; try assumption;
    rewrite ?Hb, ?Halive; try reflexivity.
Qed.

Lemma step_sq s e : Inv s -> P_sq (fst (step s e)).
Proof.
  intros HI. pose proof (inv_sq _ HI) as [Hle Hlen]. unfold P_sq in *.
  step_split s e HI; try (split; assumption);
    rewrite ?app_length, ?skipn_length; cbn [length]; split; try lia.
Qed.

Lemma step_wb s e : Inv s -> P_wb (fst (step s e)).
Proof.
  intros HI. pose proof (inv_sq _ HI) as [Hle Hlen]. pose proof (inv_wb _ HI) as [Hw1 [Hw2 Hw3]]. unfold P_wb in *.
  step_split s e HI; try (split; [|split]; assumption);
    try rewrite Hpc in *;
    (split; [|split]; intros Hp; try discriminate; try (destruct Hadvp; congruence);
     try specialize (Hw1 eq_refl); try specialize (Hw2 eq_refl);
     try (specialize (Hw3 ltac:(discriminate))); try reflexivity; try assumption; try congruence; auto; try lia).
Qed.

Lemma step_park s e : Inv s -> P_park (fst (step s e)).
Proof.
  intros HI. pose proof (inv_wb _ HI) as [_ [_ Hw3]]. unfold P_park.
  step_split s e HI; pose proof (inv_park _ HI) as Hp; unfold P_park in Hp;
    repeat match goal with H : blocked s = _ |- _ => rewrite H in * end; try assumption.
  - (* take the list, wake the first [min available len] *)
    rewrite (Hw3 ltac:(discriminate)), app_nil_r in Hp.
    rewrite <- app_assoc. cbn [app]. rewrite firstn_skipn. exact Hp.
  - (* re-queue (called from the end of poll) *)
    rewrite app_nil_r, <- app_assoc. apply (Permutation_trans Hp). apply Permutation_app_head.
    rewrite <- (firstn_skipn (length (blocked s) - Nat.min (r_avail s) (length (blocked s))) (blocked s)) at 1.
    rewrite <- app_assoc. apply Permutation_app_head. apply Permutation_app_comm.
  - (* re-queue (called from enter) *)
    rewrite app_nil_r, <- app_assoc. apply (Permutation_trans Hp). apply Permutation_app_head.
    rewrite <- (firstn_skipn (length (blocked s) - Nat.min (r_avail s) (length (blocked s))) (blocked s)) at 1.
    rewrite <- app_assoc. apply Permutation_app_head. apply Permutation_app_comm.
  - (* wait_for_submission *)
    apply (Permutation_trans (Permutation_app_tail [w] Hp)).
    rewrite <- !app_assoc. apply Permutation_app_head. apply Permutation_app_head. apply Permutation_app_comm.
Qed.

Lemma In_skipn {A} (x : A) k l : In x (skipn k l) -> In x l.
Proof. intros H. rewrite <- (firstn_skipn k l). apply in_or_app. right. exact H. Qed.

Lemma step_C2 s e : Inv s -> P_C2 (fst (step s e)).
Proof.
  intros HI. pose proof (step_op_trans s e HI) as Hot. revert Hot. unfold P_C2.
  step_split s e HI; intros Hot j Hin;
    try (apply (dropped_stable _ _ (Hot j)); apply (inv_C2 _ HI j); first [exact Hin | eapply In_skipn; exact Hin]).
  - (* a submission is queued *)
    apply in_app_or in Hin. destruct Hin as [Hin|[Hin|[]]]; [|discriminate].
    apply (dropped_stable _ _ (Hot j)). apply (inv_C2 _ HI j). exact Hin.
  - (* a cancel request is queued: the operation becomes Dropped in the same step *)
    apply in_app_or in Hin. destruct Hin as [Hin|[Hin|[]]].
    + apply (dropped_stable _ _ (Hot j)). apply (inv_C2 _ HI j). exact Hin.
    + injection Hin as <-. rewrite upd_same. reflexivity.
Qed.

Definition gone (o : op) : Prop := o_alloc o = false \/ o_st o = Dropped.

(** An operation becomes freed-or-dropped only through the [DropOp] call of a thread, which that
    call then leaves behind. *)
Lemma step_newly_gone s e : Inv s -> forall j, gone (ops (fst (step s e)) j) ->
  gone (ops s j) \/ exists k r, f_prog (thr s k) = DropOp j :: r /\ f_prog (thr (fst (step s e)) k) = r.
Proof.
  intros HI j. unfold gone.
  step_split s e HI; intros Hg; try (left; exact Hg);
    try (updcase j i; [|left; exact Hg]); ssimpl;
    repeat match goal with H : c_more _ = _ |- _ => rewrite H in Hg end;
    try (left; destruct Hg as [Hg|Hg]; [left; exact Hg|right; first [exact Hg|congruence]]);
    try (left; right; assumption);
    try (right; exists k, r; split; [assumption|rewrite Nat.eqb_refl; ssimpl; rewrite Hprog; reflexivity]).
Qed.

Lemma step_gone s e : Inv s -> P_gone (fst (step s e)).
Proof.
  intros HI j Hg t Hu.
  pose proof (step_shrinks s e HI) as Hsh.
  destruct (step_newly_gone s e HI j Hg) as [Hold|[k [r [Hp Hp']]]].
  - apply (inv_gone _ HI j Hold t). eapply shrinks_uses; [apply Hsh|exact Hu].
  - assert (Hk : uses (f_prog (thr s k)) j) by (rewrite Hp; apply uses_hd; cbn; apply Nat.eqb_refl).
    assert (Ht : uses (f_prog (thr s t)) j) by (eapply shrinks_uses; [apply Hsh|exact Hu]).
    pose proof (inv_own _ HI t k j Ht Hk) as ->.
    pose proof (inv_lin _ HI k) as Hl. rewrite Hp in Hl. destruct Hl as [Hl _].
    rewrite Hp' in Hu. exact (Hl Hu).
Qed.

(** [thread_ok] of a thread only reads the thread and the operation of its current call. *)
Lemma thread_ok_frame s s' t i :
  thr s' t = thr s t -> (forall j, j <> i -> ops s' j = ops s j) ->
  ~ uses (f_prog (thr s t)) i -> thread_ok s t -> thread_ok s' t.
Proof.
  intros Ht Ho Hu. unfold thread_ok. cbv zeta. rewrite Ht.
  destruct (f_prog (thr s t)) as [|[i0 w|i0|] r] eqn:Hp; try exact (fun H => H).
  - assert (i0 <> i) by (intros ->; apply Hu; apply uses_hd; cbn; apply Nat.eqb_refl).
    rewrite (Ho i0) by assumption. exact (fun H => H).
  - assert (i0 <> i) by (intros ->; apply Hu; apply uses_hd; cbn; apply Nat.eqb_refl).
    rewrite (Ho i0) by assumption. exact (fun H => H).
Qed.

Lemma thread_ok_same s s' t :
  thr s' t = thr s t -> (forall j, ops s' j = ops s j) -> thread_ok s t -> thread_ok s' t.
Proof.
  intros Ht Ho. unfold thread_ok. cbv zeta. rewrite Ht.
  destruct (f_prog (thr s t)) as [|[i0 w|i0|] r]; rewrite ?Ho; exact (fun H => H).
Qed.

Lemma not_uses_other s k t i c r : Inv s -> f_prog (thr s k) = c :: r -> mentions i c = true -> t <> k ->
  ~ uses (f_prog (thr s t)) i.
Proof.
  intros HI Hp Hm Hne Hu. apply Hne. apply (inv_own _ HI t k i Hu). rewrite Hp. apply uses_hd. exact Hm.
Qed.

(** The ring thread updates an operation only with its mutex free, and never a not-started one. *)
Lemma thread_ok_dispatch s s' t i :
  thr s' t = thr s t -> (forall j, j <> i -> ops s' j = ops s j) ->
  o_holder (ops s i) = None ->
  (o_st (ops s i) = NotStarted -> o_st (ops s' i) = NotStarted) ->
  thread_ok s t -> thread_ok s' t.
Proof.
  intros Ht Ho Hh Hns. unfold thread_ok. cbv zeta. rewrite Ht.
  destruct (f_prog (thr s t)) as [|[i0 w|i0|] r] eqn:Hp; try exact (fun H => H).
  - destruct (Nat.eq_dec i0 i) as [->|Hne]; [|rewrite (Ho i0) by assumption; exact (fun H => H)].
    intros [H1 H2]. split.
    + intros Hx. destruct (H1 Hx) as [_ Hc]. congruence.
    + intros Hx. apply Hns. exact (H2 Hx).
  - destruct (Nat.eq_dec i0 i) as [->|Hne]; [|rewrite (Ho i0) by assumption; exact (fun H => H)].
    intros [H1 H2]. split.
    + intros Hx. destruct (H1 Hx) as [_ Hc]. congruence.
    + exact H2.
Qed.

Ltac thr_other s t k i HI Ht Hne :=
  first
  [ apply (thread_ok_same s); [ssimpl; apply upd_other; exact Hne|intros; reflexivity|exact Ht]
  | apply (thread_ok_frame s _ t i);
    [ssimpl; apply upd_other; exact Hne
    |let j := fresh "j" in let Hj := fresh "Hj" in intros j Hj; ssimpl; apply upd_other; exact Hj
    |eapply (not_uses_other s k t i); [exact HI|eassumption|cbn; apply Nat.eqb_refl|exact Hne]
    |exact Ht] ].

Lemma step_thr s e : Inv s -> P_thr (fst (step s e)).
Proof.
  intros HI t. pose proof (inv_thr _ HI t) as Ht.
  step_split s e HI;
    try (apply (thread_ok_same s); [reflexivity|reflexivity|exact Ht]);
    try (apply (thread_ok_dispatch s _ t i);
         [reflexivity|intros j Hj; ssimpl; apply upd_other; exact Hj|assumption
         |ssimpl; rewrite upd_same; ssimpl; congruence|exact Ht]);
    try (destruct (Nat.eq_dec t k) as [->|Hne];
         [ unfold thread_ok; cbv zeta; ssimpl; rewrite !upd_same; ssimpl; rewrite ?Hprog; cbn [in_add tl];
           split; intros Hx; try discriminate; ssimpl; auto;
           rewrite ?upd_same; ssimpl; auto
         | thr_other s t k i HI Ht Hne ]).
Qed.

Ltac st_rewrite s Ht :=
  repeat match goal with
  | H : cq s = _ |- _ => rewrite H in Ht
  | H : o_st (ops s _) = _ |- _ => rewrite H in Ht
  | H : o_alloc (ops s _) = _ |- _ => rewrite H in Ht
  end.

Ltac eqb_norm :=
  rewrite ?Nat.eqb_refl in *;
  repeat match goal with
  | H : ?a <> ?b |- _ =>
      first [ rewrite (proj2 (Nat.eqb_neq a b) H) in *
            | rewrite (proj2 (Nat.eqb_neq b a) (not_eq_sym H)) in * ]
  end.

Lemma step_tk s e : Inv s -> P_tk (fst (step s e)).
Proof.
  intros HI.
  step_split s e HI; alive_facts s HI; unfold P_tk, tokens; intros j; ssimpl;
    pose proof (inv_tk _ HI j) as Ht; unfold tokens in Ht;
    try exact Ht;
    st_rewrite s Ht;
    try specialize (Hadvc j); try specialize (Hkc j);
    try match goal with H : cq s = _ |- _ => rewrite H in Hadvc end;
    try match goal with |- context [skipn ?K (sq s)] => rewrite (cnt_split (is_submit j) K (sq s)) in Ht end;
    try match goal with Hm : mem ?i0 (inflight s) = true |- _ =>
          destruct (Nat.eq_dec j i0) as [->|Hji];
          [pose proof (cnt_remove_same i0 _ Hm)|rewrite (cnt_remove_other j i0) by exact Hji] end;
    rewrite ?cnt_app, ?cnt_cons, ?cnt_nil in *; cbn [is_submit is_cop is_fin fin auto_cqe c_more] in *;
    try (updcase j i); ssimpl; eqb_norm;
    repeat match goal with
    | H : o_st (ops s _) = _ |- _ => rewrite H in *
    | H : o_alloc (ops s _) = _ |- _ => rewrite H in *
    | H : c_more _ = _ |- _ => rewrite H in *
    end;
    cbn [live andb negb] in *; try discriminate; try congruence; try lia.
Qed.

Lemma step_cov s e : Inv s -> P_cov (fst (step s e)).
Proof.
  intros HI.
  step_split s e HI; unfold P_cov; intros j; ssimpl; pose proof (inv_cov _ HI j) as Hc;
    try exact Hc;
    try (apply Hadvcov; exact Hc);
    try match goal with H : cq s = _ |- _ => rewrite H in Hc end;
    try (apply Hadvcov; first [exact Hc | exact (covered_tl _ _ _ _ Hc)]);
    try (apply Hkcov; exact Hc).
Qed.

(** * The invariant holds in every reachable state *)
Lemma step_inv s e : Inv s -> Inv (fst (step s e)).
Proof.
  intros HI. constructor.
  - apply step_own; exact HI.
  - apply step_lin; exact HI.
  - apply step_gone; exact HI.
  - apply step_thr; exact HI.
  - apply step_A; exact HI.
  - apply step_B; exact HI.
  - apply step_L; exact HI.
  - apply step_cov; exact HI.
  - apply step_tk; exact HI.
  - apply step_F; exact HI.
  - apply step_C; exact HI.
  - apply step_C2; exact HI.
  - apply step_bad; exact HI.
  - apply step_sq; exact HI.
  - apply step_wb; exact HI.
  - apply step_park; exact HI.
Qed.

Lemma reachable_inv cap0 auto0 kinds canc scr npolls progs es : progs_ok progs ->
  Inv (fst (run step (init cap0 auto0 kinds canc scr npolls progs) es)).
Proof. intros Hp. apply run_invariant; [exact step_inv|apply init_inv; exact Hp]. Qed.

(** * Statements *)

(** Case analysis of a step without using the invariant. *)
Ltac step_split0 s e :=
  unfold step, step_with;
  destruct e as [[|?k]|?i];
  [ ring_split s
  | unfold fstep, call_start, add_ok, add_failed, sq_full; cbv beta zeta;
    destruct (f_pc (thr s k)) eqn:Hpc;
    destruct (f_prog (thr s k)) as [|[?i ?w|?i|] ?r] eqn:Hprog;
    split_matches
  | cbv beta iota zeta ];
  expose_frames; ssimpl.

Definition parked_of (out : list obs) : list N :=
  flat_map (fun o => match o with OParked _ w => [w] | _ => [] end) out.
Definition bwoken_of (out : list obs) : list N :=
  flat_map (fun o => match o with OWakeB w => [w] | _ => [] end) out.
Definition frees_of (i : nat) (out : list obs) : nat :=
  length (filter (fun o => match o with OFree j _ => Nat.eqb j i | _ => false end) out).
Definition is_cancel (i : nat) (e : sqe) : bool := match e with Cancel j => Nat.eqb j i | Submit _ => false end.

(** ** C03, completions: no lost wake-up under interleaving.

    Ghosts: [g_lastw i] is the waker of the most recent poll of operation [i] that returned
    Pending ([None] once a poll returned Ready), [g_woken i] says that the dispatch of its
    completion has invoked that waker since; clauses (G1)-(G3) pin this meaning to the
    observations of single steps, for arbitrary states. The status becomes [Done] exactly in the
    ring thread's dispatch step of the operation's completion — lock, [Shared::update], unlock and
    [Waker::wake] are one segment (G4) — so "[o_st = Done]" is "the dispatch of the readying
    completion has finished".

    Main clause: in EVERY state reachable by ANY interleaving of any number of future threads
    (programs obeying [progs_ok]) with the ring thread and the kernel: if the most recent poll
    of [i] returned Pending with waker [w] and the readying completion has been dispatched, [w]
    — the LATEST waker, also when polls replaced it — has been invoked since that poll. *)
Definition race_readying_completion_wakes_latest_waker : Prop :=
  (forall cap0 auto0 kinds canc scr npolls progs es, progs_ok progs ->
     let s := fst (run step (init cap0 auto0 kinds canc scr npolls progs) es) in
     forall i w, g_lastw (ops s i) = Some w -> o_st (ops s i) = Done -> g_woken (ops s i) = true)
  (* MULTISHOT: any dispatched completion readies the stream: a result is queued (the poll that
     returned Pending found the queue empty, under the same mutex) => the latest waker was woken;
     and while the latest waker of a running operation of ANY kind has not been woken it is the
     stored one -- a two-step operation keeps it across its result completion (F_MORE), which
     wakes nobody; its final completion is covered by the first clause *)
  /\ (forall cap0 auto0 kinds canc scr npolls progs es, progs_ok progs ->
     let s := fst (run step (init cap0 auto0 kinds canc scr npolls progs) es) in
     forall i w, g_lastw (ops s i) = Some w -> o_st (ops s i) = Running ->
       (o_kind (ops s i) = Multi -> o_q (ops s i) <> [] -> g_woken (ops s i) = true)
       /\ (g_woken (ops s i) = false -> o_waker (ops s i) = Some w))
  (* (G1) a poll that returns Pending (either way) records its waker, not yet woken *)
  /\ (forall s e i w, In (OPending i w) (snd (step s e)) \/ In (OParked i w) (snd (step s e)) ->
        g_lastw (ops (fst (step s e)) i) = Some w /\ g_woken (ops (fst (step s e)) i) = false)
  (* (G2) nothing else changes it, except a poll returning Ready (a result, a stream item, the end of the stream) *)
  /\ (forall s e i, g_lastw (ops (fst (step s e)) i) <> g_lastw (ops s i) ->
        (exists w, In (OPending i w) (snd (step s e)) \/ In (OParked i w) (snd (step s e)))
        \/ (exists v, In (OReady i v) (snd (step s e))) \/ In (OEnd i) (snd (step s e)))
  (* (G3) [g_woken] is set only by a step of the ring thread that invokes exactly that waker *)
  /\ (forall s e i, g_woken (ops s i) = false -> g_woken (ops (fst (step s e)) i) = true ->
        e = T 0 /\ exists w, g_lastw (ops s i) = Some w /\ In (OWake w) (snd (step s e)))
  (* (G4) the status becomes Done only in the ring thread's dispatch step of a completion of that
     operation WITHOUT F_MORE, which leaves the mutex free *)
  /\ (forall s e i, o_st (ops s i) <> Done -> o_st (ops (fst (step s e)) i) = Done ->
        e = T 0 /\ (r_pc s = RDisp \/ r_pc s = RDispSpin) /\ o_holder (ops (fst (step s e)) i) = None
        /\ exists c q, cq s = COp i c :: q /\ c_more c = false)
  (* (G5) the dispatch step, any state: a completion of a running operation that is final, or any
     completion of a multishot one, takes the stored waker and wakes it; a completion with F_MORE
     of a single-shot / two-step operation wakes nobody and leaves the stored waker in place *)
  /\ (forall s i c q n, (r_pc s = RDisp \/ r_pc s = RDispSpin) -> r_n s = S n -> cq s = COp i c :: q ->
        o_holder (ops s i) = None -> o_st (ops s i) = Running ->
        if negb (c_more c) || is_multi (o_kind (ops s i))
        then snd (step s (T 0)) = wake_obs (ops s i) /\ o_waker (ops (fst (step s (T 0))) i) = None
        else snd (step s (T 0)) = [] /\ o_waker (ops (fst (step s (T 0))) i) = o_waker (ops s i)).

Lemma In_wake_obs o x : In x (wake_obs o) -> exists w, x = OWake w.
Proof. unfold wake_obs. destruct (o_waker o); cbn [In]; [intros [H|[]]|intros []]. eexists; symmetry; exact H. Qed.

Lemma race_readying_completion_wakes_latest_waker_holds : race_readying_completion_wakes_latest_waker.
Proof.
  split; [|split; [|split; [|split; [|split; [|split]]]]].
  - intros cap0 auto0 kinds canc scr npolls progs es Hp s i w Hl Hd.
    exact (inv_B _ (reachable_inv cap0 auto0 kinds canc scr npolls progs es Hp) i w Hd Hl).
  - intros cap0 auto0 kinds canc scr npolls progs es Hp s i w Hl Hr.
    pose proof (inv_A _ (reachable_inv cap0 auto0 kinds canc scr npolls progs es Hp) i w Hr Hl) as HA. fold s in HA.
    split.
    + intros Hk Hq. destruct (g_woken (ops s i)); [reflexivity|]. destruct (HA eq_refl) as [_ HA2].
      destruct (Hq (HA2 Hk)).
    + intros Hw. exact (proj1 (HA Hw)).
  - intros s e i w. step_split0 s e; intros [H|H]; cbn [In] in H;
      repeat (destruct H as [H|H]; try discriminate); try contradiction;
      try (apply in_map_iff in H; destruct H as [? [? ?]]; discriminate);
      try (apply In_wake_obs in H; destruct H as [? H]; discriminate);
      injection H as <- <-; rewrite upd_same; ssimpl; auto.
  - intros s e i0. step_split0 s e; intros H; try (exfalso; apply H; reflexivity);
      try (updcase i0 i; [|exfalso; apply H; reflexivity]); ssimpl;
      try (exfalso; apply H; reflexivity);
      try (left; eexists; left; left; reflexivity);
      try (left; eexists; right; left; reflexivity);
      try (right; left; eexists; left; reflexivity);
      try (right; right; left; reflexivity).
  - intros s e i0. step_split0 s e; intros H0 H1; try congruence;
      try (updcase i0 i; [|congruence]); ssimpl; try congruence.
    all: unfold wake_obs; split; [reflexivity|];
        rewrite H0 in H1; cbn [orb] in H1; unfold waker_eqb in H1;
        destruct (o_waker (ops s i)) as [wk|]; [|discriminate];
        destruct (g_lastw (ops s i)) as [lw|]; [|discriminate];
        apply N.eqb_eq in H1; subst; eexists; split; [reflexivity|left; reflexivity].
  - intros s e i0. step_split0 s e; intros H0 H1; try congruence;
      try (updcase i0 i; [|congruence]); ssimpl; try congruence; try discriminate;
      repeat match goal with H : c_more _ = _ |- _ => rewrite H in * end; try congruence.
    all: split; [reflexivity|split; [rewrite ?Hpc; auto|]].
    all: rewrite ?Nat.eqb_refl; ssimpl; split; [try assumption; try reflexivity|eexists _, _; split; [reflexivity|assumption]].
  - intros s i c q n Hpc Hn Hq Hh Hr. unfold step, step_with, rstep_with, rstep_gen, dispatch_with, o_update.
    destruct Hpc as [Hpc|Hpc]; rewrite Hpc, Hn, Hq, Hh, Hr; cbv beta iota zeta.
    all: destruct (c_more c) eqn:Hm; destruct (o_kind (ops s i)) eqn:Hk; cbn [negb orb is_multi].
    all: match goal with |- context [advance ?x] => destruct (advance_eq x) as [q0 [n0 [p0 [E _]]]]; rewrite E end.
    all: ssimpl; rewrite upd_same; ssimpl; split; reflexivity.
Qed.

Lemma bwoken_of_wakes l : bwoken_of (map OWakeB l) = l.
Proof. induction l as [|x l IH]; [reflexivity|]. cbn [map bwoken_of flat_map app]. f_equal. exact IH. Qed.
Lemma parked_of_wakes l : parked_of (map OWakeB l) = [].
Proof. induction l as [|x l IH]; [reflexivity|]. exact IH. Qed.
Lemma bwoken_of_consumed l : bwoken_of (map OConsumed l) = [].
Proof. induction l as [|x l IH]; [reflexivity|]. exact IH. Qed.
Lemma parked_of_consumed l : parked_of (map OConsumed l) = [].
Proof. induction l as [|x l IH]; [reflexivity|]. exact IH. Qed.
Lemma bwoken_of_wake_obs o : bwoken_of (wake_obs o) = [].
Proof. unfold wake_obs. destruct (o_waker o); reflexivity. Qed.
Lemma parked_of_wake_obs o : parked_of (wake_obs o) = [].
Proof. unfold wake_obs. destruct (o_waker o); reflexivity. Qed.

(** ** C03, queue full: parked wakers under interleaving.

    (a) A poll that returns Pending because the queue was full has pushed its waker at the end of
    the blocked list in the step in which it returns (the [OParked] observation).
    (b) Ledgers: [g_parked] / [g_bwoken] are exactly the wakers parked / woken by
    [wake_blocked_futures] so far, in order.
    (c) Conservation, every reachable state: every waker ever parked is on the blocked list, in
    the hands of a running [wake_blocked_futures] (between its two lock acquisitions), or has been
    woken by it: none is lost — whatever interleaving of pushes with the take / re-queue.
    (d) The try-lock step of [wake_blocked_futures] (reachable states): it wakes the first
    [min available |list|] wakers of the list as it is at that moment, oldest first, where
    [available >= 1] is at least the number of slots free at that moment (submissions queued
    since the two loads only make the snapshot an over-estimate of the queued entries); so the
    oldest parked waker is always among them.
    (e) After the repair of H15 every [Ring::poll] ends with [wake_blocked_futures]: the head store
    is followed by the two loads, and the try-lock step is reached whenever the queue has room at
    the second load. Hence every poll that ends while the queue has room wakes the oldest parked
    waker, whether or not anything completed. (As in the atomic model, with more parked wakers
    than free slots the younger ones wait for a later poll.) *)
Definition race_parked_waker_is_woken : Prop :=
  (forall s e i w, In (OParked i w) (snd (step s e)) -> blocked (fst (step s e)) = blocked s ++ [w])
  /\ (forall s e, g_parked (fst (step s e)) = g_parked s ++ parked_of (snd (step s e))
               /\ g_bwoken (fst (step s e)) = g_bwoken s ++ bwoken_of (snd (step s e)))
  /\ (forall cap0 auto0 kinds canc scr npolls progs es, progs_ok progs ->
       let s := fst (run step (init cap0 auto0 kinds canc scr npolls progs) es) in
       Permutation (g_parked s) (g_bwoken s ++ blocked s ++ r_rest s)
       /\ (r_pc s <> RWbLock -> r_rest s = [])
       /\ (r_pc s = RWbTry ->
             let n := Nat.min (r_avail s) (length (blocked s)) in
             snd (step s (T 0)) = map OWakeB (firstn n (blocked s))
             /\ 1 <= r_avail s
             /\ (cap s <= N.of_nat (r_avail s) + (sqt s - sqh s))%N
             /\ (forall w r, blocked s = w :: r -> In (OWakeB w) (snd (step s (T 0)))))
       /\ (r_pc s = RStoreHead -> r_pc (fst (step s (T 0))) = RWbH /\ r_end (fst (step s (T 0))) = true)
       /\ (r_pc s = RWbH -> r_pc (fst (step s (T 0))) = RWbT)
       /\ (r_pc s = RWbT -> (sqt s - sqh s < cap s)%N -> r_pc (fst (step s (T 0))) = RWbTry)).

Lemma race_parked_waker_is_woken_holds : race_parked_waker_is_woken.
Proof.
  split; [|split].
  - intros s e i w. step_split0 s e; intros H; cbn [In] in H;
      repeat (destruct H as [H|H]; try discriminate); try contradiction;
      try (apply in_map_iff in H; destruct H as [? [? ?]]; discriminate);
      try (apply In_wake_obs in H; destruct H as [? H]; discriminate).
    injection H as <- <-. reflexivity.
  - intros s e.
    step_split0 s e;
      rewrite ?bwoken_of_wakes, ?parked_of_wakes, ?bwoken_of_consumed, ?parked_of_consumed,
        ?bwoken_of_wake_obs, ?parked_of_wake_obs;
      cbn [parked_of bwoken_of flat_map app]; rewrite ?app_nil_r; split; reflexivity.
  - intros cap0 auto0 kinds canc scr npolls progs es Hp s.
    pose proof (reachable_inv cap0 auto0 kinds canc scr npolls progs es Hp) as HI. fold s in HI.
    pose proof (inv_wb _ HI) as [Hw1 [Hw2 Hw3]]. pose proof (inv_sq _ HI) as [Hle Hlen].
    split; [exact (inv_park _ HI)|]. split; [exact Hw3|].
    split; [|split; [|split]].
    + intros Hpc. destruct (Hw2 Hpc) as [Ha Hb]. cbv zeta.
      assert (Hout : snd (step s (T 0)) = map OWakeB (firstn (Nat.min (r_avail s) (length (blocked s))) (blocked s))).
      { unfold step, step_with, rstep_with, rstep_gen. rewrite Hpc.
        destruct (blocked s) as [|x l]; [cbn [snd]; rewrite firstn_nil; reflexivity|reflexivity]. }
      split; [exact Hout|]. split; [exact Ha|]. split; [exact Hb|].
      intros w r Hbl. rewrite Hout, Hbl. cbn [length].
      destruct (r_avail s) as [|a]; [lia|]. cbn [Nat.min firstn map In]. left; reflexivity.
    + intros Hpc. unfold step, step_with, rstep_with, rstep_gen. rewrite Hpc. split; reflexivity.
    + intros Hpc. unfold step, step_with, rstep_with, rstep_gen. rewrite Hpc. reflexivity.
    + intros Hpc Hroom. unfold step, step_with, rstep_with, rstep_gen. rewrite Hpc. rewrite (Hw1 Hpc).
      destruct (Nat.eqb_spec (N.to_nat (cap s - (sqt s - sqh s))) 0) as [Hz|Hz]; [lia|reflexivity].
Qed.

Lemma frees_of_wakes i l : frees_of i (map OWakeB l) = 0.
Proof. induction l as [|x l IH]; [reflexivity|]. exact IH. Qed.
Lemma frees_of_consumed i l : frees_of i (map OConsumed l) = 0.
Proof. induction l as [|x l IH]; [reflexivity|]. exact IH. Qed.
Lemma frees_of_wake_obs i o : frees_of i (wake_obs o) = 0.
Proof. unfold wake_obs. destruct (o_waker o); reflexivity. Qed.

(** ** C06 (and C01) under the poll / drop versus dispatch race.

    Every reachable state, any interleaving (programs obeying [progs_ok]), ALL KINDS and scripts:
    (a) the state box of an operation is freed at most once ([g_frees] counts the [OFree]
    observations, clause (F)), and it is freed iff it is no longer allocated;
    (b) no step ever takes the mutex inside a freed box ([g_bad], clause (U)): neither a future
    call nor the ring thread's dispatch touches a state after its free;
    (c) what the kernel owes an operation before it is done with it (submission queued, request in
    flight, FINAL completion posted and not processed -- completions with F_MORE do not count) is
    exactly one item while the operation is Running or Dropped-and-allocated and nothing
    otherwise: a dropped running operation is not freed before its FINAL completion is dispatched
    (a multishot stream, a two-step send whose result arrived and whose notification is
    outstanding), is never orphaned, and once freed nothing of it is left anywhere -- not even a
    completion with F_MORE ([ents]);
    (d) the ring thread's dispatch of a completion WITHOUT F_MORE of a Dropped operation frees it in
    that step; (d') of a completion WITH F_MORE frees nothing and leaves the box allocated;
    a [DropOp] call on an operation that is not Running frees it at once and queues nothing;
    (F2) these are the only steps that free anything;
    (e) at most one cancel request per operation, only for an operation that is Dropped (a
    never-started or finished one gets none), and every queued cancel names a Dropped operation. *)
Definition race_state_reclaimed_exactly_once : Prop :=
  (forall cap0 auto0 kinds canc scr npolls progs es, progs_ok progs ->
     let s := fst (run step (init cap0 auto0 kinds canc scr npolls progs) es) in
     (forall i, g_frees (ops s i) <= 1 /\ (g_frees (ops s i) = 1 <-> o_alloc (ops s i) = false))
     /\ g_bad s = false
     /\ (forall i, tokens s i = if o_alloc (ops s i) && live (o_st (ops s i)) then 1 else 0)
     /\ (forall i, o_st (ops s i) = Dropped ->
           (o_alloc (ops s i) = true /\ tokens s i = 1)
           \/ (o_alloc (ops s i) = false /\ tokens s i = 0 /\ g_frees (ops s i) = 1 /\ ents i (cq s) = []))
     /\ (forall i, g_cancels (ops s i) <= 1 /\ (g_cancels (ops s i) = 1 -> o_st (ops s i) = Dropped))
     /\ (forall i, In (Cancel i) (sq s) -> o_st (ops s i) = Dropped))
  (* (F) the ledger of frees *)
  /\ (forall s e i, g_frees (ops (fst (step s e)) i) = g_frees (ops s i) + frees_of i (snd (step s e)))
  (* (U) what sets [g_bad] *)
  /\ (forall s e, g_bad s = false -> g_bad (fst (step s e)) = true ->
        exists i, o_alloc (ops s i) = false /\ o_holder (ops s i) = None
                  /\ ((e = T 0 /\ exists c q, cq s = COp i c :: q)
                      \/ exists k, e = T (S k) /\ exists c r, f_prog (thr s k) = c :: r /\ mentions i c = true))
  (* (d), (d') *)
  /\ (forall s i c q n, (r_pc s = RDisp \/ r_pc s = RDispSpin) -> r_n s = S n -> cq s = COp i c :: q ->
        o_holder (ops s i) = None -> o_st (ops s i) = Dropped ->
        if c_more c
        then snd (step s (T 0)) = [] /\ o_alloc (ops (fst (step s (T 0))) i) = o_alloc (ops s i)
             /\ o_st (ops (fst (step s (T 0))) i) = Dropped
        else snd (step s (T 0)) = [OFree i (o_started (ops s i))] /\ o_alloc (ops (fst (step s (T 0))) i) = false)
  /\ (forall s k i r, (f_pc (thr s k) = FStart \/ f_pc (thr s k) = FSpin) -> f_prog (thr s k) = DropOp i :: r ->
        o_holder (ops s i) = None -> o_st (ops s i) <> Running ->
        snd (step s (T (S k))) = [OFree i (o_started (ops s i))] /\ sq (fst (step s (T (S k)))) = sq s
        /\ o_alloc (ops (fst (step s (T (S k)))) i) = false)
  (* (F2) nothing else frees a state *)
  /\ (forall s e i, 1 <= frees_of i (snd (step s e)) ->
        (e = T 0 /\ o_st (ops s i) = Dropped /\ exists c q, cq s = COp i c :: q /\ c_more c = false)
        \/ (exists k r, e = T (S k) /\ f_prog (thr s k) = DropOp i :: r /\ o_st (ops s i) <> Running))
  (* the ledger of cancel requests: one more exactly when [Cancel i] is appended to the queue *)
  /\ (forall s e i, g_cancels (ops (fst (step s e)) i) = g_cancels (ops s i)
                    \/ (g_cancels (ops (fst (step s e)) i) = S (g_cancels (ops s i))
                        /\ sq (fst (step s e)) = sq s ++ [Cancel i])).

(** No token, no completion of that operation in the queue (final or not). *)
Lemma no_token_no_entry i n q : covered i n q -> n + cnt (is_fin i) q = 0 -> ents i q = [].
Proof.
  induction q as [|e r IH]; [reflexivity|]. intros [H1 H2] Hz. rewrite cnt_cons in Hz.
  cbn [ents flat_map]. fold (ents i r). rewrite IH; [|exact H2|lia].
  destruct e as [j c|]; [|reflexivity]. cbn [is_cop] in H1.
  destruct (Nat.eqb j i); [|reflexivity]. specialize (H1 eq_refl). rewrite cnt_cons in H1. lia.
Qed.

Lemma race_state_reclaimed_exactly_once_holds : race_state_reclaimed_exactly_once.
Proof.
  split; [|split; [|split; [|split; [|split; [|split]]]]].
  - intros cap0 auto0 kinds canc scr npolls progs es Hp s.
    pose proof (reachable_inv cap0 auto0 kinds canc scr npolls progs es Hp) as HI. fold s in HI.
    split; [|split; [exact (inv_bad _ HI)|split; [exact (inv_tk _ HI)|split; [|split; [|exact (inv_C2 _ HI)]]]]].
    + intros i. pose proof (inv_F _ HI i) as HF. destruct (o_alloc (ops s i)); rewrite HF; split; try lia;
        split; intros; try discriminate; try lia; reflexivity.
    + intros i Hd. pose proof (inv_tk _ HI i) as Ht. pose proof (inv_F _ HI i) as HF. rewrite Hd in Ht. cbn [live] in Ht.
      destruct (o_alloc (ops s i)); cbn [andb] in Ht; [left; auto|right].
      split; [reflexivity|]. split; [exact Ht|]. split; [exact HF|].
      apply (no_token_no_entry i _ _ (inv_cov _ HI i)). unfold tokens in Ht. lia.
    + intros i. destruct (inv_C _ HI i) as [H|[H H']]; rewrite H; split; try lia; intros; try discriminate; assumption.
  - intros s e i0.
    step_split0 s e; rewrite ?frees_of_wakes, ?frees_of_consumed, ?frees_of_wake_obs; unfold frees_of; cbn [filter length];
      rewrite ?Nat.add_0_r; try reflexivity;
      updcase i0 i; ssimpl; rewrite ?Nat.eqb_refl; cbn [length]; try reflexivity; try lia;
      destruct (Nat.eqb_spec i i0); try congruence; cbn [length]; lia.
  - intros s e. step_split0 s e; intros H0 H1; try congruence; rewrite H0 in H1; cbn [orb] in H1;
      exists i; (split; [destruct (o_alloc (ops s i)); [discriminate|reflexivity]|split; [assumption|]]).
    all: try (left; split; [reflexivity|eexists _, _; reflexivity]).
    all: right; exists k; split; [reflexivity|]; eexists _, _; split; [eassumption|cbn; apply Nat.eqb_refl].
  - intros s i c q n Hpc Hn Hq Hh Hd. unfold step, step_with, rstep_with, rstep_gen, dispatch_with, o_update.
    destruct Hpc as [Hpc|Hpc]; rewrite Hpc, Hn, Hq, Hh, Hd; cbv beta iota zeta.
    all: destruct (c_more c) eqn:Hm.
    all: match goal with |- context [advance ?x] => destruct (advance_eq x) as [q0 [n0 [p0 [E _]]]]; rewrite E end.
    all: ssimpl; rewrite upd_same; ssimpl; repeat split; try reflexivity; assumption.
  - intros s k i r Hpc Hp Hh Hns. unfold step, step_with, fstep, call_start.
    destruct Hpc as [Hpc|Hpc]; rewrite Hpc, Hp, Hh; cbv beta iota zeta.
    all: destruct (o_st (ops s i)); try congruence; ssimpl; rewrite upd_same; ssimpl; repeat split; reflexivity.
  - intros s e i0. step_split0 s e; rewrite ?frees_of_wakes, ?frees_of_consumed, ?frees_of_wake_obs;
      unfold frees_of; cbn [filter length]; try lia.
    all: destruct (Nat.eqb_spec i i0) as [->|Hne]; cbn [length]; try lia; intros _.
    all: try (left; split; [reflexivity|split; [assumption|eexists _, _; split; [reflexivity|assumption]]]).
    all: right; eexists _, _; split; [reflexivity|split; [eassumption|congruence]].
  - intros s e i0. step_split0 s e; try (left; reflexivity);
      try (updcase i0 i; [|left; reflexivity]); ssimpl; try (left; reflexivity); try (left; lia).
    all: right; split; [lia|reflexivity].
Qed.

(** ** C02 under interleaving: every operation receives exactly its own results, once, in order.

    Ledgers per operation: [posted s i] = every completion the kernel has posted for operation [i]
    so far, in order ([g_disp]: those [Shared::update] was called with, then those waiting in the
    completion queue); [g_out i] = every value a poll of [i] handed out, in order. Clauses (O), (D),
    (P) pin the ledgers to single steps, for arbitrary states: (O) [g_out i] grows exactly by the
    [OReady i v] observations; (D) [g_disp i] grows only in the ring thread's dispatch step of the
    completion of [i] at the head of the queue, by that completion (completions are routed by the
    operation they name: no result reaches another operation's state); (P) [posted] only grows, at
    its end.
    Main clause, EVERY state reachable by ANY interleaving, all kinds / scripts / capacities:
    - MULTISHOT: the values handed out are a PREFIX of the results the kernel posted for that very
      operation, each once, in order; while the stream is live, dispatched = handed out ++ queued;
      when the stream has ended ([Complete], clause (E): the end marker is handed out only with
      status Done and an empty queue) EVERYTHING posted was handed out and a final completion
      (no F_MORE) was among it;
    - SINGLE / TWO-STEP: at most one value is ever handed out; when one was, the final completion
      had been dispatched, nothing of the operation is left in the queue, and the value is
      [last_res] of what the kernel posted for it: the result of its last completion without
      F_NOTIF (K2 shape: when exactly one posted completion is not a notification it is that
      completion's -- the first --, last clause; the zero-copy notification does not overwrite it). *)
Definition outs_of (i : nat) (out : list obs) : list Z :=
  flat_map (fun o => match o with OReady j v => if Nat.eqb j i then [v] else [] | _ => [] end) out.

Lemma outs_of_wakes i l : outs_of i (map OWakeB l) = [].
Proof. induction l as [|x l IH]; [reflexivity|]. exact IH. Qed.
Lemma outs_of_consumed i l : outs_of i (map OConsumed l) = [].
Proof. induction l as [|x l IH]; [reflexivity|]. exact IH. Qed.
Lemma outs_of_wake_obs i o : outs_of i (wake_obs o) = [].
Proof. unfold wake_obs. destruct (o_waker o); reflexivity. Qed.

Lemma ex_add_eq {A} (x y : list A) : x = y -> exists add, x = y ++ add.
Proof. intros ->. exists []. symmetry. apply app_nil_r. Qed.

Lemma posted_grows s e i0 : exists add, posted (fst (step s e)) i0 = posted s i0 ++ add.
Proof.
  unfold posted. step_split0 s e;
    try match goal with H : cq s = _ |- _ => rewrite ?H end;
    try (apply ex_add_eq; reflexivity);
    try (destruct Hkadd as [add ->]; exists (ents i0 add); rewrite ents_app, app_assoc; reflexivity);
    try (rewrite Hadve; apply ex_add_eq; reflexivity);
    try (rewrite Hadve; match goal with H : cq s = _ |- _ => rewrite H end; apply ex_add_eq; reflexivity);
    try (updcase i0 i; ssimpl; apply ex_add_eq; reflexivity).
  all: rewrite Hadve; cbn [ents flat_map]; fold (ents i0 l); apply ex_add_eq; updcase i0 i; ssimpl; rewrite ?Nat.eqb_refl;
    try (destruct (Nat.eqb_spec i i0); [congruence|]); rewrite <- ?app_assoc; reflexivity.
Qed.

Lemma last_res_only l1 c0 l2 :
  forallb c_notif l2 = true -> c_notif c0 = false -> last_res (l1 ++ c0 :: l2) = c_res c0.
Proof.
  intros H2 H0. unfold last_res. rewrite fold_left_app. cbn [fold_left]. rewrite H0.
  generalize (c_res c0). induction l2 as [|c l IH]; intros z; [reflexivity|].
  cbn [forallb] in H2. apply andb_prop in H2. destruct H2 as [Hc Hl]. cbn [fold_left]. rewrite Hc. apply IH. exact Hl.
Qed.

Definition race_results_are_own_in_order : Prop :=
  (forall cap0 auto0 kinds canc scr npolls progs es, progs_ok progs ->
     let s := fst (run step (init cap0 auto0 kinds canc scr npolls progs) es) in
     forall i,
       (o_kind (ops s i) = Multi ->
          (exists rest, map c_res (posted s i) = g_out (ops s i) ++ rest)
          /\ (o_st (ops s i) = Running \/ o_st (ops s i) = Done ->
                map c_res (g_disp (ops s i)) = g_out (ops s i) ++ o_q (ops s i))
          /\ (o_st (ops s i) = Complete ->
                g_out (ops s i) = map c_res (posted s i) /\ has_final (posted s i) = true))
       /\ (o_kind (ops s i) <> Multi ->
            length (g_out (ops s i)) <= 1
            /\ forall v, g_out (ops s i) = [v] ->
                 o_st (ops s i) = Complete /\ has_final (posted s i) = true
                 /\ posted s i = g_disp (ops s i) /\ v = last_res (posted s i)))
  /\ (forall s e i, g_out (ops (fst (step s e)) i) = g_out (ops s i) ++ outs_of i (snd (step s e)))
  /\ (forall s e i, g_disp (ops (fst (step s e)) i) <> g_disp (ops s i) ->
        e = T 0 /\ (r_pc s = RDisp \/ r_pc s = RDispSpin)
        /\ exists c q, cq s = COp i c :: q /\ g_disp (ops (fst (step s e)) i) = g_disp (ops s i) ++ [c])
  /\ (forall s e i, exists add, posted (fst (step s e)) i = posted s i ++ add)
  /\ (forall s e i, In (OEnd i) (snd (step s e)) ->
        o_kind (ops s i) = Multi /\ o_st (ops s i) = Done /\ o_q (ops s i) = []
        /\ o_st (ops (fst (step s e)) i) = Complete)
  /\ (forall l1 c0 l2, forallb c_notif l2 = true -> c_notif c0 = false -> last_res (l1 ++ c0 :: l2) = c_res c0).

Lemma race_results_are_own_in_order_holds : race_results_are_own_in_order.
Proof.
  split; [|split; [|split; [|split; [|split]]]].
  - intros cap0 auto0 kinds canc scr npolls progs es Hp s i.
    pose proof (reachable_inv cap0 auto0 kinds canc scr npolls progs es Hp) as HI. fold s in HI.
    pose proof (inv_L _ HI i) as [L1 [L2 L3]]. pose proof (inv_tk _ HI i) as Ht. pose proof (inv_cov _ HI i) as Hc.
    assert (Hnone : o_st (ops s i) = Complete -> ents i (cq s) = []).
    { intros Hst. rewrite Hst, andb_false_r in Ht. apply (no_token_no_entry i _ _ Hc). unfold tokens in Ht. lia. }
    split.
    + intros Hk. rewrite Hk in L3. destruct L3 as [[rest L3a] [L3b L3c]]. split; [|split].
      * exists (rest ++ map c_res (ents i (cq s))). unfold posted. rewrite map_app, L3a, app_assoc. reflexivity.
      * exact L3b.
      * intros Hst. unfold posted. rewrite (Hnone Hst), app_nil_r. split; [symmetry; exact (L3c Hst)|].
        apply L2. right. exact Hst.
    + intros Hk.
      assert (L3' : (o_st (ops s i) = Running \/ o_st (ops s i) = Done ->
                      o_res (ops s i) = last_res (g_disp (ops s i)) /\ g_out (ops s i) = [])
                    /\ (o_st (ops s i) = Complete -> g_out (ops s i) = [last_res (g_disp (ops s i))])
                    /\ (o_st (ops s i) = Dropped -> g_out (ops s i) = []))
        by (destruct (o_kind (ops s i)); [exact L3|congruence|exact L3]).
      destruct L3' as [La [Lb Lc]].
      assert (Hcases : g_out (ops s i) = [] \/ o_st (ops s i) = Complete).
      { destruct (o_st (ops s i)) eqn:Hst; auto.
        - left. exact (proj2 (L1 eq_refl)).
        - left. exact (proj2 (La (or_introl eq_refl))).
        - left. exact (proj2 (La (or_intror eq_refl))). }
      split.
      * destruct Hcases as [H|H]; [rewrite H; cbn; lia|rewrite (Lb H); cbn; lia].
      * intros v Hv. destruct Hcases as [H|H]; [rewrite H in Hv; discriminate|].
        unfold posted. rewrite (Hnone H), app_nil_r. split; [exact H|]. split; [apply L2; right; exact H|].
        split; [reflexivity|]. rewrite (Lb H) in Hv. injection Hv as <-. reflexivity.
  - intros s e i0.
    step_split0 s e; rewrite ?outs_of_wakes, ?outs_of_consumed, ?outs_of_wake_obs; cbn [outs_of flat_map app];
      rewrite ?app_nil_r; try reflexivity;
      updcase i0 i; ssimpl; rewrite ?Nat.eqb_refl, ?app_nil_r; try reflexivity;
      destruct (Nat.eqb_spec i i0); try congruence; rewrite ?app_nil_r; reflexivity.
  - intros s e i0. step_split0 s e; intros H; try (exfalso; apply H; reflexivity);
      try (updcase i0 i; [|exfalso; apply H; reflexivity]); ssimpl;
      try (exfalso; apply H; reflexivity).
    all: split; [reflexivity|split; [rewrite ?Hpc; auto|eexists _, _; split; reflexivity]].
  - exact posted_grows.
  - intros s e i0. step_split0 s e; intros H; cbn [In] in H;
      repeat (destruct H as [H|H]; try discriminate); try contradiction;
      try (apply in_map_iff in H; destruct H as [? [? ?]]; discriminate);
      try (apply In_wake_obs in H; destruct H as [? H]; discriminate).
    all: injection H as <-; rewrite upd_same; ssimpl; auto.
  - exact last_res_only.
Qed.

(** * Non-vacuity: a concrete interleaving

    One submission slot, two future threads, three operations. Thread 1 polls operation 0 (waker 1,
    submitted), polls operation 1 and finds the queue full; while it is on its way to the blocked
    list the ring thread enters the kernel (operation 0 is consumed and completes); thread 1 parks
    waker 2, re-polls operation 0 with waker 3 (replacing waker 1); the ring thread's
    [wake_blocked_futures] wakes waker 2, its dispatch wakes waker 3 — the latest —; thread 2
    submits operation 2 and drops it with the queue full (no cancel request); thread 1 takes the
    result of operation 0 and drops it; the ring thread reaps operation 2 and frees its state. *)
Definition ex_progs : list (list call) :=
  [[Poll 0 1%N; Poll 1 2%N; Yield; Poll 0 3%N; Poll 0 4%N; DropOp 0]; [Poll 2 5%N; DropOp 2]].
Definition ex_mid : list ev :=
  repeat (T 1) 8 ++ repeat (T 1) 3 ++ repeat (T 0) 5 ++ [T 1; T 1; T 1] ++ repeat (T 0) 4 ++ repeat (T 0) 3.
Definition ex_all : list ev :=
  ex_mid ++ repeat (T 0) 4 ++ repeat (T 2) 8 ++ repeat (T 2) 3 ++ [T 1; T 1]
         ++ repeat (T 0) 5 ++ repeat (T 0) 4 ++ repeat (T 0) 3 ++ repeat (T 0) 4.

Ltac uses_inv H :=
  let c := fresh "c" in let Hin := fresh "Hin" in let Hm := fresh "Hm" in
  destruct H as [c [Hin Hm]]; cbn [In] in Hin;
  repeat (destruct Hin as [Hin|Hin]; [subst c; cbn [mentions] in Hm|]); try contradiction.

Lemma ex_progs_ok : progs_ok ex_progs.
Proof.
  split.
  - intros [|[|t]]; cbn [nth ex_progs linear]; repeat split; try exact I;
      try (intros H; uses_inv H; discriminate). destruct t; exact I.
  - intros t1 t2 i H1 H2.
    destruct t1 as [|[|t1]]; destruct t2 as [|[|t2]]; try reflexivity; cbn [nth ex_progs] in H1, H2;
      try (exfalso; destruct t1; exact (uses_nil _ H1)); try (exfalso; destruct t2; exact (uses_nil _ H2));
      exfalso; uses_inv H1; uses_inv H2;
      repeat match goal with H : (_ =? _) = true |- _ => apply Nat.eqb_eq in H end; try discriminate; congruence.
Qed.

Example race_example :
  progs_ok ex_progs
  /\ (let s := fst (run step (init 1%N true [] [] [] 3 ex_progs) ex_mid) in
      (* hypotheses of the wake-up theorem: the latest waker of operation 0 is 3, its completion was dispatched *)
      g_lastw (ops s 0) = Some 3%N /\ o_st (ops s 0) = Done /\ g_woken (ops s 0) = true
      /\ g_parked s = [2%N] /\ g_bwoken s = [2%N] /\ blocked s = [])
  /\ (let r := run step (init 1%N true [] [] [] 3 ex_progs) ex_all in
      snd r = [OPending 0 1%N; OConsumed (Submit 0); OParked 1 2%N; OPending 0 3%N; OWakeB 2%N; OWake 3%N;
               OPending 2 5%N; OReady 0 7%Z; OFree 0 true; OConsumed (Submit 2); OFree 2 true]
      /\ o_st (ops (fst r) 2) = Dropped /\ o_alloc (ops (fst r) 2) = false /\ g_frees (ops (fst r) 2) = 1
      /\ g_cancels (ops (fst r) 2) = 0 /\ g_frees (ops (fst r) 0) = 1 /\ g_bad (fst r) = false).
Proof. split; [exact ex_progs_ok|]. split; vm_compute; repeat split; reflexivity. Qed.

(** * The code before the repair of H15 loses a parked waker

    [step_h15]: [Completions::poll] does not end with [wake_blocked_futures]. One slot; a future
    finds the queue full and is on its way to the blocked list when the ring thread's poll enters
    the kernel (the queue is consumed, [wake_blocked_futures] finds the list empty), processes the
    completion and returns; then the waker is parked. From then on the queue is empty (there IS
    room), and whatever number of further ring polls are made — each enters the kernel, nothing
    to submit, nothing to reap, ETIME, no [wake_blocked_futures] — the waker stays parked and
    nothing is woken. *)
Definition quiet (s : sys) : Prop :=
  cq s = [] /\ sq s = [] /\ r_n s = 0
  /\ match r_pc s with RWbH | RWbT | RWbTry | RWbLock | RDisp | RDispSpin => False | _ => True end.

Lemma quiet_step s : quiet s ->
  quiet (fst (step_h15 s (T 0))) /\ snd (step_h15 s (T 0)) = [] /\ blocked (fst (step_h15 s (T 0))) = blocked s.
Proof.
  intros [Hcq [Hsq [Hn Hpc]]]. unfold quiet, step_h15, step_with, rstep_with, rstep_gen.
  destruct (r_pc s) eqn:E; try contradiction.
  - destruct (r_polls s); ssimpl; rewrite ?E; auto.
  - rewrite Hcq. ssimpl. auto.
  - ssimpl. auto.
  - ssimpl. auto.
  - unfold enter. rewrite Hsq. cbn [length N.of_nat]. rewrite N.min_0_r. cbn [N.to_nat firstn skipn fold_left map].
    ssimpl. rewrite Hcq. cbn [length Nat.eqb negb orb]. ssimpl. auto.
  - ssimpl. auto.
  - unfold begin_dispatch, advance. ssimpl. rewrite Hcq. cbn [length skip_book]. ssimpl. auto.
  - ssimpl. auto.
Qed.

Lemma quiet_forever k : forall s, quiet s ->
  blocked (fst (run step_h15 s (repeat (T 0) k))) = blocked s /\ snd (run step_h15 s (repeat (T 0) k)) = [].
Proof.
  induction k as [|k IH]; intros s Hq; cbn [repeat run]; [split; reflexivity|].
  destruct (quiet_step s Hq) as [Hq' [Ho Hb]].
  destruct (step_h15 s (T 0)) as [s1 o1]. cbn [fst snd] in Hq', Ho, Hb.
  destruct (IH s1 Hq') as [Hb2 Ho2]. destruct (run step_h15 s1 (repeat (T 0) k)) as [s2 o2].
  cbn [fst snd] in *. subst o1 o2. split; [congruence|reflexivity].
Qed.

Definition h15_progs : list (list call) := [[Poll 0 1%N; Poll 1 2%N]].
Definition h15_events : list ev :=
  repeat (T 1) 8 ++ repeat (T 1) 3 ++ repeat (T 0) 5 ++ repeat (T 0) 3 ++ repeat (T 0) 4 ++ [T 1].

Definition race_parked_waker_h15_lost : Prop :=
  exists progs es w, progs_ok progs /\
    forall further_polls,
      let s := fst (run step_h15 (init 1%N true [] [] [] (1 + further_polls) progs) es) in
      blocked s = [w] /\ sq s = [] /\ r_polls s = further_polls /\ r_pc s = RIdle
      /\ forall k, blocked (fst (run step_h15 s (repeat (T 0) k))) = [w]
                   /\ snd (run step_h15 s (repeat (T 0) k)) = [].

Lemma h15_progs_ok : progs_ok h15_progs.
Proof.
  split.
  - intros [|t]; cbn [nth h15_progs linear]; repeat split; try exact I. destruct t; exact I.
  - intros t1 t2 i H1 H2.
    destruct t1 as [|t1]; destruct t2 as [|t2]; try reflexivity; cbn [nth h15_progs] in H1, H2;
      try (exfalso; destruct t1; exact (uses_nil _ H1)); try (exfalso; destruct t2; exact (uses_nil _ H2)).
Qed.

Lemma race_parked_waker_h15_lost_holds : race_parked_waker_h15_lost.
Proof.
  exists h15_progs, h15_events, 2%N. split; [exact h15_progs_ok|].
  intros fp s.
  assert (Hq : quiet s) by (unfold quiet; vm_compute; repeat split; exact I).
  assert (Hb : blocked s = [2%N]) by (vm_compute; reflexivity).
  split; [exact Hb|]. split; [vm_compute; reflexivity|]. split; [vm_compute; reflexivity|].
  split; [vm_compute; reflexivity|].
  intros k. destruct (quiet_forever k s Hq) as [H1 H2]. rewrite H1. split; [exact Hb|exact H2].
Qed.

(** With the repaired code the very next poll wakes it (same interleaving, [step]). *)
Example race_parked_waker_fixed_is_woken :
  let s := fst (run step (init 1%N true [] [] [] 2 h15_progs)
                    (repeat (T 1) 8 ++ repeat (T 1) 3 ++ repeat (T 0) 5 ++ repeat (T 0) 3 ++ repeat (T 0) 4
                     ++ repeat (T 0) 3 ++ [T 1])) in
  blocked s = [2%N] /\ r_pc s = RIdle
  /\ snd (run step s (repeat (T 0) 11)) = [OWakeB 2%N]
  /\ blocked (fst (run step s (repeat (T 0) 11))) = [].
Proof. vm_compute. repeat split; reflexivity. Qed.

(** * Seeded change C06-a: status check and [Dropped] store under different lock acquisitions

    [step_c06a]: [State::drop] releases the operation's mutex between "is it Running?" and the
    store of [Dropped] (queueing the cancel in between). The ring thread dispatches the final
    completion inside that window (Running -> Done, waker woken); the drop then overwrites Done
    with Dropped and has asked to cancel an operation that had finished. Nothing is owed to the
    operation any more, so no dispatch will ever free it: the state box is leaked — clause (c) of
    [race_state_reclaimed_exactly_once] fails (Dropped, allocated, but no completion outstanding). *)
Definition c06a_progs : list (list call) := [[Poll 0 1%N; DropOp 0]].
Definition c06a_events : list ev :=
  repeat (T 1) 8 ++ repeat (T 0) 5 ++ repeat (T 0) 5 ++ [T 1] ++ [T 0] ++ repeat (T 1) 7 ++ [T 1]
  ++ repeat (T 0) 4 ++ repeat (T 0) 12 ++ repeat (T 0) 12.

Definition race_reclaimed_c06a_leaks : Prop :=
  exists progs es, progs_ok progs /\
    let r := run step_c06a (init 2%N true [] [] [] 3 progs) es in
    let s := fst r in
    o_st (ops s 0) = Dropped /\ o_alloc (ops s 0) = true /\ g_frees (ops s 0) = 0
    /\ tokens s 0 = 0 /\ sq s = [] /\ cq s = [] /\ inflight s = []
    /\ f_prog (thr s 0) = []
    /\ snd r = [OPending 0 1%N; OConsumed (Submit 0); OWake 1%N; OConsumed (Cancel 0)].

Lemma c06a_progs_ok : progs_ok c06a_progs.
Proof.
  split.
  - intros [|t]; cbn [nth c06a_progs linear]; repeat split; try exact I;
      try (intros H; uses_inv H). destruct t; exact I.
  - intros t1 t2 i H1 H2.
    destruct t1 as [|t1]; destruct t2 as [|t2]; try reflexivity; cbn [nth c06a_progs] in H1, H2;
      try (exfalso; destruct t1; exact (uses_nil _ H1)); try (exfalso; destruct t2; exact (uses_nil _ H2)).
Qed.

Lemma race_reclaimed_c06a_leaks_holds : race_reclaimed_c06a_leaks.
Proof.
  exists c06a_progs, c06a_events. split; [exact c06a_progs_ok|]. vm_compute. repeat split; reflexivity.
Qed.

(** * Non-vacuity for the multishot and two-step clauses

    Two slots; operation 0 is a multishot accept whose request posts 11, 12 (F_MORE) and 13
    (final), operation 1 a zero-copy send posting 21 (F_MORE) and the notification. One future
    thread submits both; after the kernel consumed them it re-polls the stream with waker 3
    (replacing waker 1); the kernel posts 11 and 21; the ring thread dispatches both: the stream's
    LATEST waker 3 is woken, the send's result wakes nobody and its waker stays ([ex_mid] ends
    here: the hypotheses of the multishot clause hold with a queued result). The thread takes 11,
    finds the queue empty (Pending, waker 5), re-polls the send (waker 6); the kernel posts 12, 13
    (final) and the notification; one ring poll dispatches all three: waker 5 for the stream (13
    finds no waker stored), waker 6 for the send -- only now, on its FINAL completion. The thread
    takes 12, 13, the send's result 21 (not the notification's 0), drops the send, gets the end of
    the stream and drops it. *)
Definition mr (r : Z) : cqe := {| c_res := r; c_more := true; c_notif := false |}.
Definition ntf : cqe := {| c_res := 0; c_more := false; c_notif := true |}.
Definition exk_progs : list (list call) :=
  [[Poll 0 1%N; Poll 1 2%N; Poll 0 3%N; Poll 0 4%N; Poll 0 5%N; Poll 1 6%N; Poll 0 7%N; Poll 0 8%N; Poll 1 9%N;
    DropOp 1; Poll 0 10%N; DropOp 0]].
Definition exk_scripts : list (list cqe) := [[mr 11; mr 12; fin 13]; [mr 21; ntf]].
Definition exk_mid : list ev :=
  repeat (T 1) 16 ++ repeat (T 0) 14 ++ [T 1; K 0; K 1] ++ repeat (T 0) 4.
Definition exk_all : list ev :=
  exk_mid ++ repeat (T 0) 4 ++ [T 1; T 1; T 1; K 0; K 0; K 1] ++ repeat (T 0) 9 ++ repeat (T 1) 6.

Lemma exk_progs_ok : progs_ok exk_progs.
Proof.
  split.
  - intros [|t]; cbn [nth exk_progs linear]; repeat split; try exact I;
      try (intros H; uses_inv H; discriminate). destruct t; exact I.
  - intros t1 t2 i H1 H2.
    destruct t1 as [|t1]; destruct t2 as [|t2]; try reflexivity; cbn [nth exk_progs] in H1, H2;
      try (exfalso; destruct t1; exact (uses_nil _ H1)); try (exfalso; destruct t2; exact (uses_nil _ H2)).
Qed.

Example race_example_kinds :
  progs_ok exk_progs
  /\ (let s := fst (run step (init 2%N false [Multi; TwoStep] [true; true] exk_scripts 3 exk_progs) exk_mid) in
      (* multishot: latest waker 3, a result queued, woken; two-step: result stored, not woken, waker kept *)
      o_kind (ops s 0) = Multi /\ o_st (ops s 0) = Running /\ g_lastw (ops s 0) = Some 3%N /\ o_q (ops s 0) = [11%Z]
      /\ g_woken (ops s 0) = true
      /\ o_st (ops s 1) = Running /\ o_res (ops s 1) = 21%Z /\ g_lastw (ops s 1) = Some 2%N
      /\ g_woken (ops s 1) = false /\ o_waker (ops s 1) = Some 2%N)
  /\ (let r := run step (init 2%N false [Multi; TwoStep] [true; true] exk_scripts 3 exk_progs) exk_all in
      snd r = [OPending 0 1%N; OPending 1 2%N; OConsumed (Submit 0); OConsumed (Submit 1); OPending 0 3%N; OWake 3%N;
               OReady 0 11%Z; OPending 0 5%N; OPending 1 6%N; OWake 5%N; OWake 6%N; OReady 0 12%Z; OReady 0 13%Z;
               OReady 1 21%Z; OFree 1 true; OEnd 0; OFree 0 true]
      /\ g_out (ops (fst r) 0) = [11%Z; 12%Z; 13%Z] /\ map c_res (posted (fst r) 0) = [11%Z; 12%Z; 13%Z]
      /\ g_out (ops (fst r) 1) = [21%Z] /\ posted (fst r) 1 = [mr 21; ntf]
      /\ g_frees (ops (fst r) 0) = 1 /\ g_frees (ops (fst r) 1) = 1 /\ g_bad (fst r) = false).
Proof. split; [exact exk_progs_ok|]. split; vm_compute; repeat split; reflexivity. Qed.

(** * Seeded change C02-a: [Multishot::next] takes with [swap_remove(0)]

    [step_c02a]. A valid interleaving: the stream is submitted, the kernel posts 11, 12, 13, one
    ring poll dispatches all three (queue [11; 12; 13]), three polls: 11 -- and 13 has taken its
    place --, 13, 12. The handed-out order differs from the posted order: the multishot clause of
    [race_results_are_own_in_order] (handed out = a prefix of posted) fails. *)
Definition c02a_progs : list (list call) := [[Poll 0 1%N; Poll 0 2%N; Poll 0 3%N; Poll 0 4%N]].
Definition c02a_events : list ev :=
  repeat (T 1) 8 ++ repeat (T 0) 20 ++ [K 0; K 0; K 0] ++ repeat (T 0) 20 ++ [T 1; T 1; T 1].

Definition race_stream_order_c02a_refuted : Prop :=
  exists progs scr es, progs_ok progs /\
    let s := fst (run step_c02a (init 2%N false [Multi] [true] scr 2 progs) es) in
    map c_res (posted s 0) = [11%Z; 12%Z; 13%Z] /\ g_out (ops s 0) = [11%Z; 13%Z; 12%Z]
    /\ ~ (exists rest, map c_res (posted s 0) = g_out (ops s 0) ++ rest)
    (* the unchanged code, same interleaving *)
    /\ g_out (ops (fst (run step (init 2%N false [Multi] [true] scr 2 progs) es)) 0) = [11%Z; 12%Z; 13%Z].

Lemma c02a_progs_ok : progs_ok c02a_progs.
Proof.
  split.
  - intros [|t]; cbn [nth c02a_progs linear]; repeat split; try exact I. destruct t; exact I.
  - intros t1 t2 i H1 H2.
    destruct t1 as [|t1]; destruct t2 as [|t2]; try reflexivity; cbn [nth c02a_progs] in H1, H2;
      try (exfalso; destruct t1; exact (uses_nil _ H1)); try (exfalso; destruct t2; exact (uses_nil _ H2)).
Qed.

Lemma race_stream_order_c02a_refuted_holds : race_stream_order_c02a_refuted.
Proof.
  exists c02a_progs, [[mr 11; mr 12; mr 13]], c02a_events. split; [exact c02a_progs_ok|].
  split; [vm_compute; reflexivity|]. split; [vm_compute; reflexivity|]. split; [|vm_compute; reflexivity].
  intros [rest H]. vm_compute in H. discriminate.
Qed.

(** * Seeded change C06-b: a dropped two-step operation released on its first completion

    [step_c06b]. A zero-copy send is submitted and consumed, its future dropped (the cancel request
    loses: -EALREADY), the kernel posts the result completion (F_MORE): its dispatch frees the state
    although the request is still in flight and its notification outstanding (clause (c) of
    [race_state_reclaimed_exactly_once] fails: freed with one item owed). When the notification is
    posted and dispatched the ring thread takes the mutex inside the freed box ([g_bad]) and frees
    it a second time. On the unchanged code ([step]) the same interleaving frees exactly once, on
    the notification. *)
Definition c06b_progs : list (list call) := [[Poll 0 1%N; DropOp 0]].
Definition c06b_events1 : list ev :=
  repeat (T 1) 8 ++ repeat (T 0) 14 ++ repeat (T 1) 8 ++ repeat (T 0) 14 ++ [K 0] ++ repeat (T 0) 14.
Definition c06b_events2 : list ev := c06b_events1 ++ [K 0] ++ repeat (T 0) 14.

Definition race_two_step_c06b_freed_early : Prop :=
  exists progs scr es1 es2, progs_ok progs /\
    (let r := run step_c06b (init 2%N false [TwoStep] [false] scr 12 progs) es1 in
     let s := fst r in
     snd r = [OPending 0 1%N; OConsumed (Submit 0); OConsumed (Cancel 0); OFree 0 true]
     /\ o_st (ops s 0) = Dropped /\ o_alloc (ops s 0) = false /\ inflight s = [0] /\ scripts s 0 = [ntf]
     /\ tokens s 0 = 1 /\ g_bad s = false)
    /\ (let s := fst (run step_c06b (init 2%N false [TwoStep] [false] scr 12 progs) (es1 ++ es2)) in
        g_bad s = true /\ g_frees (ops s 0) = 2)
    /\ (let r := run step (init 2%N false [TwoStep] [false] scr 12 progs) (es1 ++ es2) in
        snd r = [OPending 0 1%N; OConsumed (Submit 0); OConsumed (Cancel 0); OFree 0 true]
        /\ o_alloc (ops (fst (run step (init 2%N false [TwoStep] [false] scr 12 progs) es1)) 0) = true
        /\ g_bad (fst r) = false /\ g_frees (ops (fst r) 0) = 1 /\ inflight (fst r) = []).

Lemma c06b_progs_ok : progs_ok c06b_progs.
Proof.
  split.
  - intros [|t]; cbn [nth c06b_progs linear]; repeat split; try exact I;
      try (intros H; uses_inv H). destruct t; exact I.
  - intros t1 t2 i H1 H2.
    destruct t1 as [|t1]; destruct t2 as [|t2]; try reflexivity; cbn [nth c06b_progs] in H1, H2;
      try (exfalso; destruct t1; exact (uses_nil _ H1)); try (exfalso; destruct t2; exact (uses_nil _ H2)).
Qed.

Lemma race_two_step_c06b_freed_early_holds : race_two_step_c06b_freed_early.
Proof.
  exists c06b_progs, [[mr 21; ntf]], c06b_events1, ([K 0] ++ repeat (T 0) 14). split; [exact c06b_progs_ok|].
  split; [vm_compute; repeat split; reflexivity|]. split; vm_compute; repeat split; reflexivity.
Qed.

(** * Towards a linearisation (partial)

    What is proved: PER OPERATION the small-step execution is an execution of the atomic life
    cycle of Model/OpState.v with stuttering. Forget the mutex and the ghosts
    ([abs o = (status, waker, allocated)]); then every step of every reachable small-step
    execution changes [abs] of every operation by exactly one transition of the atomic machine
    ([atomic_trans]: OpState's [poll] / [drop_op] / [update] on status, stored waker and
    allocation; handing out a stream item and storing a two-step result do not change [abs]) or not
    at all: each API call and each dispatch takes effect in ONE step, its linearisation point
    (the first step of a call on a Running / Done / non-running operation; the tail store of
    [Submissions::add] for a submitting poll and for a drop that queues its cancel; the failed
    fullness check for a drop without room; the dispatch step of the ring thread), and the
    observations of that step are the ones the atomic step gives (clauses (G1)-(G4), (F), (d)
    above). Because calls on one operation are sequential in their thread and a call's commit
    step lies between its first and last step, this per-operation order is compatible with the
    calls' real-time order.

    What is missing for the full statement ("same observable outcome as SOME execution of
    Model/OpState.v's [step]"): the GLOBAL part — one total order of commit steps under which the
    shared submission queue and blocked list evolve as in OpState. It does not hold verbatim:
    a poll decides "queue full" from two loads that may be stale by the time it parks, so the
    atomic [poll_start] (which tests [has_room] at the linearisation point) would have to be
    relaxed to "may park although there is room"; likewise [wake_blocked_futures] works on a
    snapshot. The consequences that C03/C06 need from such a linearisation are proved directly
    on the small-step model above instead. *)
Definition abs (o : op) : status * option N * bool := (o_st o, o_waker o, o_alloc o).

Inductive atomic_trans : status * option N * bool -> status * option N * bool -> Prop :=
  | at_stutter a : atomic_trans a a
  | at_poll_submit wk w : atomic_trans (NotStarted, wk, true) (Running, Some w, true)
  | at_poll_pending wk w : atomic_trans (Running, wk, true) (Running, Some w, true)
  | at_poll_ready wk al : atomic_trans (Done, wk, al) (Complete, wk, al)
  | at_drop_running wk al : atomic_trans (Running, wk, al) (Dropped, wk, al)
  | at_drop_free x wk : x <> Running -> x <> Dropped -> atomic_trans (x, wk, true) (x, wk, false)
  | at_update_done wk : atomic_trans (Running, wk, true) (Done, None, true)
  | at_update_more wk : atomic_trans (Running, wk, true) (Running, None, true)   (* multishot: a result with F_MORE *)
  | at_update_free wk : atomic_trans (Dropped, wk, true) (Dropped, wk, false).

Definition race_refines_atomic_per_operation_partial : Prop :=
  forall cap0 auto0 kinds canc scr npolls progs es e, progs_ok progs ->
    let s := fst (run step (init cap0 auto0 kinds canc scr npolls progs) es) in
    forall j, atomic_trans (abs (ops s j)) (abs (ops (fst (step s e)) j)).

Lemma race_refines_atomic_per_operation_partial_holds : race_refines_atomic_per_operation_partial.
Proof.
  intros cap0 auto0 kinds canc scr npolls progs es e Hp s j.
  pose proof (reachable_inv cap0 auto0 kinds canc scr npolls progs es Hp) as HI. fold s in HI.
  pose proof (step_op_trans s e HI j) as Hot. revert Hot.
  generalize (ops s j) (ops (fst (step s e)) j). intros o o' Hot. unfold abs.
  inversion Hot; subst; ssimpl;
    repeat match goal with
    | H : o_st o = _ |- _ => rewrite H
    | H : o_alloc o = _ |- _ => rewrite H
    end;
    try (solve [apply at_stutter | apply at_poll_pending | apply at_poll_submit | apply at_poll_ready
               | apply at_drop_running | apply at_update_free | apply at_drop_free; assumption ]).
  (* a completion is accepted *)
  destruct (c_more c); cbn [negb orb]; [|apply at_update_done].
  destruct (is_multi (o_kind o)); [apply at_update_more|apply at_stutter].
Qed.

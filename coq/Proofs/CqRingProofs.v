(** Proofs about Model/CqRing.v (property C05). *)
From A10 Require Import Base.Word Base.Run Gen.Consts Model.CqRing.
From Coq Require Import ZifyN ZifyBool ZifyNat.
Ltac Zify.zify_post_hook ::= Z.div_mod_to_equations.

(** Ring parameters: [n] entries, a divisor of 2^32 (hence a power of two, see
    [divisor_of_pow2]) strictly below 2^32; [h0] the value both counters had when the ring was
    handed over (any 32-bit value).

    [n < 2^32] is required: with exactly 2^32 entries a full ring has [tail == head] and
    [has_room] (a 32-bit subtraction) reports room. The implementation cannot express that
    size ([entries_len : u32]) and the kernel caps CQ sizes far below it. *)
Definition params_ok (n m h0 : N) : Prop := n * m = two32 /\ 0 < n /\ n < two32 /\ h0 < two32.

(** All completions the kernel posted, in order. *)
Fixpoint kposted (es : list ev) : list cqe :=
  match es with
  | [] => []
  | KPost c :: r => c :: kposted r
  | _ :: r => kposted r
  end.

Definition keep (c : cqe) : bool := negb (is_internal c).

(** The invariant tying the 32-bit words and the slot array to the unbounded history. *)
Definition Inv (n h0 : N) (s : cq) : Prop :=
  len s = n
  /\ khead s = (h0 + g_hpub s) mod two32
  /\ ktail s = (h0 + g_t s) mod two32
  /\ g_hpub s <= g_hu s /\ g_hu s <= g_tu s /\ g_tu s <= g_t s
  /\ g_t s - g_hpub s <= n
  /\ N.of_nat (length (g_posted s)) = g_t s
  /\ (forall i, g_hpub s <= i -> i < g_t s ->
        slots s ((h0 + i) mod n) = nth (N.to_nat i) (g_posted s) poison)
  /\ uh s = (h0 + g_hu s) mod two32
  /\ ut s = (h0 + g_tu s) mod two32
  /\ (polling s = false -> g_hu s = g_hpub s /\ g_tu s = g_hu s).

(** ** Statements (proved below). *)

(** C05 main: what has been handed to operations is exactly the non-bookkeeping part of the
    first [g_hu] completions placed in the ring — each once, in publication order — and nothing
    the kernel posted was lost or reordered (ring content followed by the overflow list is the
    posting history). *)
Definition cq_exactly_once_in_order : Prop :=
  forall n m h0 es, params_ok n m h0 ->
    let '(s, out) := run step (init n h0) es in
    Inv n h0 s
    /\ out = filter keep (firstn (N.to_nat (g_hu s)) (g_posted s))
    /\ g_posted s ++ ovf s = kposted es.

(** Every slot the poll loop reads holds a completion the kernel published, namely the next
    one in publication order; slots are released only after they were read. *)
Definition cq_reads_published_only : Prop :=
  forall n m h0 s, params_ok n m h0 -> Inv n h0 s ->
    polling s = true -> uh s <> ut s ->
    g_hu s < g_t s
    /\ slots s (N.land (uh s) (len s - 1)) = nth (N.to_nat (g_hu s)) (g_posted s) poison.

(** The kernel (which only sees the published head) never overwrites a slot that has not been
    processed yet. *)
Definition cq_kernel_never_overwrites_unread : Prop :=
  forall n m h0 s c i, params_ok n m h0 -> Inv n h0 s ->
    g_hpub s <= i -> i < g_t s ->
    slots (kpost s c) ((h0 + i) mod n) = slots s ((h0 + i) mod n).

(** A complete poll started when none is in progress processes everything in the ring. *)
Definition cq_poll_drains_ring : Prop :=
  forall n m h0 s, params_ok n m h0 -> Inv n h0 s -> polling s = false ->
    let s' := fst (poll_end (poll_begin s)) in
    Inv n h0 s' /\ g_hu s' = g_t s' /\ khead s' = ktail s'.

(** Bookkeeping completions are never handed to an operation, and an operation's user_data
    (address of its state, at least 4, with the tag in bit 0) is never a reserved value. *)
Definition cq_internal_never_dispatched : Prop :=
  (forall n m h0 es c, params_ok n m h0 ->
     In c (snd (run step (init n h0) es)) -> is_internal c = false)
  /\ (forall p, 4 <= p -> is_reserved p = false).

(** ** Arithmetic *)

(** A divisor of a power of two is a power of two. *)
Lemma divisor_of_pow2 (k : nat) :
  forall n m, n * m = 2 ^ N.of_nat k -> exists j, j <= N.of_nat k /\ n = 2 ^ j.
Proof.
  induction k as [|k IH]; intros n m H.
  - exists 0. change (2 ^ N.of_nat 0) with 1 in H. change (2 ^ 0) with 1.
    split; [lia|]. destruct n as [|p]; [lia|]. destruct m as [|q]; [lia|].
    destruct p; destruct q; try reflexivity; cbn in H; try discriminate H; lia.
  - rewrite Nat2N.inj_succ, N.pow_succ_r' in H.
    destruct (N.Even_or_Odd n) as [[a Ha]|[a Ha]].
    + subst n. destruct (IH a m) as [j [Hj Hn]].
      { rewrite <- N.mul_assoc in H. apply N.mul_cancel_l in H; [exact H|lia]. }
      exists (N.succ j). split; [lia|]. rewrite N.pow_succ_r', Hn; lia.
    + destruct (N.Even_or_Odd m) as [[b Hb]|[b Hb]].
      * subst m. destruct (IH n b) as [j [Hj Hn]].
        { replace (n * (2 * b)) with (2 * (n * b)) in H by lia.
          apply N.mul_cancel_l in H; [exact H|lia]. }
        exists j. split; [lia|exact Hn].
      * exfalso. subst n m. generalize dependent (2 ^ N.of_nat k). intros P _ HP. lia.
Qed.

(** The index computation [head & (len - 1)] is reduction modulo [len]. *)
Lemma mask_is_mod n m x : n * m = two32 -> N.land x (n - 1) = x mod n.
Proof.
  intros H. change two32 with (2 ^ N.of_nat 32) in H.
  destruct (divisor_of_pow2 _ _ _ H) as [j [_ ->]]. apply land_pow2_mask.
Qed.

(** [wsub32_ghost] with the start offset. *)
Lemma sub_off h0 T H :
  H <= T -> T - H < two32 -> wsub32 ((h0 + T) mod two32) ((h0 + H) mod two32) = T - H.
Proof. intros. rewrite wsub32_ghost by lia. lia. Qed.

(** Equality of the 32-bit words decides equality of the ghost counters. *)
Lemma eq_off h0 T H :
  H <= T -> T - H < two32 -> (h0 + H) mod two32 = (h0 + T) mod two32 -> H = T.
Proof. unfold two32. intros. lia. Qed.

Lemma add1_off h0 T : wadd32 ((h0 + T) mod two32) 1 = (h0 + (T + 1)) mod two32.
Proof. rewrite wadd32_ghost, N.add_assoc. reflexivity. Qed.

Lemma slot_off n m h0 T : n * m = two32 -> 0 < n -> ((h0 + T) mod two32) mod n = (h0 + T) mod n.
Proof. intros. eapply slot_of_real32; eauto. Qed.

Lemma slots_distinct_off n h0 i j :
  0 < n -> i < j -> j < i + n -> (h0 + i) mod n <> (h0 + j) mod n.
Proof. intros. apply slots_distinct; lia. Qed.

(** ** Lists *)
Lemma firstn_S_snoc {A} (d : A) :
  forall k l, (k < length l)%nat -> firstn (S k) l = firstn k l ++ [nth k l d].
Proof.
  induction k as [|k IH]; intros [|x l] H; cbn [length] in H; try lia.
  - reflexivity.
  - change (firstn (S (S k)) (x :: l)) with (x :: firstn (S k) l).
    rewrite IH by lia. reflexivity.
Qed.

Lemma firstn_app_le {A} (l1 l2 : list A) k :
  (k <= length l1)%nat -> firstn k (l1 ++ l2) = firstn k l1.
Proof.
  intros H. rewrite firstn_app. replace (k - length l1)%nat with 0%nat by lia.
  cbn [firstn]. apply app_nil_r.
Qed.

Lemma nth_snoc {A} (l : list A) c d : nth (length l) (l ++ [c]) d = c.
Proof. rewrite app_nth2 by lia. replace (length l - length l)%nat with 0%nat by lia. reflexivity. Qed.

(** ** One step at a time *)
Ltac proj := cbn [len khead ktail slots ovf polling uh ut g_hpub g_hu g_tu g_t g_posted] in *.
Ltac inv_destruct H :=
  destruct H as (Hlen & Hkh & Hkt & Hle1 & Hle2 & Hle3 & Hcap & Hlp & Hsl & Huh & Hut & Hpol).
(** [lia] on the ghost counters only: the equations tying them to the 32-bit words are dropped
    first (with [two32] folded they make the goal non-linear for [lia]). *)
Ltac alia := repeat match goal with H : _ = _ mod _ |- _ => clear H end; lia.

Lemma has_room_spec n m h0 s :
  params_ok n m h0 -> Inv n h0 s -> has_room s = (g_t s - g_hpub s <? n).
Proof.
  intros (Hnm & Hn0 & Hn32 & Hh0) HI. inv_destruct HI.
  unfold has_room. rewrite Hkh, Hkt, Hlen, sub_off by alia. reflexivity.
Qed.

(** The kernel's write lands in a slot outside the live window. *)
Lemma ring_put_slot n m h0 s c i :
  params_ok n m h0 -> Inv n h0 s -> has_room s = true ->
  g_hpub s <= i -> i < g_t s ->
  slots (ring_put s c) ((h0 + i) mod n) = slots s ((h0 + i) mod n).
Proof.
  intros Hp HI Hroom Hi1 Hi2. rewrite (has_room_spec n m h0 s Hp HI) in Hroom.
  destruct Hp as (Hnm & Hn0 & Hn32 & Hh0). inv_destruct HI.
  unfold ring_put; proj. rewrite Hkt, Hlen, (slot_off n m) by assumption.
  destruct (N.eqb_spec ((h0 + i) mod n) ((h0 + g_t s) mod n)) as [E|E]; [|reflexivity].
  exfalso. revert E. apply slots_distinct_off; alia.
Qed.

Lemma Inv_ring_put n m h0 s c :
  params_ok n m h0 -> Inv n h0 s -> has_room s = true -> Inv n h0 (ring_put s c).
Proof.
  intros Hp HI Hroom. pose proof (ring_put_slot n m h0 s c) as Hslot.
  specialize (fun i => Hslot i Hp HI Hroom).
  rewrite (has_room_spec n m h0 s Hp HI) in Hroom.
  destruct Hp as (Hnm & Hn0 & Hn32 & Hh0). inv_destruct HI.
  unfold Inv. repeat match goal with |- _ /\ _ => split end;
    try (unfold ring_put; proj; first [assumption | alia]).
  - unfold ring_put; proj. rewrite Hkt. apply add1_off.
  - unfold ring_put; proj. rewrite app_length. cbn [length]. alia.
  - intros i Hi1 Hi2. change (g_hpub (ring_put s c)) with (g_hpub s) in Hi1.
    change (g_t (ring_put s c)) with (g_t s + 1) in Hi2.
    change (g_posted (ring_put s c)) with (g_posted s ++ [c]).
    assert (Hi : i < g_t s \/ i = g_t s) by alia. destruct Hi as [Hi|Hi].
    + rewrite Hslot by assumption. rewrite app_nth1 by alia. apply Hsl; assumption.
    + subst i. unfold ring_put; proj. rewrite Hkt, Hlen, (slot_off n m) by assumption.
      rewrite N.eqb_refl. rewrite <- Hlp, Nat2N.id. symmetry. apply nth_snoc.
Qed.

Lemma Inv_set_ovf n h0 s o : Inv n h0 s -> Inv n h0 (set_ovf s o).
Proof. intros H. exact H. Qed.

(** Everything the poll loop looks at, except the ring content behind the tail. *)
Definition user_same (s s' : cq) : Prop :=
  len s' = len s /\ khead s' = khead s /\ polling s' = polling s /\ uh s' = uh s /\ ut s' = ut s
  /\ g_hpub s' = g_hpub s /\ g_hu s' = g_hu s /\ g_tu s' = g_tu s.

Lemma user_same_refl s : user_same s s.
Proof. unfold user_same. repeat split. Qed.

Lemma kflush_list_ok n m h0 : params_ok n m h0 -> forall o s, Inv n h0 s ->
  let s' := kflush_list s o in
  Inv n h0 s' /\ user_same s s'
  /\ exists l, g_posted s' = g_posted s ++ l /\ l ++ ovf s' = o.
Proof.
  intros Hp o; induction o as [|c o IH]; intros s HI; cbn [kflush_list].
  - split; [apply Inv_set_ovf; exact HI|]. split; [exact (user_same_refl s)|].
    exists []. rewrite app_nil_r. split; reflexivity.
  - destruct (has_room s) eqn:Hroom.
    + destruct (IH (ring_put s c) (Inv_ring_put n m h0 s c Hp HI Hroom)) as (HI' & Hu & l & Hl1 & Hl2).
      split; [exact HI'|]. split; [exact Hu|].
      exists (c :: l). split.
      * rewrite Hl1. change (g_posted (ring_put s c)) with (g_posted s ++ [c]).
        rewrite <- app_assoc. reflexivity.
      * cbn [app]. rewrite Hl2. reflexivity.
    + split; [apply Inv_set_ovf; exact HI|]. split; [exact (user_same_refl s)|].
      exists []. rewrite app_nil_r. split; reflexivity.
Qed.

(** What has been dispatched so far, according to the ghost history. *)
Definition hist (s : cq) : list cqe := filter keep (firstn (N.to_nat (g_hu s)) (g_posted s)).

Lemma hist_ext n h0 s gh l :
  Inv n h0 s -> gh = g_hu s ->
  filter keep (firstn (N.to_nat gh) (g_posted s ++ l)) = hist s.
Proof.
  intros HI ->. inv_destruct HI. unfold hist. rewrite firstn_app_le by alia. reflexivity.
Qed.

Lemma kpost_ok n m h0 s c :
  params_ok n m h0 -> Inv n h0 s ->
  Inv n h0 (kpost s c) /\ hist (kpost s c) = hist s
  /\ g_posted (kpost s c) ++ ovf (kpost s c) = (g_posted s ++ ovf s) ++ [c].
Proof.
  intros Hp HI. unfold kpost. destruct (ovf s) as [|c0 o] eqn:Eo.
  - destruct (has_room s) eqn:Hr.
    + split; [apply (Inv_ring_put n m); assumption|]. split.
      * apply (hist_ext n h0 s _ [c]); [assumption|reflexivity].
      * unfold ring_put; proj. rewrite Eo, !app_nil_r. reflexivity.
    + split; [apply Inv_set_ovf; assumption|]. split; [reflexivity|].
      unfold set_ovf; proj. rewrite app_nil_r. reflexivity.
  - split; [apply Inv_set_ovf; assumption|]. split; [reflexivity|].
    unfold set_ovf; proj. rewrite app_assoc. reflexivity.
Qed.

(** Taking the snapshot when no poll is in progress. *)
Lemma Inv_snapshot n h0 s :
  Inv n h0 s -> polling s = false ->
  Inv n h0 (set_user s true (khead s) (ktail s) 0 (g_t s)).
Proof.
  intros HI Ep. inv_destruct HI. destruct (Hpol Ep) as [P1 P2].
  unfold Inv, set_user; proj. rewrite !N.add_0_r.
  repeat match goal with |- _ /\ _ => split end;
    try first [assumption | discriminate | rewrite Hkh, P1; reflexivity | alia].
Qed.

Lemma poll_begin_ok n m h0 s :
  params_ok n m h0 -> Inv n h0 s ->
  Inv n h0 (poll_begin s) /\ hist (poll_begin s) = hist s
  /\ g_posted (poll_begin s) ++ ovf (poll_begin s) = g_posted s ++ ovf s
  /\ (polling s = false ->
      polling (poll_begin s) = true /\ g_tu (poll_begin s) = g_t (poll_begin s)).
Proof.
  intros Hp HI. unfold poll_begin. destruct (polling s) eqn:Ep.
  - split; [assumption|]. split; [reflexivity|]. split; [reflexivity|]. discriminate.
  - destruct (khead s =? ktail s) eqn:E; cbv zeta.
    + unfold kflush.
      destruct (kflush_list_ok n m h0 Hp (ovf s) s HI) as (HI' & Hu & l & Hl1 & Hl2).
      cbv zeta in HI', Hu, Hl1, Hl2.
      set (s1 := kflush_list s (ovf s)) in *. clearbody s1.
      destruct Hu as (U1 & U2 & U3 & U4 & U5 & U6 & U7 & U8).
      rewrite <- U2. split; [apply Inv_snapshot; [assumption|congruence]|].
      split.
      * unfold hist at 1, set_user; proj. rewrite Hl1. apply (hist_ext n h0); [assumption|].
        rewrite N.add_0_r. exact U7.
      * split; [|intros _; split; reflexivity].
        unfold set_user; proj. rewrite Hl1, <- app_assoc, Hl2. reflexivity.
    + split; [apply Inv_snapshot; assumption|]. split.
      * unfold hist, set_user; proj. rewrite N.add_0_r. reflexivity.
      * split; [reflexivity|intros _; split; reflexivity].
Qed.

(** How a piece of the poll loop relates two states: [o] was dispatched, [k] entries were
    consumed (when that many were left in the snapshot). *)
Definition poll_rel (s s' : cq) (o : list cqe) (k : N) : Prop :=
  hist s' = hist s ++ o /\ g_posted s' = g_posted s /\ ovf s' = ovf s
  /\ polling s' = polling s /\ g_tu s' = g_tu s /\ g_t s' = g_t s /\ g_hpub s' = g_hpub s
  /\ (polling s = true -> k <= g_tu s - g_hu s -> g_hu s' = g_hu s + k)
  /\ (forall c, In c o -> is_internal c = false).

Lemma poll_rel_refl s k : (polling s = true -> k <= g_tu s - g_hu s -> k = 0) -> poll_rel s s [] k.
Proof.
  intros Hk. unfold poll_rel. rewrite app_nil_r.
  repeat match goal with |- _ /\ _ => split end; try reflexivity.
  - intros A B. rewrite (Hk A B). lia.
  - intros c [].
Qed.

Lemma poll_rel_trans s s1 s2 o1 o2 a b :
  poll_rel s s1 o1 a -> poll_rel s1 s2 o2 b -> poll_rel s s2 (o1 ++ o2) (a + b).
Proof.
  intros (A1 & A2 & A3 & A4 & A5 & A6 & A7 & A8 & A9) (B1 & B2 & B3 & B4 & B5 & B6 & B7 & B8 & B9).
  unfold poll_rel. repeat match goal with |- _ /\ _ => split end; try congruence.
  - rewrite B1, A1, app_assoc. reflexivity.
  - intros P K. rewrite A4 in B8. specialize (A8 P ltac:(lia)). specialize (B8 P ltac:(lia)). lia.
  - intros c Hc. apply in_app_or in Hc. destruct Hc; auto.
Qed.

Lemma ghost_lt_of_neq n m h0 s :
  params_ok n m h0 -> Inv n h0 s -> uh s <> ut s -> g_hu s < g_tu s.
Proof.
  intros (Hnm & Hn0 & Hn32 & Hh0) HI Hne. inv_destruct HI.
  destruct (N.eq_dec (g_hu s) (g_tu s)) as [e|e]; [|alia].
  exfalso. apply Hne. rewrite Huh, Hut, e. reflexivity.
Qed.

Lemma ghost_eq_of_eq n m h0 s :
  params_ok n m h0 -> Inv n h0 s -> uh s = ut s -> g_hu s = g_tu s.
Proof.
  intros (Hnm & Hn0 & Hn32 & Hh0) HI He. inv_destruct HI.
  rewrite Huh, Hut in He. apply eq_off in He; [exact He|alia|alia].
Qed.

Lemma read_slot n m h0 s :
  params_ok n m h0 -> Inv n h0 s -> g_hu s < g_tu s ->
  slots s (N.land (uh s) (len s - 1)) = nth (N.to_nat (g_hu s)) (g_posted s) poison.
Proof.
  intros (Hnm & Hn0 & Hn32 & Hh0) HI Hlt. inv_destruct HI.
  rewrite Hlen, (mask_is_mod n m), Huh, (slot_off n m) by assumption.
  apply Hsl; alia.
Qed.

Lemma poll_step_ok n m h0 s :
  params_ok n m h0 -> Inv n h0 s ->
  Inv n h0 (fst (poll_step s)) /\ poll_rel s (fst (poll_step s)) (snd (poll_step s)) 1.
Proof.
  intros Hp HI. unfold poll_step.
  destruct (polling s) eqn:Ep; cbn [andb];
    [destruct (N.eqb_spec (uh s) (ut s)) as [Eu|Eu]; cbn [negb]|]; cbn [fst snd].
  - split; [assumption|]. apply poll_rel_refl. intros _ K.
    pose proof (ghost_eq_of_eq n m h0 s Hp HI Eu). lia.
  - pose proof (ghost_lt_of_neq n m h0 s Hp HI Eu) as Hlt.
    pose proof (read_slot n m h0 s Hp HI Hlt) as Hc.
    set (c := slots s (N.land (uh s) (len s - 1))) in *. clearbody c.
    destruct Hp as (Hnm & Hn0 & Hn32 & Hh0). inv_destruct HI.
    split.
    + unfold Inv, set_user; proj.
      repeat match goal with |- _ /\ _ => split end; try first [assumption | alia].
      rewrite Huh. apply add1_off.
    + unfold poll_rel, hist, set_user; proj.
      repeat match goal with |- _ /\ _ => split end;
        try first [intros; reflexivity | symmetry; exact Ep].
      * replace (N.to_nat (g_hu s + 1)) with (S (N.to_nat (g_hu s))) by lia.
        rewrite (firstn_S_snoc poison) by alia. rewrite filter_app. f_equal.
        cbn [filter]. rewrite <- Hc. unfold keep. destruct (is_internal c); reflexivity.
      * intros c' Hin. destruct (is_internal c) eqn:Ei; cbn [In] in Hin; [contradiction|].
        destruct Hin as [<-|[]]. exact Ei.
  - split; [assumption|]. apply poll_rel_refl. intros A. congruence.
Qed.

Lemma poll_steps_ok n m h0 : params_ok n m h0 -> forall k s, Inv n h0 s ->
  Inv n h0 (fst (poll_steps k s))
  /\ poll_rel s (fst (poll_steps k s)) (snd (poll_steps k s)) (N.of_nat k).
Proof.
  intros Hp k; induction k as [|k IH]; intros s HI.
  - cbn [poll_steps fst snd]. split; [assumption|]. apply poll_rel_refl. lia.
  - cbn [poll_steps]. destruct (poll_step_ok n m h0 s Hp HI) as (I1 & R1).
    destruct (poll_step s) as [s1 o1]. cbn [fst snd] in I1, R1.
    destruct (IH s1 I1) as (I2 & R2).
    destruct (poll_steps k s1) as [s2 o2]. cbn [fst snd] in *.
    split; [assumption|].
    replace (N.of_nat (S k)) with (1 + N.of_nat k) by lia.
    eapply poll_rel_trans; eassumption.
Qed.

Lemma poll_end_ok n m h0 s :
  params_ok n m h0 -> Inv n h0 s ->
  Inv n h0 (fst (poll_end s))
  /\ hist (fst (poll_end s)) = hist s ++ snd (poll_end s)
  /\ g_posted (fst (poll_end s)) = g_posted s /\ ovf (fst (poll_end s)) = ovf s
  /\ g_t (fst (poll_end s)) = g_t s
  /\ (polling s = true ->
      g_hu (fst (poll_end s)) = g_tu s /\ g_hpub (fst (poll_end s)) = g_tu s)
  /\ (forall c, In c (snd (poll_end s)) -> is_internal c = false).
Proof.
  intros Hp HI. unfold poll_end. destruct (polling s) eqn:Ep.
  - assert (Hk : wsub32 (ut s) (uh s) = g_tu s - g_hu s).
    { destruct Hp as (Hnm & Hn0 & Hn32 & Hh0). inv_destruct HI.
      rewrite Hut, Huh. apply sub_off; alia. }
    rewrite Hk.
    destruct (poll_steps_ok n m h0 Hp (N.to_nat (g_tu s - g_hu s)) s HI) as (I1 & R).
    destruct (poll_steps (N.to_nat (g_tu s - g_hu s)) s) as [s1 o]. cbn [fst snd] in *.
    destruct R as (R1 & R2 & R3 & R4 & R5 & R6 & R7 & R8 & R9).
    rewrite N2Nat.id in R8. specialize (R8 Ep (N.le_refl _)).
    assert (Hhu : g_hu s1 = g_tu s) by (inv_destruct HI; alia).
    split.
    + inv_destruct I1. unfold Inv; proj.
      repeat match goal with |- _ /\ _ => split end; try first [assumption | alia].
      intros i Hi1 Hi2. apply Hsl; alia.
    + split; [exact R1|]. split; [exact R2|]. split; [exact R3|]. split; [exact R6|].
      split; [intros _; split; exact Hhu|exact R9].
  - cbn [fst snd]. rewrite app_nil_r. repeat match goal with |- _ /\ _ => split end;
      try reflexivity; try assumption; [discriminate | intros c []].
Qed.

Lemma kposted_cons e es : kposted (e :: es) = kposted [e] ++ kposted es.
Proof. destruct e; reflexivity. Qed.

Lemma step_ok n m h0 s e :
  params_ok n m h0 -> Inv n h0 s ->
  Inv n h0 (fst (step s e)) /\ hist (fst (step s e)) = hist s ++ snd (step s e)
  /\ g_posted (fst (step s e)) ++ ovf (fst (step s e)) = (g_posted s ++ ovf s) ++ kposted [e]
  /\ (forall c, In c (snd (step s e)) -> is_internal c = false).
Proof.
  intros Hp HI. destruct e as [c| | |]; cbn [step fst snd kposted]; rewrite ?app_nil_r.
  - destruct (kpost_ok n m h0 s c Hp HI) as (A & B & C).
    split; [exact A|]. split; [exact B|]. split; [exact C|]. intros ? [].
  - destruct (poll_begin_ok n m h0 s Hp HI) as (A & B & C & _).
    split; [exact A|]. split; [exact B|]. split; [exact C|]. intros ? [].
  - destruct (poll_step_ok n m h0 s Hp HI) as (A & R1 & R2 & R3 & _ & _ & _ & _ & _ & R9).
    split; [exact A|]. split; [exact R1|]. split; [rewrite R2, R3; reflexivity|exact R9].
  - destruct (poll_end_ok n m h0 s Hp HI) as (A & R1 & R2 & R3 & _ & _ & R9).
    split; [exact A|]. split; [exact R1|]. split; [rewrite R2, R3; reflexivity|exact R9].
Qed.

Lemma run_ok n m h0 : params_ok n m h0 -> forall es s, Inv n h0 s ->
  Inv n h0 (fst (run step s es)) /\ hist (fst (run step s es)) = hist s ++ snd (run step s es)
  /\ g_posted (fst (run step s es)) ++ ovf (fst (run step s es))
     = (g_posted s ++ ovf s) ++ kposted es
  /\ (forall c, In c (snd (run step s es)) -> is_internal c = false).
Proof.
  intros Hp es; induction es as [|e es IH]; intros s HI.
  - cbn [run fst snd kposted]. rewrite !app_nil_r.
    split; [assumption|]. split; [reflexivity|]. split; [reflexivity|]. intros ? [].
  - cbn [run]. destruct (step_ok n m h0 s e Hp HI) as (A1 & B1 & C1 & D1).
    destruct (step s e) as [s1 o1]. cbn [fst snd] in *.
    destruct (IH s1 A1) as (A2 & B2 & C2 & D2).
    destruct (run step s1 es) as [s2 o2]. cbn [fst snd] in *.
    split; [assumption|]. split; [rewrite B2, B1, app_assoc; reflexivity|].
    split; [rewrite (kposted_cons e es), C2, C1, app_assoc; reflexivity|].
    intros c Hc. apply in_app_or in Hc. destruct Hc; auto.
Qed.

Lemma Inv_init n m h0 : params_ok n m h0 -> Inv n h0 (init n h0).
Proof.
  intros (Hnm & Hn0 & Hn32 & Hh0). unfold Inv, init; proj. rewrite N.add_0_r.
  rewrite N.mod_small by assumption.
  repeat match goal with |- _ /\ _ => split end; try reflexivity; lia.
Qed.

(** ** The statements *)
Lemma cq_exactly_once_in_order_holds : cq_exactly_once_in_order.
Proof.
  intros n m h0 es Hp.
  destruct (run_ok n m h0 Hp es (init n h0) (Inv_init n m h0 Hp)) as (A & B & C & _).
  destruct (run step (init n h0) es) as [s out]. cbn [fst snd] in *.
  split; [exact A|]. split; [|exact C].
  unfold hist in B. cbn [init g_hu g_posted] in B. symmetry. exact B.
Qed.

Lemma cq_reads_published_only_holds : cq_reads_published_only.
Proof.
  intros n m h0 s Hp HI _ Hne.
  pose proof (ghost_lt_of_neq n m h0 s Hp HI Hne) as Hlt.
  split; [|apply (read_slot n m h0); assumption].
  inv_destruct HI. alia.
Qed.

Lemma cq_kernel_never_overwrites_unread_holds : cq_kernel_never_overwrites_unread.
Proof.
  intros n m h0 s c i Hp HI Hi1 Hi2. unfold kpost.
  destruct (ovf s); [destruct (has_room s) eqn:Hr|]; try reflexivity.
  apply (ring_put_slot n m); assumption.
Qed.

Lemma cq_poll_drains_ring_holds : cq_poll_drains_ring.
Proof.
  intros n m h0 s Hp HI Hnp. cbv zeta.
  destruct (poll_begin_ok n m h0 s Hp HI) as (I1 & _ & _ & B).
  destruct (B Hnp) as (B1 & B2).
  destruct (poll_end_ok n m h0 (poll_begin s) Hp I1) as (I2 & _ & _ & _ & Et & E & _).
  destruct (E B1) as (E1 & E2).
  set (s' := fst (poll_end (poll_begin s))) in *. clearbody s'.
  split; [exact I2|]. split; [congruence|].
  inv_destruct I2. rewrite Hkh, Hkt. f_equal. f_equal. congruence.
Qed.

Lemma cq_internal_never_dispatched_holds : cq_internal_never_dispatched.
Proof.
  split.
  - intros n m h0 es c Hp Hin.
    destruct (run_ok n m h0 Hp es (init n h0) (Inv_init n m h0 Hp)) as (_ & _ & _ & D). auto.
  - intros p Hp. unfold is_reserved, NO_USER_DATA, WAKE_USER_DATA, CANCEL_USER_DATA, CLOSE_USER_DATA.
    blia.
Qed.

(** ** What was wrong before the repair of H3.
    With the numeric comparison [head < tail] the loop body never runs once the tail has
    wrapped past 2^32 while the head has not: both completions below are in the ring and
    published, the old loop dispatches nothing, the repaired poll dispatches both. *)
Lemma poll_h3_refuted :
  exists c1 c2 s,
    is_internal c1 = false /\ is_internal c2 = false
    /\ s = fst (run step (init 4 (two32 - 1)) [KPost c1; KPost c2])
    /\ poll_h3 s = []
    /\ snd (run step s [PollBegin; PollEnd]) = [c1; c2].
Proof.
  exists {| ud := 8; res := 1%Z; fl := 0 |}, {| ud := 16; res := 2%Z; fl := 0 |}.
  eexists. split; [reflexivity|]. split; [reflexivity|]. split; [reflexivity|].
  split; vm_compute; reflexivity.
Qed.

(** Non-vacuity: two entries, counters starting at 2^32 - 1 so that they wrap at once; the
    ring fills, the kernel overflows, a posting lands in the middle of a poll, the second poll
    finds head == tail and enters the kernel, which flushes. The wake-up completion is
    bookkeeping and is not dispatched. *)
Example c05_example :
  let a := {| ud := 8; res := 1%Z; fl := 0 |} in
  let w := {| ud := WAKE_USER_DATA; res := 0%Z; fl := 0 |} in
  let c := {| ud := 16; res := 3%Z; fl := 0 |} in
  let d := {| ud := 25; res := 4%Z; fl := 0 |} in
  let es := [KPost a; KPost w; KPost c; PollBegin; PollStep; KPost d; PollEnd;
             PollBegin; PollEnd] in
  let r := run step (init 2 (two32 - 1)) es in
  params_ok 2 two31 (two32 - 1)
  /\ snd r = [a; c; d]
  /\ filter keep (firstn (N.to_nat (g_hu (fst r))) (g_posted (fst r))) = [a; c; d]
  /\ g_posted (fst r) ++ ovf (fst r) = [a; w; c; d]
  /\ g_hu (fst r) = 4 /\ khead (fst r) = 3 /\ ktail (fst r) = 3.
Proof.
  cbv zeta. split.
  - unfold params_ok, two31, two32. repeat split; lia.
  - repeat split; vm_compute; reflexivity.
Qed.

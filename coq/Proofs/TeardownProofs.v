(** Proofs about Model/Teardown.v (C12): the reference counts equal the number of live holders in
    every reachable state; the log of any teardown replays against the resource monitor
    ([teardown_memory_safe]); after every object has been dropped everything is released except
    in the named classes ([teardown_releases_everything]: H13, H14 and — new — H28, an operation
    still in flight after the Ring was dropped); witnesses for the classes; the repaired drain has
    no exception for the completion queue's size; the two seeded regressions C12-c and C01-f
    release a state while its request is in flight ([…_refuted] witnesses by computation). *)
From Coq Require Import Permutation.
From A10 Require Import Base.Word Base.Run Model.Teardown.
Local Open Scope nat_scope.

(** * Lists *)
Definition b2n (b : bool) : nat := if b then 1 else 0.
Definition count_if {A : Type} (P : A -> bool) (l : list A) : nat := length (filter P l).

Lemma upd_length {A} i (f : A -> A) l : length (upd i f l) = length l.
Proof. revert i; induction l as [|x l IH]; intros [|i]; cbn; auto. Qed.

Lemma upd_out {A} i (f : A -> A) l : length l <= i -> upd i f l = l.
Proof.
  revert i; induction l as [|x l IH]; intros [|i] H; cbn in *; auto; try lia.
  rewrite IH by lia. reflexivity.
Qed.

Lemma nth_upd_same {A} i (f : A -> A) l d : i < length l -> nth i (upd i f l) d = f (nth i l d).
Proof. revert i; induction l as [|x l IH]; intros [|i] H; cbn in *; try lia; auto. apply IH; lia. Qed.

Lemma nth_upd_other {A} i j (f : A -> A) l d : i <> j -> nth j (upd i f l) d = nth j l d.
Proof.
  revert i j; induction l as [|x l IH]; intros [|i] [|j] H; cbn; auto; try congruence.
Qed.

Lemma nth_upd_gen {A} i j (f : A -> A) l d :
  nth j (upd i f l) d = if (j =? i) && (i <? length l) then f (nth i l d) else nth j l d.
Proof.
  destruct (Nat.eqb_spec j i) as [->|Hne]; cbn [andb].
  - destruct (Nat.ltb_spec i (length l)).
    + apply nth_upd_same; assumption.
    + rewrite upd_out by lia. reflexivity.
  - apply nth_upd_other. congruence.
Qed.

Lemma count_if_upd {A} (P : A -> bool) i f l d :
  i < length l ->
  count_if P (upd i f l) + b2n (P (nth i l d)) = count_if P l + b2n (P (f (nth i l d))).
Proof.
  unfold count_if. revert i; induction l as [|x l IH]; intros [|i] H; cbn in *; try lia.
  - destruct (P x), (P (f x)); cbn; lia.
  - specialize (IH i ltac:(lia)). destruct (P x); cbn; lia.
Qed.

Lemma count_if_pos {A} (P : A -> bool) i l d : i < length l -> P (nth i l d) = true -> 1 <= count_if P l.
Proof.
  unfold count_if. revert i; induction l as [|x l IH]; intros [|i] H HP; cbn in *; try lia.
  - rewrite HP. cbn. lia.
  - specialize (IH i ltac:(lia) HP). destruct (P x); cbn; lia.
Qed.

Lemma nth_true_lt i (l : list bool) : nth i l false = true -> i < length l.
Proof. intros H. destruct (Nat.lt_ge_cases i (length l)); auto. rewrite nth_overflow in H by lia. discriminate. Qed.

Lemma nth_clr i j l : nth i (clr j l) false = if i =? j then false else nth i l false.
Proof.
  unfold clr. destruct (Nat.eqb_spec i j) as [->|Hne].
  - destruct (Nat.lt_ge_cases j (length l)).
    + rewrite nth_upd_same by lia. reflexivity.
    + rewrite upd_out by lia. apply nth_overflow; lia.
  - apply nth_upd_other; congruence.
Qed.

Lemma clr_length j l : length (clr j l) = length l.
Proof. apply upd_length. Qed.

Lemma bool_list_ext (a b : list bool) :
  length a = length b -> (forall i, nth i a false = nth i b false) -> a = b.
Proof. intros Hl H. apply (nth_ext a b false false Hl). intros; apply H. Qed.

Lemma map_upd {A B} (g : A -> B) i (f : A -> A) (f' : B -> B) l :
  (forall x, g (f x) = f' (g x)) -> map g (upd i f l) = upd i f' (map g l).
Proof. intros H. revert i; induction l as [|x l IH]; intros [|i]; cbn; auto; rewrite ?H, ?IH; auto. Qed.

Lemma map_upd_id {A B} (g : A -> B) i (f : A -> A) l :
  (forall x, g (f x) = g x) -> map g (upd i f l) = map g l.
Proof. intros H. revert i; induction l as [|x l IH]; intros [|i]; cbn; auto; rewrite ?H, ?IH; auto. Qed.

(** * Counting in the kernel's queues *)
Definition is_sop (o : nat) (q : sqe) : bool := match q with SOp o' => o' =? o | _ => false end.
Definition is_close (h : nat) (q : sqe) : bool := match q with SClose h' => h' =? h | _ => false end.
Definition is_cop (o : nat) (c : cqe) : bool := match c with COp o' => o' =? o | _ => false end.

Definition count_sop o q := count_if (is_sop o) q.
Definition count_close h q := count_if (is_close h) q.
Definition count_cop o c := count_if (is_cop o) c.
Definition count_in o l := count_if (fun y => y =? o) l.
Definition is_cmore (o : nat) (c : cqe) : bool := match c with CMore o' => o' =? o | _ => false end.

Lemma count_if_app {A} (P : A -> bool) a b : count_if P (a ++ b) = count_if P a + count_if P b.
Proof. unfold count_if. rewrite filter_app, app_length. reflexivity. Qed.

Lemma count_if_single {A} (P : A -> bool) x : count_if P [x] = b2n (P x).
Proof. unfold count_if. cbn. destruct (P x); reflexivity. Qed.

Lemma count_if_cons {A} (P : A -> bool) x l : count_if P (x :: l) = b2n (P x) + count_if P l.
Proof. unfold count_if. cbn. destruct (P x); reflexivity. Qed.

Lemma count_if_firstn_skipn {A} (P : A -> bool) n l : count_if P (firstn n l) + count_if P (skipn n l) = count_if P l.
Proof. rewrite <- count_if_app, firstn_skipn. reflexivity. Qed.

Lemma mem_nat_count o l : mem_nat o l = (0 <? count_in o l).
Proof.
  unfold count_in, count_if. induction l as [|y l IH]; cbn; auto.
  destruct (y =? o); cbn; auto.
Qed.

Lemma count_remove_same o l : mem_nat o l = true -> S (count_in o (remove_nat o l)) = count_in o l.
Proof.
  unfold count_in, count_if. induction l as [|y l IH]; cbn; try discriminate.
  destruct (y =? o) eqn:E; cbn; auto. intros H. rewrite E. cbn. auto.
Qed.

Lemma count_remove_other o o' l : o <> o' -> count_in o' (remove_nat o l) = count_in o' l.
Proof.
  intros Hne. unfold count_in, count_if. induction l as [|y l IH]; cbn; auto.
  destruct (Nat.eqb_spec y o) as [->|Hy]; cbn.
  - destruct (Nat.eqb_spec o o'); try congruence; reflexivity.
  - destruct (y =? o'); cbn; rewrite IH; reflexivity.
Qed.

(** * The kernel conserves what it owes
    [owedk k o]: number of places where the final completion of operation [o] is still due:
    its submission is queued, it is in flight, or its completion is posted (ring or overflow). *)
Definition owedk (k : kern) (o : nat) : nat :=
  count_sop o (k_sqq k) + count_in o (k_inflight k) + count_cop o (k_cq k) + count_cop o (k_ovf k).

Lemma post_sqq cqn k c : k_sqq (post cqn k c) = k_sqq k.
Proof. unfold post. destruct (k_ovf k); [destruct (_ <? _)|]; reflexivity. Qed.

Lemma post_inflight cqn k c : k_inflight (post cqn k c) = k_inflight k.
Proof. unfold post. destruct (k_ovf k); [destruct (_ <? _)|]; reflexivity. Qed.

Lemma post_first cqn k c : k_first (post cqn k c) = k_first k.
Proof. unfold post. destruct (k_ovf k); [destruct (_ <? _)|]; reflexivity. Qed.

(** The completions posted and not processed, in the order they will be processed: [post]
    appends, moving entries from the overflow list into the ring changes nothing. *)
Definition pend (k : kern) : list cqe := k_cq k ++ k_ovf k.

Lemma post_pend cqn k c : pend (post cqn k c) = pend k ++ [c].
Proof.
  unfold post, pend. destruct (k_ovf k) as [|c0 r] eqn:E; [destruct (_ <? _)|]; cbn [k_cq k_ovf];
    rewrite ?app_nil_r, <- ?app_assoc; reflexivity.
Qed.

Lemma flush_pend cqn k : pend (flush_overflow cqn k) = pend k.
Proof. unfold pend, flush_overflow. cbn [k_cq k_ovf]. rewrite <- app_assoc, firstn_skipn. reflexivity. Qed.

Lemma post_cop cqn k c o :
  count_cop o (k_cq (post cqn k c)) + count_cop o (k_ovf (post cqn k c))
  = count_cop o (k_cq k) + count_cop o (k_ovf k) + b2n (is_cop o c).
Proof.
  unfold post, count_cop. destruct (k_ovf k) as [|c0 r] eqn:E; [destruct (_ <? _)|]; cbn [k_cq k_ovf];
    rewrite ?count_if_app; unfold count_if; cbn; destruct (is_cop o c); cbn; lia.
Qed.

Lemma post_owed cqn k c o : owedk (post cqn k c) o = owedk k o + b2n (is_cop o c).
Proof. unfold owedk. rewrite post_sqq, post_inflight. pose proof (post_cop cqn k c o). lia. Qed.

Lemma flush_sqq cqn k : k_sqq (flush_overflow cqn k) = k_sqq k.
Proof. reflexivity. Qed.
Lemma flush_inflight cqn k : k_inflight (flush_overflow cqn k) = k_inflight k.
Proof. reflexivity. Qed.

Lemma flush_owed cqn k o : owedk (flush_overflow cqn k) o = owedk k o.
Proof.
  unfold owedk, flush_overflow, count_cop. cbn [k_sqq k_inflight k_cq k_ovf].
  rewrite count_if_app.
  pose proof (count_if_firstn_skipn (is_cop o) (cqn - length (k_cq k)) (k_ovf k)). lia.
Qed.

Lemma flush_fits cqn k : length (k_cq k) + length (k_ovf k) <= cqn -> k_ovf (flush_overflow cqn k) = [].
Proof. intros H. cbn. apply skipn_all2. lia. Qed.

Lemma flush_lengths cqn k :
  length (k_cq (flush_overflow cqn k)) + length (k_ovf (flush_overflow cqn k)) = length (k_cq k) + length (k_ovf k).
Proof.
  cbn. rewrite app_length.
  pose proof (firstn_skipn (cqn - length (k_cq k)) (k_ovf k)) as H.
  apply (f_equal (@length cqe)) in H. rewrite app_length in H. lia.
Qed.

Lemma cancelable_mem d k o : cancelable d k o = true -> mem_nat o (k_inflight k) = true.
Proof. unfold cancelable. intros H. apply andb_prop in H. destruct H as [H _]. apply andb_prop in H. tauto. Qed.

Lemma cancel_req_sqq d k o : k_sqq (cancel_req d k o) = k_sqq k.
Proof. unfold cancel_req. destruct (mem_nat o (k_first k)); rewrite ?post_sqq; reflexivity. Qed.

Lemma cancel_req_owed d k o o' :
  mem_nat o (k_inflight k) = true -> owedk (cancel_req d k o) o' = owedk k o'.
Proof.
  intros M. unfold cancel_req. destruct (mem_nat o (k_first k)); rewrite ?post_owed;
    unfold owedk; cbn [k_sqq k_inflight k_cq k_ovf is_cop b2n];
    (destruct (Nat.eqb_spec o o') as [<-|Hne]; cbn [b2n];
     [pose proof (count_remove_same o _ M); lia|rewrite (count_remove_other o o') by auto; lia]).
Qed.

Lemma execute_sqq d k q : k_sqq (execute d k q) = k_sqq k.
Proof.
  destruct q as [h|o|o]; cbn [execute]; auto.
  - destruct (mem_nat o (d_rej d)); [rewrite post_sqq|]; reflexivity.
  - destruct (cancelable d k o); [apply cancel_req_sqq|rewrite post_sqq; reflexivity].
Qed.

Lemma execute_owed d k q o : owedk (execute d k q) o = owedk k o + b2n (is_sop o q).
Proof.
  destruct q as [h|o1|o1]; cbn [execute is_sop b2n].
  - lia.
  - destruct (mem_nat o1 (d_rej d)).
    + rewrite post_owed. cbn [is_cop is_sop]. lia.
    + unfold owedk, count_in. cbn [k_sqq k_inflight k_cq k_ovf]. rewrite count_if_app, count_if_single. lia.
  - destruct (cancelable d k o1) eqn:M.
    + rewrite cancel_req_owed by (apply (cancelable_mem d); exact M). lia.
    + rewrite post_owed. cbn. lia.
Qed.

Lemma fold_execute_sqq d q k : k_sqq (fold_left (execute d) q k) = k_sqq k.
Proof. revert k; induction q as [|x q IH]; intros k; cbn; auto. rewrite IH. apply execute_sqq. Qed.

Lemma fold_execute_owed d q k o : owedk (fold_left (execute d) q k) o = owedk k o + count_sop o q.
Proof.
  revert k; induction q as [|x q IH]; intros k; cbn [fold_left].
  - unfold count_sop, count_if. cbn. lia.
  - rewrite IH, execute_owed. unfold count_sop. rewrite count_if_cons. lia.
Qed.

Lemma consume_all_sqq d k : k_sqq (consume_all d k) = [].
Proof. unfold consume_all. rewrite fold_execute_sqq. reflexivity. Qed.

Lemma consume_all_owed d k o : owedk (consume_all d k) o = owedk k o.
Proof.
  unfold consume_all. rewrite fold_execute_owed. unfold owedk. cbn [k_sqq k_inflight k_cq k_ovf].
  change (count_sop o []) with 0. lia.
Qed.

Lemma consume_all_nil d k : k_sqq k = [] -> consume_all d k = k.
Proof. unfold consume_all. intros E. rewrite E. cbn. destruct k; cbn in *; subst; reflexivity. Qed.

(** One step of the blanket cancellation. *)
Definition sc_step (d : dims) (k : kern) (o : nat) : kern := if cancelable d k o then cancel_req d k o else k.

Lemma sc_step_sqq d k o : k_sqq (sc_step d k o) = k_sqq k.
Proof. unfold sc_step. destruct (cancelable d k o); [apply cancel_req_sqq|reflexivity]. Qed.

Lemma sc_step_owed d k o o' : owedk (sc_step d k o) o' = owedk k o'.
Proof.
  unfold sc_step. destruct (cancelable d k o) eqn:M; [|reflexivity].
  apply cancel_req_owed, (cancelable_mem d), M.
Qed.

Lemma fold_sc_sqq d l k : k_sqq (fold_left (sc_step d) l k) = k_sqq k.
Proof. revert k; induction l as [|x l IH]; intros k; cbn; auto. rewrite IH. apply sc_step_sqq. Qed.

Lemma fold_sc_owed d l k o : owedk (fold_left (sc_step d) l k) o = owedk k o.
Proof. revert k; induction l as [|x l IH]; intros k; cbn [fold_left]; auto. rewrite IH. apply sc_step_owed. Qed.

Lemma sync_cancel_fold d k : sync_cancel d k = fold_left (sc_step d) (k_inflight k) k.
Proof. reflexivity. Qed.

Lemma sync_cancel_sqq d k : k_sqq (sync_cancel d k) = k_sqq k.
Proof. rewrite sync_cancel_fold. apply fold_sc_sqq. Qed.
Lemma sync_cancel_owed d k o : owedk (sync_cancel d k) o = owedk k o.
Proof. rewrite sync_cancel_fold. apply fold_sc_owed. Qed.

(** Nothing queued, nothing in flight, nothing posted: nothing is owed. *)
Lemma owedk_empty k o : k_sqq k = [] -> k_inflight k = [] -> k_cq k = [] -> k_ovf k = [] -> owedk k o = 0.
Proof. unfold owedk. intros -> -> -> ->. reflexivity. Qed.

(** * The invariant *)
Definition owns (x : op) : bool := match o_on x with None => true | Some _ => false end.

(** Live holders of an [Arc<Shared>]. *)
Definition holders (s : state) : nat :=
  b2n (s_ring s) + count_if id (s_clones s) + count_if id (s_fds s)
  + count_if (fun x => o_fut x && owns x) (s_ops s) + count_if (fun p => 0 <? p_rc p) (s_pools s).

(** Live holders of pool [p]'s [Arc]. *)
Definition pool_refs (s : state) (p : nat) : nat :=
  b2n (p_handle (get_pool s p)) + count_if (fun b => (fst b =? p) && snd b) (s_bufs s).

(** How many final completions operation [x] still waits for. *)
Definition expect (x : op) : nat :=
  match o_st x with Running => 1 | Dropped => b2n (o_box x) | _ => 0 end.

Definition op_ok (x : op) : Prop :=
  (o_fut x = true -> o_box x = true /\ o_st x <> Dropped) /\
  (o_fut x = false -> o_st x <> Running /\ (o_box x = true -> o_st x = Dropped)).

(** An operation that still waits for a completion has its state allocated. *)
Lemma op_ok_expect x : op_ok x -> 1 <= expect x -> o_box x = true.
Proof.
  intros [A B] E. unfold expect in E. destruct (o_fut x) eqn:F.
  - apply A. reflexivity.
  - destruct (B eq_refl) as [NR _]. destruct (o_st x); try lia; try congruence.
    destruct (o_box x); [reflexivity|cbn in E; lia].
Qed.

(** Every posted result completion ([CMore], F_MORE set) of a two-step operation is followed by
    that operation's final completion: later in the queue, or still to come (in flight). *)
Fixpoint covered (infl : list nat) (l : list cqe) : Prop :=
  match l with
  | [] => True
  | c :: r => match c with CMore o => 1 <= count_cop o r + count_in o infl | _ => True end /\ covered infl r
  end.

(** Requests of operation [o] accepted by the kernel whose final completion is not processed. *)
Definition due3 (infl : list nat) (cq ovf : list cqe) (o : nat) : nat :=
  count_in o infl + count_cop o cq + count_cop o ovf.

Record wf_rest (s : state) : Prop := {
  wf_pool : forall p, p_rc (get_pool s p) = pool_refs s p;
  wf_borrow : forall o h, o_fut (get_op s o) = true -> o_on (get_op s o) = Some h -> nth h (s_fds s) false = true;
  wf_owed : forall o, owedk (s_k s) o = expect (get_op s o);
  wf_op : forall o, op_ok (get_op s o);
  wf_close : forall h, count_close h (k_sqq (s_k s)) + b2n (nth h (s_fds s) false) <= 1;
  wf_close_range : forall h, 1 <= count_close h (k_sqq (s_k s)) -> h < length (s_fds s);
  wf_more : covered (k_inflight (s_k s)) (pend (s_k s))
}.

(** The stored count equals the number of live holders, and the rest. *)
Definition wf (s : state) : Prop := s_rc s = holders s /\ wf_rest s.

(** What the resource monitor should believe in state [s]. *)
Definition desc_of (fds : list bool) (q : list sqe) : list bool :=
  map (fun h => nth h fds false || (0 <? count_close h q)) (seq 0 (length fds)).

Definition mon_of (s : state) : mon :=
  {| m_sq := 0 <? s_rc s; m_sqes := 0 <? s_rc s; m_cq := s_ring s; m_fd := 0 <? s_rc s;
     m_box := map o_box (s_ops s);
     m_reg := map (fun p => 0 <? p_rc p) (s_pools s);
     m_pring := map (fun p => 0 <? p_rc p) (s_pools s);
     m_pbufs := map (fun p => 0 <? p_rc p) (s_pools s);
     m_desc := desc_of (s_fds s) (k_sqq (s_k s));
     m_due := map (due3 (k_inflight (s_k s)) (k_cq (s_k s)) (k_ovf (s_k s))) (seq 0 (length (s_ops s))) |}.

Lemma desc_of_length fds q : length (desc_of fds q) = length fds.
Proof. unfold desc_of. rewrite map_length, seq_length. reflexivity. Qed.

Lemma desc_of_nth fds q h :
  (1 <= count_close h q -> h < length fds) ->
  nth h (desc_of fds q) false = nth h fds false || (0 <? count_close h q).
Proof.
  intros Hr. unfold desc_of. destruct (Nat.lt_ge_cases h (length fds)) as [Hlt|Hge].
  - rewrite (nth_indep _ false (nth (length fds) fds false || (0 <? count_close (length fds) q)))
      by (rewrite map_length, seq_length; lia).
    rewrite (map_nth (fun h => nth h fds false || (0 <? count_close h q))), seq_nth by lia. reflexivity.
  - rewrite nth_overflow by (rewrite map_length, seq_length; lia).
    rewrite (nth_overflow fds) by lia. destruct (count_close h q) eqn:E; cbn; auto. lia.
Qed.

Lemma nth_box ops o : nth o (map o_box ops) false = o_box (nth o ops dead_op).
Proof. apply (map_nth o_box ops dead_op o). Qed.

Lemma nth_poolflag pools p : nth p (map (fun p => 0 <? p_rc p) pools) false = (0 <? p_rc (nth p pools dead_pool)).
Proof. apply (map_nth (fun p => 0 <? p_rc p) pools dead_pool p). Qed.

Lemma replay_app d m l1 l2 :
  replay d m (l1 ++ l2) = match replay d m l1 with Some m1 => replay d m1 l2 | None => None end.
Proof. revert m; induction l1 as [|e l1 IH]; intros m; cbn; auto. destruct (replay1 d m e); auto. Qed.

(** [dec_shared] on a state whose counter is one more than the holders that remain. *)
Lemma holders_set_rc s n : holders (set_rc s n) = holders s.
Proof. reflexivity. Qed.

Lemma dec_shared_replay s :
  s_rc s = S (holders s) ->
  replay (s_d s) (mon_of s) (snd (dec_shared s)) = Some (mon_of (fst (dec_shared s))).
Proof.
  intros H. unfold dec_shared. cbn [fst snd]. rewrite H. cbn [pred].
  destruct (holders s) eqn:E; cbn [Nat.eqb].
  - assert (s_ring s = false) as R.
    { unfold holders in E. destruct (s_ring s); cbn in E; [lia|reflexivity]. }
    unfold mon_of. cbn. rewrite H, R. cbn. rewrite !N.eqb_refl. cbn. reflexivity.
  - unfold mon_of. cbn. rewrite H. reflexivity.
Qed.

Lemma dec_shared_rc s : s_rc s = S (holders s) -> s_rc (fst (dec_shared s)) = holders (fst (dec_shared s)).
Proof. intros H. cbn. rewrite H. reflexivity. Qed.

Lemma wf_rest_set_rc s n : wf_rest s -> wf_rest (set_rc s n).
Proof. intros [? ? ? ? ? ? ?]. constructor; assumption. Qed.

Lemma dec_shared_wf s : s_rc s = S (holders s) -> wf_rest s -> wf (fst (dec_shared s)).
Proof. intros H R. split; [apply dec_shared_rc, H|]. cbn. apply wf_rest_set_rc, R. Qed.

Lemma dec_shared_d s : s_d (fst (dec_shared s)) = s_d s.
Proof. reflexivity. Qed.

(** A live holder keeps the count positive. *)
Lemma wf_alive_pos s : wf s -> 1 <= holders s -> (0 <? s_rc s) = true.
Proof. intros [H _] P. rewrite H. apply Nat.ltb_lt. lia. Qed.

(** The shape every step lemma has. *)
Definition step_good (s : state) (r : state * list lev) : Prop :=
  wf (fst r) /\ replay (s_d s) (mon_of s) (snd r) = Some (mon_of (fst r)) /\ s_d (fst r) = s_d s.

Lemma step_good_refl s : wf s -> step_good s (s, []).
Proof. intros H. split; [exact H|]. split; reflexivity. Qed.

(** ** Clone *)
Lemma drop_clone_good s c : wf s -> step_good s (drop_clone s c).
Proof.
  intros [Hrc R]. unfold drop_clone. destruct (nth c (s_clones s) false) eqn:L.
  2:{ apply step_good_refl. split; assumption. }
  pose proof (nth_true_lt _ _ L) as Hc.
  set (s1 := set_clones s (upd c (fun _ => false) (s_clones s))).
  assert (s_rc s1 = S (holders s1)) as H1.
  { subst s1. cbn [s_rc set_clones]. rewrite Hrc. unfold holders. cbn [s_ring s_clones s_fds s_ops s_pools set_clones].
    pose proof (count_if_upd id c (fun _ => false) (s_clones s) false Hc) as E. rewrite L in E. cbn in E. lia. }
  assert (wf_rest s1) as R1 by (destruct R; constructor; assumption).
  split; [apply dec_shared_wf; assumption|]. split; [|reflexivity].
  change (mon_of s) with (mon_of s1). change (s_d s) with (s_d s1). apply dec_shared_replay, H1.
Qed.

(** What the borrow checker guarantees: an [AsyncFd] is not dropped while a future borrows it. *)
Definition ev_ok (s : state) (e : event) : Prop :=
  match e with
  | Drop (OFd h) => forall o, o_fut (get_op s o) = true -> o_on (get_op s o) <> Some h
  | _ => True
  end.

Lemma finish_with_dec s s1 l :
  s_d s1 = s_d s -> s_rc s1 = S (holders s1) -> wf_rest s1 ->
  replay (s_d s) (mon_of s) l = Some (mon_of s1) ->
  step_good s (fst (dec_shared s1), l ++ snd (dec_shared s1)).
Proof.
  intros Hd Hrc R Hl. split; [apply dec_shared_wf; assumption|]. split.
  - cbn [fst snd]. rewrite replay_app, Hl, <- Hd. apply dec_shared_replay, Hrc.
  - cbn [fst]. rewrite dec_shared_d. exact Hd.
Qed.

Lemma replay_use_sq3 d m : m_sq m = true -> m_sqes m = true ->
  replay d m [LUse MSq; LUse MSqes; LUse MSq] = Some m.
Proof. intros A B. cbn [replay replay1 mapped]. rewrite A. rewrite B. rewrite A. reflexivity. Qed.

Lemma count_close_snoc h' q x : count_close h' (q ++ [x]) = count_close h' q + b2n (is_close h' x).
Proof. unfold count_close. rewrite count_if_app, count_if_single. reflexivity. Qed.

Lemma count_sop_snoc o q x : count_sop o (q ++ [x]) = count_sop o q + b2n (is_sop o x).
Proof. unfold count_sop. rewrite count_if_app, count_if_single. reflexivity. Qed.

Lemma count_id_clr h l : nth h l false = true -> S (count_if id (clr h l)) = count_if id l.
Proof.
  intros L. pose proof (nth_true_lt _ _ L) as Hh.
  pose proof (count_if_upd id h (fun _ => false) l false Hh) as E. rewrite L in E. cbn in E.
  unfold clr. lia.
Qed.

(** ** AsyncFd *)
Lemma drop_fd_good s h : wf s -> ev_ok s (Drop (OFd h)) -> step_good s (drop_fd s h).
Proof.
  intros [Hrc R] Hok. unfold drop_fd. destruct (nth h (s_fds s) false) eqn:L.
  2:{ apply step_good_refl. split; assumption. }
  pose proof (nth_true_lt _ _ L) as Hh.
  assert ((0 <? s_rc s) = true) as Pos.
  { apply wf_alive_pos; [split; assumption|]. unfold holders.
    pose proof (count_if_pos id h (s_fds s) false Hh L). lia. }
  assert (count_close h (k_sqq (s_k s)) = 0) as C0.
  { pose proof (wf_close _ R h) as W. rewrite L in W. cbn in W. lia. }
  unfold sq_add. destruct (length (k_sqq (s_k s)) <? d_sqn (s_d s)) eqn:Room.
  - (* CLOSE queued *)
    set (k1 := {| k_sqq := k_sqq (s_k s) ++ [SClose h]; k_inflight := k_inflight (s_k s); k_first := k_first (s_k s); k_cq := k_cq (s_k s); k_ovf := k_ovf (s_k s) |}).
    set (s1 := set_fds (set_k s k1) (upd h (fun _ => false) (s_fds (set_k s k1)))).
    rewrite (surjective_pairing (dec_shared s1)).
    change ([LUse MSq; LUse MSqes; LUse MSq] ++ [] ++ snd (dec_shared s1))
      with ([LUse MSq; LUse MSqes; LUse MSq] ++ snd (dec_shared s1)).
    apply finish_with_dec; [reflexivity| | |].
    + subst s1 k1. cbn [s_rc set_fds set_k]. rewrite Hrc. unfold holders.
      cbn [s_ring s_clones s_fds s_ops s_pools set_fds set_k].
      pose proof (count_id_clr h (s_fds s) L). unfold clr in *. lia.
    + destruct R as [Rp Rb Ro Rop Rc Rr Rm]. constructor.
      * exact Rp.
      * intros o h' F O. subst s1 k1. cbn [s_fds set_fds set_k]. change (upd h (fun _ => false) (s_fds s)) with (clr h (s_fds s)).
        rewrite nth_clr. destruct (Nat.eqb_spec h' h) as [->|Hne]; [exfalso; exact (Hok o F O)|]. exact (Rb o h' F O).
      * intros o. etransitivity; [|exact (Ro o)]. subst s1 k1. cbn [s_k set_fds set_k]. unfold owedk. cbn [k_sqq k_inflight k_cq k_ovf].
        rewrite count_sop_snoc. cbn. lia.
      * exact Rop.
      * intros h'. subst s1 k1. cbn [s_k s_fds set_fds set_k k_sqq]. change (upd h (fun _ => false) (s_fds s)) with (clr h (s_fds s)).
        rewrite count_close_snoc, nth_clr. cbn [is_close]. specialize (Rc h').
        destruct (Nat.eqb_spec h' h) as [->|Hne].
        -- rewrite Nat.eqb_refl. cbn. lia.
        -- destruct (Nat.eqb_spec h h'); [congruence|]. cbn. lia.
      * intros h'. subst s1 k1. cbn [s_k s_fds set_fds set_k k_sqq]. rewrite upd_length, count_close_snoc. cbn [is_close].
        destruct (Nat.eqb_spec h h') as [<-|Hne]; [intros _; exact Hh|]. cbn. rewrite Nat.add_0_r. apply Rr.
      * exact Rm.
    + assert (mon_of s1 = mon_of s) as ->.
      { unfold mon_of. subst s1 k1. cbn [s_rc s_ring s_ops s_pools s_fds s_k set_fds set_k k_sqq k_inflight k_cq k_ovf]. f_equal.
        change (upd h (fun _ => false) (s_fds s)) with (clr h (s_fds s)).
        apply bool_list_ext; [rewrite !desc_of_length; apply clr_length|]. intros i.
        rewrite !desc_of_nth.
        - rewrite nth_clr, count_close_snoc. cbn [is_close].
          destruct (Nat.eqb_spec i h) as [->|Hne].
          + rewrite Nat.eqb_refl, L. cbn. rewrite Nat.add_1_r. reflexivity.
          + destruct (Nat.eqb_spec h i); [congruence|]. cbn. rewrite Nat.add_0_r. reflexivity.
        - apply (wf_close_range _ R).
        - rewrite clr_length, count_close_snoc. cbn [is_close].
          destruct (Nat.eqb_spec h i) as [<-|Hne]; [intros _; exact Hh|]. cbn. rewrite Nat.add_0_r. apply (wf_close_range _ R). }
      apply replay_use_sq3; exact Pos.
  - (* queue full: close(2) *)
    set (s1 := set_fds s (upd h (fun _ => false) (s_fds s))).
    rewrite (surjective_pairing (dec_shared s1)).
    change ([LUse MSq] ++ [LSysClose h] ++ snd (dec_shared s1)) with ([LUse MSq; LSysClose h] ++ snd (dec_shared s1)).
    apply finish_with_dec; [reflexivity| | |].
    + subst s1. cbn [s_rc set_fds]. rewrite Hrc. unfold holders. cbn [s_ring s_clones s_fds s_ops s_pools set_fds].
      pose proof (count_id_clr h (s_fds s) L). unfold clr in *. lia.
    + destruct R as [Rp Rb Ro Rop Rc Rr Rm]. constructor.
      * exact Rp.
      * intros o h' F O. subst s1. cbn [s_fds set_fds]. change (upd h (fun _ => false) (s_fds s)) with (clr h (s_fds s)).
        rewrite nth_clr. destruct (Nat.eqb_spec h' h) as [->|Hne]; [exfalso; exact (Hok o F O)|]. exact (Rb o h' F O).
      * exact Ro.
      * exact Rop.
      * intros h'. subst s1. cbn [s_k s_fds set_fds]. change (upd h (fun _ => false) (s_fds s)) with (clr h (s_fds s)).
        rewrite nth_clr. specialize (Rc h'). destruct (h' =? h); cbn; lia.
      * intros h'. subst s1. cbn [s_k s_fds set_fds]. rewrite upd_length. apply Rr.
      * exact Rm.
    + cbn [replay replay1 mapped]. unfold mon_of at 1. cbn [m_sq]. rewrite Pos.
      assert (nth h (m_desc (mon_of s)) false = true) as D.
      { unfold mon_of. cbn [m_desc]. rewrite desc_of_nth by apply (wf_close_range _ R). rewrite L. reflexivity. }
      rewrite D. f_equal. unfold mon_of, set_desc. subst s1. cbn [s_rc s_ring s_ops s_pools s_fds s_k set_fds m_sq m_sqes m_cq m_fd m_box m_reg m_pring m_pbufs m_desc m_due].
      f_equal. change (upd h (fun _ => false) (s_fds s)) with (clr h (s_fds s)).
      apply bool_list_ext; [rewrite clr_length, !desc_of_length; symmetry; apply clr_length|]. intros i.
      rewrite nth_clr, !desc_of_nth.
      * rewrite nth_clr. destruct (Nat.eqb_spec i h) as [->|Hne]; [rewrite C0; reflexivity|reflexivity].
      * rewrite clr_length. apply (wf_close_range _ R).
      * apply (wf_close_range _ R).
Qed.

(** ** Operation futures *)
Lemma get_op_lt s o : o_fut (get_op s o) = true -> o < length (s_ops s).
Proof.
  intros F. destruct (Nat.lt_ge_cases o (length (s_ops s))); auto.
  unfold get_op in F. rewrite nth_overflow in F by lia. discriminate.
Qed.

Lemma nth_upd_op o o' f ops :
  o < length ops ->
  nth o' (upd o f ops) dead_op = if o' =? o then f (nth o ops dead_op) else nth o' ops dead_op.
Proof.
  intros H. destruct (Nat.eqb_spec o' o) as [->|Hne].
  - apply nth_upd_same, H.
  - apply nth_upd_other. congruence.
Qed.

Lemma desc_of_ext fds q q' : (forall h, count_close h q' = count_close h q) -> desc_of fds q' = desc_of fds q.
Proof. intros H. unfold desc_of. apply map_ext. intros h. rewrite H. reflexivity. Qed.

Definition st_running (st : ost) : bool := match st with Running => true | _ => false end.

Lemma nth_seq_map (f : nat -> nat) n o : nth o (map f (seq 0 n)) 0 = if o <? n then f o else 0.
Proof.
  destruct (Nat.ltb_spec o n) as [Hlt|Hge].
  - rewrite (nth_indep _ 0 (f 0)) by (rewrite map_length, seq_length; exact Hlt).
    rewrite map_nth, seq_nth by exact Hlt. reflexivity.
  - apply nth_overflow. rewrite map_length, seq_length. exact Hge.
Qed.

Lemma owedk_due k o : owedk k o = count_sop o (k_sqq k) + due3 (k_inflight k) (k_cq k) (k_ovf k) o.
Proof. unfold owedk, due3. lia. Qed.

Lemma nat_list_ext (a b : list nat) :
  length a = length b -> (forall i, nth i a 0 = nth i b 0) -> a = b.
Proof. intros Hl H. apply (nth_ext a b 0 0 Hl). intros; apply H. Qed.

Definition drop_op_inner (s : state) (o : nat) (x : op) : state * list lev :=
  if st_running (o_st x)
  then let '(s1, _, l1) := sq_add s (SCancel o) in
       (set_ops s1 (upd o (fun x => {| o_on := o_on x; o_fut := false; o_st := Dropped; o_box := o_box x |}) (s_ops s1)), l1)
  else (set_ops s (upd o (fun x => {| o_on := o_on x; o_fut := false; o_st := o_st x; o_box := false |}) (s_ops s)),
        [LFree (ABox o)]).

Lemma drop_op_unfold s o :
  drop_op s o =
  let x := get_op s o in
  if o_fut x
  then let '(s1, l1) := drop_op_inner s o x in
       match o_on x with
       | Some _ => (s1, l1)
       | None => let '(s2, l2) := dec_shared s1 in (s2, l1 ++ l2)
       end
  else (s, []).
Proof. unfold drop_op, drop_op_inner. cbn zeta. destruct (o_fut (get_op s o)); auto. destruct (o_st (get_op s o)); reflexivity. Qed.

Lemma holders_pos_op s o : wf s -> o_fut (get_op s o) = true -> 1 <= holders s.
Proof.
  intros [_ R] F. pose proof (get_op_lt _ _ F) as Ho. unfold holders.
  destruct (o_on (get_op s o)) as [h|] eqn:On.
  - pose proof (wf_borrow _ R o h F On) as L.
    pose proof (count_if_pos id h (s_fds s) false (nth_true_lt _ _ L) L). lia.
  - assert ((fun x => o_fut x && owns x) (nth o (s_ops s) dead_op) = true) as P.
    { fold (get_op s o). unfold owns. rewrite F, On. reflexivity. }
    pose proof (count_if_pos _ o (s_ops s) dead_op Ho P). lia.
Qed.

Lemma drop_op_inner_good s o :
  wf s -> o_fut (get_op s o) = true ->
  let r := drop_op_inner s o (get_op s o) in
  s_d (fst r) = s_d s /\ wf_rest (fst r) /\ replay (s_d s) (mon_of s) (snd r) = Some (mon_of (fst r)) /\
  s_rc (fst r) = s_rc s /\ holders (fst r) + b2n (owns (get_op s o)) = holders s.
Proof.
  intros W F. pose proof W as [Hrc R]. pose proof (get_op_lt _ _ F) as Ho.
  pose proof (wf_alive_pos _ W (holders_pos_op _ _ W F)) as Pos.
  pose proof (wf_op _ R o) as [OK1 _]. specialize (OK1 F). destruct OK1 as [Bx NotD].
  assert (forall g, (forall y, o_on (g y) = o_on y) -> (forall y, o_fut (g y) = false) ->
          count_if (fun x => o_fut x && owns x) (upd o g (s_ops s)) + b2n (owns (get_op s o))
          = count_if (fun x => o_fut x && owns x) (s_ops s)) as Hcount.
  { intros g G1 G2. pose proof (count_if_upd (fun x => o_fut x && owns x) o g (s_ops s) dead_op Ho) as E.
    fold (get_op s o) in E. cbn beta in E. rewrite F, G2 in E. unfold owns in *. rewrite G1 in E.
    destruct (o_on (get_op s o)); cbn in *; lia. }
  unfold drop_op_inner. destruct (st_running (o_st (get_op s o))) eqn:Run.
  - (* Running: ask for cancellation, leave the state to the completion handler *)
    assert (o_st (get_op s o) = Running) as St by (destruct (o_st (get_op s o)); try discriminate; reflexivity).
    set (g := fun x : op => {| o_on := o_on x; o_fut := false; o_st := Dropped; o_box := o_box x |}).
    assert (exists q l, (forall h, count_close h q = count_close h (k_sqq (s_k s))) /\
                        (forall o', count_sop o' q = count_sop o' (k_sqq (s_k s))) /\
                        replay (s_d s) (mon_of s) l = Some (mon_of s) /\
                        sq_add s (SCancel o) =
                        (set_k s {| k_sqq := q; k_inflight := k_inflight (s_k s); k_first := k_first (s_k s); k_cq := k_cq (s_k s); k_ovf := k_ovf (s_k s) |},
                         (length (k_sqq (s_k s)) <? d_sqn (s_d s)), l)) as (q & l & Q1 & Q2 & Q3 & Q4).
    { unfold sq_add. destruct (length (k_sqq (s_k s)) <? d_sqn (s_d s)).
      - exists (k_sqq (s_k s) ++ [SCancel o]), [LUse MSq; LUse MSqes; LUse MSq]. repeat split.
        + intros h. rewrite count_close_snoc. cbn. lia.
        + intros o'. rewrite count_sop_snoc. cbn. lia.
        + apply replay_use_sq3; exact Pos.
      - exists (k_sqq (s_k s)), [LUse MSq]. repeat split.
        + cbn [replay replay1 mapped]. unfold mon_of at 1. cbn [m_sq]. rewrite Pos. reflexivity.
        + destruct s as [d r rc cl fds ops pools bufs k]; destruct k; reflexivity. }
    rewrite Q4. cbn [fst snd]. cbn [s_ops set_k].
    set (k1 := {| k_sqq := q; k_inflight := k_inflight (s_k s); k_first := k_first (s_k s); k_cq := k_cq (s_k s); k_ovf := k_ovf (s_k s) |}).
    set (s1 := set_ops (set_k s k1) (upd o g (s_ops s))).
    assert (forall o', get_op s1 o' = if o' =? o then g (get_op s o) else get_op s o') as G.
    { intros o'. unfold get_op. subst s1. cbn [s_ops set_ops]. apply nth_upd_op, Ho. }
    split; [reflexivity|]. split; [|split; [|split]].
    + destruct R as [Rp Rb Ro Rop Rc Rr Rm]. constructor.
      * exact Rp.
      * intros o' h F' O'. rewrite G in F', O'. destruct (o' =? o); [discriminate F'|]. exact (Rb o' h F' O').
      * intros o'. rewrite G. transitivity (owedk (s_k s) o').
        { subst s1 k1. cbn [s_k set_ops set_k]. unfold owedk. cbn [k_sqq k_inflight k_cq k_ovf]. rewrite Q2. reflexivity. }
        rewrite (Ro o'). destruct (Nat.eqb_spec o' o) as [->|Hne]; [|reflexivity].
        unfold expect. rewrite St. cbn. rewrite Bx. reflexivity.
      * intros o'. rewrite G. destruct (o' =? o); [|apply Rop]. split; cbn; [discriminate|intros _; split; [discriminate|reflexivity]].
      * intros h. subst s1 k1. cbn [s_k s_fds set_ops set_k k_sqq]. rewrite Q1. apply Rc.
      * intros h. subst s1 k1. cbn [s_k s_fds set_ops set_k k_sqq]. rewrite Q1. apply Rr.
      * exact Rm.
    + rewrite Q3. f_equal. unfold mon_of. subst s1 k1. cbn [s_rc s_ring s_ops s_pools s_fds s_k set_ops set_k k_sqq k_inflight k_cq k_ovf].
      f_equal.
      * symmetry. apply map_upd_id. reflexivity.
      * symmetry. apply desc_of_ext, Q1.
      * rewrite upd_length. reflexivity.
    + reflexivity.
    + unfold holders. subst s1 k1. cbn [s_ring s_clones s_fds s_ops s_pools set_ops set_k].
      pose proof (Hcount g ltac:(reflexivity) ltac:(reflexivity)). lia.
  - (* any other status: drop_state now *)
    set (g := fun x : op => {| o_on := o_on x; o_fut := false; o_st := o_st x; o_box := false |}).
    set (s1 := set_ops s (upd o g (s_ops s))). cbn [fst snd].
    assert (forall o', get_op s1 o' = if o' =? o then g (get_op s o) else get_op s o') as G.
    { intros o'. unfold get_op. subst s1. cbn [s_ops set_ops]. apply nth_upd_op, Ho. }
    split; [reflexivity|]. split; [|split; [|split]].
    + destruct R as [Rp Rb Ro Rop Rc Rr Rm]. constructor.
      * exact Rp.
      * intros o' h F' O'. rewrite G in F', O'. destruct (o' =? o); [discriminate F'|]. exact (Rb o' h F' O').
      * intros o'. rewrite G. change (s_k s1) with (s_k s). rewrite (Ro o').
        destruct (Nat.eqb_spec o' o) as [->|Hne]; [|reflexivity].
        unfold expect. subst g. cbn. destruct (o_st (get_op s o)) eqn:E; try reflexivity; try discriminate Run; congruence.
      * intros o'. rewrite G. destruct (o' =? o); [|apply Rop]. split; cbn; [discriminate|intros _; split; [|discriminate]].
        destruct (o_st (get_op s o)); try discriminate; discriminate Run.
      * exact Rc.
      * exact Rr.
      * exact Rm.
    + assert (nth o (m_box (mon_of s)) false = true) as D.
      { unfold mon_of. cbn [m_box]. rewrite nth_box. exact Bx. }
      assert (nth o (m_due (mon_of s)) 0 = 0) as D0.
      { unfold mon_of. cbn [m_due]. rewrite nth_seq_map. destruct (o <? length (s_ops s)); [|reflexivity].
        pose proof (wf_owed _ R o) as E. rewrite owedk_due in E.
        assert (expect (get_op s o) = 0) as E0.
        { unfold expect. destruct (o_st (get_op s o)); try reflexivity; [discriminate Run|congruence]. }
        lia. }
      cbn [replay replay1]. rewrite D, D0. cbn [Nat.eqb andb].
      f_equal. unfold mon_of, set_box. subst s1. cbn [s_rc s_ring s_ops s_pools s_fds s_k set_ops m_sq m_sqes m_cq m_fd m_box m_reg m_pring m_pbufs m_desc m_due].
      f_equal; [symmetry; apply map_upd; reflexivity|rewrite upd_length; reflexivity].
    + reflexivity.
    + unfold holders. subst s1. cbn [s_ring s_clones s_fds s_ops s_pools set_ops].
      pose proof (Hcount g ltac:(reflexivity) ltac:(reflexivity)). lia.
Qed.

Lemma drop_op_good s o : wf s -> step_good s (drop_op s o).
Proof.
  intros W. rewrite drop_op_unfold. cbn zeta. destruct (o_fut (get_op s o)) eqn:F.
  2:{ apply step_good_refl, W. }
  pose proof (drop_op_inner_good s o W F) as (Hd & R1 & Rep & Hrc1 & Hh).
  destruct W as [Hrc R].
  rewrite (surjective_pairing (drop_op_inner s o (get_op s o))).
  destruct (o_on (get_op s o)) eqn:On.
  - split; [|split; assumption]. split; [|exact R1].
    cbn [fst]. rewrite Hrc1, Hrc. unfold owns in Hh. rewrite On in Hh. cbn in Hh. lia.
  - rewrite (surjective_pairing (dec_shared _)). apply finish_with_dec; auto.
    rewrite Hrc1, Hrc. unfold owns in Hh. rewrite On in Hh. cbn in Hh. lia.
Qed.

(** ** Pools and their buffers *)
Record wf_core (s : state) : Prop := {
  wc_borrow : forall o h, o_fut (get_op s o) = true -> o_on (get_op s o) = Some h -> nth h (s_fds s) false = true;
  wc_owed : forall o, owedk (s_k s) o = expect (get_op s o);
  wc_op : forall o, op_ok (get_op s o);
  wc_close : forall h, count_close h (k_sqq (s_k s)) + b2n (nth h (s_fds s) false) <= 1;
  wc_close_range : forall h, 1 <= count_close h (k_sqq (s_k s)) -> h < length (s_fds s);
  wc_more : covered (k_inflight (s_k s)) (pend (s_k s))
}.

Lemma wf_rest_split s : wf_rest s <-> (forall p, p_rc (get_pool s p) = pool_refs s p) /\ wf_core s.
Proof.
  split.
  - intros [? ? ? ? ? ? ?]. split; [assumption|constructor; assumption].
  - intros [? [? ? ? ? ? ?]]. constructor; assumption.
Qed.

Lemma wf_core_ext s s' : s_ops s' = s_ops s -> s_fds s' = s_fds s -> s_k s' = s_k s -> wf_core s -> wf_core s'.
Proof.
  intros E1 E2 E3 [? ? ? ? ? ?]. constructor; unfold get_op in *; rewrite ?E1, ?E2, ?E3; assumption.
Qed.

Lemma step_good_prefix s s' l0 r :
  replay (s_d s) (mon_of s) l0 = Some (mon_of s') -> s_d s' = s_d s ->
  step_good s' r -> step_good s (fst r, l0 ++ snd r).
Proof.
  intros Hl Hd (W & Rep & D). split; [exact W|]. split.
  - cbn [fst snd]. rewrite replay_app, Hl, <- Hd. exact Rep.
  - cbn [fst]. rewrite D. exact Hd.
Qed.

Lemma get_pool_lt s p : p_rc (get_pool s p) <> 0 -> p < length (s_pools s).
Proof.
  intros H. destruct (Nat.lt_ge_cases p (length (s_pools s))); auto.
  unfold get_pool in H. rewrite nth_overflow in H by lia. cbn in H. congruence.
Qed.

Lemma nth_upd_pool p p' f pools :
  p < length pools ->
  nth p' (upd p f pools) dead_pool = if p' =? p then f (nth p pools dead_pool) else nth p' pools dead_pool.
Proof.
  intros H. destruct (Nat.eqb_spec p' p) as [->|Hne].
  - apply nth_upd_same, H.
  - apply nth_upd_other. congruence.
Qed.

Lemma poolflags_upd p f pools :
  p < length pools ->
  map (fun p => 0 <? p_rc p) (upd p f pools)
  = upd p (fun _ => 0 <? p_rc (f (nth p pools dead_pool))) (map (fun p => 0 <? p_rc p) pools).
Proof.
  intros H. apply bool_list_ext; [rewrite upd_length, !map_length, upd_length; reflexivity|].
  intros i. rewrite nth_poolflag, nth_upd_pool by exact H.
  destruct (Nat.eqb_spec i p) as [->|Hne].
  - rewrite nth_upd_same by (rewrite map_length; exact H). reflexivity.
  - rewrite nth_upd_other by congruence. rewrite nth_poolflag. reflexivity.
Qed.

Lemma upd_same_value {A} i (f : A -> A) l d : f (nth i l d) = nth i l d -> upd i f l = l.
Proof.
  revert i; induction l as [|x l IH]; intros [|i] H; cbn in *; auto.
  - rewrite H. reflexivity.
  - rewrite IH by exact H. reflexivity.
Qed.

Lemma replay_pool_drop d m p :
  m_fd m = true -> nth p (m_reg m) false = true -> nth p (m_pring m) false = true -> nth p (m_pbufs m) false = true ->
  replay d m [LRegister (RUnregPbuf p); LFree (APoolRing p); LFree (APoolBufs p)]
  = Some {| m_sq := m_sq m; m_sqes := m_sqes m; m_cq := m_cq m; m_fd := m_fd m; m_box := m_box m;
            m_reg := clr p (m_reg m); m_pring := clr p (m_pring m); m_pbufs := clr p (m_pbufs m);
            m_desc := m_desc m; m_due := m_due m |}.
Proof.
  intros A B C D. cbn [replay]. unfold replay1 at 1. rewrite A, B. cbn [andb].
  unfold replay1 at 1, set_reg. cbn [m_pring m_reg m_sq m_sqes m_cq m_fd m_box m_pbufs m_desc m_due].
  rewrite C, nth_clr, Nat.eqb_refl. cbn [negb andb].
  unfold replay1 at 1, set_pring. cbn [m_pring m_reg m_sq m_sqes m_cq m_fd m_box m_pbufs m_desc m_due].
  rewrite D, nth_clr, Nat.eqb_refl. cbn [negb andb]. rewrite A. reflexivity.
Qed.

Lemma dec_pool_good s p :
  s_rc s = holders s -> wf_core s -> p < length (s_pools s) ->
  (forall p', p_rc (get_pool s p') = pool_refs s p' + b2n (p' =? p)) ->
  step_good s (dec_pool s p).
Proof.
  intros Hrc C Hp Hrefs. unfold dec_pool.
  pose proof (Hrefs p) as Ep. rewrite Nat.eqb_refl in Ep. cbn in Ep. rewrite Nat.add_1_r in Ep.
  rewrite Ep. cbn [pred].
  set (n := pool_refs s p) in *.
  set (f := fun x : pool => {| p_rc := n; p_handle := p_handle x |}).
  set (s1 := set_pools s (upd p f (s_pools s))).
  assert (forall p', get_pool s1 p' = if p' =? p then f (get_pool s p) else get_pool s p') as G.
  { intros p'. unfold get_pool. subst s1. cbn [s_pools set_pools]. apply nth_upd_pool, Hp. }
  assert (forall p', pool_refs s1 p' = pool_refs s p') as Hpr.
  { intros p'. unfold pool_refs. rewrite G. change (s_bufs s1) with (s_bufs s).
    destruct (p' =? p) eqn:E; [apply Nat.eqb_eq in E; subst p'; reflexivity|reflexivity]. }
  assert (forall p', p_rc (get_pool s1 p') = pool_refs s1 p') as Wp.
  { intros p'. rewrite Hpr, G. destruct (Nat.eqb_spec p' p) as [->|Hne]; [reflexivity|].
    rewrite Hrefs. destruct (Nat.eqb_spec p' p); [congruence|]. cbn. lia. }
  assert (wf_core s1) as C1 by (apply (wf_core_ext s); auto).
  assert (wf_rest s1) as R1 by (apply wf_rest_split; split; assumption).
  assert (count_if (fun p => 0 <? p_rc p) (s_pools s1) + 1 = count_if (fun p => 0 <? p_rc p) (s_pools s) + b2n (0 <? n)) as Hc.
  { subst s1. cbn [s_pools set_pools].
    pose proof (count_if_upd (fun p => 0 <? p_rc p) p f (s_pools s) dead_pool Hp) as E.
    fold (get_pool s p) in E. cbn beta in E. rewrite Ep in E. subst f. cbn [p_rc] in E.
    change (0 <? S n) with true in E. cbn [b2n] in E. lia. }
  assert ((0 <? s_rc s) = true) as Pos.
  { rewrite Hrc. apply Nat.ltb_lt. unfold holders.
    assert ((fun p => 0 <? p_rc p) (nth p (s_pools s) dead_pool) = true) as P by (fold (get_pool s p); cbn beta; rewrite Ep; reflexivity).
    pose proof (count_if_pos _ p (s_pools s) dead_pool Hp P). lia. }
  assert (nth p (map (fun p => 0 <? p_rc p) (s_pools s)) false = true) as Flag.
  { rewrite nth_poolflag. fold (get_pool s p). rewrite Ep. reflexivity. }
  destruct (Nat.eqb_spec n 0) as [Hz|Hnz].
  - (* last reference: Drop for ReadBufPool, then the field [sq] *)
    rewrite (surjective_pairing (dec_shared s1)). apply finish_with_dec; [reflexivity| |exact R1|].
    + change (s_rc s1) with (s_rc s). rewrite Hrc. unfold holders in *.
      change (s_ring s1) with (s_ring s). change (s_clones s1) with (s_clones s). change (s_fds s1) with (s_fds s).
      change (s_ops s1) with (s_ops s). rewrite Hz in Hc. change (b2n (0 <? 0)) with 0 in Hc. lia.
    + rewrite replay_pool_drop by (unfold mon_of; cbn [m_fd m_reg m_pring m_pbufs]; assumption).
      f_equal. unfold mon_of. subst s1. cbn [s_rc s_ring s_ops s_pools s_fds s_k set_pools m_sq m_sqes m_cq m_fd m_box m_reg m_pring m_pbufs m_desc].
      rewrite poolflags_upd by exact Hp. subst f. cbn [p_rc]. rewrite Hz. reflexivity.
  - (* other references remain *)
    split; [|split; [|reflexivity]].
    + cbn [fst]. split; [|exact R1]. change (s_rc s1) with (s_rc s). rewrite Hrc. unfold holders in *.
      change (s_ring s1) with (s_ring s). change (s_clones s1) with (s_clones s). change (s_fds s1) with (s_fds s).
      change (s_ops s1) with (s_ops s). destruct n; [congruence|]. change (b2n (0 <? S n)) with 1 in Hc. lia.
    + cbn [fst snd replay]. f_equal. unfold mon_of. subst s1. cbn [s_rc s_ring s_ops s_pools s_fds s_k set_pools].
      rewrite poolflags_upd by exact Hp. subst f. cbn [p_rc].
      assert ((0 <? n) = true) as Pn by (apply Nat.ltb_lt; lia). rewrite Pn.
      rewrite (upd_same_value p (fun _ => true) _ false) by (symmetry; exact Flag). reflexivity.
Qed.

Lemma wf_core_of s : wf s -> wf_core s.
Proof. intros [_ R]. apply wf_rest_split in R. tauto. Qed.

Lemma drop_pool_good s p : wf s -> step_good s (drop_pool s p).
Proof.
  intros W. pose proof W as [Hrc R]. unfold drop_pool. destruct (p_handle (get_pool s p)) eqn:Hh.
  2:{ apply step_good_refl, W. }
  assert (p < length (s_pools s)) as Hp.
  { destruct (Nat.lt_ge_cases p (length (s_pools s))); auto.
    unfold get_pool in Hh. rewrite nth_overflow in Hh by lia. discriminate. }
  set (f := fun x : pool => {| p_rc := p_rc x; p_handle := false |}).
  set (s1 := set_pools s (upd p f (s_pools s))).
  assert (forall p', get_pool s1 p' = if p' =? p then f (get_pool s p) else get_pool s p') as G.
  { intros p'. unfold get_pool. subst s1. cbn [s_pools set_pools]. apply nth_upd_pool, Hp. }
  assert (map (fun p => 0 <? p_rc p) (s_pools s1) = map (fun p => 0 <? p_rc p) (s_pools s)) as Fl.
  { subst s1. cbn [s_pools set_pools]. apply map_upd_id. reflexivity. }
  assert (step_good s1 (dec_pool s1 p)) as Good.
  { apply dec_pool_good.
    - change (s_rc s1) with (s_rc s). rewrite Hrc. unfold holders.
      change (s_ring s1) with (s_ring s). change (s_clones s1) with (s_clones s). change (s_fds s1) with (s_fds s).
      change (s_ops s1) with (s_ops s). f_equal. subst s1. cbn [s_pools set_pools].
      pose proof (count_if_upd (fun p => 0 <? p_rc p) p f (s_pools s) dead_pool Hp) as E. cbn beta in E.
      subst f. cbn [p_rc] in E. lia.
    - apply (wf_core_ext s); auto. apply wf_core_of, W.
    - subst s1. cbn [s_pools set_pools]. rewrite upd_length. exact Hp.
    - intros p'. rewrite G. unfold pool_refs. rewrite G. change (s_bufs s1) with (s_bufs s).
      pose proof (wf_pool _ R p') as E. unfold pool_refs in E.
      destruct (Nat.eqb_spec p' p) as [->|Hne]; cbn [f p_rc p_handle b2n].
      + rewrite E, Hh. cbn. lia.
      + rewrite E. lia. }
  destruct Good as (W1 & Rep & D). split; [exact W1|]. split; [|exact D].
  replace (mon_of s) with (mon_of s1); [exact Rep|].
  unfold mon_of. rewrite Fl. reflexivity.
Qed.

Lemma drop_buf_good s b : wf s -> step_good s (drop_buf s b).
Proof.
  intros W. pose proof W as [Hrc R]. unfold drop_buf.
  destruct (nth b (s_bufs s) (0, false)) as [p live] eqn:Eb. destruct live.
  2:{ apply step_good_refl, W. }
  assert (b < length (s_bufs s)) as Hb.
  { destruct (Nat.lt_ge_cases b (length (s_bufs s))); auto. rewrite nth_overflow in Eb by lia. discriminate. }
  set (g := fun x : nat * bool => (fst x, false)).
  set (s1 := set_bufs s (upd b g (s_bufs s))).
  assert (forall p', count_if (fun x => (fst x =? p') && snd x) (s_bufs s1) + b2n (p =? p')
                     = count_if (fun x => (fst x =? p') && snd x) (s_bufs s)) as Hc.
  { intros p'. subst s1. cbn [s_bufs set_bufs].
    pose proof (count_if_upd (fun x => (fst x =? p') && snd x) b g (s_bufs s) (0, false) Hb) as E.
    rewrite Eb in E. subst g. cbn [fst snd] in E. rewrite !andb_false_r, andb_true_r in E. cbn [b2n] in E. lia. }
  assert (1 <= pool_refs s p) as Hrefs.
  { unfold pool_refs. specialize (Hc p). rewrite Nat.eqb_refl in Hc. cbn [b2n] in Hc. lia. }
  assert (p < length (s_pools s)) as Hp.
  { apply get_pool_lt. rewrite (wf_pool _ R p). lia. }
  assert ((0 <? p_rc (get_pool s p)) = true) as Flag.
  { rewrite (wf_pool _ R p). apply Nat.ltb_lt. lia. }
  rewrite (surjective_pairing (dec_pool s1 p)).
  change (LUsePool p :: snd (dec_pool s1 p)) with ([LUsePool p] ++ snd (dec_pool s1 p)).
  apply (step_good_prefix s s1).
  - assert (nth p (m_pring (mon_of s)) false = true) as F1.
    { unfold mon_of. cbn [m_pring]. rewrite nth_poolflag. exact Flag. }
    assert (nth p (m_pbufs (mon_of s)) false = true) as F2.
    { unfold mon_of. cbn [m_pbufs]. rewrite nth_poolflag. exact Flag. }
    cbn [replay replay1]. rewrite F1, F2. reflexivity.
  - reflexivity.
  - apply dec_pool_good.
    + exact Hrc.
    + apply (wf_core_ext s); auto. apply wf_core_of, W.
    + exact Hp.
    + intros p'. change (get_pool s1 p') with (get_pool s p'). rewrite (wf_pool _ R p').
      unfold pool_refs. change (get_pool s1 p') with (get_pool s p'). specialize (Hc p').
      rewrite (Nat.eqb_sym p' p). lia.
Qed.

(** ** The kernel takes the next step of a request *)
Definition kdue (k : kern) (o : nat) : nat := due3 (k_inflight k) (k_cq k) (k_ovf k) o.

Lemma post_kdue cqn k c o : kdue (post cqn k c) o = kdue k o + b2n (is_cop o c).
Proof. unfold kdue, due3. rewrite post_inflight. pose proof (post_cop cqn k c o). lia. Qed.

Lemma flush_kdue cqn k o : kdue (flush_overflow cqn k) o = kdue k o.
Proof.
  unfold kdue, due3, flush_overflow, count_cop. cbn [k_inflight k_cq k_ovf]. rewrite count_if_app.
  pose proof (count_if_firstn_skipn (is_cop o) (cqn - length (k_cq k)) (k_ovf k)). lia.
Qed.

Lemma owedk_kdue k o : owedk k o = count_sop o (k_sqq k) + kdue k o.
Proof. apply owedk_due. Qed.

(** The monitor does not see a change of the kernel that keeps the queued submissions and what
    is due. *)
Lemma mon_of_k s k' :
  k_sqq k' = k_sqq (s_k s) -> (forall o, kdue k' o = kdue (s_k s) o) -> mon_of (set_k s k') = mon_of s.
Proof.
  intros Q D. unfold mon_of. cbn [s_rc s_ring s_ops s_pools s_fds s_k set_k]. rewrite Q. f_equal.
  apply map_ext. exact D.
Qed.

Lemma covered_snoc infl l c :
  covered infl l -> match c with CMore o => 1 <= count_in o infl | _ => True end -> covered infl (l ++ [c]).
Proof.
  induction l as [|x l IH]; intros H Hc; cbn [app covered].
  - split; [|exact I]. destruct c; auto.
  - destruct H as [Hx Hl]. split; [|apply IH; assumption].
    destruct x; auto. unfold count_cop in *. rewrite count_if_app. lia.
Qed.

Lemma covered_final infl l o :
  mem_nat o infl = true -> covered infl l -> covered (remove_nat o infl) (l ++ [COp o]).
Proof.
  intros M. induction l as [|x l IH]; intros H; cbn [app covered].
  - split; exact I.
  - destruct H as [Hx Hl]. split; [|apply IH; exact Hl].
    destruct x as [o'|o'|]; auto. unfold count_cop in *. rewrite count_if_app, count_if_single. cbn [is_cop].
    destruct (Nat.eqb_spec o o') as [<-|Hne]; cbn [b2n].
    + pose proof (count_remove_same o _ M). lia.
    + rewrite (count_remove_other o o') by auto. lia.
Qed.

Lemma covered_mono infl infl' l :
  (forall o, count_in o infl <= count_in o infl') -> covered infl l -> covered infl' l.
Proof.
  intros Hm. induction l as [|x l IH]; intros H; cbn [covered] in *; [exact I|].
  destruct H as [Hx Hl]. split; [|apply IH; exact Hl]. destruct x; auto. specialize (Hm o). lia.
Qed.

Lemma covered_suffix infl a b : covered infl (a ++ b) -> covered infl b.
Proof. induction a as [|x a IH]; cbn [app covered]; [auto|]. intros [_ H]. apply IH, H. Qed.

Lemma mem_nat_pos o l : mem_nat o l = true -> 1 <= count_in o l.
Proof. rewrite mem_nat_count. intros H. apply Nat.ltb_lt in H. exact H. Qed.

(** Cancelling keeps what is due and the coverage of the posted results. *)
Lemma cancel_req_kdue d k o o' : mem_nat o (k_inflight k) = true -> kdue (cancel_req d k o) o' = kdue k o'.
Proof.
  intros M. pose proof (cancel_req_owed d k o o' M) as E. rewrite !owedk_kdue, cancel_req_sqq in E. lia.
Qed.

Lemma cancel_req_inflight d k o : k_inflight (cancel_req d k o) = remove_nat o (k_inflight k).
Proof. unfold cancel_req. destruct (mem_nat o (k_first k)); rewrite ?post_inflight; reflexivity. Qed.

Lemma cancel_req_covered d k o :
  mem_nat o (k_inflight k) = true -> covered (k_inflight k) (pend k) ->
  covered (k_inflight (cancel_req d k o)) (pend (cancel_req d k o)).
Proof.
  intros M C. rewrite cancel_req_inflight. unfold cancel_req.
  destruct (mem_nat o (k_first k)); rewrite !post_pend.
  - apply covered_final; [exact M|]. apply covered_snoc; [exact C|]. apply mem_nat_pos, M.
  - apply covered_final; assumption.
Qed.

Lemma kcomplete_good s o : wf s -> step_good s (kcomplete s o).
Proof.
  intros W. pose proof W as [Hrc R]. unfold kcomplete. destruct (mem_nat o (k_inflight (s_k s))) eqn:M.
  2:{ apply step_good_refl, W. }
  destruct (mem_nat o (k_first (s_k s))) eqn:F.
  - (* the result of a two-step request: F_MORE, the request stays in flight *)
    set (k0 := {| k_sqq := k_sqq (s_k s); k_inflight := k_inflight (s_k s); k_first := remove_nat o (k_first (s_k s));
                  k_cq := k_cq (s_k s); k_ovf := k_ovf (s_k s) |}).
    set (k1 := post (d_cqn (s_d s)) k0 (CMore o)).
    assert (k_sqq k1 = k_sqq (s_k s)) as Q by (subst k1; rewrite post_sqq; reflexivity).
    assert (forall o', kdue k1 o' = kdue (s_k s) o') as D.
    { intros o'. subst k1. rewrite post_kdue. cbn [is_cop b2n]. unfold kdue. subst k0. cbn [k_inflight k_cq k_ovf]. lia. }
    split; [|split; [|reflexivity]].
    + split; [exact Hrc|]. destruct R as [Rp Rb Ro Rop Rc Rr Rm]. constructor; cbn [fst]; try assumption.
      * intros o'. cbn [s_k set_k]. change (get_op (set_k s k1) o') with (get_op s o'). rewrite <- (Ro o').
        rewrite !owedk_kdue, Q, D. reflexivity.
      * intros h. cbn [s_k set_k s_fds]. rewrite Q. apply Rc.
      * intros h. cbn [s_k set_k s_fds]. rewrite Q. apply Rr.
      * cbn [s_k set_k]. subst k1. rewrite post_inflight, post_pend.
        apply covered_snoc; [exact Rm|]. apply mem_nat_pos, M.
    + cbn [fst snd replay]. f_equal. symmetry. apply mon_of_k; assumption.
  - (* the final completion *)
    set (k0 := {| k_sqq := k_sqq (s_k s); k_inflight := remove_nat o (k_inflight (s_k s)); k_first := k_first (s_k s);
                  k_cq := k_cq (s_k s); k_ovf := k_ovf (s_k s) |}).
    set (k1 := post (d_cqn (s_d s)) k0 (COp o)).
    assert (k_sqq k1 = k_sqq (s_k s)) as Q by (subst k1; rewrite post_sqq; reflexivity).
    assert (forall o', kdue k1 o' = kdue (s_k s) o') as D.
    { intros o'. subst k1. rewrite post_kdue. unfold kdue, due3. subst k0. cbn [k_inflight k_cq k_ovf is_cop].
      destruct (Nat.eqb_spec o o') as [<-|Hne]; cbn [b2n].
      - pose proof (count_remove_same o _ M). lia.
      - rewrite (count_remove_other o o') by auto. lia. }
    split; [|split; [|reflexivity]].
    + split; [exact Hrc|]. destruct R as [Rp Rb Ro Rop Rc Rr Rm]. constructor; cbn [fst]; try assumption.
      * intros o'. cbn [s_k set_k]. change (get_op (set_k s k1) o') with (get_op s o'). rewrite <- (Ro o').
        rewrite !owedk_kdue, Q, D. reflexivity.
      * intros h. cbn [s_k set_k s_fds]. rewrite Q. apply Rc.
      * intros h. cbn [s_k set_k s_fds]. rewrite Q. apply Rr.
      * cbn [s_k set_k]. subst k1. rewrite post_inflight, post_pend. subst k0. cbn [k_inflight].
        apply (covered_final _ _ _ M). exact Rm.
    + cbn [fst snd replay]. f_equal. symmetry. apply mon_of_k; assumption.
Qed.

(** ** Pieces of [Drop for Ring] *)
Definition consume_desc (q : list sqe) (dsc : list bool) : list bool :=
  fold_left (fun dsc e => match e with SClose h => clr h dsc | _ => dsc end) q dsc.

Lemma consume_desc_length q dsc : length (consume_desc q dsc) = length dsc.
Proof.
  revert dsc; induction q as [|e q IH]; intros dsc; cbn; auto.
  rewrite IH. destruct e; auto. apply clr_length.
Qed.

Lemma consume_desc_nth q dsc h :
  nth h (consume_desc q dsc) false = nth h dsc false && (count_close h q =? 0).
Proof.
  revert dsc; induction q as [|e q IH]; intros dsc; cbn [consume_desc fold_left].
  - cbn. rewrite andb_true_r. reflexivity.
  - fold (consume_desc q). rewrite IH. unfold count_close. rewrite count_if_cons. fold (count_close h q).
    destruct e as [h'|o|o]; cbn [is_close b2n]; try reflexivity.
    rewrite nth_clr. rewrite (Nat.eqb_sym h' h). destruct (h =? h'); cbn [b2n]; [rewrite andb_false_r; reflexivity|reflexivity].
Qed.

Lemma set_desc_same m : set_desc m (m_desc m) = m.
Proof. destruct m; reflexivity. Qed.
Lemma set_due_same m : set_due m (m_due m) = m.
Proof. destruct m; reflexivity. Qed.

Definition consume_due (q : list sqe) (due : list nat) : list nat :=
  fold_left (fun due e => match e with SOp o => upd o S due | _ => due end) q due.

Lemma consume_due_length q due : length (consume_due q due) = length due.
Proof.
  revert due; induction q as [|e q IH]; intros due; cbn; auto.
  rewrite IH. destruct e; auto. apply upd_length.
Qed.

Lemma consume_due_nth q due o :
  nth o (consume_due q due) 0 = nth o due 0 + (if o <? length due then count_sop o q else 0).
Proof.
  revert due; induction q as [|e q IH]; intros due; cbn [consume_due fold_left].
  - change (count_sop o []) with 0. destruct (o <? length due); lia.
  - fold (consume_due q). rewrite IH. unfold count_sop. rewrite count_if_cons. fold (count_sop o q).
    destruct e as [h|o'|o']; cbn [is_sop b2n]; try reflexivity.
    rewrite upd_length, nth_upd_gen. rewrite (Nat.eqb_sym o' o).
    destruct (Nat.eqb_spec o o') as [->|Hne]; cbn [andb b2n].
    + destruct (o' <? length due); lia.
    + destruct (o <? length due); lia.
Qed.

Lemma replay_consumed d q : forall m,
  (forall h, count_close h q <= 1) ->
  (forall h, 1 <= count_close h q -> nth h (m_desc m) false = true) ->
  replay d m (map LConsumed q) = Some (set_due (set_desc m (consume_desc q (m_desc m))) (consume_due q (m_due m))).
Proof.
  induction q as [|e q IH]; intros m H1 H2.
  - cbn. rewrite set_desc_same, set_due_same. reflexivity.
  - assert (forall h, count_close h q <= 1) as H1'.
    { intros h. specialize (H1 h). unfold count_close in *. rewrite count_if_cons in H1. lia. }
    cbn [map replay]. destruct e as [h|o|o]; cbn [replay1].
    + rewrite H2 by (unfold count_close; rewrite count_if_cons; cbn [is_close]; rewrite Nat.eqb_refl; cbn; lia).
      rewrite IH.
      * reflexivity.
      * exact H1'.
      * intros h' Hc. cbn [set_desc m_desc]. rewrite nth_clr.
        destruct (Nat.eqb_spec h' h) as [->|Hne].
        -- specialize (H1 h). unfold count_close in *. rewrite count_if_cons in H1. cbn [is_close] in H1.
           rewrite Nat.eqb_refl in H1. cbn in H1. lia.
        -- apply H2. unfold count_close in *. rewrite count_if_cons. lia.
    + rewrite IH; [reflexivity|exact H1'|]. intros h Hc. cbn [set_due m_desc]. apply H2.
      unfold count_close in *. rewrite count_if_cons. lia.
    + apply IH; [exact H1'|]. intros h Hc. apply H2. unfold count_close in *. rewrite count_if_cons. lia.
Qed.

Lemma replay_use d m x l : mapped m x = true -> replay d m (LUse x :: l) = replay d m l.
Proof. intros H. cbn [replay replay1]. rewrite H. reflexivity. Qed.
Lemma replay_enter d m n g l : m_fd m = true -> replay d m (LEnter n g :: l) = replay d m l.
Proof. intros H. cbn [replay replay1]. rewrite H. reflexivity. Qed.
Lemma mon_sq s : (0 <? s_rc s) = true -> mapped (mon_of s) MSq = true.
Proof. intros H. exact H. Qed.
Lemma mon_fd s : (0 <? s_rc s) = true -> m_fd (mon_of s) = true.
Proof. intros H. exact H. Qed.
Lemma mon_cq s : s_ring s = true -> mapped (mon_of s) MCq = true.
Proof. intros H. exact H. Qed.

(** Fields a piece leaves alone. *)
Definition hp (x : op) : bool := o_fut x && owns x.
Record frame (s s' : state) : Prop := {
  fr_d : s_d s' = s_d s;
  fr_rc : s_rc s' = s_rc s;
  fr_ring : s_ring s' = s_ring s;
  fr_clones : s_clones s' = s_clones s;
  fr_fds : s_fds s' = s_fds s;
  fr_pools : s_pools s' = s_pools s;
  fr_bufs : s_bufs s' = s_bufs s;
  fr_hp : count_if hp (s_ops s') = count_if hp (s_ops s)
}.

Lemma frame_refl s : frame s s.
Proof. constructor; reflexivity. Qed.

Lemma frame_trans a b c : frame a b -> frame b c -> frame a c.
Proof. intros [] []. constructor; congruence. Qed.

Definition seg_good (s s' : state) (l : list lev) : Prop :=
  wf_core s' /\ frame s s' /\ replay (s_d s) (mon_of s) l = Some (mon_of s').

Lemma seg_good_trans a b c l1 l2 : seg_good a b l1 -> seg_good b c l2 -> seg_good a c (l1 ++ l2).
Proof.
  intros (W1 & F1 & R1) (W2 & F2 & R2). split; [exact W2|]. split; [eapply frame_trans; eassumption|].
  rewrite replay_app, R1. rewrite <- (fr_d _ _ F1). exact R2.
Qed.

Lemma execute_covered d k q :
  covered (k_inflight k) (pend k) -> covered (k_inflight (execute d k q)) (pend (execute d k q)).
Proof.
  intros C. destruct q as [h|o|o]; cbn [execute].
  - exact C.
  - destruct (mem_nat o (d_rej d)).
    + rewrite post_inflight, post_pend. apply covered_snoc; [exact C|exact I].
    + unfold pend. cbn [k_inflight k_cq k_ovf]. apply (covered_mono (k_inflight k)); [|exact C].
      intros o'. unfold count_in. rewrite count_if_app. lia.
  - destruct (cancelable d k o) eqn:M.
    + apply cancel_req_covered; [apply (cancelable_mem d), M|exact C].
    + rewrite post_inflight, post_pend. apply covered_snoc; [exact C|exact I].
Qed.

Lemma fold_execute_covered d q : forall k,
  covered (k_inflight k) (pend k) ->
  covered (k_inflight (fold_left (execute d) q k)) (pend (fold_left (execute d) q k)).
Proof. induction q as [|x q IH]; intros k C; cbn [fold_left]; [exact C|]. apply IH, execute_covered, C. Qed.

Lemma consume_all_covered d k :
  covered (k_inflight k) (pend k) -> covered (k_inflight (consume_all d k)) (pend (consume_all d k)).
Proof. intros C. unfold consume_all. apply fold_execute_covered. exact C. Qed.

Lemma flush_covered cqn k :
  covered (k_inflight k) (pend k) -> covered (k_inflight (flush_overflow cqn k)) (pend (flush_overflow cqn k)).
Proof. intros C. rewrite flush_pend. exact C. Qed.

Lemma sc_step_covered d k o :
  covered (k_inflight k) (pend k) -> covered (k_inflight (sc_step d k o)) (pend (sc_step d k o)).
Proof.
  intros C. unfold sc_step. destruct (cancelable d k o) eqn:M; [|exact C].
  apply cancel_req_covered; [apply (cancelable_mem d), M|exact C].
Qed.

Lemma sync_cancel_covered d k :
  covered (k_inflight k) (pend k) -> covered (k_inflight (sync_cancel d k)) (pend (sync_cancel d k)).
Proof.
  rewrite sync_cancel_fold. generalize (k_inflight k) at 2 3. intros l. revert k.
  induction l as [|x l IH]; intros k C; cbn [fold_left]; [exact C|]. apply IH, sc_step_covered, C.
Qed.

Lemma sync_cancel_kdue d k o : kdue (sync_cancel d k) o = kdue k o.
Proof. pose proof (sync_cancel_owed d k o) as E. rewrite !owedk_kdue, sync_cancel_sqq in E. lia. Qed.

(** A submission for operation [o] is queued only if [o] is an operation. *)
Lemma sop_in_range s o : wf_core s -> 1 <= count_sop o (k_sqq (s_k s)) -> o < length (s_ops s).
Proof.
  intros C H. pose proof (wc_owed _ C o) as E. rewrite owedk_kdue in E.
  destruct (Nat.lt_ge_cases o (length (s_ops s))); auto.
  unfold get_op in E. rewrite nth_overflow in E by lia. cbn in E. lia.
Qed.

Lemma enter_all_good s g :
  wf_core s -> (0 <? s_rc s) = true ->
  seg_good s (fst (enter_all s g)) (snd (enter_all s g)) /\ k_sqq (s_k (fst (enter_all s g))) = [].
Proof.
  intros C Pos. pose proof (sop_in_range s) as Range. specialize (fun o => Range o C).
  unfold enter_all. cbn [fst snd].
  set (cqn := d_cqn (s_d s)). set (k1 := flush_overflow cqn (consume_all (s_d s) (s_k s))).
  assert (k_sqq k1 = []) as Q by (subst k1; rewrite flush_sqq; apply consume_all_sqq).
  assert (forall o, kdue k1 o = count_sop o (k_sqq (s_k s)) + kdue (s_k s) o) as D.
  { intros o. rewrite <- owedk_kdue. pose proof (owedk_kdue k1 o) as E. rewrite Q in E. change (count_sop o []) with 0 in E.
    cbn [Nat.add] in E. rewrite <- E. subst k1. rewrite flush_owed, consume_all_owed. reflexivity. }
  split; [|cbn [s_k set_k]; exact Q].
  destruct C as [Cb Co Cop Cc Cr Cm]. split; [|split].
  - constructor; try assumption.
    + intros o. cbn [s_k set_k]. change (get_op (set_k s k1) o) with (get_op s o). rewrite <- (Co o).
      subst k1. rewrite flush_owed, consume_all_owed. reflexivity.
    + intros h. cbn [s_k set_k s_fds]. rewrite Q. cbn. destruct (nth h (s_fds s) false); cbn; lia.
    + intros h. cbn [s_k set_k]. rewrite Q. cbn. lia.
    + cbn [s_k set_k]. subst k1. apply flush_covered, consume_all_covered, Cm.
  - constructor; reflexivity.
  - change ([LUse MSq; LEnter (length (k_sqq (s_k s))) g] ++ map LConsumed (k_sqq (s_k s)))
      with (LUse MSq :: LEnter (length (k_sqq (s_k s))) g :: map LConsumed (k_sqq (s_k s))).
    rewrite replay_use by (apply mon_sq, Pos). rewrite replay_enter by (apply mon_fd, Pos).
    rewrite replay_consumed.
    + f_equal. unfold mon_of, set_desc, set_due. cbn [s_rc s_ring s_ops s_pools s_fds s_k set_k m_sq m_sqes m_cq m_fd m_box m_reg m_pring m_pbufs m_desc m_due].
      f_equal.
      * rewrite Q. apply bool_list_ext; [rewrite consume_desc_length, !desc_of_length; reflexivity|].
        intros h. rewrite consume_desc_nth, !desc_of_nth; [|cbn; lia|exact (Cr h)].
        change (count_close h []) with 0. cbn [Nat.ltb Nat.leb orb]. rewrite orb_false_r.
        specialize (Cc h). destruct (count_close h (k_sqq (s_k s))) as [|n]; cbn; [rewrite orb_false_r, andb_true_r; reflexivity|].
        destruct (nth h (s_fds s) false); cbn in *; [lia|reflexivity].
      * apply nat_list_ext; [rewrite consume_due_length, !map_length; reflexivity|].
        intros o. rewrite consume_due_nth, map_length, seq_length, !nth_seq_map.
        fold (kdue (s_k s) o). fold (kdue k1 o). rewrite D.
        destruct (Nat.ltb_spec o (length (s_ops s))) as [Hlt|Hge]; [lia|].
        destruct (count_sop o (k_sqq (s_k s))) eqn:E0; [reflexivity|]. specialize (Range o). lia.
    + intros h. specialize (Cc h). lia.
    + intros h Hc. unfold mon_of. cbn [m_desc]. rewrite desc_of_nth by exact (Cr h).
      destruct (count_close h (k_sqq (s_k s))); [lia|]. cbn. apply orb_true_r.
Qed.

Lemma sync_cancel_good s :
  wf_core s -> (0 <? s_rc s) = true ->
  seg_good s (set_k s (sync_cancel (s_d s) (s_k s))) [LRegister RSyncCancel].
Proof.
  intros [Cb Co Cop Cc Cr Cm] Pos. split; [|split].
  - constructor; try assumption.
    + intros o. cbn [s_k set_k]. rewrite sync_cancel_owed. apply Co.
    + intros h. cbn [s_k set_k s_fds]. rewrite sync_cancel_sqq. apply Cc.
    + intros h. cbn [s_k set_k s_fds]. rewrite sync_cancel_sqq. apply Cr.
    + cbn [s_k set_k]. apply sync_cancel_covered, Cm.
  - constructor; reflexivity.
  - cbn [replay replay1]. unfold mon_of at 1. cbn [m_fd]. rewrite Pos. f_equal.
    symmetry. apply mon_of_k; [apply sync_cancel_sqq|intros o; apply sync_cancel_kdue].
Qed.

(** Completion dispatch: every processed final completion is one the operation waited for. *)
Lemma set_box_same m : set_box m (m_box m) = m.
Proof. destruct m; reflexivity. Qed.

Lemma nth_op_lt ops o : o_st (nth o ops dead_op) <> Complete -> o < length ops.
Proof.
  intros H. destruct (Nat.lt_ge_cases o (length ops)); auto. rewrite nth_overflow in H by lia. cbn in H. congruence.
Qed.

Definition process_due (cs : list cqe) (due : list nat) : list nat :=
  fold_left (fun due c => match c with COp o => upd o pred due | _ => due end) cs due.

Lemma process_due_length cs due : length (process_due cs due) = length due.
Proof.
  revert due; induction cs as [|c cs IH]; intros due; cbn; auto.
  rewrite IH. destruct c; auto. apply upd_length.
Qed.

Lemma process_due_nth cs due o : nth o (process_due cs due) 0 = nth o due 0 - count_cop o cs.
Proof.
  revert due; induction cs as [|c cs IH]; intros due; cbn [process_due fold_left].
  - change (count_cop o []) with 0. lia.
  - fold (process_due cs). rewrite IH. unfold count_cop. rewrite count_if_cons. fold (count_cop o cs).
    destruct c as [o'|o'|]; cbn [is_cop b2n]; try reflexivity.
    rewrite nth_upd_gen. rewrite (Nat.eqb_sym o' o).
    destruct (Nat.eqb_spec o o') as [->|Hne]; cbn [andb b2n]; [|lia].
    destruct (Nat.ltb_spec o' (length due)); [lia|]. rewrite nth_overflow by lia. lia.
Qed.

Lemma nth_upd_pred_le o o' (due : list nat) n :
  nth o' due 0 <= b2n (o =? o') + n -> nth o' (upd o pred due) 0 <= n.
Proof.
  rewrite nth_upd_gen. rewrite (Nat.eqb_sym o' o).
  destruct (Nat.eqb_spec o o') as [->|Hne]; cbn [andb b2n]; [|lia].
  destruct (Nat.ltb_spec o' (length due)); [lia|]. rewrite nth_overflow by lia. lia.
Qed.

(** Processing a batch [cs] of the posted completions; [tl] is what stays posted behind it, [infl]
    what is in flight, [rest o] everything that is still due for [o] apart from the batch. *)
Lemma process_all_good cs : forall ops (rest : nat -> nat) infl tl,
  (forall o, count_cop o cs + rest o = expect (nth o ops dead_op)) ->
  (forall o, op_ok (nth o ops dead_op)) ->
  covered infl (cs ++ tl) ->
  (forall o, count_cop o tl + count_in o infl <= rest o) ->
  let r := process_all ops cs in
  (forall o, rest o = expect (nth o (fst r) dead_op)) /\
  (forall o, op_ok (nth o (fst r) dead_op)) /\
  (forall o, o_fut (nth o (fst r) dead_op) = o_fut (nth o ops dead_op) /\ o_on (nth o (fst r) dead_op) = o_on (nth o ops dead_op)) /\
  count_if hp (fst r) = count_if hp ops /\
  length (fst r) = length ops /\
  (forall d m, m_box m = map o_box ops ->
     (forall o, nth o (m_due m) 0 <= count_cop o cs + (count_cop o tl + count_in o infl)) ->
     replay d m (snd r) = Some (set_due (set_box m (map o_box (fst r))) (process_due cs (m_due m)))).
Proof.
  induction cs as [|c cs IH]; intros ops rest infl tl H OK Cov Hrest.
  - cbn. split; [|split; [|split; [|split; [|split]]]]; auto.
    intros d m E _. rewrite <- E, set_box_same, set_due_same. reflexivity.
  - cbn [process_all]. destruct c as [o|o|].
    3:{ cbn [process_one]. specialize (IH ops rest infl tl).
        rewrite (surjective_pairing (process_all ops cs)). cbn [fst snd app]. apply IH; [|exact OK|exact (proj2 Cov)|exact Hrest].
        intros o. specialize (H o). unfold count_cop in *. rewrite count_if_cons in H. cbn in H. lia. }
    2:{ (* a result with F_MORE: the state is looked at, nothing changes *)
        cbn [process_one]. specialize (IH ops rest infl tl).
        rewrite (surjective_pairing (process_all ops cs)). cbn [fst snd].
        assert (forall o', count_cop o' cs + rest o' = expect (nth o' ops dead_op)) as H'.
        { intros o'. specialize (H o'). unfold count_cop in *. rewrite count_if_cons in H. cbn in H. lia. }
        destruct (IH H' OK (proj2 Cov) Hrest) as (I1 & I2 & I3 & I4 & I5 & I6).
        split; [exact I1|]. split; [exact I2|]. split; [exact I3|]. split; [exact I4|]. split; [exact I5|].
        intros d m E B.
        assert (o_box (nth o ops dead_op) = true) as Bx.
        { apply op_ok_expect; [apply OK|]. rewrite <- (H' o). destruct Cov as [Cv _]. cbn [app] in Cv.
          unfold count_cop in *. rewrite count_if_app in Cv. specialize (Hrest o). unfold count_cop in Hrest. lia. }
        cbn [app replay replay1]. rewrite E, nth_box, Bx. apply I6; [exact E|].
        intros o'. specialize (B o'). unfold count_cop in *. rewrite count_if_cons in B. cbn [is_cop b2n] in B. lia. }
    pose proof (H o) as Ho. unfold count_cop in Ho. rewrite count_if_cons in Ho. cbn [is_cop] in Ho.
    rewrite Nat.eqb_refl in Ho. cbn [b2n] in Ho.
    assert (forall o', b2n (o =? o') + count_cop o' cs + rest o' = expect (nth o' ops dead_op)) as H0.
    { intros o'. specialize (H o'). unfold count_cop in *. rewrite count_if_cons in H. cbn [is_cop] in H. exact H. }
    cbn [process_one]. unfold expect in Ho. destruct (o_st (nth o ops dead_op)) eqn:St; try lia.
    + (* Running -> Done *)
      assert (o < length ops) as Hlt by (apply nth_op_lt; congruence).
      assert (o_box (nth o ops dead_op) = true) as Bx.
      { apply op_ok_expect; [apply OK|]. unfold expect. rewrite St. lia. }
      set (f := fun x : op => {| o_on := o_on x; o_fut := o_fut x; o_st := Done; o_box := o_box x |}).
      specialize (IH (upd o f ops) rest infl tl).
      rewrite (surjective_pairing (process_all (upd o f ops) cs)). cbn [fst snd app].
      assert (forall o', nth o' (upd o f ops) dead_op = if o' =? o then f (nth o ops dead_op) else nth o' ops dead_op) as G
        by (intros; apply nth_upd_op, Hlt).
      destruct IH as (I1 & I2 & I3 & I4 & I5 & I6).
      * intros o'. rewrite G. destruct (Nat.eqb_spec o' o) as [->|Hne].
        -- unfold expect. cbn. unfold count_cop. lia.
        -- specialize (H0 o'). destruct (Nat.eqb_spec o o'); [congruence|]. cbn in H0. lia.
      * intros o'. rewrite G. destruct (Nat.eqb_spec o' o) as [->|Hne]; [|apply OK].
        destruct (OK o) as [A B]. split; cbn.
        -- intros F. destruct (A F). split; [assumption|discriminate].
        -- intros F. destruct (B F) as [NR _]. congruence.
      * exact (proj2 Cov).
      * exact Hrest.
      * split; [exact I1|]. split; [exact I2|]. split; [|split; [|split]].
        -- intros o0. destruct (I3 o0) as [A B]. rewrite A, B, G.
           destruct (o0 =? o) eqn:E; [apply Nat.eqb_eq in E; subst; split; reflexivity|split; reflexivity].
        -- rewrite I4. pose proof (count_if_upd hp o f ops dead_op Hlt) as E. unfold hp in *. cbn in E.
           change (owns (f (nth o ops dead_op))) with (owns (nth o ops dead_op)) in E. lia.
        -- rewrite I5. apply upd_length.
        -- intros d m E B. cbn [app replay replay1]. rewrite E, nth_box, Bx.
           rewrite (I6 d (set_due m (upd o pred (m_due m)))).
           ++ reflexivity.
           ++ cbn [set_due m_box]. rewrite E. symmetry. apply map_upd_id. reflexivity.
           ++ intros o'. cbn [set_due m_due]. apply nth_upd_pred_le. specialize (B o').
              unfold count_cop in *. rewrite count_if_cons in B. cbn [is_cop] in B. lia.
    + (* Dropped: free the state *)
      assert (o < length ops) as Hlt by (apply nth_op_lt; congruence).
      assert (o_box (nth o ops dead_op) = true) as Bx by (destruct (o_box (nth o ops dead_op)); cbn in Ho; [reflexivity|lia]).
      rewrite Bx in Ho. cbn in Ho.
      set (f := fun x : op => {| o_on := o_on x; o_fut := o_fut x; o_st := o_st x; o_box := false |}).
      specialize (IH (upd o f ops) rest infl tl).
      rewrite (surjective_pairing (process_all (upd o f ops) cs)). cbn [fst snd].
      assert (forall o', nth o' (upd o f ops) dead_op = if o' =? o then f (nth o ops dead_op) else nth o' ops dead_op) as G
        by (intros; apply nth_upd_op, Hlt).
      destruct IH as (I1 & I2 & I3 & I4 & I5 & I6).
      * intros o'. rewrite G. destruct (Nat.eqb_spec o' o) as [->|Hne].
        -- unfold expect. cbn. rewrite St. cbn. unfold count_cop. lia.
        -- specialize (H0 o'). destruct (Nat.eqb_spec o o'); [congruence|]. cbn in H0. lia.
      * intros o'. rewrite G. destruct (Nat.eqb_spec o' o) as [->|Hne]; [|apply OK].
        destruct (OK o) as [A B]. split; cbn.
        -- intros F. destruct (A F). congruence.
        -- intros _. split; [congruence|discriminate].
      * exact (proj2 Cov).
      * exact Hrest.
      * split; [exact I1|]. split; [exact I2|]. split; [|split; [|split]].
        -- intros o0. destruct (I3 o0) as [A B]. rewrite A, B, G.
           destruct (o0 =? o) eqn:E; [apply Nat.eqb_eq in E; subst; split; reflexivity|split; reflexivity].
        -- rewrite I4. pose proof (count_if_upd hp o f ops dead_op Hlt) as E. unfold hp in *. cbn in E.
           change (owns (f (nth o ops dead_op))) with (owns (nth o ops dead_op)) in E. lia.
        -- rewrite I5. apply upd_length.
        -- intros d m E B. cbn [app replay]. unfold replay1 at 1. rewrite E, nth_box, Bx.
           assert (nth o (upd o pred (m_due m)) 0 = 0) as D0.
           { assert (nth o (upd o pred (m_due m)) 0 <= 0) as Le; [|lia].
             apply nth_upd_pred_le. specialize (B o). unfold count_cop in *. rewrite count_if_cons in B.
             cbn [is_cop] in B. specialize (Hrest o). unfold count_cop in Hrest. lia. }
           unfold replay1 at 1. cbn [set_due m_box m_due]. rewrite E, nth_box, Bx, D0. cbn [Nat.eqb andb].
           rewrite (I6 d (set_box (set_due m (upd o pred (m_due m))) (clr o (map o_box ops)))).
           ++ reflexivity.
           ++ cbn [set_box m_box]. symmetry. apply map_upd. reflexivity.
           ++ intros o'. cbn [set_box set_due m_due]. apply nth_upd_pred_le. specialize (B o').
              unfold count_cop in *. rewrite count_if_cons in B. cbn [is_cop] in B. lia.
Qed.

Lemma cq_poll_k s :
  s_k (fst (cq_poll s)) =
  {| k_sqq := k_sqq (fst (poll_fetch s)); k_inflight := k_inflight (fst (poll_fetch s));
     k_first := k_first (fst (poll_fetch s)); k_cq := [];
     k_ovf := k_ovf (fst (poll_fetch s)) |}.
Proof. unfold cq_poll. destruct (poll_fetch s) as [k1 l1]. destruct (process_all _ _). reflexivity. Qed.

Lemma poll_fetch_nil s :
  k_sqq (s_k s) = [] ->
  fst (poll_fetch s) = match k_cq (s_k s) with [] => flush_overflow (d_cqn (s_d s)) (s_k s) | _ => s_k s end.
Proof. intros Q. unfold poll_fetch. destruct (k_cq (s_k s)); cbn [fst]; [rewrite consume_all_nil by exact Q|]; reflexivity. Qed.

Lemma cq_poll_good s :
  wf_core s -> (0 <? s_rc s) = true -> s_ring s = true -> k_sqq (s_k s) = [] ->
  seg_good s (fst (cq_poll s)) (snd (cq_poll s)).
Proof.
  intros C Pos Ring Q. pose proof (poll_fetch_nil s Q) as PF. unfold cq_poll.
  destruct (poll_fetch s) as [k1 l1] eqn:EP. cbn [fst] in PF.
  destruct C as [Cb Co Cop Cc Cr Cm].
  assert (k_sqq k1 = [] /\ (forall o, owedk k1 o = owedk (s_k s) o) /\ (forall o, kdue k1 o = kdue (s_k s) o) /\
          covered (k_inflight k1) (pend k1)) as (Q1 & O1 & D1 & Cm1).
  { subst k1. destruct (k_cq (s_k s)).
    - split; [rewrite flush_sqq; exact Q|]. split; [intros; apply flush_owed|]. split; [intros; apply flush_kdue|].
      apply flush_covered, Cm.
    - split; [exact Q|]. split; [reflexivity|]. split; [reflexivity|exact Cm]. }
  assert (replay (s_d s) (mon_of s) l1 = Some (mon_of s)) as R1.
  { unfold poll_fetch in EP. destruct (k_cq (s_k s)); inversion EP; subst l1.
    - rewrite Q. cbn [map app length].
      rewrite replay_use by (apply mon_cq, Ring). rewrite replay_use by (apply mon_sq, Pos).
      rewrite replay_enter by (apply mon_fd, Pos). rewrite replay_use by (apply mon_cq, Ring). reflexivity.
    - rewrite replay_use by (apply mon_cq, Ring). reflexivity. }
  set (rest := fun o => count_sop o (k_sqq k1) + count_in o (k_inflight k1) + count_cop o (k_ovf k1)).
  pose proof (process_all_good (k_cq k1) (s_ops s) rest (k_inflight k1) (k_ovf k1)) as P.
  destruct (process_all (s_ops s) (k_cq k1)) as [ops1 l2] eqn:EPA. cbn [fst snd] in *.
  destruct P as (I1 & I2 & I3 & I4 & I5 & I6).
  { intros o. fold (get_op s o). rewrite <- (Co o), <- (O1 o). unfold owedk, rest.
    generalize (count_cop o (k_cq k1)) (count_sop o (k_sqq k1)) (count_in o (k_inflight k1)) (count_cop o (k_ovf k1)).
    clear. intros. lia. }
  { exact Cop. }
  { exact Cm1. }
  { intros o. unfold rest. lia. }
  set (k2 := {| k_sqq := k_sqq k1; k_inflight := k_inflight k1; k_first := k_first k1; k_cq := []; k_ovf := k_ovf k1 |}).
  split; [|split].
  - constructor.
    + intros o h. unfold get_op. cbn [s_ops set_ops s_fds set_k]. destruct (I3 o) as [A B]. rewrite A, B. apply Cb.
    + intros o. unfold get_op. cbn [s_ops set_ops s_k set_k]. rewrite <- I1. unfold owedk, rest. subst k2.
      cbn [k_sqq k_inflight k_cq k_ovf]. change (count_cop o []) with 0.
      generalize (count_sop o (k_sqq k1)) (count_in o (k_inflight k1)) (count_cop o (k_ovf k1)). clear. intros. lia.
    + intros o. unfold get_op. cbn [s_ops set_ops]. apply I2.
    + intros h. cbn [s_k set_ops set_k s_fds]. subst k2. cbn [k_sqq]. rewrite Q1. cbn. destruct (nth h (s_fds s) false); cbn; lia.
    + intros h. cbn [s_k set_ops set_k]. subst k2. cbn [k_sqq]. rewrite Q1. cbn. lia.
    + cbn [s_k set_ops set_k]. subst k2. unfold pend. cbn [k_inflight k_cq k_ovf app].
      apply (covered_suffix _ (k_cq k1)). exact Cm1.
  - constructor; try reflexivity. cbn [s_ops set_ops]. exact I4.
  - rewrite replay_app, R1, replay_app. rewrite (I6 (s_d s) (mon_of s)).
    2:{ reflexivity. }
    2:{ intros o. unfold mon_of. cbn [m_due]. rewrite nth_seq_map. fold (kdue (s_k s) o). rewrite <- D1.
        unfold kdue, due3. destruct (o <? length (s_ops s)); lia. }
    assert (set_due (set_box (mon_of s) (map o_box ops1)) (process_due (k_cq k1) (m_due (mon_of s)))
            = mon_of (set_ops (set_k s k2) ops1)) as ->.
    { unfold mon_of, set_box, set_due. cbn [s_rc s_ring s_ops s_pools s_fds s_k set_ops set_k m_sq m_sqes m_cq m_fd m_box m_reg m_pring m_pbufs m_desc m_due].
      subst k2. cbn [k_sqq k_inflight k_cq k_ovf]. rewrite Q, Q1. f_equal.
      apply nat_list_ext; [rewrite process_due_length, !map_length, !seq_length; symmetry; exact I5|].
      intros o. rewrite process_due_nth, !nth_seq_map, I5. fold (kdue (s_k s) o). rewrite <- D1.
      unfold kdue, due3. change (count_cop o []) with 0. destruct (o <? length (s_ops s)); lia. }
    rewrite replay_use by (apply mon_cq; exact Ring). reflexivity.
Qed.

(** ** [Drop for Ring] *)
Lemma holders_pos_ring s : s_ring s = true -> 1 <= holders s.
Proof. intros R. unfold holders. rewrite R. cbn. lia. Qed.

Lemma ring_tail_good s s4 l :
  wf s -> s_ring s = true -> seg_good s s4 l ->
  step_good s (fst (dec_shared (set_ring s4 false)),
               (l ++ [LMunmap MCq (d_len_cq (s_d s))]) ++ snd (dec_shared (set_ring s4 false))).
Proof.
  intros [Hrc R] Ring (C4 & F & Rep).
  apply finish_with_dec.
  - cbn [s_d set_ring]. apply (fr_d _ _ F).
  - cbn [s_rc set_ring]. rewrite (fr_rc _ _ F), Hrc. unfold holders.
    cbn [s_ring s_clones s_fds s_ops s_pools set_ring].
    rewrite (fr_clones _ _ F), (fr_fds _ _ F), (fr_pools _ _ F), Ring.
    pose proof (fr_hp _ _ F) as E. unfold hp in E. rewrite E. cbn. lia.
  - apply wf_rest_split. split.
    + intros p. unfold get_pool, pool_refs, get_pool. cbn [s_pools s_bufs set_ring]. rewrite (fr_pools _ _ F), (fr_bufs _ _ F).
      apply (wf_pool _ R p).
    + apply (wf_core_ext s4); auto.
  - rewrite replay_app, Rep. cbn [replay replay1].
    assert (mapped (mon_of s4) MCq = true) as M by (cbn; rewrite (fr_ring _ _ F); exact Ring).
    rewrite M. cbn [len_of]. rewrite N.eqb_refl. cbn [andb]. reflexivity.
Qed.

Lemma drop_ring_good s : wf s -> step_good s (drop_ring s).
Proof.
  intros W. unfold drop_ring. destruct (s_ring s) eqn:Ring.
  2:{ apply step_good_refl, W. }
  pose proof (wf_alive_pos _ W (holders_pos_ring _ Ring)) as Pos.
  pose proof (wf_core_of _ W) as C.
  rewrite (surjective_pairing (enter_all s false)).
  destruct (enter_all_good s false C Pos) as [G1 Q1].
  set (s1 := fst (enter_all s false)) in *. set (l1 := snd (enter_all s false)) in *.
  assert ((0 <? s_rc s1) = true) as Pos1 by (rewrite (fr_rc _ _ (proj1 (proj2 G1))); exact Pos).
  pose proof (sync_cancel_good s1 (proj1 G1) Pos1) as G2.
  set (s2 := set_k s1 (sync_cancel (s_d s1) (s_k s1))) in *.
  assert ((0 <? s_rc s2) = true) as Pos2 by exact Pos1.
  rewrite (surjective_pairing (enter_all s2 true)).
  destruct (enter_all_good s2 true (proj1 G2) Pos2) as [G3 Q3].
  set (s3 := fst (enter_all s2 true)) in *. set (l3 := snd (enter_all s2 true)) in *.
  assert ((0 <? s_rc s3) = true) as Pos3 by (rewrite (fr_rc _ _ (proj1 (proj2 G3))); exact Pos2).
  assert (s_ring s3 = true) as Ring3.
  { rewrite (fr_ring _ _ (proj1 (proj2 G3))). change (s_ring s2) with (s_ring s1).
    rewrite (fr_ring _ _ (proj1 (proj2 G1))). exact Ring. }
  rewrite (surjective_pairing (cq_poll s3)).
  pose proof (cq_poll_good s3 (proj1 G3) Pos3 Ring3 Q3) as G4.
  set (s4 := fst (cq_poll s3)) in *. set (l4 := snd (cq_poll s3)) in *.
  rewrite (surjective_pairing (dec_shared (set_ring s4 false))).
  pose proof (seg_good_trans _ _ _ _ _ (seg_good_trans _ _ _ _ _ (seg_good_trans _ _ _ _ _ G1 G2) G3) G4) as G.
  pose proof (ring_tail_good s s4 _ W Ring G) as T.
  replace (l1 ++ [LRegister RSyncCancel] ++ l3 ++ l4 ++ [LMunmap MCq (d_len_cq (s_d s))] ++ snd (dec_shared (set_ring s4 false)))
    with ((((l1 ++ [LRegister RSyncCancel]) ++ l3) ++ l4 ++ [LMunmap MCq (d_len_cq (s_d s))]) ++ snd (dec_shared (set_ring s4 false))).
  - replace (((l1 ++ [LRegister RSyncCancel]) ++ l3) ++ l4 ++ [LMunmap MCq (d_len_cq (s_d s))])
      with ((((l1 ++ [LRegister RSyncCancel]) ++ l3) ++ l4) ++ [LMunmap MCq (d_len_cq (s_d s))]) by (rewrite <- !app_assoc; reflexivity).
    exact T.
  - rewrite <- !app_assoc. reflexivity.
Qed.

(** ** The repaired drain *)
Lemma seg_use_cq s : wf_core s -> s_ring s = true -> seg_good s s [LUse MCq].
Proof.
  intros C R. split; [exact C|]. split; [apply frame_refl|].
  rewrite replay_use by (apply mon_cq, R). reflexivity.
Qed.

Lemma drain_fixed_good fuel : forall s,
  wf_core s -> (0 <? s_rc s) = true -> s_ring s = true ->
  seg_good s (fst (drain_fixed fuel s)) (snd (drain_fixed fuel s)).
Proof.
  induction fuel as [|f IH]; intros s C Pos Ring.
  - cbn. split; [exact C|]. split; [apply frame_refl|reflexivity].
  - cbn [drain_fixed].
    rewrite (surjective_pairing (enter_all s true)).
    destruct (enter_all_good s true C Pos) as [G1 Q1].
    set (s1 := fst (enter_all s true)) in *. set (l1 := snd (enter_all s true)) in *.
    assert ((0 <? s_rc s1) = true) as Pos1 by (rewrite (fr_rc _ _ (proj1 (proj2 G1))); exact Pos).
    assert (s_ring s1 = true) as Ring1 by (rewrite (fr_ring _ _ (proj1 (proj2 G1))); exact Ring).
    rewrite (surjective_pairing (cq_poll s1)).
    pose proof (cq_poll_good s1 (proj1 G1) Pos1 Ring1 Q1) as G2.
    set (s2 := fst (cq_poll s1)) in *. set (l2 := snd (cq_poll s1)) in *.
    assert ((0 <? s_rc s2) = true) as Pos2 by (rewrite (fr_rc _ _ (proj1 (proj2 G2))); exact Pos1).
    assert (s_ring s2 = true) as Ring2 by (rewrite (fr_ring _ _ (proj1 (proj2 G2))); exact Ring1).
    pose proof (seg_use_cq s1 (proj1 G1) Ring1) as U1.
    pose proof (seg_use_cq s2 (proj1 G2) Ring2) as U2.
    pose proof (seg_good_trans _ _ _ _ _ (seg_good_trans _ _ _ _ _ (seg_good_trans _ _ _ _ _ G1 U1) G2) U2) as G.
    destruct (match k_cq (fst (poll_fetch s1)) with [] => false | _ :: _ => true end).
    + rewrite (surjective_pairing (drain_fixed f s2)). cbn [fst snd].
      pose proof (seg_good_trans _ _ _ _ _ G (IH s2 (proj1 G2) Pos2 Ring2)) as G'.
      replace (l1 ++ [LUse MCq] ++ l2 ++ [LUse MCq] ++ snd (drain_fixed f s2))
        with ((((l1 ++ [LUse MCq]) ++ l2) ++ [LUse MCq]) ++ snd (drain_fixed f s2)) by (rewrite <- !app_assoc; reflexivity).
      exact G'.
    + cbn [fst snd].
      replace (l1 ++ [LUse MCq] ++ l2 ++ [LUse MCq]) with (((l1 ++ [LUse MCq]) ++ l2) ++ [LUse MCq]) by (rewrite <- !app_assoc; reflexivity).
      exact G.
Qed.

Lemma drop_ring_fixed_good s : wf s -> step_good s (drop_ring_fixed s).
Proof.
  intros W. unfold drop_ring_fixed. destruct (s_ring s) eqn:Ring.
  2:{ apply step_good_refl, W. }
  pose proof (wf_alive_pos _ W (holders_pos_ring _ Ring)) as Pos.
  pose proof (wf_core_of _ W) as C.
  rewrite (surjective_pairing (enter_all s false)).
  destruct (enter_all_good s false C Pos) as [G1 Q1].
  set (s1 := fst (enter_all s false)) in *. set (l1 := snd (enter_all s false)) in *.
  assert ((0 <? s_rc s1) = true) as Pos1 by (rewrite (fr_rc _ _ (proj1 (proj2 G1))); exact Pos).
  pose proof (sync_cancel_good s1 (proj1 G1) Pos1) as G2.
  set (s2 := set_k s1 (sync_cancel (s_d s1) (s_k s1))) in *.
  assert ((0 <? s_rc s2) = true) as Pos2 by exact Pos1.
  assert (s_ring s2 = true) as Ring2.
  { change (s_ring s2) with (s_ring s1). rewrite (fr_ring _ _ (proj1 (proj2 G1))). exact Ring. }
  set (fuel := S (length (k_cq (s_k s2)) + length (k_ovf (s_k s2)))).
  rewrite (surjective_pairing (drain_fixed fuel s2)).
  pose proof (drain_fixed_good fuel s2 (proj1 G2) Pos2 Ring2) as G4.
  set (s4 := fst (drain_fixed fuel s2)) in *. set (l4 := snd (drain_fixed fuel s2)) in *.
  rewrite (surjective_pairing (dec_shared (set_ring s4 false))).
  pose proof (seg_good_trans _ _ _ _ _ (seg_good_trans _ _ _ _ _ G1 G2) G4) as G.
  pose proof (ring_tail_good s s4 _ W Ring G) as T.
  replace (l1 ++ [LRegister RSyncCancel] ++ l4 ++ [LMunmap MCq (d_len_cq (s_d s))] ++ snd (dec_shared (set_ring s4 false)))
    with ((((l1 ++ [LRegister RSyncCancel]) ++ l4) ++ [LMunmap MCq (d_len_cq (s_d s))]) ++ snd (dec_shared (set_ring s4 false)))
    by (rewrite <- !app_assoc; reflexivity).
  exact T.
Qed.

(** * Every step keeps the invariant and replays *)
Lemma step_with_good dr s e :
  (forall s, wf s -> step_good s (dr s)) ->
  wf s -> ev_ok s e -> step_good s (step_with dr s e).
Proof.
  intros Hdr W Ok. destruct e as [[|c|h|o|p|b]|o]; cbn [step_with].
  - apply Hdr, W.
  - apply drop_clone_good, W.
  - apply drop_fd_good; assumption.
  - apply drop_op_good, W.
  - apply drop_pool_good, W.
  - apply drop_buf_good, W.
  - apply kcomplete_good, W.
Qed.

Lemma step_good_step s e : wf s -> ev_ok s e -> step_good s (step s e).
Proof. apply step_with_good. exact drop_ring_good. Qed.
Lemma step_good_step_fixed s e : wf s -> ev_ok s e -> step_good s (step_fixed s e).
Proof. apply step_with_good. exact drop_ring_fixed_good. Qed.

Fixpoint borrows_ok (st : state -> event -> state * list lev) (s : state) (es : list event) : Prop :=
  match es with
  | [] => True
  | e :: r => ev_ok s e /\ borrows_ok st (fst (st s e)) r
  end.

Lemma run_good st :
  (forall s e, wf s -> ev_ok s e -> step_good s (st s e)) ->
  forall es s, wf s -> borrows_ok st s es -> step_good s (run st s es).
Proof.
  intros Hst. induction es as [|e es IH]; intros s W B.
  - cbn. apply step_good_refl, W.
  - cbn [run]. destruct B as [Ok B]. pose proof (Hst s e W Ok) as (W1 & R1 & D1).
    destruct (st s e) as [s1 l1] eqn:E1. cbn [fst snd] in *.
    pose proof (IH s1 W1 B) as (W2 & R2 & D2).
    destruct (run st s1 es) as [s2 l2]. unfold step_good. cbn [fst snd] in *.
    split; [exact W2|]. split; [|rewrite D2; exact D1].
    rewrite replay_app, R1, <- D1. exact R2.
Qed.

(** * Objects only ever die *)
Ltac crush :=
  repeat match goal with
  | |- context [match ?c with _ => _ end] =>
      lazymatch c with
      | context [match _ with _ => _ end] => fail
      | _ => destruct c eqn:?
      end
  end; cbn in *.

Lemma upd_mono {A} (g : A -> bool) i f l d j :
  (forall x, g (f x) = true -> g x = true) -> g (nth j (upd i f l) d) = true -> g (nth j l d) = true.
Proof.
  intros Hf. rewrite nth_upd_gen. destruct ((j =? i) && (i <? length l)) eqn:E; auto.
  apply andb_prop in E. destruct E as [E _]. apply Nat.eqb_eq in E. subst. apply Hf.
Qed.

Lemma upd_dead {A} (g : A -> bool) i f l d j :
  (forall x, g (f x) = true -> g x = true) -> g (nth j l d) = false -> g (nth j (upd i f l) d) = false.
Proof.
  intros Hf H. destruct (g (nth j (upd i f l) d)) eqn:E; auto.
  apply (upd_mono g) in E; [congruence|exact Hf].
Qed.

Ltac dead_tac :=
  repeat match goal with
  | |- nth _ (upd _ _ _) false = false =>
      apply (upd_dead (fun b : bool => b)); [intros ?; cbn; try congruence; auto|]
  | |- ?g (nth _ (upd _ _ _) _) = false =>
      apply (upd_dead g); [intros ?; cbn; try congruence; auto|]
  end; auto.

Record same_handles (s' s : state) : Prop := {
  sh_d : s_d s' = s_d s;
  sh_ring : s_ring s' = s_ring s;
  sh_clones : s_clones s' = s_clones s;
  sh_fds : s_fds s' = s_fds s;
  sh_pools : s_pools s' = s_pools s;
  sh_bufs : s_bufs s' = s_bufs s;
  sh_fut : forall o, o_fut (get_op s' o) = o_fut (get_op s o)
}.

Lemma same_handles_refl s : same_handles s s.
Proof. constructor; reflexivity. Qed.
Lemma same_handles_trans a b c : same_handles a b -> same_handles b c -> same_handles a c.
Proof. intros [] []. constructor; try congruence. all: intros o; rewrite sh_fut0; apply sh_fut1. Qed.

Lemma process_all_fut cs : forall ops o, o_fut (nth o (fst (process_all ops cs)) dead_op) = o_fut (nth o ops dead_op).
Proof.
  induction cs as [|c cs IH]; intros ops o; cbn [process_all]; [reflexivity|].
  destruct c as [o1|o1|]; cbn [process_one].
  2,3: rewrite (surjective_pairing (process_all ops cs)); cbn [fst]; apply IH.
  destruct (o_st (nth o1 ops dead_op));
    rewrite (surjective_pairing (process_all _ cs)); cbn [fst]; rewrite IH; try reflexivity;
    rewrite nth_upd_gen; destruct ((o =? o1) && (o1 <? length ops)) eqn:E; try reflexivity;
    apply andb_prop in E; destruct E as [E _]; apply Nat.eqb_eq in E; subst; reflexivity.
Qed.

Lemma enter_all_same s g : same_handles (fst (enter_all s g)) s.
Proof. constructor; reflexivity. Qed.

Lemma cq_poll_same s : same_handles (fst (cq_poll s)) s.
Proof.
  unfold cq_poll. destruct (poll_fetch s) as [k1 l1].
  pose proof (process_all_fut (k_cq k1) (s_ops s)) as F.
  destruct (process_all (s_ops s) (k_cq k1)) as [ops1 l2]. cbn [fst] in *.
  constructor; try reflexivity. intros o. unfold get_op. cbn [s_ops set_ops]. apply F.
Qed.

Lemma drain_fixed_same fuel : forall s, same_handles (fst (drain_fixed fuel s)) s.
Proof.
  induction fuel as [|f IH]; intros s; cbn [drain_fixed]; [apply same_handles_refl|].
  rewrite (surjective_pairing (enter_all s true)), (surjective_pairing (cq_poll _)).
  destruct (match k_cq _ with [] => false | _ => true end).
  - rewrite (surjective_pairing (drain_fixed f _)). cbn [fst].
    eapply same_handles_trans; [apply IH|]. eapply same_handles_trans; [apply cq_poll_same|apply enter_all_same].
  - cbn [fst]. eapply same_handles_trans; [apply cq_poll_same|apply enter_all_same].
Qed.

Lemma enter_all_sqq s g : k_sqq (s_k (fst (enter_all s g))) = [].
Proof. cbn. apply consume_all_sqq. Qed.

Lemma poll_fetch_sqq s : k_sqq (s_k s) = [] -> k_sqq (fst (poll_fetch s)) = [].
Proof. intros Q. rewrite poll_fetch_nil by exact Q. destruct (k_cq (s_k s)); [rewrite flush_sqq|]; exact Q. Qed.

Lemma cq_poll_sqq s : k_sqq (s_k s) = [] -> k_sqq (s_k (fst (cq_poll s))) = [].
Proof. intros Q. rewrite cq_poll_k. cbn [k_sqq]. apply poll_fetch_sqq, Q. Qed.

Lemma drain_fixed_sqq fuel : forall s, k_sqq (s_k s) = [] -> k_sqq (s_k (fst (drain_fixed fuel s))) = [].
Proof.
  induction fuel as [|f IH]; intros s Q; cbn [drain_fixed]; [exact Q|].
  rewrite (surjective_pairing (enter_all s true)), (surjective_pairing (cq_poll _)).
  pose proof (cq_poll_sqq _ (enter_all_sqq s true)) as Q2.
  destruct (match k_cq _ with [] => false | _ => true end).
  - rewrite (surjective_pairing (drain_fixed f _)). cbn [fst]. apply IH, Q2.
  - cbn [fst]. exact Q2.
Qed.

Inductive dead : obj -> state -> Prop :=
  | dead_ring s : s_ring s = false -> dead ORing s
  | dead_clone c s : nth c (s_clones s) false = false -> dead (OClone c) s
  | dead_fd h s : nth h (s_fds s) false = false -> dead (OFd h) s
  | dead_op_ o s : o_fut (get_op s o) = false -> dead (OOp o) s
  | dead_pool_ p s : p_handle (get_pool s p) = false -> dead (OPool p) s
  | dead_buf b s : snd (nth b (s_bufs s) (0, false)) = false -> dead (OBuf b) s.

Definition ring_drop_shape (dr : state -> state * list lev) : Prop :=
  forall s, (s_ring s = false -> dr s = (s, [])) /\
            (s_ring s = true -> exists s4, same_handles s4 s /\ fst (dr s) = fst (dec_shared (set_ring s4 false)) /\
                                           k_sqq (s_k s4) = []).

Lemma drop_ring_shape : ring_drop_shape drop_ring.
Proof.
  intros s. unfold drop_ring. split; intros R; rewrite R; [reflexivity|].
  rewrite (surjective_pairing (enter_all s false)), (surjective_pairing (enter_all _ true)), (surjective_pairing (cq_poll _)),
    (surjective_pairing (dec_shared _)). cbn [fst]. eexists. split; [|split; [reflexivity|]].
  - eapply same_handles_trans; [apply cq_poll_same|]. eapply same_handles_trans; [apply enter_all_same|].
    eapply same_handles_trans; [|apply (enter_all_same s false)]. constructor; reflexivity.
  - rewrite cq_poll_k. cbn [k_sqq]. apply poll_fetch_sqq. apply enter_all_sqq.
Qed.

Lemma drop_ring_fixed_shape : ring_drop_shape drop_ring_fixed.
Proof.
  intros s. unfold drop_ring_fixed. split; intros R; rewrite R; [reflexivity|].
  rewrite (surjective_pairing (enter_all s false)), (surjective_pairing (drain_fixed _ _)),
    (surjective_pairing (dec_shared _)). cbn [fst]. eexists. split; [|split; [reflexivity|]].
  - eapply same_handles_trans; [apply drain_fixed_same|].
    eapply same_handles_trans; [|apply (enter_all_same s false)]. constructor; reflexivity.
  - apply drain_fixed_sqq. cbn [s_k set_k]. rewrite sync_cancel_sqq. apply enter_all_sqq.
Qed.

(** Dead objects stay dead, and [Drop x] kills [x]. *)
Lemma step_dead_mono dr s e x : ring_drop_shape dr -> dead x s -> dead x (fst (step_with dr s e)).
Proof.
  intros Sh D.
  assert (forall s', same_handles s' s -> dead x (fst (dec_shared (set_ring s' false)))) as Ring.
  { intros s' [? ? ? ? ? ? ?]. destruct D; constructor.
    - reflexivity.
    - change (nth c (s_clones s') false = false). congruence.
    - change (nth h (s_fds s') false = false). congruence.
    - change (o_fut (get_op s' o) = false). rewrite sh_fut0. assumption.
    - change (p_handle (get_pool s' p) = false). unfold get_pool in *. rewrite sh_pools0. assumption.
    - change (snd (nth b (s_bufs s') (0, false)) = false). congruence. }
  destruct e as [[|c|h|o|p|b]|o]; cbn [step_with].
  - destruct (Sh s) as [S0 S1]. destruct (s_ring s) eqn:R.
    + destruct (S1 eq_refl) as (s4 & Same & -> & _). apply Ring, Same.
    + rewrite S0 by reflexivity. exact D.
  - destruct D; constructor; unfold drop_clone, dec_shared; crush; dead_tac.
  - destruct D; constructor; unfold drop_fd, sq_add, dec_shared; crush; dead_tac.
  - destruct D; constructor; unfold drop_op, sq_add, dec_shared; crush; unfold get_op in *; cbn; dead_tac.
  - destruct D; constructor; unfold drop_pool, dec_pool, dec_shared; crush; unfold get_pool in *; cbn; dead_tac.
  - destruct D; constructor; unfold drop_buf, dec_pool, dec_shared; crush; unfold get_pool in *; cbn; dead_tac.
  - destruct D; constructor; unfold kcomplete; crush; auto.
Qed.

Lemma upd_kill {A} (g : A -> bool) i f l d :
  (forall x, g (f x) = false) -> g d = false -> g (nth i (upd i f l) d) = false.
Proof.
  intros Hf Hd. rewrite nth_upd_gen. destruct ((i =? i) && (i <? length l)) eqn:E; auto.
  rewrite Nat.eqb_refl in E. cbn in E. apply Nat.ltb_ge in E. rewrite nth_overflow by lia. exact Hd.
Qed.

Lemma step_kills dr s x : ring_drop_shape dr -> dead x (fst (step_with dr s (Drop x))).
Proof.
  intros Sh. destruct x as [|c|h|o|p|b]; cbn [step_with]; constructor.
  - destruct (Sh s) as [S0 S1]. destruct (s_ring s) eqn:R.
    + destruct (S1 eq_refl) as (s4 & _ & -> & _). reflexivity.
    + rewrite S0 by reflexivity. exact R.
  - unfold drop_clone, dec_shared; crush; auto. all: apply (upd_kill (fun b : bool => b)); auto.
  - unfold drop_fd, sq_add, dec_shared; crush; auto. all: apply (upd_kill (fun b : bool => b)); auto.
  - unfold drop_op, sq_add, dec_shared; crush; auto. all: unfold get_op in *; cbn; try (apply (upd_kill o_fut); auto).
  - unfold drop_pool, dec_pool, dec_shared; crush; auto. all: unfold get_pool in *; cbn.
    all: try (apply (upd_dead p_handle); [intros ?; cbn; auto|]); apply (upd_kill p_handle); auto.
  - unfold drop_buf, dec_pool, dec_shared; crush; auto. all: try (rewrite Heqp; reflexivity).
    all: apply (upd_kill (@snd nat bool)); auto.
Qed.

Lemma run_dead_mono dr x : ring_drop_shape dr ->
  forall es s, dead x s -> dead x (fst (run (step_with dr) s es)).
Proof.
  intros Sh. induction es as [|e es IH]; intros s D; cbn [run]; [exact D|].
  pose proof (step_dead_mono dr s e x Sh D) as D1.
  destruct (step_with dr s e) as [s1 l1]. cbn [fst] in D1.
  specialize (IH s1 D1). destruct (run (step_with dr) s1 es). exact IH.
Qed.

Lemma final_dead dr x : ring_drop_shape dr ->
  forall es s, In (Drop x) es -> dead x (fst (run (step_with dr) s es)).
Proof.
  intros Sh. pose proof (run_dead_mono dr x Sh) as Mono.
  induction es as [|e es IH]; intros s HI; [destruct HI|]. destruct HI as [E|I]; cbn [run].
  - subst e. pose proof (step_kills dr s x Sh) as D1.
    destruct (step_with dr s (Drop x)) as [s1 l1]. cbn [fst] in D1.
    pose proof (Mono es s1 D1) as D2. destruct (run (step_with dr) s1 es). exact D2.
  - destruct (step_with dr s e) as [s1 l1]. specialize (IH s1 I). destruct (run (step_with dr) s1 es). exact IH.
Qed.

(** * After the ring is gone *)
(** Nothing queued and nothing posted: what the kernel still owes is what is in flight. *)
Definition kdrained (k : kern) : Prop := k_sqq k = [] /\ k_cq k = [] /\ k_ovf k = [].

(** Completions pending at the drain of [Drop for Ring]: what is in the ring and on the overflow
    list once the queued submissions have been consumed and everything in flight that can be
    cancelled was cancelled. *)
Definition drain_load (s : state) : nat :=
  let d := s_d s in
  let k2 := sync_cancel d (flush_overflow (d_cqn d) (consume_all d (s_k s))) in
  length (k_cq k2) + length (k_ovf k2).

Lemma drop_ring_kdrained s :
  s_ring s = true -> drain_load s <= d_cqn (s_d s) -> kdrained (s_k (fst (drop_ring s))).
Proof.
  intros R L. unfold drop_ring. rewrite R.
  rewrite (surjective_pairing (enter_all s false)), (surjective_pairing (enter_all _ true)), (surjective_pairing (cq_poll _)),
    (surjective_pairing (dec_shared _)). cbn [fst].
  change (s_k (fst (dec_shared (set_ring ?x false)))) with (s_k x).
  set (cqn := d_cqn (s_d s)) in *.
  set (k2 := sync_cancel (s_d s) (flush_overflow cqn (consume_all (s_d s) (s_k s)))) in *.
  set (s2 := set_k (fst (enter_all s false)) (sync_cancel (s_d (fst (enter_all s false))) (s_k (fst (enter_all s false))))).
  assert (s_k s2 = k2) as E2 by reflexivity.
  assert (k_sqq k2 = []) as Q2 by (subst k2; rewrite sync_cancel_sqq, flush_sqq; apply consume_all_sqq).
  set (s3 := fst (enter_all s2 true)).
  assert (s_k s3 = flush_overflow cqn k2) as E3.
  { subst s3. cbn [fst enter_all s_k set_k]. rewrite E2. change (d_cqn (s_d s2)) with cqn. change (s_d s2) with (s_d s).
    rewrite consume_all_nil by exact Q2. reflexivity. }
  assert (k_ovf (flush_overflow cqn k2) = []) as O3 by (apply flush_fits; unfold drain_load in L; exact L).
  rewrite cq_poll_k, poll_fetch_nil by (rewrite E3, flush_sqq; exact Q2).
  rewrite E3. change (d_cqn (s_d s3)) with cqn.
  destruct (k_cq (flush_overflow cqn k2)) eqn:C3.
  - repeat split; cbn [k_sqq k_inflight k_cq k_ovf flush_overflow]; auto.
    cbn [flush_overflow k_ovf] in O3. rewrite O3. apply skipn_nil.
  - repeat split; auto.
Qed.

Lemma drain_fixed_kdrained fuel : forall s,
  1 <= d_cqn (s_d s) -> k_sqq (s_k s) = [] ->
  length (k_cq (s_k s)) + length (k_ovf (s_k s)) < fuel ->
  kdrained (s_k (fst (drain_fixed fuel s))).
Proof.
  induction fuel as [|f IH]; intros s Hc Q L; [lia|]. cbn [drain_fixed].
  rewrite (surjective_pairing (enter_all s true)), (surjective_pairing (cq_poll _)).
  set (cqn := d_cqn (s_d s)) in *.
  set (s1 := fst (enter_all s true)).
  assert (s_k s1 = flush_overflow cqn (s_k s)) as E1.
  { subst s1. cbn [fst enter_all s_k set_k]. rewrite consume_all_nil by exact Q. reflexivity. }
  assert (k_sqq (s_k s1) = []) as Q1 by (rewrite E1; exact Q).
  pose proof (flush_lengths cqn (s_k s)) as FL. rewrite <- E1 in FL.
  rewrite (poll_fetch_nil s1 Q1). change (d_cqn (s_d s1)) with cqn.
  destruct (k_cq (s_k s1)) as [|c1 r1] eqn:C1.
  - (* nothing arrived: the last pass *)
    assert (k_cq (s_k s) = [] /\ k_ovf (s_k s) = []) as [C0 O0].
    { rewrite E1 in C1. cbn [flush_overflow k_cq] in C1. apply app_eq_nil in C1. destruct C1 as [A B].
      split; [exact A|]. rewrite A in B. cbn in B. destruct (k_ovf (s_k s)); [reflexivity|].
      destruct cqn; [lia|]. cbn in B. discriminate. }
    assert (s_k s1 = s_k s) as E1'.
    { rewrite E1. unfold flush_overflow. rewrite C0, O0. cbn. rewrite firstn_nil, skipn_nil.
      destruct (s_k s); cbn in *; subst; reflexivity. }
    assert (k_cq (flush_overflow cqn (s_k s1)) = []) as ->.
    { rewrite E1'. cbn. rewrite C0, O0. cbn. rewrite firstn_nil. reflexivity. }
    cbn [fst]. rewrite cq_poll_k, (poll_fetch_nil s1 Q1), C1. change (d_cqn (s_d s1)) with cqn.
    rewrite E1'. repeat split; cbn [k_sqq k_inflight k_cq k_ovf flush_overflow]; auto.
    rewrite O0. apply skipn_nil.
  - (* a pass that processes something *)
    rewrite C1. rewrite (surjective_pairing (drain_fixed f _)). cbn [fst].
    set (s2 := fst (cq_poll s1)).
    assert (s_k s2 = {| k_sqq := k_sqq (s_k s1); k_inflight := k_inflight (s_k s1); k_first := k_first (s_k s1);
                        k_cq := []; k_ovf := k_ovf (s_k s1) |}) as E2.
    { subst s2. rewrite cq_poll_k, (poll_fetch_nil s1 Q1), C1. reflexivity. }
    apply IH.
    + subst s2. rewrite (sh_d _ _ (cq_poll_same s1)). exact Hc.
    + rewrite E2. exact Q1.
    + rewrite E2. cbn [k_cq k_ovf length]. cbn [length] in FL. lia.
Qed.

Lemma drop_ring_fixed_kdrained s :
  s_ring s = true -> 1 <= d_cqn (s_d s) -> kdrained (s_k (fst (drop_ring_fixed s))).
Proof.
  intros R Hc. unfold drop_ring_fixed. rewrite R.
  rewrite (surjective_pairing (enter_all s false)), (surjective_pairing (drain_fixed _ _)), (surjective_pairing (dec_shared _)).
  cbn [fst]. change (s_k (fst (dec_shared (set_ring ?x false)))) with (s_k x).
  apply drain_fixed_kdrained.
  - exact Hc.
  - cbn [s_k set_k]. rewrite sync_cancel_sqq. apply enter_all_sqq.
  - lia.
Qed.

(** Operation [o] waits for nothing. *)
Definition quiet_op (s : state) (o : nat) : Prop := expect (get_op s o) = 0.

Lemma kdrained_quiet s o :
  wf s -> kdrained (s_k s) -> mem_nat o (k_inflight (s_k s)) = false -> quiet_op s o.
Proof.
  intros [_ R] (A & C & D) M. unfold quiet_op. rewrite <- (wf_owed _ R o). unfold owedk. rewrite A, C, D.
  rewrite mem_nat_count in M. apply Nat.ltb_ge in M. cbn. lia.
Qed.

Ltac crush_k :=
  repeat match goal with
  | |- context [match ?c with _ => _ end] =>
      lazymatch c with
      | context [match _ with _ => _ end] => fail
      | _ => destruct c eqn:?
      end
  end; cbn -[owedk count_close] in *.

Lemma step_owed dr s e o :
  (forall s, s_ring s = false -> dr s = (s, [])) -> s_ring s = false ->
  owedk (s_k (fst (step_with dr s e))) o = owedk (s_k s) o.
Proof.
  intros Sh R. destruct e as [[|c|h|o1|p|b]|o1]; cbn [step_with].
  - rewrite Sh by exact R. reflexivity.
  - unfold drop_clone, dec_shared; crush; reflexivity.
  - unfold drop_fd, sq_add, dec_shared; crush_k; try reflexivity.
    all: unfold owedk; cbn [k_sqq k_inflight k_cq k_ovf]; rewrite count_sop_snoc; cbn [is_sop b2n]; lia.
  - unfold drop_op, sq_add, dec_shared; crush_k; try reflexivity.
    all: unfold owedk; cbn [k_sqq k_inflight k_cq k_ovf]; rewrite count_sop_snoc; cbn [is_sop b2n]; lia.
  - unfold drop_pool, dec_pool, dec_shared; crush; reflexivity.
  - unfold drop_buf, dec_pool, dec_shared; crush; reflexivity.
  - unfold kcomplete. destruct (mem_nat o1 (k_inflight (s_k s))) eqn:M; [|reflexivity].
    destruct (mem_nat o1 (k_first (s_k s))); cbn [fst s_k set_k]; rewrite post_owed;
      unfold owedk; cbn [k_sqq k_inflight k_cq k_ovf is_cop b2n]; [lia|].
    destruct (Nat.eqb_spec o1 o) as [<-|Hne]; cbn [b2n].
    + pose proof (count_remove_same o1 _ M). lia.
    + rewrite (count_remove_other o1 o) by auto. lia.
Qed.

Lemma quiet_step dr s e o :
  ring_drop_shape dr -> (forall s, wf s -> step_good s (dr s)) ->
  wf s -> ev_ok s e -> s_ring s = false -> quiet_op s o ->
  s_ring (fst (step_with dr s e)) = false /\ quiet_op (fst (step_with dr s e)) o.
Proof.
  intros Sh Hdr W Ok R Q.
  pose proof (step_with_good dr s e Hdr W Ok) as ([_ R'] & _ & _).
  split.
  - pose proof (step_dead_mono dr s e ORing Sh (dead_ring s R)) as D. inversion D. assumption.
  - unfold quiet_op. rewrite <- (wf_owed _ R' o). rewrite step_owed; [|intros s0 R0; apply (proj1 (Sh s0) R0)|exact R].
    destruct W as [_ RW]. rewrite (wf_owed _ RW o). apply Q.
Qed.

Lemma quiet_run dr o :
  ring_drop_shape dr -> (forall s, wf s -> step_good s (dr s)) ->
  forall es s, wf s -> borrows_ok (step_with dr) s es -> s_ring s = false -> quiet_op s o ->
    quiet_op (fst (run (step_with dr) s es)) o.
Proof.
  intros Sh Hdr. induction es as [|e es IH]; intros s W B R Q; cbn [run]; [exact Q|].
  destruct B as [Ok B]. pose proof (quiet_step dr s e o Sh Hdr W Ok R Q) as [R1 Q1].
  pose proof (step_with_good dr s e Hdr W Ok) as (W1 & _ & _).
  destruct (step_with dr s e) as [s1 l1]. cbn [fst] in *.
  specialize (IH s1 W1 B R1 Q1). destruct (run (step_with dr) s1 es). exact IH.
Qed.

(** * The named classes *)
(** H13: [AsyncFd] h is dropped (for real: it is live) at a moment when the [Ring] is gone. *)
Definition fd_dropped_after_ring (st : state -> event -> state * list lev) (s : state) (es : list event) (h : nat) : Prop :=
  exists pre post, es = pre ++ Drop (OFd h) :: post /\
    s_ring (fst (run st s pre)) = false /\ nth h (s_fds (fst (run st s pre))) false = true.

(** H14: when the live [Ring] is dropped, more completions are pending at its single drain than
    the completion queue holds. *)
Definition abandoned_ops_beyond_cq_capacity (s : state) (es : list event) : Prop :=
  exists pre post, es = pre ++ Drop ORing :: post /\
    s_ring (fst (run step s pre)) = true /\
    d_cqn (s_d (fst (run step s pre))) < drain_load (fst (run step s pre)).

(** H28: operation [o] is still in flight after the [Ring] was dropped — the request survived
    the blanket cancellation (the kernel does not cancel it: REGISTER_SYNC_CANCEL timed out), or
    it is a two-step request whose notification is outstanding. Nobody processes its completion
    any more: its state (and the buffer in it) is never released. *)
Definition op_in_flight_after_ring_drop (st : state -> event -> state * list lev) (s : state) (es : list event) (o : nat) : Prop :=
  exists pre post, es = pre ++ Drop ORing :: post /\
    s_ring (fst (run st s pre)) = true /\
    mem_nat o (k_inflight (s_k (fst (st (fst (run st s pre)) (Drop ORing))))) = true.

Definition not_leaked (h : nat) (s : state) : Prop := s_ring s = true \/ count_close h (k_sqq (s_k s)) = 0.

Lemma step_ring_same dr s e : e <> Drop ORing -> s_ring (fst (step_with dr s e)) = s_ring s.
Proof.
  intros Hne. destruct e as [[|c|h|o|p|b]|o]; cbn [step_with]; try congruence.
  - unfold drop_clone, dec_shared; crush; reflexivity.
  - unfold drop_fd, sq_add, dec_shared; crush; reflexivity.
  - unfold drop_op, sq_add, dec_shared; crush; reflexivity.
  - unfold drop_pool, dec_pool, dec_shared; crush; reflexivity.
  - unfold drop_buf, dec_pool, dec_shared; crush; reflexivity.
  - unfold kcomplete; crush; reflexivity.
Qed.

Lemma step_leak dr s e h :
  ring_drop_shape dr -> not_leaked h s ->
  not_leaked h (fst (step_with dr s e)) \/
  (e = Drop (OFd h) /\ s_ring s = false /\ nth h (s_fds s) false = true).
Proof.
  intros Sh NL. unfold not_leaked in *.
  destruct e as [[|c|h1|o|p|b]|o]; cbn [step_with].
  - left. destruct (Sh s) as [S0 S1]. destruct (s_ring s) eqn:R.
    + destruct (S1 eq_refl) as (s4 & _ & -> & Q). right. change (k_sqq (s_k (fst (dec_shared (set_ring s4 false))))) with (k_sqq (s_k s4)).
      rewrite Q. reflexivity.
    + rewrite S0 by reflexivity. cbn [fst]. destruct NL; [congruence|]. right. assumption.
  - left. unfold drop_clone, dec_shared; crush_k; assumption.
  - destruct (s_ring s) eqn:R.
    + left. left. change (drop_fd s h1) with (step_with dr s (Drop (OFd h1))). rewrite step_ring_same by congruence. exact R.
    + destruct NL as [NL|NL]; [congruence|].
      destruct (Nat.eqb_spec h1 h) as [->|Hne].
      * destruct (nth h (s_fds s) false) eqn:L; [right; auto|].
        left. right. unfold drop_fd. rewrite L. exact NL.
      * left. right. unfold drop_fd, sq_add, dec_shared; crush_k; try assumption.
        all: rewrite count_close_snoc; cbn [is_close]; destruct (Nat.eqb_spec h1 h); [congruence|]; cbn; lia.
  - left. destruct NL as [NL|NL].
    + left. change (drop_op s o) with (step_with dr s (Drop (OOp o))). rewrite step_ring_same by congruence. exact NL.
    + right. unfold drop_op, sq_add, dec_shared; crush_k; try assumption.
      all: rewrite count_close_snoc; cbn [is_close b2n]; lia.
  - left. unfold drop_pool, dec_pool, dec_shared; crush_k; assumption.
  - left. unfold drop_buf, dec_pool, dec_shared; crush_k; assumption.
  - left. unfold kcomplete. destruct (mem_nat _ _); [|exact NL].
    destruct (mem_nat _ _); cbn [fst s_ring s_k set_k]; rewrite post_sqq; exact NL.
Qed.

Lemma run_cons {S E O} (stp : S -> E -> S * list O) s e es :
  fst (run stp s (e :: es)) = fst (run stp (fst (stp s e)) es).
Proof. cbn [run]. destruct (stp s e) as [s1 l1]. cbn [fst]. destruct (run stp s1 es). reflexivity. Qed.

Lemma run_leak dr h : ring_drop_shape dr ->
  forall es s, not_leaked h s ->
  not_leaked h (fst (run (step_with dr) s es)) \/ fd_dropped_after_ring (step_with dr) s es h.
Proof.
  intros Sh. induction es as [|e es IH]; intros s NL; [left; exact NL|].
  destruct (step_leak dr s e h Sh NL) as [NL1|(-> & R & L)].
  - destruct (IH _ NL1) as [F|(pre & post & -> & R & L)].
    + left. rewrite run_cons. exact F.
    + right. exists (e :: pre), post. split; [reflexivity|]. rewrite run_cons. split; assumption.
  - right. exists [], es. split; [reflexivity|]. split; assumption.
Qed.

Lemma event_eq_ring e : {e = Drop ORing} + {e <> Drop ORing}.
Proof. destruct e as [[| | | | |]|]; try (right; discriminate). left. reflexivity. Qed.

(** Outside H14 and H28, the ring's drop leaves nothing owed for [o], and that stays so. *)
Lemma run_quiet_step o : forall es s,
  wf s -> borrows_ok step s es -> s_ring s = true -> In (Drop ORing) es ->
  quiet_op (fst (run step s es)) o \/ abandoned_ops_beyond_cq_capacity s es \/ op_in_flight_after_ring_drop step s es o.
Proof.
  induction es as [|e es IH]; intros s W B R HI; [destruct HI|].
  destruct B as [Ok B]. pose proof (step_good_step s e W Ok) as (W1 & _ & _).
  destruct (event_eq_ring e) as [->|Hne].
  - destruct (Nat.le_gt_cases (drain_load s) (d_cqn (s_d s))) as [Fit|Over].
    + destruct (mem_nat o (k_inflight (s_k (fst (step s (Drop ORing)))))) eqn:M.
      * right. right. exists [], es. split; [reflexivity|]. split; [exact R|exact M].
      * left. rewrite run_cons. apply (quiet_run drop_ring o drop_ring_shape drop_ring_good); auto.
        -- pose proof (step_kills drop_ring s ORing drop_ring_shape) as D. inversion D. assumption.
        -- apply kdrained_quiet; auto. apply drop_ring_kdrained; assumption.
    + right. left. exists [], es. split; [reflexivity|]. split; [exact R|exact Over].
  - destruct HI as [E|HI]; [congruence|].
    assert (s_ring (fst (step s e)) = true) as R1 by (unfold step; rewrite step_ring_same by exact Hne; exact R).
    destruct (IH _ W1 B R1 HI) as [Q|[(pre & post & -> & R2 & L)|(pre & post & -> & R2 & L)]].
    + left. rewrite run_cons. exact Q.
    + right. left. exists (e :: pre), post. split; [reflexivity|]. rewrite run_cons. split; assumption.
    + right. right. exists (e :: pre), post. split; [reflexivity|]. rewrite run_cons. split; assumption.
Qed.

(** * Everything dropped *)
(** Every live object of [s] is dropped somewhere in [es]. *)
Definition covers (s : state) (es : list event) : Prop :=
  (s_ring s = true -> In (Drop ORing) es) /\
  (forall c, nth c (s_clones s) false = true -> In (Drop (OClone c)) es) /\
  (forall h, nth h (s_fds s) false = true -> In (Drop (OFd h)) es) /\
  (forall o, o_fut (get_op s o) = true -> In (Drop (OOp o)) es) /\
  (forall p, p_handle (get_pool s p) = true -> In (Drop (OPool p)) es) /\
  (forall b, snd (nth b (s_bufs s) (0, false)) = true -> In (Drop (OBuf b)) es).

Lemma all_dead dr s es : ring_drop_shape dr -> covers s es -> forall x, dead x (fst (run (step_with dr) s es)).
Proof.
  intros Sh (C1 & C2 & C3 & C4 & C5 & C6) x.
  destruct x as [|c|h|o|p|b].
  - destruct (s_ring s) eqn:L; [apply final_dead; auto|apply run_dead_mono; auto; constructor; exact L].
  - destruct (nth c (s_clones s) false) eqn:L; [apply final_dead; auto|apply run_dead_mono; auto; constructor; exact L].
  - destruct (nth h (s_fds s) false) eqn:L; [apply final_dead; auto|apply run_dead_mono; auto; constructor; exact L].
  - destruct (o_fut (get_op s o)) eqn:L; [apply final_dead; auto|apply run_dead_mono; auto; constructor; exact L].
  - destruct (p_handle (get_pool s p)) eqn:L; [apply final_dead; auto|apply run_dead_mono; auto; constructor; exact L].
  - destruct (snd (nth b (s_bufs s) (0, false))) eqn:L; [apply final_dead; auto|apply run_dead_mono; auto; constructor; exact L].
Qed.

Lemma count_if_none {A} (P : A -> bool) l d : (forall i, P (nth i l d) = false) -> count_if P l = 0.
Proof.
  induction l as [|x l IH]; intros H; [reflexivity|].
  rewrite count_if_cons. pose proof (H 0) as H0. cbn [nth] in H0. rewrite H0. cbn. apply IH. intros i. apply (H (S i)).
Qed.

Lemma all_dead_released s :
  wf s -> (forall x, dead x s) -> s_rc s = 0 /\ forall p, p_rc (get_pool s p) = 0.
Proof.
  intros [Hrc R] D.
  assert (forall p, p_rc (get_pool s p) = 0) as P.
  { intros p. rewrite (wf_pool _ R p). unfold pool_refs.
    pose proof (D (OPool p)) as Dp. inversion Dp; subst. rewrite H0. cbn [b2n Nat.add].
    apply count_if_none with (d := (0, false)). intros b. pose proof (D (OBuf b)) as Db. inversion Db; subst.
    rewrite H1. apply andb_false_r. }
  split; [|exact P]. rewrite Hrc. unfold holders.
  pose proof (D ORing) as Dr. inversion Dr; subst. rewrite H. cbn [b2n].
  rewrite (count_if_none id (s_clones s) false), (count_if_none id (s_fds s) false),
    (count_if_none (fun x => o_fut x && owns x) (s_ops s) dead_op), (count_if_none (fun p => 0 <? p_rc p) (s_pools s) dead_pool).
  - reflexivity.
  - intros p. fold (get_pool s p). rewrite P. reflexivity.
  - intros o. fold (get_op s o). pose proof (D (OOp o)) as Do. inversion Do; subst. rewrite H1. reflexivity.
  - intros h. pose proof (D (OFd h)) as Dh. inversion Dh; subst. exact H1.
  - intros c. pose proof (D (OClone c)) as Dc. inversion Dc; subst. exact H1.
Qed.

(** What is left when everything is gone, in terms of the final state. *)
Lemma final_state_facts s :
  wf s -> (forall x, dead x s) ->
  let m := mon_of s in
  m_sq m = false /\ m_sqes m = false /\ m_cq m = false /\ m_fd m = false /\
  (forall p, nth p (m_reg m) false = false /\ nth p (m_pring m) false = false /\ nth p (m_pbufs m) false = false) /\
  (forall o, nth o (m_box m) false = true -> ~ quiet_op s o) /\
  (forall h, nth h (m_desc m) false = true -> ~ not_leaked h s).
Proof.
  intros W D. pose proof (all_dead_released s W D) as [Z P]. destruct W as [Hrc R]. cbn zeta.
  pose proof (D ORing) as Dr. inversion Dr; subst.
  unfold mon_of. cbn [m_sq m_sqes m_cq m_fd m_box m_reg m_pring m_pbufs m_desc]. rewrite Z.
  repeat split; auto.
  - rewrite nth_poolflag. fold (get_pool s p). rewrite P. reflexivity.
  - rewrite nth_poolflag. fold (get_pool s p). rewrite P. reflexivity.
  - rewrite nth_poolflag. fold (get_pool s p). rewrite P. reflexivity.
  - intros o Bx Q. rewrite nth_box in Bx. fold (get_op s o) in Bx.
    pose proof (D (OOp o)) as Do. inversion Do; subst.
    destruct (wf_op _ R o) as [_ B]. destruct (B H1) as [_ B']. specialize (B' Bx).
    unfold quiet_op, expect in Q. rewrite B', Bx in Q. discriminate.
  - intros h Dh [NL|NL]; [congruence|].
    rewrite desc_of_nth in Dh by apply (wf_close_range _ R).
    pose proof (D (OFd h)) as Df. inversion Df; subst. rewrite H1, NL in Dh. discriminate.
Qed.

(** * The theorems *)
(** Memory safety, for any object population in any state satisfying the invariant and any order
    of drops the borrow checker accepts (with kernel completions anywhere, also after the [Ring]
    is gone): the log replays against the resource monitor. By the definition of [replay] that
    means: no access to a mapping after its munmap, each munmap with the mapping's own length and
    at most once, no system call on the ring descriptor after its close, the close after the
    three munmaps, no allocation freed twice or used after its free, pool memory freed only after
    the unregistration, no descriptor closed twice, AND — without any exclusion, operations that
    survive the blanket cancellation and two-step operations included — the completion handler
    only ever touches an allocated operation state, and no operation state is released while a
    request of that operation is in flight or its final completion is still to be processed. *)
Definition teardown_memory_safe : Prop :=
  forall s es, wf s -> borrows_ok step s es ->
    exists m, replay (s_d s) (mon_of s) (snd (run step s es)) = Some m.

Theorem teardown_memory_safe_holds : teardown_memory_safe.
Proof.
  intros s es W B. destruct (run_good step step_good_step es s W B) as (_ & R & _).
  eexists. exact R.
Qed.

(** The same for the code as it is (the repaired drain). *)
Definition teardown_memory_safe_fixed : Prop :=
  forall s es, wf s -> borrows_ok step_fixed s es ->
    exists m, replay (s_d s) (mon_of s) (snd (run step_fixed s es)) = Some m.

Theorem teardown_memory_safe_fixed_holds : teardown_memory_safe_fixed.
Proof.
  intros s es W B. destruct (run_good step_fixed step_good_step_fixed es s W B) as (_ & R & _).
  eexists. exact R.
Qed.

(** Release, when in addition every live object is dropped: afterwards nothing is mapped, the
    ring descriptor is closed, no pool is registered or allocated, and what remains is named:
    a live operation state implies H14 or H28 (that very operation was still in flight after the
    Ring was dropped), an open [AsyncFd] descriptor implies H13. Together with the replay ("at
    most once") this is "exactly once" for everything that was held. *)
Definition teardown_releases_everything : Prop :=
  forall s es, wf s -> s_ring s = true -> borrows_ok step s es -> covers s es ->
    exists m, replay (s_d s) (mon_of s) (snd (run step s es)) = Some m /\
      m_sq m = false /\ m_sqes m = false /\ m_cq m = false /\ m_fd m = false /\
      (forall p, nth p (m_reg m) false = false /\ nth p (m_pring m) false = false /\ nth p (m_pbufs m) false = false) /\
      (forall o, nth o (m_box m) false = true ->
         abandoned_ops_beyond_cq_capacity s es \/ op_in_flight_after_ring_drop step s es o) /\
      (forall h, nth h (m_desc m) false = true -> fd_dropped_after_ring step s es h).

Theorem teardown_releases_everything_holds : teardown_releases_everything.
Proof.
  intros s es W Ring B Cov.
  destruct (run_good step step_good_step es s W B) as (Wf & R & _).
  pose proof (all_dead drop_ring s es drop_ring_shape Cov) as D. fold step in D.
  pose proof (final_state_facts _ Wf D) as (A1 & A2 & A3 & A4 & A5 & A6 & A7).
  exists (mon_of (fst (run step s es))). repeat split; auto; try apply A5.
  - intros o Bx. destruct (run_quiet_step o es s W B Ring (proj1 Cov Ring)) as [Q|C]; [|exact C].
    exfalso. exact (A6 o Bx Q).
  - intros h Dh. destruct (run_leak drop_ring h drop_ring_shape es s (or_introl Ring)) as [NL|C]; [|exact C].
    exfalso. exact (A7 h Dh NL).
Qed.

(** The repaired drain ([drop_ring_fixed], the code as it is): no exception for the size of the
    completion queue; what remains is H28 and H13. *)
Definition teardown_releases_everything_fixed : Prop :=
  forall s es, wf s -> s_ring s = true -> 1 <= d_cqn (s_d s) -> borrows_ok step_fixed s es -> covers s es ->
    exists m, replay (s_d s) (mon_of s) (snd (run step_fixed s es)) = Some m /\
      m_sq m = false /\ m_sqes m = false /\ m_cq m = false /\ m_fd m = false /\
      (forall p, nth p (m_reg m) false = false /\ nth p (m_pring m) false = false /\ nth p (m_pbufs m) false = false) /\
      (forall o, nth o (m_box m) false = true -> op_in_flight_after_ring_drop step_fixed s es o) /\
      (forall h, nth h (m_desc m) false = true -> fd_dropped_after_ring step_fixed s es h).

Lemma run_quiet_fixed o : forall es s,
  wf s -> borrows_ok step_fixed s es -> s_ring s = true -> 1 <= d_cqn (s_d s) -> In (Drop ORing) es ->
  quiet_op (fst (run step_fixed s es)) o \/ op_in_flight_after_ring_drop step_fixed s es o.
Proof.
  induction es as [|e es IH]; intros s W B R Hc HI; [destruct HI|].
  destruct B as [Ok B]. pose proof (step_good_step_fixed s e W Ok) as (W1 & _ & D1).
  destruct (event_eq_ring e) as [->|Hne].
  - destruct (mem_nat o (k_inflight (s_k (fst (step_fixed s (Drop ORing)))))) eqn:M.
    + right. exists [], es. split; [reflexivity|]. split; [exact R|exact M].
    + left. rewrite run_cons. apply (quiet_run drop_ring_fixed o drop_ring_fixed_shape drop_ring_fixed_good); auto.
      * pose proof (step_kills drop_ring_fixed s ORing drop_ring_fixed_shape) as D. inversion D. assumption.
      * apply kdrained_quiet; auto. apply drop_ring_fixed_kdrained; assumption.
  - destruct HI as [E|HI]; [congruence|].
    destruct (IH (fst (step_fixed s e)) W1 B) as [Q|(pre & post & -> & R2 & L)]; auto.
    + unfold step_fixed. rewrite step_ring_same by exact Hne. exact R.
    + rewrite D1. exact Hc.
    + left. rewrite run_cons. exact Q.
    + right. exists (e :: pre), post. split; [reflexivity|]. rewrite run_cons. split; assumption.
Qed.

Theorem teardown_releases_everything_fixed_holds : teardown_releases_everything_fixed.
Proof.
  intros s es W Ring Hc B Cov.
  destruct (run_good step_fixed step_good_step_fixed es s W B) as (Wf & R & _).
  pose proof (all_dead drop_ring_fixed s es drop_ring_fixed_shape Cov) as D. fold step_fixed in D.
  pose proof (final_state_facts _ Wf D) as (A1 & A2 & A3 & A4 & A5 & A6 & A7).
  exists (mon_of (fst (run step_fixed s es))). repeat split; auto; try apply A5.
  - intros o Bx. destruct (run_quiet_fixed o es s W B Ring Hc (proj1 Cov Ring)) as [Q|C]; [|exact C].
    exfalso. exact (A6 o Bx Q).
  - intros h Dh. destruct (run_leak drop_ring_fixed h drop_ring_fixed_shape es s (or_introl Ring)) as [NL|C]; [|exact C].
    exfalso. exact (A7 h Dh NL).
Qed.

(** * Every population starts in a state satisfying the invariant *)
Definition pop_ok (pp : population) : Prop :=
  Forall (fun x : option nat * ist => match fst x with Some h => h < pp_fds pp | None => True end) (pp_ops pp) /\
  Forall (fun p => p < pp_pools pp) (pp_bufs pp).

Lemma count_if_repeat_true n : count_if id (repeat true n) = n.
Proof. induction n as [|n IH]; [reflexivity|]. cbn [repeat]. rewrite count_if_cons, IH. reflexivity. Qed.

Lemma count_if_map {A B} (P : B -> bool) (f : A -> B) l : count_if P (map f l) = count_if (fun x => P (f x)) l.
Proof. induction l as [|x l IH]; [reflexivity|]. cbn [map]. rewrite !count_if_cons, IH. reflexivity. Qed.

Lemma count_if_ext {A} (P Q : A -> bool) l : (forall x, P x = Q x) -> count_if P l = count_if Q l.
Proof. intros H. induction l as [|x l IH]; [reflexivity|]. rewrite !count_if_cons, IH, H. reflexivity. Qed.

Lemma count_if_all {A} (P : A -> bool) l : (forall x, P x = true) -> count_if P l = length l.
Proof. intros H. induction l as [|x l IH]; [reflexivity|]. rewrite count_if_cons, IH, H. reflexivity. Qed.

Lemma nth_map_lt {A B} (f : A -> B) l i d d0 : i < length l -> nth i (map f l) d = f (nth i l d0).
Proof. intros H. rewrite (nth_indep _ d (f d0)) by (rewrite map_length; exact H). apply map_nth. Qed.

Lemma nth_repeat_true n i : nth i (repeat true n) false = (i <? n).
Proof.
  revert i; induction n as [|n IH]; intros [|i]; cbn [repeat nth]; auto.
  rewrite IH. reflexivity.
Qed.

Lemma count_in_indices {A} (f : A -> bool) d : f d = false ->
  forall l i o, count_in o (indices_where f l i) = if i <=? o then b2n (f (nth (o - i) l d)) else 0.
Proof.
  intros Hd. induction l as [|x l IH]; intros i o; cbn [indices_where].
  - destruct (o - i); cbn; rewrite Hd; destruct (i <=? o); reflexivity.
  - assert (count_in o (indices_where f l (S i)) = if S i <=? o then b2n (f (nth (o - S i) l d)) else 0) as E by apply IH.
    destruct (Nat.leb_spec i o) as [Hle|Hgt].
    + destruct (Nat.eqb_spec i o) as [<-|Hne].
      * rewrite Nat.sub_diag. cbn [nth]. destruct (Nat.leb_spec (S i) i); [lia|].
        destruct (f x); [unfold count_in; rewrite count_if_cons; fold (count_in i (indices_where f l (S i)));
                         rewrite E, Nat.eqb_refl; reflexivity|rewrite E; reflexivity].
      * destruct (Nat.leb_spec (S i) o); [|lia].
        replace (o - i) with (S (o - S i)) by lia. cbn [nth].
        destruct (f x); [unfold count_in; rewrite count_if_cons; fold (count_in o (indices_where f l (S i)));
                         rewrite E; destruct (Nat.eqb_spec i o); [congruence|reflexivity]|exact E].
    + destruct (Nat.leb_spec (S i) o); [lia|].
      destruct (f x); [unfold count_in; rewrite count_if_cons; fold (count_in o (indices_where f l (S i)));
                       rewrite E; destruct (Nat.eqb_spec i o); [lia|reflexivity]|exact E].
Qed.

Lemma count_sop_map o l : count_sop o (map SOp l) = count_in o l.
Proof. unfold count_sop, count_in. rewrite count_if_map. reflexivity. Qed.

Lemma count_close_map_sop h l : count_close h (map SOp l) = 0.
Proof. unfold count_close. rewrite count_if_map. apply count_if_none with (d := 0). reflexivity. Qed.

Lemma init_wf pp : pop_ok pp -> wf (init pp).
Proof.
  intros [Hops Hbufs]. set (d0 := (@None nat, INotStarted)).
  set (mk := fun x : option nat * ist => {| o_on := fst x; o_fut := fut_of (snd x); o_st := st_of (snd x); o_box := box_of (snd x) |}).
  assert (forall o, get_op (init pp) o = if o <? length (pp_ops pp) then mk (nth o (pp_ops pp) d0) else dead_op) as G.
  { intros o. unfold get_op, init. cbn [s_ops]. destruct (Nat.ltb_spec o (length (pp_ops pp))).
    - apply nth_map_lt. assumption.
    - apply nth_overflow. rewrite map_length. assumption. }
  split.
  - unfold init, holders. cbn [s_rc s_ring s_clones s_fds s_ops s_pools b2n].
    rewrite !count_if_repeat_true, !count_if_map.
    rewrite (count_if_ext _ owns_sq) by (intros [[h|] i]; cbn; rewrite ?andb_false_r, ?andb_true_r; reflexivity).
    rewrite (count_if_all (fun x => 0 <? p_rc _)) by reflexivity. rewrite seq_length. unfold count_if. lia.
  - constructor.
    + intros p. unfold pool_refs, get_pool, init. cbn [s_pools s_bufs].
      rewrite count_if_map. cbn [fst snd]. rewrite (count_if_ext _ (fun q => q =? p)) by (intros q; apply andb_true_r).
      destruct (Nat.ltb_spec p (pp_pools pp)) as [Hlt|Hge].
      * rewrite (nth_map_lt _ _ _ _ 0) by (rewrite seq_length; exact Hlt). rewrite seq_nth by exact Hlt. cbn [p_rc p_handle b2n Nat.add].
        unfold count_nat, count_if. f_equal. f_equal. apply filter_ext. intros q. apply Nat.eqb_sym.
      * rewrite nth_overflow by (rewrite map_length, seq_length; exact Hge). cbn [p_rc p_handle dead_pool b2n Nat.add].
        symmetry. apply count_if_none with (d := S p). intros i.
        destruct (Nat.lt_ge_cases i (length (pp_bufs pp))) as [Hi|Hi].
        -- rewrite Forall_forall in Hbufs. specialize (Hbufs (nth i (pp_bufs pp) (S p)) (nth_In _ _ Hi)).
           cbn beta in Hbufs. apply Nat.eqb_neq. clear - Hbufs Hge. lia.
        -- rewrite nth_overflow by exact Hi. apply Nat.eqb_neq. clear - Hge. lia.
    + intros o h. rewrite G. destruct (Nat.ltb_spec o (length (pp_ops pp))) as [Hlt|]; [|discriminate].
      intros _ On. cbn [mk o_on] in On. unfold init. cbn [s_fds]. rewrite nth_repeat_true. apply Nat.ltb_lt.
      rewrite Forall_forall in Hops. specialize (Hops _ (nth_In _ d0 Hlt)). cbn beta in Hops. rewrite On in Hops. exact Hops.
    + intros o. rewrite G. unfold owedk, init. cbn [s_k k_sqq k_inflight k_cq k_ovf].
      rewrite count_sop_map, !(count_in_indices _ d0) by reflexivity. cbn [Nat.leb]. rewrite Nat.sub_0_r.
      change (count_cop o []) with 0.
      destruct (Nat.ltb_spec o (length (pp_ops pp))) as [Hlt|Hge].
      * unfold expect, mk. cbn [o_st o_box]. destruct (nth o (pp_ops pp) d0) as [on [| | | | | | |]]; reflexivity.
      * rewrite nth_overflow by exact Hge. reflexivity.
    + intros o. rewrite G. destruct (_ <? _).
      * unfold mk, op_ok. cbn [o_fut o_st o_box]. destruct (snd (nth o (pp_ops pp) d0)); cbn;
          (split; [intros F; first [discriminate F|split; [reflexivity|discriminate]]
                  |intros F; first [discriminate F|split; [discriminate|intros; first [reflexivity|discriminate]]]]).
      * split; cbn; [discriminate|]. intros _. split; discriminate.
    + intros h. unfold init. cbn [s_k k_sqq s_fds]. rewrite count_close_map_sop. destruct (nth h _ false); cbn; lia.
    + intros h. unfold init. cbn [s_k k_sqq]. rewrite count_close_map_sop. lia.
    + exact I.
Qed.

(** * What a successful replay says, in plain terms *)
Inductive res :=
  | RMap (x : mapping) | RFd | RBox (o : nat) | RReg (p : nat) | RPring (p : nat) | RPbufs (p : nat) | RDesc (h : nat).

Definition mapping_eqb (x y : mapping) : bool :=
  match x, y with MSq, MSq | MSqes, MSqes | MCq, MCq => true | _, _ => false end.

Definition held (m : mon) (r : res) : bool :=
  match r with
  | RMap x => mapped m x
  | RFd => m_fd m
  | RBox o => nth o (m_box m) false
  | RReg p => nth p (m_reg m) false
  | RPring p => nth p (m_pring m) false
  | RPbufs p => nth p (m_pbufs m) false
  | RDesc h => nth h (m_desc m) false
  end.

(** The event gives the resource up. *)
Definition releases (e : lev) (r : res) : bool :=
  match e, r with
  | LMunmap x _, RMap y => mapping_eqb x y
  | LCloseRing, RFd => true
  | LFree (ABox o), RBox o' => o' =? o
  | LFree (APoolRing p), RPring p' => p' =? p
  | LFree (APoolBufs p), RPbufs p' => p' =? p
  | LRegister (RUnregPbuf p), RReg p' => p' =? p
  | LConsumed (SClose h), RDesc h' => h' =? h
  | LSysClose h, RDesc h' => h' =? h
  | _, _ => false
  end.

(** The event touches the resource (an access, a system call on the descriptor, or its release). *)
Definition uses (e : lev) (r : res) : bool :=
  releases e r ||
  match e, r with
  | LUse x, RMap y => mapping_eqb x y
  | LEnter _ _, RFd => true
  | LRegister _, RFd => true
  | LUsePool p, RPring p' => p' =? p
  | LUsePool p, RPbufs p' => p' =? p
  | LProcess o _, RBox o' => o' =? o
  | _, _ => false
  end.

(** The event may only happen once the resource is gone (close after the munmaps; pool memory
    freed after the unregistration). *)
Definition needs_released (e : lev) (r : res) : bool :=
  match e, r with
  | LCloseRing, RMap _ => true
  | LFree (APoolRing p), RReg p' => p' =? p
  | LFree (APoolBufs p), RReg p' => p' =? p
  | _, _ => false
  end.

Lemma replay1_sound d m e m' r :
  replay1 d m e = Some m' ->
  (uses e r = true -> held m r = true) /\
  (needs_released e r = true -> held m r = false) /\
  held m' r = held m r && negb (releases e r).
Proof.
  intros H.
  destruct e as [x|n g|[h|o|o]|[|p]|x len| |h|p|o [|]|[o|p|p]]; cbn [replay1] in H;
    repeat match type of H with
    | (if ?c then _ else _) = Some _ => destruct c eqn:?; [|discriminate]
    end;
    inversion H; subst; clear H;
    unfold set_desc, set_box, set_reg, set_pring, set_pbufs, set_fdopen, set_due in *;
    destruct r as [y| |o'|p'|p'|p'|h']; try destruct x; try destruct y;
    cbn [uses releases needs_released held mapped unmap mapping_eqb orb andb negb
         m_sq m_sqes m_cq m_fd m_box m_reg m_pring m_pbufs m_desc] in *;
    rewrite ?nth_clr, ?andb_true_r, ?andb_false_r;
    repeat match goal with
    | H : _ && _ = true |- _ => apply andb_prop in H; destruct H
    | H : negb _ = true |- _ => apply negb_true_iff in H
    | H : _ || _ = false |- _ => apply orb_false_elim in H; destruct H
    end;
    repeat split; intros; try congruence; try reflexivity;
    try (match goal with |- context [?a =? ?b] => destruct (Nat.eqb_spec a b); subst end; cbn; rewrite ?andb_true_r, ?andb_false_r; congruence).
  all: try match goal with
       | H : uses _ _ = true |- _ => unfold uses in H; cbn [releases orb mapping_eqb] in H
       | H : needs_released _ _ = true |- _ => cbn [needs_released] in H
       end;
       rewrite ?orb_false_r in *; try discriminate; try (match goal with H : (_ =? _) = true |- _ => apply Nat.eqb_eq in H; subst end);
       try congruence; try assumption.
Qed.

(** Balance: what was held is what was released plus what is still held — each resource is
    released at most once, and exactly once if it was held and is not any more. *)
Lemma replay_balance d l : forall m m' r,
  replay d m l = Some m' ->
  b2n (held m r) = count_if (fun e => releases e r) l + b2n (held m' r).
Proof.
  induction l as [|e l IH]; intros m m' r H; cbn [replay] in H.
  - inversion H; subst. reflexivity.
  - destruct (replay1 d m e) as [m1|] eqn:E; [|discriminate].
    destruct (replay1_sound d m e m1 r E) as (U & _ & S).
    rewrite count_if_cons, <- Nat.add_assoc, <- (IH m1 m' r H), S.
    destruct (releases e r) eqn:Rl; cbn [negb b2n].
    + rewrite U by (unfold uses; rewrite Rl; reflexivity). reflexivity.
    + rewrite andb_true_r. reflexivity.
Qed.

(** Order: once a resource is not held, nothing in the rest of the log touches it. *)
Lemma replay_gone d l : forall m m' r,
  replay d m l = Some m' -> held m r = false -> forall e, In e l -> uses e r = false.
Proof.
  induction l as [|e l IH]; intros m m' r H G e0 HI; [destruct HI|]. cbn [replay] in H.
  destruct (replay1 d m e) as [m1|] eqn:E; [|discriminate].
  destruct (replay1_sound d m e m1 r E) as (U & _ & S).
  destruct HI as [<-|HI].
  - destruct (uses e r) eqn:Us; [|reflexivity]. rewrite (U eq_refl) in G. discriminate.
  - apply (IH m1 m' r H); [|exact HI]. rewrite S, G. reflexivity.
Qed.

Lemma replay_split d l1 e l2 m m' :
  replay d m (l1 ++ e :: l2) = Some m' ->
  exists m1 m2, replay d m l1 = Some m1 /\ replay1 d m1 e = Some m2 /\ replay d m2 l2 = Some m'.
Proof.
  rewrite replay_app. destruct (replay d m l1) as [m1|]; [|discriminate]. cbn [replay].
  destruct (replay1 d m1 e) as [m2|] eqn:E; [|discriminate]. intros H. exists m1, m2. auto.
Qed.

(** The statements of the property, read off a log that replays. *)
Definition log_safe (d : dims) (l : list lev) : Prop :=
  (* after a munmap: no access to that mapping and no second munmap; the length is the mapping's *)
  (forall l1 x len l2, l = l1 ++ LMunmap x len :: l2 ->
     len = len_of d x /\ ~ In (LUse x) l2 /\ forall len', ~ In (LMunmap x len') l2) /\
  (* the ring descriptor is closed at most once, after all three munmaps (none follows) and after
     the last enter / register on it *)
  (forall l1 l2, l = l1 ++ LCloseRing :: l2 ->
     ~ In LCloseRing l2 /\ (forall n g, ~ In (LEnter n g) l2) /\ (forall r, ~ In (LRegister r) l2) /\
     (forall x len, ~ In (LMunmap x len) l2) /\ (forall x, ~ In (LUse x) l2)) /\
  (* an allocation is freed at most once; a pool's memory is not used after it, and the completion
     handler does not touch an operation state after it *)
  (forall l1 a l2, l = l1 ++ LFree a :: l2 ->
     ~ In (LFree a) l2 /\
     match a with
     | APoolRing p | APoolBufs p => ~ In (LUsePool p) l2 /\ ~ In (LRegister (RUnregPbuf p)) l2
     | ABox o => forall final, ~ In (LProcess o final) l2
     end) /\
  (* a descriptor is closed at most once, by the kernel or by close(2) *)
  (forall l1 h l2, l = l1 ++ LConsumed (SClose h) :: l2 \/ l = l1 ++ LSysClose h :: l2 ->
     ~ In (LConsumed (SClose h)) l2 /\ ~ In (LSysClose h) l2).

Lemma mapping_eqb_refl x : mapping_eqb x x = true.
Proof. destruct x; reflexivity. Qed.

Lemma replay_after_release d m l1 e l2 m' r :
  replay d m (l1 ++ e :: l2) = Some m' -> releases e r = true -> forall e2, In e2 l2 -> uses e2 r = false.
Proof.
  intros H Rl e2 I. apply replay_split in H. destruct H as (m1 & m2 & _ & E & H2).
  destruct (replay1_sound d m1 e m2 r E) as (_ & _ & S). rewrite Rl, andb_false_r in S.
  exact (replay_gone d l2 m2 m' r H2 S e2 I).
Qed.

Lemma replay_after_needs d m l1 e l2 m' r :
  replay d m (l1 ++ e :: l2) = Some m' -> needs_released e r = true -> forall e2, In e2 l2 -> uses e2 r = false.
Proof.
  intros H Nr e2 I. apply replay_split in H. destruct H as (m1 & m2 & _ & E & H2).
  destruct (replay1_sound d m1 e m2 r E) as (_ & N & S). rewrite (N Nr) in S. cbn in S.
  exact (replay_gone d l2 m2 m' r H2 S e2 I).
Qed.

Ltac absurd_use H I r :=
  let U := fresh "U" in
  pose proof (H r) as U; specialize (U ltac:(cbn; rewrite ?Nat.eqb_refl, ?mapping_eqb_refl; reflexivity) _ I);
  unfold uses in U; cbn in U; rewrite ?Nat.eqb_refl, ?mapping_eqb_refl, ?orb_true_r in U; discriminate U.

Lemma replay_log_safe d m l m' : replay d m l = Some m' -> log_safe d l.
Proof.
  intros H. split; [|split; [|split]].
  - intros l1 x len l2 ->. pose proof (fun r => replay_after_release d m l1 _ l2 m' r H) as A.
    split; [|split].
    + apply replay_split in H. destruct H as (m1 & m2 & _ & E & _). cbn [replay1] in E.
      destruct (mapped m1 x && (len =? len_of d x)%N) eqn:C; [|discriminate].
      apply andb_prop in C. destruct C as [_ C]. apply N.eqb_eq in C. exact C.
    + intros I. absurd_use A I (RMap x).
    + intros len' I. absurd_use A I (RMap x).
  - intros l1 l2 ->. pose proof (fun r => replay_after_release d m l1 _ l2 m' r H) as A.
    pose proof (fun r => replay_after_needs d m l1 _ l2 m' r H) as B.
    split; [|split; [|split; [|split]]].
    + intros I. absurd_use A I RFd.
    + intros n g I. absurd_use A I RFd.
    + intros r I. pose proof (A RFd eq_refl _ I) as U. unfold uses in U. destruct r; discriminate U.
    + intros x len I. absurd_use B I (RMap x).
    + intros x I. absurd_use B I (RMap x).
  - intros l1 a l2 ->. pose proof (fun r => replay_after_release d m l1 _ l2 m' r H) as A.
    pose proof (fun r => replay_after_needs d m l1 _ l2 m' r H) as B.
    destruct a as [o|p|p]; split; auto.
    + intros I. absurd_use A I (RBox o).
    + intros final I. absurd_use A I (RBox o).
    + intros I. absurd_use A I (RPring p).
    + split; intros I; [absurd_use A I (RPring p)|absurd_use B I (RReg p)].
    + intros I. absurd_use A I (RPbufs p).
    + split; intros I; [absurd_use A I (RPbufs p)|absurd_use B I (RReg p)].
  - intros l1 h l2 [-> | ->]; pose proof (fun r => replay_after_release d m l1 _ l2 m' r H) as A;
      split; intros I; absurd_use A I (RDesc h).
Qed.

(** What [m_due] says about a log that replays: per operation, what was due at the start plus the
    requests the kernel accepted since is at most what is due now plus the final completions
    processed since. *)
Definition is_accept (o : nat) (e : lev) : bool := match e with LConsumed (SOp o') => o' =? o | _ => false end.
Definition is_final (o : nat) (e : lev) : bool := match e with LProcess o' true => o' =? o | _ => false end.

Lemma replay1_due d m e m' o :
  replay1 d m e = Some m' ->
  length (m_due m') = length (m_due m) /\
  (o < length (m_due m) ->
   nth o (m_due m) 0 + b2n (is_accept o e) <= nth o (m_due m') 0 + b2n (is_final o e)).
Proof.
  intros H.
  destruct e as [x|n g|[h|o1|o1]|[|p]|x len| |h|p|o1 [|]|[o1|p|p]]; cbn [replay1] in H;
    repeat match type of H with
    | (if ?c then _ else _) = Some _ => destruct c eqn:?; [|discriminate]
    end;
    inversion H; subst; clear H;
    unfold unmap, set_desc, set_box, set_reg, set_pring, set_pbufs, set_fdopen, set_due; cbn [m_due is_accept is_final b2n];
    rewrite ?upd_length; (split; [reflexivity|intros Hlt]); try lia.
  - rewrite nth_upd_gen, (Nat.eqb_sym o1 o). destruct (Nat.eqb_spec o o1) as [->|Hne]; cbn [andb b2n]; [|lia].
    apply Nat.ltb_lt in Hlt. rewrite Hlt. lia.
  - rewrite nth_upd_gen, (Nat.eqb_sym o1 o). destruct (Nat.eqb_spec o o1) as [->|Hne]; cbn [andb b2n]; [|lia].
    apply Nat.ltb_lt in Hlt. rewrite Hlt. lia.
Qed.

Lemma replay_due d l : forall m m' o,
  replay d m l = Some m' -> o < length (m_due m) ->
  nth o (m_due m) 0 + count_if (is_accept o) l <= nth o (m_due m') 0 + count_if (is_final o) l.
Proof.
  induction l as [|e l IH]; intros m m' o H Hlt; cbn [replay] in H.
  - inversion H; subst. unfold count_if. cbn. lia.
  - destruct (replay1 d m e) as [m1|] eqn:E; [|discriminate].
    destruct (replay1_due d m e m1 o E) as [L1 S1]. specialize (S1 Hlt).
    specialize (IH m1 m' o H ltac:(rewrite L1; exact Hlt)). rewrite !count_if_cons. lia.
Qed.

(** When an operation state is released, every request of that operation the kernel accepted —
    before the start ([due0]) or in the log so far — has had its final completion processed:
    nothing of it is in flight, no final completion of it is still to be processed. *)
Definition log_due_safe (due0 : list nat) (l : list lev) : Prop :=
  forall l1 o l2, l = l1 ++ LFree (ABox o) :: l2 -> o < length due0 ->
    nth o due0 0 + count_if (is_accept o) l1 <= count_if (is_final o) l1.

Lemma replay_log_due_safe d m l m' : replay d m l = Some m' -> log_due_safe (m_due m) l.
Proof.
  intros H l1 o l2 -> Hlt. apply replay_split in H. destruct H as (m1 & m2 & H1 & E & _).
  pose proof (replay_due d l1 m m1 o H1 Hlt) as B. cbn [replay1] in E.
  destruct (nth o (m_box m1) false && (nth o (m_due m1) 0 =? 0)) eqn:C; [|discriminate].
  apply andb_prop in C. destruct C as [_ C]. apply Nat.eqb_eq in C. lia.
Qed.

(** * Plain-terms corollaries *)
Definition teardown_log_safe : Prop :=
  forall s es, wf s -> borrows_ok step s es ->
    log_safe (s_d s) (snd (run step s es)) /\ log_due_safe (m_due (mon_of s)) (snd (run step s es)).

Theorem teardown_log_safe_holds : teardown_log_safe.
Proof.
  intros s es W B. destruct (teardown_memory_safe_holds s es W B) as [m R].
  split; [exact (replay_log_safe _ _ _ _ R)|exact (replay_log_due_safe _ _ _ _ R)].
Qed.

Definition teardown_log_safe_fixed : Prop :=
  forall s es, wf s -> borrows_ok step_fixed s es ->
    log_safe (s_d s) (snd (run step_fixed s es)) /\ log_due_safe (m_due (mon_of s)) (snd (run step_fixed s es)).

Theorem teardown_log_safe_fixed_holds : teardown_log_safe_fixed.
Proof.
  intros s es W B. destruct (teardown_memory_safe_fixed_holds s es W B) as [m R].
  split; [exact (replay_log_safe _ _ _ _ R)|exact (replay_log_due_safe _ _ _ _ R)].
Qed.

(** Exactly once: whatever the monitor held at the start and does not hold at the end was released
    by exactly one event of the log (one munmap per mapping, one close of the ring descriptor, one
    free per allocation, one unregistration per pool, one close per descriptor). *)
Definition teardown_exactly_once : Prop :=
  forall s es m, wf s -> replay (s_d s) (mon_of s) (snd (run step s es)) = Some m ->
    forall r, held (mon_of s) r = true -> held m r = false ->
      count_if (fun e => releases e r) (snd (run step s es)) = 1.

Theorem teardown_exactly_once_holds : teardown_exactly_once.
Proof.
  intros s es m _ R r H0 H1. pose proof (replay_balance _ _ _ _ r R) as B. rewrite H0, H1 in B. cbn in B. lia.
Qed.

(** For populations: the invariant holds at the start. *)
Definition teardown_of_populations : Prop :=
  forall pp es, pop_ok pp -> borrows_ok step (init pp) es -> covers (init pp) es ->
    exists m, replay (pp_d pp) (mon_of (init pp)) (snd (run step (init pp) es)) = Some m /\
      log_safe (pp_d pp) (snd (run step (init pp) es)) /\
      m_sq m = false /\ m_sqes m = false /\ m_cq m = false /\ m_fd m = false /\
      (forall p, nth p (m_reg m) false = false /\ nth p (m_pring m) false = false /\ nth p (m_pbufs m) false = false) /\
      (forall o, nth o (m_box m) false = true ->
         abandoned_ops_beyond_cq_capacity (init pp) es \/ op_in_flight_after_ring_drop step (init pp) es o) /\
      (forall h, nth h (m_desc m) false = true -> fd_dropped_after_ring step (init pp) es h).

Theorem teardown_of_populations_holds : teardown_of_populations.
Proof.
  intros pp es Ok B C. pose proof (init_wf pp Ok) as W.
  destruct (teardown_releases_everything_holds (init pp) es W eq_refl B C) as (m & R & Rest).
  exists m. split; [exact R|]. split; [exact (replay_log_safe _ _ _ _ R)|exact Rest].
Qed.

(** ... and for the code as it is (the repaired drain). *)
Definition teardown_of_populations_fixed : Prop :=
  forall pp es, pop_ok pp -> 1 <= d_cqn (pp_d pp) -> borrows_ok step_fixed (init pp) es -> covers (init pp) es ->
    exists m, replay (pp_d pp) (mon_of (init pp)) (snd (run step_fixed (init pp) es)) = Some m /\
      log_safe (pp_d pp) (snd (run step_fixed (init pp) es)) /\
      m_sq m = false /\ m_sqes m = false /\ m_cq m = false /\ m_fd m = false /\
      (forall p, nth p (m_reg m) false = false /\ nth p (m_pring m) false = false /\ nth p (m_pbufs m) false = false) /\
      (forall o, nth o (m_box m) false = true -> op_in_flight_after_ring_drop step_fixed (init pp) es o) /\
      (forall h, nth h (m_desc m) false = true -> fd_dropped_after_ring step_fixed (init pp) es h).

Theorem teardown_of_populations_fixed_holds : teardown_of_populations_fixed.
Proof.
  intros pp es Ok Hc B C. pose proof (init_wf pp Ok) as W.
  destruct (teardown_releases_everything_fixed_holds (init pp) es W eq_refl Hc B C) as (m & R & Rest).
  exists m. split; [exact R|]. split; [exact (replay_log_safe _ _ _ _ R)|exact Rest].
Qed.

(** * Deciding the hypotheses on concrete cases *)
Definition ev_okb (s : state) (e : event) : bool :=
  match e with
  | Drop (OFd h) =>
      forallb (fun x => negb (o_fut x && match o_on x with Some h' => h' =? h | None => false end)) (s_ops s)
  | _ => true
  end.

Fixpoint borrows_okb (st : state -> event -> state * list lev) (s : state) (es : list event) : bool :=
  match es with
  | [] => true
  | e :: r => ev_okb s e && borrows_okb st (fst (st s e)) r
  end.

Lemma ev_okb_ok s e : ev_okb s e = true -> ev_ok s e.
Proof.
  destruct e as [[|c|h|o|p|b]|o]; cbn; auto. intros H o F On.
  rewrite forallb_forall in H. pose proof (get_op_lt _ _ F) as Ho.
  specialize (H _ (nth_In _ dead_op Ho)). fold (get_op s o) in H. rewrite F, On, Nat.eqb_refl in H. discriminate.
Qed.

Lemma borrows_okb_ok st es : forall s, borrows_okb st s es = true -> borrows_ok st s es.
Proof.
  induction es as [|e es IH]; intros s H; cbn in *; auto.
  apply andb_prop in H. destruct H as [A B]. split; [apply ev_okb_ok, A|apply IH, B].
Qed.

Definition obj_eqb (x y : obj) : bool :=
  match x, y with
  | ORing, ORing => true
  | OClone a, OClone b | OFd a, OFd b | OOp a, OOp b | OPool a, OPool b | OBuf a, OBuf b => a =? b
  | _, _ => false
  end.

Definition drops (x : obj) (es : list event) : bool :=
  existsb (fun e => match e with Drop y => obj_eqb x y | _ => false end) es.

Lemma drops_in x es : drops x es = true -> In (Drop x) es.
Proof.
  unfold drops. rewrite existsb_exists. intros (e & I & E). destruct e as [y|]; [|discriminate].
  replace x with y; [exact I|].
  destruct x, y; cbn in E; try discriminate; try reflexivity; apply Nat.eqb_eq in E; congruence.
Qed.

Definition all_upto (n : nat) (f : nat -> bool) : bool := forallb f (seq 0 n).

Lemma all_upto_spec n f i : all_upto n f = true -> i < n -> f i = true.
Proof. unfold all_upto. rewrite forallb_forall. intros H Hi. apply H. apply in_seq. lia. Qed.

Definition coversb (s : state) (es : list event) : bool :=
  (negb (s_ring s) || drops ORing es) &&
  all_upto (length (s_clones s)) (fun c => negb (nth c (s_clones s) false) || drops (OClone c) es) &&
  all_upto (length (s_fds s)) (fun h => negb (nth h (s_fds s) false) || drops (OFd h) es) &&
  all_upto (length (s_ops s)) (fun o => negb (o_fut (get_op s o)) || drops (OOp o) es) &&
  all_upto (length (s_pools s)) (fun p => negb (p_handle (get_pool s p)) || drops (OPool p) es) &&
  all_upto (length (s_bufs s)) (fun b => negb (snd (nth b (s_bufs s) (0, false))) || drops (OBuf b) es).

Lemma coversb_ok s es : coversb s es = true -> covers s es.
Proof.
  unfold coversb. intros H. repeat (apply andb_prop in H; destruct H as [H ?]).
  repeat split.
  - intros R. rewrite R in H. cbn in H. apply drops_in, H.
  - intros c L. pose proof (all_upto_spec _ _ c H4 (nth_true_lt _ _ L)) as E. cbn beta in E. rewrite L in E. apply drops_in, E.
  - intros h L. pose proof (all_upto_spec _ _ h H3 (nth_true_lt _ _ L)) as E. cbn beta in E. rewrite L in E. apply drops_in, E.
  - intros o L. pose proof (all_upto_spec _ _ o H2 (get_op_lt _ _ L)) as E. cbn beta in E. rewrite L in E. apply drops_in, E.
  - intros p L. assert (p < length (s_pools s)) as Hp.
    { destruct (Nat.lt_ge_cases p (length (s_pools s))); auto. unfold get_pool in L. rewrite nth_overflow in L by lia. discriminate. }
    pose proof (all_upto_spec _ _ p H1 Hp) as E. cbn beta in E. rewrite L in E. apply drops_in, E.
  - intros b L. assert (b < length (s_bufs s)) as Hb.
    { destruct (Nat.lt_ge_cases b (length (s_bufs s))); auto. rewrite nth_overflow in L by lia. discriminate. }
    pose proof (all_upto_spec _ _ b H0 Hb) as E. cbn beta in E. rewrite L in E. apply drops_in, E.
Qed.

(** * Witnesses *)
Definition dims22 : dims :=
  {| d_sqn := 2; d_cqn := 2; d_len_sq := 8; d_len_sqes := 128; d_len_cq := 224; d_two := []; d_surv := []; d_rej := [] |}.

(** H13: ring, then the fd. *)
Definition pop_h13 : population :=
  {| pp_d := dims22; pp_clones := 0; pp_fds := 1; pp_ops := []; pp_pools := 0; pp_bufs := [] |}.
Definition order_h13 : list event := [Drop ORing; Drop (OFd 0)].

Ltac decide_case :=
  split; [split; repeat constructor|];
  split; [apply coversb_ok; vm_compute; reflexivity|];
  split; [apply borrows_okb_ok; vm_compute; reflexivity|].

Lemma fd_dropped_after_ring_refuted :
  exists pp es, pop_ok pp /\ covers (init pp) es /\ borrows_ok step (init pp) es /\
    exists m, replay (pp_d pp) (mon_of (init pp)) (snd (run step (init pp) es)) = Some m /\
              nth 0 (m_desc m) false = true.
Proof.
  exists pop_h13, order_h13. decide_case.
  eexists. split; [vm_compute; reflexivity|reflexivity].
Qed.

(** H14: three reads in flight on one fd, abandoned, then the ring with a completion queue of 2. *)
Definition pop_h14 : population :=
  {| pp_d := dims22; pp_clones := 0; pp_fds := 1;
     pp_ops := [(Some 0, IInflight); (Some 0, IInflight); (Some 0, IInflight)]; pp_pools := 0; pp_bufs := [] |}.
Definition order_h14 : list event := [Drop (OOp 0); Drop (OOp 1); Drop (OOp 2); Drop (OFd 0); Drop ORing].
(** ... or not abandoned before: the futures are dropped after the ring. *)
Definition order_h14' : list event := [Drop ORing; Drop (OOp 0); Drop (OOp 1); Drop (OOp 2); Drop (OFd 0)].

Lemma abandoned_ops_beyond_cq_capacity_refuted :
  exists pp es, pop_ok pp /\ covers (init pp) es /\ borrows_ok step (init pp) es /\
    exists m, replay (pp_d pp) (mon_of (init pp)) (snd (run step (init pp) es)) = Some m /\
              nth 2 (m_box m) false = true /\ m_desc m = [false].
Proof.
  exists pop_h14, order_h14. decide_case.
  eexists. split; [vm_compute; reflexivity|split; reflexivity].
Qed.

Lemma abandoned_ops_beyond_cq_capacity_refuted_live_futures :
  exists pp es, pop_ok pp /\ covers (init pp) es /\ borrows_ok step (init pp) es /\
    exists m, replay (pp_d pp) (mon_of (init pp)) (snd (run step (init pp) es)) = Some m /\
              nth 2 (m_box m) false = true.
Proof.
  exists pop_h14, order_h14'. decide_case.
  eexists. split; [vm_compute; reflexivity|reflexivity].
Qed.

(** The same population and order under the repaired drain: every state is freed. *)
Example fixed_drain_frees_h14 :
  exists m, replay dims22 (mon_of (init pop_h14)) (snd (run step_fixed (init pop_h14) order_h14)) = Some m /\
            m_box m = [false; false; false] /\ m_desc m = [false] /\ m_fd m = false.
Proof. eexists. split; [vm_compute; reflexivity|repeat split; reflexivity]. Qed.

(** Non-vacuity: a population with every kind of object, an order the borrow checker accepts. *)
Definition pop_all : population :=
  {| pp_d := {| d_sqn := 4; d_cqn := 4; d_len_sq := 16; d_len_sqes := 256; d_len_cq := 256; d_two := []; d_surv := []; d_rej := [] |};
     pp_clones := 1; pp_fds := 2;
     pp_ops := [(Some 0, IInflight); (None, IQueued); (Some 1, INotStarted); (Some 1, IDone); (None, IFinished)];
     pp_pools := 1; pp_bufs := [0; 0] |}.
Definition order_all : list event :=
  [Drop (OBuf 1); Drop (OOp 0); KComplete 0; Drop (OFd 0); Drop (OPool 0); Drop (OOp 3); Drop ORing;
   Drop (OOp 1); Drop (OClone 0); Drop (OOp 2); Drop (OOp 4); Drop (OBuf 0); Drop (OFd 1)].

Example hypotheses_satisfiable :
  pop_ok pop_all /\ covers (init pop_all) order_all /\ borrows_ok step (init pop_all) order_all /\
  exists m, replay (pp_d pop_all) (mon_of (init pop_all)) (snd (run step (init pop_all) order_all)) = Some m /\
            m_fd m = false /\ m_box m = [false; false; false; false; false] /\ m_reg m = [false] /\
            m_desc m = [false; true].
Proof.
  decide_case.
  eexists. split; [vm_compute; reflexivity|repeat split; reflexivity].
Qed.

(** * Operations still in flight after the Ring was dropped (H28), two-step operations *)
Definition dims22x (two surv : list nat) : dims :=
  {| d_sqn := 2; d_cqn := 2; d_len_sq := 8; d_len_sqes := 128; d_len_cq := 224; d_two := two; d_surv := surv; d_rej := [] |}.

(** H28, first sort: a read the kernel does not cancel. The ring is dropped (REGISTER_SYNC_CANCEL
    leaves the request in flight), the kernel finishes the request later, the future and its
    descriptor are dropped: the state is never released. *)
Definition pop_h28 : population :=
  {| pp_d := dims22x [] [0]; pp_clones := 0; pp_fds := 1; pp_ops := [(Some 0, IInflight)]; pp_pools := 0; pp_bufs := [] |}.
Definition order_h28 : list event := [Drop ORing; KComplete 0; Drop (OOp 0); Drop (OFd 0)].

(** H28, second sort: a zero-copy send whose result was processed; the notification is
    outstanding when the ring is dropped and arrives afterwards. *)
Definition pop_h28_zc : population :=
  {| pp_d := dims22x [0] []; pp_clones := 0; pp_fds := 1; pp_ops := [(Some 0, IMid)]; pp_pools := 0; pp_bufs := [] |}.
Definition order_h28_zc : list event := [Drop ORing; Drop (OOp 0); KComplete 0; Drop (OFd 0)].

Lemma op_in_flight_after_ring_drop_refuted :
  exists pp es, pop_ok pp /\ covers (init pp) es /\ borrows_ok step_fixed (init pp) es /\
    exists m, replay (pp_d pp) (mon_of (init pp)) (snd (run step_fixed (init pp) es)) = Some m /\
              nth 0 (m_box m) false = true /\ m_fd m = false.
Proof.
  exists pop_h28, order_h28. decide_case.
  eexists. split; [vm_compute; reflexivity|split; reflexivity].
Qed.

Lemma op_in_flight_after_ring_drop_refuted_notification :
  exists pp es, pop_ok pp /\ covers (init pp) es /\ borrows_ok step_fixed (init pp) es /\
    exists m, replay (pp_d pp) (mon_of (init pp)) (snd (run step_fixed (init pp) es)) = Some m /\
              nth 0 (m_box m) false = true /\ m_fd m = false.
Proof.
  exists pop_h28_zc, order_h28_zc. decide_case.
  eexists. split; [vm_compute; reflexivity|split; reflexivity].
Qed.

(** Both are instances of the class the theorem names. *)
Example h28_class_inhabited :
  op_in_flight_after_ring_drop step_fixed (init pop_h28) order_h28 0 /\
  op_in_flight_after_ring_drop step_fixed (init pop_h28_zc) order_h28_zc 0.
Proof.
  split; [exists [], [KComplete 0; Drop (OOp 0); Drop (OFd 0)]|exists [], [Drop (OOp 0); KComplete 0; Drop (OFd 0)]];
    (split; [reflexivity|split; vm_compute; reflexivity]).
Qed.

(** The completion handler [po := process_one] in the generic drop is the drop as it is. *)
Lemma process_all_w_process_one ops cs : process_all_w process_one ops cs = process_all ops cs.
Proof.
  revert ops; induction cs as [|c cs IH]; intros ops; cbn [process_all_w process_all]; [reflexivity|].
  destruct (process_one ops c) as [ops1 l1]. rewrite IH. reflexivity.
Qed.

Lemma cq_poll_w_process_one s : cq_poll_w process_one s = cq_poll s.
Proof. unfold cq_poll_w, cq_poll. destruct (poll_fetch s) as [k1 l1]. rewrite process_all_w_process_one. reflexivity. Qed.

Lemma drain_w_process_one fuel : forall s, drain_w process_one fuel s = drain_fixed fuel s.
Proof.
  induction fuel as [|f IH]; intros s; cbn [drain_w drain_fixed]; [reflexivity|].
  destruct (enter_all s true) as [s1 l1]. rewrite cq_poll_w_process_one. destruct (cq_poll s1) as [s2 l2].
  rewrite IH. reflexivity.
Qed.

Lemma drop_ring_w_process_one s : drop_ring_w process_one s = drop_ring_fixed s.
Proof.
  unfold drop_ring_w, drop_ring_fixed. destruct (s_ring s); [|reflexivity].
  destruct (enter_all s false) as [s1 l1]. rewrite drain_w_process_one. reflexivity.
Qed.

(** Seeded change C12-c (the state of an abandoned two-step operation is released on its result
    completion). A zero-copy send is abandoned before its first completion; the kernel posts the
    result; the ring is dropped: its drain processes the result and — in the changed code —
    releases the state while the request is in flight (the notification is outstanding). The
    code as it is replays; the changed code does not, and its log violates [log_due_safe]. *)
Definition pop_zc : population :=
  {| pp_d := dims22x [0] []; pp_clones := 0; pp_fds := 1; pp_ops := [(Some 0, IInflight)]; pp_pools := 0; pp_bufs := [] |}.
Definition order_c12c : list event := [Drop (OOp 0); KComplete 0; Drop ORing; Drop (OFd 0)].
(** ... or everything happens inside the drop of the ring: the cancellation makes the request post
    both completions; the drain releases the state on the first and the handler uses the
    released state on the second. *)
Definition order_c12c_drain : list event := [Drop (OOp 0); Drop ORing; Drop (OFd 0)].

Lemma c12c_releases_state_in_flight_refuted :
  exists pp es, pop_ok pp /\ covers (init pp) es /\ borrows_ok step_fixed (init pp) es /\
    (exists m, replay (pp_d pp) (mon_of (init pp)) (snd (run step_fixed (init pp) es)) = Some m) /\
    replay (pp_d pp) (mon_of (init pp)) (snd (run step_c12c (init pp) es)) = None /\
    ~ log_due_safe (m_due (mon_of (init pp))) (snd (run step_c12c (init pp) es)).
Proof.
  exists pop_zc, order_c12c. decide_case.
  split; [eexists; vm_compute; reflexivity|]. split; [vm_compute; reflexivity|].
  intros H.
  specialize (H [LUse MSq; LUse MSqes; LUse MSq; LUse MSq; LEnter 1 false; LConsumed (SCancel 0); LRegister RSyncCancel;
                 LUse MSq; LEnter 0 true; LUse MCq; LUse MCq; LProcess 0 false] 0).
  vm_compute in H. specialize (H _ eq_refl). lia.
Qed.

Lemma c12c_uses_released_state_in_drain_refuted :
  exists pp es, pop_ok pp /\ covers (init pp) es /\ borrows_ok step_fixed (init pp) es /\
    (exists m, replay (pp_d pp) (mon_of (init pp)) (snd (run step_fixed (init pp) es)) = Some m /\ m_box m = [false]) /\
    replay (pp_d pp) (mon_of (init pp)) (snd (run step_c12c (init pp) es)) = None /\
    exists l1 l2, snd (run step_c12c (init pp) es) = l1 ++ LFree (ABox 0) :: l2 /\ In (LProcess 0 true) l2.
Proof.
  exists pop_zc, order_c12c_drain. decide_case.
  split; [eexists; split; vm_compute; reflexivity|]. split; [vm_compute; reflexivity|].
  exists [LUse MSq; LUse MSqes; LUse MSq; LUse MSq; LEnter 1 false; LConsumed (SCancel 0); LRegister RSyncCancel;
          LUse MSq; LEnter 0 true; LUse MCq; LUse MCq; LProcess 0 false].
  eexists. split; [vm_compute; reflexivity|]. cbn. auto.
Qed.

(** Seeded change C01-f (once the Ring is gone [State::drop] releases the state of a running
    operation at once). A read that survives the blanket cancellation — or a zero-copy send whose
    notification is outstanding — is still in flight when its future is dropped after the Ring. *)
Definition order_c01f : list event := [Drop ORing; Drop (OOp 0); Drop (OFd 0)].

Lemma c01f_releases_state_in_flight_refuted :
  exists pp es, pop_ok pp /\ covers (init pp) es /\ borrows_ok step_fixed (init pp) es /\
    (exists m, replay (pp_d pp) (mon_of (init pp)) (snd (run step_fixed (init pp) es)) = Some m) /\
    replay (pp_d pp) (mon_of (init pp)) (snd (run step_c01f (init pp) es)) = None /\
    ~ log_due_safe (m_due (mon_of (init pp))) (snd (run step_c01f (init pp) es)).
Proof.
  exists pop_h28, order_c01f. decide_case.
  split; [eexists; vm_compute; reflexivity|]. split; [vm_compute; reflexivity|].
  intros H.
  specialize (H [LUse MSq; LEnter 0 false; LRegister RSyncCancel; LUse MSq; LEnter 0 true; LUse MCq; LUse MCq;
                 LUse MSq; LEnter 0 true; LUse MCq; LUse MCq; LUse MCq; LMunmap MCq 224] 0).
  vm_compute in H. specialize (H _ eq_refl). lia.
Qed.

Lemma c01f_releases_state_notification_outstanding_refuted :
  exists pp es, pop_ok pp /\ covers (init pp) es /\ borrows_ok step_fixed (init pp) es /\
    (exists m, replay (pp_d pp) (mon_of (init pp)) (snd (run step_fixed (init pp) es)) = Some m) /\
    replay (pp_d pp) (mon_of (init pp)) (snd (run step_c01f (init pp) es)) = None.
Proof.
  exists pop_h28_zc, order_c01f. decide_case.
  split; [eexists; vm_compute; reflexivity|vm_compute; reflexivity].
Qed.

(** Non-vacuity for the new sorts of operation: a surviving read, a zero-copy send abandoned before
    its first completion, one abandoned between the two and one whose notification arrives after
    the Ring is gone; the hypotheses hold and the log replays. *)
Definition pop_new : population :=
  {| pp_d := {| d_sqn := 4; d_cqn := 2; d_len_sq := 16; d_len_sqes := 256; d_len_cq := 224; d_two := [1; 2; 3]; d_surv := [0; 3]; d_rej := [] |};
     pp_clones := 1; pp_fds := 2;
     pp_ops := [(Some 0, IInflight); (Some 0, IInflight); (Some 1, IAbMid); (Some 1, IQueued); (Some 1, IAbDone)];
     pp_pools := 0; pp_bufs := [] |}.
Definition order_new : list event :=
  [Drop (OOp 1); KComplete 1; KComplete 2; Drop (OOp 3); Drop ORing; KComplete 0; Drop (OOp 0); KComplete 3;
   Drop (OFd 1); KComplete 3; Drop (OFd 0); Drop (OClone 0)].

Example hypotheses_satisfiable_new_sorts :
  pop_ok pop_new /\ covers (init pop_new) order_new /\ borrows_ok step_fixed (init pop_new) order_new /\
  exists m, replay (pp_d pop_new) (mon_of (init pop_new)) (snd (run step_fixed (init pop_new) order_new)) = Some m /\
            m_fd m = false /\ m_box m = [true; true; false; true; false] /\ m_desc m = [true; true].
Proof.
  decide_case.
  eexists. split; [vm_compute; reflexivity|repeat split; reflexivity].
Qed.

(** * What the drop of the Ring leaves in flight
    "Cancels what is still running": after [Drop for Ring] nothing is queued, and whatever is still
    in flight is a request a cancellation cannot finish — one the kernel does not cancel
    ([d_surv]) or a two-step request that only waits for its notification. The class H28 therefore
    holds such operations only; a plain operation in flight after the [Ring] was dropped would be
    outside every named class. *)
Definition uncancelable (d : dims) (k : kern) (o : nat) : bool :=
  mem_nat o (d_surv d) || (mem_nat o (d_two d) && negb (mem_nat o (k_first k))).

Lemma cancelable_uncancelable d k o :
  mem_nat o (k_inflight k) = true -> cancelable d k o = negb (uncancelable d k o).
Proof.
  intros M. unfold cancelable, uncancelable. rewrite M.
  destruct (mem_nat o (d_surv d)), (mem_nat o (d_two d)), (mem_nat o (k_first k)); reflexivity.
Qed.

Lemma cancel_req_first d k o : k_first (cancel_req d k o) = remove_nat o (k_first k).
Proof. unfold cancel_req. destruct (mem_nat o (k_first k)); rewrite ?post_first; reflexivity. Qed.

Lemma mem_remove_other x o l : x <> o -> mem_nat o (remove_nat x l) = mem_nat o l.
Proof. intros H. rewrite !mem_nat_count, (count_remove_other x o) by exact H. reflexivity. Qed.

Lemma count_remove_le x o l : count_in o (remove_nat x l) <= count_in o l.
Proof.
  destruct (Nat.eq_dec x o) as [->|H]; [|rewrite count_remove_other by exact H; lia].
  destruct (mem_nat o l) eqn:M; [pose proof (count_remove_same o l M); lia|].
  assert (remove_nat o l = l) as ->; [|lia].
  induction l as [|y l IH]; cbn in *; [reflexivity|]. destruct (y =? o) eqn:E; cbn in M; [discriminate|].
  rewrite IH by exact M. reflexivity.
Qed.

Lemma mem_nat_In o l : mem_nat o l = true -> In o l.
Proof.
  induction l as [|y l IH]; cbn; [discriminate|]. destruct (Nat.eqb_spec y o) as [->|H]; cbn; [left; reflexivity|].
  intros M. right. apply IH, M.
Qed.

Lemma sc_step_cancelable_other d k x o : x <> o -> cancelable d (sc_step d k x) o = cancelable d k o.
Proof.
  intros H. unfold sc_step. destruct (cancelable d k x); [|reflexivity].
  unfold cancelable. rewrite cancel_req_inflight, cancel_req_first, !(mem_remove_other x o) by exact H. reflexivity.
Qed.

Lemma sc_step_count d k x o : count_in o (k_inflight (sc_step d k x)) <= count_in o (k_inflight k).
Proof. unfold sc_step. destruct (cancelable d k x); [rewrite cancel_req_inflight; apply count_remove_le|lia]. Qed.

Lemma sc_step_first_count d k x o : count_in o (k_first (sc_step d k x)) <= count_in o (k_first k).
Proof. unfold sc_step. destruct (cancelable d k x); [rewrite cancel_req_first; apply count_remove_le|lia]. Qed.

Lemma fold_sc_count d l : forall k o,
  count_in o (k_inflight (fold_left (sc_step d) l k)) <= count_in o (k_inflight k).
Proof.
  induction l as [|x l IH]; intros k o; cbn [fold_left]; [lia|].
  specialize (IH (sc_step d k x) o). pose proof (sc_step_count d k x o). lia.
Qed.

Lemma fold_sc_first_count d l : forall k o,
  count_in o (k_first (fold_left (sc_step d) l k)) <= count_in o (k_first k).
Proof.
  induction l as [|x l IH]; intros k o; cbn [fold_left]; [lia|].
  specialize (IH (sc_step d k x) o). pose proof (sc_step_first_count d k x o). lia.
Qed.

Lemma fold_sc_cancels d l : forall k o,
  (forall o', count_in o' (k_inflight k) <= 1) -> In o l -> cancelable d k o = true ->
  count_in o (k_inflight (fold_left (sc_step d) l k)) = 0.
Proof.
  induction l as [|x l IH]; intros k o U HI C; [destruct HI|]. cbn [fold_left].
  destruct (Nat.eq_dec x o) as [->|Hne].
  - pose proof (fold_sc_count d l (sc_step d k o) o) as F.
    assert (count_in o (k_inflight (sc_step d k o)) = 0) as Z.
    { unfold sc_step. rewrite C, cancel_req_inflight.
      pose proof (count_remove_same o _ (cancelable_mem d k o C)). specialize (U o). lia. }
    lia.
  - destruct HI as [->|HI]; [congruence|]. apply IH.
    + intros o'. pose proof (sc_step_count d k x o'). specialize (U o'). lia.
    + exact HI.
    + rewrite sc_step_cancelable_other by exact Hne. exact C.
Qed.

(** The blanket cancellation leaves in flight only what it cannot finish. *)
Lemma sync_cancel_leaves d k o :
  (forall o', count_in o' (k_inflight k) <= 1) ->
  mem_nat o (k_inflight (sync_cancel d k)) = true ->
  uncancelable d (sync_cancel d k) o = true.
Proof.
  intros U M. rewrite sync_cancel_fold in *.
  assert (mem_nat o (k_inflight k) = true) as M0.
  { rewrite mem_nat_count in *. pose proof (fold_sc_count d (k_inflight k) k o).
    apply Nat.ltb_lt in M. apply Nat.ltb_lt. lia. }
  destruct (cancelable d k o) eqn:C.
  - pose proof (fold_sc_cancels d (k_inflight k) k o U (mem_nat_In _ _ M0) C) as Z.
    rewrite mem_nat_count, Z in M. discriminate.
  - rewrite cancelable_uncancelable in C by exact M0. apply negb_false_iff in C.
    unfold uncancelable in *. apply orb_true_iff in C. apply orb_true_iff.
    destruct C as [S|T]; [left; exact S|right].
    apply andb_true_iff in T. destruct T as [T1 T2]. apply andb_true_iff. split; [exact T1|].
    apply negb_true_iff in T2. apply negb_true_iff.
    destruct (mem_nat o (k_first (fold_left (sc_step d) (k_inflight k) k))) eqn:F; [|reflexivity].
    rewrite mem_nat_count in F, T2. pose proof (fold_sc_first_count d (k_inflight k) k o).
    apply Nat.ltb_lt in F. apply Nat.ltb_ge in T2. lia.
Qed.

Lemma drain_fixed_inflight fuel : forall s,
  k_sqq (s_k s) = [] ->
  k_inflight (s_k (fst (drain_fixed fuel s))) = k_inflight (s_k s) /\
  k_first (s_k (fst (drain_fixed fuel s))) = k_first (s_k s).
Proof.
  induction fuel as [|f IH]; intros s Q; cbn [drain_fixed]; [split; reflexivity|].
  rewrite (surjective_pairing (enter_all s true)), (surjective_pairing (cq_poll _)).
  set (s1 := fst (enter_all s true)).
  assert (s_k s1 = flush_overflow (d_cqn (s_d s)) (s_k s)) as E1.
  { subst s1. cbn [fst enter_all s_k set_k]. rewrite consume_all_nil by exact Q. reflexivity. }
  assert (k_sqq (s_k s1) = []) as Q1 by (rewrite E1; exact Q).
  set (s2 := fst (cq_poll s1)).
  assert (k_sqq (s_k s2) = [] /\ k_inflight (s_k s2) = k_inflight (s_k s) /\ k_first (s_k s2) = k_first (s_k s)) as (Q2 & I2 & F2).
  { subst s2. rewrite cq_poll_k, (poll_fetch_nil s1 Q1). cbn [k_sqq k_inflight k_first].
    destruct (k_cq (s_k s1)); rewrite ?flush_sqq, ?flush_inflight; cbn [flush_overflow k_first]; rewrite Q1, E1; auto. }
  destruct (match k_cq (fst (poll_fetch s1)) with [] => false | _ => true end).
  - rewrite (surjective_pairing (drain_fixed f s2)). cbn [fst].
    destruct (IH s2 Q2) as [A B]. split; congruence.
  - cbn [fst]. split; assumption.
Qed.

Lemma expect_le_1 x : expect x <= 1.
Proof. unfold expect. destruct (o_st x); try lia. destruct (o_box x); cbn; lia. Qed.

Definition ring_drop_leaves_only_uncancelable : Prop :=
  forall s, wf s -> s_ring s = true ->
    let s' := fst (drop_ring_fixed s) in
    k_sqq (s_k s') = [] /\
    forall o, mem_nat o (k_inflight (s_k s')) = true -> uncancelable (s_d s) (s_k s') o = true.

Theorem ring_drop_leaves_only_uncancelable_holds : ring_drop_leaves_only_uncancelable.
Proof.
  intros s [_ W] R. cbv zeta. unfold drop_ring_fixed. rewrite R.
  rewrite (surjective_pairing (enter_all s false)), (surjective_pairing (drain_fixed _ _)), (surjective_pairing (dec_shared _)).
  cbn [fst]. change (s_k (fst (dec_shared (set_ring ?x false)))) with (s_k x).
  set (k1 := s_k (fst (enter_all s false))).
  set (s2 := set_k (fst (enter_all s false)) (sync_cancel (s_d (fst (enter_all s false))) k1)).
  assert (k_sqq (s_k s2) = []) as Q2 by (subst s2 k1; cbn [s_k set_k]; rewrite sync_cancel_sqq; apply enter_all_sqq).
  split; [apply drain_fixed_sqq; exact Q2|].
  intros o M. destruct (drain_fixed_inflight (S (length (k_cq (s_k s2)) + length (k_ovf (s_k s2)))) s2 Q2) as [EI EF].
  rewrite EI in M. unfold uncancelable. rewrite EF.
  assert (forall o', count_in o' (k_inflight k1) <= 1) as U.
  { intros o'. subst k1. cbn [fst enter_all s_k set_k]. rewrite flush_inflight.
    pose proof (consume_all_owed (s_d s) (s_k s) o') as E. rewrite (wf_owed _ W o') in E.
    pose proof (expect_le_1 (get_op s o')). unfold owedk in E. lia. }
  exact (sync_cancel_leaves (s_d s) k1 o U M).
Qed.

Lemma run_prefix_good st (Hst : forall s e, wf s -> ev_ok s e -> step_good s (st s e)) :
  forall pre s post, wf s -> borrows_ok st s (pre ++ post) ->
    wf (fst (run st s pre)) /\ s_d (fst (run st s pre)) = s_d s.
Proof.
  induction pre as [|e pre IH]; intros s post W B; cbn [run app] in *; [split; [exact W|reflexivity]|].
  destruct B as [Ok B]. pose proof (Hst s e W Ok) as (W1 & _ & D1).
  destruct (st s e) as [s1 l1] eqn:E1. cbn [fst snd] in *.
  destruct (IH s1 post W1 B) as [W2 D2]. destruct (run st s1 pre) as [s2 l2]. cbn [fst] in *.
  split; [exact W2|congruence].
Qed.

(** The class H28 holds only operations a cancellation cannot finish. *)
Definition in_flight_after_ring_drop_is_uncancelable : Prop :=
  forall s es o, wf s -> borrows_ok step_fixed s es ->
    op_in_flight_after_ring_drop step_fixed s es o ->
    mem_nat o (d_surv (s_d s)) = true \/ mem_nat o (d_two (s_d s)) = true.

Theorem in_flight_after_ring_drop_is_uncancelable_holds : in_flight_after_ring_drop_is_uncancelable.
Proof.
  intros s es o W B (pre & post & -> & R & M).
  destruct (run_prefix_good step_fixed step_good_step_fixed pre s _ W B) as [W1 D1].
  cbn [step_fixed step_with] in M. unfold step_fixed, step_with in M.
  destruct (ring_drop_leaves_only_uncancelable_holds _ W1 R) as [_ H]. specialize (H o M).
  unfold uncancelable in H. rewrite D1 in H. apply orb_true_iff in H. destruct H as [H|H]; [left; exact H|right].
  apply andb_true_iff in H. tauto.
Qed.

(** Seeded change C12-k: a ring set up without IORING_SETUP_SUBMIT_ALL. The kernel stops consuming at
    the refused submission; the read queued behind it is consumed by the drain, after the blanket
    cancellation, and is in flight when the [Ring] is gone although nothing stops the kernel from
    cancelling it. With the flag (the code as it is) nothing is left in flight. *)
Definition dims_c12k : dims :=
  {| d_sqn := 4; d_cqn := 4; d_len_sq := 16; d_len_sqes := 256; d_len_cq := 256; d_two := []; d_surv := []; d_rej := [0] |}.
Definition kern_c12k : kern :=
  {| k_sqq := [SOp 0; SOp 1]; k_inflight := []; k_first := []; k_cq := []; k_ovf := [] |}.

Lemma without_submit_all_refuted :
  k_inflight (ring_drop_kernel consume_stop dims_c12k 3 kern_c12k) = [1] /\
  k_sqq (ring_drop_kernel consume_stop dims_c12k 3 kern_c12k) = [] /\
  cancelable dims_c12k (ring_drop_kernel consume_stop dims_c12k 3 kern_c12k) 1 = true /\
  k_inflight (ring_drop_kernel consume_all dims_c12k 3 kern_c12k) = [].
Proof. vm_compute. repeat split; reflexivity. Qed.

(** Non-vacuity: a population with a refused submission queued in front of a read. *)
Definition pop_rej : population :=
  {| pp_d := dims_c12k; pp_clones := 0; pp_fds := 0;
     pp_ops := [(None, IQueued); (None, IQueued)]; pp_pools := 0; pp_bufs := [] |}.
Definition order_rej : list event := [Drop ORing; Drop (OOp 0); Drop (OOp 1)].

Example hypotheses_satisfiable_refused :
  pop_ok pop_rej /\ covers (init pop_rej) order_rej /\ borrows_ok step_fixed (init pop_rej) order_rej /\
  exists m, replay (pp_d pop_rej) (mon_of (init pop_rej)) (snd (run step_fixed (init pop_rej) order_rej)) = Some m /\
            m_fd m = false /\ m_box m = [false; false] /\ m_desc m = [].
Proof.
  decide_case.
  eexists. split; [vm_compute; reflexivity|repeat split; reflexivity].
Qed.
